(* P/SemImp: the Semaphore machine whose code transitions are the interpretation (PrimImp.exec) of translated
   segments, and the ghost bookkeeping that turns an interpretation result into a Sem.st.  Definitions only. *)
From AV Require Import Base C10Defs PrimImp Sem.

(* the fields the code of class Semaphore reads and writes; the CapacityLimiter part of the heap is unused *)
Definition core (s : st) : heap :=
  mkh (fast s) (maxv s) (value s) (waiters s) (futs s) (nfut s) None [] [] (fun _ => false) 0.

Record prog := mkprog {
  p_acquire_entry : stmt;
  p_acquire_yield_resumed : stmt;
  p_acquire_yield_cancelled : stmt;
  p_acquire_wait_resumed : stmt;
  p_acquire_wait_cancelled : stmt;
  p_acquire_nowait : stmt;
  p_release : stmt;
  p_value : expr;                (* property value *)
  p_max_value : expr;            (* property max_value *)
  p_statistics : list expr       (* arguments of SemaphoreStatistics(...) *)
}.

Definition res_of (o : outcome) : option res :=
  match o with
  | ONext | OReturn => Some RDone
  | OSuspend _ => Some RBlocked
  | ORaise EWouldBlock => Some RWouldBlock
  | ORaise ECancelled => Some RCancelled
  | ORaise EValue => Some RValue
  | OCancelled => Some RCancelled
  | _ => None
  end.

Inductive call_kind :=
| KAcquire        (* acquire(): entry segment or a `resumed` continuation; also acquire_nowait() *)
| KAcquireC       (* a `cancelled` continuation of acquire() *)
| KRelease.

(* Ghost bookkeeping.  phase_of / mustc are the asyncio Task's state.  held / extra / infl / dropped / enq are history
   variables of the observer, determined by the events of the segment:
   held    t is added when an acquire call returns to t; a release() that returns removes one t, or counts as an
           `extra` release when t held nothing;
   infl    a permit is reserved for a task while its acquire() has not returned: for t itself when it suspends in
           the shielded yield, for w when release() resolves w's future (g_woke);
   dropped a cancelled continuation that ends with ValueError: the nested release() was refused (value = max_value),
           the permit reserved for t is gone;
   enq     the entries appended to _waiters (g_enq). *)
Definition lift (s : st) (t : tid) (kd : call_kind) (r : result) : st * res :=
  let '(l, g, k, o) := r in
  let ret := returned o in
  (mk (h_fast k) (h_maxv k) (h_value k) (h_waiters k) (h_futs k) (h_nfut k)
      (match o with
       | OSuspend AwYield => upd (phase_of s) t FastYield
       | OSuspend AwFut => match l_fut l with Some f => upd (phase_of s) t (Waiting f) | None => phase_of s end
       | _ => phase_of s
       end)
      (mustc s)
      (init0 s)
      (match kd with
       | KAcquire => if ret then t :: held s else held s
       | KAcquireC => held s
       | KRelease => if ret && mem t (held s) then remove_one t (held s) else held s
       end)
      (g_woke g ++ match o with OSuspend AwYield => t :: infl s | _ => infl s end)
      (match kd with KRelease => if ret && negb (mem t (held s)) then S (extra s) else extra s | _ => extra s end)
      (match kd, o with KAcquireC, ORaise EValue => S (dropped s) | _, _ => dropped s end)
      (ghost_app (enq s) (g_enq g)),
   match res_of o with Some x => x | None => RRejected end).

(* acquire() entered while a cancelled scope is visible (loc_entry_cancelled): the only outcome inside the model is
   OCancelled at the check, i.e. the check neither returned nor let anything of the call run - it yields (phase
   CkYield); the heap the interpretation returns is taken over, so an effect before the check would show.
   What happens to the task in that yield is the kernel / scope machine (C03): Cancel, Resume from the model.
   When the check RETURNS after the yield (CkPass: the cancelled scope was cut off meanwhile, fix F46) the call
   continues after the check.  The translator accepts `await checkpoint_if_cancelled()` only as the FIRST statement
   of acquire() (SemGenEq.tie_acquire_check_first), so "after the check" is the whole entry segment run with a
   live check (a no-op): the same interpretation as for AcqBegin, on the heap as it is at that moment. *)
Definition lift_ck (s : st) (t : tid) (r : result) : st * res :=
  let '(l, g, k, o) := r in
  match o with
  | OCancelled =>
      (mk (h_fast k) (h_maxv k) (h_value k) (h_waiters k) (h_futs k) (h_nfut k) (upd (phase_of s) t CkYield)
          (mustc s) (init0 s) (held s) (g_woke g ++ infl s) (extra s) (dropped s) (ghost_app (enq s) (g_enq g)),
       RBlocked)
  | _ => (s, RRejected)
  end.

(* Which segment runs is CPython's await semantics (as in LockImp.gstep); `leave` is the kernel side of a wake-up
   (phase Idle, _must_cancel consumed, the reservation ends); Cancel is asyncio's Task.cancel(), from the model. *)
Definition gstep (P : prog) (s : st) (o : op) : st * res :=
  match o with
  | AcqBegin t =>
      if negb (is_idle (phase_of s t)) then (s, RRejected) else
      lift s t KAcquire (exec (p_acquire_entry P) t (loc_entry None None) log0 (core s))
  | AcqNowait t =>
      if negb (is_idle (phase_of s t)) then (s, RRejected) else
      lift s t KAcquire (exec (p_acquire_nowait P) t (loc_entry None None) log0 (core s))
  | Release t =>
      if negb (is_idle (phase_of s t)) then (s, RRejected) else
      lift s t KRelease (exec (p_release P) t (loc_entry None None) log0 (core s))
  | Cancel t => step s (Cancel t)
  | AcqBeginC t =>
      if negb (is_idle (phase_of s t)) then (s, RRejected) else
      lift_ck s t (exec (p_acquire_entry P) t (loc_entry_cancelled None) log0 (core s))
  | CkPass t =>
      match phase_of s t with
      | CkYield =>
          let s1 := leave s t in
          if mustc s t then (s1, RCancelled)      (* the pending Task.cancel() is thrown at the sleep(0) *)
          else lift s1 t KAcquire (exec (p_acquire_entry P) t (loc_entry None None) log0 (core s1))
      | _ => (s, RRejected)
      end
  | Resume t =>
      match phase_of s t with
      | Idle => (s, RRejected)
      | CkYield => step s (Resume t)               (* kernel: delivered cancellation raised, or the check spins *)
      | FastYield =>
          let s1 := leave s t in
          if mustc s t
          then lift s1 t KAcquireC (exec (p_acquire_yield_cancelled P) t (loc_resume None None None) log0 (core s1))
          else lift s1 t KAcquire (exec (p_acquire_yield_resumed P) t (loc_resume None None None) log0 (core s1))
      | Waiting f =>
          let s1 := leave s t in
          match futs s f with
          | FPending => (s, RRejected)
          | FCancelled =>
              lift s1 t KAcquireC (exec (p_acquire_wait_cancelled P) t (loc_resume (Some f) None None) log0 (core s1))
          | FSet =>
              if mustc s t
              then lift s1 t KAcquireC
                     (exec (p_acquire_wait_cancelled P) t (loc_resume (Some f) None None) log0 (core s1))
              else lift s1 t KAcquire
                     (exec (p_acquire_wait_resumed P) t (loc_resume (Some f) None None) log0 (core s1))
          end
      end
  end.
