(* C10 clauses for the CapacityLimiter machine, over every op sequence. *)
(* `tainted s = false` (where it appears) excludes exactly one kind of history: release_on_behalf_of(b) was
   called while the acquire call that obtained b's token had not returned yet (O2).  Duplicate borrowers among
   concurrent acquire_on_behalf_of calls are covered by every theorem (F16: the second caller is refused). *)
From AV Require Import Base C10Defs C10Lib Limiter LimiterProofs.
From Coq Require Import Permutation.

Definition reach (v : option nat) (s : st) : Prop := exists ops, s = final step (init v) ops.

Lemma reach_inv0 v s : reach v s -> tainted s = false -> Inv0 s.
Proof. intros [ops ->]. apply reachable_inv. Qed.

Lemma reach_step v s o : reach v s -> reach v (fst (step s o)).
Proof. intros [ops ->]. exists (ops ++ [o]). rewrite final_app. reflexivity. Qed.

(* n <= total, total possibly infinite *)
Definition xle (n : nat) (tot : option nat) : Prop := match tot with None => True | Some m => n <= m end.

(* ---------- small facts about the token-moving functions ---------- *)
Lemma set_add_len b l : length (set_add b l) <= S (length l).
Proof. unfold set_add. destruct (mem b l); cbn; lia. Qed.

Lemma set_add_nodup b l : NoDup l -> NoDup (set_add b l).
Proof.
  intros H. unfold set_add. destruct (mem b l) eqn:E; [exact H|]. apply mem_false in E. now constructor.
Qed.

Lemma in_set_add b l x : In x (set_add b l) <-> x = b \/ In x l.
Proof.
  unfold set_add. destruct (mem b l) eqn:E; cbn.
  - apply mem_In in E. split; [tauto|]. intros [->|H]; auto.
  - split; intros [H|H]; auto.
Qed.

Lemma free_xle bs tot : free bs tot = true -> xle (S (length bs)) tot.
Proof. destruct tot as [m|]; cbn; [|trivial]. intros H. apply Nat.ltb_lt in H. lia. Qed.

Lemma notify_fields s :
  total (notify_next s) = total s /\ held (notify_next s) = held s /\ phase_of (notify_next s) = phase_of s /\
  arrivals (notify_next s) = arrivals s /\ fcanc (notify_next s) = fcanc s /\ mustc (notify_next s) = mustc s.
Proof.
  unfold notify_next. destruct (queue s) as [|[b e] r]; [tauto|]. destruct (free _ _); cbn; tauto.
Qed.

(* _notify_next_waiter: nothing, or the HEAD of the queue gets a token that is free *)
Lemma notify_head s :
  (notify_next s = s) \/
  (exists b e, queue s = (b, e) :: queue (notify_next s) /\ free (borrowers s) (total s) = true /\
               borrowers (notify_next s) = set_add b (borrowers s) /\
               evset (notify_next s) = upd (evset s) e true /\ resv (notify_next s) = b :: resv s).
Proof.
  unfold notify_next. destruct (queue s) as [|[b e] r] eqn:Eq; [now left|].
  destruct (free (borrowers s) (total s)) eqn:Ef; [|now left].
  right. exists b, e. cbn. auto.
Qed.

Lemma notify_grant s :
  borrowers (notify_next s) = borrowers s \/ xle (length (borrowers (notify_next s))) (total s).
Proof.
  destruct (notify_head s) as [E|(b & e & _ & Hf & Eb & _)]; [left; now rewrite E|].
  right. rewrite Eb. apply free_xle in Hf. pose proof (set_add_len b (borrowers s)).
  destruct (total s); cbn in *; [lia|trivial].
Qed.

Lemma give_back_grant s b :
  (forall x, In x (borrowers (give_back s b)) -> In x (borrowers s)) \/
  xle (length (borrowers (give_back s b))) (total s).
Proof.
  unfold give_back.
  destruct (notify_grant (with_tok s (remove_one b (borrowers s)) (queue s) (evset s) (resv s))) as [E|H].
  - left. rewrite E. cbn. intros x. apply in_remove_one_incl.
  - right. exact H.
Qed.

Lemma give_back_fields s b :
  total (give_back s b) = total s /\ held (give_back s b) = held s /\ phase_of (give_back s b) = phase_of s /\
  arrivals (give_back s b) = arrivals s.
Proof.
  unfold give_back. pose proof (notify_fields (with_tok s (remove_one b (borrowers s)) (queue s) (evset s) (resv s))).
  cbn in *. tauto.
Qed.

Lemma wake_free_grant v q : forall bs ev rv,
  match wake_free v q bs ev rv with
  | (q', bs', _, _) => (bs' = bs \/ xle (length bs') v) /\ exists pre, q = pre ++ q' /\
                       (forall x, In x bs' <-> In x bs \/ In x (keys pre))
  end.
Proof.
  induction q as [|[b e] r IH]; intros bs ev rv; cbn [wake_free].
  - split; [now left|]. exists []. split; [reflexivity|]. cbn. tauto.
  - destruct (free bs v) eqn:Ef.
    + specialize (IH (set_add b bs) (upd ev e true) (b :: rv)).
      destruct (wake_free v r (set_add b bs) (upd ev e true) (b :: rv)) as [[[q' bs'] ev'] rv'].
      destruct IH as [H1 (pre & H2 & H3)]. split.
      * right. destruct H1 as [->|H1]; [|exact H1]. apply free_xle in Ef.
        pose proof (set_add_len b bs). destruct v; cbn in *; [lia|trivial].
      * exists ((b, e) :: pre). split; [cbn; now rewrite H2|]. intros x. rewrite H3, in_set_add. cbn. intuition (subst; auto).
    + split; [now left|]. exists []. split; [reflexivity|]. cbn. tauto.
Qed.

Lemma wake_free_nodup v q : forall bs ev rv, NoDup bs ->
  match wake_free v q bs ev rv with (_, bs', _, _) => NoDup bs' end.
Proof.
  induction q as [|[b e] r IH]; intros bs ev rv H; cbn [wake_free]; [exact H|].
  destruct (free bs v); [|exact H]. apply IH. now apply set_add_nodup.
Qed.

(* ---------- a borrower never holds two tokens: the borrower list is duplicate-free in EVERY reachable
   state (also outside the stated input domain) ---------- *)
Lemma notify_nodup s : NoDup (borrowers s) -> NoDup (borrowers (notify_next s)).
Proof.
  intros H. destruct (notify_head s) as [E|(b & e & _ & _ & Eb & _)]; [now rewrite E|].
  rewrite Eb. now apply set_add_nodup.
Qed.

Lemma give_back_nodup s b : NoDup (borrowers s) -> NoDup (borrowers (give_back s b)).
Proof. intros H. unfold give_back. apply notify_nodup. cbn. now apply nodup_remove_one. Qed.

Lemma reach_uinv v s : reach v s -> Uinv s.
Proof. intros [ops ->]. apply reachable_uinv. Qed.

Theorem lim_borrowers_nodup v s : reach v s -> NoDup (borrowers s).
Proof. intros R. apply (U_bnd _ (U_core _ (reach_uinv v s R))). Qed.

(* ---------- 1. a token is granted only when one is free ---------- *)
(* every step (of any kind, from any state): either no new borrower appears, or afterwards the borrowers
   fit into total_tokens - i.e. the last token handed out in the step was free when it was handed out *)
Theorem lim_grant_only_if_free s o :
  let s' := fst (step s o) in
  (forall b, In b (borrowers s') -> In b (borrowers s)) \/ xle (length (borrowers s')) (total s').
Proof.
  cbv zeta. destruct o as [t b|t b|t b|t|t|t v|t k]; unfold step; cbn [step_gen].
  - destruct (is_idle _); cbn [negb fst]; [|now left].
    destruct (mem b (borrowers s)); [now left|].
    destruct (busy s) eqn:Eb; [unfold enq_head; destruct (mem b (keys (queue s))); now left|].
    cbn [fst borrowers total]. right.
    unfold busy in Eb. apply orb_false_l2 in Eb. destruct Eb as [_ Hf]. apply negb_false_iff in Hf.
    apply free_xle in Hf. exact Hf.
  - destruct (is_idle _); cbn [negb fst]; [|now left].
    destruct (mem b (borrowers s)); [now left|].
    destruct (busy s) eqn:Eb; cbn [fst borrowers total]; [now left|]. right.
    unfold busy in Eb. apply orb_false_l2 in Eb. destruct Eb as [_ Hf]. apply negb_false_iff in Hf.
    apply free_xle in Hf. exact Hf.
  - destruct (is_idle _); cbn [negb fst]; [|now left].
    destruct (mem b (borrowers s)); cbn [negb fst]; [|now left]. cbn [borrowers total].
    pose proof (give_back_fields s b) as (-> & _). apply give_back_grant.
  - destruct (phase_of s t) as [|b|b e]; [now left| |].
    + destruct (mustc s t); [|now left].
      unfold fy_cancel. destruct (mem b _); cbn [fst]; [|now left].
      pose proof (give_back_fields (leave s t (remove_one b (resv s))) b) as (-> & _).
      apply (give_back_grant (leave s t (remove_one b (resv s))) b).
    + destruct (negb (evset s e) && negb (fcanc s t)); cbn [fst]; [now left|].
      destruct (fcanc s t || mustc s t); [|now left].
      destruct (evset s e); cbn [fst]; [|now left].
      match goal with |- context [give_back ?x b] =>
        pose proof (give_back_fields x b) as (-> & _); apply (give_back_grant x b) end.
  - destruct (phase_of s t) as [|b|b e]; [now left|now left|].
    destruct (negb (evset s e) && negb (fcanc s t)); now left.
  - destruct (is_idle _); cbn [negb fst]; [|now left]. unfold set_total.
    pose proof (wake_free_grant v (queue s) (borrowers s) (evset s) (resv s)) as Hg.
    destruct (wake_free _ _ _ _ _) as [[[q' bs'] ev'] rv']. cbn. destruct Hg as [[->|Hg] _]; [now left|now right].
  - destruct (is_idle _); cbn [negb fst]; [|now left]. destruct k as [|[|[|k]]]; now left.
Qed.

(* a direct (non-queued) grant needs a free token AND an empty queue: no barging *)
Theorem lim_direct_grant_needs_free s t b o :
  o = AcqOn t b \/ o = AcqOnNowait t b ->
  In b (borrowers (fst (step s o))) -> ~ In b (borrowers s) ->
  free (borrowers s) (total s) = true /\ queue s = [].
Proof.
  intros [-> | ->] Hin Hn; unfold step in Hin; cbn [step_gen] in Hin;
    (destruct (is_idle _); cbn [negb fst] in Hin; [|contradiction]);
    (destruct (mem b (borrowers s)); [contradiction|]);
    (destruct (busy s) eqn:Eb;
     [try (unfold enq_head in Hin; destruct (mem b (keys (queue s)))); cbn in Hin; contradiction|]);
    unfold busy in Eb; apply orb_false_l2 in Eb; destruct Eb as [Hq Hf];
    apply negb_false_iff in Hf; apply negb_false_iff, is_nil_true in Hq; auto.
Qed.

Lemma step_total s o : (forall t v, o <> SetTotal t v) -> total (fst (step s o)) = total s.
Proof.
  intros Hne. destruct o as [t b|t b|t b|t|t|t v|t k]; unfold step; cbn [step_gen].
  - destruct (is_idle _); cbn [negb fst]; [|reflexivity]. destruct (mem _ _); [reflexivity|].
    destruct (busy s); [unfold enq_head; destruct (mem b (keys (queue s)))|]; reflexivity.
  - destruct (is_idle _); cbn [negb fst]; [|reflexivity]. destruct (mem _ _); [reflexivity|].
    destruct (busy s); reflexivity.
  - destruct (is_idle _); cbn [negb fst]; [|reflexivity]. destruct (mem _ _); cbn [negb fst]; [|reflexivity].
    cbn. now pose proof (give_back_fields s b) as (-> & _).
  - destruct (phase_of s t) as [|b|b e]; [reflexivity| |].
    + destruct (mustc s t); [|reflexivity]. unfold fy_cancel. destruct (mem b _); cbn [fst]; [|reflexivity].
      now pose proof (give_back_fields (leave s t (remove_one b (resv s))) b) as (-> & _).
    + destruct (negb (evset s e) && negb (fcanc s t)); cbn [fst]; [reflexivity|].
      destruct (fcanc s t || mustc s t); [|reflexivity]. destruct (evset s e); cbn [fst]; [|reflexivity].
      match goal with |- context [give_back ?x b] => now pose proof (give_back_fields x b) as (-> & _) end.
  - destruct (phase_of s t) as [|b|b e]; [reflexivity|reflexivity|].
    destruct (negb (evset s e) && negb (fcanc s t)); reflexivity.
  - exfalso. eapply Hne. reflexivity.
  - destruct (is_idle _); cbn [negb fst]; [|reflexivity]. destruct k as [|[|[|k]]]; reflexivity.
Qed.

(* one step: `borrowed <= total` is preserved by every step except an assignment of total_tokens below the
   number borrowed at that moment; in particular, once it holds again after such a lowering it keeps holding *)
Theorem lim_within_total_preserved v s o : reach v s ->
  xle (length (borrowers s)) (total s) ->
  (forall t x, o = SetTotal t x -> xle (length (borrowers s)) x) ->
  xle (length (borrowers (fst (step s o)))) (total (fst (step s o))).
Proof.
  intros R Hle Hset. destruct (lim_grant_only_if_free s o) as [Hincl|H]; [|exact H].
  pose proof (lim_borrowers_nodup v _ (reach_step v s o R)) as Hn.
  assert (Hlen : length (borrowers (fst (step s o))) <= length (borrowers s))
    by (apply NoDup_incl_length; [exact Hn|exact Hincl]).
  assert (Htot : total (fst (step s o)) = total s \/ exists t x, o = SetTotal t x /\ total (fst (step s o)) = x).
  { destruct o as [t b|t b|t b|t|t|t x|t k]; try (left; apply step_total; intros; discriminate).
    unfold step; cbn [step_gen]. destruct (is_idle _); cbn [negb fst]; [|now left].
    right. exists t, x. split; [reflexivity|]. unfold set_total.
    destruct (wake_free _ _ _ _ _) as [[[q' bs'] ev'] rv']. reflexivity. }
  destruct Htot as [->|(t & x & -> & ->)].
  - destruct (total s); cbn in *; [lia|trivial].
  - specialize (Hset t x eq_refl). destruct x; cbn in *; [lia|trivial].
Qed.

(* a step that only ADDS borrowers (nobody leaves, total_tokens unchanged) starts from borrowed < total:
   no step ever adds a borrower while borrowed >= total - in every reachable state, also over capacity *)
Theorem lim_no_borrower_added_when_full v s o : reach v s ->
  total (fst (step s o)) = total s ->
  (forall b, In b (borrowers s) -> In b (borrowers (fst (step s o)))) ->
  (exists b, In b (borrowers (fst (step s o))) /\ ~ In b (borrowers s)) ->
  free (borrowers s) (total s) = true.
Proof.
  intros R Et Hkeep (b & Hb & Hnb).
  pose proof (lim_borrowers_nodup v s R) as Hn.
  destruct (lim_grant_only_if_free s o) as [Hincl|H]; [exfalso; apply Hnb, Hincl, Hb|].
  assert (Hlen : length (b :: borrowers s) <= length (borrowers (fst (step s o)))).
  { apply NoDup_incl_length; [now constructor|]. intros x [<-|Hx]; [exact Hb|now apply Hkeep]. }
  rewrite Et in H. unfold free. destruct (total s) as [m|]; [|reflexivity].
  cbn in H, Hlen. apply Nat.ltb_lt. lia.
Qed.

(* the reachable-state form: in every run in which total_tokens is never assigned a value below the number
   of tokens borrowed at that moment, `borrowed <= total` holds in every state of the run.
   (Without that proviso over-capacity states ARE reachable - ex_over_capacity_reachable - and then only
   shrink: lim_grant_only_if_free, lim_no_borrower_added_when_full.) *)
Fixpoint never_lowered_below_borrowed (s : st) (ops : list op) : Prop :=
  match ops with
  | [] => True
  | o :: r => (forall t x, o = SetTotal t x -> xle (length (borrowers s)) x) /\
              never_lowered_below_borrowed (fst (step s o)) r
  end.

Lemma never_over_granted_from v ops : forall s, reach v s -> xle (length (borrowers s)) (total s) ->
  never_lowered_below_borrowed s ops ->
  xle (length (borrowers (final step s ops))) (total (final step s ops)).
Proof.
  induction ops as [|o r IH]; intros s R Hle Hok; cbn; [exact Hle|].
  destruct Hok as [H1 H2]. apply IH; [now apply reach_step| |exact H2].
  now apply (lim_within_total_preserved v).
Qed.

Theorem lim_never_over_granted v ops : never_lowered_below_borrowed (init v) ops ->
  xle (length (borrowers (final step (init v) ops))) (total (final step (init v) ops)).
Proof.
  intros Hok. apply (never_over_granted_from v); [exists []; reflexivity| |exact Hok].
  cbn. destruct v; cbn; [lia|trivial].
Qed.

(* the pre-fix setter (wake max(new - old, 0) waiters) refutes the clause: 2 borrowers, total := 0, two
   waiters queue, total := 2  =>  4 borrowers of 2 (finding F1), inside the stated input domain *)
Definition f1_ops : list op :=
  [AcqOnNowait 1 1; AcqOnNowait 2 2; SetTotal 1 (Some 0); AcqOn 3 3; AcqOn 4 4; SetTotal 1 (Some 2)].

Theorem lim_grant_only_if_free_refuted_pinned :
  exists ops, let s := final step_pinned (init (Some 2)) ops in
    length (borrowers s) = 4 /\ total s = Some 2 /\ tainted s = false /\
    ~ ((forall b, In b (borrowers s) -> In b (borrowers (final step_pinned (init (Some 2)) (removelast ops)))) \/
       xle (length (borrowers s)) (total s)).
Proof.
  exists f1_ops. vm_compute. refine (conj eq_refl (conj eq_refl (conj eq_refl _))).
  intros [H|H]; [|lia]. specialize (H 4). destruct H as [H|[H|H]]; try discriminate; [now left|contradiction].
Qed.

Example f1_fixed_at_head :
  let s := final step (init (Some 2)) f1_ops in
  length (borrowers s) = 2 /\ total s = Some 2 /\ length (queue s) = 2.
Proof. vm_compute. auto. Qed.

(* ---------- 2. the reported counts are the true counts ---------- *)
Lemma nodup_app_disj {A} (l1 l2 : list A) :
  NoDup l1 -> NoDup l2 -> (forall x, In x l1 -> ~ In x l2) -> NoDup (l1 ++ l2).
Proof.
  induction l1 as [|a l1 IH]; cbn; intros H1 H2 Hd; [exact H2|].
  inversion H1 as [|y l Hy Hl]; subst. constructor.
  - intros H. apply in_app_or in H. destruct H as [H|H]; [contradiction|]. apply (Hd a); auto.
  - apply IH; auto.
Qed.

(* borrowers = (borrowers whose acquire returned and who were not released since) + (borrowers for which a
   task owns a token inside an unfinished acquire call: shielded yield, or woken and not yet run);
   the wait queue = the waiting calls that were not granted a token *)
Theorem lim_counts_true v s : reach v s -> tainted s = false ->
  NoDup (borrowers s) /\
  (forall b, In b (borrowers s) <-> In b (held s) \/ In b (resv s)) /\
  (forall b, In b (held s) -> ~ In b (resv s)) /\
  length (borrowers s) = length (held s) + length (resv s) /\
  (forall b, In b (resv s) <->
     exists t, phase_of s t = FastYield b \/ exists e, phase_of s t = Waiting b e /\ evset s e = true) /\
  (forall b e, In (b, e) (queue s) <-> (exists t, phase_of s t = Waiting b e) /\ evset s e = false) /\
  NoDup (keys (queue s)) /\
  (* what the API reports (the observation compared with the implementation on every step) *)
  (forall r, nth 1 (observe s r) 0%Z = nz (length (held s) + length (resv s))) /\
  avail_code s = match total s with
                 | None => inf_code
                 | Some n => (nz n - nz (length (held s) + length (resv s)))%Z
                 end.
Proof.
  intros R Ht. destruct (reach_inv0 v s R Ht) as [C _].
  assert (Hlen : length (borrowers s) = length (held s) + length (resv s)).
  { rewrite <- app_length. apply Permutation_length. apply NoDup_Permutation.
    - apply (L_bnd _ C).
    - apply nodup_app_disj; [apply (L_hnd _ C)|apply (L_rnd _ C)|apply (L_disj _ C)].
    - intros x. rewrite in_app_iff. apply (L_split _ C). }
  refine (conj (L_bnd _ C) (conj (L_split _ C) (conj (L_disj _ C) (conj Hlen (conj (L_resv _ C)
          (conj (L_q _ C) (conj (L_qnd _ C) (conj _ _)))))))).
  - intros r. cbn. now rewrite Hlen.
  - unfold avail_code. now rewrite Hlen.
Qed.

(* the ghost `held` is what it claims: a returned acquire for b adds b, an accepted release of b removes it *)
Lemma set_total_fields s v : held (set_total s v) = held s /\ arrivals (set_total s v) = arrivals s /\
  phase_of (set_total s v) = phase_of s.
Proof. unfold set_total. destruct (wake_free _ _ _ _ _) as [[[q' bs'] ev'] rv']. cbn. tauto. Qed.

Theorem lim_held_tracks_returns s o s' r : step s o = (s', r) ->
  match r with
  | RDone =>
      (exists t b, (o = AcqOnNowait t b \/ (o = Resume t /\ inprog s t b)) /\ held s' = b :: held s) \/
      (exists t b, o = RelOn t b /\ In b (borrowers s) /\ held s' = remove_one b (held s)) \/
      (exists t x, o = SetTotal t x /\ held s' = held s)
  | _ => held s' = held s
  end.
Proof.
  destruct o as [t b|t b|t b|t|t|t x|t k]; unfold step; cbn [step_gen]; intros H.
  - destruct (is_idle _); cbn [negb] in H; [|injection H as <- <-; reflexivity].
    destruct (mem _ _); [injection H as <- <-; reflexivity|].
    destruct (busy s); [unfold enq_head in H; destruct (mem b (keys (queue s)))|]; injection H as <- <-; reflexivity.
  - destruct (is_idle _); cbn [negb] in H; [|injection H as <- <-; reflexivity].
    destruct (mem _ _); [injection H as <- <-; reflexivity|].
    destruct (busy s); injection H as <- <-; [reflexivity|]. left. exists t, b. cbn. auto.
  - destruct (is_idle _); cbn [negb] in H; [|injection H as <- <-; reflexivity].
    destruct (mem b (borrowers s)) eqn:Em; cbn [negb] in H; [|injection H as <- <-; reflexivity].
    injection H as <- <-. right. left. exists t, b. apply mem_In in Em. cbn.
    pose proof (give_back_fields s b) as (_ & -> & _). auto.
  - destruct (phase_of s t) as [|b|b e] eqn:Ep; [injection H as <- <-; reflexivity| |].
    + destruct (mustc s t).
      * unfold fy_cancel in H. destruct (mem b _); injection H as <- <-; [|reflexivity].
        now pose proof (give_back_fields (leave s t (remove_one b (resv s))) b) as (_ & -> & _).
      * injection H as <- <-. left. exists t, b. cbn. split; [right; split; [reflexivity|now left]|reflexivity].
    + destruct (negb (evset s e) && negb (fcanc s t)); [injection H as <- <-; reflexivity|].
      destruct (fcanc s t || mustc s t).
      * destruct (evset s e); injection H as <- <-; [|reflexivity].
        match goal with |- context [give_back ?x b] => now pose proof (give_back_fields x b) as (_ & -> & _) end.
      * injection H as <- <-. left. exists t, b. cbn.
        split; [right; split; [reflexivity|right; eauto]|reflexivity].
  - destruct (phase_of s t) as [|b|b e]; [| |destruct (negb (evset s e) && negb (fcanc s t))];
      injection H as <- <-; reflexivity.
  - destruct (is_idle _); cbn [negb] in H; injection H as <- <-; [|reflexivity].
    right. right. exists t, x. split; [reflexivity|]. apply set_total_fields.
  - destruct (is_idle _); cbn [negb] in H; [|injection H as <- <-; reflexivity].
    destruct k as [|[|[|k]]]; injection H as <- <-; reflexivity.
Qed.

(* ---------- 3. first come first served ---------- *)
(* every reachable state, also with duplicate borrowers and after misuse O2 (no `tainted` hypothesis) *)
Theorem lim_queue_in_arrival_order v s : reach v s -> subseq (queue s) (arrivals s).
Proof. intros R. apply (U_fifo _ (U_core _ (reach_uinv v s R))). Qed.

Theorem lim_arrival_log_append_only s o : exists l, arrivals (fst (step s o)) = arrivals s ++ l.
Proof.
  assert (Hnil : forall s', arrivals s' = arrivals s -> exists l, arrivals s' = arrivals s ++ l).
  { intros s' E. exists []. now rewrite app_nil_r. }
  destruct o as [t b|t b|t b|t|t|t x|t k]; unfold step; cbn [step_gen].
  - destruct (is_idle _); cbn [negb fst]; [|now apply Hnil]. destruct (mem _ _); [now apply Hnil|].
    destruct (busy s); [unfold enq_head; destruct (mem b (keys (queue s)))|]; cbn [fst arrivals enqueue];
      [now apply Hnil|eexists; reflexivity|now apply Hnil].
  - destruct (is_idle _); cbn [negb fst]; [|now apply Hnil]. destruct (mem _ _); [now apply Hnil|].
    destruct (busy s); now apply Hnil.
  - destruct (is_idle _); cbn [negb fst]; [|now apply Hnil]. destruct (mem _ _); cbn [negb fst]; [|now apply Hnil].
    apply Hnil. cbn. now pose proof (give_back_fields s b) as (_ & _ & _ & ->).
  - destruct (phase_of s t) as [|b|b e]; [now apply Hnil| |].
    + destruct (mustc s t); [|now apply Hnil]. unfold fy_cancel. destruct (mem b _); cbn [fst]; [|now apply Hnil].
      apply Hnil.
      now pose proof (give_back_fields (leave s t (remove_one b (resv s))) b) as (_ & _ & _ & ->).
    + destruct (negb (evset s e) && negb (fcanc s t)); cbn [fst]; [now apply Hnil|].
      destruct (fcanc s t || mustc s t); [|now apply Hnil]. destruct (evset s e); cbn [fst]; [|now apply Hnil].
      apply Hnil. match goal with |- context [give_back ?x b] =>
        now pose proof (give_back_fields x b) as (_ & _ & _ & ->) end.
  - destruct (phase_of s t) as [|b|b e]; [| |destruct (negb (evset s e) && negb (fcanc s t))]; now apply Hnil.
  - destruct (is_idle _); cbn [negb fst]; [|now apply Hnil]. apply Hnil. apply set_total_fields.
  - destruct (is_idle _); cbn [negb fst]; [|now apply Hnil]. destruct k as [|[|[|k]]]; now apply Hnil.
Qed.

(* a token passed on by release / by a cancelled grantee goes to the HEAD of the queue, and only if free *)
Theorem lim_notify_serves_head s :
  notify_next s = s \/
  exists b e, queue s = (b, e) :: queue (notify_next s) /\ free (borrowers s) (total s) = true /\
              borrowers (notify_next s) = set_add b (borrowers s) /\
              evset (notify_next s) = upd (evset s) e true /\ resv (notify_next s) = b :: resv s.
Proof. apply notify_head. Qed.

Lemma wake_free_stops x q : forall bs ev rv,
  match wake_free x q bs ev rv with (q', bs', _, _) => q' <> [] -> free bs' x = false end.
Proof.
  induction q as [|[b e] r IH]; intros bs ev rv; cbn [wake_free].
  - intros H. now contradiction H.
  - destruct (free bs x) eqn:Ef; [apply IH|]. intros _. exact Ef.
Qed.

(* the total_tokens setter serves a PREFIX of the queue, in order *)
Theorem lim_set_total_serves_prefix s x :
  exists pre, queue s = pre ++ queue (set_total s x) /\ total (set_total s x) = x /\
    (forall b, In b (borrowers (set_total s x)) <-> In b (borrowers s) \/ In b (keys pre)) /\
    (queue (set_total s x) <> [] -> free (borrowers (set_total s x)) x = false).
Proof.
  unfold set_total. pose proof (wake_free_grant x (queue s) (borrowers s) (evset s) (resv s)) as Hg.
  pose proof (wake_free_stops x (queue s) (borrowers s) (evset s) (resv s)) as Hf.
  destruct (wake_free _ _ _ _ _) as [[[q' bs'] ev'] rv']. destruct Hg as [_ (pre & H1 & H2)].
  exists pre. cbn. auto.
Qed.

(* while somebody queues no token is free (no lost wake-up): every reachable state, no `tainted` hypothesis *)
Theorem lim_no_free_token_with_waiters v s : reach v s ->
  queue s <> [] -> free (borrowers s) (total s) = false.
Proof.
  intros R Hq. pose proof (U_nofree _ (reach_uinv v s R)) as N. specialize (N Hq).
  unfold free. destruct (total s) as [m|]; [|contradiction]. apply Nat.ltb_ge. lia.
Qed.

(* the wait queue has at most one slot per borrower and a queued borrower holds no token - in EVERY reachable
   state; and (unless release_on_behalf_of was misused, O2) at most one task is inside an acquire call for a
   given borrower, duplicates included: the second caller is refused, see lim_waiting_borrower_rejected *)
Theorem lim_wait_queue_keys_distinct v s : reach v s ->
  NoDup (keys (queue s)) /\
  (forall b, In b (keys (queue s)) -> ~ In b (borrowers s)) /\
  (tainted s = false -> forall t1 t2 b, inprog s t1 b -> inprog s t2 b -> t1 = t2).
Proof.
  intros R. pose proof (U_core _ (reach_uinv v s R)) as C.
  refine (conj (U_qnd _ C) (conj (U_qb _ C) _)). intros Ht. destruct (reach_inv0 v s R Ht) as [C0 _].
  apply (L_uniq _ C0).
Qed.

(* a borrower that already has a slot in the wait queue is refused: RuntimeError, nothing changes
   (acquire_on_behalf_of_nowait keeps answering WouldBlock) *)
Theorem lim_waiting_borrower_rejected s t b :
  phase_of s t = Idle -> In b (keys (queue s)) -> ~ In b (borrowers s) ->
  step s (AcqOn t b) = (s, RRuntime) /\ step s (AcqOnNowait t b) = (s, RWouldBlock).
Proof.
  intros Hp Hk Hb. assert (Hbusy : busy s = true).
  { unfold busy. destruct (queue s); [destruct Hk|reflexivity]. }
  apply mem_false in Hb. unfold step; cbn [step_gen]. rewrite Hp, Hb, Hbusy. cbn [is_idle negb].
  unfold enq_head. apply mem_In in Hk. rewrite Hk. auto.
Qed.

(* the same in terms of tasks: while some task waits (without a token) on behalf of b, every further
   acquire_on_behalf_of(b) is refused and leaves the state unchanged *)
Theorem lim_second_waiter_rejected v s t u b e : reach v s -> tainted s = false ->
  phase_of s u = Waiting b e -> evset s e = false -> phase_of s t = Idle ->
  step s (AcqOn t b) = (s, RRuntime).
Proof.
  intros R Ht Hu He Hp. destruct (reach_inv0 v s R Ht) as [C _].
  assert (Hin : In (b, e) (queue s)) by (apply (L_q _ C); split; eauto).
  apply lim_waiting_borrower_rejected; [exact Hp|eapply in_keys; eauto|].
  apply (L_qb _ C). eapply in_keys; eauto.
Qed.

(* no lost waiter: a task that is blocked without a token owns a slot of the wait queue, and no token is free *)
Theorem lim_no_lost_waiter v s t b e : reach v s -> tainted s = false ->
  phase_of s t = Waiting b e -> evset s e = false ->
  In (b, e) (queue s) /\ free (borrowers s) (total s) = false.
Proof.
  intros R Ht Hp He. destruct (reach_inv0 v s R Ht) as [C _].
  assert (Hin : In (b, e) (queue s)) by (apply (L_q _ C); split; eauto).
  split; [exact Hin|]. apply (lim_no_free_token_with_waiters v s R). intros E. rewrite E in Hin. destruct Hin.
Qed.

(* F16 (fixed in /repo by 44feca9): before the fix the second waiter for a borrower overwrote the first one's
   slot.  Witness A ("restart"): total 1 taken by 12; task 1 waits for 11 and is cancelled; in the same cycle
   task 2 asks for 11 and overwrites the slot; task 1's cancellation handler pops the slot (now task 2's);
   12 is released: task 2 stays blocked for ever with an empty queue and a free token.
   Witness B (two plain waiters): the token released by 12 goes to the SECOND caller (task 2) while the first
   one (task 1) has lost its slot: tasks_waiting = 0 with task 1 blocked. *)
Definition f16a_ops : list op :=
  [AcqOnNowait 3 12; AcqOn 1 11; Cancel 1; AcqOn 2 11; Resume 1; RelOn 3 12].
Definition f16b_ops : list op :=
  [AcqOnNowait 3 12; AcqOn 1 11; AcqOn 2 11; RelOn 3 12].

Theorem lim_duplicate_waiter_refuted_pinned :
  (* A: refutes lim_no_lost_waiter on the pre-fix step: untainted, task 2 blocked without a token, and yet it
     owns no slot of the wait queue and a token is free *)
  (exists ops, let s := final step_f16_pinned (init (Some 1)) ops in
     tainted s = false /\
     phase_of s 2 = Waiting 11 1 /\ evset s 1 = false /\ fcanc s 2 = false /\ mustc s 2 = false /\
     ~ In (11, 1) (queue s) /\ free (borrowers s) (total s) = true /\
     queue s = [] /\ borrowers s = [] /\ phase_of s 1 = Idle) /\
  (* B: refutes lim_wait_queue_keys_distinct (one task per borrower), lim_no_lost_waiter and first come first
     served on the pre-fix step: untainted, tasks 1 and 2 both wait for 11, the token went to the LATER arrival
     (11,1) while the earlier one (11,0), never cancelled, has no slot any more *)
  (exists ops, let s := final step_f16_pinned (init (Some 1)) ops in
     tainted s = false /\
     inprog s 1 11 /\ inprog s 2 11 /\
     phase_of s 1 = Waiting 11 0 /\ evset s 0 = false /\ fcanc s 1 = false /\ ~ In (11, 0) (queue s) /\
     phase_of s 2 = Waiting 11 1 /\ evset s 1 = true /\
     arrivals s = [(11, 0); (11, 1)] /\ queue s = [] /\ borrowers s = [11]).
Proof.
  split; [exists f16a_ops|exists f16b_ops]; vm_compute.
  - refine (conj eq_refl (conj eq_refl (conj eq_refl (conj eq_refl (conj eq_refl (conj _ (conj eq_refl
           (conj eq_refl (conj eq_refl eq_refl))))))))). intros [].
  - refine (conj eq_refl (conj _ (conj _ (conj eq_refl (conj eq_refl (conj eq_refl (conj _ (conj eq_refl
           (conj eq_refl (conj eq_refl (conj eq_refl eq_refl))))))))))).
    + right. exists 0. reflexivity.
    + right. exists 1. reflexivity.
    + intros [].
Qed.

Example f16_fixed_at_head :
  let sa := final step (init (Some 1)) f16a_ops in
  let sb := final step (init (Some 1)) f16b_ops in
  snd (step (final step (init (Some 1)) [AcqOnNowait 3 12; AcqOn 1 11; Cancel 1]) (AcqOn 2 11)) = RRuntime /\
  phase_of sa 2 = Idle /\ phase_of sa 1 = Idle /\ borrowers sa = [] /\ queue sa = [] /\ tainted sa = false /\
  phase_of sb 2 = Idle /\ phase_of sb 1 = Waiting 11 0 /\ evset sb 0 = true /\ borrowers sb = [11] /\
  tainted sb = false.
Proof. vm_compute. auto 15. Qed.

(* ---------- 4. cancellation conserves the tokens ---------- *)
(* (a) the wait is cancelled and no token was granted: only the queue entry disappears *)
Theorem lim_cancel_before_grant v s t b e : reach v s -> tainted s = false ->
  phase_of s t = Waiting b e -> evset s e = false -> fcanc s t = true ->
  let s' := fst (step s (Resume t)) in
  snd (step s (Resume t)) = RCancelled /\ borrowers s' = borrowers s /\ held s' = held s /\
  resv s' = resv s /\ total s' = total s /\ ~ In b (keys (queue s')) /\ subseq (queue s') (queue s) /\
  phase_of s' t = Idle /\ tainted s' = false.
Proof.
  intros R Ht Hp He Hc. destruct (reach_inv0 v s R Ht) as [C _].
  unfold step; cbn [step_gen]. rewrite Hp, He, Hc. cbn.
  refine (conj eq_refl (conj eq_refl (conj eq_refl (conj eq_refl (conj eq_refl (conj _ (conj _ (conj _ Ht)))))))).
  - apply queue_pop_gone, (L_qnd _ C).
  - apply queue_pop_subseq.
  - apply upd_same.
Qed.

(* (b) the token had been granted (before or after the cancellation reached the task), or the task sits in
   the shielded yield of acquire() / acquire_on_behalf_of(b) (any borrower b, also a foreign one): the token
   is given back on behalf of b and offered to the head of the queue *)
Theorem lim_cancel_after_grant v s t b : reach v s -> tainted s = false ->
  ((exists e, phase_of s t = Waiting b e /\ evset s e = true /\ (fcanc s t = true \/ mustc s t = true)) \/
   (phase_of s t = FastYield b /\ mustc s t = true)) ->
  let s' := fst (step s (Resume t)) in
  snd (step s (Resume t)) = RCancelled /\ ~ In b (borrowers s') /\ ~ In b (held s') /\ ~ In b (resv s') /\
  held s' = held s /\ phase_of s' t = Idle /\ tainted s' = false /\ Inv0 s' /\
  (borrowers s' = remove_one b (borrowers s) \/
   exists b' e', queue s = (b', e') :: queue s' /\ free (remove_one b (borrowers s)) (total s) = true /\
                 borrowers s' = b' :: remove_one b (borrowers s)).
Proof.
  intros R Ht Hcase. destruct (reach_inv0 v s R Ht) as [C N].
  assert (Hr : resv_phase s t b).
  { destruct Hcase as [(e & H1 & H2 & _)|(H1 & _)]; [right; eauto|now left]. }
  destruct (resv_facts s t b C Hr) as (Hrv & Hb & Hh & Hk).
  (* the state from which the token is offered to the queue *)
  set (s0 := mk (total s) (remove_one b (borrowers s)) (queue s) (evset s) (nev s) (upd (phase_of s) t Idle)
                (upd (fcanc s) t false) (upd (mustc s) t false) (held s) (remove_one b (resv s)) (arrivals s)
                (tainted s)).
  assert (E : step s (Resume t) = (notify_next s0, RCancelled)).
  { unfold step; cbn [step_gen]. destruct Hcase as [(e & H1 & H2 & H3)|(H1 & H3)].
    - rewrite H1, H2. cbn [negb andb].
      assert (Hx : fcanc s t || mustc s t = true) by (destruct H3 as [-> | ->]; [reflexivity|apply orb_true_r]).
      rewrite Hx. unfold give_back, set_queue, leave. cbn. rewrite (queue_pop_absent _ _ Hk). reflexivity.
    - rewrite H1, H3. unfold fy_cancel. cbn [leave borrowers]. apply mem_In in Hb. rewrite Hb.
      unfold give_back, leave, with_tok. cbn. reflexivity. }
  cbv zeta. rewrite E. cbn [fst snd].
  assert (C0 : Core s0) by (now apply giveback_core).
  assert (I0 : Inv0 (notify_next s0)).
  { constructor; [now apply notify_core|]. apply notify_nofree; [exact C0|].
    unfold s0. eapply nofree_after_remove; eauto. }
  pose proof (notify_fields s0) as (_ & Eh & Ep & _).
  assert (Hidle : phase_of (notify_next s0) t = Idle) by (rewrite Ep; cbn; apply upd_same).
  assert (Hnr : ~ In b (resv (notify_next s0))).
  { intros H. apply (L_resv _ (I_core _ I0)) in H. destruct H as (t' & H).
    unfold resv_phase in H. rewrite Ep in H. unfold s0 in H. cbn [phase_of] in H.
    destruct (Nat.eq_dec t' t) as [->|Hne].
    - rewrite upd_same in H. destruct H as [H|(e' & H & _)]; discriminate.
    - rewrite upd_other in H by assumption. apply Hne. apply (L_uniq _ C t' t b); [|apply resv_inprog; exact Hr].
      destruct H as [H|(e' & H & _)]; [now left|right; eauto]. }
  assert (Hnh : ~ In b (held (notify_next s0))) by (rewrite Eh; exact Hh).
  assert (Hnb : ~ In b (borrowers (notify_next s0))).
  { intros H. apply (L_split _ (I_core _ I0)) in H. tauto. }
  refine (conj eq_refl (conj Hnb (conj Hnh (conj Hnr (conj Eh (conj Hidle (conj _ (conj I0 _)))))))).
  - rewrite notify_tainted. exact Ht.
  - destruct (notify_head s0) as [E0|(b' & e' & H1 & H2 & H3 & _)].
    + left. rewrite E0. reflexivity.
    + right. exists b', e'. cbn in H1, H2, H3. refine (conj H1 (conj H2 _)). rewrite H3.
      apply set_add_new. apply (L_qb _ C0 b'). cbn. rewrite H1. now left.
Qed.

(* (c) D1 (fixed in /repo by cf4519f): before the fix the shielded-yield handler ran `self.release()`, i.e.
   released the calling task instead of b.  Witness on the pinned handler: total 1, task 1 acquires on behalf of
   the foreign borrower 11 and is cancelled in the yield: RuntimeError instead of CancelledError, borrower 11
   keeps the token for ever although no acquire returned for it and every task is idle.  At HEAD the same
   history gives CancelledError and an empty limiter. *)
Definition d1_ops : list op := [AcqOn 1 11; Cancel 1].

Theorem lim_cancel_foreign_fastyield_refuted_pinned :
  exists ops, let s := final step_d1_pinned (init (Some 1)) ops in
    tainted s = false /\ phase_of s 1 = FastYield 11 /\ mustc s 1 = true /\
    snd (step_d1_pinned s (Resume 1)) = RRuntime /\
    let s' := fst (step_d1_pinned s (Resume 1)) in
    phase_of s' 1 = Idle /\ held s' = [] /\ borrowers s' = [11] /\ resv s' = [] /\
    snd (step_d1_pinned s' (AcqOnNowait 2 2)) = RWouldBlock.
Proof. exists d1_ops. vm_compute. auto 10. Qed.

Example d1_fixed_at_head :
  let s := final step (init (Some 1)) d1_ops in
  tainted s = false /\ phase_of s 1 = FastYield 11 /\ mustc s 1 = true /\
  snd (step s (Resume 1)) = RCancelled /\ borrowers (fst (step s (Resume 1))) = [] /\
  tainted (fst (step s (Resume 1))) = false.
Proof. vm_compute. auto 10. Qed.

(* ---------- 5./6. misuse is rejected and changes nothing ---------- *)
Theorem lim_no_double_borrow s t b :
  phase_of s t = Idle -> In b (borrowers s) ->
  step s (AcqOn t b) = (s, RRuntime) /\ step s (AcqOnNowait t b) = (s, RRuntime).
Proof.
  intros Hp Hb. apply mem_In in Hb. unfold step; cbn [step_gen]. rewrite Hp, Hb. cbn. auto.
Qed.

Theorem lim_release_by_non_borrower_rejected s t b :
  phase_of s t = Idle -> ~ In b (borrowers s) -> step s (RelOn t b) = (s, RRuntime).
Proof.
  intros Hp Hb. apply mem_false in Hb. unfold step; cbn [step_gen]. rewrite Hp, Hb. reflexivity.
Qed.

Theorem lim_bad_total_rejected s t k :
  phase_of s t = Idle ->
  step s (SetTotalBad t k) = (s, match k with 1 | 2 => RValue | _ => RType end).
Proof.
  intros Hp. unfold step; cbn [step_gen]. rewrite Hp. cbn. destruct k as [|[|[|k]]]; reflexivity.
Qed.

(* ---------- 7. after everyone has released the limiter is pristine ---------- *)
(* for every op sequence, duplicate borrowers included; `tainted s = false` only excludes histories in which
   release_on_behalf_of(b) was called before b's acquire returned (O2) *)
Theorem lim_quiescent_initial v s : reach v s -> tainted s = false ->
  (forall t, phase_of s t = Idle) -> held s = [] ->
  borrowers s = [] /\ queue s = [] /\ resv s = [] /\ avail_code s = match total s with None => inf_code | Some n => nz n end.
Proof.
  intros R Ht Hall Hh. destruct (reach_inv0 v s R Ht) as [C _].
  assert (Hr : resv s = []).
  { destruct (resv s) as [|b r] eqn:E; [reflexivity|]. exfalso.
    assert (H : In b (resv s)) by (rewrite E; now left). apply (L_resv _ C) in H.
    destruct H as (t & [H|(e & H & _)]); rewrite Hall in H; discriminate. }
  assert (Hb : borrowers s = []).
  { destruct (borrowers s) as [|b r] eqn:E; [reflexivity|]. exfalso.
    assert (H : In b (borrowers s)) by (rewrite E; now left). apply (L_split _ C) in H.
    rewrite Hh, Hr in H. destruct H as [[]|[]]. }
  assert (Hq : queue s = []).
  { destruct (queue s) as [|[b e] r] eqn:E; [reflexivity|]. exfalso.
    assert (H : In (b, e) (queue s)) by (rewrite E; now left). apply (L_q _ C) in H.
    destruct H as ((t & H) & _). rewrite Hall in H. discriminate. }
  refine (conj Hb (conj Hq (conj Hr _))). unfold avail_code. rewrite Hb. cbn. destruct (total s); [lia|reflexivity].
Qed.

(* ---------- non-vacuity ---------- *)
(* total 1: 1 holds, 2 and 3 queue, 2's wait is cancelled, 1 releases: the token is granted to 2 (head of the
   queue, cancelled or not), whose resumption passes it on to 3 *)
Definition ex_ops := [AcqOnNowait 1 1; AcqOn 2 2; AcqOn 3 3; Cancel 2; RelOn 1 1].

Example ex_cancelled_then_granted :
  let s := final step (init (Some 1)) ex_ops in
  tainted s = false /\ phase_of s 2 = Waiting 2 0 /\ evset s 0 = true /\ fcanc s 2 = true /\
  borrowers s = [2] /\ keys (queue s) = [3] /\
  borrowers (fst (step s (Resume 2))) = [3] /\ queue (fst (step s (Resume 2))) = [].
Proof. vm_compute. auto 10. Qed.

Example ex_cancel_before_grant_hyp :
  let s := final step (init (Some 1)) [AcqOnNowait 1 1; AcqOn 2 2; Cancel 2] in
  tainted s = false /\ phase_of s 2 = Waiting 2 0 /\ evset s 0 = false /\ fcanc s 2 = true.
Proof. vm_compute. auto. Qed.

Example ex_cancel_fastyield_own_hyp :
  let s := final step (init (Some 1)) [AcqOn 1 1; Cancel 1] in
  tainted s = false /\ phase_of s 1 = FastYield 1 /\ mustc s 1 = true /\
  borrowers (fst (step s (Resume 1))) = [].
Proof. vm_compute. auto. Qed.

Example ex_waiters_hyp :
  let s := final step (init (Some 1)) [AcqOnNowait 1 1; AcqOn 2 2] in
  tainted s = false /\ queue s <> [].
Proof. vm_compute. split; [reflexivity|discriminate]. Qed.

Example ex_direct_grant_hyp :
  let s := init (Some 1) in In 1 (borrowers (fst (step s (AcqOnNowait 1 1)))) /\ ~ In 1 (borrowers s).
Proof. vm_compute. split; [now left|tauto]. Qed.

Example ex_within_total_hyp :
  let s := final step (init (Some 2)) [AcqOnNowait 1 1; AcqOnNowait 2 2] in
  xle (length (borrowers s)) (total s) /\ xle (length (borrowers s)) (Some 3).
Proof. vm_compute. lia. Qed.

(* a run with assignments of total_tokens (raise, lower to exactly the number borrowed, infinity) that never go
   below the number borrowed, with waiters woken by the setter: the hypothesis of lim_never_over_granted *)
Example ex_never_lowered_below_hyp :
  never_lowered_below_borrowed (init (Some 1))
    [AcqOnNowait 1 1; AcqOn 2 2; SetTotal 1 (Some 3); Resume 2; AcqOnNowait 3 3; SetTotal 1 (Some 3);
     RelOn 1 1; SetTotal 1 (Some 2); AcqOn 1 1; SetTotal 1 None; Resume 1].
Proof. vm_compute. repeat split; intros t x [=]; subst; cbn; lia. Qed.

(* without the proviso over-capacity states are reachable: total lowered to 0 with two borrowers *)
Example ex_over_capacity_reachable :
  let s := final step (init (Some 2)) [AcqOnNowait 1 1; AcqOnNowait 2 2; SetTotal 1 (Some 0)] in
  length (borrowers s) = 2 /\ total s = Some 0 /\ ~ xle (length (borrowers s)) (total s) /\
  ~ never_lowered_below_borrowed (init (Some 2)) [AcqOnNowait 1 1; AcqOnNowait 2 2; SetTotal 1 (Some 0)].
Proof.
  vm_compute. refine (conj eq_refl (conj eq_refl (conj _ _))); [lia|].
  intros (_ & _ & H & _). specialize (H 1 (Some 0) eq_refl). cbn in H. lia.
Qed.

(* a pure addition from a state below capacity: hypotheses of lim_no_borrower_added_when_full, also in an
   over-capacity state no pure addition exists (the direct acquire must wait) *)
Example ex_pure_addition_hyp :
  let s := final step (init (Some 2)) [AcqOnNowait 1 1] in
  let s' := fst (step s (AcqOnNowait 2 2)) in
  total s' = total s /\ (forall b, In b (borrowers s) -> In b (borrowers s')) /\
  In 2 (borrowers s') /\ ~ In 2 (borrowers s) /\
  snd (step (final step (init (Some 2)) [AcqOnNowait 1 1; AcqOnNowait 2 2; SetTotal 1 (Some 0)])
            (AcqOnNowait 3 3)) = RWouldBlock.
Proof.
  vm_compute. refine (conj eq_refl (conj _ (conj _ (conj _ eq_refl)))).
  - intros b [<-|[]]. right. now left.
  - now left.
  - intros [H|[]]. discriminate.
Qed.

(* lowering below the number borrowed, 0 and infinity: the over-capacity state only shrinks *)
Example ex_lowered :
  let s := final step (init (Some 2)) [AcqOnNowait 1 1; AcqOnNowait 2 2; SetTotal 1 (Some 0); AcqOn 3 3;
                                       RelOn 1 1; SetTotal 1 None] in
  tainted s = false /\ borrowers s = [3; 2] /\ total s = None /\ queue s = [].
Proof. vm_compute. auto. Qed.

Example ex_misuse_hyp :
  let s := final step (init (Some 2)) [AcqOnNowait 1 1] in
  phase_of s 1 = Idle /\ In 1 (borrowers s) /\ ~ In 2 (borrowers s).
Proof. vm_compute. split; [reflexivity|]. split; [now left|]. intros [H|[]]. discriminate. Qed.

Example ex_quiescent :
  let s := final step (init (Some 1)) (ex_ops ++ [Resume 2; Resume 3; RelOn 3 3]) in
  tainted s = false /\ (forall t, t < 5 -> phase_of s t = Idle) /\ held s = [] /\ borrowers s = [].
Proof.
  vm_compute. repeat split.
  intros t Ht. do 5 (destruct t as [|t]; [reflexivity|]). lia.
Qed.

Example ex_waiting_borrower_hyp :
  let s := final step (init (Some 1)) [AcqOnNowait 3 12; AcqOn 1 11] in
  tainted s = false /\ phase_of s 2 = Idle /\ In 11 (keys (queue s)) /\ ~ In 11 (borrowers s) /\
  phase_of s 1 = Waiting 11 0 /\ evset s 0 = false.
Proof.
  vm_compute. refine (conj eq_refl (conj eq_refl (conj _ (conj _ (conj eq_refl eq_refl))))); [now left|].
  intros [H|[]]. discriminate.
Qed.

