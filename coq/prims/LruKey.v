(* The construction of the cache key: two calls get the same key tuple iff they are equal in the sense of the
   property (same positional values, same keyword names and values in the same order, and - if typed - the same
   types of positional AND keyword values); the model's numeric key identifies exactly these classes. *)
From AV Require Import Base Lru.

Definition same_call (ty : bool) (c1 c2 : calld) : Prop :=
  map av (cpos c1) = map av (cpos c2) /\
  map (fun na => (fst na, av (snd na))) (ckws c1) = map (fun na => (fst na, av (snd na))) (ckws c2) /\
  (ty = true ->
   map aty_of (cpos c1) = map aty_of (cpos c2) /\
   map (fun na => aty_of (snd na)) (ckws c1) = map (fun na => aty_of (snd na)) (ckws c2)).

(* projections of a key tuple *)
Definition vals_of (l : list katom) : list nat := flat_map (fun a => match a with KVal v => [v] | _ => [] end) l.
Definition names_of (l : list katom) : list nat := flat_map (fun a => match a with KName n => [n] | _ => [] end) l.
Definition tys_of (l : list katom) : list aty := flat_map (fun a => match a with KTy t => [t] | _ => [] end) l.

Definition kwpart (kws : list (nat * argv)) : list katom :=
  match kws with
  | [] => []
  | _ => KSep :: flat_map (fun na => [KName (fst na); KVal (av (snd na))]) kws
  end.

Definition kwtys (kws : list (nat * argv)) : list katom :=
  match kws with
  | [] => []
  | _ => KSep :: map (fun na => KTy (aty_of (snd na))) kws
  end.

Lemma make_key_eq ty c :
  make_key ty c = map (fun a => KVal (av a)) (cpos c) ++ kwpart (ckws c) ++
                  (if ty then map (fun a => KTy (aty_of a)) (cpos c) ++ kwtys (ckws c) else []).
Proof. reflexivity. Qed.

Lemma vals_pos l : vals_of (map (fun a => KVal (av a)) l) = map av l.
Proof. induction l; cbn; [reflexivity|]. f_equal. exact IHl. Qed.
Lemma names_pos l : names_of (map (fun a => KVal (av a)) l) = [].
Proof. induction l; cbn; auto. Qed.
Lemma tys_pos l : tys_of (map (fun a => KVal (av a)) l) = [].
Proof. induction l; cbn; auto. Qed.
Lemma vals_postys l : vals_of (map (fun a => KTy (aty_of a)) l) = [].
Proof. induction l; cbn; auto. Qed.
Lemma names_postys l : names_of (map (fun a => KTy (aty_of a)) l) = [].
Proof. induction l; cbn; auto. Qed.
Lemma tys_postys l : tys_of (map (fun a => KTy (aty_of a)) l) = map aty_of l.
Proof. induction l; cbn; [reflexivity|]. f_equal. exact IHl. Qed.

Lemma vals_pairs (kws : list (nat * argv)) :
  vals_of (flat_map (fun na => [KName (fst na); KVal (av (snd na))]) kws) = map (fun na => av (snd na)) kws.
Proof. induction kws; cbn; [reflexivity|]. f_equal. exact IHkws. Qed.
Lemma names_pairs (kws : list (nat * argv)) :
  names_of (flat_map (fun na => [KName (fst na); KVal (av (snd na))]) kws) = map fst kws.
Proof. induction kws; cbn; [reflexivity|]. f_equal. exact IHkws. Qed.
Lemma tys_pairs (kws : list (nat * argv)) :
  tys_of (flat_map (fun na => [KName (fst na); KVal (av (snd na))]) kws) = [].
Proof. induction kws; cbn; auto. Qed.

Lemma vals_sep l : vals_of (KSep :: l) = vals_of l. Proof. reflexivity. Qed.
Lemma names_sep l : names_of (KSep :: l) = names_of l. Proof. reflexivity. Qed.
Lemma tys_sep l : tys_of (KSep :: l) = tys_of l. Proof. reflexivity. Qed.

Lemma vals_kwpart kws : vals_of (kwpart kws) = map (fun na => av (snd na)) kws.
Proof. destruct kws as [|p r]; [reflexivity|]. unfold kwpart. rewrite vals_sep. apply vals_pairs. Qed.
Lemma names_kwpart kws : names_of (kwpart kws) = map fst kws.
Proof. destruct kws as [|p r]; [reflexivity|]. unfold kwpart. rewrite names_sep. apply names_pairs. Qed.
Lemma tys_kwpart kws : tys_of (kwpart kws) = [].
Proof. destruct kws as [|p r]; [reflexivity|]. unfold kwpart. rewrite tys_sep. apply tys_pairs. Qed.

Lemma vals_kwmap (kws : list (nat * argv)) : vals_of (map (fun na => KTy (aty_of (snd na))) kws) = [].
Proof. induction kws; cbn; auto. Qed.
Lemma names_kwmap (kws : list (nat * argv)) : names_of (map (fun na => KTy (aty_of (snd na))) kws) = [].
Proof. induction kws; cbn; auto. Qed.
Lemma tys_kwmap (kws : list (nat * argv)) :
  tys_of (map (fun na => KTy (aty_of (snd na))) kws) = map (fun na => aty_of (snd na)) kws.
Proof. induction kws; cbn; [reflexivity|]. f_equal. assumption. Qed.

Lemma vals_kwtys kws : vals_of (kwtys kws) = [].
Proof. destruct kws as [|p r]; [reflexivity|]. unfold kwtys. rewrite vals_sep. apply vals_kwmap. Qed.
Lemma names_kwtys kws : names_of (kwtys kws) = [].
Proof. destruct kws as [|p r]; [reflexivity|]. unfold kwtys. rewrite names_sep. apply names_kwmap. Qed.
Lemma tys_kwtys kws : tys_of (kwtys kws) = map (fun na => aty_of (snd na)) kws.
Proof. destruct kws as [|p r]; [reflexivity|]. unfold kwtys. rewrite tys_sep. apply tys_kwmap. Qed.

Lemma vals_key ty c : vals_of (make_key ty c) = map av (cpos c) ++ map (fun na => av (snd na)) (ckws c).
Proof.
  rewrite make_key_eq. unfold vals_of. rewrite !flat_map_app. fold (vals_of (map (fun a => KVal (av a)) (cpos c))).
  fold (vals_of (kwpart (ckws c))). rewrite vals_pos, vals_kwpart.
  destruct ty; [|cbn; now rewrite app_nil_r].
  rewrite flat_map_app. fold (vals_of (map (fun a => KTy (aty_of a)) (cpos c))). fold (vals_of (kwtys (ckws c))).
  rewrite vals_postys, vals_kwtys. cbn. now rewrite app_nil_r.
Qed.

Lemma names_key ty c : names_of (make_key ty c) = map fst (ckws c).
Proof.
  rewrite make_key_eq. unfold names_of. rewrite !flat_map_app. fold (names_of (map (fun a => KVal (av a)) (cpos c))).
  fold (names_of (kwpart (ckws c))). rewrite names_pos, names_kwpart.
  destruct ty; [|cbn; now rewrite app_nil_r].
  rewrite flat_map_app. fold (names_of (map (fun a => KTy (aty_of a)) (cpos c))). fold (names_of (kwtys (ckws c))).
  rewrite names_postys, names_kwtys. cbn. now rewrite app_nil_r.
Qed.

Lemma tys_key c :
  tys_of (make_key true c) = map aty_of (cpos c) ++ map (fun na => aty_of (snd na)) (ckws c).
Proof.
  rewrite make_key_eq. unfold tys_of. rewrite !flat_map_app. fold (tys_of (map (fun a => KVal (av a)) (cpos c))).
  fold (tys_of (kwpart (ckws c))). rewrite tys_pos, tys_kwpart.
  fold (tys_of (map (fun a => KTy (aty_of a)) (cpos c))). fold (tys_of (kwtys (ckws c))).
  rewrite tys_postys, tys_kwtys. reflexivity.
Qed.

Lemma app_split_len {A} (a1 b1 a2 b2 : list A) :
  a1 ++ b1 = a2 ++ b2 -> length b1 = length b2 -> a1 = a2 /\ b1 = b2.
Proof.
  intros H Hl.
  assert (Hl' : length a1 = length a2).
  { apply (f_equal (@length A)) in H. rewrite !app_length in H. lia. }
  revert a2 H Hl'. induction a1 as [|x r IH]; intros [|y s] H Hl'; cbn in *; try discriminate; [auto|].
  injection H as -> H. destruct (IH s H ltac:(lia)) as [-> ->]. auto.
Qed.

Lemma map_pair_split (k1 k2 : list (nat * argv)) :
  map fst k1 = map fst k2 -> map (fun na => av (snd na)) k1 = map (fun na => av (snd na)) k2 ->
  map (fun na => (fst na, av (snd na))) k1 = map (fun na => (fst na, av (snd na))) k2.
Proof.
  revert k2. induction k1 as [|x r IH]; intros [|y s] H1 H2; cbn in *; try discriminate; [reflexivity|].
  injection H1 as E1 H1. injection H2 as E2 H2. rewrite E1, E2. f_equal. now apply IH.
Qed.

(* the key tuples are equal iff the calls are equal *)
Theorem make_key_spec ty c1 c2 : make_key ty c1 = make_key ty c2 <-> same_call ty c1 c2.
Proof.
  split.
  - intros H.
    pose proof (f_equal vals_of H) as Hv. rewrite !vals_key in Hv.
    pose proof (f_equal names_of H) as Hn. rewrite !names_key in Hn.
    assert (Hlen : length (ckws c1) = length (ckws c2)).
    { apply (f_equal (@length nat)) in Hn. now rewrite !map_length in Hn. }
    destruct (app_split_len _ _ _ _ Hv ltac:(now rewrite !map_length)) as [Hv1 Hv2].
    refine (conj Hv1 (conj (map_pair_split _ _ Hn Hv2) _)).
    intros ->. pose proof (f_equal tys_of H) as Ht. rewrite !tys_key in Ht.
    apply (app_split_len _ _ _ _ Ht). now rewrite !map_length.
  - intros (Hv & Hk & Ht). rewrite !make_key_eq.
    assert (E1 : map (fun a => KVal (av a)) (cpos c1) = map (fun a => KVal (av a)) (cpos c2)).
    { rewrite <- (map_map av KVal (cpos c1)), <- (map_map av KVal (cpos c2)). now rewrite Hv. }
    assert (E2 : kwpart (ckws c1) = kwpart (ckws c2)).
    { assert (G : forall k1 k2 : list (nat * argv),
                map (fun na => (fst na, av (snd na))) k1 = map (fun na => (fst na, av (snd na))) k2 ->
                flat_map (fun na => [KName (fst na); KVal (av (snd na))]) k1 =
                flat_map (fun na => [KName (fst na); KVal (av (snd na))]) k2).
      { induction k1 as [|x r IH]; intros [|y s] G; cbn in *; try discriminate; [reflexivity|].
        injection G as G1 G2 G3. rewrite G1, G2. f_equal. f_equal. now apply IH. }
      unfold kwpart. destruct (ckws c1) as [|x r], (ckws c2) as [|y s]; cbn in Hk; try discriminate; [reflexivity|].
      f_equal. now apply G. }
    rewrite E1, E2. f_equal. f_equal. destruct ty; [|reflexivity]. destruct (Ht eq_refl) as [T1 T2].
    assert (E3 : map (fun a => KTy (aty_of a)) (cpos c1) = map (fun a => KTy (aty_of a)) (cpos c2)).
    { rewrite <- (map_map aty_of KTy (cpos c1)), <- (map_map aty_of KTy (cpos c2)). now rewrite T1. }
    assert (E4 : kwtys (ckws c1) = kwtys (ckws c2)).
    { revert T2. generalize (ckws c1) (ckws c2). intros k1 k2 G. unfold kwtys.
      destruct k1 as [|x r], k2 as [|y s]; try discriminate G; [reflexivity|]. f_equal.
      rewrite <- (map_map (fun na : nat * argv => aty_of (snd na)) KTy (x :: r)),
              <- (map_map (fun na : nat * argv => aty_of (snd na)) KTy (y :: s)). now rewrite G. }
    now rewrite E3, E4.
Qed.

(* ---- the boolean comparison is the equality ---- *)
Lemma aty_eqb_spec a b : aty_eqb a b = true <-> a = b.
Proof. destruct a, b; cbn; split; congruence. Qed.

Lemma katom_eqb_spec a b : katom_eqb a b = true <-> a = b.
Proof.
  destruct a, b; cbn; try (split; congruence).
  - rewrite Nat.eqb_eq. split; congruence.
  - rewrite Nat.eqb_eq. split; congruence.
  - rewrite aty_eqb_spec. split; congruence.
Qed.

Lemma keyt_eqb_spec a b : keyt_eqb a b = true <-> a = b.
Proof.
  revert b. induction a as [|x r IH]; intros [|y s]; cbn; try (split; congruence).
  rewrite andb_true_iff, katom_eqb_spec, IH. split; [intros [-> ->]; reflexivity|intros [= -> ->]; auto].
Qed.

(* ---- least element found in an initial segment ---- *)
Lemma find_seq_least P n m k :
  find P (seq k n) = Some m -> P m = true /\ k <= m < k + n /\ forall j, k <= j < m -> P j = false.
Proof.
  revert k. induction n as [|n IH]; intros k; cbn; [discriminate|].
  destruct (P k) eqn:E.
  - intros [= <-]. refine (conj E (conj _ _)); [lia|]. intros j Hj. lia.
  - intros H. destruct (IH (S k) H) as (H1 & H2 & H3). refine (conj H1 (conj _ _)); [lia|].
    intros j Hj. destruct (Nat.eq_dec j k) as [->|N]; [exact E|]. apply H3. lia.
Qed.

Lemma find_seq_some P n k j : k <= j < k + n -> P j = true -> exists m, find P (seq k n) = Some m.
Proof.
  revert k. induction n as [|n IH]; intros k Hj Hp; [lia|]. cbn. destruct (P k) eqn:E; [eauto|].
  apply IH; [|exact Hp]. destruct (Nat.eq_dec j k) as [->|N]; [congruence|lia].
Qed.

Lemma key_of_least cf a :
  let P := fun a' => keyt_eqb (make_key (typed cf) (call_of a')) (make_key (typed cf) (call_of a)) in
  P (key_of cf a) = true /\ key_of cf a <= a /\ forall j, j < key_of cf a -> P j = false.
Proof.
  cbv zeta. unfold key_of.
  assert (Hself : keyt_eqb (make_key (typed cf) (call_of a)) (make_key (typed cf) (call_of a)) = true)
    by now apply keyt_eqb_spec.
  destruct (find_seq_some (fun a' => keyt_eqb (make_key (typed cf) (call_of a')) (make_key (typed cf) (call_of a)))
                          (S a) 0 a ltac:(lia) Hself) as [m Hm]. rewrite Hm.
  destruct (find_seq_least _ _ _ _ Hm) as (H1 & H2 & H3). refine (conj H1 (conj _ _)); [lia|].
  intros j Hj. apply H3. lia.
Qed.

(* the model's keys identify exactly the classes of equal calls *)
Theorem key_of_spec cf a b :
  key_of cf a = key_of cf b <-> same_call (typed cf) (call_of a) (call_of b).
Proof.
  rewrite <- make_key_spec.
  destruct (key_of_least cf a) as (A1 & A2 & A3). destruct (key_of_least cf b) as (B1 & B2 & B3).
  cbv zeta in *. apply keyt_eqb_spec in A1. apply keyt_eqb_spec in B1. split.
  - intros E. rewrite <- A1, <- B1, E. reflexivity.
  - intros E.
    destruct (Nat.lt_trichotomy (key_of cf a) (key_of cf b)) as [L|[L|L]]; [|exact L|].
    + exfalso. specialize (B3 _ L). assert (keyt_eqb (make_key (typed cf) (call_of (key_of cf a)))
                                                  (make_key (typed cf) (call_of b)) = true)
        by (apply keyt_eqb_spec; congruence). congruence.
    + exfalso. specialize (A3 _ L). assert (keyt_eqb (make_key (typed cf) (call_of (key_of cf b)))
                                                  (make_key (typed cf) (call_of a)) = true)
        by (apply keyt_eqb_spec; congruence). congruence.
Qed.

(* examples: typed distinguishes the type of a keyword value (seed C20_e), untyped does not; keyword order
   matters; positional and keyword are different calls *)
Example ex_keys :
  let ty := mkcfg (Some 2) None false true 4 in
  let un := mkcfg (Some 2) None false false 4 in
  (* 16+20 = f(x=0:int) ... code (form 1, type t, value 1) = 16 + (5 + t) * 4 + 1 *)
  key_of ty 37 <> key_of ty 41 /\ key_of un 37 = key_of un 41 /\ key_of un 37 = key_of un 45 /\
  key_of ty 37 <> key_of ty 45 /\
  (* f(a=1, b=1) vs f(b=1, a=1) *)
  key_of un 77 <> key_of un 97 /\
  (* f(1) vs f(x=1) *)
  key_of un 2 <> key_of un 37 /\ key_of un 2 = key_of un 17 /\ key_of un 2 = key_of un 3 /\ key_of ty 2 <> key_of ty 3.
Proof. vm_compute. repeat split; discriminate. Qed.
