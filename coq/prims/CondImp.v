(* P/CondImp: the imperative language of LockImp.v / PrimImp.v for `class Event` (anyio/_backends/_asyncio.py) and
   `class Condition` (anyio/_core/_synchronization.py), with its interpreter.  tools/translate_cond.py regenerates
   CondGen.v (terms of this language) from the Python source on every run of bin/check C11; CondGenEq.v proves that
   interpreting them is what EventCond.estep / EventCond.cstep (variant 0 = HEAD) do to the fields the code reads and
   writes.  Definitions only.

   Same design as LockImp / PrimImp: short-circuit conditions, SSeq / SIf / STry / SCall / SRaise / SReturn, awaits cut
   into segments, the freshness rule for SCkIf and the cancelled-at-entry flag.  New here:
   * both classes are written ON TOP of other objects.  Event delegates to an asyncio.Event (`self._event`), Condition
     to a Lock (`self._lock`) and to one-shot Event objects.  Those objects are not re-interpreted: the Lock is the
     machine of Lock.v (whose own code is tied by LockGenEq.v), driven through Lock.step; a one-shot Event is its flag
     and its single waiter future (EventCond.eset / efut); asyncio.Event is the stdlib model inside EventCond.estep.
   * `SAwaitLock sh pend` = `await self._lock.acquire()` (directly or through `await self.acquire()`): an await that
     may complete without suspending (fast_acquire) - then the segment goes on - or suspends at AwLock sh pend.
     sh = inside `with CancelScope(shield=True)`; pend = reached while an exception is pending (the copy of a
     `finally:` block that runs after the handler): the continuation after it re-raises.
   * `for _ in range(n)` (recursion on n), `for event in self._waiters` (recursion on the snapshot), `break`.
   * try / except / finally around an await is expanded by the translator: the finally block is copied into the
     normal continuation and (marked pend) in front of the handler's `raise`. *)
From AV Require Import Base Lock EventCond.

Inductive exn := ERuntime | EWouldBlock | ECancelled | EIndex | EValue.

Inductive await_pt :=
| AwLock (sh pend : bool)    (* await self._lock.acquire() *)
| AwEvent                    (* Condition: await event.wait() on the fresh one-shot event *)
| AwCheckpoint               (* Event: await AsyncIOBackend.checkpoint() *)
| AwInner.                   (* Event: await self._event.wait() *)

Inductive cond :=
| CHolder            (* self._lock.statistics().owner == get_current_task() *)
| CEvIsSet           (* event.is_set() *)
| CWaitersNonEmpty   (* self._waiters *)
| CLockLocked        (* self._lock.locked() *)
| CInnerIsSet        (* Event: self._event.is_set() *)
| CNot (c : cond)
| CAnd (a b : cond)
| COr (a b : cond).

Inductive stmt :=
| SSkip
| SSeq (a b : stmt)
| SIf (c : cond) (a b : stmt)
| STry (a : stmt) (x : exn) (h els : stmt)
| SForRange (body : stmt)          (* for _ in range(n): body *)
| SForWaiters (body : stmt)        (* for event in self._waiters: body *)
| SBreak
| SCall (body : stmt)
| SRaise (e : exn)
| SReraise                         (* propagate the exception raised at the await this continuation belongs to *)
| SReturn
| SCkIf
| SSuspend (a : await_pt)
| SAwaitLock (sh pend : bool)
| SLockAcquireNowait               (* self._lock.acquire_nowait() *)
| SLockRelease                     (* self._lock.release() *)
| SNewEvent                        (* event = Event() *)
| SAppendWaiter                    (* self._waiters.append(event) *)
| SRemoveWaiter                    (* self._waiters.remove(event) *)
| SPopWaiter                       (* event = self._waiters.popleft()   (IndexError when empty) *)
| SPopSet                          (* self._waiters.popleft().set() *)
| SEventSet                        (* event.set() *)
| SClearWaiters                    (* self._waiters.clear() *)
| SInnerSet.                       (* Event: self._event.set() *)

Inductive outcome :=
| ONext | OReturn | OBreak
| ORaise (e : exn)
| OSuspend (a : await_pt)
| OCancelled
| OStuck.

(* what the code of ONE Condition object reads and writes *)
Record cheap := mkch {
  k_lk : Lock.st;              (* self._lock: the Lock machine *)
  k_cw : list eid;             (* self._waiters of this condition *)
  k_eset : eid -> bool;        (* flag of every one-shot event *)
  k_efut : eid -> fstate;      (* the waiter future of every one-shot event *)
  k_nev : eid
}.

Record loc := mkloc {
  l_ev : option eid;           (* local `event` *)
  l_n : nat;                   (* parameter n of notify() *)
  l_exc : option exn;          (* the exception raised at the await this continuation belongs to *)
  l_fresh : bool;
  l_canc : bool
}.

Definition loc_entry (n : nat) : loc := mkloc None n None true false.
Definition loc_entry_cancelled : loc := mkloc None 0 None true true.
Definition loc_resume (e : option eid) (x : option exn) : loc := mkloc e 0 x false false.

Definition touch (l : loc) : loc := mkloc (l_ev l) (l_n l) (l_exc l) false (l_canc l).
Definition with_ev (l : loc) (e : eid) : loc := mkloc (Some e) (l_n l) (l_exc l) false (l_canc l).

Definition set_lk (k : cheap) (x : Lock.st) : cheap := mkch x (k_cw k) (k_eset k) (k_efut k) (k_nev k).
Definition set_cw (k : cheap) (w : list eid) : cheap := mkch (k_lk k) w (k_eset k) (k_efut k) (k_nev k).

(* Event.set() on a one-shot event: asyncio.Event.set is a no-op when already set, else resolves a pending future *)
Definition hset (k : cheap) (e : eid) : cheap :=
  if k_eset k e then k else
  mkch (k_lk k) (k_cw k) (upd (k_eset k) e true)
       (match k_efut k e with FPending => upd (k_efut k) e FSet | _ => k_efut k end) (k_nev k).

Fixpoint list_eqb (a b : list nat) : bool :=
  match a, b with
  | [], [] => true
  | x :: a', y :: b' => Nat.eqb x y && list_eqb a' b'
  | _, _ => false
  end.

Definition exn_eqb (a b : exn) : bool :=
  match a, b with
  | ERuntime, ERuntime | EWouldBlock, EWouldBlock | ECancelled, ECancelled | EIndex, EIndex | EValue, EValue => true
  | _, _ => false
  end.

Fixpoint eval_cond (c : cond) (t : tid) (l : loc) (k : cheap) : option bool :=
  match c with
  | CHolder => Some (tid_eqb_opt (owner (k_lk k)) t)
  | CEvIsSet => match l_ev l with Some e => Some (k_eset k e) | None => None end
  | CWaitersNonEmpty => Some (match k_cw k with [] => false | _ => true end)
  | CLockLocked => Some (match owner (k_lk k) with Some _ => true | None => false end)
  | CInnerIsSet => None      (* Event only: see eexec *)
  | CNot a => match eval_cond a t l k with Some b => Some (negb b) | None => None end
  | CAnd a b => match eval_cond a t l k with Some true => eval_cond b t l k | r => r end
  | COr a b => match eval_cond a t l k with Some false => eval_cond b t l k | r => r end
  end.

Definition result := (loc * cheap * outcome)%type.

(* the outcome of a Lock op called from Condition code *)
Definition lock_call (k : cheap) (o : Lock.op) : cheap * res :=
  let '(x, r) := Lock.step (k_lk k) o in (set_lk k x, r).

Fixpoint for_range (run : loc -> cheap -> result) (n : nat) (l : loc) (k : cheap) : result :=
  match n with
  | 0 => (l, k, ONext)
  | S m =>
      let '(l1, k1, o) := run l k in
      match o with
      | ONext => for_range run m l1 k1
      | OBreak => (l1, k1, ONext)
      | _ => (l1, k1, o)
      end
  end.

(* iteration over the snapshot `ws`; the body must not touch the deque it iterates over (RuntimeError in Python) *)
Fixpoint for_each (run : loc -> cheap -> result) (ws : list eid) (l : loc) (k : cheap) : result :=
  match ws with
  | [] => (l, k, ONext)
  | e :: r =>
      let w0 := k_cw k in
      let '(l1, k1, o) := run (with_ev l e) k in
      match o with
      | ONext => if list_eqb (k_cw k1) w0 then for_each run r l1 k1 else (l1, k1, OStuck)
      | OBreak => (l1, k1, ONext)
      | _ => (l1, k1, o)
      end
  end.

(* t = current task *)
Fixpoint exec (p : stmt) (t : tid) (l : loc) (k : cheap) {struct p} : result :=
  match p with
  | SSkip => (l, k, ONext)
  | SSeq a b =>
      let '(l1, k1, o) := exec a t l k in
      match o with ONext => exec b t l1 k1 | _ => (l1, k1, o) end
  | SIf c a b =>
      match eval_cond c t l k with
      | Some true => exec a t l k
      | Some false => exec b t l k
      | None => (l, k, OStuck)
      end
  | STry a x h els =>
      let '(l1, k1, o) := exec a t l k in
      match o with
      | ONext => exec els t l1 k1
      | ORaise y => if exn_eqb y x then exec h t l1 k1 else (l1, k1, o)
      | _ => (l1, k1, o)
      end
  | SForRange body => for_range (fun l0 k0 => exec body t l0 k0) (l_n l) l k
  | SForWaiters body => for_each (fun l0 k0 => exec body t l0 k0) (k_cw k) l k
  | SBreak => (l, k, OBreak)
  | SCall body =>
      let '(_, k1, o) := exec body t (mkloc None 0 None false false) k in
      match o with
      | ONext | OReturn => (touch l, k1, ONext)
      | ORaise x => (touch l, k1, ORaise x)
      | _ => (l, k1, OStuck)
      end
  | SRaise x => (l, k, ORaise x)
  | SReraise => match l_exc l with Some x => (l, k, ORaise x) | None => (l, k, OStuck) end
  | SReturn => (l, k, OReturn)
  | SCkIf =>
      (* as in LockImp / PrimImp (C03_ckif_spin_terminates, C08_ckif_suspends_iff_effectively_cancelled) *)
      if l_fresh l then (if l_canc l then (l, k, OCancelled) else (l, k, ONext)) else (l, k, OStuck)
  | SSuspend a =>
      match a with
      | AwEvent =>
          (* anyio Event.wait() on the one-shot event: unset (it was created in this segment), so it waits on the
             inner future; a set event would take the plain-checkpoint branch, which the model does not have *)
          match l_ev l with
          | Some e => if k_eset k e then (l, k, OStuck) else (l, k, OSuspend AwEvent)
          | None => (l, k, OStuck)
          end
      | _ => (l, k, OStuck)        (* AwLock is reached through SAwaitLock; the others are Event's *)
      end
  | SAwaitLock sh pend =>
      let '(k1, r) := lock_call k (AcqBegin t) in
      match r with
      | RDone => (touch l, k1, ONext)                      (* acquire() returned without suspending *)
      | RBlocked => (touch l, k1, OSuspend (AwLock sh pend))
      | RRuntime => (touch l, k1, ORaise ERuntime)
      | _ => (l, k1, OStuck)
      end
  | SLockAcquireNowait =>
      let '(k1, r) := lock_call k (AcqNowait t) in
      match r with
      | RDone => (touch l, k1, ONext)
      | RRuntime => (touch l, k1, ORaise ERuntime)
      | RWouldBlock => (touch l, k1, ORaise EWouldBlock)
      | _ => (l, k1, OStuck)
      end
  | SLockRelease =>
      let '(k1, r) := lock_call k (Release t) in
      match r with
      | RDone => (touch l, k1, ONext)
      | RRuntime => (touch l, k1, ORaise ERuntime)
      | _ => (l, k1, OStuck)
      end
  | SNewEvent =>
      let e := k_nev k in
      (with_ev l e, mkch (k_lk k) (k_cw k) (upd (k_eset k) e false) (upd (k_efut k) e FPending) (S e), ONext)
  | SAppendWaiter =>
      match l_ev l with
      | Some e => (touch l, set_cw k (k_cw k ++ [e]), ONext)
      | None => (l, k, OStuck)
      end
  | SRemoveWaiter =>
      (* deque.remove raises ValueError when the element is absent; the model (remove_first) is tolerant and so is
         this interpreter: an unset waiting event is always queued (EventCondProofs: the PWait invariant) *)
      match l_ev l with
      | Some e => (touch l, set_cw k (remove_first e (k_cw k)), ONext)
      | None => (l, k, OStuck)
      end
  | SPopWaiter =>
      match k_cw k with
      | e :: r => (with_ev l e, set_cw k r, ONext)
      | [] => (l, k, ORaise EIndex)
      end
  | SPopSet =>
      match k_cw k with
      | e :: r => (touch l, hset (set_cw k r) e, ONext)
      | [] => (l, k, ORaise EIndex)
      end
  | SEventSet =>
      match l_ev l with
      | Some e => (touch l, hset k e, ONext)
      | None => (l, k, OStuck)
      end
  | SClearWaiters => (touch l, set_cw k [], ONext)
  | SInnerSet => (l, k, OStuck)      (* Event only *)
  end.

Definition returned (o : outcome) : bool := match o with ONext | OReturn => true | _ => false end.

Definition res_of (o : outcome) : option res :=
  match o with
  | ONext | OReturn => Some RDone
  | OSuspend _ => Some RBlocked
  | ORaise ERuntime => Some RRuntime
  | ORaise EWouldBlock => Some RWouldBlock
  | ORaise ECancelled | OCancelled => Some RCancelled
  | _ => None
  end.

Definition exn_of (r : res) : option exn :=
  match r with RCancelled => Some ECancelled | RRuntime => Some ERuntime | _ => None end.

(* ---- the table the translator fills (Condition) ---- *)
Record cprog := mkcprog {
  p_acquire_entry : stmt;             (* acquire(): `await self._lock.acquire()` *)
  p_acquire_lock_resumed : stmt;      (* the lock's acquire() returned *)
  p_acquire_lock_cancelled : stmt;    (* the lock's acquire() raised *)
  p_acquire_nowait : stmt;
  p_release : stmt;
  p_notify : stmt;
  p_notify_all : stmt;
  p_wait_entry : stmt;                (* wait(): up to `await event.wait()` *)
  p_wait_event_resumed : stmt;        (* event.wait() returned: the finally block *)
  p_wait_event_cancelled : stmt;      (* event.wait() raised: handler, the finally block, re-raise *)
  p_wait_reacq_resumed : stmt;        (* shielded re-acquire done, no exception pending *)
  p_wait_reacq_cancelled : stmt;      (* shielded re-acquire raised, no exception pending *)
  p_wait_reacq_exc_resumed : stmt;    (* shielded re-acquire done, the exception of the event wait is re-raised *)
  p_wait_reacq_exc_cancelled : stmt;  (* shielded re-acquire raised: that exception replaces the pending one *)
  p_locked : cond
}.

(* what the code sees of a cst when it runs as condition c *)
Definition vis (s : cst) (c : cid) : cheap := mkch (lk s) (cwaiters s c) (eset s) (efut s) (nev s).

(* s' shows exactly heap k to condition c and did not touch any other condition's queue.  Function-valued fields are
   compared pointwise: notify_all is written `for event in self._waiters: event.set(); self._waiters.clear()` in the
   code and as `length` pops in the model - the same function, written differently. *)
Definition shows (s s' : cst) (c : cid) (k : cheap) : Prop :=
  lk s' = k_lk k /\ cwaiters s' c = k_cw k /\ (forall e, eset s' e = k_eset k e) /\
  (forall e, efut s' e = k_efut k e) /\ nev s' = k_nev k /\
  (forall c', c' <> c -> cwaiters s' c' = cwaiters s c') /\ variant s' = variant s.

(* the phase in which the segment leaves task t *)
Definition phase_after (c : cid) (l : loc) (o : outcome) : option cphase :=
  match o with
  | OSuspend (AwLock false false) => Some (PAcq (Some c))
  | OSuspend (AwLock true pend) => match l_ev l with Some e => Some (PReacq c e pend) | None => None end
  | OSuspend AwEvent => match l_ev l with Some e => Some (PWait c e) | None => None end
  | OSuspend _ | OStuck | OBreak => None
  | _ => Some PIdle
  end.

(* one transition of the model is the interpretation of segment p (started with locals l0 in the state s0 the kernel
   left): code-visible state, result and phase agree; everything else in cst is ghost (history variables) *)
Definition runs (s0 s' : cst) (r : res) (c : cid) (t : tid) (p : stmt) (l0 : loc) : Prop :=
  let '(l, k, o) := exec p t l0 (vis s0 c) in
  shows s0 s' c k /\ res_of o = Some r /\ phase_after c l o = Some (cphase_of s' t) /\
  (forall t', t' <> t -> cphase_of s' t' = cphase_of s0 t').

(* ---- Event (asyncio backend): delegation to an asyncio.Event ---- *)
Record eprog := mkeprog {
  q_set : stmt;                 (* set(): self._event.set() *)
  q_is_set : cond;              (* is_set() returns this *)
  q_wait_entry : stmt;          (* wait() *)
  q_wait_checkpoint_resumed : stmt;
  q_wait_checkpoint_cancelled : stmt;
  q_wait_inner_resumed : stmt;
  q_wait_inner_cancelled : stmt
}.

(* interpretation of Event's code over est: the inner asyncio.Event is the stdlib model of EventCond.estep
   (set: resolve_all; wait: a fresh future appended to _waiters) *)
Fixpoint eeval (c : cond) (s : est) : option bool :=
  match c with
  | CInnerIsSet => Some (eflag s)
  | CNot a => match eeval a s with Some b => Some (negb b) | None => None end
  | CAnd a b => match eeval a s with Some true => eeval b s | r => r end
  | COr a b => match eeval a s with Some false => eeval b s | r => r end
  | _ => None
  end.

Fixpoint eexec (p : stmt) (t : tid) (x : option exn) (s : est) {struct p} : est * outcome :=
  match p with
  | SSkip => (s, ONext)
  | SSeq a b => let '(s1, o) := eexec a t x s in match o with ONext => eexec b t x s1 | _ => (s1, o) end
  | SIf c a b =>
      match eeval c s with
      | Some true => eexec a t x s
      | Some false => eexec b t x s
      | None => (s, OStuck)
      end
  | SReturn => (s, OReturn)
  | SRaise e => (s, ORaise e)
  | SReraise => match x with Some e => (s, ORaise e) | None => (s, OStuck) end
  | SInnerSet =>
      (emk true (ewaiters s) (if eflag s then efuts s else resolve_all (ewaiters s) (efuts s)) (enfut s)
           (ephase_of s) (emustc s) (S (esets s)), ONext)
  | SSuspend AwCheckpoint =>
      (emk (eflag s) (ewaiters s) (efuts s) (enfut s) (upd (ephase_of s) t EYield) (emustc s) (esets s),
       OSuspend AwCheckpoint)
  | SSuspend AwInner =>
      (* asyncio.Event.wait() entered with the flag unset: fut = create_future(); self._waiters.append(fut); await fut *)
      if eflag s then (s, OStuck) else
      let f := enfut s in
      (emk (eflag s) (ewaiters s ++ [f]) (upd (efuts s) f FPending) (S f) (upd (ephase_of s) t (EWaiting f))
           (emustc s) (esets s), OSuspend AwInner)
  | _ => (s, OStuck)
  end.

(* ---- which segment of condition c's code a model op runs, from which kernel-prepared state, with which locals ----
   None: the op runs no Condition code - direct use of the shared lock (LAcquire / LAcqNowait / LRelease and their
   wake-ups: the Lock machine, tied by C09), Task.cancel() / scope cancellation (asyncio), or a task that is not
   runnable.  A wake-up first lets the kernel / the lock do their part: from the shielded or unshielded lock
   acquire the lock's own continuation runs (Lock.step .. (Resume t), result r); from event.wait() asyncio
   consumes Task._must_cancel and raises iff the inner future was cancelled or _must_cancel was set. *)
Definition dispatch (P : cprog) (s : cst) (o : cop) : option (cst * cid * tid * stmt * loc) :=
  match o with
  | CAcquire c t => if c_is_idle (cphase_of s t) then Some (s, c, t, p_acquire_entry P, loc_entry 0) else None
  | CAcqNowait c t => if c_is_idle (cphase_of s t) then Some (s, c, t, p_acquire_nowait P, loc_entry 0) else None
  | CRelease c t => if c_is_idle (cphase_of s t) then Some (s, c, t, p_release P, loc_entry 0) else None
  | CNotify c t n => if c_is_idle (cphase_of s t) then Some (s, c, t, p_notify P, loc_entry n) else None
  | CNotifyAll c t => if c_is_idle (cphase_of s t) then Some (s, c, t, p_notify_all P, loc_entry 0) else None
  | CWait c t => if c_is_idle (cphase_of s t) then Some (s, c, t, p_wait_entry P, loc_entry 0) else None
  | CResume t =>
      match cphase_of s t with
      | PAcq (Some c) =>
          let '(x, r) := Lock.step (lk s) (Resume t) in
          match r with
          | RRejected => None
          | RDone => Some (with_lk s x, c, t, p_acquire_lock_resumed P, loc_resume None None)
          | _ => Some (with_lk s x, c, t, p_acquire_lock_cancelled P, loc_resume None (exn_of r))
          end
      | PReacq c e exc =>
          let '(x, r) := Lock.step (lk s) (Resume t) in
          match r with
          | RRejected => None
          | RDone => Some (with_lk s x, c, t,
                           (if exc then p_wait_reacq_exc_resumed P else p_wait_reacq_resumed P),
                           loc_resume (Some e) None)
          | _ => Some (with_lk s x, c, t,
                       (if exc then p_wait_reacq_exc_cancelled P else p_wait_reacq_cancelled P),
                       loc_resume (Some e) (exn_of r))
          end
      | PWait c e =>
          match efut s e with
          | FPending => None
          | fs =>
              let i := match fs with FSet => mustc (lk s) t | _ => true end in
              Some (with_lk s (set_mustc (lk s) t false), c, t,
                    (if i then p_wait_event_cancelled P else p_wait_event_resumed P),
                    loc_resume (Some e) (if i then Some ECancelled else None))
          end
      | _ => None
      end
  | _ => None
  end.

(* the states reached by transitions each of which is an environment op, is rejected, or IS the interpretation of the
   dispatched generated segment *)
Inductive grun (P : cprog) (fa : bool) : cst -> Prop :=
| grun_init : grun P fa (cinit fa 0)
| grun_code s o s0 c t p l0 :
    grun P fa s -> dispatch P s o = Some (s0, c, t, p, l0) ->
    runs s0 (fst (cstep s o)) (snd (cstep s o)) c t p l0 -> grun P fa (fst (cstep s o))
| grun_env s o : grun P fa s -> dispatch P s o = None -> grun P fa (fst (cstep s o))
| grun_rejected s o : grun P fa s -> snd (cstep s o) = RRejected -> grun P fa (fst (cstep s o)).
