(* P/Lru: executable model of anyio.functools.AsyncLRUCacheWrapper (functools.py:100-217 of the pinned tree).
   Callers are tasks; the actions are the atomic segments of __call__:
     Call c a          lookup / install placeholder / expiry replacement (+ move_to_end) / hit (move_to_end, optional
                       checkpoint), `async with lock` up to its first suspension; on the uncontended fast path also
                       the re-read of the entry and the miss bookkeeping up to the call of the wrapped function
     CallX c a         the same call issued inside an already cancelled cancel scope: Lock.acquire() suspends in its
                       leading checkpoint_if_cancelled and then raises, without ever looking at the lock
     Resume c          the wake-up of blocked caller c runs: lock acquired -> re-read (KeyError possible) -> miss
                       bookkeeping / eviction -> wrapped function entered;  wrapped function finished -> store,
                       release, return;  hit checkpoint finished;  cancellation at the lock entry delivered
   plus the environment: WrappedReturns / WrappedRaises (the future the wrapped function waits on is resolved,
   oracle value), CancelCaller (native Task.cancel() on a blocked caller), Tick (clock used by ttl),
   Clear (cache_clear(), also while calls are in flight: they keep their reference to the discarded dict),
   NewLoop (the event loop ends with no call in progress and a new one starts: the entries are per loop, the
   counters hits / misses / currsize live on the wrapper and survive).
   The entries dicts are indexed by a generation number: `cur` is the dict of the running loop, a caller
   remembers the generation of the dict it looked its key up in.
   Every placeholder owns a fresh Lock machine (prims/Lock.v) with fast_acquire = negb always_checkpoint.
   Ghost components (no influence on the behaviour): lkey, produced, stamps, the `counted` mark of a placeholder,
   the flag set.  Definitions only: proofs are in LruProofs.v / LruInv.v / LruStep.v / LruThms.v. *)
From AV Require Import Base.
From AV Require Lock.

Definition cid := nat.
Definition key := nat.
Definition val := nat.
Definition lid := nat.

Inductive entry :=
| EPlace (l : lid) (cnt : bool)         (* (initial_missing, Lock, None): computation not finished;
                                           cnt = ghost: a miss has counted this placeholder in currsize *)
| EVal (v : val) (exp : option nat).    (* (value, None, expires_at) *)

(* one item of the OrderedDict; ss = ghost stamp = logical time of the last use of the key *)
Record slot := mkslot { sk : key; se : entry; ss : nat }.

Inductive wres := WRet (v : val) | WExc (e : nat).

Inductive cphase :=
| CIdle
| CEntryCk (k : key)                    (* cancelled scope: suspended in checkpoint_if_cancelled of Lock.acquire(),
                                           the lock not yet taken; the CancelledError is on its way *)
| CLockWait (k : key) (l : lid) (t0 : nat) (g : nat)
                                        (* suspended inside lock.acquire(); t0 = time of the call, g = its dict *)
| CInWrapped (k : key) (l : lid) (pend : option wres) (canc : bool) (g : nat)
                                        (* holds l, suspended inside the wrapped function *)
| CHitCk (k : key) (v : val) (canc : bool)                        (* hit, suspended in `await checkpoint()` *)
| CBypass (k : key) (pend : option wres) (canc : bool).           (* maxsize = 0: inside the wrapped function, no cache *)

Inductive op :=
| Call (c : cid) (a : nat)          (* a = code of the call in the catalogue `call_of` *)
| CallX (c : cid) (a : nat)         (* the same, inside an already cancelled scope *)
| WrappedReturns (c : cid) (v : val)
| WrappedRaises (c : cid) (e : nat)
| CancelCaller (c : cid)
| Resume (c : cid)
| Tick
| Clear
| NewLoop.

Inductive res :=
| RRet (v : val)     (* the call returned v *)
| RBlocked           (* the caller suspended inside the call *)
| RCancelled         (* CancelledError propagated out of the call *)
| RExc (e : nat)     (* the exception raised by the wrapped function propagated out of the call *)
| RKeyError          (* KeyError raised by the wrapper itself (line 198) *)
| RNone              (* environment op *)
| RLockErr           (* RuntimeError out of the entry's Lock *)
| RRejected.         (* op impossible in this state; the harness never produces it *)

Record cfg := mkcfg {
  maxsize : option nat;     (* None = unbounded *)
  ttl : option nat;         (* in ticks *)
  ackpt : bool;             (* always_checkpoint *)
  typed : bool;
  ncall : nat               (* callers are 0 .. ncall-1 *)
}.

(* ghost, sticky: which of the known-finding patterns the history contains *)
Record flagset := mkfl {
  fl_inflight : bool;    (* F3: a miss evicted a placeholder whose lock a caller is holding or waiting for *)
  fl_waited : bool;      (* F8: a completed entry was evicted / expired while a caller of its key (same dict) was
                            suspended in lock.acquire() *)
  fl_uncounted : bool;   (* F31: a call was aborted while entering the lock and left a placeholder that no miss had
                            counted, or a miss evicted such a placeholder *)
  fl_dead : bool;        (* F41: a computation failed or was cancelled and left its counted placeholder behind *)
  fl_phantom : bool;     (* F30: the wrapper-level currsize counts entries that are not in the running loop's dict
                            (new loop with currsize <> 0, cache_clear() during a flight) *)
  fl_bypass2 : bool      (* F32: maxsize = 0 and two calls with the same key in progress at once *)
}.

Record st := mk {
  dicts : nat -> list slot; (* by generation; head = least recently used = what popitem(last=False) pops *)
  cur : nat;                (* generation of the running loop's dict *)
  has_dict : bool;          (* lru_cache_items of the running loop has an entry for the wrapper *)
  hits : nat;
  misses : nat;
  currsize : Z;             (* a Python int: the code can drive it below zero *)
  locks : lid -> Lock.st;
  nlock : lid;
  phase : cid -> cphase;
  now : nat;
  clk : nat;                (* ghost: stamp counter *)
  lkey : lid -> key;        (* ghost: the key a lock was created for *)
  produced : list (key * val);  (* ghost: (key, value) of every execution of the wrapped function that returned *)
  fl : flagset
}.

Definition f_inflight (s : st) := fl_inflight (fl s).
Definition f_waited (s : st) := fl_waited (fl s).
Definition f_uncounted (s : st) := fl_uncounted (fl s).
Definition f_dead (s : st) := fl_dead (fl s).
Definition f_phantom (s : st) := fl_phantom (fl s).
Definition f_bypass2 (s : st) := fl_bypass2 (fl s).
Definition dict (s : st) : list slot := dicts s (cur s).

Definition init : st :=
  mk (fun _ => []) 0 false 0 0 0%Z (fun _ => Lock.init true) 0 (fun _ => CIdle) 0 0 (fun _ => 0) []
     (mkfl false false false false false false).

(* ---------- field updates ---------- *)
Definition set_dict (s : st) (g : nat) (d : list slot) : st :=
  mk (upd (dicts s) g d) (cur s) (has_dict s) (hits s) (misses s) (currsize s) (locks s) (nlock s) (phase s) (now s)
     (clk s) (lkey s) (produced s) (fl s).
Definition set_phase (s : st) (c : cid) (p : cphase) : st :=
  mk (dicts s) (cur s) (has_dict s) (hits s) (misses s) (currsize s) (locks s) (nlock s) (upd (phase s) c p) (now s)
     (clk s) (lkey s) (produced s) (fl s).
Definition set_lock (s : st) (l : lid) (L : Lock.st) : st :=
  mk (dicts s) (cur s) (has_dict s) (hits s) (misses s) (currsize s) (upd (locks s) l L) (nlock s) (phase s) (now s)
     (clk s) (lkey s) (produced s) (fl s).
Definition set_counts (s : st) (h m : nat) (cs : Z) : st :=
  mk (dicts s) (cur s) (has_dict s) h m cs (locks s) (nlock s) (phase s) (now s) (clk s) (lkey s) (produced s) (fl s).
Definition bump_clk (s : st) : st :=
  mk (dicts s) (cur s) (has_dict s) (hits s) (misses s) (currsize s) (locks s) (nlock s) (phase s) (now s)
     (S (clk s)) (lkey s) (produced s) (fl s).
Definition add_produced (s : st) (k : key) (v : val) : st :=
  mk (dicts s) (cur s) (has_dict s) (hits s) (misses s) (currsize s) (locks s) (nlock s) (phase s) (now s) (clk s)
     (lkey s) ((k, v) :: produced s) (fl s).
Definition set_fl (s : st) (f : flagset) : st :=
  mk (dicts s) (cur s) (has_dict s) (hits s) (misses s) (currsize s) (locks s) (nlock s) (phase s) (now s) (clk s)
     (lkey s) (produced s) f.
Definition set_has_dict (s : st) : st :=
  mk (dicts s) (cur s) true (hits s) (misses s) (currsize s) (locks s) (nlock s) (phase s) (now s) (clk s)
     (lkey s) (produced s) (fl s).
(* Lock(fast_acquire = not always_checkpoint) created for key k *)
Definition new_lock (cf : cfg) (s : st) (k : key) : st :=
  mk (dicts s) (cur s) (has_dict s) (hits s) (misses s) (currsize s)
     (upd (locks s) (nlock s) (Lock.init (negb (ackpt cf)))) (S (nlock s)) (phase s) (now s) (clk s)
     (upd (lkey s) (nlock s) k) (produced s) (fl s).

Definition fl_or_inflight (f : flagset) (b : bool) : flagset :=
  mkfl (orb (fl_inflight f) b) (fl_waited f) (fl_uncounted f) (fl_dead f) (fl_phantom f) (fl_bypass2 f).
Definition fl_or_waited (f : flagset) (b : bool) : flagset :=
  mkfl (fl_inflight f) (orb (fl_waited f) b) (fl_uncounted f) (fl_dead f) (fl_phantom f) (fl_bypass2 f).
Definition fl_or_uncounted (f : flagset) (b : bool) : flagset :=
  mkfl (fl_inflight f) (fl_waited f) (orb (fl_uncounted f) b) (fl_dead f) (fl_phantom f) (fl_bypass2 f).
Definition fl_or_dead (f : flagset) (b : bool) : flagset :=
  mkfl (fl_inflight f) (fl_waited f) (fl_uncounted f) (orb (fl_dead f) b) (fl_phantom f) (fl_bypass2 f).
Definition fl_or_phantom (f : flagset) (b : bool) : flagset :=
  mkfl (fl_inflight f) (fl_waited f) (fl_uncounted f) (fl_dead f) (orb (fl_phantom f) b) (fl_bypass2 f).
Definition fl_or_bypass2 (f : flagset) (b : bool) : flagset :=
  mkfl (fl_inflight f) (fl_waited f) (fl_uncounted f) (fl_dead f) (fl_phantom f) (orb (fl_bypass2 f) b).

(* ---------- the ordered dict ---------- *)
Fixpoint dfind (k : key) (d : list slot) : option slot :=
  match d with
  | [] => None
  | x :: r => if Nat.eqb (sk x) k then Some x else dfind k r
  end.

(* d[k] = e for a key that is present: the position (and the stamp) is kept *)
Fixpoint dset_in (k : key) (e : entry) (d : list slot) : list slot :=
  match d with
  | [] => []
  | x :: r => if Nat.eqb (sk x) k then mkslot k e (ss x) :: r else x :: dset_in k e r
  end.

(* d[k] = e *)
Definition dstore (k : key) (e : entry) (stamp : nat) (d : list slot) : list slot :=
  match dfind k d with
  | Some _ => dset_in k e d
  | None => d ++ [mkslot k e stamp]
  end.

Definition dremove (k : key) (d : list slot) : list slot :=
  filter (fun x => negb (Nat.eqb (sk x) k)) d.

(* d.move_to_end(k) *)
Definition dmove (k : key) (stamp : nat) (d : list slot) : list slot :=
  match dfind k d with
  | Some x => dremove k d ++ [mkslot k (se x) stamp]
  | None => d
  end.

Definition is_place (e : entry) : bool := match e with EPlace _ _ => true | EVal _ _ => false end.

(* ghost: the placeholder of key k (if it is one) is marked as counted *)
Definition dmark (k : key) (d : list slot) : list slot :=
  match dfind k d with
  | Some x => match se x with EPlace l _ => dset_in k (EPlace l true) d | EVal _ _ => d end
  | None => d
  end.

(* the entry of key k is a placeholder that no miss has counted *)
Definition uncounted_at (k : key) (d : list slot) : bool :=
  match dfind k d with
  | Some x => match se x with EPlace _ false => true | _ => false end
  | None => false
  end.

(* the computation of key k ended without a result and its counted placeholder is still there *)
Definition dead_left (k : key) (d : list slot) : bool :=
  match dfind k d with
  | Some x => match se x with EPlace _ true => true | _ => false end
  | None => false
  end.

(* ---------- small helpers ---------- *)
(* ---------- construction of the cache key (functools.py:149-157) ----------
   A call is a list of positional arguments and a list of keyword arguments in call order; an argument is a
   number together with its Python type (values of different types compare and hash equal: 1 == 1.0 == True ==
   Decimal(1) == Fraction(1)).  The key is the flat tuple  args + (SEP, name1, value1, ...) [+ types of args +
   (SEP, types of the keyword values) if typed];  its items are compared with ==. *)
Inductive aty := TInt | TFloat | TBool | TDec | TFrac.
Record argv := mkarg { av : nat; aty_of : aty }.
Record calld := mkcall { cpos : list argv; ckws : list (nat * argv) }.
Inductive katom := KVal (v : nat) | KSep | KName (n : nat) | KTy (t : aty).

Definition make_key (ty : bool) (c : calld) : list katom :=
  map (fun a => KVal (av a)) (cpos c) ++
  match ckws c with
  | [] => []
  | _ => KSep :: flat_map (fun na => [KName (fst na); KVal (av (snd na))]) (ckws c)
  end ++
  (if ty then
     map (fun a => KTy (aty_of a)) (cpos c) ++
     match ckws c with
     | [] => []
     | _ => KSep :: map (fun na => KTy (aty_of (snd na))) (ckws c)
     end
   else []).

Definition aty_eqb (a b : aty) : bool :=
  match a, b with
  | TInt, TInt | TFloat, TFloat | TBool, TBool | TDec, TDec | TFrac, TFrac => true
  | _, _ => false
  end.

Definition katom_eqb (a b : katom) : bool :=
  match a, b with
  | KVal v, KVal w => Nat.eqb v w
  | KSep, KSep => true
  | KName n, KName m => Nat.eqb n m
  | KTy s, KTy t => aty_eqb s t
  | _, _ => false
  end.

Fixpoint keyt_eqb (a b : list katom) : bool :=
  match a, b with
  | [], [] => true
  | x :: r, y :: s => andb (katom_eqb x y) (keyt_eqb r s)
  | _, _ => false
  end.

(* the catalogue of calls the harness issues, by code (names: 0 = x, 1 = y, 2 = a, 3 = b):
   a < 16: one positional argument a/2, int or float;  a >= 16: a - 16 = (form * 5 + type) * 4 + value *)
Definition ty_of_code (t v : nat) : aty :=
  match t with
  | 0 => TInt | 1 => TFloat | 2 => if Nat.leb v 1 then TBool else TInt | 3 => TDec | _ => TFrac
  end.

Definition call_of (a : nat) : calld :=
  if Nat.ltb a 16 then mkcall [mkarg (Nat.div2 a) (if Nat.even a then TInt else TFloat)] []
  else
    let b := a - 16 in
    let v := Nat.modulo b 4 in
    let x := mkarg v (ty_of_code (Nat.modulo (Nat.div b 4) 5) v) in
    let one := mkarg 1 TInt in
    match Nat.div b 20 with
    | 0 => mkcall [x] []                          (* f(v) *)
    | 1 => mkcall [] [(0, x)]                     (* f(x=v) *)
    | 2 => mkcall [mkarg 2 TInt] [(1, x)]         (* f(2, y=v) *)
    | 3 => mkcall [] [(2, x); (3, one)]           (* f(a=v, b=1) *)
    | 4 => mkcall [] [(3, one); (2, x)]           (* f(b=1, a=v) *)
    | _ => mkcall [x; one] []                     (* f(v, 1) *)
    end.

(* the model's key of a call: the least code of the catalogue whose call has the same key tuple *)
Definition key_of (cf : cfg) (a : nat) : key :=
  match find (fun a' => keyt_eqb (make_key (typed cf) (call_of a')) (make_key (typed cf) (call_of a)))
             (seq 0 (S a)) with
  | Some a' => a'
  | None => a
  end.

Definition expired (exp : option nat) (t : nat) : bool :=
  match exp with Some e => Nat.leb e t | None => false end.       (* current_time() >= expires_at *)

Definition new_exp (cf : cfg) (t : nat) : option nat :=
  match ttl cf with Some d => Some (t + d) | None => None end.

Definition full (cf : cfg) (s : st) : bool :=
  match maxsize cf with Some m => Z.leb (Z.of_nat m) (currsize s) | None => false end.

Definition is_cidle (p : cphase) : bool := match p with CIdle => true | _ => false end.

Definition waits_for (k : key) (g : nat) (p : cphase) : bool :=
  match p with CLockWait k' _ _ g' => andb (Nat.eqb k' k) (Nat.eqb g' g) | _ => false end.

(* some caller of key k (in dict g) is suspended in lock.acquire() *)
Definition waited (cf : cfg) (s : st) (k : key) (g : nat) : bool :=
  existsb (fun c => waits_for k g (phase s c)) (seq 0 (ncall cf)).

Definition refs (l : lid) (p : cphase) : bool :=
  match p with
  | CLockWait _ l' _ _ => Nat.eqb l' l
  | CInWrapped _ l' _ _ _ => Nat.eqb l' l
  | _ => false
  end.

(* some caller holds lock l or is suspended in its acquire() *)
Definition referenced (cf : cfg) (s : st) (l : lid) : bool :=
  existsb (fun c => refs l (phase s c)) (seq 0 (ncall cf)).

Definition bypasses (k : key) (p : cphase) : bool :=
  match p with CBypass k' _ _ => Nat.eqb k' k | _ => false end.

Definition bypassing (cf : cfg) (s : st) (k : key) : bool :=
  existsb (fun c => bypasses k (phase s c)) (seq 0 (ncall cf)).

Definition all_idle (cf : cfg) (s : st) : bool :=
  forallb (fun c => is_cidle (phase s c)) (seq 0 (ncall cf)).

Definition lock_do (s : st) (l : lid) (o : Lock.op) : st * Lock.res :=
  let '(L, r) := Lock.step (locks s l) o in (set_lock s l L, r).

(* __aexit__ of `async with lock`: lock.release() by the caller *)
Definition release (s : st) (c : cid) (l : lid) : st * bool :=
  let '(s1, r) := lock_do s l (Lock.Release c) in
  (s1, match r with Lock.RDone => true | _ => false end).

Definition finish (s : st) (c : cid) (ok : bool) (r : res) : st * res :=
  (set_phase s c CIdle, if ok then r else RLockErr).

(* cache_entry.popitem(last=False) at a miss in dict g, with the ghost flags *)
Definition evict_flags (cf : cfg) (s : st) (g : nat) (x : slot) : flagset :=
  match se x with
  | EPlace l cnt =>
      if referenced cf s l then fl_or_inflight (fl s) true
      else fl_or_uncounted (fl s) (negb cnt)
  | EVal _ _ => fl_or_waited (fl s) (waited cf s (sk x) g)
  end.

Definition evict (cf : cfg) (s : st) (g : nat) : st :=
  match dicts s g with
  | [] => s
  | x :: r => set_fl (set_dict s g r) (evict_flags cf s g x)
  end.

(* lines 197-214: the caller holds lock l; its dict is generation g *)
Definition body (cf : cfg) (s : st) (c : cid) (k : key) (l : lid) (g : nat) : st * res :=
  match dfind k (dicts s g) with
  | None =>
      (* cache_entry[key] raises KeyError inside the `async with` *)
      let '(s1, ok) := release s c l in finish s1 c ok RKeyError
  | Some x =>
      match se x with
      | EPlace _ _ =>
          let s1 := set_counts s (hits s) (S (misses s)) (currsize s) in
          let s2 := if full cf s1 then evict cf s1 g
                    else set_counts s1 (hits s1) (misses s1) (currsize s1 + 1)%Z in
          let s3 := set_dict s2 g (dmark k (dicts s2 g)) in
          (set_phase s3 c (CInWrapped k l None false g), RBlocked)
      | EVal v _ =>
          let s1 := set_counts s (S (hits s)) (misses s) (currsize s) in
          let s2 := bump_clk (set_dict s1 g (dmove k (clk s1) (dicts s1 g))) in
          let '(s3, ok) := release s2 c l in finish s3 c ok (RRet v)
      end
  end.

(* `async with lock:` entered by idle caller c.  (The caller is marked CLockWait before the lock is touched;
   on the paths that do not suspend the mark is overwritten in the same step.) *)
Definition acquire (cf : cfg) (s : st) (c : cid) (k : key) (l : lid) : st * res :=
  let g := cur s in
  let '(s1, r) := lock_do (set_phase s c (CLockWait k l (now s) g)) l (Lock.AcqBegin c) in
  match r with
  | Lock.RDone => body cf s1 c k l g
  | Lock.RBlocked => (s1, RBlocked)
  | _ => (set_phase s1 c CIdle, RLockErr)
  end.

(* the same inside an already cancelled scope: Lock.acquire() awaits checkpoint_if_cancelled() FIRST (/repo c2fb7fb,
   finding F53), before it looks at the lock: the caller suspends there, whatever the state of the lock, and the
   CancelledError is on its way; the lock is never touched and the caller never becomes a queued waiter.  (Before
   that fix a caller that found the lock busy queued up and its future was cancelled by the scope.)  An uncounted
   placeholder of its key stays behind. *)
Definition acquire_x (cf : cfg) (s : st) (c : cid) (k : key) (l : lid) : st * res :=
  (set_phase (set_fl s (fl_or_uncounted (fl s) (uncounted_at k (dict s)))) c (CEntryCk k), RBlocked).

Definition is_zero_max (cf : cfg) : bool :=
  match maxsize cf with Some 0 => true | _ => false end.

(* __call__ up to its first suspension; x = issued inside an already cancelled scope *)
Definition enter (cf : cfg) (s : st) (c : cid) (a : nat) (x : bool) : st * res :=
  if negb (Nat.ltb c (ncall cf)) then (s, RRejected) else
  if negb (is_cidle (phase s c)) then (s, RRejected) else
  let k := key_of cf a in
  if is_zero_max cf then
    (set_phase (set_fl s (fl_or_bypass2 (fl s) (bypassing cf s k))) c (CBypass k None x), RBlocked)
  else
  let s := set_has_dict s in
  let acq := if x then acquire_x else acquire in
  match dfind k (dict s) with
  | None =>
      let l := nlock s in
      let s1 := new_lock cf s k in
      let s2 := bump_clk (set_dict s1 (cur s1) (dict s1 ++ [mkslot k (EPlace l false) (clk s1)])) in
      acq cf s2 c k l
  | Some y =>
      match se y with
      | EPlace l _ => acq cf s c k l
      | EVal v exp =>
          if expired exp (now s) then
            let l := nlock s in
            let s1 := set_fl s (fl_or_waited (fl s) (waited cf s k (cur s))) in
            let s2 := set_counts s1 (hits s1) (misses s1) (currsize s1 - 1)%Z in
            let s3 := new_lock cf s2 k in
            (* cache_entry[key] = placeholder; cache_entry.move_to_end(key)  (the recomputation is a use) *)
            let s4 := bump_clk (set_dict s3 (cur s3)
                                   (dmove k (clk s3) (dset_in k (EPlace l false) (dict s3)))) in
            acq cf s4 c k l
          else
            let s1 := set_counts s (S (hits s)) (misses s) (currsize s) in
            let s2 := bump_clk (set_dict s1 (cur s1) (dmove k (clk s1) (dict s1))) in
            if ackpt cf then (set_phase s2 c (CHitCk k v x), RBlocked) else (s2, RRet v)
      end
  end.

Definition step (cf : cfg) (s : st) (o : op) : st * res :=
  match o with
  | Call c a => enter cf s c a false
  | CallX c a => enter cf s c a true
  | WrappedReturns c v =>
      match phase s c with
      | CInWrapped k l None false g => (set_phase s c (CInWrapped k l (Some (WRet v)) false g), RNone)
      | CBypass k None false => (set_phase s c (CBypass k (Some (WRet v)) false), RNone)
      | _ => (s, RRejected)
      end
  | WrappedRaises c e =>
      match phase s c with
      | CInWrapped k l None false g => (set_phase s c (CInWrapped k l (Some (WExc e)) false g), RNone)
      | CBypass k None false => (set_phase s c (CBypass k (Some (WExc e)) false), RNone)
      | _ => (s, RRejected)
      end
  | CancelCaller c =>
      match phase s c with
      | CIdle => (s, RRejected)
      | CEntryCk k => (s, RNone)
      | CLockWait k l t0 g => let '(s1, _) := lock_do s l (Lock.Cancel c) in (s1, RNone)
      | CInWrapped k l pend _ g => (set_phase s c (CInWrapped k l pend true g), RNone)
      | CHitCk k v _ => (set_phase s c (CHitCk k v true), RNone)
      | CBypass k pend _ => (set_phase s c (CBypass k pend true), RNone)
      end
  | Resume c =>
      match phase s c with
      | CIdle => (s, RRejected)
      | CEntryCk k => (set_phase s c CIdle, RCancelled)
      | CLockWait k l t0 g =>
          let '(s1, r) := lock_do s l (Lock.Resume c) in
          match r with
          | Lock.RDone => body cf s1 c k l g
          | Lock.RCancelled =>
              (set_phase (set_fl s1 (fl_or_uncounted (fl s1) (uncounted_at k (dicts s1 g)))) c CIdle, RCancelled)
          | Lock.RRejected => (s, RRejected)
          | _ => (set_phase s1 c CIdle, RLockErr)
          end
      | CInWrapped k l pend canc g =>
          let sd := set_fl s (fl_or_dead (fl s) (dead_left k (dicts s g))) in
          if canc then let '(s1, ok) := release sd c l in finish s1 c ok RCancelled
          else match pend with
               | None => (s, RRejected)
               | Some (WRet v) =>
                   let s1 := add_produced s k v in
                   let s2 := bump_clk (set_dict s1 g (dstore k (EVal v (new_exp cf (now s1))) (clk s1) (dicts s1 g))) in
                   let '(s3, ok) := release s2 c l in finish s3 c ok (RRet v)
               | Some (WExc e) => let '(s1, ok) := release sd c l in finish s1 c ok (RExc e)
               end
      | CHitCk k v canc => (set_phase s c CIdle, if canc then RCancelled else RRet v)
      | CBypass k pend canc =>
          if canc then (set_phase s c CIdle, RCancelled)
          else match pend with
               | None => (s, RRejected)
               | Some (WRet v) =>
                   let s1 := add_produced (set_counts s (hits s) (S (misses s)) (currsize s)) k v in
                   (set_phase s1 c CIdle, RRet v)
               | Some (WExc e) => (set_phase s c CIdle, RExc e)
               end
      end
  | Tick =>
      (mk (dicts s) (cur s) (has_dict s) (hits s) (misses s) (currsize s) (locks s) (nlock s) (phase s) (S (now s))
          (clk s) (lkey s) (produced s) (fl s), RNone)
  | Clear =>
      (* `if cache := lru_cache_items.get(None): cache.pop(self, None); hits = misses = currsize = 0` *)
      if has_dict s then
        (mk (upd (dicts s) (S (cur s)) []) (S (cur s)) false 0 0 0%Z (locks s) (nlock s) (phase s) (now s) (clk s)
            (lkey s) (produced s) (fl_or_phantom (fl s) (negb (all_idle cf s))), RNone)
      else (s, RNone)
  | NewLoop =>
      if negb (all_idle cf s) then (s, RRejected) else
      (mk (upd (dicts s) (S (cur s)) []) (S (cur s)) false (hits s) (misses s) (currsize s) (locks s) (nlock s)
          (phase s) (now s) (clk s) (lkey s) (produced s)
          (fl_or_phantom (fl s) (negb (Z.eqb (currsize s) 0))), RNone)
  end.

(* ---------- the known-finding predicates, evaluated by the model on a history ---------- *)
Definition run (cf : cfg) (ops : list op) : st := final (step cf) init ops.
Definition evicts_inflight (cf : cfg) (ops : list op) : bool := f_inflight (run cf ops).
Definition evicts_waited (cf : cfg) (ops : list op) : bool := f_waited (run cf ops).
Definition uncounted_placeholder (cf : cfg) (ops : list op) : bool := f_uncounted (run cf ops).
Definition dead_placeholder_counted (cf : cfg) (ops : list op) : bool := f_dead (run cf ops).
Definition stale_count_other_loop (cf : cfg) (ops : list op) : bool := f_phantom (run cf ops).
Definition maxsize0_no_single_flight (cf : cfg) (ops : list op) : bool := f_bypass2 (run cf ops).
Definition no_inflight_eviction (cf : cfg) (ops : list op) : Prop := evicts_inflight cf ops = false.
Definition no_waited_eviction (cf : cfg) (ops : list op) : Prop := evicts_waited cf ops = false.
Definition no_uncounted_eviction (cf : cfg) (ops : list op) : Prop := uncounted_placeholder cf ops = false.
Definition no_dead_placeholder (cf : cfg) (ops : list op) : Prop := dead_placeholder_counted cf ops = false.
Definition no_other_loop (cf : cfg) (ops : list op) : Prop := stale_count_other_loop cf ops = false.
Definition maxsize_pos (cf : cfg) : Prop := is_zero_max cf = false.

(* ---------- observable output of a step (what the harness compares) ---------- *)
Definition res_obs (r : res) : list Z :=
  match r with
  | RRet v => [0; nz v] | RBlocked => [1; 0] | RCancelled => [2; 0] | RExc e => [3; nz e]
  | RKeyError => [4; 0] | RNone => [5; 0] | RLockErr => [6; 0] | RRejected => [9; 0]
  end%Z.

Definition slot_obs (s : st) (x : slot) : list Z :=
  match se x with
  | EPlace l cnt =>
      let L := locks s l in
      [nz (sk x); 0%Z;
       (2 * nz (length (Lock.waiters L)) + bz (match Lock.owner L with Some _ => true | None => false end))%Z;
       bz cnt]
  | EVal v exp => [nz (sk x); 1%Z; nz v; oz exp]
  end.

Definition flags_obs (f : flagset) : list Z :=
  [bz (fl_inflight f); bz (fl_waited f); bz (fl_uncounted f); bz (fl_dead f); bz (fl_phantom f); bz (fl_bypass2 f)].

Definition observe (s : st) (r : res) : list Z :=
  res_obs r ++ [nz (hits s); nz (misses s); currsize s] ++ flags_obs (fl s) ++
  [nz (length (dict s))] ++ flat_map (slot_obs s) (dict s).

(* ---------- codec: flat integer encoding of a case (shared with the Python harness) ---------- *)
Definition decode_opt (z : Z) : option nat := if Z.eqb z 0 then None else Some (zn (z - 1)).

Definition decode_op (c x y : Z) : op :=
  match c with
  | 0 => Call (zn x) (zn y) | 1 => WrappedReturns (zn x) (zn y) | 2 => WrappedRaises (zn x) (zn y)
  | 3 => CancelCaller (zn x) | 4 => Resume (zn x) | 5 => Tick | 6 => Clear | 7 => CallX (zn x) (zn y)
  | _ => NewLoop
  end%Z.

Fixpoint decode_ops (l : list Z) : list op :=
  match l with
  | c :: x :: y :: r => decode_op c x y :: decode_ops r
  | _ => []
  end.

Fixpoint run_obs (cf : cfg) (s : st) (ops : list op) : list Z :=
  match ops with
  | [] => []
  | o :: r => let '(s1, out) := step cf s o in observe s1 out ++ run_obs cf s1 r
  end.

(* case = maxsize (0 = None, n+1 = n) :: ttl (same) :: always_checkpoint :: typed :: ncall :: flat ops *)
Definition run_case (c : list Z) : list Z :=
  match c with
  | ms :: tl_ :: ac :: ty :: nc :: r =>
      run_obs (mkcfg (decode_opt ms) (decode_opt tl_) (zb ac) (zb ty) (zn nc)) init (decode_ops r)
  | _ => []
  end.
