(* P/Lru: executable model of anyio.functools.AsyncLRUCacheWrapper (functools.py:100-216 of the pinned tree).
   Callers are tasks; the actions are the atomic segments of __call__:
     Call c a          lookup / install placeholder / expiry replacement (+ move_to_end) / hit (move_to_end, optional
                       checkpoint),
                       `async with lock` up to its first suspension; on the uncontended fast path also the
                       re-read of the entry and the miss bookkeeping up to the call of the wrapped function
     Resume c          the wake-up of blocked caller c runs: lock acquired -> re-read (KeyError possible) -> miss
                       bookkeeping / eviction -> wrapped function entered;  wrapped function finished -> store,
                       release, return;  hit checkpoint finished
   plus the environment: WrappedReturns / WrappedRaises (the future the wrapped function waits on is resolved,
   oracle value), CancelCaller (native Task.cancel() on a blocked caller), Tick (clock used by ttl), Clear
   (cache_clear(), only with no call in progress).
   Every placeholder owns a fresh Lock machine (prims/Lock.v) with fast_acquire = negb always_checkpoint.
   Ghost components (no influence on the behaviour): lkey, produced, stamps, f_inflight, f_waited.
   Definitions only: proofs are in LruProofs.v / LruThms.v. *)
From AV Require Import Base.
From AV Require Lock.

Definition cid := nat.
Definition key := nat.
Definition val := nat.
Definition lid := nat.

Inductive entry :=
| EPlace (l : lid)                      (* (initial_missing, Lock, None): computation not finished *)
| EVal (v : val) (exp : option nat).    (* (value, None, expires_at) *)

(* one item of the OrderedDict; ss = ghost stamp of the last insertion-at-the-end / move_to_end *)
Record slot := mkslot { sk : key; se : entry; ss : nat }.

Inductive wres := WRet (v : val) | WExc (e : nat).

Inductive cphase :=
| CIdle
| CLockWait (k : key) (l : lid) (t0 : nat)                       (* suspended inside lock.acquire(); t0 = time of the call *)
| CInWrapped (k : key) (l : lid) (pend : option wres) (canc : bool) (* holds l, suspended inside the wrapped function *)
| CHitCk (k : key) (v : val) (canc : bool)                        (* hit, suspended in `await checkpoint()` *)
| CBypass (k : key) (pend : option wres) (canc : bool).           (* maxsize = 0: inside the wrapped function, no cache *)

Inductive op :=
| Call (c : cid) (a : nat)          (* a = 2 * argument value + (1 if the argument is a float) *)
| WrappedReturns (c : cid) (v : val)
| WrappedRaises (c : cid) (e : nat)
| CancelCaller (c : cid)
| Resume (c : cid)
| Tick
| Clear.

Inductive res :=
| RRet (v : val)     (* the call returned v *)
| RBlocked           (* the caller suspended inside the call *)
| RCancelled         (* CancelledError propagated out of the call *)
| RExc (e : nat)     (* the exception raised by the wrapped function propagated out of the call *)
| RKeyError          (* KeyError raised by the wrapper itself (line 198) *)
| RNone              (* environment op *)
| RLockErr           (* RuntimeError out of the entry's Lock *)
| RRejected.         (* op impossible in this state; the harness never produces it *)

Record cfg := mkcfg {
  maxsize : option nat;     (* None = unbounded *)
  ttl : option nat;         (* in ticks *)
  ackpt : bool;             (* always_checkpoint *)
  typed : bool;
  ncall : nat               (* callers are 0 .. ncall-1 *)
}.

Record st := mk {
  dict : list slot;         (* head = least recently used = what popitem(last=False) pops *)
  hits : nat;
  misses : nat;
  currsize : Z;             (* a Python int: the code can drive it below zero *)
  locks : lid -> Lock.st;
  nlock : lid;
  phase : cid -> cphase;
  now : nat;
  clk : nat;                (* ghost: stamp counter *)
  lkey : lid -> key;        (* ghost: the key a lock was created for *)
  produced : list (key * val);  (* ghost: (key, value) of every execution of the wrapped function that returned *)
  f_inflight : bool;        (* ghost, sticky: some miss evicted a placeholder (finding F3) *)
  f_waited : bool           (* ghost, sticky: a completed entry was evicted / expired while a caller of its key
                               was suspended in lock.acquire() (finding F8) *)
}.

Definition init : st :=
  mk [] 0 0 0%Z (fun _ => Lock.init true) 0 (fun _ => CIdle) 0 0 (fun _ => 0) [] false false.

(* ---------- field updates ---------- *)
Definition set_dict (s : st) (d : list slot) : st :=
  mk d (hits s) (misses s) (currsize s) (locks s) (nlock s) (phase s) (now s) (clk s) (lkey s) (produced s)
     (f_inflight s) (f_waited s).
Definition set_phase (s : st) (c : cid) (p : cphase) : st :=
  mk (dict s) (hits s) (misses s) (currsize s) (locks s) (nlock s) (upd (phase s) c p) (now s) (clk s) (lkey s)
     (produced s) (f_inflight s) (f_waited s).
Definition set_lock (s : st) (l : lid) (L : Lock.st) : st :=
  mk (dict s) (hits s) (misses s) (currsize s) (upd (locks s) l L) (nlock s) (phase s) (now s) (clk s) (lkey s)
     (produced s) (f_inflight s) (f_waited s).
Definition set_counts (s : st) (h m : nat) (cs : Z) : st :=
  mk (dict s) h m cs (locks s) (nlock s) (phase s) (now s) (clk s) (lkey s) (produced s)
     (f_inflight s) (f_waited s).
Definition bump_clk (s : st) : st :=
  mk (dict s) (hits s) (misses s) (currsize s) (locks s) (nlock s) (phase s) (now s) (S (clk s)) (lkey s)
     (produced s) (f_inflight s) (f_waited s).
Definition add_produced (s : st) (k : key) (v : val) : st :=
  mk (dict s) (hits s) (misses s) (currsize s) (locks s) (nlock s) (phase s) (now s) (clk s) (lkey s)
     ((k, v) :: produced s) (f_inflight s) (f_waited s).
Definition set_flags (s : st) (fi fw : bool) : st :=
  mk (dict s) (hits s) (misses s) (currsize s) (locks s) (nlock s) (phase s) (now s) (clk s) (lkey s)
     (produced s) fi fw.
(* Lock(fast_acquire = not always_checkpoint) created for key k *)
Definition new_lock (cf : cfg) (s : st) (k : key) : st :=
  mk (dict s) (hits s) (misses s) (currsize s) (upd (locks s) (nlock s) (Lock.init (negb (ackpt cf))))
     (S (nlock s)) (phase s) (now s) (clk s) (upd (lkey s) (nlock s) k) (produced s) (f_inflight s) (f_waited s).

(* ---------- the ordered dict ---------- *)
Fixpoint dfind (k : key) (d : list slot) : option slot :=
  match d with
  | [] => None
  | x :: r => if Nat.eqb (sk x) k then Some x else dfind k r
  end.

(* d[k] = e for a key that is present: the position (and the stamp) is kept *)
Fixpoint dset_in (k : key) (e : entry) (d : list slot) : list slot :=
  match d with
  | [] => []
  | x :: r => if Nat.eqb (sk x) k then mkslot k e (ss x) :: r else x :: dset_in k e r
  end.

(* d[k] = e *)
Definition dstore (k : key) (e : entry) (stamp : nat) (d : list slot) : list slot :=
  match dfind k d with
  | Some _ => dset_in k e d
  | None => d ++ [mkslot k e stamp]
  end.

Definition dremove (k : key) (d : list slot) : list slot :=
  filter (fun x => negb (Nat.eqb (sk x) k)) d.

(* d.move_to_end(k) *)
Definition dmove (k : key) (stamp : nat) (d : list slot) : list slot :=
  match dfind k d with
  | Some x => dremove k d ++ [mkslot k (se x) stamp]
  | None => d
  end.

Definition is_place (e : entry) : bool := match e with EPlace _ => true | EVal _ _ => false end.

(* ---------- small helpers ---------- *)
Definition key_of (cf : cfg) (a : nat) : key := if typed cf then a else Nat.div2 a.

Definition expired (exp : option nat) (t : nat) : bool :=
  match exp with Some e => Nat.leb e t | None => false end.       (* current_time() >= expires_at *)

Definition new_exp (cf : cfg) (t : nat) : option nat :=
  match ttl cf with Some d => Some (t + d) | None => None end.

Definition full (cf : cfg) (s : st) : bool :=
  match maxsize cf with Some m => Z.leb (Z.of_nat m) (currsize s) | None => false end.

Definition is_cidle (p : cphase) : bool := match p with CIdle => true | _ => false end.

Definition waits_for (k : key) (p : cphase) : bool :=
  match p with CLockWait k' _ _ => Nat.eqb k' k | _ => false end.

(* some caller of key k is suspended in lock.acquire() *)
Definition waited (cf : cfg) (s : st) (k : key) : bool :=
  existsb (fun c => waits_for k (phase s c)) (seq 0 (ncall cf)).

Definition all_idle (cf : cfg) (s : st) : bool :=
  forallb (fun c => is_cidle (phase s c)) (seq 0 (ncall cf)).

Definition lock_do (s : st) (l : lid) (o : Lock.op) : st * Lock.res :=
  let '(L, r) := Lock.step (locks s l) o in (set_lock s l L, r).

(* __aexit__ of `async with lock`: lock.release() by the caller *)
Definition release (s : st) (c : cid) (l : lid) : st * bool :=
  let '(s1, r) := lock_do s l (Lock.Release c) in
  (s1, match r with Lock.RDone => true | _ => false end).

Definition finish (s : st) (c : cid) (ok : bool) (r : res) : st * res :=
  (set_phase s c CIdle, if ok then r else RLockErr).

(* cache_entry.popitem(last=False) at a miss, with the ghost flags *)
Definition evict (cf : cfg) (s : st) : st :=
  match dict s with
  | [] => s
  | x :: r =>
      set_flags (set_dict s r)
        (orb (f_inflight s) (is_place (se x)))
        (orb (f_waited s) (andb (negb (is_place (se x))) (waited cf s (sk x))))
  end.

(* lines 197-214: the caller holds lock l *)
Definition body (cf : cfg) (s : st) (c : cid) (k : key) (l : lid) : st * res :=
  match dfind k (dict s) with
  | None =>
      (* cache_entry[key] raises KeyError inside the `async with` *)
      let '(s1, ok) := release s c l in finish s1 c ok RKeyError
  | Some x =>
      match se x with
      | EPlace _ =>
          let s1 := set_counts s (hits s) (S (misses s)) (currsize s) in
          let s2 := if full cf s1 then evict cf s1
                    else set_counts s1 (hits s1) (misses s1) (currsize s1 + 1)%Z in
          (set_phase s2 c (CInWrapped k l None false), RBlocked)
      | EVal v _ =>
          let s1 := set_counts s (S (hits s)) (misses s) (currsize s) in
          let s2 := bump_clk (set_dict s1 (dmove k (clk s1) (dict s1))) in
          let '(s3, ok) := release s2 c l in finish s3 c ok (RRet v)
      end
  end.

(* `async with lock:` entered by idle caller c.  (The caller is marked CLockWait before the lock is touched;
   on the paths that do not suspend the mark is overwritten in the same step.) *)
Definition acquire (cf : cfg) (s : st) (c : cid) (k : key) (l : lid) : st * res :=
  let '(s1, r) := lock_do (set_phase s c (CLockWait k l (now s))) l (Lock.AcqBegin c) in
  match r with
  | Lock.RDone => body cf s1 c k l
  | Lock.RBlocked => (s1, RBlocked)
  | _ => (set_phase s1 c CIdle, RLockErr)
  end.

Definition is_zero_max (cf : cfg) : bool :=
  match maxsize cf with Some 0 => true | _ => false end.

Definition step (cf : cfg) (s : st) (o : op) : st * res :=
  match o with
  | Call c a =>
      if negb (Nat.ltb c (ncall cf)) then (s, RRejected) else
      if negb (is_cidle (phase s c)) then (s, RRejected) else
      let k := key_of cf a in
      if is_zero_max cf then (set_phase s c (CBypass k None false), RBlocked) else
      match dfind k (dict s) with
      | None =>
          let l := nlock s in
          let s1 := new_lock cf s k in
          let s2 := bump_clk (set_dict s1 (dict s1 ++ [mkslot k (EPlace l) (clk s1)])) in
          acquire cf s2 c k l
      | Some x =>
          match se x with
          | EPlace l => acquire cf s c k l
          | EVal v exp =>
              if expired exp (now s) then
                let l := nlock s in
                let s1 := set_flags s (f_inflight s) (orb (f_waited s) (waited cf s k)) in
                let s2 := set_counts s1 (hits s1) (misses s1) (currsize s1 - 1)%Z in
                let s3 := new_lock cf s2 k in
                (* cache_entry[key] = placeholder; cache_entry.move_to_end(key)  (the recomputation is a use) *)
                let s4 := bump_clk (set_dict s3 (dmove k (clk s3) (dset_in k (EPlace l) (dict s3)))) in
                acquire cf s4 c k l
              else
                let s1 := set_counts s (S (hits s)) (misses s) (currsize s) in
                let s2 := bump_clk (set_dict s1 (dmove k (clk s1) (dict s1))) in
                if ackpt cf then (set_phase s2 c (CHitCk k v false), RBlocked) else (s2, RRet v)
          end
      end
  | WrappedReturns c v =>
      match phase s c with
      | CInWrapped k l None false => (set_phase s c (CInWrapped k l (Some (WRet v)) false), RNone)
      | CBypass k None false => (set_phase s c (CBypass k (Some (WRet v)) false), RNone)
      | _ => (s, RRejected)
      end
  | WrappedRaises c e =>
      match phase s c with
      | CInWrapped k l None false => (set_phase s c (CInWrapped k l (Some (WExc e)) false), RNone)
      | CBypass k None false => (set_phase s c (CBypass k (Some (WExc e)) false), RNone)
      | _ => (s, RRejected)
      end
  | CancelCaller c =>
      match phase s c with
      | CIdle => (s, RRejected)
      | CLockWait k l t0 => let '(s1, _) := lock_do s l (Lock.Cancel c) in (s1, RNone)
      | CInWrapped k l pend _ => (set_phase s c (CInWrapped k l pend true), RNone)
      | CHitCk k v _ => (set_phase s c (CHitCk k v true), RNone)
      | CBypass k pend _ => (set_phase s c (CBypass k pend true), RNone)
      end
  | Resume c =>
      match phase s c with
      | CIdle => (s, RRejected)
      | CLockWait k l t0 =>
          let '(s1, r) := lock_do s l (Lock.Resume c) in
          match r with
          | Lock.RDone => body cf s1 c k l
          | Lock.RCancelled => (set_phase s1 c CIdle, RCancelled)
          | Lock.RRejected => (s, RRejected)
          | _ => (set_phase s1 c CIdle, RLockErr)
          end
      | CInWrapped k l pend canc =>
          if canc then let '(s1, ok) := release s c l in finish s1 c ok RCancelled
          else match pend with
               | None => (s, RRejected)
               | Some (WRet v) =>
                   let s1 := add_produced s k v in
                   let s2 := bump_clk (set_dict s1 (dstore k (EVal v (new_exp cf (now s1))) (clk s1) (dict s1))) in
                   let '(s3, ok) := release s2 c l in finish s3 c ok (RRet v)
               | Some (WExc e) => let '(s1, ok) := release s c l in finish s1 c ok (RExc e)
               end
      | CHitCk k v canc => (set_phase s c CIdle, if canc then RCancelled else RRet v)
      | CBypass k pend canc =>
          if canc then (set_phase s c CIdle, RCancelled)
          else match pend with
               | None => (s, RRejected)
               | Some (WRet v) =>
                   let s1 := add_produced (set_counts s (hits s) (S (misses s)) (currsize s)) k v in
                   (set_phase s1 c CIdle, RRet v)
               | Some (WExc e) => (set_phase s c CIdle, RExc e)
               end
      end
  | Tick =>
      (mk (dict s) (hits s) (misses s) (currsize s) (locks s) (nlock s) (phase s) (S (now s)) (clk s) (lkey s)
          (produced s) (f_inflight s) (f_waited s), RNone)
  | Clear =>
      if negb (all_idle cf s) then (s, RRejected) else
      if is_zero_max cf then (s, RNone)       (* no cache dict was ever created: cache_clear() resets nothing *)
      else (set_counts (set_dict s []) 0 0 0%Z, RNone)
  end.

(* ---------- the two known-finding predicates, evaluated by the model on a history ---------- *)
Definition run (cf : cfg) (ops : list op) : st := final (step cf) init ops.
Definition evicts_inflight (cf : cfg) (ops : list op) : bool := f_inflight (run cf ops).
Definition evicts_waited (cf : cfg) (ops : list op) : bool := f_waited (run cf ops).
Definition no_inflight_eviction (cf : cfg) (ops : list op) : Prop := evicts_inflight cf ops = false.
Definition no_waited_eviction (cf : cfg) (ops : list op) : Prop := evicts_waited cf ops = false.

(* ---------- observable output of a step (what the harness compares) ---------- *)
Definition res_obs (r : res) : list Z :=
  match r with
  | RRet v => [0; nz v] | RBlocked => [1; 0] | RCancelled => [2; 0] | RExc e => [3; nz e]
  | RKeyError => [4; 0] | RNone => [5; 0] | RLockErr => [6; 0] | RRejected => [9; 0]
  end%Z.

Definition slot_obs (s : st) (x : slot) : list Z :=
  match se x with
  | EPlace l =>
      let L := locks s l in
      [nz (sk x); 0%Z;
       (2 * nz (length (Lock.waiters L)) + bz (match Lock.owner L with Some _ => true | None => false end))%Z;
       0%Z]
  | EVal v exp => [nz (sk x); 1%Z; nz v; oz exp]
  end.

Definition observe (s : st) (r : res) : list Z :=
  res_obs r ++ [nz (hits s); nz (misses s); currsize s; bz (f_inflight s); bz (f_waited s);
                nz (length (dict s))] ++ flat_map (slot_obs s) (dict s).

(* ---------- codec: flat integer encoding of a case (shared with the Python harness) ---------- *)
Definition decode_opt (z : Z) : option nat := if Z.eqb z 0 then None else Some (zn (z - 1)).

Definition decode_op (c x y : Z) : op :=
  match c with
  | 0 => Call (zn x) (zn y) | 1 => WrappedReturns (zn x) (zn y) | 2 => WrappedRaises (zn x) (zn y)
  | 3 => CancelCaller (zn x) | 4 => Resume (zn x) | 5 => Tick | _ => Clear
  end%Z.

Fixpoint decode_ops (l : list Z) : list op :=
  match l with
  | c :: x :: y :: r => decode_op c x y :: decode_ops r
  | _ => []
  end.

Fixpoint run_obs (cf : cfg) (s : st) (ops : list op) : list Z :=
  match ops with
  | [] => []
  | o :: r => let '(s1, out) := step cf s o in observe s1 out ++ run_obs cf s1 r
  end.

(* case = maxsize (0 = None, n+1 = n) :: ttl (same) :: always_checkpoint :: typed :: ncall :: flat ops *)
Definition run_case (c : list Z) : list Z :=
  match c with
  | ms :: tl_ :: ac :: ty :: nc :: r =>
      run_obs (mkcfg (decode_opt ms) (decode_opt tl_) (zb ac) (zb ty) (zn nc)) init (decode_ops r)
  | _ => []
  end.
