(* Proofs about the Lock machine: an inductive invariant for every op sequence, and the C09 clauses. *)
From AV Require Import Base Lock.

(* ---------- subsequences (for FIFO) ---------- *)
Inductive subseq {A} : list A -> list A -> Prop :=
| ss_nil : subseq [] []
| ss_skip x a b : subseq a b -> subseq a (x :: b)
| ss_take x a b : subseq a b -> subseq (x :: a) (x :: b).

Lemma subseq_refl {A} (l : list A) : subseq l l.
Proof. induction l; [apply ss_nil | apply ss_take; assumption]. Qed.

Lemma subseq_nil_l {A} (l : list A) : subseq [] l.
Proof. induction l; [apply ss_nil | apply ss_skip; assumption]. Qed.

Lemma subseq_trans {A} (a b c : list A) : subseq a b -> subseq b c -> subseq a c.
Proof.
  intros Hab Hbc. revert a Hab. induction Hbc as [|x b c Hbc IH|x b c Hbc IH]; intros a Hab.
  - exact Hab.
  - constructor. apply IH, Hab.
  - inversion Hab as [|y a' b' H1|y a' b' H1]; subst.
    + constructor. apply IH. exact H1.
    + apply ss_take. apply IH. exact H1.
Qed.

Lemma subseq_app_tail {A} (a b : list A) x : subseq a b -> subseq (a ++ [x]) (b ++ [x]).
Proof.
  induction 1 as [|y a b H IH|y a b H IH]; cbn.
  - apply ss_take, ss_nil.
  - apply ss_skip, IH.
  - apply ss_take, IH.
Qed.

Lemma subseq_suffix {A} (pre l : list A) : subseq l (pre ++ l).
Proof. induction pre; cbn; [apply subseq_refl|apply ss_skip; assumption]. Qed.

(* ---------- small list facts ---------- *)
Lemma NoDup_app_tail1 {A} (l : list A) x : NoDup l -> ~ In x l -> NoDup (l ++ [x]).
Proof.
  induction l as [|y l IH]; cbn; intros Hn Hx; [constructor; [tauto|constructor]|].
  inversion Hn as [|z l' Hy Hl]; subst. constructor.
  - intros H. apply in_app_or in H. destruct H as [H|[H|[]]]; [contradiction|]. subst. apply Hx. now left.
  - apply IH; [exact Hl|]. intros H. apply Hx. now right.
Qed.

Lemma in_remove_tid t x l : In x (remove_tid t l) <-> In x l /\ x <> t.
Proof.
  unfold remove_tid. rewrite filter_In. split.
  - intros [H1 H2]. split; [exact H1|]. intros ->. now rewrite Nat.eqb_refl in H2.
  - intros [H1 H2]. split; [exact H1|]. destruct (Nat.eqb_spec x t); [contradiction|reflexivity].
Qed.

Lemma nodup_remove_tid t l : NoDup l -> NoDup (remove_tid t l).
Proof. intros H. unfold remove_tid. now apply NoDup_filter. Qed.

Lemma remove_item_subseq t f ws : subseq (remove_item t f ws) ws.
Proof.
  induction ws as [|[t' f'] r IH]; cbn; [constructor|].
  destruct (Nat.eqb t' t && Nat.eqb f' f); [apply ss_skip, subseq_refl | apply ss_take, IH].
Qed.

Lemma subseq_in {A} (a b : list A) x : subseq a b -> In x a -> In x b.
Proof.
  induction 1 as [|y a b Hs IH|y a b Hs IH]; cbn; intros Hin; auto.
  destruct Hin as [Hin|Hin]; auto.
Qed.

Lemma subseq_map {A B} (g : A -> B) a b : subseq a b -> subseq (map g a) (map g b).
Proof.
  induction 1 as [|y a b H IH|y a b H IH]; cbn;
    [apply ss_nil | apply ss_skip, IH | apply ss_take, IH].
Qed.

Lemma subseq_nodup {A} (a b : list A) : subseq a b -> NoDup b -> NoDup a.
Proof.
  induction 1 as [|x a b H IH|x a b H IH]; intros Hn; [constructor| |].
  - inversion Hn; auto.
  - inversion Hn as [|y l Hy Hl]; subst. constructor; [|auto].
    intros Hin. apply Hy. eapply subseq_in; eauto.
Qed.

Lemma in_remove_item_other t f ws x : In x ws -> x <> (t, f) -> In x (remove_item t f ws).
Proof.
  induction ws as [|[t' f'] r IH]; cbn; [tauto|]. intros [H|H] Hne.
  - subst x. destruct (Nat.eqb_spec t' t), (Nat.eqb_spec f' f); cbn; try (left; reflexivity).
    subst. contradiction.
  - destruct (Nat.eqb t' t && Nat.eqb f' f); [exact H| right; apply IH; assumption].
Qed.

Lemma remove_item_gone t f ws :
  NoDup (map fst ws) -> (forall f', In (t, f') ws -> f' = f) ->
  ~ In t (map fst (remove_item t f ws)).
Proof.
  induction ws as [|[t' f'] r IH]; cbn; intros Hn Hf; [tauto|].
  inversion Hn as [|y l Hy Hl]; subst.
  destruct (Nat.eqb_spec t' t) as [->|Hne]; cbn.
  - assert (f' = f) by (apply Hf; left; reflexivity). subst. rewrite Nat.eqb_refl. exact Hy.
  - cbn. intros [H|H]; [contradiction|]. revert H. apply IH; [exact Hl|].
    intros f'' Hin. apply Hf. right. exact Hin.
Qed.

(* ---------- characterisation of the hand-off loop ---------- *)
Lemma handoff_spec ws fu :
  match handoff ws fu with
  | (None, ws', fu') => ws' = [] /\ fu' = fu /\ (forall t f, In (t, f) ws -> fu f = FCancelled)
  | (Some w, ws', fu') =>
      exists pre f, ws = pre ++ (w, f) :: ws' /\ fu f <> FCancelled /\ fu' = upd fu f FSet /\
                    (forall t' f', In (t', f') pre -> fu f' = FCancelled)
  end.
Proof.
  induction ws as [|[t f] r IH]; cbn.
  - refine (conj eq_refl (conj eq_refl _)). intros ? ? [].
  - destruct (fu f) eqn:Ef.
    + exists [], f. cbn. refine (conj eq_refl (conj _ (conj eq_refl _))); [congruence|intros ? ? []].
    + exists [], f. cbn. refine (conj eq_refl (conj _ (conj eq_refl _))); [congruence|intros ? ? []].
    + destruct (handoff r fu) as [[o ws'] fu']. destruct o as [w|].
      * destruct IH as (pre & f0 & E & Hf & Hu & Hp). exists ((t, f) :: pre), f0.
        subst r. cbn. refine (conj eq_refl (conj Hf (conj Hu _))).
        intros t' f' [H|H]; [congruence|eauto].
      * destruct IH as (E1 & E2 & Hp). refine (conj E1 (conj E2 _)).
        intros t' f' [H|H]; [congruence|eauto].
Qed.

(* ---------- the invariant ---------- *)
Definition holdish (s : st) (t : tid) : Prop :=
  In t (held s) \/ phase_of s t = FastYield \/ exists f, phase_of s t = Waiting f /\ futs s f = FSet.

Record Inv (s : st) : Prop := {
  I_owner : forall t, owner s = Some t <-> holdish s t;
  I_heldnd : NoDup (held s);
  I_heldidle : forall t, In t (held s) -> phase_of s t = Idle;
  I_free : owner s = None -> waiters s = [];
  I_w : forall t f, In (t, f) (waiters s) -> phase_of s t = Waiting f /\ futs s f <> FSet;
  I_pend : forall t f, phase_of s t = Waiting f -> futs s f = FPending -> In (t, f) (waiters s);
  I_fresh : forall t f, phase_of s t = Waiting f -> f < nfut s;
  I_inj : forall t1 t2 f, phase_of s t1 = Waiting f -> phase_of s t2 = Waiting f -> t1 = t2;
  I_nd : NoDup (map fst (waiters s));
  I_fifo : subseq (waiters s) (enq s)
}.

Lemma inv_init fa : Inv (init fa).
Proof.
  constructor; cbn.
  - intros t. split; [discriminate|].
    intros [H|[H|(f & H & _)]]; [contradiction|discriminate|discriminate].
  - constructor.
  - intros t [].
  - reflexivity.
  - intros t f [].
  - intros t f H; discriminate.
  - intros t f H; discriminate.
  - intros t1 t2 f H; discriminate.
  - constructor.
  - apply ss_nil.
Qed.

Lemma tid_eqb_opt_true o t : tid_eqb_opt o t = true <-> o = Some t.
Proof.
  destruct o as [x|]; cbn; [|split; discriminate].
  split; [intros H; apply Nat.eqb_eq in H; now subst | intros [=->]; apply Nat.eqb_refl].
Qed.

Lemma is_idle_true p : is_idle p = true <-> p = Idle.
Proof. destruct p; cbn; split; congruence. Qed.

(* taking a free lock: owner := Some t; then either return at once (held) or yield (FastYield) *)
Lemma take_held_inv s t fa :
  Inv s -> owner s = None -> phase_of s t = Idle ->
  Inv (add_held (mk fa (Some t) [] (futs s) (nfut s) (phase_of s) (mustc s) (held s) (enq s)) t).
Proof.
  intros I Ho Hp.
  assert (Hnone : forall x, ~ holdish s x).
  { intros x Hx. apply (I_owner s I) in Hx. congruence. }
  assert (Hw : waiters s = []) by (apply (I_free s I); exact Ho).
  constructor; cbn.
  - intros x. split.
    + intros [=->]. left. cbn. now left.
    + intros [[H|H]|[H|(f & H1 & H2)]].
      * now subst.
      * exfalso. apply (Hnone x). left. exact H.
      * exfalso. apply (Hnone x). right. left. exact H.
      * exfalso. apply (Hnone x). right. right. eauto.
  - constructor; [|apply (I_heldnd s I)]. intros H. apply (Hnone t). left. exact H.
  - intros x [H|H]; [now subst|apply (I_heldidle s I), H].
  - discriminate.
  - intros ? ? [].
  - intros x f H1 H2. pose proof (I_pend s I x f H1 H2) as H. now rewrite Hw in H.
  - apply (I_fresh s I).
  - apply (I_inj s I).
  - constructor.
  - apply subseq_nil_l.
Qed.

Lemma take_yield_inv s t fa :
  Inv s -> owner s = None -> phase_of s t = Idle ->
  Inv (set_phase (mk fa (Some t) [] (futs s) (nfut s) (phase_of s) (mustc s) (held s) (enq s)) t FastYield).
Proof.
  intros I Ho Hp.
  assert (Hnone : forall x, ~ holdish s x).
  { intros x Hx. apply (I_owner s I) in Hx. congruence. }
  assert (Hw : waiters s = []) by (apply (I_free s I); exact Ho).
  assert (Hold : forall x, x <> t -> upd (phase_of s) t FastYield x = phase_of s x)
    by (intros; now apply upd_other).
  constructor; cbn.
  - intros x. split.
    + intros [=->]. right. left. cbn. apply upd_same.
    + intros Hx. destruct (Nat.eq_dec x t) as [->|Hne]; [reflexivity|]. exfalso. apply (Hnone x).
      destruct Hx as [H|[H|(f & H1 & H2)]]; cbn in *.
      * left; exact H.
      * right; left. now rewrite Hold in H.
      * right; right. exists f. now rewrite Hold in H1.
  - apply (I_heldnd s I).
  - intros x H. assert (x <> t) by (intros ->; apply (Hnone t); left; exact H).
    rewrite Hold by assumption. apply (I_heldidle s I), H.
  - discriminate.
  - intros ? ? [].
  - intros x f H1 H2. destruct (Nat.eq_dec x t) as [->|Hne].
    + rewrite upd_same in H1. discriminate.
    + rewrite Hold in H1 by assumption. pose proof (I_pend s I x f H1 H2) as H. now rewrite Hw in H.
  - intros x f H1. destruct (Nat.eq_dec x t) as [->|Hne].
    + rewrite upd_same in H1. discriminate.
    + rewrite Hold in H1 by assumption. apply (I_fresh s I x f H1).
  - intros x1 x2 f H1 H2.
    destruct (Nat.eq_dec x1 t) as [->|Hne1]; [rewrite upd_same in H1; discriminate|].
    destruct (Nat.eq_dec x2 t) as [->|Hne2]; [rewrite upd_same in H2; discriminate|].
    rewrite Hold in H1, H2 by assumption. eapply (I_inj s I); eauto.
  - constructor.
  - apply subseq_nil_l.
Qed.

Lemma enqueue_inv s t :
  Inv s -> phase_of s t = Idle -> owner s <> Some t -> owner s <> None ->
  Inv (mk (fast s) (owner s) (waiters s ++ [(t, nfut s)]) (upd (futs s) (nfut s) FPending) (S (nfut s))
          (upd (phase_of s) t (Waiting (nfut s))) (mustc s) (held s) (enq s ++ [(t, nfut s)])).
Proof.
  intros I Hp Hnt Hsome.
  set (f0 := nfut s).
  assert (Hold : forall x, x <> t -> upd (phase_of s) t (Waiting f0) x = phase_of s x)
    by (intros; now apply upd_other).
  assert (Hfold : forall x f, phase_of s x = Waiting f -> upd (futs s) f0 FPending f = futs s f).
  { intros x f H. apply upd_other. pose proof (I_fresh s I x f H). unfold f0. lia. }
  assert (Hnh : ~ In t (held s)).
  { intros H. apply Hnt. apply (I_owner s I). left. exact H. }
  constructor; cbn.
  - intros x. rewrite (I_owner s I x). unfold holdish; cbn.
    destruct (Nat.eq_dec x t) as [->|Hne].
    + rewrite upd_same, Hp. split.
      * intros [H|[H|(f & H1 & H2)]]; [contradiction|discriminate|discriminate].
      * intros [H|[H|(f & H1 & H2)]]; [contradiction|discriminate|].
        injection H1 as <-. rewrite upd_same in H2. discriminate.
    + rewrite Hold by assumption. split.
      * intros [H|[H|(f & H1 & H2)]]; auto. right; right. exists f. split; [exact H1|].
        now rewrite (Hfold x f H1).
      * intros [H|[H|(f & H1 & H2)]]; auto. right; right. exists f. split; [exact H1|].
        now rewrite (Hfold x f H1) in H2.
  - apply (I_heldnd s I).
  - intros x H. assert (x <> t) by (intros ->; contradiction). rewrite Hold by assumption.
    apply (I_heldidle s I), H.
  - intros H. contradiction.
  - intros x f H. apply in_app_or in H. destruct H as [H|[H|[]]].
    + destruct (I_w s I x f H) as [H1 H2].
      assert (x <> t) by (intros ->; congruence).
      rewrite Hold by assumption. split; [exact H1|]. now rewrite (Hfold x f H1).
    + injection H as <- <-. rewrite !upd_same. split; [reflexivity|discriminate].
  - intros x f H1 H2. apply in_or_app. destruct (Nat.eq_dec x t) as [->|Hne].
    + rewrite upd_same in H1. injection H1 as <-. right. left. reflexivity.
    + rewrite Hold in H1 by assumption. left. rewrite (Hfold x f H1) in H2.
      apply (I_pend s I x f H1 H2).
  - intros x f H1. destruct (Nat.eq_dec x t) as [->|Hne].
    + rewrite upd_same in H1. injection H1 as <-. unfold f0. lia.
    + rewrite Hold in H1 by assumption. pose proof (I_fresh s I x f H1). lia.
  - intros x1 x2 f H1 H2.
    destruct (Nat.eq_dec x1 t) as [->|Hne1]; destruct (Nat.eq_dec x2 t) as [->|Hne2]; auto.
    + rewrite upd_same in H1. injection H1 as <-. rewrite Hold in H2 by assumption.
      pose proof (I_fresh s I x2 f0 H2). unfold f0 in *. lia.
    + rewrite upd_same in H2. injection H2 as <-. rewrite Hold in H1 by assumption.
      pose proof (I_fresh s I x1 f0 H1). unfold f0 in *. lia.
    + rewrite Hold in H1, H2 by assumption. eapply (I_inj s I); eauto.
  - rewrite map_app. cbn. apply NoDup_app_tail1; [apply (I_nd s I)|].
    intros H. apply in_map_iff in H. destruct H as ([x f] & E & H). cbn in E. subst x.
    destruct (I_w s I t f H) as [H1 _]. congruence.
  - apply subseq_app_tail, (I_fifo s I).
Qed.

(* ---------- release ---------- *)
Lemma remove_tid_cons_same t l : remove_tid t (t :: l) = remove_tid t l.
Proof. unfold remove_tid. cbn. now rewrite Nat.eqb_refl. Qed.

Lemma do_release_add_held s t : do_release (add_held s t) t = do_release s t.
Proof.
  unfold do_release, add_held; cbn [waiters futs fast nfut phase_of mustc held enq].
  destruct (handoff (waiters s) (futs s)) as [[o ws] fu].
  now rewrite remove_tid_cons_same.
Qed.

Lemma release_inv s t : Inv s -> owner s = Some t -> phase_of s t = Idle -> Inv (do_release s t).
Proof.
  intros I Ho Hp.
  assert (Honly : forall x, holdish s x -> x = t).
  { intros x Hx. apply (I_owner s I) in Hx. congruence. }
  assert (Hheld' : forall x, ~ In x (remove_tid t (held s))).
  { intros x Hx. apply in_remove_tid in Hx. destruct Hx as [Hx Hne]. apply Hne, Honly. left. exact Hx. }
  assert (Hnofy : forall x, phase_of s x <> FastYield).
  { intros x Hx. assert (x = t) by (apply Honly; right; left; exact Hx). subst. congruence. }
  assert (Hnoset : forall x f, phase_of s x = Waiting f -> futs s f <> FSet).
  { intros x f H1 H2. assert (x = t) by (apply Honly; right; right; eauto). subst. congruence. }
  unfold do_release. pose proof (handoff_spec (waiters s) (futs s)) as HS.
  destruct (handoff (waiters s) (futs s)) as [[o ws'] fu']. destruct o as [w|].
  - destruct HS as (pre & f & Ews & Hfc & Hfu & Hpre). subst fu'.
    assert (Hin : In (w, f) (waiters s)) by (rewrite Ews; apply in_or_app; right; left; reflexivity).
    destruct (I_w s I w f Hin) as [Hpw Hns].
    assert (Hsuf : subseq ws' (waiters s)).
    { rewrite Ews. replace (pre ++ (w, f) :: ws') with ((pre ++ [(w, f)]) ++ ws')
        by (rewrite <- app_assoc; reflexivity). apply subseq_suffix. }
    assert (Hwnot : ~ In w (map fst ws')).
    { pose proof (I_nd s I) as Hn. rewrite Ews, map_app in Hn. cbn in Hn.
      apply NoDup_remove_2 in Hn. intros H. apply Hn. apply in_or_app. right. exact H. }
    constructor; cbn.
    + intros x. split.
      * intros [=<-]. right. right. exists f. cbn. split; [exact Hpw|apply upd_same].
      * intros [H|[H|(f' & H1 & H2)]]; cbn in *.
        -- exfalso. eapply Hheld'; eauto.
        -- exfalso. eapply Hnofy; eauto.
        -- destruct (Nat.eq_dec f' f) as [->|Hne].
           ++ f_equal. eapply (I_inj s I); eauto.
           ++ rewrite upd_other in H2 by assumption. exfalso. eapply Hnoset; eauto.
    + apply nodup_remove_tid, (I_heldnd s I).
    + intros x Hx. apply in_remove_tid in Hx. apply (I_heldidle s I), Hx.
    + discriminate.
    + intros x f' Hx. assert (Hx' : In (x, f') (waiters s)) by (eapply subseq_in; eauto).
      destruct (I_w s I x f' Hx') as [H1 H2]. split; [exact H1|].
      destruct (Nat.eq_dec f' f) as [->|Hne].
      * exfalso. assert (x = w) by (eapply (I_inj s I); eauto). subst x.
        apply Hwnot. apply in_map_iff. exists (w, f). split; [reflexivity|exact Hx].
      * now rewrite upd_other by assumption.
    + intros x f' H1 H2. destruct (Nat.eq_dec f' f) as [->|Hne];
        [rewrite upd_same in H2; discriminate|].
      rewrite upd_other in H2 by assumption. pose proof (I_pend s I x f' H1 H2) as Hx.
      rewrite Ews in Hx. apply in_app_or in Hx. destruct Hx as [Hx|[Hx|Hx]].
      * apply Hpre in Hx. congruence.
      * congruence.
      * exact Hx.
    + apply (I_fresh s I).
    + apply (I_inj s I).
    + eapply subseq_nodup; [apply subseq_map, Hsuf|apply (I_nd s I)].
    + eapply subseq_trans; [exact Hsuf|apply (I_fifo s I)].
  - destruct HS as (-> & -> & Hall).
    constructor; cbn.
    + intros x. split; [discriminate|].
      intros [H|[H|(f' & H1 & H2)]]; cbn in *; exfalso.
      * eapply Hheld'; eauto.
      * eapply Hnofy; eauto.
      * eapply Hnoset; eauto.
    + apply nodup_remove_tid, (I_heldnd s I).
    + intros x Hx. apply in_remove_tid in Hx. apply (I_heldidle s I), Hx.
    + reflexivity.
    + intros x f' [].
    + intros x f' H1 H2. pose proof (I_pend s I x f' H1 H2) as Hx. apply Hall in Hx. congruence.
    + apply (I_fresh s I).
    + apply (I_inj s I).
    + constructor.
    + apply subseq_nil_l.
Qed.

(* ---------- cancel ---------- *)
Lemma mustc_irrel s m :
  Inv s -> Inv (mk (fast s) (owner s) (waiters s) (futs s) (nfut s) (phase_of s) m (held s) (enq s)).
Proof. intros I. destruct I. constructor; cbn; assumption. Qed.

Lemma cancel_fut_inv s t f :
  Inv s -> phase_of s t = Waiting f -> futs s f = FPending ->
  Inv (mk (fast s) (owner s) (waiters s) (upd (futs s) f FCancelled) (nfut s) (phase_of s) (mustc s)
          (held s) (enq s)).
Proof.
  intros I Hp Hf.
  assert (Hset : forall f', upd (futs s) f FCancelled f' = FSet <-> futs s f' = FSet).
  { intros f'. destruct (Nat.eq_dec f' f) as [->|Hne].
    - rewrite upd_same, Hf. split; discriminate.
    - now rewrite upd_other by assumption. }
  constructor; cbn.
  - intros x. rewrite (I_owner s I x). unfold holdish; cbn. split.
    + intros [H|[H|(f' & H1 & H2)]]; auto. right; right. exists f'. split; [exact H1|now apply Hset].
    + intros [H|[H|(f' & H1 & H2)]]; auto. right; right. exists f'. split; [exact H1|now apply Hset].
  - apply (I_heldnd s I).
  - apply (I_heldidle s I).
  - apply (I_free s I).
  - intros x f' Hx. destruct (I_w s I x f' Hx) as [H1 H2]. split; [exact H1|]. now rewrite Hset.
  - intros x f' H1 H2. destruct (Nat.eq_dec f' f) as [->|Hne];
      [rewrite upd_same in H2; discriminate|].
    rewrite upd_other in H2 by assumption. apply (I_pend s I x f' H1 H2).
  - apply (I_fresh s I).
  - apply (I_inj s I).
  - apply (I_nd s I).
  - apply (I_fifo s I).
Qed.

(* ---------- resume ---------- *)
Definition wake_ready (s : st) (t : tid) : Prop :=
  phase_of s t = FastYield \/ exists f, phase_of s t = Waiting f /\ futs s f = FSet.

Lemma wake_done_inv s t :
  Inv s -> wake_ready s t -> Inv (add_held (set_mustc (set_phase s t Idle) t false) t).
Proof.
  intros I Hr.
  assert (Hho : owner s = Some t).
  { apply (I_owner s I). right. exact Hr. }
  assert (Hnidle : phase_of s t <> Idle).
  { destruct Hr as [H|(f & H & _)]; congruence. }
  assert (Hnh : ~ In t (held s)).
  { intros H. apply Hnidle. apply (I_heldidle s I), H. }
  assert (Hold : forall x, x <> t -> upd (phase_of s) t Idle x = phase_of s x)
    by (intros; now apply upd_other).
  constructor; cbn.
  - intros x. split.
    + intros Hx. assert (x = t) by congruence. subst. left. cbn. now left.
    + intros Hx. destruct (Nat.eq_dec x t) as [->|Hne]; [exact Hho|].
      apply (I_owner s I). destruct Hx as [[H|H]|[H|(f & H1 & H2)]]; cbn in *.
      * congruence.
      * left; exact H.
      * right; left. now rewrite Hold in H.
      * right; right. exists f. now rewrite Hold in H1.
  - constructor; [exact Hnh|apply (I_heldnd s I)].
  - intros x [<-|H]; [apply upd_same|].
    assert (x <> t) by (intros ->; contradiction). rewrite Hold by assumption.
    apply (I_heldidle s I), H.
  - rewrite Hho. discriminate.
  - intros x f Hx. destruct (I_w s I x f Hx) as [H1 H2].
    assert (x <> t).
    { intros ->. destruct Hr as [H|(f0 & H & H')]; [congruence|].
      assert (f0 = f) by congruence. subst. contradiction. }
    rewrite Hold by assumption. auto.
  - intros x f H1 H2. destruct (Nat.eq_dec x t) as [->|Hne];
      [rewrite upd_same in H1; discriminate|].
    rewrite Hold in H1 by assumption. apply (I_pend s I x f H1 H2).
  - intros x f H1. destruct (Nat.eq_dec x t) as [->|Hne];
      [rewrite upd_same in H1; discriminate|].
    rewrite Hold in H1 by assumption. apply (I_fresh s I x f H1).
  - intros x1 x2 f H1 H2.
    destruct (Nat.eq_dec x1 t) as [->|Hne1]; [rewrite upd_same in H1; discriminate|].
    destruct (Nat.eq_dec x2 t) as [->|Hne2]; [rewrite upd_same in H2; discriminate|].
    rewrite Hold in H1, H2 by assumption. eapply (I_inj s I); eauto.
  - apply (I_nd s I).
  - apply (I_fifo s I).
Qed.

Lemma wake_cancelled_release_inv s t :
  Inv s -> wake_ready s t -> Inv (do_release (set_mustc (set_phase s t Idle) t false) t).
Proof.
  intros I Hr. rewrite <- do_release_add_held. apply release_inv.
  - apply wake_done_inv; assumption.
  - cbn. apply (I_owner s I). right. exact Hr.
  - cbn. apply upd_same.
Qed.

Lemma wake_futcancelled_inv s t f :
  Inv s -> phase_of s t = Waiting f -> futs s f = FCancelled ->
  Inv (mk (fast s) (owner s) (remove_item t f (waiters s)) (futs s) (nfut s)
          (upd (phase_of s) t Idle) (upd (mustc s) t false) (held s) (enq s)).
Proof.
  intros I Hp Hf.
  assert (Hold : forall x, x <> t -> upd (phase_of s) t Idle x = phase_of s x)
    by (intros; now apply upd_other).
  assert (Hnh : ~ In t (held s)).
  { intros H. apply (I_heldidle s I) in H. congruence. }
  assert (Hnot : ~ holdish s t).
  { intros [H|[H|(f' & H1 & H2)]]; [contradiction|congruence|].
    assert (f' = f) by congruence. subst. congruence. }
  assert (Hgone : ~ In t (map fst (remove_item t f (waiters s)))).
  { apply remove_item_gone; [apply (I_nd s I)|]. intros f' H. destruct (I_w s I t f' H). congruence. }
  constructor; cbn.
  - intros x. rewrite (I_owner s I x). destruct (Nat.eq_dec x t) as [->|Hne].
    + split; [intros H; contradiction|].
      intros [H|[H|(f' & H1 & H2)]]; cbn in *; [contradiction| |];
        rewrite upd_same in *; discriminate.
    + unfold holdish; cbn. rewrite Hold by assumption. tauto.
  - apply (I_heldnd s I).
  - intros x H. assert (x <> t) by (intros ->; contradiction). rewrite Hold by assumption.
    apply (I_heldidle s I), H.
  - intros H. rewrite (I_free s I H). reflexivity.
  - intros x f' Hx.
    assert (x <> t).
    { intros ->. apply Hgone. apply in_map_iff. exists (t, f'). split; [reflexivity|exact Hx]. }
    rewrite Hold by assumption. apply (I_w s I). eapply subseq_in; [apply remove_item_subseq|exact Hx].
  - intros x f' H1 H2. destruct (Nat.eq_dec x t) as [->|Hne];
      [rewrite upd_same in H1; discriminate|].
    rewrite Hold in H1 by assumption. apply in_remove_item_other; [apply (I_pend s I x f' H1 H2)|].
    congruence.
  - intros x f' H1. destruct (Nat.eq_dec x t) as [->|Hne];
      [rewrite upd_same in H1; discriminate|].
    rewrite Hold in H1 by assumption. apply (I_fresh s I x f' H1).
  - intros x1 x2 f' H1 H2.
    destruct (Nat.eq_dec x1 t) as [->|Hne1]; [rewrite upd_same in H1; discriminate|].
    destruct (Nat.eq_dec x2 t) as [->|Hne2]; [rewrite upd_same in H2; discriminate|].
    rewrite Hold in H1, H2 by assumption. eapply (I_inj s I); eauto.
  - eapply subseq_nodup; [apply subseq_map, remove_item_subseq|apply (I_nd s I)].
  - eapply subseq_trans; [apply remove_item_subseq|apply (I_fifo s I)].
Qed.

(* ---------- one step, every reachable state ---------- *)
Lemma step_inv s o : Inv s -> Inv (fst (step s o)).
Proof.
  intros I. destruct o as [t|t|t|t|t]; cbn [step].
  - (* AcqBegin *)
    destruct (is_idle (phase_of s t)) eqn:Ei; cbn [negb fst]; [|exact I].
    apply is_idle_true in Ei.
    pose proof (enqueue_inv s t I Ei) as Henq.
    destruct (owner s) as [ow|] eqn:Eo.
    + assert (Hne : tid_eqb_opt (Some ow) t = false -> Some ow <> Some t).
      { intros H1 H2. apply tid_eqb_opt_true in H2. congruence. }
      destruct (waiters s) eqn:Ew; destruct (tid_eqb_opt (Some ow) t) eqn:Et; cbn [fst];
        try exact I; apply Henq; auto; discriminate.
    + destruct (waiters s) eqn:Ew.
      * destruct (fast s); cbn [fst].
        -- apply take_held_inv; auto.
        -- apply take_yield_inv; auto.
      * exfalso. pose proof (I_free s I Eo). congruence.
  - (* AcqNowait *)
    destruct (is_idle (phase_of s t)) eqn:Ei; cbn [negb fst]; [|exact I].
    apply is_idle_true in Ei.
    destruct (owner s) as [ow|] eqn:Eo.
    + destruct (waiters s); destruct (tid_eqb_opt (Some ow) t); exact I.
    + destruct (waiters s) eqn:Ew.
      * cbn [fst]. apply take_held_inv; auto.
      * exfalso. pose proof (I_free s I Eo). congruence.
  - (* Release *)
    destruct (is_idle (phase_of s t)) eqn:Ei; cbn [negb fst]; [|exact I].
    apply is_idle_true in Ei.
    destruct (tid_eqb_opt (owner s) t) eqn:Et; cbn [fst]; [|exact I].
    apply tid_eqb_opt_true in Et. apply release_inv; auto.
  - (* Resume *)
    destruct (phase_of s t) as [| |f] eqn:Ep; [exact I| |].
    + assert (Hr : wake_ready s t) by (left; exact Ep).
      destruct (mustc s t).
      * assert (Ho : owner s = Some t) by (apply (I_owner s I); right; exact Hr).
        cbn [set_mustc set_phase owner]. rewrite Ho. cbn [tid_eqb_opt]. rewrite Nat.eqb_refl. cbn [fst].
        apply wake_cancelled_release_inv; auto.
      * cbn [fst]. apply wake_done_inv; auto.
    + destruct (futs s f) eqn:Ef; [exact I| |].
      * assert (Hr : wake_ready s t) by (right; eauto).
        destruct (mustc s t).
        -- assert (Ho : owner s = Some t) by (apply (I_owner s I); right; exact Hr).
           cbn [set_mustc set_phase owner]. rewrite Ho. cbn [tid_eqb_opt]. rewrite Nat.eqb_refl. cbn [fst].
           apply wake_cancelled_release_inv; auto.
        -- cbn [fst]. apply wake_done_inv; auto.
      * cbn. apply wake_futcancelled_inv; auto.
  - (* Cancel *)
    destruct (phase_of s t) as [| |f] eqn:Ep; [exact I| |].
    + cbn [fst]. unfold set_mustc. apply mustc_irrel, I.
    + destruct (futs s f) eqn:Ef; cbn [fst].
      * apply (cancel_fut_inv s t f); auto.
      * unfold set_mustc. apply mustc_irrel, I.
      * unfold set_mustc. apply mustc_irrel, I.
Qed.

Theorem reachable_inv fa ops : Inv (final step (init fa) ops).
Proof. apply final_inv; [apply step_inv|apply inv_init]. Qed.
