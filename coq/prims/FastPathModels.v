(* C08: in every primitive model the uncontended / ready path of a blocking call suspends at least once before it
   returns (the call's first segment ends in RBlocked), and takes its effect in the order the shape table says. *)
From AV Require Import Base.
From AV Require Lock Sem Limiter EventCond MemStream C10Defs.

Lemma lock_uncontended_acquire_yields s t :
  Lock.phase_of s t = Lock.Idle -> Lock.owner s = None -> Lock.waiters s = [] -> Lock.fast s = false ->
  snd (Lock.step s (Lock.AcqBegin t)) = Lock.RBlocked /\
  Lock.owner (fst (Lock.step s (Lock.AcqBegin t))) = Some t /\
  Lock.phase_of (fst (Lock.step s (Lock.AcqBegin t))) t = Lock.FastYield.
Proof.
  intros Hp Ho Hw Hf. cbn [Lock.step]. rewrite Hp, Ho, Hw, Hf. cbn. rewrite upd_same. auto.
Qed.

Lemma lock_fast_acquire_is_exempt s t :
  Lock.phase_of s t = Lock.Idle -> Lock.owner s = None -> Lock.waiters s = [] -> Lock.fast s = true ->
  snd (Lock.step s (Lock.AcqBegin t)) = Lock.RDone.
Proof. intros Hp Ho Hw Hf. cbn [Lock.step]. rewrite Hp, Ho, Hw, Hf. reflexivity. Qed.

Lemma sem_uncontended_acquire_yields s t v :
  Sem.phase_of s t = Sem.Idle -> Sem.value s = S v -> Sem.waiters s = [] -> Sem.fast s = false ->
  snd (Sem.step s (Sem.AcqBegin t)) = Sem.RBlocked /\ Sem.value (fst (Sem.step s (Sem.AcqBegin t))) = v.
Proof.
  intros Hp Hv Hw Hf. cbn [Sem.step]. rewrite Hp. cbn [Sem.is_idle negb]. unfold Sem.acq_body.
  rewrite Hv, Hw, Hf. cbn. auto.
Qed.

Lemma limiter_free_acquire_yields s t b :
  Limiter.phase_of s t = Limiter.Idle -> C10Defs.mem b (Limiter.borrowers s) = false -> Limiter.busy s = false ->
  snd (Limiter.step s (Limiter.AcqOn t b)) = Limiter.RBlocked /\
  Limiter.borrowers (fst (Limiter.step s (Limiter.AcqOn t b))) = b :: Limiter.borrowers s.
Proof.
  intros Hp Hm Hb. unfold Limiter.step, Limiter.step_gen. rewrite Hp. cbn [negb Limiter.is_idle]. rewrite Hm, Hb. cbn. auto.
Qed.

Lemma event_wait_on_set_event_yields s t :
  EventCond.e_is_idle (EventCond.ephase_of s t) = true -> EventCond.eflag s = true ->
  snd (EventCond.estep s (EventCond.EvWait t)) = Lock.RBlocked.
Proof. intros Hp Hf. cbn [EventCond.estep]. rewrite Hp, Hf. reflexivity. Qed.

Lemma memstream_send_checkpoints_first s t h x :
  snd (MemStream.step s (MemStream.Send t h x)) = MemStream.RBlocked \/
  snd (MemStream.step s (MemStream.Send t h x)) = MemStream.RRejected.
Proof.
  cbn [MemStream.step].
  destruct (negb (MemStream.is_idle (MemStream.phase_of s t)) || negb (MemStream.valid_h s h MemStream.SSend)
            || Nat.ltb x (MemStream.nitem s)); auto.
Qed.

Lemma memstream_receive_checkpoints_first s t h :
  snd (MemStream.step s (MemStream.Recv t h)) = MemStream.RBlocked \/
  snd (MemStream.step s (MemStream.Recv t h)) = MemStream.RRejected.
Proof.
  cbn [MemStream.step].
  destruct (negb (MemStream.is_idle (MemStream.phase_of s t)) || negb (MemStream.valid_h s h MemStream.SRecv)); auto.
Qed.
