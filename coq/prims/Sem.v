(* P/Sem: executable model of anyio._backends._asyncio.Semaphore (lines 1962-2047 of /repo HEAD).
   Actions are the atomic segments of acquire / acquire_nowait / release plus the kernel actions
   Resume (the blocked task's scheduled wake-up runs) and Cancel (asyncio Task.cancel() on a blocked task).
   Definitions only: proofs live in SemProofs.v / SemThms.v.

   Transcription notes
   * `_waiters` is a deque of futures.  The model stores (task, future): the task component is a ghost
     annotation (never read by `step` to take a decision) that names the task suspended on the future.
   * acquire() (HEAD, after the F53 fix c2fb7fb): FIRST `await checkpoint_if_cancelled()`, THEN the test
     `value > 0 and not waiters` and the decrement in ONE atomic segment.
       - caller's scope chain shows no cancellation: the check neither suspends nor raises (op AcqBegin);
       - a cancelled scope is visible (op AcqBeginC): the check yields (sleep(0)) BEFORE anything of the semaphore is
         read or written - phase CkYield, also on the contended path.  The task then either receives the delivered
         cancellation (Cancel; Resume -> CancelledError out of acquire(), nothing touched), or spins (Resume without a
         pending cancellation: the check yields again), or - since fix F46 - the check re-reads the scope chain,
         finds the cancelled scope cut off (a scope in between was shielded by another task, ...) and RETURNS
         NORMALLY after having yielded (op CkPass): only then test and decrement run, atomically.
       `step_f53_pinned` keeps the old order (test; check; decrement): a task that took the permit during the
       check's yield is overwritten (value -1, two holders of one permit), see sem_check_order_refuted_pinned.
     then: value -= 1 ; fast_acquire -> return, else suspend in
     cancel_shielded_checkpoint (phase FastYield); a CancelledError delivered there (only a native
     Task.cancel() can do that) runs `self.release(); raise`.
     Otherwise enqueue a fresh future and suspend on it (phase Waiting f).  Resumption: normal return; or
     CancelledError with fut.cancelled() -> remove fut from the deque (tolerating its absence); or
     CancelledError with the future already resolved (hand-off / cancel race) -> `self.release(); raise`.
   * release(): `max_value is not None and value == max_value` -> ValueError; pop futures skipping cancelled
     ones; first live one gets the permit (set_result), else value += 1.
     When the *internal* release() of the two cancellation paths hits the max_value test, the ValueError
     replaces the CancelledError and the permit that had been reserved for the task disappears (ghost
     counter `dropped`); this needs value = max_value while a permit is in flight, i.e. extra releases.
   * Ghost state (never influences behaviour): init0 (initial value), held (one entry per permit handed to a
     task by a returned acquire and not yet given back by that task's release), infl (tasks for which a permit
     is reserved while their acquire() has not returned: FastYield or handed-off), extra (accepted release()
     calls by a task that held nothing), dropped, enq (arrival log of the wait queue). *)
From AV Require Import Base C10Defs.

Inductive fstate := FPending | FSet | FCancelled.

Inductive phase :=
| Idle                  (* at a decision point of its program *)
| FastYield             (* took a permit on the uncontended path, suspended in cancel_shielded_checkpoint *)
| Waiting (f : fid)     (* enqueued fut and suspended on it *)
| CkYield.              (* suspended in the sleep(0) of checkpoint_if_cancelled() at the start of acquire() *)

Inductive op :=
| AcqBegin (t : tid)    (* t calls `await sem.acquire()` and runs up to its first suspension / return *)
| AcqNowait (t : tid)
| Release (t : tid)
| Resume (t : tid)      (* the ready wake-up / step of blocked task t runs *)
| Cancel (t : tid)      (* Task.cancel() on blocked task t *)
| AcqBeginC (t : tid)   (* `await sem.acquire()` called while a cancelled scope is visible to t *)
| CkPass (t : tid).     (* t's step runs and the check finds the cancelled scope cut off: it returns normally *)

Inductive res :=
| RDone       (* the call returned normally *)
| RBlocked    (* the task suspended inside the call *)
| RCancelled  (* CancelledError propagated out of the call *)
| RWouldBlock
| RNone       (* environment op: nothing to report *)
| RValue      (* ValueError *)
| RRejected.  (* op not possible in this state (harness must never produce it) *)

Record st := mk {
  fast : bool;
  maxv : option nat;
  value : nat;
  waiters : list (tid * fid);
  futs : fid -> fstate;
  nfut : fid;
  phase_of : tid -> phase;
  mustc : tid -> bool;          (* Task._must_cancel *)
  init0 : nat;                  (* ghost *)
  held : list tid;              (* ghost, multiset *)
  infl : list tid;              (* ghost *)
  extra : nat;                  (* ghost *)
  dropped : nat;                (* ghost *)
  enq : list (tid * fid)        (* ghost *)
}.

Definition init (fa : bool) (iv : nat) (mx : option nat) : st :=
  mk fa mx iv [] (fun _ => FPending) 0 (fun _ => Idle) (fun _ => false) iv [] [] 0 0 [].

Definition is_idle (p : phase) := match p with Idle => true | _ => false end.

(* deque.remove(fut): first occurrence, absence tolerated *)
Fixpoint remove_fut (f : fid) (ws : list (tid * fid)) : list (tid * fid) :=
  match ws with
  | [] => []
  | (t', f') :: r => if Nat.eqb f' f then r else (t', f') :: remove_fut f r
  end.

(* the pop loop of release() (lines 2028-2034): task woken, remaining queue, futures *)
Fixpoint handoff (ws : list (tid * fid)) (fu : fid -> fstate)
  : option tid * list (tid * fid) * (fid -> fstate) :=
  match ws with
  | [] => (None, [], fu)
  | (t, f) :: r =>
      match fu f with
      | FCancelled => handoff r fu
      | _ => (Some t, r, upd fu f FSet)
      end
  end.

Definition at_max (s : st) : bool :=
  match maxv s with Some m => Nat.eqb (value s) m | None => false end.

(* body of release() after the max_value test *)
Definition rel_core (s : st) : st :=
  let '(o, ws, fu) := handoff (waiters s) (futs s) in
  match o with
  | Some w => mk (fast s) (maxv s) (value s) ws fu (nfut s) (phase_of s) (mustc s)
                 (init0 s) (held s) (w :: infl s) (extra s) (dropped s) (enq s)
  | None => mk (fast s) (maxv s) (S (value s)) ws fu (nfut s) (phase_of s) (mustc s)
               (init0 s) (held s) (infl s) (extra s) (dropped s) (enq s)
  end.

Definition set_held (s : st) (h : list tid) : st :=
  mk (fast s) (maxv s) (value s) (waiters s) (futs s) (nfut s) (phase_of s) (mustc s)
     (init0 s) h (infl s) (extra s) (dropped s) (enq s).

Definition set_extra (s : st) (n : nat) : st :=
  mk (fast s) (maxv s) (value s) (waiters s) (futs s) (nfut s) (phase_of s) (mustc s)
     (init0 s) (held s) (infl s) n (dropped s) (enq s).

Definition set_dropped (s : st) (n : nat) : st :=
  mk (fast s) (maxv s) (value s) (waiters s) (futs s) (nfut s) (phase_of s) (mustc s)
     (init0 s) (held s) (infl s) (extra s) n (enq s).

Definition set_mustc (s : st) (t : tid) (b : bool) : st :=
  mk (fast s) (maxv s) (value s) (waiters s) (futs s) (nfut s) (phase_of s) (upd (mustc s) t b)
     (init0 s) (held s) (infl s) (extra s) (dropped s) (enq s).

(* the blocked task t leaves its acquire() call: phase Idle, _must_cancel consumed, reservation (if any) ended *)
Definition leave (s : st) (t : tid) : st :=
  mk (fast s) (maxv s) (value s) (waiters s) (futs s) (nfut s) (upd (phase_of s) t Idle)
     (upd (mustc s) t false) (init0 s) (held s) (remove_one t (infl s)) (extra s) (dropped s) (enq s).

Definition add_held (s : st) (t : tid) : st := set_held s (t :: held s).

(* `self.release(); raise` of the two cancellation paths, executed in state s (task already left) *)
Definition cancel_release (s : st) : st * res :=
  if at_max s then (set_dropped s (S (dropped s)), RValue) else (rel_core s, RCancelled).

Definition set_phase (s : st) (t : tid) (p : phase) : st :=
  mk (fast s) (maxv s) (value s) (waiters s) (futs s) (nfut s) (upd (phase_of s) t p) (mustc s)
     (init0 s) (held s) (infl s) (extra s) (dropped s) (enq s).

(* acquire() after the cancellation check: test and decrement / enqueue, up to the first suspension / return *)
Definition acq_body (s : st) (t : tid) : st * res :=
      match value s, waiters s with
      | S v, [] =>
          if fast s then
            (mk (fast s) (maxv s) v [] (futs s) (nfut s) (phase_of s) (mustc s)
                (init0 s) (t :: held s) (infl s) (extra s) (dropped s) (enq s), RDone)
          else
            (mk (fast s) (maxv s) v [] (futs s) (nfut s) (upd (phase_of s) t FastYield) (mustc s)
                (init0 s) (held s) (t :: infl s) (extra s) (dropped s) (enq s), RBlocked)
      | _, _ =>
          let f := nfut s in
          (mk (fast s) (maxv s) (value s) (waiters s ++ [(t, f)]) (upd (futs s) f FPending) (S f)
              (upd (phase_of s) t (Waiting f)) (mustc s)
              (init0 s) (held s) (infl s) (extra s) (dropped s) (enq s ++ [(t, f)]), RBlocked)
      end.

Definition step (s : st) (o : op) : st * res :=
  match o with
  | AcqBegin t =>
      if negb (is_idle (phase_of s t)) then (s, RRejected) else acq_body s t
  | AcqBeginC t =>
      (* the check comes first: it yields with nothing of the semaphore read or written *)
      if negb (is_idle (phase_of s t)) then (s, RRejected) else (set_phase s t CkYield, RBlocked)
  | CkPass t =>
      match phase_of s t with
      | CkYield => if mustc s t then (leave s t, RCancelled) else acq_body (leave s t) t
      | _ => (s, RRejected)
      end
  | AcqNowait t =>
      if negb (is_idle (phase_of s t)) then (s, RRejected) else
      match value s with
      | 0 => (s, RWouldBlock)
      | S v =>
          (mk (fast s) (maxv s) v (waiters s) (futs s) (nfut s) (phase_of s) (mustc s)
              (init0 s) (t :: held s) (infl s) (extra s) (dropped s) (enq s), RDone)
      end
  | Release t =>
      if negb (is_idle (phase_of s t)) then (s, RRejected) else
      if at_max s then (s, RValue) else
      let s1 := rel_core s in
      if mem t (held s) then (set_held s1 (remove_one t (held s)), RDone)
      else (set_extra s1 (S (extra s)), RDone)
  | Cancel t =>
      match phase_of s t with
      | Idle => (s, RRejected)
      | FastYield => (set_mustc s t true, RNone)       (* sleep(0): no waiter future *)
      | CkYield => (set_mustc s t true, RNone)         (* sleep(0): no waiter future *)
      | Waiting f =>
          match futs s f with
          | FPending =>
              (mk (fast s) (maxv s) (value s) (waiters s) (upd (futs s) f FCancelled) (nfut s)
                  (phase_of s) (mustc s) (init0 s) (held s) (infl s) (extra s) (dropped s) (enq s), RNone)
          | _ => (set_mustc s t true, RNone)
          end
      end
  | Resume t =>
      match phase_of s t with
      | Idle => (s, RRejected)
      | FastYield =>
          if mustc s t then cancel_release (leave s t)     (* lines 1997-1999 *)
          else (add_held (leave s t) t, RDone)
      | Waiting f =>
          match futs s f with
          | FPending => (s, RRejected)        (* not runnable *)
          | FCancelled =>
              let s1 := leave s t in
              (mk (fast s1) (maxv s1) (value s1) (remove_fut f (waiters s1)) (futs s1) (nfut s1)
                  (phase_of s1) (mustc s1) (init0 s1) (held s1) (infl s1) (extra s1) (dropped s1) (enq s1),
               RCancelled)
          | FSet =>
              if mustc s t then cancel_release (leave s t)   (* lines 2013-2016 *)
              else (add_held (leave s t) t, RDone)
          end
      | CkYield =>
          (* the delivered cancellation is raised at the sleep(0); without one the check yields again (spin) *)
          if mustc s t then (leave s t, RCancelled) else (s, RBlocked)
      end
  end.

(* ---- the order before the F53 fix: test; check; decrement.  Differs from `step` only for a caller that sees a
   cancelled scope: on the uncontended path the check (and its yield) sits between the test and the decrement,
   the contended path has no check at all (the task enqueues like a live one) ---- *)
Definition take_unchecked (s : st) (t : tid) : st * res :=
  (* `self._value -= 1` without looking again: Python's int goes to -1 when the permit is gone; the model's
     natural number stays at 0 and the two holders of one permit show in `held` *)
  let v := pred (value s) in
  if fast s then
    (mk (fast s) (maxv s) v (waiters s) (futs s) (nfut s) (phase_of s) (mustc s)
        (init0 s) (t :: held s) (infl s) (extra s) (dropped s) (enq s), RDone)
  else
    (mk (fast s) (maxv s) v (waiters s) (futs s) (nfut s) (upd (phase_of s) t FastYield) (mustc s)
        (init0 s) (held s) (t :: infl s) (extra s) (dropped s) (enq s), RBlocked).

Definition step_f53_pinned (s : st) (o : op) : st * res :=
  match o with
  | AcqBeginC t =>
      if negb (is_idle (phase_of s t)) then (s, RRejected) else
      match value s, waiters s with
      | S _, [] => (set_phase s t CkYield, RBlocked)      (* the test passed; now the check yields *)
      | _, _ => acq_body s t
      end
  | CkPass t =>
      match phase_of s t with
      | CkYield => if mustc s t then (leave s t, RCancelled) else take_unchecked (leave s t) t
      | _ => (s, RRejected)
      end
  | _ => step s o
  end.

(* ---- observable output of a step (what the harness compares) ---- *)
Definition res_code (r : res) : Z :=
  match r with
  | RDone => 0 | RBlocked => 1 | RCancelled => 2 | RWouldBlock => 4 | RNone => 5 | RValue => 6
  | RRejected => 9
  end%Z.

(* [result; sem.value; max_value (0 = None, m+1); statistics().tasks_waiting] *)
Definition observe (s : st) (r : res) : list Z :=
  [res_code r; nz (value s); oz (maxv s); nz (length (waiters s))].

(* ---- codec: flat integer encoding of a case (shared with the Python harness) ---- *)
Definition decode_op (c t : Z) : op :=
  match c with
  | 0 => AcqBegin (zn t) | 1 => AcqNowait (zn t) | 2 => Release (zn t)
  | 3 => Resume (zn t) | 4 => Cancel (zn t) | 5 => AcqBeginC (zn t) | _ => CkPass (zn t)
  end%Z.

Fixpoint decode_ops (l : list Z) : list op :=
  match l with
  | c :: t :: r => decode_op c t :: decode_ops r
  | _ => []
  end.

Fixpoint run_obs (s : st) (ops : list op) : list Z :=
  match ops with
  | [] => []
  | o :: r => let '(s1, out) := step s o in observe s1 out ++ run_obs s1 r
  end.

Definition decode_max (m : Z) : option nat :=
  if Z.eqb m 0 then None else Some (zn (m - 1)).

(* case = fast_acquire :: initial_value :: max_code :: flat ops *)
Definition run_case (c : list Z) : list Z :=
  match c with
  | fa :: iv :: mx :: r => run_obs (init (zb fa) (zn iv) (decode_max mx)) (decode_ops r)
  | _ => []
  end.
