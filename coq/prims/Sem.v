(* P/Sem: executable model of anyio._backends._asyncio.Semaphore (lines 1962-2047 of /repo HEAD).
   Actions are the atomic segments of acquire / acquire_nowait / release plus the kernel actions
   Resume (the blocked task's scheduled wake-up runs) and Cancel (asyncio Task.cancel() on a blocked task).
   Definitions only: proofs live in SemProofs.v / SemThms.v.

   Transcription notes
   * `_waiters` is a deque of futures.  The model stores (task, future): the task component is a ghost
     annotation (never read by `step` to take a decision) that names the task suspended on the future.
   * acquire(): `value > 0 and not waiters` -> checkpoint_if_cancelled (no suspension here: the caller is not
     inside a cancelled AnyIO scope; C08 covers that) ; value -= 1 ; fast_acquire -> return, else suspend in
     cancel_shielded_checkpoint (phase FastYield); a CancelledError delivered there (only a native
     Task.cancel() can do that) runs `self.release(); raise`.
     Otherwise enqueue a fresh future and suspend on it (phase Waiting f).  Resumption: normal return; or
     CancelledError with fut.cancelled() -> remove fut from the deque (tolerating its absence); or
     CancelledError with the future already resolved (hand-off / cancel race) -> `self.release(); raise`.
   * release(): `max_value is not None and value == max_value` -> ValueError; pop futures skipping cancelled
     ones; first live one gets the permit (set_result), else value += 1.
     When the *internal* release() of the two cancellation paths hits the max_value test, the ValueError
     replaces the CancelledError and the permit that had been reserved for the task disappears (ghost
     counter `dropped`); this needs value = max_value while a permit is in flight, i.e. extra releases.
   * Ghost state (never influences behaviour): init0 (initial value), held (one entry per permit handed to a
     task by a returned acquire and not yet given back by that task's release), infl (tasks for which a permit
     is reserved while their acquire() has not returned: FastYield or handed-off), extra (accepted release()
     calls by a task that held nothing), dropped, enq (arrival log of the wait queue). *)
From AV Require Import Base C10Defs.

Inductive fstate := FPending | FSet | FCancelled.

Inductive phase :=
| Idle                  (* at a decision point of its program *)
| FastYield             (* took a permit on the uncontended path, suspended in cancel_shielded_checkpoint *)
| Waiting (f : fid).    (* enqueued fut and suspended on it *)

Inductive op :=
| AcqBegin (t : tid)    (* t calls `await sem.acquire()` and runs up to its first suspension / return *)
| AcqNowait (t : tid)
| Release (t : tid)
| Resume (t : tid)      (* the ready wake-up / step of blocked task t runs *)
| Cancel (t : tid).     (* Task.cancel() on blocked task t *)

Inductive res :=
| RDone       (* the call returned normally *)
| RBlocked    (* the task suspended inside the call *)
| RCancelled  (* CancelledError propagated out of the call *)
| RWouldBlock
| RNone       (* environment op: nothing to report *)
| RValue      (* ValueError *)
| RRejected.  (* op not possible in this state (harness must never produce it) *)

Record st := mk {
  fast : bool;
  maxv : option nat;
  value : nat;
  waiters : list (tid * fid);
  futs : fid -> fstate;
  nfut : fid;
  phase_of : tid -> phase;
  mustc : tid -> bool;          (* Task._must_cancel *)
  init0 : nat;                  (* ghost *)
  held : list tid;              (* ghost, multiset *)
  infl : list tid;              (* ghost *)
  extra : nat;                  (* ghost *)
  dropped : nat;                (* ghost *)
  enq : list (tid * fid)        (* ghost *)
}.

Definition init (fa : bool) (iv : nat) (mx : option nat) : st :=
  mk fa mx iv [] (fun _ => FPending) 0 (fun _ => Idle) (fun _ => false) iv [] [] 0 0 [].

Definition is_idle (p : phase) := match p with Idle => true | _ => false end.

(* deque.remove(fut): first occurrence, absence tolerated *)
Fixpoint remove_fut (f : fid) (ws : list (tid * fid)) : list (tid * fid) :=
  match ws with
  | [] => []
  | (t', f') :: r => if Nat.eqb f' f then r else (t', f') :: remove_fut f r
  end.

(* the pop loop of release() (lines 2028-2034): task woken, remaining queue, futures *)
Fixpoint handoff (ws : list (tid * fid)) (fu : fid -> fstate)
  : option tid * list (tid * fid) * (fid -> fstate) :=
  match ws with
  | [] => (None, [], fu)
  | (t, f) :: r =>
      match fu f with
      | FCancelled => handoff r fu
      | _ => (Some t, r, upd fu f FSet)
      end
  end.

Definition at_max (s : st) : bool :=
  match maxv s with Some m => Nat.eqb (value s) m | None => false end.

(* body of release() after the max_value test *)
Definition rel_core (s : st) : st :=
  let '(o, ws, fu) := handoff (waiters s) (futs s) in
  match o with
  | Some w => mk (fast s) (maxv s) (value s) ws fu (nfut s) (phase_of s) (mustc s)
                 (init0 s) (held s) (w :: infl s) (extra s) (dropped s) (enq s)
  | None => mk (fast s) (maxv s) (S (value s)) ws fu (nfut s) (phase_of s) (mustc s)
               (init0 s) (held s) (infl s) (extra s) (dropped s) (enq s)
  end.

Definition set_held (s : st) (h : list tid) : st :=
  mk (fast s) (maxv s) (value s) (waiters s) (futs s) (nfut s) (phase_of s) (mustc s)
     (init0 s) h (infl s) (extra s) (dropped s) (enq s).

Definition set_extra (s : st) (n : nat) : st :=
  mk (fast s) (maxv s) (value s) (waiters s) (futs s) (nfut s) (phase_of s) (mustc s)
     (init0 s) (held s) (infl s) n (dropped s) (enq s).

Definition set_dropped (s : st) (n : nat) : st :=
  mk (fast s) (maxv s) (value s) (waiters s) (futs s) (nfut s) (phase_of s) (mustc s)
     (init0 s) (held s) (infl s) (extra s) n (enq s).

Definition set_mustc (s : st) (t : tid) (b : bool) : st :=
  mk (fast s) (maxv s) (value s) (waiters s) (futs s) (nfut s) (phase_of s) (upd (mustc s) t b)
     (init0 s) (held s) (infl s) (extra s) (dropped s) (enq s).

(* the blocked task t leaves its acquire() call: phase Idle, _must_cancel consumed, reservation (if any) ended *)
Definition leave (s : st) (t : tid) : st :=
  mk (fast s) (maxv s) (value s) (waiters s) (futs s) (nfut s) (upd (phase_of s) t Idle)
     (upd (mustc s) t false) (init0 s) (held s) (remove_one t (infl s)) (extra s) (dropped s) (enq s).

Definition add_held (s : st) (t : tid) : st := set_held s (t :: held s).

(* `self.release(); raise` of the two cancellation paths, executed in state s (task already left) *)
Definition cancel_release (s : st) : st * res :=
  if at_max s then (set_dropped s (S (dropped s)), RValue) else (rel_core s, RCancelled).

Definition step (s : st) (o : op) : st * res :=
  match o with
  | AcqBegin t =>
      if negb (is_idle (phase_of s t)) then (s, RRejected) else
      match value s, waiters s with
      | S v, [] =>
          if fast s then
            (mk (fast s) (maxv s) v [] (futs s) (nfut s) (phase_of s) (mustc s)
                (init0 s) (t :: held s) (infl s) (extra s) (dropped s) (enq s), RDone)
          else
            (mk (fast s) (maxv s) v [] (futs s) (nfut s) (upd (phase_of s) t FastYield) (mustc s)
                (init0 s) (held s) (t :: infl s) (extra s) (dropped s) (enq s), RBlocked)
      | _, _ =>
          let f := nfut s in
          (mk (fast s) (maxv s) (value s) (waiters s ++ [(t, f)]) (upd (futs s) f FPending) (S f)
              (upd (phase_of s) t (Waiting f)) (mustc s)
              (init0 s) (held s) (infl s) (extra s) (dropped s) (enq s ++ [(t, f)]), RBlocked)
      end
  | AcqNowait t =>
      if negb (is_idle (phase_of s t)) then (s, RRejected) else
      match value s with
      | 0 => (s, RWouldBlock)
      | S v =>
          (mk (fast s) (maxv s) v (waiters s) (futs s) (nfut s) (phase_of s) (mustc s)
              (init0 s) (t :: held s) (infl s) (extra s) (dropped s) (enq s), RDone)
      end
  | Release t =>
      if negb (is_idle (phase_of s t)) then (s, RRejected) else
      if at_max s then (s, RValue) else
      let s1 := rel_core s in
      if mem t (held s) then (set_held s1 (remove_one t (held s)), RDone)
      else (set_extra s1 (S (extra s)), RDone)
  | Cancel t =>
      match phase_of s t with
      | Idle => (s, RRejected)
      | FastYield => (set_mustc s t true, RNone)       (* sleep(0): no waiter future *)
      | Waiting f =>
          match futs s f with
          | FPending =>
              (mk (fast s) (maxv s) (value s) (waiters s) (upd (futs s) f FCancelled) (nfut s)
                  (phase_of s) (mustc s) (init0 s) (held s) (infl s) (extra s) (dropped s) (enq s), RNone)
          | _ => (set_mustc s t true, RNone)
          end
      end
  | Resume t =>
      match phase_of s t with
      | Idle => (s, RRejected)
      | FastYield =>
          if mustc s t then cancel_release (leave s t)     (* lines 1997-1999 *)
          else (add_held (leave s t) t, RDone)
      | Waiting f =>
          match futs s f with
          | FPending => (s, RRejected)        (* not runnable *)
          | FCancelled =>
              let s1 := leave s t in
              (mk (fast s1) (maxv s1) (value s1) (remove_fut f (waiters s1)) (futs s1) (nfut s1)
                  (phase_of s1) (mustc s1) (init0 s1) (held s1) (infl s1) (extra s1) (dropped s1) (enq s1),
               RCancelled)
          | FSet =>
              if mustc s t then cancel_release (leave s t)   (* lines 2013-2016 *)
              else (add_held (leave s t) t, RDone)
          end
      end
  end.

(* ---- observable output of a step (what the harness compares) ---- *)
Definition res_code (r : res) : Z :=
  match r with
  | RDone => 0 | RBlocked => 1 | RCancelled => 2 | RWouldBlock => 4 | RNone => 5 | RValue => 6
  | RRejected => 9
  end%Z.

(* [result; sem.value; max_value (0 = None, m+1); statistics().tasks_waiting] *)
Definition observe (s : st) (r : res) : list Z :=
  [res_code r; nz (value s); oz (maxv s); nz (length (waiters s))].

(* ---- codec: flat integer encoding of a case (shared with the Python harness) ---- *)
Definition decode_op (c t : Z) : op :=
  match c with
  | 0 => AcqBegin (zn t) | 1 => AcqNowait (zn t) | 2 => Release (zn t)
  | 3 => Resume (zn t) | _ => Cancel (zn t)
  end%Z.

Fixpoint decode_ops (l : list Z) : list op :=
  match l with
  | c :: t :: r => decode_op c t :: decode_ops r
  | _ => []
  end.

Fixpoint run_obs (s : st) (ops : list op) : list Z :=
  match ops with
  | [] => []
  | o :: r => let '(s1, out) := step s o in observe s1 out ++ run_obs s1 r
  end.

Definition decode_max (m : Z) : option nat :=
  if Z.eqb m 0 then None else Some (zn (m - 1)).

(* case = fast_acquire :: initial_value :: max_code :: flat ops *)
Definition run_case (c : list Z) : list Z :=
  match c with
  | fa :: iv :: mx :: r => run_obs (init (zb fa) (zn iv) (decode_max mx)) (decode_ops r)
  | _ => []
  end.
