(* P/MemImp: the imperative language of LockImp / PrimImp / CondImp for anyio.streams.memory
   (MemoryObjectSendStream, MemoryObjectReceiveStream, _MemoryObjectStreamState), with its interpreter.
   tools/translate_mem.py regenerates MemGen.v (terms of this language) from the Python source on every run of
   bin/check C12 / C13; MemGenEq.v proves that interpreting them is what MemStream.step does to the fields the code
   reads and writes.  Definitions only.

   Same design: short-circuit conditions, SSeq / SIf / STry / SCall / SRaise / SReturn, awaits cut into segments
   (`SSuspend pt`, a `resumed` and a `cancelled` continuation per await point, finally blocks copied into both).
   send() / receive() begin with a FULL checkpoint (`await checkpoint()`): the entry segment is just that suspension
   and everything else is the continuation after it.
   Objects the code is written on top of are not re-interpreted: an anyio Event created by a blocked send()/receive()
   is the state of its single waiter future (MemStream.fut; set() = ev_set); TaskInfo.has_pending_cancellation() of
   a queued receiver is an oracle of the heap (m_pend, = MemStream.has_pending: asyncio / cancel scopes). *)
From AV Require Import Base MemStream.

Inductive exn := EWouldBlock | EClosed | EBroken | EEnd | ECancelled.

Inductive await_pt :=
| AwCheckpoint      (* await checkpoint() at the start of send() / receive() *)
| AwEvent.          (* await send_event.wait() / receive_event.wait() *)

Inductive cond :=
| CClosed            (* self._closed *)
| COpenRecvZero      (* not self._state.open_receive_channels  /  == 0 *)
| COpenSendZero
| CRecvsNonEmpty     (* self._state.waiting_receivers *)
| CSendsNonEmpty     (* self._state.waiting_senders *)
| CRecvPending       (* receiver.task_info.has_pending_cancellation() *)
| CBufferRoom        (* len(self._state.buffer) < self._state.max_buffer_size *)
| CBufferNonEmpty    (* self._state.buffer *)
| CInSenders         (* send_event in self._state.waiting_senders *)
| CNot (c : cond)
| CAnd (a b : cond)
| COr (a b : cond).

Inductive stmt :=
| SSkip
| SSeq (a b : stmt)
| SIf (c : cond) (a b : stmt)
| STry (a : stmt) (x : exn) (h els : stmt)
| SWhileRecvs (body : stmt)        (* while self._state.waiting_receivers: body   (body pops the head once) *)
| SForKeys (body : stmt)           (* for event in <the snapshot list>: body *)
| SCall (body : stmt)              (* self.m(...) with the same `item` *)
| SReturnCall (body : stmt)        (* return self.m() *)
| SRaise (e : exn)
| SReraise
| SReturn
| SSuspend (a : await_pt)
(* send side *)
| SPopRecv                         (* receive_event, receiver = self._state.waiting_receivers.popitem(last=False) *)
| SSetItem                         (* receiver.item = item *)
| SEventSet                        (* <event>.set() *)
| SBufAppend                       (* self._state.buffer.append(item) *)
| SNewEvent                        (* <event> = Event() *)
| SSenderSet                       (* self._state.waiting_senders[send_event] = item *)
| SPopSenderKey                    (* self._state.waiting_senders.pop(send_event, None) *)
| SDelSender                       (* del self._state.waiting_senders[send_event] *)
(* receive side *)
| SPopSender                       (* send_event, item = self._state.waiting_senders.popitem(last=False) *)
| SReturnPopleft                   (* return self._state.buffer.popleft() *)
| SNewReceiver                     (* receiver = _MemoryObjectItemReceiver() *)
| SRecvSet                         (* self._state.waiting_receivers[receive_event] = receiver *)
| SPopRecvKey                      (* self._state.waiting_receivers.pop(receive_event, None) *)
| SReturnItemOrEnd                 (* try: return receiver.item  except AttributeError: raise EndOfStream *)
(* clone / close *)
| SReturnNewSend                   (* return MemoryObjectSendStream(_state=self._state)   (__post_init__: count += 1) *)
| SReturnNewRecv
| SSetClosed                       (* self._closed = True *)
| SDecOpenSend | SDecOpenRecv      (* self._state.open_*_channels -= 1 *)
| SSnapRecvKeys | SSnapSendKeys    (* <events> = list(self._state.waiting_*.keys()) *)
| SClearRecvs.                     (* self._state.waiting_receivers.clear() *)

Inductive outcome :=
| ONext | OReturn
| OReturnV (x : item)       (* returned an item *)
| OReturnH                  (* returned a new stream object *)
| ORaise (e : exn)
| OSuspend (a : await_pt)
| OCancelled
| OStuck.

Record mheap := mkm {
  m_maxb : xnat;
  m_buffer : list item;
  m_osend : nat;
  m_orecv : nat;
  m_recvs : list (eid * tid);       (* waiting_receivers: event -> receiver (of task) *)
  m_sends : list (eid * item);      (* waiting_senders: event -> item *)
  m_slot : eid -> option item;      (* receiver.item of the receiver registered under event e *)
  m_fut : eid -> fstate;            (* the Event created by a blocked call = its waiter future *)
  m_nev : eid;
  m_closed : bool;                  (* self._closed of THIS stream object *)
  m_pend : tid -> bool              (* oracle: TaskInfo.has_pending_cancellation() *)
}.

Record mloc := mkl {
  l_item : option item;        (* parameter / local `item` *)
  l_ev : option eid;           (* local event (send_event / receive_event / loop variable) *)
  l_rt : option tid;           (* the task of the popped receiver (receiver.task_info) *)
  l_rcv : bool;                (* a fresh receiver object is bound to `receiver` *)
  l_keys : list eid;           (* the snapshot list of events *)
  l_exc : option exn;          (* the exception raised at the await this continuation belongs to *)
  l_canc : bool                (* the caller's scope is effectively cancelled at entry *)
}.

Definition loc0 (x : option item) : mloc := mkl x None None false [] None false.
Definition loc_cancelled (x : option item) : mloc := mkl x None None false [] None true.
Definition loc_resume (x : option item) (e : option eid) (r : bool) (ex : option exn) : mloc := mkl x e None r [] ex false.

Definition with_ev (l : mloc) (e : eid) : mloc := mkl (l_item l) (Some e) (l_rt l) (l_rcv l) (l_keys l) (l_exc l) (l_canc l).

Definition up_buffer (k : mheap) (v : list item) : mheap :=
  mkm (m_maxb k) v (m_osend k) (m_orecv k) (m_recvs k) (m_sends k) (m_slot k) (m_fut k) (m_nev k) (m_closed k) (m_pend k).
Definition up_recvs (k : mheap) (v : list (eid * tid)) : mheap :=
  mkm (m_maxb k) (m_buffer k) (m_osend k) (m_orecv k) v (m_sends k) (m_slot k) (m_fut k) (m_nev k) (m_closed k) (m_pend k).
Definition up_sends (k : mheap) (v : list (eid * item)) : mheap :=
  mkm (m_maxb k) (m_buffer k) (m_osend k) (m_orecv k) (m_recvs k) v (m_slot k) (m_fut k) (m_nev k) (m_closed k) (m_pend k).
Definition up_slot (k : mheap) (v : eid -> option item) : mheap :=
  mkm (m_maxb k) (m_buffer k) (m_osend k) (m_orecv k) (m_recvs k) (m_sends k) v (m_fut k) (m_nev k) (m_closed k) (m_pend k).
Definition up_fut (k : mheap) (v : eid -> fstate) (n : eid) : mheap :=
  mkm (m_maxb k) (m_buffer k) (m_osend k) (m_orecv k) (m_recvs k) (m_sends k) (m_slot k) v n (m_closed k) (m_pend k).
Definition up_open (k : mheap) (a b : nat) : mheap :=
  mkm (m_maxb k) (m_buffer k) a b (m_recvs k) (m_sends k) (m_slot k) (m_fut k) (m_nev k) (m_closed k) (m_pend k).
Definition up_closed (k : mheap) (v : bool) : mheap :=
  mkm (m_maxb k) (m_buffer k) (m_osend k) (m_orecv k) (m_recvs k) (m_sends k) (m_slot k) (m_fut k) (m_nev k) v (m_pend k).

Definition is_nil {A} (l : list A) : bool := match l with [] => true | _ => false end.

Fixpoint pl_eqb (a b : list (nat * nat)) : bool :=
  match a, b with
  | [], [] => true
  | (t, f) :: a', (t', f') :: b' => Nat.eqb t t' && Nat.eqb f f' && pl_eqb a' b'
  | _, _ => false
  end.

Definition exn_eqb (a b : exn) : bool :=
  match a, b with
  | EWouldBlock, EWouldBlock | EClosed, EClosed | EBroken, EBroken | EEnd, EEnd | ECancelled, ECancelled => true
  | _, _ => false
  end.

Fixpoint eval_cond (c : cond) (l : mloc) (k : mheap) : option bool :=
  match c with
  | CClosed => Some (m_closed k)
  | COpenRecvZero => Some (Nat.eqb (m_orecv k) 0)
  | COpenSendZero => Some (Nat.eqb (m_osend k) 0)
  | CRecvsNonEmpty => Some (negb (is_nil (m_recvs k)))
  | CSendsNonEmpty => Some (negb (is_nil (m_sends k)))
  | CRecvPending => match l_rt l with Some t => Some (m_pend k t) | None => None end
  | CBufferRoom => Some (xlt (length (m_buffer k)) (m_maxb k))
  | CBufferNonEmpty => Some (negb (is_nil (m_buffer k)))
  | CInSenders => match l_ev l with Some e => Some (has_key e (m_sends k)) | None => None end
  | CNot a => match eval_cond a l k with Some b => Some (negb b) | None => None end
  | CAnd a b => match eval_cond a l k with Some true => eval_cond b l k | r => r end
  | COr a b => match eval_cond a l k with Some false => eval_cond b l k | r => r end
  end.

Definition result := (mloc * mheap * outcome)%type.

(* while self._state.waiting_receivers: body.  Recursion on the queue as it was when the iteration began: every
   iteration must pop exactly its head (anything else is outside the model). *)
Fixpoint wloop (run : mloc -> mheap -> result) (fuel : list (eid * tid)) (l : mloc) (k : mheap) : result :=
  match m_recvs k with
  | [] => (l, k, ONext)
  | _ :: _ =>
      match fuel with
      | [] => (l, k, OStuck)
      | _ :: r =>
          let '(l1, k1, o) := run l k in
          match o with
          | ONext => if pl_eqb (m_recvs k1) r then wloop run r l1 k1 else (l1, k1, OStuck)
          | _ => (l1, k1, o)
          end
      end
  end.

Fixpoint for_keys (run : mloc -> mheap -> result) (ks : list eid) (l : mloc) (k : mheap) : result :=
  match ks with
  | [] => (l, k, ONext)
  | e :: r =>
      let '(l1, k1, o) := run (with_ev l e) k in
      match o with ONext => for_keys run r l1 k1 | _ => (l1, k1, o) end
  end.

(* t = current task *)
Fixpoint exec (p : stmt) (t : tid) (l : mloc) (k : mheap) {struct p} : result :=
  match p with
  | SSkip => (l, k, ONext)
  | SSeq a b =>
      let '(l1, k1, o) := exec a t l k in
      match o with ONext => exec b t l1 k1 | _ => (l1, k1, o) end
  | SIf c a b =>
      match eval_cond c l k with
      | Some true => exec a t l k
      | Some false => exec b t l k
      | None => (l, k, OStuck)
      end
  | STry a x h els =>
      let '(l1, k1, o) := exec a t l k in
      match o with
      | ONext => exec els t l1 k1
      | ORaise y => if exn_eqb y x then exec h t l1 k1 else (l1, k1, o)
      | _ => (l1, k1, o)
      end
  | SWhileRecvs body => wloop (fun l0 k0 => exec body t l0 k0) (m_recvs k) l k
  | SForKeys body => for_keys (fun l0 k0 => exec body t l0 k0) (l_keys l) l k
  | SCall body =>
      let '(_, k1, o) := exec body t (loc0 (l_item l)) k in
      match o with
      | ONext | OReturn => (l, k1, ONext)
      | ORaise x => (l, k1, ORaise x)
      | _ => (l, k1, OStuck)
      end
  | SReturnCall body =>
      let '(_, k1, o) := exec body t (loc0 (l_item l)) k in
      match o with
      | ONext | OReturn => (l, k1, OReturn)
      | OReturnV x => (l, k1, OReturnV x)
      | ORaise x => (l, k1, ORaise x)
      | _ => (l, k1, OStuck)
      end
  | SRaise x => (l, k, ORaise x)
  | SReraise => match l_exc l with Some x => (l, k, ORaise x) | None => (l, k, OStuck) end
  | SReturn => (l, k, OReturn)
  | SSuspend a =>
      match a with
      | AwCheckpoint =>
          (* a full checkpoint: with the caller's scope effectively cancelled it raises the cancellation
             (C08_checkpoint_resume), otherwise it yields to the event loop *)
          if l_canc l then (l, k, OCancelled) else (l, k, OSuspend AwCheckpoint)
      | AwEvent =>
          (* <event>.wait() on the Event created in this segment: pending, so it suspends *)
          match l_ev l with
          | Some e => match m_fut k e with FPending => (l, k, OSuspend AwEvent) | _ => (l, k, OStuck) end
          | None => (l, k, OStuck)
          end
      end
  | SPopRecv =>
      match m_recvs k with
      | (e, w) :: r => (mkl (l_item l) (Some e) (Some w) (l_rcv l) (l_keys l) (l_exc l) (l_canc l), up_recvs k r, ONext)
      | [] => (l, k, OStuck)
      end
  | SSetItem =>
      match l_ev l, l_rt l, l_item l with
      | Some e, Some _, Some x => (l, up_slot k (upd (m_slot k) e (Some x)), ONext)
      | _, _, _ => (l, k, OStuck)
      end
  | SEventSet =>
      match l_ev l with
      | Some e => (l, up_fut k (upd (m_fut k) e (ev_set (m_fut k e))) (m_nev k), ONext)
      | None => (l, k, OStuck)
      end
  | SBufAppend =>
      match l_item l with
      | Some x => (l, up_buffer k (m_buffer k ++ [x]), ONext)
      | None => (l, k, OStuck)
      end
  | SNewEvent =>
      let e := m_nev k in (with_ev l e, up_fut k (upd (m_fut k) e FPending) (S e), ONext)
  | SSenderSet =>
      match l_ev l, l_item l with
      | Some e, Some x => (l, up_sends k (m_sends k ++ [(e, x)]), ONext)
      | _, _ => (l, k, OStuck)
      end
  | SPopSenderKey =>
      match l_ev l with
      | Some e => (l, up_sends k (del_key e (m_sends k)), ONext)
      | None => (l, k, OStuck)
      end
  | SDelSender =>
      match l_ev l with
      | Some e => if has_key e (m_sends k) then (l, up_sends k (del_key e (m_sends k)), ONext) else (l, k, OStuck)
      | None => (l, k, OStuck)
      end
  | SPopSender =>
      match m_sends k with
      | (e, y) :: r => (mkl (Some y) (Some e) (l_rt l) (l_rcv l) (l_keys l) (l_exc l) (l_canc l), up_sends k r, ONext)
      | [] => (l, k, OStuck)
      end
  | SReturnPopleft =>
      match m_buffer k with
      | x :: b => (l, up_buffer k b, OReturnV x)
      | [] => (l, k, OStuck)
      end
  | SNewReceiver => (mkl (l_item l) (l_ev l) (l_rt l) true (l_keys l) (l_exc l) (l_canc l), k, ONext)
  | SRecvSet =>
      match l_ev l, l_rcv l with
      | Some e, true => (l, up_slot (up_recvs k (m_recvs k ++ [(e, t)])) (upd (m_slot k) e None), ONext)
      | _, _ => (l, k, OStuck)
      end
  | SPopRecvKey =>
      match l_ev l with
      | Some e => (l, up_recvs k (del_key e (m_recvs k)), ONext)
      | None => (l, k, OStuck)
      end
  | SReturnItemOrEnd =>
      match l_ev l, l_rcv l with
      | Some e, true => match m_slot k e with Some x => (l, k, OReturnV x) | None => (l, k, ORaise EEnd) end
      | _, _ => (l, k, OStuck)
      end
  | SReturnNewSend => (l, up_open k (S (m_osend k)) (m_orecv k), OReturnH)
  | SReturnNewRecv => (l, up_open k (m_osend k) (S (m_orecv k)), OReturnH)
  | SSetClosed => (l, up_closed k true, ONext)
  | SDecOpenSend => (l, up_open k (pred (m_osend k)) (m_orecv k), ONext)
  | SDecOpenRecv => (l, up_open k (m_osend k) (pred (m_orecv k)), ONext)
  | SSnapRecvKeys => (mkl (l_item l) (l_ev l) (l_rt l) (l_rcv l) (map fst (m_recvs k)) (l_exc l) (l_canc l), k, ONext)
  | SSnapSendKeys => (mkl (l_item l) (l_ev l) (l_rt l) (l_rcv l) (map fst (m_sends k)) (l_exc l) (l_canc l), k, ONext)
  | SClearRecvs => (l, up_recvs k [], ONext)
  end.

(* ---- the table the translator fills ---- *)
Record mprog := mkmprog {
  p_send_nowait : stmt;
  p_send_entry : stmt;                 (* send(): `await checkpoint()` *)
  p_send_ck_resumed : stmt;            (* after the checkpoint: send_nowait, on WouldBlock enqueue and wait *)
  p_send_ck_cancelled : stmt;
  p_send_event_resumed : stmt;         (* send_event.wait() returned: still queued -> BrokenResourceError *)
  p_send_event_cancelled : stmt;       (* it raised: drop the own entry, re-raise *)
  p_send_clone : stmt;
  p_send_close : stmt;
  p_recv_nowait : stmt;
  p_recv_entry : stmt;
  p_recv_ck_resumed : stmt;
  p_recv_ck_cancelled : stmt;
  p_recv_event_resumed : stmt;         (* finally: drop the own entry; return receiver.item or EndOfStream *)
  p_recv_event_cancelled : stmt;       (* finally: drop the own entry; re-raise *)
  p_recv_clone : stmt;
  p_recv_close : stmt
}.

Definition res_of (s0 : st) (o : outcome) : option res :=
  match o with
  | ONext | OReturn => Some RDone
  | OReturnV x => Some (RItem x)
  | OReturnH => Some (RHandle (nh s0))
  | OSuspend _ => Some RBlocked
  | ORaise EWouldBlock => Some RWouldBlock
  | ORaise EClosed => Some RClosed
  | ORaise EBroken => Some RBroken
  | ORaise EEnd => Some REndOfStream
  | ORaise ECancelled | OCancelled => Some RCancelled
  | OStuck => None
  end.

(* what the code sees of a st when it runs on stream object h *)
Definition vis (s : st) (h : hid) : mheap :=
  mkm (maxb s) (buffer s) (open_send s) (open_recv s) (receivers s) (senders s) (slot s) (fut s) (nev s) (hclosed s h)
      (has_pending s).

(* s' shows exactly heap k to stream object h; no other existing stream object was touched (clone() allocates the
   object with the next number).  Function-valued fields are compared pointwise (close() sets the events one by one,
   the model with MemStream.set_keys). *)
Definition shows (s s' : st) (h : hid) (k : mheap) : Prop :=
  maxb s' = m_maxb k /\ buffer s' = m_buffer k /\ open_send s' = m_osend k /\ open_recv s' = m_orecv k /\
  receivers s' = m_recvs k /\ senders s' = m_sends k /\ (forall e, slot s' e = m_slot k e) /\
  (forall e, fut s' e = m_fut k e) /\ nev s' = m_nev k /\ hclosed s' h = m_closed k /\
  (forall h', h' <> h -> h' <> nh s -> hclosed s' h' = hclosed s h') /\
  (forall h', h' <> nh s -> hside s' h' = hside s h').

(* which call the segment belongs to: determines the phase a suspension leaves the task in *)
Inductive mkind := KSend (h : hid) (x : item) | KRecv (h : hid) | KPlain.

Definition phase_after (kd : mkind) (l : mloc) (o : outcome) : option phase :=
  match o, kd with
  | OSuspend AwCheckpoint, KSend h x => Some (SendCk h x)
  | OSuspend AwCheckpoint, KRecv h => Some (RecvCk h)
  | OSuspend AwEvent, KSend _ x => match l_ev l with Some e => Some (SendWait e x) | None => None end
  | OSuspend AwEvent, KRecv _ => match l_ev l with Some e => Some (RecvWait e) | None => None end
  | OSuspend _, KPlain => None
  | OStuck, _ => None
  | _, _ => Some Idle
  end.

(* one transition of the model is the interpretation of segment p on stream object h (started with locals l0 in the
   state s0 the kernel left): code-visible state, result and phase agree; everything else in st (nitem, entered,
   handed, returned, inflight, withdrawn, lost, acked, senq, renq) is ghost *)
Definition runs (s0 s' : st) (r : res) (h : hid) (t : tid) (kd : mkind) (p : stmt) (l0 : mloc) : Prop :=
  let '(l, k, o) := exec p t l0 (vis s0 h) in
  shows s0 s' h k /\ res_of s0 o = Some r /\ phase_after kd l o = Some (phase_of s' t) /\
  (forall t', t' <> t -> phase_of s' t' = phase_of s0 t').

(* ---- which segment a model op runs, on which stream object, from which kernel-prepared state, with which locals ----
   None: no stream code runs - Task.cancel() / scope cancellation / re-delivery (asyncio, cancel scopes), an op the
   model rejects (not at a decision point, wrong kind of handle, stale item), a task that is not runnable.
   A wake-up first lets the kernel do its part (MemStream.finish: phase Idle, Task._must_cancel consumed): from the
   checkpoint it raises iff _must_cancel; from <event>.wait() iff the waiter future was cancelled or _must_cancel.
   clone() / close() are not bound to a task in the model (None): they are run by any task at a decision point.
   The continuations after <event>.wait() touch only the shared _state, so the stream object does not matter (0). *)
Definition dispatch (P : mprog) (s : st) (o : op) : option (st * hid * option tid * mkind * stmt * mloc) :=
  match o with
  | SendNowait t h x =>
      if negb (is_idle (phase_of s t)) || negb (valid_h s h SSend) || Nat.ltb x (nitem s) then None
      else Some (s, h, Some t, KPlain, p_send_nowait P, loc0 (Some x))
  | RecvNowait t h =>
      if negb (is_idle (phase_of s t)) || negb (valid_h s h SRecv) then None
      else Some (s, h, Some t, KPlain, p_recv_nowait P, loc0 None)
  | Send t h x =>
      if negb (is_idle (phase_of s t)) || negb (valid_h s h SSend) || Nat.ltb x (nitem s) then None
      else Some (s, h, Some t, KSend h x, p_send_entry P, loc0 (Some x))
  | Recv t h =>
      if negb (is_idle (phase_of s t)) || negb (valid_h s h SRecv) then None
      else Some (s, h, Some t, KRecv h, p_recv_entry P, loc0 None)
  | Clone h =>
      if negb (Nat.ltb h (nh s)) then None
      else Some (s, h, None, KPlain, match hside s h with SSend => p_send_clone P | SRecv => p_recv_clone P end, loc0 None)
  | Close h =>
      if negb (Nat.ltb h (nh s)) then None
      else Some (s, h, None, KPlain, match hside s h with SSend => p_send_close P | SRecv => p_recv_close P end, loc0 None)
  | Resume t =>
      match phase_of s t with
      | Idle => None
      | SendCk h x =>
          Some (finish s t, h, Some t, KSend h x,
                (if mustc s t then p_send_ck_cancelled P else p_send_ck_resumed P),
                loc_resume (Some x) None false (if mustc s t then Some ECancelled else None))
      | RecvCk h =>
          Some (finish s t, h, Some t, KRecv h,
                (if mustc s t then p_recv_ck_cancelled P else p_recv_ck_resumed P),
                loc_resume None None false (if mustc s t then Some ECancelled else None))
      | SendWait e x =>
          match fut s e with
          | FPending => None
          | f =>
              let c := is_cancelled f || mustc s t in
              Some (finish s t, 0, Some t, KSend 0 x,
                    (if c then p_send_event_cancelled P else p_send_event_resumed P),
                    loc_resume (Some x) (Some e) false (if c then Some ECancelled else None))
          end
      | RecvWait e =>
          match fut s e with
          | FPending => None
          | f =>
              let c := is_cancelled f || mustc s t in
              Some (finish s t, 0, Some t, KRecv 0,
                    (if c then p_recv_event_cancelled P else p_recv_event_resumed P),
                    loc_resume None (Some e) true (if c then Some ECancelled else None))
          end
      end
  | _ => None
  end.

Definition runs_opt (s0 s' : st) (r : res) (h : hid) (ot : option tid) (kd : mkind) (p : stmt) (l0 : mloc) : Prop :=
  match ot with
  | Some t => runs s0 s' r h t kd p l0
  | None => forall t, phase_of s0 t = Idle -> runs s0 s' r h t kd p l0
  end.

(* the states reached by transitions each of which is an environment / rejected op or IS the interpretation of the
   dispatched generated segment *)
Inductive grun (P : mprog) (m : xnat) : st -> Prop :=
| grun_init : grun P m (init m)
| grun_code s o s0 h ot kd p l0 :
    grun P m s -> dispatch P s o = Some (s0, h, ot, kd, p, l0) ->
    runs_opt s0 (fst (step s o)) (snd (step s o)) h ot kd p l0 -> grun P m (fst (step s o))
| grun_env s o : grun P m s -> dispatch P s o = None -> grun P m (fst (step s o)).
