(* C20 clauses as theorems over every op sequence of the Lru machine, the refutation witnesses for the
   known findings F3 / F8, and non-vacuity examples. *)
From AV Require Import Base Lru LruLockFacts LruDict LruProofs LruInv LruStep.
From AV Require Lock LockProofs.
From Coq Require Import Sorting.Sorted ZifyBool.

Lemma run_snoc cf ops o : run cf (ops ++ [o]) = fst (step cf (run cf ops) o).
Proof. unfold run. rewrite final_app. reflexivity. Qed.

(* ------------------------------------------------------------------------------------------------ *)
(* shape of what `body` and `acquire` return                                                          *)
(* ------------------------------------------------------------------------------------------------ *)
Lemma body_shape cf s c k l :
  let s' := fst (body cf s c k l) in
  let r := snd (body cf s c k l) in
  produced s' = produced s /\
  (r = RLockErr \/
   (r = RKeyError /\ dfind k (dict s) = None) \/
   (r = RBlocked /\ (exists x l', dfind k (dict s) = Some x /\ se x = EPlace l') /\
      phase s' c = CInWrapped k l None false) \/
   (exists x v e, r = RRet v /\ dfind k (dict s) = Some x /\ se x = EVal v e /\ phase s' c = CIdle)).
Proof.
  unfold body. destruct (dfind k (dict s)) as [x|] eqn:Hfind.
  - destruct (se x) as [l'|v e] eqn:Hse.
    + cbv zeta. split.
      * destruct (full cf _); [unfold evict; sm; destruct (dict s); reflexivity|reflexivity].
      * right. right. left. cbn [fst snd]. split; [reflexivity|]. split; [eauto|].
        destruct (full cf _); [unfold evict; sm; destruct (dict s); sm; apply upd_same|sm; apply upd_same].
    + cbv zeta. rewrite release_eq.
      destruct (snd (Lock.step _ _)); cbn [finish fst snd]; sm; (split; [reflexivity|]); auto.
      right. right. right. exists x, v, e. rewrite upd_same. auto.
  - rewrite release_eq. destruct (snd (Lock.step _ _)); cbn [finish fst snd]; sm; (split; [reflexivity|]); auto.
Qed.

Lemma body_phase cf s c k l :
  phase (fst (body cf s c k l)) c = CIdle \/ phase (fst (body cf s c k l)) c = CInWrapped k l None false.
Proof.
  unfold body. destruct (dfind k (dict s)) as [x|].
  - destruct (se x) as [l'|v e]; cbv zeta.
    + right. cbn [fst]. destruct (full cf _); [unfold evict; sm; destruct (dict s); sm; apply upd_same|sm; apply upd_same].
    + left. rewrite release_eq. cbn [finish fst]. sm. apply upd_same.
  - left. rewrite release_eq. cbn [finish fst]. sm. apply upd_same.
Qed.

Lemma acquire_phase cf s c k l :
  phase (fst (acquire cf s c k l)) c = CIdle \/ phase (fst (acquire cf s c k l)) c = CInWrapped k l None false \/
  phase (fst (acquire cf s c k l)) c = CLockWait k l (now s).
Proof.
  unfold acquire. rewrite lock_do_eq. destruct (snd (Lock.step _ _)); cbn [fst]; sm; rewrite ?upd_same; auto.
  match goal with |- context [body cf ?s1 c k l] => destruct (body_phase cf s1 c k l) as [H|H] end; auto.
Qed.

Lemma acquire_shape cf s c k l :
  let s' := fst (acquire cf s c k l) in
  let r := snd (acquire cf s c k l) in
  produced s' = produced s /\
  (r = RLockErr \/ r = RBlocked \/
   (r = RKeyError /\ dfind k (dict s) = None) \/
   (exists x v e, r = RRet v /\ dfind k (dict s) = Some x /\ se x = EVal v e)).
Proof.
  unfold acquire. rewrite lock_do_eq.
  destruct (snd (Lock.step _ _)); cbn [fst snd]; auto.
  match goal with |- context [body cf ?s1 c k l] => pose proof (body_shape cf s1 c k l) as H end.
  cbv zeta in H. sm. destruct H as [H1 H2]. split; [exact H1|].
  destruct H2 as [H2|[[H2 H3]|[[H2 _]|(x & v & e & H2 & H3 & H4 & _)]]]; eauto 10.
Qed.

(* ------------------------------------------------------------------------------------------------ *)
(* 1. right value                                                                                     *)
(* ------------------------------------------------------------------------------------------------ *)
Definition call_key (cf : cfg) (s : st) (o : op) : option key :=
  match o with
  | Call c a => Some (key_of cf a)
  | Resume c =>
      match phase s c with
      | CLockWait k _ _ => Some k | CInWrapped k _ _ _ => Some k | CHitCk k _ _ => Some k
      | CBypass k _ _ => Some k | CIdle => None
      end
  | _ => None
  end.

Lemma step_value cf s o s' v :
  Inv cf s -> step cf s o = (s', RRet v) -> exists k, call_key cf s o = Some k /\ In (k, v) (produced s').
Proof.
  intros I Hs.
  assert (Hfs : s' = fst (step cf s o)) by now rewrite Hs.
  assert (Hsn : snd (step cf s o) = RRet v) by now rewrite Hs.
  clear Hs. subst s'. destruct o as [c a|c v0|c e|c|c| |]; unfold step in *.
  - (* Call *)
    exists (key_of cf a). split; [reflexivity|]. revert Hsn.
    destruct (Nat.ltb c (ncall cf)); cbn [negb]; [|discriminate].
    destruct (is_cidle (phase s c)); cbn [negb]; [|discriminate].
    set (k := key_of cf a). destruct (is_zero_max cf); [discriminate|].
    destruct (dfind k (dict s)) as [x|] eqn:Hfind.
    + destruct (dfind_some _ _ _ Hfind) as [Hkx Hin]. destruct (se x) as [l|v1 exp] eqn:Hse.
      * destruct (acquire_shape cf s c k l) as [H1 H2]. cbv zeta in H1, H2. rewrite H1. intros E.
        rewrite E in H2. destruct H2 as [H2|[H2|[[H2 _]|(y & v2 & e2 & H2 & H3 & H4)]]]; try discriminate.
        injection H2 as <-. assert (y = x) by congruence. subst y. congruence.
      * destruct (expired exp (now s)).
        -- cbv zeta. match goal with |- context [acquire cf ?s4 c k ?l] =>
             destruct (acquire_shape cf s4 c k l) as [H1 H2]; cbv zeta in H1, H2; rewrite H1; sm; intros E;
             rewrite E in H2 end.
           destruct H2 as [H2|[H2|[[H2 _]|(y & v2 & e2 & H2 & H3 & H4)]]]; try discriminate.
           exfalso. pose proof (dget_find _ _ _ H3) as Hg. sm. rewrite dget_dmove, dget_dset_in_same, (dget_find _ _ _ Hfind) in Hg.
           rewrite H4 in Hg. discriminate.
        -- cbv zeta. destruct (ackpt cf); cbn [fst snd]; [discriminate|]. intros [= <-]. sm.
           rewrite <- Hkx. apply (I_vdict _ _ I x v1 exp Hin Hse).
    + cbv zeta. match goal with |- context [acquire cf ?s2 c k ?l] =>
        destruct (acquire_shape cf s2 c k l) as [H1 H2]; cbv zeta in H1, H2; rewrite H1; sm; intros E;
        rewrite E in H2 end.
      destruct H2 as [H2|[H2|[[H2 _]|(y & v2 & e2 & H2 & H3 & H4)]]]; try discriminate.
      exfalso. pose proof (dget_find _ _ _ H3) as Hg.
      rewrite dget_app, (dget_none_find _ _ Hfind), Nat.eqb_refl, H4 in Hg. discriminate.
  - exfalso. revert Hsn. destruct (phase s c) as [|k l t0|k l [w|] [|]|k v1 b|k [w|] [|]]; discriminate.
  - exfalso. revert Hsn. destruct (phase s c) as [|k l t0|k l [w|] [|]|k v1 b|k [w|] [|]]; discriminate.
  - exfalso. revert Hsn. destruct (phase s c) as [|k l t0|k l w b|k v1 b|k w b]; try discriminate.
    rewrite lock_do_eq. discriminate.
  - (* Resume *)
    cbn [call_key]. destruct (phase s c) as [|k l t0|k l w b|k v1 b|k w b] eqn:Hp; [discriminate| | | |].
    + exists k. split; [reflexivity|]. revert Hsn. rewrite lock_do_eq.
      destruct (snd (Lock.step _ _)); cbn [fst snd]; try discriminate.
      match goal with |- context [body cf ?s1 c k l] => pose proof (body_shape cf s1 c k l) as H end.
      cbv zeta in H. destruct H as [H1 H2]. rewrite H1. sm. intros E. rewrite E in H2.
      destruct H2 as [H2|[[H2 _]|[[H2 _]|(y & v2 & e2 & H2 & H3 & H4 & _)]]]; try discriminate.
      injection H2 as <-. destruct (dfind_some _ _ _ H3) as [Hk Hin]. rewrite <- Hk.
      apply (I_vdict _ _ I y v e2 Hin H4).
    + exists k. split; [reflexivity|]. revert Hsn. destruct b.
      * rewrite release_eq. destruct (snd (Lock.step _ _)); discriminate.
      * destruct w as [[v2|e]|]; [| |discriminate].
        -- cbv zeta. rewrite release_eq. destruct (snd (Lock.step _ _)); cbn [finish fst snd]; try discriminate.
           intros [= <-]. sm. now left.
        -- rewrite release_eq. destruct (snd (Lock.step _ _)); discriminate.
    + exists k. split; [reflexivity|]. revert Hsn. cbn [fst snd]. destruct b; [discriminate|].
      intros [= <-]. sm. apply (I_vhit _ _ I _ _ _ _ Hp).
    + exists k. split; [reflexivity|]. revert Hsn. destruct b; [discriminate|].
      destruct w as [[v2|e]|]; try discriminate. cbn [fst snd]. intros [= <-]. sm. now left.
  - discriminate Hsn.
  - exfalso. revert Hsn. destruct (all_idle cf s); cbn [negb]; [|discriminate].
    destruct (is_zero_max cf); discriminate.
Qed.

(* a call returns only a value that some execution of the wrapped function returned for the same key *)
Theorem lru_value_faithful cf ops o s' v :
  step cf (run cf ops) o = (s', RRet v) ->
  exists k, call_key cf (run cf ops) o = Some k /\ In (k, v) (produced s').
Proof. apply step_value, reachable_inv. Qed.

(* `produced` grows only when the wrapped function of a caller returns: (k, v) is logged exactly when the
   execution for key k started by that caller is resumed with the oracle value v *)
Theorem lru_produced_only_by_wrapped cf s o :
  produced (fst (step cf s o)) = produced s \/
  exists c k v, o = Resume c /\ produced (fst (step cf s o)) = (k, v) :: produced s /\
    ((exists l, phase s c = CInWrapped k l (Some (WRet v)) false) \/ phase s c = CBypass k (Some (WRet v)) false).
Proof.
  destruct o as [c a|c v0|c e|c|c| |]; unfold step.
  - left. destruct (Nat.ltb c (ncall cf)); cbn [negb]; [|reflexivity].
    destruct (is_cidle (phase s c)); cbn [negb]; [|reflexivity].
    destruct (is_zero_max cf); [reflexivity|].
    destruct (dfind _ (dict s)) as [x|].
    + destruct (se x) as [l|v1 exp].
      * apply acquire_shape.
      * destruct (expired exp (now s)); cbv zeta.
        -- match goal with |- context [acquire cf ?s4 c ?k ?l] =>
             destruct (acquire_shape cf s4 c k l) as [H1 _]; cbv zeta in H1; rewrite H1 end. reflexivity.
        -- destruct (ackpt cf); reflexivity.
    + cbv zeta. match goal with |- context [acquire cf ?s4 c ?k ?l] =>
        destruct (acquire_shape cf s4 c k l) as [H1 _]; cbv zeta in H1; rewrite H1 end. reflexivity.
  - left. destruct (phase s c) as [|k l t0|k l [w|] [|]|k v1 b|k [w|] [|]]; reflexivity.
  - left. destruct (phase s c) as [|k l t0|k l [w|] [|]|k v1 b|k [w|] [|]]; reflexivity.
  - left. destruct (phase s c) as [|k l t0|k l w b|k v1 b|k w b]; try reflexivity.
    rewrite lock_do_eq. reflexivity.
  - destruct (phase s c) as [|k l t0|k l w b|k v1 b|k w b] eqn:Hp; [left; reflexivity| | | |].
    + left. rewrite lock_do_eq. destruct (snd (Lock.step _ _)); cbn [fst snd]; try reflexivity.
      match goal with |- context [body cf ?s1 c k l] => destruct (body_shape cf s1 c k l) as [H1 _] end.
      cbv zeta in H1. rewrite H1. reflexivity.
    + destruct b.
      * left. rewrite release_eq. reflexivity.
      * destruct w as [[v2|e]|]; [| |left; reflexivity].
        -- right. exists c, k, v2. split; [reflexivity|]. split; [|left; eauto].
           cbv zeta. rewrite release_eq. reflexivity.
        -- left. rewrite release_eq. reflexivity.
    + left. reflexivity.
    + destruct b; [left; reflexivity|]. destruct w as [[v2|e]|]; [| |left; reflexivity].
      * right. exists c, k, v2. split; [reflexivity|]. split; [reflexivity|right; exact Hp].
      * left. reflexivity.
  - left. reflexivity.
  - left. destruct (all_idle cf s); cbn [negb]; [|reflexivity]. destruct (is_zero_max cf); reflexivity.
Qed.

(* a call raises (other than CancelledError) only what its own execution of the wrapped function raised *)
Theorem lru_raises_own cf s o e :
  snd (step cf s o) = RExc e ->
  exists c k, o = Resume c /\
    ((exists l, phase s c = CInWrapped k l (Some (WExc e)) false) \/ phase s c = CBypass k (Some (WExc e)) false).
Proof.
  destruct o as [c a|c v0|c e0|c|c| |]; unfold step.
  - destruct (Nat.ltb c (ncall cf)); cbn [negb]; [|discriminate].
    destruct (is_cidle (phase s c)); cbn [negb]; [|discriminate].
    destruct (is_zero_max cf); [discriminate|].
    destruct (dfind _ (dict s)) as [x|].
    + destruct (se x) as [l|v1 exp].
      * intros E. destruct (acquire_shape cf s c (key_of cf a) l) as [_ H]. cbv zeta in H. rewrite E in H.
        destruct H as [H|[H|[[H _]|(y & v2 & e2 & H & _)]]]; discriminate.
      * destruct (expired exp (now s)); cbv zeta.
        -- match goal with |- context [acquire cf ?s4 c ?k ?l] =>
             destruct (acquire_shape cf s4 c k l) as [_ H]; cbv zeta in H; intros E; rewrite E in H end.
           destruct H as [H|[H|[[H _]|(y & v2 & e2 & H & _)]]]; discriminate.
        -- destruct (ackpt cf); discriminate.
    + cbv zeta. match goal with |- context [acquire cf ?s4 c ?k ?l] =>
        destruct (acquire_shape cf s4 c k l) as [_ H]; cbv zeta in H; intros E; rewrite E in H end.
      destruct H as [H|[H|[[H _]|(y & v2 & e2 & H & _)]]]; discriminate.
  - destruct (phase s c) as [|k l t0|k l [w|] [|]|k v1 b|k [w|] [|]]; discriminate.
  - destruct (phase s c) as [|k l t0|k l [w|] [|]|k v1 b|k [w|] [|]]; discriminate.
  - destruct (phase s c) as [|k l t0|k l w b|k v1 b|k w b]; try discriminate. rewrite lock_do_eq. discriminate.
  - destruct (phase s c) as [|k l t0|k l w b|k v1 b|k w b] eqn:Hp; [discriminate| | | |].
    + rewrite lock_do_eq. destruct (snd (Lock.step _ _)); cbn [fst snd]; try discriminate.
      match goal with |- context [body cf ?s1 c k l] => destruct (body_shape cf s1 c k l) as [_ H] end.
      cbv zeta in H. intros E. rewrite E in H.
      destruct H as [H|[[H _]|[[H _]|(y & v2 & e2 & H & _)]]]; discriminate.
    + destruct b.
      * rewrite release_eq. destruct (snd (Lock.step _ _)); discriminate.
      * destruct w as [[v2|e2]|]; [| |discriminate].
        -- cbv zeta. rewrite release_eq. destruct (snd (Lock.step _ _)); discriminate.
        -- rewrite release_eq. destruct (snd (Lock.step _ _)); cbn [finish fst snd]; try discriminate.
           intros [= <-]. exists c, k. split; [reflexivity|]. left. eauto.
    + destruct b; discriminate.
    + destruct b; [discriminate|]. destruct w as [[v2|e2]|]; try discriminate.
      cbn [fst snd]. intros [= <-]. exists c, k. split; [reflexivity|]. right. exact Hp.
  - discriminate.
  - destruct (all_idle cf s); cbn [negb]; [|discriminate]. destruct (is_zero_max cf); discriminate.
Qed.

(* ------------------------------------------------------------------------------------------------ *)
(* 2. single flight                                                                                   *)
(* ------------------------------------------------------------------------------------------------ *)
Theorem lru_single_flight cf ops c1 c2 k l1 l2 p1 b1 p2 b2 :
  no_inflight_eviction cf ops -> no_waited_eviction cf ops ->
  phase (run cf ops) c1 = CInWrapped k l1 p1 b1 ->
  phase (run cf ops) c2 = CInWrapped k l2 p2 b2 ->
  c1 = c2.
Proof.
  intros Hf Hw H1 H2. pose proof (reachable_inv cf ops) as I.
  pose proof (I_A _ _ I Hf Hw _ _ _ _ _ H1) as A1. pose proof (I_A _ _ I Hf Hw _ _ _ _ _ H2) as A2.
  assert (l1 = l2) by congruence. subst l2.
  eapply held_unique; [apply (L_inv _ _ _ _ _ (I_lp _ _ I) l1)| |];
    eapply (L_run _ _ _ _ _ (I_lp _ _ I)); eauto.
Qed.

(* later callers reuse the first result: a caller that waited for the entry's lock and finds the value stored
   returns that value (or is cancelled) and never starts an execution of its own *)
Theorem lru_reuse_first_result cf ops c k l t0 v e :
  phase (run cf ops) c = CLockWait k l t0 ->
  dget k (dict (run cf ops)) = Some (EVal v e) ->
  let r := snd (step cf (run cf ops) (Resume c)) in
  r = RRet v \/ r = RCancelled \/ r = RRejected.
Proof.
  intros Hp Hd. pose proof (reachable_inv cf ops) as I. set (s := run cf ops) in *.
  destruct (step_ok cf s (Resume c) I) as [_ [Hgood _]].
  cbv zeta. revert Hgood. unfold step. rewrite Hp, lock_do_eq.
  destruct (snd (Lock.step _ _)); cbn [fst snd]; auto; try congruence.
  match goal with |- context [body cf ?s1 c k l] => destruct (body_shape cf s1 c k l) as [_ H] end.
  cbv zeta in H. sm. intros Hg.
  destruct (dget_some _ _ _ Hd) as (x & Hx & Hse & _).
  destruct H as [H|[[_ H]|[[_ [(y & l' & H & H') _]]|(y & v2 & e2 & H & H1 & H2 & _)]]]; try congruence.
  left. rewrite H. congruence.
Qed.

(* ------------------------------------------------------------------------------------------------ *)
(* 3. calls with different arguments do not block one another                                         *)
(* ------------------------------------------------------------------------------------------------ *)
Theorem lru_distinct_keys_independent cf ops c k l t0 :
  phase (run cf ops) c = CLockWait k l t0 ->
  lkey (run cf ops) l = k /\
  (forall c', Lock.phase_of (locks (run cf ops) l) c' <> Lock.Idle \/ In c' (Lock.held (locks (run cf ops) l)) ->
     (exists t, phase (run cf ops) c' = CLockWait k l t) \/
     (exists p b, phase (run cf ops) c' = CInWrapped k l p b)) /\
  (forall c', Lock.owner (locks (run cf ops) l) = Some c' ->
     (exists t, phase (run cf ops) c' = CLockWait k l t) \/
     (exists p b, phase (run cf ops) c' = CInWrapped k l p b)).
Proof.
  intros Hp. pose proof (reachable_inv cf ops) as I. set (s := run cf ops) in *.
  pose proof (I_lp _ _ I) as LPs.
  assert (Hk : lkey s l = k) by (apply (L_ref _ _ _ _ _ LPs c); now rewrite Hp).
  assert (Heng : forall c', engaged (locks s l) c' ->
            (exists t, phase s c' = CLockWait k l t) \/ (exists p b, phase s c' = CInWrapped k l p b)).
  { intros c' He. destruct (L_eng _ _ _ _ _ LPs l c' He) as [k' Hk'].
    destruct (L_ref _ _ _ _ _ LPs c' k' l Hk') as [_ E]. assert (Ek : k' = k) by congruence.
    destruct (phase s c') as [|k1 l1 t1|k1 l1 p1 b1|k1 v1 b1|k1 p1 b1]; cbn in Hk'; try discriminate;
      injection Hk' as E1 E2.
    - left. exists t1. congruence.
    - right. exists p1, b1. congruence. }
  refine (conj Hk (conj Heng _)).
  intros c' Ho. apply Heng. apply (LockProofs.I_owner _ (L_inv _ _ _ _ _ LPs l)) in Ho.
  destruct Ho as [H|[H|(f & H & _)]]; [right; exact H|left; congruence|left; congruence].
Qed.

(* ------------------------------------------------------------------------------------------------ *)
(* 4. no internal error                                                                               *)
(* ------------------------------------------------------------------------------------------------ *)
Theorem lru_no_internal_error cf ops o :
  no_inflight_eviction cf (ops ++ [o]) -> no_waited_eviction cf (ops ++ [o]) ->
  snd (step cf (run cf ops) o) <> RKeyError /\ snd (step cf (run cf ops) o) <> RLockErr.
Proof.
  unfold no_inflight_eviction, no_waited_eviction, evicts_inflight, evicts_waited. rewrite run_snoc.
  intros Hf Hw. destruct (step_ok cf (run cf ops) o (reachable_inv cf ops)) as [_ [H1 H2]]. auto.
Qed.

(* the embedded locks never report an error, whatever is evicted *)
Theorem lru_no_lock_error cf ops o : snd (step cf (run cf ops) o) <> RLockErr.
Proof. apply (step_ok cf (run cf ops) o (reachable_inv cf ops)). Qed.

(* ------------------------------------------------------------------------------------------------ *)
(* 5. bounded retention, least recently used first                                                    *)
(* ------------------------------------------------------------------------------------------------ *)
Theorem lru_bounded cf ops m :
  no_inflight_eviction cf ops -> maxsize cf = Some m ->
  length (filter (fun x => negb (is_place (se x))) (dict (run cf ops))) +
  length (filter (fun c => match phase (run cf ops) c with CInWrapped _ _ _ _ => true | _ => false end)
                 (seq 0 (ncall cf))) <= m.
Proof.
  intros Hf Hm. destruct (I_bound _ _ (reachable_inv cf ops) Hf) as [H1 H2]. specialize (H2 m Hm).
  change (nval (dict (run cf ops)) + nrun cf (phase (run cf ops)) <= m). lia.
Qed.

Theorem lru_order cf ops :
  NoDup (map sk (dict (run cf ops))) /\
  StronglySorted (fun a b => ss a < ss b) (dict (run cf ops)) /\
  (forall x, In x (dict (run cf ops)) -> ss x < clk (run cf ops)).
Proof.
  pose proof (reachable_inv cf ops) as I.
  exact (conj (I_nodup _ _ I) (conj (I_sorted _ _ I) (I_stamp _ _ I))).
Qed.

(* ---- eviction order.  The ghost stamp of an entry is the logical time of its last USE: installation of the
   placeholder, lookup hit, reuse after waiting for the flight, recomputation after expiry.  `touched k ck d d1`:
   d1 is d after the uses of one step: nothing is lost, only entries of key k may carry a new stamp (>= ck), order
   by stamp is kept. ---- *)
Definition touched (k : key) (ck : nat) (d d1 : list slot) : Prop :=
  StronglySorted stamp_lt d1 /\
  (forall x, In x d -> exists y, In y d1 /\ sk y = sk x /\ ss x <= ss y) /\
  (forall y, In y d1 -> (exists x, In x d /\ sk x = sk y /\ ss x = ss y) \/ (sk y = k /\ ck <= ss y)).

Lemma touched_refl k ck d : StronglySorted stamp_lt d -> touched k ck d d.
Proof.
  intros Hs. refine (conj Hs (conj _ _)).
  - intros x Hx. exists x. auto.
  - intros y Hy. left. exists y. auto.
Qed.

Lemma touched_trans k ck d d1 d2 : touched k ck d d1 -> touched k ck d1 d2 -> touched k ck d d2.
Proof.
  intros (S1 & A1 & B1) (S2 & A2 & B2). refine (conj S2 (conj _ _)).
  - intros x Hx. destruct (A1 x Hx) as (y & Hy & E1 & L1). destruct (A2 y Hy) as (z & Hz & E2 & L2).
    exists z. refine (conj Hz (conj _ _)); [congruence|lia].
  - intros z Hz. destruct (B2 z Hz) as [(y & Hy & E1 & E2)|H]; [|right; exact H].
    destruct (B1 y Hy) as [(x & Hx & E3 & E4)|[E3 E4]].
    + left. exists x. refine (conj Hx (conj _ _)); congruence.
    + right. split; [congruence|lia].
Qed.

Lemma touched_app k ck d e st :
  StronglySorted stamp_lt d -> (forall y, In y d -> ss y < st) -> ck <= st ->
  touched k ck d (d ++ [mkslot k e st]).
Proof.
  intros Hs Hb Hc. refine (conj _ (conj _ _)).
  - apply sorted_app_last; [exact Hs|]. intros y Hy. cbn. now apply Hb.
  - intros x Hx. exists x. split; [apply in_or_app; now left|auto].
  - intros y Hy. apply in_app_or in Hy. destruct Hy as [Hy|[<-|[]]]; [left; exists y; auto|right; cbn; auto].
Qed.

Lemma in_dset_in_conv x k e d : In x d -> exists y, In y (dset_in k e d) /\ sk y = sk x /\ ss y = ss x.
Proof.
  induction d as [|z r IH]; cbn [dset_in]; [intros []|].
  destruct (Nat.eqb_spec (sk z) k) as [E|E]; intros [<-|H].
  - eexists. split; [left; reflexivity|]. cbn. auto.
  - exists x. split; [right; exact H|auto].
  - exists z. split; [left; reflexivity|auto].
  - destruct (IH H) as (y & Hy & E1 & E2). exists y. split; [right; exact Hy|auto].
Qed.

Lemma touched_dset_in k ck e d : StronglySorted stamp_lt d -> touched k ck d (dset_in k e d).
Proof.
  intros Hs. refine (conj (sorted_dset_in k e d Hs) (conj _ _)).
  - intros x Hx. destruct (in_dset_in_conv x k e d Hx) as (y & Hy & E1 & E2). exists y. split; [exact Hy|]. split; [exact E1|lia].
  - intros y Hy. left. apply in_dset_in in Hy. destruct Hy as [Hy|(z & Hz & Hk & ->)]; [exists y; auto|].
    exists z. cbn. auto.
Qed.

Lemma touched_dmove k ck st d :
  StronglySorted stamp_lt d -> (forall y, In y d -> ss y < st) -> ck <= st -> touched k ck d (dmove k st d).
Proof.
  intros Hs Hb Hc. refine (conj (sorted_dmove k st d Hs Hb) (conj _ _)).
  - intros x Hx. unfold dmove. destruct (dfind k d) as [x0|] eqn:E; [|exists x; auto].
    destruct (Nat.eq_dec (sk x) k) as [Ek|Nk].
    + eexists. split; [apply in_or_app; right; left; reflexivity|]. cbn. split; [auto|]. specialize (Hb x Hx). lia.
    + exists x. split; [|auto]. apply in_or_app. left. unfold dremove. apply filter_In. split; [exact Hx|].
      destruct (Nat.eqb_spec (sk x) k); [contradiction|reflexivity].
  - intros y Hy. apply in_dmove in Hy. destruct Hy as [Hy|(z & Hz & Hk & ->)]; [left; exists y; auto|].
    right. cbn. auto.
Qed.

Lemma touched_dstore k ck e st d :
  StronglySorted stamp_lt d -> (forall y, In y d -> ss y < st) -> ck <= st -> touched k ck d (dstore k e st d).
Proof.
  intros Hs Hb Hc. unfold dstore. destruct (dfind k d); [now apply touched_dset_in|now apply touched_app].
Qed.

(* what is missing after the optional eviction of the head was used before everything that remains *)
Lemma touched_evict k ck d d1 d' :
  touched k ck d d1 -> d' = d1 \/ d' = tl d1 ->
  forall x, In x d -> (forall y, In y d' -> sk y <> sk x) -> forall y', In y' d' -> ss x < ss y'.
Proof.
  intros (S1 & A1 & _) Hd x Hx Hgone y' Hy'. destruct (A1 x Hx) as (y & Hy & E & L).
  destruct Hd as [->| ->]; [exfalso; eapply Hgone; eauto|].
  destruct d1 as [|h t]; [contradiction|]. cbn in *.
  destruct Hy as [<-|Hy]; [|exfalso; eapply Hgone; eauto].
  inversion S1 as [|a b Hs Hf]; subst. rewrite Forall_forall in Hf. specialize (Hf y' Hy'). unfold stamp_lt in Hf. lia.
Qed.

Definition touch_or_evict (k : key) (ck : nat) (d d' : list slot) : Prop :=
  exists d1, touched k ck d d1 /\ (d' = d1 \/ d' = tl d1).

Lemma body_dict cf s c k l :
  dict (fst (body cf s c k l)) = dict s \/ dict (fst (body cf s c k l)) = tl (dict s) \/
  dict (fst (body cf s c k l)) = dmove k (clk s) (dict s).
Proof.
  unfold body. destruct (dfind k (dict s)) as [x|].
  - destruct (se x) as [l'|v e]; cbv zeta.
    + destruct (full cf _); sm; [|now left]. unfold evict. sm. destruct (dict s) as [|x0 r] eqn:E; sm; auto.
    + right. right. rewrite release_eq. cbn [finish fst]. sm. reflexivity.
  - left. rewrite release_eq. cbn [finish fst]. sm. reflexivity.
Qed.

Lemma body_ret_dict cf s c k l v :
  snd (body cf s c k l) = RRet v -> dict (fst (body cf s c k l)) = dmove k (clk s) (dict s).
Proof.
  unfold body. destruct (dfind k (dict s)) as [x|].
  - destruct (se x) as [l'|v0 e]; cbv zeta; [discriminate|].
    intros _. rewrite release_eq. cbn [finish fst]. sm. reflexivity.
  - rewrite release_eq. destruct (snd (Lock.step _ _)); discriminate.
Qed.

Lemma acquire_dict cf s c k l :
  dict (fst (acquire cf s c k l)) = dict s \/ dict (fst (acquire cf s c k l)) = tl (dict s) \/
  dict (fst (acquire cf s c k l)) = dmove k (clk s) (dict s).
Proof.
  unfold acquire. rewrite lock_do_eq. destruct (snd (Lock.step _ _)); cbn [fst]; sm; auto.
  match goal with |- context [body cf ?s1 c k l] => exact (body_dict cf s1 c k l) end.
Qed.

Lemma after_uses cf s2 k ck d d' :
  Inv cf s2 -> touched k ck d (dict s2) -> ck <= clk s2 ->
  d' = dict s2 \/ d' = tl (dict s2) \/ d' = dmove k (clk s2) (dict s2) ->
  touch_or_evict k ck d d'.
Proof.
  intros I2 HT Hc [->|[->| ->]].
  - exists (dict s2). auto.
  - exists (dict s2). auto.
  - exists (dmove k (clk s2) (dict s2)). split; [|now left].
    eapply touched_trans; [exact HT|]. apply touched_dmove; [apply (I_sorted _ _ I2)|apply (I_stamp _ _ I2)|exact Hc].
Qed.

Lemma step_uses cf s o :
  Inv cf s -> o <> Clear ->
  exists k, (call_key cf s o = Some k \/ dict (fst (step cf s o)) = dict s) /\
            touch_or_evict k (clk s) (dict s) (dict (fst (step cf s o))).
Proof.
  intros I Hne.
  assert (Hsame : forall d', d' = dict s -> exists k, (call_key cf s o = Some k \/ d' = dict s) /\
                                                  touch_or_evict k (clk s) (dict s) d').
  { intros d' ->. exists 0. split; [now right|]. exists (dict s). split; [apply touched_refl, (I_sorted _ _ I)|now left]. }
  destruct o as [c a|c v0|c e|c|c| |]; try contradiction.
  - (* Call *)
    unfold step.
    destruct (Nat.ltb c (ncall cf)); cbn [negb fst]; [|now apply Hsame].
    destruct (is_cidle (phase s c)); cbn [negb fst]; [|now apply Hsame].
    destruct (is_zero_max cf); [now apply Hsame|].
    exists (key_of cf a). split; [left; reflexivity|]. set (k := key_of cf a).
    destruct (dfind k (dict s)) as [x|] eqn:Hfind.
    + destruct (se x) as [l|v1 exp] eqn:Hse.
      * apply (after_uses cf s k (clk s) (dict s) _ I); [apply touched_refl, (I_sorted _ _ I)|lia|apply acquire_dict].
      * destruct (expired exp (now s)); cbv zeta.
        -- set (s4 := bump_clk _).
           assert (I4 : Inv cf s4)
             by exact (inv_touch cf _ k (hits s) (misses s) (inv_expire cf s k x v1 exp I Hfind Hse)).
           apply (after_uses cf s4 k (clk s) (dict s) _ I4); [| unfold s4; sm; lia | apply acquire_dict].
           unfold s4. sm. eapply touched_trans; [apply touched_dset_in, (I_sorted _ _ I)|].
           apply touched_dmove; [apply sorted_dset_in, (I_sorted _ _ I)| |lia].
           intros y Hy. apply in_dset_in in Hy. destruct Hy as [Hy|(z & Hz & _ & ->)]; [apply (I_stamp _ _ I), Hy|].
           cbn. apply (I_stamp _ _ I), Hz.
        -- exists (dmove k (clk s) (dict s)). split.
           ++ apply touched_dmove; [apply (I_sorted _ _ I)|apply (I_stamp _ _ I)|lia].
           ++ left. destruct (ackpt cf); reflexivity.
    + cbv zeta. set (s2 := bump_clk _).
      assert (I2 : Inv cf s2) by exact (inv_install cf s k I Hfind).
      apply (after_uses cf s2 k (clk s) (dict s) _ I2); [| unfold s2; sm; lia | apply acquire_dict].
      unfold s2. sm. apply touched_app; [apply (I_sorted _ _ I)|apply (I_stamp _ _ I)|lia].
  - apply Hsame. unfold step. destruct (phase s c) as [|k l t0|k l [w|] [|]|k v1 b|k [w|] [|]]; reflexivity.
  - apply Hsame. unfold step. destruct (phase s c) as [|k l t0|k l [w|] [|]|k v1 b|k [w|] [|]]; reflexivity.
  - apply Hsame. unfold step. destruct (phase s c) as [|k l t0|k l w b|k v1 b|k w b]; try reflexivity.
    rewrite lock_do_eq. reflexivity.
  - (* Resume *)
    unfold step.
    destruct (phase s c) as [|k l t0|k l w b|k v1 b|k w b] eqn:Hp; try (now apply Hsame).
    + rewrite lock_do_eq.
      destruct (snd (Lock.step (locks s l) (Lock.Resume c))) eqn:Er; cbn [fst]; sm; try (now apply Hsame).
      exists k. split; [left; cbn [call_key]; now rewrite Hp|].
      set (s1 := set_lock s l _).
      assert (I1 : Inv cf s1).
      { assert (E : s1 = fst (step cf s (Resume c)) \/ True) by now right.
        destruct (Lock.phase_of (locks s l) c) eqn:Hlp.
        - exfalso. assert (E' : Lock.step (locks s l) (Lock.Resume c) = (locks s l, Lock.RRejected))
            by (cbn [Lock.step]; now rewrite Hlp). rewrite E' in Er. discriminate.
        - destruct (resume_cases (locks s l) c (L_inv _ _ _ _ _ (I_lp _ _ I) l) ltac:(congruence))
            as [[E1 Hh]|[[E1 _]|[E1 _]]]; rewrite Er in E1; try discriminate.
          apply (inv_lock_only cf s c k l t0 (Lock.Resume c) I Hp eq_refl). right. exact Hh.
        - destruct (resume_cases (locks s l) c (L_inv _ _ _ _ _ (I_lp _ _ I) l) ltac:(congruence))
            as [[E1 Hh]|[[E1 _]|[E1 _]]]; rewrite Er in E1; try discriminate.
          apply (inv_lock_only cf s c k l t0 (Lock.Resume c) I Hp eq_refl). right. exact Hh. }
      apply (after_uses cf s1 k (clk s) (dict s) _ I1); [apply touched_refl, (I_sorted _ _ I)|unfold s1; sm; lia|].
      apply (body_dict cf s1 c k l).
    + destruct b.
      * apply Hsame. rewrite release_eq. reflexivity.
      * destruct w as [[v2|e]|]; [| |now apply Hsame].
        -- exists k. split; [left; cbn [call_key]; now rewrite Hp|]. cbv zeta. rewrite release_eq. cbn [finish fst]. sm.
           exists (dstore k (EVal v2 (new_exp cf (now s))) (clk s) (dict s)). split; [|now left].
           apply touched_dstore; [apply (I_sorted _ _ I)|apply (I_stamp _ _ I)|lia].
        -- apply Hsame. rewrite release_eq. reflexivity.
    + apply Hsame. destruct b; [reflexivity|]. destruct w as [[v2|e]|]; reflexivity.
  - apply Hsame. reflexivity.
Qed.

(* LRU eviction at full strength (ttl included): an entry whose key disappears from the dict in a step other than
   cache_clear() was last used (installed, hit, reused after a wait, or recomputed after expiry) strictly before
   every entry that remains *)
Theorem lru_evicts_oldest_use cf ops o x :
  o <> Clear -> In x (dict (run cf ops)) ->
  (forall y, In y (dict (fst (step cf (run cf ops) o))) -> sk y <> sk x) ->
  forall y', In y' (dict (fst (step cf (run cf ops) o))) -> ss x < ss y'.
Proof.
  intros Hne Hx Hgone. destruct (step_uses cf (run cf ops) o (reachable_inv cf ops) Hne) as (k & _ & d1 & HT & Hd).
  eapply touched_evict; eauto.
Qed.

(* stamps change only by a use: after a step every entry either carries the stamp it had, or belongs to the key
   of the call that acted in this step and carries a stamp newer than everything before *)
Theorem lru_stamp_is_last_use cf ops o y' :
  o <> Clear -> In y' (dict (fst (step cf (run cf ops) o))) ->
  (exists y, In y (dict (run cf ops)) /\ sk y = sk y' /\ ss y = ss y') \/
  (call_key cf (run cf ops) o = Some (sk y') /\ clk (run cf ops) <= ss y').
Proof.
  intros Hne Hy. destruct (step_uses cf (run cf ops) o (reachable_inv cf ops) Hne) as (k & Hk & d1 & (_ & _ & HB) & Hd).
  destruct Hk as [Hk|Hk]; [|left; exists y'; rewrite <- Hk; auto].
  assert (Hin : In y' d1).
  { destruct Hd as [E|E]; rewrite E in Hy; [exact Hy|]. destruct d1; [contradiction|now right]. }
  destruct (HB y' Hin) as [H|[E L]]; [left; exact H|right]. split; [congruence|exact L].
Qed.

(* ... and every use does refresh the stamp: after a call that installs, hits or recomputes after expiry, and
   after a waiter's reuse of a flight's result, the key (while it is in the dict) carries a stamp >= the clock,
   i.e. newer than every stamp of the state before (lru_order) *)
Definition fresh_k (k : key) (ck : nat) (d : list slot) : Prop := forall y, In y d -> sk y = k -> ck <= ss y.

Lemma fresh_dmove k ck st d : ck <= st -> fresh_k k ck (dmove k st d).
Proof.
  intros Hc y Hy Hk. unfold dmove in Hy. destruct (dfind k d) as [x|] eqn:E.
  - apply in_app_or in Hy. destruct Hy as [Hy|[<-|[]]]; [|cbn; exact Hc].
    apply in_dremove in Hy. tauto.
  - exfalso. apply (dfind_none_keys _ _ E). rewrite <- Hk. apply in_keys, Hy.
Qed.

Lemma fresh_after cf s2 c k l ck :
  fresh_k k ck (dict s2) -> ck <= clk s2 -> fresh_k k ck (dict (fst (acquire cf s2 c k l))).
Proof.
  intros HF Hc. destruct (acquire_dict cf s2 c k l) as [E|[E|E]]; rewrite E.
  - exact HF.
  - intros y Hy. apply HF. destruct (dict s2); [contradiction|now right].
  - now apply fresh_dmove.
Qed.

Theorem lru_use_refreshes cf ops o k :
  ((exists c a, o = Call c a /\ key_of cf a = k /\ snd (step cf (run cf ops) o) <> RRejected /\
      is_zero_max cf = false /\ (forall l, dget k (dict (run cf ops)) <> Some (EPlace l))) \/
   (exists c l t0 v, o = Resume c /\ phase (run cf ops) c = CLockWait k l t0 /\
      snd (step cf (run cf ops) o) = RRet v)) ->
  forall y, In y (dict (fst (step cf (run cf ops) o))) -> sk y = k -> clk (run cf ops) <= ss y.
Proof.
  pose proof (reachable_inv cf ops) as I. set (s := run cf ops) in *.
  intros [(c & a & -> & Hk & Hacc & Hz & Hnp)|(c & l & t0 & v & -> & Hp & Hr)].
  - revert Hacc. unfold step.
    destruct (Nat.ltb c (ncall cf)); cbn [negb]; [|cbn; congruence].
    destruct (is_cidle (phase s c)); cbn [negb]; [|cbn; congruence].
    rewrite Hz, Hk. intros _.
    destruct (dfind k (dict s)) as [x|] eqn:Hfind.
    + destruct (se x) as [l|v1 exp] eqn:Hse.
      * exfalso. apply (Hnp l). rewrite (dget_find _ _ _ Hfind), Hse. reflexivity.
      * destruct (expired exp (now s)); cbv zeta.
        -- apply fresh_after; sm; [apply fresh_dmove|]; lia.
        -- destruct (ackpt cf); cbn [fst]; sm; apply fresh_dmove; lia.
    + cbv zeta. apply fresh_after; sm; [|lia].
      intros y Hy Hky. apply in_app_or in Hy. destruct Hy as [Hy|[<-|[]]]; [|cbn; lia].
      exfalso. apply (dfind_none_keys _ _ Hfind). rewrite <- Hky. apply in_keys, Hy.
  - revert Hr. unfold step. rewrite Hp, lock_do_eq.
    destruct (snd (Lock.step _ _)); cbn [fst snd]; try discriminate.
    match goal with |- context [body cf ?s1 c k l] => intros Hr; rewrite (body_ret_dict cf s1 c k l v Hr) end.
    sm. apply fresh_dmove. lia.
Qed.

(* ------------------------------------------------------------------------------------------------ *)
(* 6. an expired entry is recomputed, not served                                                      *)
(* ------------------------------------------------------------------------------------------------ *)
(* lookup path: a call that is answered from the cache at once (returned, or in the hit checkpoint) found an
   entry that had not expired *)
Theorem lru_expired_recomputed cf s c a v :
  snd (step cf s (Call c a)) <> RRejected ->
  (snd (step cf s (Call c a)) = RRet v \/
   exists b, phase (fst (step cf s (Call c a))) c = CHitCk (key_of cf a) v b) ->
  exists x exp, dfind (key_of cf a) (dict s) = Some x /\ se x = EVal v exp /\ expired exp (now s) = false.
Proof.
  unfold step.
  destruct (Nat.ltb c (ncall cf)); cbn [negb]; [|cbn; congruence].
  destruct (phase s c) eqn:Hp; cbn [is_cidle negb]; try (cbn; congruence).
  set (k := key_of cf a).
  destruct (is_zero_max cf).
  { cbn [fst snd]. intros _ [H|[b H]]; [discriminate|]. sm. rewrite upd_same in H. discriminate. }
  assert (Hacq : forall s0 l, phase s0 c = CIdle ->
            (exists x l', dfind k (dict s0) = Some x /\ se x = EPlace l') ->
            ~ (snd (acquire cf s0 c k l) = RRet v \/ exists b, phase (fst (acquire cf s0 c k l)) c = CHitCk k v b)).
  { intros s0 l Hp0 (x & l' & Hx & Hse) [H|[b H]].
    - destruct (acquire_shape cf s0 c k l) as [_ H2]. cbv zeta in H2. rewrite H in H2.
      destruct H2 as [H2|[H2|[[H2 _]|(y & v2 & e2 & H2 & H3 & H4)]]]; try discriminate. congruence.
    - destruct (acquire_phase cf s0 c k l) as [H2|[H2|H2]]; congruence. }
  destruct (dfind k (dict s)) as [x|] eqn:Hfind.
  - destruct (se x) as [l|v1 exp] eqn:Hse.
    + intros _ H. exfalso. apply (Hacq s l Hp); eauto.
    + destruct (expired exp (now s)) eqn:Hexp.
      * cbv zeta. intros _ H. exfalso. revert H. apply Hacq; [exact Hp|]. sm.
        pose proof (dget_find _ _ _ Hfind) as Hg.
        pose proof (dget_dmove k k (clk s) (dset_in k (EPlace (nlock s)) (dict s))) as Hg'.
        rewrite dget_dset_in_same, Hg in Hg'.
        destruct (dget_some _ _ _ Hg') as (y & Hy & Hy' & _). eauto.
      * cbv zeta. intros _ H. exists x, exp. refine (conj eq_refl (conj _ Hexp)).
        destruct (ackpt cf); cbn [fst snd] in H; sm.
        -- destruct H as [H|[b H]]; [discriminate|]. rewrite upd_same in H. congruence.
        -- destruct H as [H|[b H]]; [congruence|]. rewrite Hp in H. discriminate.
  - cbv zeta. intros _ H. exfalso. revert H. apply Hacq; [exact Hp|]. sm.
    pose proof (dget_app k (dict s) k (EPlace (nlock s)) (clk s)) as Hg.
    rewrite (dget_none_find _ _ Hfind), Nat.eqb_refl in Hg.
    destruct (dget_some _ _ _ Hg) as (y & Hy & Hy' & _). eauto.
Qed.

(* re-read path (the caller waited for the entry's lock): the value it is served was stored after its call began,
   i.e. it expires no earlier than ttl after the call *)
Theorem lru_reread_serves_fresh cf ops c k l t0 v :
  phase (run cf ops) c = CLockWait k l t0 ->
  snd (step cf (run cf ops) (Resume c)) = RRet v ->
  exists exp, dget k (dict (run cf ops)) = Some (EVal v exp) /\
              forall e dl, exp = Some e -> ttl cf = Some dl -> t0 + dl <= e.
Proof.
  intros Hp. pose proof (reachable_inv cf ops) as I. set (s := run cf ops) in *.
  unfold step. rewrite Hp, lock_do_eq.
  destruct (snd (Lock.step _ _)); cbn [fst snd]; try discriminate.
  match goal with |- context [body cf ?s1 c k l] => destruct (body_shape cf s1 c k l) as [_ H] end.
  cbv zeta in H. sm. intros E. rewrite E in H.
  destruct H as [H|[[H _]|[[H _]|(y & v2 & e2 & H & H1 & H2 & _)]]]; try discriminate.
  injection H as <-. exists e2. split; [rewrite (dget_find _ _ _ H1), H2; reflexivity|].
  intros e dl -> Ht. apply (I_fresh _ _ I c k l t0 v e dl Hp); [|exact Ht].
  rewrite (dget_find _ _ _ H1), H2. reflexivity.
Qed.

(* ------------------------------------------------------------------------------------------------ *)
(* Refutations: without the hypotheses the clauses fail (findings F3 and F8), by concrete histories   *)
(* ------------------------------------------------------------------------------------------------ *)
Definition cfg_m1 := mkcfg (Some 1) None false false 3.       (* maxsize = 1, three callers *)
Definition cfg_m2 := mkcfg (Some 2) None false false 3.
Definition cfg_ttl0 := mkcfg None (Some 0) false false 3.     (* unbounded, ttl = 0 *)
Definition cfg_m1_ck := mkcfg (Some 1) None true false 3.     (* maxsize = 1, always_checkpoint *)

(* F3(a): caller 2's miss on key 1 evicts the in-flight placeholder of key 0, the computation of key 0 fails,
   the waiter re-reads the entry: KeyError *)
Definition w_f3_keyerror := [Call 0 0; Call 1 0; Call 2 2; WrappedRaises 0 0; Resume 0].
Theorem lru_refuted_keyerror :
  exists cf ops o, evicts_inflight cf (ops ++ [o]) = true /\ snd (step cf (run cf ops) o) = RKeyError.
Proof. exists cfg_m1, w_f3_keyerror, (Resume 1). vm_compute. auto. Qed.

(* F3(b): the evicted in-flight computation and the evicting one both complete: two results with maxsize = 1 *)
Definition w_f3_exceeds :=
  [Call 0 0; Call 2 2; WrappedReturns 0 1; Resume 0; WrappedReturns 2 2; Resume 2].
Theorem lru_refuted_exceeds :
  exists cf ops m, maxsize cf = Some m /\
    m < length (filter (fun x => negb (is_place (se x))) (dict (run cf ops))).
Proof. exists cfg_m1, w_f3_exceeds, 1. vm_compute. auto. Qed.

(* F3(c): a failed computation leaks currsize; the next caller evicts its own placeholder and a third caller
   installs a new one: two executions for key 0 at the same time *)
Definition w_f3_double_flight := [Call 0 0; WrappedRaises 0 0; Resume 0; Call 1 0; Call 2 0].
Theorem lru_refuted_double_flight :
  exists cf ops c1 c2 k l1 l2, c1 <> c2 /\
    phase (run cf ops) c1 = CInWrapped k l1 None false /\ phase (run cf ops) c2 = CInWrapped k l2 None false.
Proof. exists cfg_m1, w_f3_double_flight, 1, 2, 0, 0, 1. vm_compute. repeat split. discriminate. Qed.

(* F3(d): a caller cancelled before its computation started leaves a placeholder that was never counted; a
   later miss evicts that (idle) placeholder instead of a value: two results with maxsize = 1 *)
Definition w_f3_exceeds_leftover :=
  [Call 0 0; CancelCaller 0; Resume 0; Call 1 2; Resume 1; WrappedReturns 1 1; Resume 1;
   Call 2 4; Resume 2; WrappedReturns 2 2; Resume 2].
Theorem lru_refuted_exceeds_leftover :
  exists cf ops m, maxsize cf = Some m /\
    m < length (filter (fun x => negb (is_place (se x))) (dict (run cf ops))).
Proof. exists cfg_m1_ck, w_f3_exceeds_leftover, 1. vm_compute. auto. Qed.

(* F8(a): no placeholder is ever evicted, but the completed value of key 0 is evicted while waiter 1 has been
   handed the entry's lock: KeyError *)
Definition w_f8_keyerror := [Call 0 0; Call 1 0; WrappedReturns 0 7; Resume 0; Call 2 2].
Theorem lru_refuted_keyerror_waited :
  exists cf ops o, evicts_inflight cf (ops ++ [o]) = false /\ evicts_waited cf (ops ++ [o]) = true /\
    snd (step cf (run cf ops) o) = RKeyError.
Proof. exists cfg_m1, w_f8_keyerror, (Resume 1). vm_compute. auto. Qed.

(* F8(b): ... and caller 0 installs a new placeholder (new lock) before the waiter runs: two executions *)
Definition w_f8_double_flight :=
  [Call 0 0; Call 1 0; WrappedReturns 0 1; Resume 0; Call 2 2; WrappedReturns 2 2; Resume 2;
   Call 2 4; WrappedReturns 2 3; Resume 2; Call 0 0; Resume 1].
Theorem lru_refuted_double_flight_waited :
  exists cf ops c1 c2 k l1 l2, evicts_inflight cf ops = false /\ evicts_waited cf ops = true /\ c1 <> c2 /\
    phase (run cf ops) c1 = CInWrapped k l1 None false /\ phase (run cf ops) c2 = CInWrapped k l2 None false.
Proof. exists cfg_m2, w_f8_double_flight, 0, 1, 0, 3, 0. vm_compute. repeat split. discriminate. Qed.

(* F8(c): the value expires between the hand-off and the waiter's resumption; a third caller replaces it by a
   placeholder with a new lock: two executions *)
Definition w_f8_ttl := [Call 0 0; Call 1 0; WrappedReturns 0 1; Resume 0; Call 2 0; Resume 1].
Theorem lru_refuted_double_flight_ttl :
  exists cf ops c1 c2 k l1 l2, maxsize cf = None /\ dict (run cf ops) <> [] /\
    evicts_inflight cf ops = false /\ evicts_waited cf ops = true /\ c1 <> c2 /\
    phase (run cf ops) c1 = CInWrapped k l1 None false /\ phase (run cf ops) c2 = CInWrapped k l2 None false.
Proof. exists cfg_ttl0, w_f8_ttl, 2, 1, 0, 1, 0. vm_compute. repeat split; discriminate. Qed.

(* ------------------------------------------------------------------------------------------------ *)
(* Non-vacuity: concrete reachable histories that satisfy the hypotheses of the positive theorems      *)
(* ------------------------------------------------------------------------------------------------ *)
(* contention on key 0 (caller 1 waits for caller 0's flight and reuses its result), a second key in flight,
   then a third key whose miss evicts the completed, least recently used entry of key 1 *)
Definition ex_ops :=
  [Call 0 0; Call 1 0; Call 2 2; WrappedReturns 0 5; Resume 0; Resume 1; WrappedReturns 2 6; Resume 2;
   Call 0 4; WrappedReturns 0 7; Resume 0].

Example ex_hypotheses_hold :
  no_inflight_eviction cfg_m2 ex_ops /\ no_waited_eviction cfg_m2 ex_ops /\
  (forall n, n <= length ex_ops -> evicts_inflight cfg_m2 (firstn n ex_ops) = false).
Proof.
  refine (conj eq_refl (conj eq_refl _)). intros n Hn.
  do 12 (destruct n as [|n]; [reflexivity|]). cbn in Hn. lia.
Qed.

Example ex_contended_state :
  let s := run cfg_m2 (firstn 3 ex_ops) in
  phase s 0 = CInWrapped 0 0 None false /\ phase s 1 = CLockWait 0 0 0 /\ phase s 2 = CInWrapped 1 1 None false /\
  Lock.owner (locks s 0) = Some 0 /\ length (Lock.waiters (locks s 0)) = 1.
Proof. vm_compute. auto 6. Qed.

Example ex_outputs :
  map (fun n => snd (step cfg_m2 (run cfg_m2 (firstn n ex_ops)) (nth n ex_ops Tick))) (seq 0 11) =
  [RBlocked; RBlocked; RBlocked; RNone; RRet 5; RRet 5; RNone; RRet 6; RBlocked; RNone; RRet 7].
Proof. vm_compute. reflexivity. Qed.

Example ex_reuse_hyp :
  let s := run cfg_m2 (firstn 5 ex_ops) in
  phase s 1 = CLockWait 0 0 0 /\ dget 0 (dict s) = Some (EVal 5 None) /\ snd (step cfg_m2 s (Resume 1)) = RRet 5.
Proof. vm_compute. auto. Qed.

Example ex_evicts_completed_lru :
  let s := run cfg_m2 (firstn 8 ex_ops) in
  map sk (dict s) = [1; 0] /\ map sk (dict (fst (step cfg_m2 s (Call 0 4)))) = [0; 2] /\
  currsize (run cfg_m2 ex_ops) = 2%Z /\ hits (run cfg_m2 ex_ops) = 1 /\ misses (run cfg_m2 ex_ops) = 3 /\
  map se (dict (run cfg_m2 ex_ops)) = [EVal 5 None; EVal 7 None].
Proof. vm_compute. auto 7. Qed.

(* ttl = 2: a hit before the expiry, recomputation after it *)
Definition cfg_ttl2 := mkcfg None (Some 2) false false 2.
Definition ex_ttl_ops :=
  [Call 0 0; WrappedReturns 0 5; Resume 0; Call 1 0; Tick; Tick; Call 1 0; WrappedReturns 1 6; Resume 1].

Example ex_ttl :
  map (fun n => snd (step cfg_ttl2 (run cfg_ttl2 (firstn n ex_ttl_ops)) (nth n ex_ttl_ops Tick))) (seq 0 9) =
  [RBlocked; RNone; RRet 5; RRet 5; RNone; RNone; RBlocked; RNone; RRet 6] /\
  no_inflight_eviction cfg_ttl2 ex_ttl_ops /\ no_waited_eviction cfg_ttl2 ex_ttl_ops /\
  map se (dict (run cfg_ttl2 ex_ttl_ops)) = [EVal 6 (Some 4)].
Proof. vm_compute. auto. Qed.

(* always_checkpoint: the hit suspends in the checkpoint *)
Definition cfg_ck := mkcfg (Some 2) None true false 2.
Example ex_hit_checkpoint :
  let s := run cfg_ck [Call 0 0; Resume 0; WrappedReturns 0 5; Resume 0] in
  snd (step cfg_ck s (Call 1 0)) = RBlocked /\ phase (fst (step cfg_ck s (Call 1 0))) 1 = CHitCk 0 5 false.
Proof. vm_compute. auto. Qed.

(* the wrapped function raises: the exception reaches exactly the caller that executed it *)
Example ex_raises :
  let s := run cfg_m2 [Call 0 0; Call 1 0; WrappedRaises 0 1] in
  snd (step cfg_m2 s (Resume 0)) = RExc 1 /\
  snd (step cfg_m2 (fst (step cfg_m2 s (Resume 0))) (Resume 1)) = RBlocked.
Proof. vm_compute. auto. Qed.

(* a waiter with a ttl: it called at t0 = 0, the value is stored at time 1 and expires at 3 >= t0 + ttl *)
Example ex_reread_ttl :
  let s := run cfg_ttl2 [Call 0 0; Call 1 0; Tick; WrappedReturns 0 5; Resume 0] in
  phase s 1 = CLockWait 0 0 0 /\ snd (step cfg_ttl2 s (Resume 1)) = RRet 5 /\
  dget 0 (dict s) = Some (EVal 5 (Some 3)).
Proof. vm_compute. auto. Qed.

(* ------------------------------------------------------------------------------------------------ *)
(* F15 (fixed in /repo by 21d8dda): the behaviour before the fix, as a variant of `step`.  The expired entry is
   replaced IN PLACE (position kept) although the recomputation is a use (the ghost stamp is refreshed all the
   same); everything else is `step`.                                                                   *)
(* ------------------------------------------------------------------------------------------------ *)
Fixpoint dset_in_stamp (k : key) (e : entry) (st : nat) (d : list slot) : list slot :=
  match d with
  | [] => []
  | x :: r => if Nat.eqb (sk x) k then mkslot k e st :: r else x :: dset_in_stamp k e st r
  end.

Definition old_expiry_step (cf : cfg) (s : st) (o : op) : st * res :=
  match o with
  | Call c a =>
      let k := key_of cf a in
      if andb (andb (Nat.ltb c (ncall cf)) (is_cidle (phase s c))) (negb (is_zero_max cf)) then
        match dfind k (dict s) with
        | Some x =>
            match se x with
            | EVal v exp =>
                if expired exp (now s) then
                  let l := nlock s in
                  let s1 := set_flags s (f_inflight s) (orb (f_waited s) (waited cf s k)) in
                  let s2 := set_counts s1 (hits s1) (misses s1) (currsize s1 - 1)%Z in
                  let s3 := new_lock cf s2 k in
                  let s4 := bump_clk (set_dict s3 (dset_in_stamp k (EPlace l) (clk s3) (dict s3))) in
                  acquire cf s4 c k l
                else step cf s o
            | EPlace _ => step cf s o
            end
        | None => step cf s o
        end
      else step cf s o
  | _ => step cf s o
  end.

Definition run_old (cf : cfg) (ops : list op) : st := final (old_expiry_step cf) init ops.

(* maxsize = 2, ttl = 2: key 1 at time 0, key 2 at time 1, key 1 again at time 2 (expired: recomputed), then key 3 *)
Definition cfg_f15 := mkcfg (Some 2) (Some 2) false false 1.
Definition w_f15 :=
  [Call 0 2; WrappedReturns 0 1; Resume 0; Tick; Call 0 4; WrappedReturns 0 2; Resume 0; Tick;
   Call 0 2; WrappedReturns 0 3; Resume 0].

(* under the OLD behaviour the statement of lru_evicts_oldest_use fails: the miss on key 3 evicts key 1, which was
   recomputed (used) after key 2 -- no placeholder and no waited entry is evicted anywhere in this history *)
Theorem lru_refuted_old_expiry_order :
  exists cf ops o x y',
    f_inflight (run_old cf (ops ++ [o])) = false /\ f_waited (run_old cf (ops ++ [o])) = false /\
    o <> Clear /\ In x (dict (run_old cf ops)) /\
    (forall y, In y (dict (fst (old_expiry_step cf (run_old cf ops) o))) -> sk y <> sk x) /\
    In y' (dict (fst (old_expiry_step cf (run_old cf ops) o))) /\ ss y' < ss x.
Proof.
  exists cfg_f15, w_f15, (Call 0 6), (mkslot 1 (EVal 3 (Some 4)) 4), (mkslot 2 (EVal 2 (Some 3)) 2).
  vm_compute. refine (conj eq_refl (conj eq_refl (conj _ (conj _ (conj _ (conj _ _)))))).
  - discriminate.
  - now left.
  - intros y [<-|[<-|[]]]; discriminate.
  - now left.
  - lia.
Qed.

(* the same history on the model of the fixed code: the expired key is moved to the recent end when it is
   recomputed, and the miss on key 3 evicts key 2 *)
Example ex_f15_fixed :
  no_inflight_eviction cfg_f15 (w_f15 ++ [Call 0 6]) /\ no_waited_eviction cfg_f15 (w_f15 ++ [Call 0 6]) /\
  map sk (dict (run cfg_f15 (firstn 8 w_f15))) = [1; 2] /\
  map sk (dict (run cfg_f15 (firstn 9 w_f15))) = [2; 1] /\
  map (fun x => (sk x, ss x)) (dict (run cfg_f15 w_f15)) = [(2, 2); (1, 4)] /\
  map sk (dict (run cfg_f15 (w_f15 ++ [Call 0 6]))) = [1; 3].
Proof. vm_compute. auto 7. Qed.
