(* C20 clauses as theorems over every op sequence of the Lru machine.  The refutation witnesses for the known
   findings and the non-vacuity examples are in LruWitness.v. *)
From AV Require Import Base Lru LruLockFacts LruDict LruProofs LruInv LruCount LruStep.
From AV Require Lock LockProofs.
From Coq Require Import Sorting.Sorted ZifyBool.

Lemma run_snoc cf ops o : run cf (ops ++ [o]) = fst (step cf (run cf ops) o).
Proof. unfold run. rewrite final_app. reflexivity. Qed.

(* ------------------------------------------------------------------------------------------------ *)
(* the ghost stamp of an entry is the logical time of its last USE: installation of the placeholder, lookup hit,
   reuse after waiting for the flight, recomputation after expiry.  `touched k ck d d1`: d1 is d after the uses
   of one step: nothing is lost, only entries of key k may carry a new stamp (>= ck), order by stamp is kept. *)
(* ------------------------------------------------------------------------------------------------ *)
Definition touched (k : key) (ck : nat) (d d1 : list slot) : Prop :=
  StronglySorted stamp_lt d1 /\
  (forall x, In x d -> exists y, In y d1 /\ sk y = sk x /\ ss x <= ss y) /\
  (forall y, In y d1 -> (exists x, In x d /\ sk x = sk y /\ ss x = ss y) \/ (sk y = k /\ ck <= ss y)).

Lemma touched_refl k ck d : StronglySorted stamp_lt d -> touched k ck d d.
Proof.
  intros Hs. refine (conj Hs (conj _ _)).
  - intros x Hx. exists x. auto.
  - intros y Hy. left. exists y. auto.
Qed.

Lemma touched_trans k ck d d1 d2 : touched k ck d d1 -> touched k ck d1 d2 -> touched k ck d d2.
Proof.
  intros (S1 & A1 & B1) (S2 & A2 & B2). refine (conj S2 (conj _ _)).
  - intros x Hx. destruct (A1 x Hx) as (y & Hy & E1 & L1). destruct (A2 y Hy) as (z & Hz & E2 & L2).
    exists z. refine (conj Hz (conj _ _)); [congruence|lia].
  - intros z Hz. destruct (B2 z Hz) as [(y & Hy & E1 & E2)|H]; [|right; exact H].
    destruct (B1 y Hy) as [(x & Hx & E3 & E4)|[E3 E4]].
    + left. exists x. refine (conj Hx (conj _ _)); congruence.
    + right. split; [congruence|lia].
Qed.

Lemma touched_app k ck d e st :
  StronglySorted stamp_lt d -> (forall y, In y d -> ss y < st) -> ck <= st ->
  touched k ck d (d ++ [mkslot k e st]).
Proof.
  intros Hs Hb Hc. refine (conj _ (conj _ _)).
  - apply sorted_app_last; [exact Hs|]. intros y Hy. cbn. now apply Hb.
  - intros x Hx. exists x. split; [apply in_or_app; now left|auto].
  - intros y Hy. apply in_app_or in Hy. destruct Hy as [Hy|[<-|[]]]; [left; exists y; auto|right; cbn; auto].
Qed.

Lemma in_dset_in_conv x k e d : In x d -> exists y, In y (dset_in k e d) /\ sk y = sk x /\ ss y = ss x.
Proof.
  induction d as [|z r IH]; cbn [dset_in]; [intros []|].
  destruct (Nat.eqb_spec (sk z) k) as [E|E]; intros [<-|H].
  - eexists. split; [left; reflexivity|]. cbn. auto.
  - exists x. split; [right; exact H|auto].
  - exists z. split; [left; reflexivity|auto].
  - destruct (IH H) as (y & Hy & E1 & E2). exists y. split; [right; exact Hy|auto].
Qed.

Lemma touched_dset_in k k0 ck e d : StronglySorted stamp_lt d -> touched k0 ck d (dset_in k e d).
Proof.
  intros Hs. refine (conj (sorted_dset_in k e d Hs) (conj _ _)).
  - intros x Hx. destruct (in_dset_in_conv x k e d Hx) as (y & Hy & E1 & E2). exists y. split; [exact Hy|]. split; [exact E1|lia].
  - intros y Hy. left. apply in_dset_in in Hy. destruct Hy as [Hy|(z & Hz & Hk & ->)]; [exists y; auto|].
    exists z. cbn. auto.
Qed.

Lemma touched_dmark k k0 ck d : StronglySorted stamp_lt d -> touched k0 ck d (dmark k d).
Proof.
  intros Hs. unfold dmark. destruct (dfind k d) as [x|]; [|now apply touched_refl].
  destruct (se x); [now apply touched_dset_in|now apply touched_refl].
Qed.

Lemma touched_dmove k ck st d :
  StronglySorted stamp_lt d -> (forall y, In y d -> ss y < st) -> ck <= st -> touched k ck d (dmove k st d).
Proof.
  intros Hs Hb Hc. refine (conj (sorted_dmove k st d Hs Hb) (conj _ _)).
  - intros x Hx. unfold dmove. destruct (dfind k d) as [x0|] eqn:E; [|exists x; auto].
    destruct (Nat.eq_dec (sk x) k) as [Ek|Nk].
    + eexists. split; [apply in_or_app; right; left; reflexivity|]. cbn. split; [auto|]. specialize (Hb x Hx). lia.
    + exists x. split; [|auto]. apply in_or_app. left. unfold dremove. apply filter_In. split; [exact Hx|].
      destruct (Nat.eqb_spec (sk x) k); [contradiction|reflexivity].
  - intros y Hy. apply in_dmove in Hy. destruct Hy as [Hy|(z & Hz & Hk & ->)]; [left; exists y; auto|].
    right. cbn. auto.
Qed.

Lemma touched_dstore k ck e st d :
  StronglySorted stamp_lt d -> (forall y, In y d -> ss y < st) -> ck <= st -> touched k ck d (dstore k e st d).
Proof.
  intros Hs Hb Hc. unfold dstore. destruct (dfind k d); [now apply touched_dset_in|now apply touched_app].
Qed.

Lemma in_dmark_stamp x k d : In x (dmark k d) -> exists y, In y d /\ sk y = sk x /\ ss y = ss x.
Proof.
  unfold dmark. destruct (dfind k d) as [z|]; [|intros H; exists x; auto].
  destruct (se z); [|intros H; exists x; auto].
  intros H. apply in_dset_in in H. destruct H as [H|(y & Hy & Hk & ->)]; [exists x; auto|].
  exists y. cbn. auto.
Qed.

Lemma in_keys_ex key d : In key (keys d) -> exists y, In y d /\ sk y = key.
Proof. unfold keys. intros H. apply in_map_iff in H. destruct H as (y & E & Hy). eauto. Qed.

(* what is missing after the optional eviction of the head (and the ghost mark) was used before everything that
   remains *)
Lemma touched_evict k ck d d1 d' k0 :
  touched k ck d d1 -> d' = d1 \/ d' = dmark k0 d1 \/ d' = dmark k0 (tl d1) ->
  forall x, In x d -> (forall y, In y d' -> sk y <> sk x) -> forall y', In y' d' -> ss x < ss y'.
Proof.
  intros (S1 & A1 & _) Hd x Hx Hgone y' Hy'. destruct (A1 x Hx) as (y & Hy & E & L).
  assert (Hpres : forall t, In y t -> In (sk x) (keys (dmark k0 t))).
  { intros t Ht. rewrite keys_dmark, <- E. apply in_keys, Ht. }
  destruct Hd as [->|[->| ->]].
  - exfalso. eapply Hgone; eauto.
  - exfalso. destruct (in_keys_ex _ _ (Hpres d1 Hy)) as (z & Hz & Ez). eapply Hgone; eauto.
  - destruct d1 as [|h t]; [contradiction|]. cbn [tl] in *.
    destruct Hy as [<-|Hy]; [|exfalso; destruct (in_keys_ex _ _ (Hpres t Hy)) as (z & Hz & Ez); eapply Hgone; eauto].
    inversion S1 as [|a b Hs Hf]; subst. rewrite Forall_forall in Hf.
    destruct (in_dmark_stamp y' k0 t Hy') as (y2 & Hy2 & _ & Es). specialize (Hf y2 Hy2). unfold stamp_lt in Hf. lia.
Qed.

Definition touch_or_evict (k : key) (ck : nat) (d d' : list slot) : Prop :=
  exists d1 k0, touched k ck d d1 /\ (d' = d1 \/ d' = dmark k0 d1 \/ d' = dmark k0 (tl d1)).

Lemma keys_dmove_in k st d key : In key (keys d) -> In key (keys (dmove k st d)).
Proof.
  unfold dmove. destruct (dfind k d) as [x|] eqn:E; [|auto]. intros H.
  unfold keys. rewrite map_app. apply in_or_app. cbn.
  destruct (Nat.eq_dec key k) as [->|N]; [right; now left|left].
  fold (keys (dremove k d)). rewrite keys_dremove. apply filter_In. split; [exact H|].
  destruct (Nat.eqb_spec key k); [contradiction|reflexivity].
Qed.

(* ------------------------------------------------------------------------------------------------ *)
(* what `body`, `acquire`, `acquire_x` and `enter` do                                                 *)
(* ------------------------------------------------------------------------------------------------ *)
Lemma body_facts cf s c k l g :
  let s' := fst (body cf s c k l g) in
  let r := snd (body cf s c k l g) in
  produced s' = produced s /\ cur s' = cur s /\ (forall g0, g0 <> g -> dicts s' g0 = dicts s g0) /\
  (dicts s' g = dicts s g \/ dicts s' g = dmark k (dicts s g) \/ dicts s' g = dmark k (tl (dicts s g)) \/
   dicts s' g = dmove k (clk s) (dicts s g)) /\
  (r = RLockErr \/
   (r = RKeyError /\ dfind k (dicts s g) = None) \/
   (r = RBlocked /\ (exists x l' b', dfind k (dicts s g) = Some x /\ se x = EPlace l' b') /\
      phase s' c = CInWrapped k l None false g) \/
   (exists x v e, r = RRet v /\ dfind k (dicts s g) = Some x /\ se x = EVal v e /\ phase s' c = CIdle /\
                  dicts s' g = dmove k (clk s) (dicts s g))) /\
  (phase s' c = CIdle \/ phase s' c = CInWrapped k l None false g) /\
  ((exists key, In key (keys (dicts s g)) /\ ~ In key (keys (dicts s' g))) ->
     full cf s = true /\ currsize s' = currsize s).
Proof.
  unfold body. destruct (dfind k (dicts s g)) as [x|] eqn:Hfind.
  - destruct (se x) as [l' b'|v e] eqn:Hse; cbv zeta.
    + assert (Efull : full cf (set_counts s (hits s) (S (misses s)) (currsize s)) = full cf s) by reflexivity.
      rewrite Efull. destruct (full cf s) eqn:Hfull; cbn [fst snd].
      * unfold evict. sm. destruct (dicts s g) as [|x0 r] eqn:Hdict; [discriminate|]. sm.
        rewrite !upd_same. refine (conj eq_refl (conj eq_refl (conj _ (conj _ (conj _ (conj _ _)))))).
        -- intros g0 N. now rewrite !upd_other.
        -- right. right. left. reflexivity.
        -- right. right. left. split; [reflexivity|]. split; [eauto|reflexivity].
        -- right. reflexivity.
        -- intros _. auto.
      * sm. rewrite !upd_same. refine (conj eq_refl (conj eq_refl (conj _ (conj _ (conj _ (conj _ _)))))).
        -- intros g0 N. now rewrite upd_other.
        -- right. left. reflexivity.
        -- right. right. left. split; [reflexivity|]. split; [eauto|reflexivity].
        -- right. reflexivity.
        -- intros (key & H1 & H2). exfalso. apply H2. now rewrite keys_dmark.
    + rewrite release_eq.
      assert (Hd : forall ok r0, dicts (fst (finish (set_lock (bump_clk (set_dict (set_counts s (S (hits s)) (misses s) (currsize s)) g
                 (dmove k (clk s) (dicts s g)))) l (fst (Lock.step (locks s l) (Lock.Release c)))) c ok r0)) g
                 = dmove k (clk s) (dicts s g)) by (intros; cbn [finish fst]; sm; apply upd_same).
      destruct (snd (Lock.step _ _)); cbn [finish fst snd]; sm; rewrite ?upd_same;
        (refine (conj eq_refl (conj eq_refl (conj _ (conj _ (conj _ (conj _ _)))))));
        try (intros g0 N; now rewrite upd_other); try (right; right; right; reflexivity);
        try (left; reflexivity);
        try (intros (key & H1 & H2); exfalso; apply H2; now apply keys_dmove_in); auto.
      right. right. right. exists x, v, e. auto.
  - rewrite release_eq. destruct (snd (Lock.step _ _)); cbn [finish fst snd]; sm; rewrite ?upd_same;
      (refine (conj eq_refl (conj eq_refl (conj _ (conj _ (conj _ (conj _ _)))))));
      try (intros g0 N; reflexivity); try (left; reflexivity);
      try (intros (key & H1 & H2); contradiction); auto.
Qed.

Lemma acquire_facts cf s c k l :
  let s' := fst (acquire cf s c k l) in
  let r := snd (acquire cf s c k l) in
  let g := cur s in
  produced s' = produced s /\ cur s' = cur s /\ (forall g0, g0 <> g -> dicts s' g0 = dicts s g0) /\
  (dicts s' g = dicts s g \/ dicts s' g = dmark k (dicts s g) \/ dicts s' g = dmark k (tl (dicts s g)) \/
   dicts s' g = dmove k (clk s) (dicts s g)) /\
  (r = RLockErr \/ r = RBlocked \/
   (r = RKeyError /\ dfind k (dicts s g) = None) \/
   (exists x v e, r = RRet v /\ dfind k (dicts s g) = Some x /\ se x = EVal v e)) /\
  (phase s' c = CIdle \/ phase s' c = CInWrapped k l None false g \/ phase s' c = CLockWait k l (now s) g) /\
  ((exists key, In key (keys (dicts s g)) /\ ~ In key (keys (dicts s' g))) ->
     full cf s = true /\ currsize s' = currsize s).
Proof.
  unfold acquire. cbv zeta. rewrite lock_do_eq.
  destruct (snd (Lock.step _ _)); cbn [fst snd]; sm; rewrite ?upd_same;
    try (refine (conj eq_refl (conj eq_refl (conj _ (conj _ (conj _ (conj _ _))))));
         [intros; reflexivity|left; reflexivity|auto|auto|intros (key & H1 & H2); contradiction]).
  match goal with |- context [body cf ?s1 c k l ?g] => pose proof (body_facts cf s1 c k l g) as H end.
  cbv zeta in H. sm. destruct H as (H1 & H2 & H3 & H4 & H5 & H6 & H7).
  refine (conj H1 (conj H2 (conj H3 (conj H4 (conj _ (conj _ H7)))))).
  - destruct H5 as [H5|[[H5 H5']|[[H5 _]|(x & v & e & H5 & H5' & H5'' & _)]]]; eauto 10.
  - destruct H6; auto.
Qed.

Lemma acquire_x_facts cf s c k l :
  let s' := fst (acquire_x cf s c k l) in
  let r := snd (acquire_x cf s c k l) in
  produced s' = produced s /\ cur s' = cur s /\ dicts s' = dicts s /\ currsize s' = currsize s /\
  r = RBlocked /\ phase s' c = CEntryCk k.
Proof. unfold acquire_x. cbn [fst snd]. sm. rewrite upd_same. auto 10. Qed.

Definition fresh_k (k : key) (ck : nat) (d : list slot) : Prop := forall y, In y d -> sk y = k -> ck <= ss y.

Lemma fresh_dmove k ck st d : ck <= st -> fresh_k k ck (dmove k st d).
Proof.
  intros Hc y Hy Hk. unfold dmove in Hy. destruct (dfind k d) as [x|] eqn:E.
  - apply in_app_or in Hy. destruct Hy as [Hy|[<-|[]]]; [|cbn; exact Hc].
    apply in_dremove in Hy. tauto.
  - exfalso. apply (dfind_none_keys _ _ E). rewrite <- Hk. apply in_keys, Hy.
Qed.

(* __call__ up to the lock: either it is over at once (rejected / maxsize = 0 / hit), or it goes on with
   acquire / acquire_x from a state sp that satisfies the invariant *)
Lemma enter_pre cf s c a x :
  Inv cf s ->
  let k := key_of cf a in
  let s' := fst (enter cf s c a x) in
  let r := snd (enter cf s c a x) in
  (s' = s /\ r = RRejected) \/
  (is_zero_max cf = true /\ dicts s' = dicts s /\ cur s' = cur s /\ produced s' = produced s /\
     currsize s' = currsize s /\ r = RBlocked /\ phase s' c = CBypass k None x) \/
  (exists y v exp, is_zero_max cf = false /\ phase s c = CIdle /\ dfind k (dict s) = Some y /\ se y = EVal v exp /\
     expired exp (now s) = false /\
     dicts s' = upd (dicts s) (cur s) (dmove k (clk s) (dict s)) /\ cur s' = cur s /\ produced s' = produced s /\
     currsize s' = currsize s /\
     ((r = RRet v /\ forall c0, phase s' c0 = phase s c0) \/ (r = RBlocked /\ phase s' c = CHitCk k v x))) \/
  (exists sp l, is_zero_max cf = false /\ phase sp c = CIdle /\ Inv cf sp /\
     enter cf s c a x = (if x then acquire_x else acquire) cf sp c k l /\
     produced sp = produced s /\ cur sp = cur s /\ (forall g, g <> cur s -> dicts sp g = dicts s g) /\
     touched k (clk s) (dict s) (dict sp) /\ clk s <= clk sp /\ now sp = now s /\
     (exists b, dget k (dict sp) = Some (EPlace l b)) /\
     (currsize sp <= currsize s)%Z /\
     ((forall l0 b0, dget k (dict s) <> Some (EPlace l0 b0)) -> fresh_k k (clk s) (dict sp))).
Proof.
  intros IJ. pose proof IJ as [I J]. cbv zeta. unfold enter.
  destruct (Nat.ltb c (ncall cf)) eqn:Hlt; cbn [negb]; [|left; auto]. apply Nat.ltb_lt in Hlt.
  destruct (phase s c) eqn:Hp; cbn [is_cidle negb]; try (left; auto; fail).
  cbv zeta. set (k := key_of cf a).
  destruct (is_zero_max cf) eqn:Hz.
  { right. left. cbn [fst snd]. sm. rewrite upd_same. auto 10. }
  right. right.
  set (s0 := set_has_dict s).
  assert (IJ0 : Inv cf s0) by (split; [apply inv1_has_dict, I|apply inv2_has_dict, J]).
  change (dict s0) with (dict s). change (now s0) with (now s).
  destruct (dfind k (dict s)) as [y|] eqn:Hfind.
  - destruct (dfind_some _ _ _ Hfind) as [Hky Hin]. destruct (se y) as [l b|v exp] eqn:Hse.
    + right. exists s0, l. refine (conj eq_refl (conj Hp (conj IJ0 (conj eq_refl _)))).
      refine (conj eq_refl (conj eq_refl (conj (fun _ _ => eq_refl) (conj _ (conj (le_n _) (conj eq_refl _)))))).
      * apply touched_refl, (I_sorted _ _ I).
      * split; [exists b; change (dict s0) with (dict s); rewrite (dget_find _ _ _ Hfind), Hse; reflexivity|].
        split; [cbn; lia|]. intros Hno. exfalso. apply (Hno l b). rewrite (dget_find _ _ _ Hfind), Hse. reflexivity.
    + destruct (expired exp (now s)) eqn:Hexp.
      * right. set (s4 := bump_clk _). exists s4, (nlock s).
        set (sm := mk (upd (dicts s0) (cur s0) (dset_in k (EPlace (nlock s0) false) (dict s0))) (cur s0) (has_dict s0)
                      (hits s0) (misses s0) (currsize s0 - 1)%Z
                      (upd (locks s0) (nlock s0) (Lock.init (negb (ackpt cf)))) (S (nlock s0)) (phase s0) (now s0)
                      (clk s0) (upd (lkey s0) (nlock s0) k) (produced s0)
                      (fl_or_waited (fl s0) (waited cf s0 k (cur s0)))).
        destruct IJ0 as [I0 J0].
        assert (Im : Inv cf sm) by (split; [exact (inv1_expire cf s0 k y v exp I0 Hfind Hse)|
                                             exact (inv2_expire cf s0 k y v exp J0 Hfind Hse)]).
        assert (I4 : Inv cf s4).
        { destruct Im as [Im1 Im2].
          pose proof (inv1_touch cf sm (cur sm) k (hits s) (misses s) Im1) as T1.
          pose proof (inv2_touch cf sm (cur sm) k (hits s) (misses s) Im1 Im2) as T2.
          split.
          - apply (inv1_same _ _ _ T1); unfold s4, sm, s0; sm; try reflexivity; try (intros H; exact H).
            intros g0. destruct (Nat.eq_dec g0 (cur s)) as [->|N]; [now rewrite !upd_same|now rewrite !upd_other].
          - apply (inv2_same _ _ _ T2); unfold s4, sm, s0; sm; try reflexivity; try (intros H; exact H).
            intros g0. destruct (Nat.eq_dec g0 (cur s)) as [->|N]; [now rewrite !upd_same|now rewrite !upd_other]. }
        refine (conj eq_refl (conj Hp (conj I4 (conj eq_refl _)))).
        assert (Hb : forall z, In z (dset_in k (EPlace (nlock s) false) (dict s)) -> ss z < clk s).
        { intros z Hzz. apply in_dset_in in Hzz. destruct Hzz as [Hzz|(w & Hw & _ & ->)]; [apply (I_stamp _ _ I _ _ Hzz)|].
          cbn. apply (I_stamp _ _ I _ _ Hw). }
        refine (conj eq_refl (conj eq_refl (conj _ (conj _ (conj _ (conj eq_refl _)))))).
        -- intros g N. unfold s4, s0. sm. now rewrite upd_other.
        -- unfold s4, s0. sm. rewrite upd_same.
           eapply touched_trans; [apply touched_dset_in, (I_sorted _ _ I)|].
           apply touched_dmove; [apply sorted_dset_in, (I_sorted _ _ I)|exact Hb|lia].
        -- unfold s4, s0. sm. lia.
        -- split; [exists false; unfold s4, s0; sm; rewrite upd_same, dget_dmove, dget_dset_in_same, (dget_find _ _ _ Hfind); reflexivity|].
           split; [unfold s4, s0; sm; lia|]. intros _. unfold s4, s0. sm. rewrite upd_same. apply fresh_dmove. lia.
      * left. exists y, v, exp. refine (conj eq_refl (conj eq_refl (conj eq_refl (conj Hse (conj Hexp _))))).
        destruct (ackpt cf); cbn [fst snd]; unfold s0; sm; rewrite ?upd_same.
        -- refine (conj eq_refl (conj eq_refl (conj eq_refl (conj eq_refl _)))). right. auto.
        -- refine (conj eq_refl (conj eq_refl (conj eq_refl (conj eq_refl _)))). left. auto.
  - right. set (s2 := bump_clk _). exists s2, (nlock s).
    destruct IJ0 as [I0 J0].
    assert (I2 : Inv cf s2) by (split; [exact (inv1_install cf s0 k I0 Hfind)|exact (inv2_install cf s0 k J0)]).
    refine (conj eq_refl (conj Hp (conj I2 (conj eq_refl _)))).
    refine (conj eq_refl (conj eq_refl (conj _ (conj _ (conj _ (conj eq_refl _)))))).
    + intros g N. unfold s2, s0. sm. now rewrite upd_other.
    + unfold s2, s0. sm. rewrite upd_same. apply touched_app; [apply (I_sorted _ _ I)|apply (I_stamp _ _ I)|lia].
    + unfold s2, s0. sm. lia.
    + split; [exists false; unfold s2, s0; sm; rewrite upd_same, dget_app, (dget_none_find _ _ Hfind), Nat.eqb_refl; reflexivity|].
      split; [unfold s2, s0; sm; lia|]. intros _. unfold s2, s0. sm. rewrite upd_same.
      intros z Hzz Hkz. apply in_app_or in Hzz. destruct Hzz as [Hzz|[<-|[]]]; [|cbn; lia].
      exfalso. apply (dfind_none_keys _ _ Hfind). rewrite <- Hkz. apply in_keys, Hzz.
Qed.

(* the acquire of an entry that is a placeholder never returns a value *)
Lemma acq_no_ret cf sp c k l b (x : bool) v :
  dget k (dict sp) = Some (EPlace l b) ->
  snd ((if x then acquire_x else acquire) cf sp c k l) <> RRet v.
Proof.
  intros Hd. destruct x.
  - pose proof (acquire_x_facts cf sp c k l) as FF; cbv zeta in FF; destruct FF as (_ & _ & _ & _ & H & _); rewrite H; discriminate.
  - pose proof (acquire_facts cf sp c k l) as FF; cbv zeta in FF; destruct FF as (_ & _ & _ & _ & H & _). cbv zeta in H.
    destruct H as [H|[H|[[H _]|(y & v2 & e2 & H & H3 & H4)]]]; try (rewrite H; discriminate).
    exfalso. pose proof (dget_find _ _ _ H3) as Hg. unfold dict in Hd. rewrite Hd, H4 in Hg. discriminate.
Qed.

Lemma acq_produced cf sp c k l (x : bool) :
  produced (fst ((if x then acquire_x else acquire) cf sp c k l)) = produced sp.
Proof. destruct x; [apply acquire_x_facts|apply acquire_facts]. Qed.

(* ------------------------------------------------------------------------------------------------ *)
(* 1. right value                                                                                     *)
(* ------------------------------------------------------------------------------------------------ *)
Definition call_key (cf : cfg) (s : st) (o : op) : option key :=
  match o with
  | Call c a => Some (key_of cf a)
  | CallX c a => Some (key_of cf a)
  | Resume c =>
      match phase s c with
      | CEntryCk k => Some k
      | CLockWait k _ _ _ => Some k | CInWrapped k _ _ _ _ => Some k | CHitCk k _ _ => Some k
      | CBypass k _ _ => Some k | CIdle => None
      end
  | _ => None
  end.

Lemma enter_value cf s c a x v :
  Inv cf s -> snd (enter cf s c a x) = RRet v -> In (key_of cf a, v) (produced (fst (enter cf s c a x))).
Proof.
  intros IJ Hr. pose proof IJ as [I J].
  destruct (enter_pre cf s c a x IJ) as [[_ H]|[(_ & _ & _ & _ & _ & H & _)|[H|H]]]; cbv zeta in *.
  - congruence.
  - congruence.
  - destruct H as (y & v0 & exp & _ & _ & Hf & Hse & _ & _ & _ & Hpr & _ & Hres).
    rewrite Hpr. destruct (dfind_some _ _ _ Hf) as [Hk Hin].
    destruct Hres as [[Hres _]|[Hres _]]; [|congruence]. assert (v0 = v) by congruence. subst v0.
    rewrite <- Hk. apply (I_vdict _ _ I _ y v exp Hin Hse).
  - destruct H as (sp & l & _ & _ & _ & E & _ & _ & _ & _ & _ & _ & [b Hd] & _). rewrite E in Hr.
    exfalso. eapply acq_no_ret; eauto.
Qed.

Lemma step_value cf s o s' v :
  Inv cf s -> step cf s o = (s', RRet v) -> exists k, call_key cf s o = Some k /\ In (k, v) (produced s').
Proof.
  intros IJ Hs. pose proof IJ as [I J].
  assert (Hfs : s' = fst (step cf s o)) by now rewrite Hs.
  assert (Hsn : snd (step cf s o) = RRet v) by now rewrite Hs.
  clear Hs. subst s'. destruct o as [c a|c a|c v0|c e|c|c| | |]; unfold step in *.
  - exists (key_of cf a). split; [reflexivity|]. now apply enter_value.
  - exists (key_of cf a). split; [reflexivity|]. now apply enter_value.
  - exfalso. revert Hsn. destruct (phase s c) as [|k|k l t0 g|k l [w|] [|] g|k v1 b|k [w|] [|]]; discriminate.
  - exfalso. revert Hsn. destruct (phase s c) as [|k|k l t0 g|k l [w|] [|] g|k v1 b|k [w|] [|]]; discriminate.
  - exfalso. revert Hsn. destruct (phase s c) as [|k|k l t0 g|k l w b g|k v1 b|k w b]; try discriminate.
    rewrite lock_do_eq. discriminate.
  - (* Resume *)
    cbn [call_key]. destruct (phase s c) as [|k|k l t0 g|k l w b g|k v1 b|k w b] eqn:Hp; [discriminate| | | | |].
    + discriminate.
    + exists k. split; [reflexivity|]. revert Hsn. rewrite lock_do_eq.
      destruct (snd (Lock.step _ _)); cbn [fst snd]; try discriminate.
      match goal with |- context [body cf ?s1 c k l g] => pose proof (body_facts cf s1 c k l g) as H end.
      cbv zeta in H. destruct H as (H1 & _ & _ & _ & H2 & _). rewrite H1. sm. intros E. rewrite E in H2.
      destruct H2 as [H2|[[H2 _]|[[H2 _]|(y & v2 & e2 & H2 & H3 & H4 & _)]]]; try discriminate.
      injection H2 as <-. destruct (dfind_some _ _ _ H3) as [Hk Hin]. rewrite <- Hk.
      apply (I_vdict _ _ I _ y v e2 Hin H4).
    + exists k. split; [reflexivity|]. revert Hsn. cbv zeta. destruct b.
      * rewrite release_eq. destruct (snd (Lock.step _ _)); discriminate.
      * destruct w as [[v2|e]|]; [| |discriminate].
        -- rewrite release_eq. destruct (snd (Lock.step _ _)); cbn [finish fst snd]; try discriminate.
           intros [= <-]. sm. now left.
        -- rewrite release_eq. destruct (snd (Lock.step _ _)); discriminate.
    + exists k. split; [reflexivity|]. revert Hsn. cbn [fst snd]. destruct b; [discriminate|].
      intros [= <-]. sm. apply (I_vhit _ _ I _ _ _ _ Hp).
    + exists k. split; [reflexivity|]. revert Hsn. destruct b; [discriminate|].
      destruct w as [[v2|e]|]; try discriminate. cbn [fst snd]. intros [= <-]. sm. now left.
  - discriminate Hsn.
  - exfalso. revert Hsn. destruct (has_dict s); discriminate.
  - exfalso. revert Hsn. destruct (all_idle cf s); discriminate.
Qed.

(* a call returns only a value that some execution of the wrapped function returned for the same key *)
Theorem lru_value_faithful cf ops o s' v :
  step cf (run cf ops) o = (s', RRet v) ->
  exists k, call_key cf (run cf ops) o = Some k /\ In (k, v) (produced s').
Proof. apply step_value, reachable_inv. Qed.

Lemma enter_produced cf s c a x : Inv cf s -> produced (fst (enter cf s c a x)) = produced s.
Proof.
  intros IJ.
  destruct (enter_pre cf s c a x IJ) as [[H _]|[(_ & _ & _ & H & _)|[H|H]]]; cbv zeta in *.
  - now rewrite H.
  - exact H.
  - destruct H as (y & v0 & exp & _ & _ & _ & _ & _ & _ & _ & Hpr & _). exact Hpr.
  - destruct H as (sp & l & _ & _ & _ & E & Hpr & _). rewrite E, acq_produced. exact Hpr.
Qed.

(* `produced` grows only when the wrapped function of a caller returns: (k, v) is logged exactly when the
   execution for key k started by that caller is resumed with the oracle value v *)
Theorem lru_produced_only_by_wrapped cf ops o :
  let s := run cf ops in
  produced (fst (step cf s o)) = produced s \/
  exists c k v, o = Resume c /\ produced (fst (step cf s o)) = (k, v) :: produced s /\
    ((exists l g, phase s c = CInWrapped k l (Some (WRet v)) false g) \/ phase s c = CBypass k (Some (WRet v)) false).
Proof.
  cbv zeta. pose proof (reachable_inv cf ops) as IJ. set (s := run cf ops) in *.
  destruct o as [c a|c a|c v0|c e|c|c| | |]; unfold step.
  - left. now apply enter_produced.
  - left. now apply enter_produced.
  - left. destruct (phase s c) as [|k|k l t0 g|k l [w|] [|] g|k v1 b|k [w|] [|]]; reflexivity.
  - left. destruct (phase s c) as [|k|k l t0 g|k l [w|] [|] g|k v1 b|k [w|] [|]]; reflexivity.
  - left. destruct (phase s c) as [|k|k l t0 g|k l w b g|k v1 b|k w b]; try reflexivity.
    rewrite lock_do_eq. reflexivity.
  - destruct (phase s c) as [|k|k l t0 g|k l w b g|k v1 b|k w b] eqn:Hp; [left; reflexivity| | | | |].
    + left. reflexivity.
    + left. rewrite lock_do_eq. destruct (snd (Lock.step _ _)); cbn [fst snd]; try reflexivity.
      match goal with |- context [body cf ?s1 c k l g] => pose proof (body_facts cf s1 c k l g) as FF; cbv zeta in FF; destruct FF as [H1 _] end.
      cbv zeta in H1. rewrite H1. reflexivity.
    + cbv zeta. destruct b.
      * left. rewrite release_eq. reflexivity.
      * destruct w as [[v2|e]|]; [| |left; reflexivity].
        -- right. exists c, k, v2. split; [reflexivity|]. split; [|left; eauto].
           rewrite release_eq. reflexivity.
        -- left. rewrite release_eq. reflexivity.
    + left. reflexivity.
    + destruct b; [left; reflexivity|]. destruct w as [[v2|e]|]; [| |left; reflexivity].
      * right. exists c, k, v2. split; [reflexivity|]. split; [reflexivity|right; exact Hp].
      * left. reflexivity.
  - left. reflexivity.
  - left. destruct (has_dict s); reflexivity.
  - left. destruct (all_idle cf s); reflexivity.
Qed.

(* a call raises (other than CancelledError) only what its own execution of the wrapped function raised *)
Theorem lru_raises_own cf ops o e :
  let s := run cf ops in
  snd (step cf s o) = RExc e ->
  exists c k, o = Resume c /\
    ((exists l g, phase s c = CInWrapped k l (Some (WExc e)) false g) \/ phase s c = CBypass k (Some (WExc e)) false).
Proof.
  cbv zeta. pose proof (reachable_inv cf ops) as IJ. set (s := run cf ops) in *.
  assert (Hent : forall c a x, snd (enter cf s c a x) <> RExc e).
  { intros c a x Hr.
    destruct (enter_pre cf s c a x IJ) as [[_ H]|[(_ & _ & _ & _ & _ & H & _)|[H|H]]]; cbv zeta in *; try congruence.
    - destruct H as (y & v0 & exp & _ & _ & _ & _ & _ & _ & _ & _ & _ & [[H _]|[H _]]); congruence.
    - destruct H as (sp & l & _ & _ & _ & E & _). rewrite E in Hr. destruct x.
      + pose proof (acquire_x_facts cf sp c (key_of cf a) l) as FF; cbv zeta in FF; destruct FF as (_ & _ & _ & _ & H & _); congruence.
      + pose proof (acquire_facts cf sp c (key_of cf a) l) as FF; cbv zeta in FF; destruct FF as (_ & _ & _ & _ & H & _). cbv zeta in H.
        destruct H as [H|[H|[[H _]|(y & v2 & e2 & H & _)]]]; congruence. }
  destruct o as [c a|c a|c v0|c e0|c|c| | |]; unfold step.
  - intros H. exfalso. eapply Hent; eauto.
  - intros H. exfalso. eapply Hent; eauto.
  - destruct (phase s c) as [|k|k l t0 g|k l [w|] [|] g|k v1 b|k [w|] [|]]; discriminate.
  - destruct (phase s c) as [|k|k l t0 g|k l [w|] [|] g|k v1 b|k [w|] [|]]; discriminate.
  - destruct (phase s c) as [|k|k l t0 g|k l w b g|k v1 b|k w b]; try discriminate. rewrite lock_do_eq. discriminate.
  - destruct (phase s c) as [|k|k l t0 g|k l w b g|k v1 b|k w b] eqn:Hp; [discriminate| | | | |].
    + discriminate.
    + rewrite lock_do_eq. destruct (snd (Lock.step _ _)); cbn [fst snd]; try discriminate.
      match goal with |- context [body cf ?s1 c k l g] => pose proof (body_facts cf s1 c k l g) as FF; cbv zeta in FF; destruct FF as (_ & _ & _ & _ & H & _) end.
      cbv zeta in H. intros E. rewrite E in H.
      destruct H as [H|[[H _]|[[H _]|(y & v2 & e2 & H & _)]]]; discriminate.
    + cbv zeta. destruct b.
      * rewrite release_eq. destruct (snd (Lock.step _ _)); discriminate.
      * destruct w as [[v2|e2]|]; [| |discriminate].
        -- rewrite release_eq. destruct (snd (Lock.step _ _)); discriminate.
        -- rewrite release_eq. destruct (snd (Lock.step _ _)); cbn [finish fst snd]; try discriminate.
           intros [= <-]. exists c, k. split; [reflexivity|]. left. eauto.
    + destruct b; discriminate.
    + destruct b; [discriminate|]. destruct w as [[v2|e2]|]; try discriminate.
      cbn [fst snd]. intros [= <-]. exists c, k. split; [reflexivity|]. right. exact Hp.
  - discriminate.
  - destruct (has_dict s); discriminate.
  - destruct (all_idle cf s); discriminate.
Qed.

(* ------------------------------------------------------------------------------------------------ *)
(* 2. single flight                                                                                   *)
(* ------------------------------------------------------------------------------------------------ *)
(* caller c is executing the wrapped function for key k *)
Definition executing (s : st) (c : cid) (k : key) : Prop :=
  (exists l p b g, phase s c = CInWrapped k l p b g) \/ (exists p b, phase s c = CBypass k p b).

Theorem lru_single_flight cf ops c1 c2 k l1 p1 b1 g1 l2 p2 b2 g2 :
  no_inflight_eviction cf ops -> no_waited_eviction cf ops -> no_other_loop cf ops ->
  phase (run cf ops) c1 = CInWrapped k l1 p1 b1 g1 -> phase (run cf ops) c2 = CInWrapped k l2 p2 b2 g2 -> c1 = c2.
Proof.
  intros Hf Hw Hph H1 H2. pose proof (reachable_inv1 cf ops) as I. set (s := run cf ops) in *.
  assert (g1 = cur s) by (apply (I_gen _ _ I Hph c1); now rewrite H1).
  assert (g2 = cur s) by (apply (I_gen _ _ I Hph c2); now rewrite H2). subst g1 g2.
  pose proof (I_A _ _ I Hf Hw _ _ _ _ _ _ H1) as A1. pose proof (I_A _ _ I Hf Hw _ _ _ _ _ _ H2) as A2.
  assert (l1 = l2) by congruence. subst l2.
  eapply held_unique; [apply (L_inv _ _ _ _ _ (I_lp _ _ I) l1)| |];
    eapply (L_run _ _ _ _ _ (I_lp _ _ I)); eauto.
Qed.

(* the two ways of executing the wrapped function exclude each other: through the cache (CInWrapped, and the
   lock-wait / entry phases) only if maxsize <> 0, through the lock-free path (CBypass) only if maxsize = 0.  For
   maxsize = 0 there is no single flight at all (finding F32, lru_refuted_maxsize0_double_flight). *)
Theorem lru_paths_exclusive cf ops c :
  (forall k p b, phase (run cf ops) c = CBypass k p b -> is_zero_max cf = true) /\
  (forall k l p b g, phase (run cf ops) c = CInWrapped k l p b g -> is_zero_max cf = false) /\
  (forall k l t0 g, phase (run cf ops) c = CLockWait k l t0 g -> is_zero_max cf = false).
Proof.
  pose proof (reachable_inv1 cf ops) as I. refine (conj _ (conj _ _)).
  - intros k p b H. apply (I_byp _ _ I c). now rewrite H.
  - intros k l p b g H. apply (I_nobyp _ _ I c k l). now rewrite H.
  - intros k l t0 g H. apply (I_nobyp _ _ I c k l). now rewrite H.
Qed.

(* later callers reuse the first result: a caller that waited for the entry's lock and finds the value stored
   returns that value (or is cancelled) and never starts an execution of its own *)
Theorem lru_reuse_first_result cf ops c k l t0 g v e :
  phase (run cf ops) c = CLockWait k l t0 g ->
  dget k (dicts (run cf ops) g) = Some (EVal v e) ->
  let r := snd (step cf (run cf ops) (Resume c)) in
  r = RRet v \/ r = RCancelled \/ r = RRejected.
Proof.
  intros Hp Hd. pose proof (reachable_inv cf ops) as I. set (s := run cf ops) in *.
  destruct (step_ok cf s (Resume c) I) as [_ [Hgood _]].
  cbv zeta. revert Hgood. unfold step. rewrite Hp, lock_do_eq.
  destruct (snd (Lock.step _ _)); cbn [fst snd]; auto; try congruence.
  match goal with |- context [body cf ?s1 c k l g] => pose proof (body_facts cf s1 c k l g) as H end.
  cbv zeta in H. sm. destruct H as (_ & _ & _ & _ & H & _). intros Hg.
  destruct (dget_some _ _ _ Hd) as (x & Hx & Hse & _).
  destruct H as [H|[[_ H]|[[_ [(y & l' & b' & H & H') _]]|(y & v2 & e2 & H & H1 & H2 & _)]]]; try congruence.
  left. rewrite H. congruence.
Qed.

(* ------------------------------------------------------------------------------------------------ *)
(* 3. calls with different arguments do not block one another                                         *)
(* ------------------------------------------------------------------------------------------------ *)
Theorem lru_distinct_keys_independent cf ops c k l t0 g :
  phase (run cf ops) c = CLockWait k l t0 g ->
  lkey (run cf ops) l = k /\
  (forall c', Lock.phase_of (locks (run cf ops) l) c' <> Lock.Idle \/ In c' (Lock.held (locks (run cf ops) l)) ->
     (exists t g', phase (run cf ops) c' = CLockWait k l t g') \/
     (exists p b g', phase (run cf ops) c' = CInWrapped k l p b g')) /\
  (forall c', Lock.owner (locks (run cf ops) l) = Some c' ->
     (exists t g', phase (run cf ops) c' = CLockWait k l t g') \/
     (exists p b g', phase (run cf ops) c' = CInWrapped k l p b g')).
Proof.
  intros Hp. pose proof (reachable_inv1 cf ops) as I. set (s := run cf ops) in *.
  pose proof (I_lp _ _ I) as LPs.
  assert (Hk : lkey s l = k) by (apply (L_ref _ _ _ _ _ LPs c); now rewrite Hp).
  assert (Heng : forall c', engaged (locks s l) c' ->
            (exists t g', phase s c' = CLockWait k l t g') \/ (exists p b g', phase s c' = CInWrapped k l p b g')).
  { intros c' He. destruct (L_eng _ _ _ _ _ LPs l c' He) as [k' Hk'].
    destruct (L_ref _ _ _ _ _ LPs c' k' l Hk') as [_ E]. assert (Ek : k' = k) by congruence.
    destruct (phase s c') as [|k1|k1 l1 t1 g1|k1 l1 p1 b1 g1|k1 v1 b1|k1 p1 b1]; cbn in Hk'; try discriminate;
      injection Hk' as E1 E2.
    - left. exists t1, g1. congruence.
    - right. exists p1, b1, g1. congruence. }
  refine (conj Hk (conj Heng _)).
  intros c' Ho. apply Heng. apply (LockProofs.I_owner _ (L_inv _ _ _ _ _ LPs l)) in Ho.
  destruct Ho as [H|[H|(f & H & _)]]; [right; exact H|left; congruence|left; congruence].
Qed.

(* ------------------------------------------------------------------------------------------------ *)
(* 4. no internal error                                                                               *)
(* ------------------------------------------------------------------------------------------------ *)
Theorem lru_no_internal_error cf ops o :
  no_inflight_eviction cf (ops ++ [o]) -> no_waited_eviction cf (ops ++ [o]) ->
  snd (step cf (run cf ops) o) <> RKeyError /\ snd (step cf (run cf ops) o) <> RLockErr.
Proof.
  unfold no_inflight_eviction, no_waited_eviction, evicts_inflight, evicts_waited. rewrite run_snoc.
  intros Hf Hw. destruct (step_ok cf (run cf ops) o (reachable_inv cf ops)) as [_ [H1 H2]]. auto.
Qed.

(* the embedded locks never report an error, whatever is evicted *)
Theorem lru_no_lock_error cf ops o : snd (step cf (run cf ops) o) <> RLockErr.
Proof. apply (step_ok cf (run cf ops) o (reachable_inv cf ops)). Qed.

(* ------------------------------------------------------------------------------------------------ *)
(* 5. bounded retention                                                                               *)
(* ------------------------------------------------------------------------------------------------ *)
(* results + counted placeholders (in particular: placeholders of running computations) of the running loop's
   dict never exceed maxsize *)
Theorem lru_bounded cf ops m :
  no_inflight_eviction cf ops -> no_waited_eviction cf ops -> no_uncounted_eviction cf ops ->
  maxsize cf = Some m ->
  length (filter (fun x => negb (is_place (se x))) (dict (run cf ops))) +
  length (filter (fun x => match se x with EPlace _ true => true | _ => false end) (dict (run cf ops))) <= m.
Proof.
  intros Hf Hw Hu Hm. destruct (I_bound _ _ (reachable_inv2 cf ops) Hf Hw Hu) as [H1 H2]. specialize (H2 m Hm).
  change (nval (dict (run cf ops)) + ncnt (dict (run cf ops)) <= m). lia.
Qed.

(* every running computation of the current dict owns a counted placeholder (so it is included above) *)
Theorem lru_running_is_counted cf ops c k l p b g :
  no_inflight_eviction cf ops -> no_waited_eviction cf ops ->
  phase (run cf ops) c = CInWrapped k l p b g -> dget k (dicts (run cf ops) g) = Some (EPlace l true).
Proof. intros Hf Hw. apply (I_A _ _ (reachable_inv1 cf ops) Hf Hw). Qed.

(* without any of the finding patterns the count is exact *)
Theorem lru_count_exact cf ops :
  no_inflight_eviction cf ops -> no_waited_eviction cf ops -> no_uncounted_eviction cf ops ->
  no_dead_placeholder cf ops -> no_other_loop cf ops ->
  currsize (run cf ops) =
  Z.of_nat (length (filter (fun x => negb (is_place (se x))) (dict (run cf ops))) +
            length (filter (fun x => match se x with EPlace _ true => true | _ => false end) (dict (run cf ops)))).
Proof.
  intros H1 H2 H3 H4 H5. apply (I_eq _ _ (reachable_inv2 cf ops)). unfold clean5. auto.
Qed.

(* an entry of the current dict disappears in a step (other than cache_clear / a new loop) only when the count
   has reached maxsize ... *)
Lemma step_evict_full cf s o :
  Inv cf s -> o <> Clear -> o <> NewLoop ->
  (exists key, In key (keys (dict s)) /\ ~ In key (keys (dict (fst (step cf s o))))) ->
  exists m, maxsize cf = Some m /\ (Z.of_nat m <= currsize (fst (step cf s o)))%Z.
Proof.
  intros IJ Hn1 Hn2 (key & Hin & Hout). pose proof IJ as [I J].
  assert (Hfull : forall s0, full cf s0 = true -> exists m, maxsize cf = Some m /\ (Z.of_nat m <= currsize s0)%Z).
  { intros s0 H. unfold full in H. destruct (maxsize cf) as [m|]; [|discriminate]. exists m. split; [reflexivity|lia]. }
  assert (Hbody : forall s1 c k l g,
            cur (fst (body cf s1 c k l g)) = cur s1 ->
            In key (keys (dicts s1 (cur s1))) -> ~ In key (keys (dicts (fst (body cf s1 c k l g)) (cur s1))) ->
            exists m, maxsize cf = Some m /\ (Z.of_nat m <= currsize (fst (body cf s1 c k l g)))%Z).
  { intros s1 c k l g _ H1 H2. pose proof (body_facts cf s1 c k l g) as F. cbv zeta in F.
    destruct F as (_ & _ & Hoth & _ & _ & _ & Hev).
    destruct (Nat.eq_dec (cur s1) g) as [<-|N]; [|exfalso; apply H2; rewrite (Hoth _ N); exact H1].
    destruct (Hev (ex_intro _ key (conj H1 H2))) as [Hf Hc]. rewrite Hc. now apply Hfull. }
  destruct o as [c a|c a|c v0|c e|c|c| | |]; try contradiction; unfold step in *.
  - (* Call *)
    destruct (enter_pre cf s c a false IJ) as [[H _]|[(_ & H & H' & _)|[H|H]]]; cbv zeta in *.
    + exfalso. apply Hout. now rewrite H.
    + exfalso. apply Hout. unfold dict. now rewrite H, H'.
    + destruct H as (y & v0 & exp & _ & _ & _ & _ & _ & Hd & Hc & _). exfalso. apply Hout.
      unfold dict. rewrite Hd, Hc, upd_same. now apply keys_dmove_in.
    + destruct H as (sp & l & _ & _ & _ & E & _ & Hc & _ & (_ & HT & _) & _ & _ & _ & Hcs & _).
      rewrite E in *. pose proof (acquire_facts cf sp c (key_of cf a) l) as F. cbv zeta in F.
      destruct F as (_ & Hc' & _ & _ & _ & _ & Hev).
      assert (Hin' : In key (keys (dicts sp (cur sp)))).
      { destruct (in_keys_ex _ _ Hin) as (z & Hz & <-). destruct (HT z Hz) as (z' & Hz' & <- & _). apply in_keys, Hz'. }
      unfold dict in Hout. rewrite Hc' in Hout.
      destruct (Hev (ex_intro _ key (conj Hin' Hout))) as [Hf Hcc]. rewrite Hcc. now apply Hfull.
  - (* CallX: never evicts *)
    destruct (enter_pre cf s c a true IJ) as [[H _]|[(_ & H & H' & _)|[H|H]]]; cbv zeta in *.
    + exfalso. apply Hout. now rewrite H.
    + exfalso. apply Hout. unfold dict. now rewrite H, H'.
    + destruct H as (y & v0 & exp & _ & _ & _ & _ & _ & Hd & Hc & _). exfalso. apply Hout.
      unfold dict. rewrite Hd, Hc, upd_same. now apply keys_dmove_in.
    + destruct H as (sp & l & _ & _ & _ & E & _ & Hc & _ & (_ & HT & _) & _).
      rewrite E in *. pose proof (acquire_x_facts cf sp c (key_of cf a) l) as F. cbv zeta in F.
      destruct F as (_ & Hc' & Hd' & _). exfalso. apply Hout. unfold dict. rewrite Hc', Hd'.
      destruct (in_keys_ex _ _ Hin) as (z & Hz & <-). destruct (HT z Hz) as (z' & Hz' & <- & _). apply in_keys, Hz'.
  - exfalso. apply Hout. destruct (phase s c) as [|k|k l t0 g|k l [w|] [|] g|k v1 b|k [w|] [|]]; exact Hin.
  - exfalso. apply Hout. destruct (phase s c) as [|k|k l t0 g|k l [w|] [|] g|k v1 b|k [w|] [|]]; exact Hin.
  - exfalso. apply Hout. destruct (phase s c) as [|k|k l t0 g|k l w b g|k v1 b|k w b]; try exact Hin.
    rewrite lock_do_eq. exact Hin.
  - destruct (phase s c) as [|k|k l t0 g|k l w b g|k v1 b|k w b] eqn:Hp; try (exfalso; apply Hout; exact Hin).
    + revert Hout. rewrite lock_do_eq. destruct (snd (Lock.step _ _)); cbn [fst snd]; try (intros Hout; exfalso; apply Hout; exact Hin).
      intros Hout.
      match goal with |- context [body cf ?s1 c k l g] =>
        pose proof (body_facts cf s1 c k l g) as F; cbv zeta in F; destruct F as (_ & Hc1 & _);
        apply (Hbody s1 c k l g Hc1); [exact Hin|] end.
      unfold dict in Hout. rewrite Hc1 in Hout. exact Hout.
    + exfalso. apply Hout. cbv zeta. destruct b.
      * rewrite release_eq. exact Hin.
      * destruct w as [[v2|e]|]; [| |exact Hin].
        -- rewrite release_eq. cbn [finish fst]. unfold dict in *. sm.
           destruct (Nat.eq_dec (cur s) g) as [<-|N]; [rewrite upd_same|now rewrite upd_other].
           unfold dstore. destruct (dfind k (dicts s (cur s))); [now rewrite keys_dset_in|].
           unfold keys. rewrite map_app. apply in_or_app. now left.
        -- rewrite release_eq. exact Hin.
    + exfalso. apply Hout. destruct b; [exact Hin|]. destruct w as [[v2|e]|]; exact Hin.
Qed.

(* ... and, without any of the finding patterns, exactly when the number of counted live entries is maxsize:
   after the evicting step the dict holds maxsize counted entries (results + the evictor's own placeholder) *)
Theorem lru_evicts_only_when_full cf ops o key :
  no_inflight_eviction cf (ops ++ [o]) -> no_waited_eviction cf (ops ++ [o]) ->
  no_uncounted_eviction cf (ops ++ [o]) -> no_dead_placeholder cf (ops ++ [o]) -> no_other_loop cf (ops ++ [o]) ->
  o <> Clear -> o <> NewLoop ->
  In key (map sk (dict (run cf ops))) -> ~ In key (map sk (dict (run cf (ops ++ [o])))) ->
  exists m, maxsize cf = Some m /\
    length (filter (fun x => negb (is_place (se x))) (dict (run cf (ops ++ [o])))) +
    length (filter (fun x => match se x with EPlace _ true => true | _ => false end) (dict (run cf (ops ++ [o])))) = m.
Proof.
  intros H1 H2 H3 H4 H5 Hn1 Hn2 Hin Hout.
  pose proof (reachable_inv2 cf (ops ++ [o])) as J'.
  assert (HC : clean5 (run cf (ops ++ [o]))) by (unfold clean5; auto).
  pose proof (I_eq _ _ J' HC) as Heq. destruct (I_bound _ _ J' H1 H2 H3) as [_ Hle].
  rewrite run_snoc in *.
  destruct (step_evict_full cf (run cf ops) o (reachable_inv cf ops) Hn1 Hn2 (ex_intro _ key (conj Hin Hout)))
    as (m & Hm & Hge).
  exists m. split; [exact Hm|]. specialize (Hle m Hm).
  change (nval (dict (fst (step cf (run cf ops) o))) + ncnt (dict (fst (step cf (run cf ops) o))) = m). lia.
Qed.

(* ------------------------------------------------------------------------------------------------ *)
(* 6. least recently used first                                                                       *)
(* ------------------------------------------------------------------------------------------------ *)
Theorem lru_order cf ops g :
  NoDup (map sk (dicts (run cf ops) g)) /\
  StronglySorted (fun a b => ss a < ss b) (dicts (run cf ops) g) /\
  (forall x, In x (dicts (run cf ops) g) -> ss x < clk (run cf ops)).
Proof.
  pose proof (reachable_inv1 cf ops) as I.
  exact (conj (I_nodup _ _ I g) (conj (I_sorted _ _ I g) (I_stamp _ _ I g))).
Qed.

Lemma after_uses cf sp g k ck d d' :
  Inv1 cf sp -> touched k ck d (dicts sp g) -> ck <= clk sp ->
  d' = dicts sp g \/ d' = dmark k (dicts sp g) \/ d' = dmark k (tl (dicts sp g)) \/
  d' = dmove k (clk sp) (dicts sp g) ->
  touch_or_evict k ck d d'.
Proof.
  intros I HT Hc [->|[->|[->| ->]]].
  - exists (dicts sp g), k. auto.
  - exists (dicts sp g), k. auto.
  - exists (dicts sp g), k. auto.
  - exists (dmove k (clk sp) (dicts sp g)), k. split; [|now left].
    eapply touched_trans; [exact HT|]. apply touched_dmove; [apply (I_sorted _ _ I)|apply (I_stamp _ _ I g)|exact Hc].
Qed.

Lemma step_uses cf s o g :
  Inv cf s -> o <> Clear -> o <> NewLoop ->
  exists k, (call_key cf s o = Some k \/ dicts (fst (step cf s o)) g = dicts s g) /\
            touch_or_evict k (clk s) (dicts s g) (dicts (fst (step cf s o)) g).
Proof.
  intros IJ Hn1 Hn2. pose proof IJ as [I J].
  assert (Hsame : forall d', d' = dicts s g -> exists k, (call_key cf s o = Some k \/ d' = dicts s g) /\
                                                    touch_or_evict k (clk s) (dicts s g) d').
  { intros d' ->. exists 0. split; [now right|]. exists (dicts s g), 0.
    split; [apply touched_refl, (I_sorted _ _ I)|now left]. }
  assert (Hent : forall c a x, exists k, (Some (key_of cf a) = Some k \/ dicts (fst (enter cf s c a x)) g = dicts s g) /\
                                     touch_or_evict k (clk s) (dicts s g) (dicts (fst (enter cf s c a x)) g)).
  { intros c a x. exists (key_of cf a). split; [now left|].
    assert (Hrefl : forall d', d' = dicts s g -> touch_or_evict (key_of cf a) (clk s) (dicts s g) d').
    { intros d' ->. exists (dicts s g), 0. split; [apply touched_refl, (I_sorted _ _ I)|now left]. }
    destruct (enter_pre cf s c a x IJ) as [[H _]|[(_ & H & _)|[H|H]]]; cbv zeta in *.
    - apply Hrefl. now rewrite H.
    - apply Hrefl. now rewrite H.
    - destruct H as (y & v0 & exp & _ & _ & _ & _ & _ & Hd & _). rewrite Hd.
      destruct (Nat.eq_dec g (cur s)) as [->|N]; [rewrite upd_same|apply Hrefl; now rewrite upd_other].
      exists (dmove (key_of cf a) (clk s) (dict s)), 0. split; [|now left].
      apply touched_dmove; [apply (I_sorted _ _ I)|apply (I_stamp _ _ I)|lia].
    - destruct H as (sp & l & _ & _ & [Isp _] & E & _ & Hc & Hoth & HT & Hck & _). rewrite E.
      destruct (Nat.eq_dec g (cur s)) as [->|N].
      + destruct x.
        * pose proof (acquire_x_facts cf sp c (key_of cf a) l) as F. cbv zeta in F. destruct F as (_ & _ & Hd & _).
          rewrite Hd. exists (dicts sp (cur s)), 0. unfold dict in HT. rewrite Hc in HT. auto.
        * pose proof (acquire_facts cf sp c (key_of cf a) l) as F. cbv zeta in F. destruct F as (_ & _ & _ & Hd & _).
          rewrite Hc in Hd. unfold dict in HT. rewrite Hc in HT.
          apply (after_uses cf sp (cur s) (key_of cf a) (clk s) _ _ Isp HT Hck Hd).
      + apply Hrefl. destruct x.
        * pose proof (acquire_x_facts cf sp c (key_of cf a) l) as F. cbv zeta in F. destruct F as (_ & _ & Hd & _).
          rewrite Hd. now apply Hoth.
        * pose proof (acquire_facts cf sp c (key_of cf a) l) as F. cbv zeta in F. destruct F as (_ & _ & Hd & _).
          rewrite Hd by (rewrite Hc; exact N). now apply Hoth. }
  destruct o as [c a|c a|c v0|c e|c|c| | |]; try contradiction; unfold step.
  - apply Hent.
  - apply Hent.
  - apply Hsame. destruct (phase s c) as [|k|k l t0 g0|k l [w|] [|] g0|k v1 b|k [w|] [|]]; reflexivity.
  - apply Hsame. destruct (phase s c) as [|k|k l t0 g0|k l [w|] [|] g0|k v1 b|k [w|] [|]]; reflexivity.
  - apply Hsame. destruct (phase s c) as [|k|k l t0 g0|k l w b g0|k v1 b|k w b]; try reflexivity.
    rewrite lock_do_eq. reflexivity.
  - (* Resume *)
    destruct (phase s c) as [|k|k l t0 g0|k l w b g0|k v1 b|k w b] eqn:Hp; try (now apply Hsame).
    + rewrite lock_do_eq.
      destruct (snd (Lock.step (locks s l) (Lock.Resume c))) eqn:Er; cbn [fst]; sm; try (now apply Hsame).
      exists k. split; [left; cbn [call_key]; now rewrite Hp|].
      set (s1 := set_lock s l _).
      assert (I1 : Inv1 cf s1).
      { destruct (Lock.phase_of (locks s l) c) eqn:Hlp.
        - exfalso. assert (E' : Lock.step (locks s l) (Lock.Resume c) = (locks s l, Lock.RRejected))
            by (cbn [Lock.step]; now rewrite Hlp). rewrite E' in Er. discriminate.
        - destruct (resume_cases (locks s l) c (L_inv _ _ _ _ _ (I_lp _ _ I) l) ltac:(congruence))
            as [[E1 Hh]|[[E1 _]|[E1 _]]]; rewrite Er in E1; try discriminate.
          apply (inv1_lock_only cf s c k l t0 g0 (Lock.Resume c) I Hp eq_refl). right. exact Hh.
        - destruct (resume_cases (locks s l) c (L_inv _ _ _ _ _ (I_lp _ _ I) l) ltac:(congruence))
            as [[E1 Hh]|[[E1 _]|[E1 _]]]; rewrite Er in E1; try discriminate.
          apply (inv1_lock_only cf s c k l t0 g0 (Lock.Resume c) I Hp eq_refl). right. exact Hh. }
      pose proof (body_facts cf s1 c k l g0) as F. cbv zeta in F. destruct F as (_ & _ & Hoth & Hd & _).
      destruct (Nat.eq_dec g g0) as [->|N].
      * apply (after_uses cf s1 g0 k (clk s) (dicts s g0) _ I1); [apply touched_refl, (I_sorted _ _ I)|unfold s1; sm; lia|exact Hd].
      * rewrite (Hoth _ N). exists (dicts s g), 0. split; [apply touched_refl, (I_sorted _ _ I)|now left].
    + cbv zeta. destruct b.
      * apply Hsame. rewrite release_eq. reflexivity.
      * destruct w as [[v2|e]|]; [| |now apply Hsame].
        -- exists k. split; [left; cbn [call_key]; now rewrite Hp|]. rewrite release_eq. cbn [finish fst]. sm.
           destruct (Nat.eq_dec g g0) as [->|N]; [rewrite upd_same|rewrite upd_other by assumption].
           ++ exists (dstore k (EVal v2 (new_exp cf (now s))) (clk s) (dicts s g0)), 0. split; [|now left].
              apply touched_dstore; [apply (I_sorted _ _ I)|apply (I_stamp _ _ I g0)|lia].
           ++ exists (dicts s g), 0. split; [apply touched_refl, (I_sorted _ _ I)|now left].
        -- apply Hsame. rewrite release_eq. reflexivity.
    + apply Hsame. destruct b; [reflexivity|]. destruct w as [[v2|e]|]; reflexivity.
  - apply Hsame. reflexivity.
Qed.

(* LRU eviction at full strength (ttl included): an entry whose key disappears from a dict in a step other than
   cache_clear() / a new loop was last used (installed, hit, reused after a wait, or recomputed after expiry)
   strictly before every entry that remains *)
Theorem lru_evicts_oldest_use cf ops o g x :
  o <> Clear -> o <> NewLoop -> In x (dicts (run cf ops) g) ->
  (forall y, In y (dicts (fst (step cf (run cf ops) o)) g) -> sk y <> sk x) ->
  forall y', In y' (dicts (fst (step cf (run cf ops) o)) g) -> ss x < ss y'.
Proof.
  intros Hn1 Hn2 Hx Hgone.
  destruct (step_uses cf (run cf ops) o g (reachable_inv cf ops) Hn1 Hn2) as (k & _ & d1 & k0 & HT & Hd).
  eapply touched_evict; eauto.
Qed.

(* stamps change only by a use: after a step every entry either carries the stamp it had, or belongs to the key
   of the call that acted in this step and carries a stamp newer than everything before *)
Theorem lru_stamp_is_last_use cf ops o g y' :
  o <> Clear -> o <> NewLoop -> In y' (dicts (fst (step cf (run cf ops) o)) g) ->
  (exists y, In y (dicts (run cf ops) g) /\ sk y = sk y' /\ ss y = ss y') \/
  (call_key cf (run cf ops) o = Some (sk y') /\ clk (run cf ops) <= ss y').
Proof.
  intros Hn1 Hn2 Hy.
  destruct (step_uses cf (run cf ops) o g (reachable_inv cf ops) Hn1 Hn2) as (k & Hk & d1 & k0 & (_ & _ & HB) & Hd).
  destruct Hk as [Hk|Hk]; [|left; exists y'; rewrite <- Hk; auto].
  assert (Hin : exists y1, In y1 d1 /\ sk y1 = sk y' /\ ss y1 = ss y').
  { destruct Hd as [E|[E|E]]; rewrite E in Hy.
    - exists y'. auto.
    - apply in_dmark_stamp in Hy. exact Hy.
    - apply in_dmark_stamp in Hy. destruct Hy as (y1 & H1 & H2). exists y1. split; [|exact H2].
      destruct d1; [contradiction|now right]. }
  destruct Hin as (y1 & Hy1 & Ek & Es). destruct (HB y1 Hy1) as [(y0 & H0 & E1 & E2)|[E L]].
  - left. exists y0. split; [exact H0|]. split; congruence.
  - right. split; [congruence|lia].
Qed.

(* ... and every use does refresh the stamp: after a call that installs, hits or recomputes after expiry, and
   after a waiter's reuse of a flight's result, the key (while it is in the dict) carries a stamp >= the clock,
   i.e. newer than every stamp of the state before (lru_order) *)
Theorem lru_use_refreshes cf ops o k g :
  ((exists c a, (o = Call c a \/ o = CallX c a) /\ key_of cf a = k /\ g = cur (run cf ops) /\
      snd (step cf (run cf ops) o) <> RRejected /\
      is_zero_max cf = false /\ (forall l b, dget k (dict (run cf ops)) <> Some (EPlace l b))) \/
   (exists c l t0 v, o = Resume c /\ phase (run cf ops) c = CLockWait k l t0 g /\
      snd (step cf (run cf ops) o) = RRet v)) ->
  forall y, In y (dicts (fst (step cf (run cf ops) o)) g) -> sk y = k -> clk (run cf ops) <= ss y.
Proof.
  pose proof (reachable_inv cf ops) as IJ. pose proof IJ as [I J]. set (s := run cf ops) in *.
  intros [(c & a & Ho & Hk & Hg & Hacc & Hz & Hnp)|(c & l & t0 & v & -> & Hp & Hr)].
  - assert (Hx : exists x, step cf s o = enter cf s c a x) by (destruct Ho as [-> | ->]; [exists false|exists true]; reflexivity).
    destruct Hx as [x Ex]. rewrite Ex in *. subst g k.
    destruct (enter_pre cf s c a x IJ) as [[_ H]|[(H & _)|[H|H]]]; cbv zeta in *; try congruence.
    + destruct H as (y0 & v0 & exp & _ & _ & _ & _ & _ & Hd & _). rewrite Hd, upd_same. apply fresh_dmove. lia.
    + destruct H as (sp & l & _ & _ & [Isp _] & E & _ & Hc & _ & _ & Hck & _ & _ & _ & Hfr). rewrite E.
      specialize (Hfr Hnp). unfold dict in Hfr. rewrite Hc in Hfr. destruct x.
      * pose proof (acquire_x_facts cf sp c (key_of cf a) l) as F. cbv zeta in F. destruct F as (_ & _ & Hd & _).
        rewrite Hd. exact Hfr.
      * pose proof (acquire_facts cf sp c (key_of cf a) l) as F. cbv zeta in F. destruct F as (_ & _ & _ & Hd & _).
        rewrite Hc in Hd. destruct Hd as [Hd|[Hd|[Hd|Hd]]]; rewrite Hd.
        -- exact Hfr.
        -- intros y Hy Hky. apply in_dmark_stamp in Hy. destruct Hy as (y1 & H1 & H2 & H3). rewrite <- H3. apply Hfr; congruence.
        -- intros y Hy Hky. apply in_dmark_stamp in Hy. destruct Hy as (y1 & H1 & H2 & H3). rewrite <- H3.
           apply Hfr; [|congruence]. destruct (dicts sp (cur s)); [contradiction|now right].
        -- apply fresh_dmove. lia.
  - revert Hr. unfold step. rewrite Hp, lock_do_eq.
    destruct (snd (Lock.step _ _)); cbn [fst snd]; try discriminate.
    match goal with |- context [body cf ?s1 c k l g] => pose proof (body_facts cf s1 c k l g) as F end.
    cbv zeta in F. destruct F as (_ & _ & _ & _ & F & _). intros Hr. rewrite Hr in F.
    destruct F as [F|[[F _]|[[F _]|(x & v2 & e2 & _ & _ & _ & _ & Hd)]]]; try discriminate.
    rewrite Hd. sm. apply fresh_dmove. lia.
Qed.

(* ------------------------------------------------------------------------------------------------ *)
(* 7. an expired entry is recomputed, not served                                                      *)
(* ------------------------------------------------------------------------------------------------ *)
(* lookup path: a call that is answered from the cache at once (returned, or in the hit checkpoint) found an
   entry that had not expired *)
Theorem lru_expired_recomputed cf ops c a x v :
  let s := run cf ops in
  snd (enter cf s c a x) <> RRejected ->
  (snd (enter cf s c a x) = RRet v \/
   exists b, phase (fst (enter cf s c a x)) c = CHitCk (key_of cf a) v b) ->
  exists y exp, dfind (key_of cf a) (dict s) = Some y /\ se y = EVal v exp /\ expired exp (now s) = false.
Proof.
  cbv zeta. pose proof (reachable_inv cf ops) as IJ. set (s := run cf ops) in *. intros Hacc Hres.
  destruct (enter_pre cf s c a x IJ) as [[_ H]|[(_ & _ & _ & _ & _ & H & H')|[H|H]]]; cbv zeta in *.
  - congruence.
  - exfalso. destruct Hres as [Hr|[b Hr]]; congruence.
  - destruct H as (y & v0 & exp & _ & Hid & Hf & Hse & Hexp & _ & _ & _ & _ & Hr).
    exists y, exp. refine (conj Hf (conj _ Hexp)).
    destruct Hr as [[Hr Hph]|[Hr Hph]]; destruct Hres as [Hres|[b Hres]]; try congruence;
      exfalso; rewrite Hph in Hres; congruence.
  - exfalso. destruct H as (sp & l & _ & Hpc & _ & E & _ & _ & _ & _ & _ & _ & [b Hd] & _). rewrite E in Hres.
    destruct Hres as [Hr|[b0 Hr]]; [eapply acq_no_ret; eauto|].
    destruct x.
    + pose proof (acquire_x_facts cf sp c (key_of cf a) l) as F. cbv zeta in F.
      destruct F as (_ & _ & _ & _ & _ & F); congruence.
    + pose proof (acquire_facts cf sp c (key_of cf a) l) as F. cbv zeta in F.
      destruct F as (_ & _ & _ & _ & _ & [F|[F|F]] & _); congruence.
Qed.

(* re-read path (the caller waited for the entry's lock): the value it is served was stored after its call began,
   i.e. it expires no earlier than ttl after the call *)
Theorem lru_reread_serves_fresh cf ops c k l t0 g v :
  phase (run cf ops) c = CLockWait k l t0 g ->
  snd (step cf (run cf ops) (Resume c)) = RRet v ->
  exists exp, dget k (dicts (run cf ops) g) = Some (EVal v exp) /\
              forall e dl, exp = Some e -> ttl cf = Some dl -> t0 + dl <= e.
Proof.
  intros Hp. pose proof (reachable_inv1 cf ops) as I. set (s := run cf ops) in *.
  unfold step. rewrite Hp, lock_do_eq.
  destruct (snd (Lock.step _ _)); cbn [fst snd]; try discriminate.
  match goal with |- context [body cf ?s1 c k l g] => pose proof (body_facts cf s1 c k l g) as F end.
  cbv zeta in F. sm. destruct F as (_ & _ & _ & _ & H & _). intros E. rewrite E in H.
  destruct H as [H|[[H _]|[[H _]|(y & v2 & e2 & H & H1 & H2 & _)]]]; try discriminate.
  injection H as <-. exists e2. split; [rewrite (dget_find _ _ _ H1), H2; reflexivity|].
  intros e dl -> Ht. apply (I_fresh _ _ I c k l t0 g v e dl Hp); [|exact Ht].
  rewrite (dget_find _ _ _ H1), H2. reflexivity.
Qed.
