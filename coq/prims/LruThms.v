(* C20 clauses as theorems over every op sequence of the Lru machine, the refutation witnesses for the
   known findings F3 / F8, and non-vacuity examples. *)
From AV Require Import Base Lru LruLockFacts LruDict LruProofs LruInv LruStep.
From AV Require Lock LockProofs.
From Coq Require Import Sorting.Sorted ZifyBool.

Lemma run_snoc cf ops o : run cf (ops ++ [o]) = fst (step cf (run cf ops) o).
Proof. unfold run. rewrite final_app. reflexivity. Qed.

(* ------------------------------------------------------------------------------------------------ *)
(* shape of what `body` and `acquire` return                                                          *)
(* ------------------------------------------------------------------------------------------------ *)
Lemma body_shape cf s c k l :
  let s' := fst (body cf s c k l) in
  let r := snd (body cf s c k l) in
  produced s' = produced s /\
  (r = RLockErr \/
   (r = RKeyError /\ dfind k (dict s) = None) \/
   (r = RBlocked /\ (exists x l', dfind k (dict s) = Some x /\ se x = EPlace l') /\
      phase s' c = CInWrapped k l None false) \/
   (exists x v e, r = RRet v /\ dfind k (dict s) = Some x /\ se x = EVal v e /\ phase s' c = CIdle)).
Proof.
  unfold body. destruct (dfind k (dict s)) as [x|] eqn:Hfind.
  - destruct (se x) as [l'|v e] eqn:Hse.
    + cbv zeta. split.
      * destruct (full cf _); [unfold evict; sm; destruct (dict s); reflexivity|reflexivity].
      * right. right. left. cbn [fst snd]. split; [reflexivity|]. split; [eauto|].
        destruct (full cf _); [unfold evict; sm; destruct (dict s); sm; apply upd_same|sm; apply upd_same].
    + cbv zeta. rewrite release_eq.
      destruct (snd (Lock.step _ _)); cbn [finish fst snd]; sm; (split; [reflexivity|]); auto.
      right. right. right. exists x, v, e. rewrite upd_same. auto.
  - rewrite release_eq. destruct (snd (Lock.step _ _)); cbn [finish fst snd]; sm; (split; [reflexivity|]); auto.
Qed.

Lemma body_phase cf s c k l :
  phase (fst (body cf s c k l)) c = CIdle \/ phase (fst (body cf s c k l)) c = CInWrapped k l None false.
Proof.
  unfold body. destruct (dfind k (dict s)) as [x|].
  - destruct (se x) as [l'|v e]; cbv zeta.
    + right. cbn [fst]. destruct (full cf _); [unfold evict; sm; destruct (dict s); sm; apply upd_same|sm; apply upd_same].
    + left. rewrite release_eq. cbn [finish fst]. sm. apply upd_same.
  - left. rewrite release_eq. cbn [finish fst]. sm. apply upd_same.
Qed.

Lemma acquire_phase cf s c k l :
  phase (fst (acquire cf s c k l)) c = CIdle \/ phase (fst (acquire cf s c k l)) c = CInWrapped k l None false \/
  phase (fst (acquire cf s c k l)) c = CLockWait k l (now s).
Proof.
  unfold acquire. rewrite lock_do_eq. destruct (snd (Lock.step _ _)); cbn [fst]; sm; rewrite ?upd_same; auto.
  match goal with |- context [body cf ?s1 c k l] => destruct (body_phase cf s1 c k l) as [H|H] end; auto.
Qed.

Lemma acquire_shape cf s c k l :
  let s' := fst (acquire cf s c k l) in
  let r := snd (acquire cf s c k l) in
  produced s' = produced s /\
  (r = RLockErr \/ r = RBlocked \/
   (r = RKeyError /\ dfind k (dict s) = None) \/
   (exists x v e, r = RRet v /\ dfind k (dict s) = Some x /\ se x = EVal v e)).
Proof.
  unfold acquire. rewrite lock_do_eq.
  destruct (snd (Lock.step _ _)); cbn [fst snd]; auto.
  match goal with |- context [body cf ?s1 c k l] => pose proof (body_shape cf s1 c k l) as H end.
  cbv zeta in H. sm. destruct H as [H1 H2]. split; [exact H1|].
  destruct H2 as [H2|[[H2 H3]|[[H2 _]|(x & v & e & H2 & H3 & H4 & _)]]]; eauto 10.
Qed.

(* ------------------------------------------------------------------------------------------------ *)
(* 1. right value                                                                                     *)
(* ------------------------------------------------------------------------------------------------ *)
Definition call_key (cf : cfg) (s : st) (o : op) : option key :=
  match o with
  | Call c a => Some (key_of cf a)
  | Resume c =>
      match phase s c with
      | CLockWait k _ _ => Some k | CInWrapped k _ _ _ => Some k | CHitCk k _ _ => Some k
      | CBypass k _ _ => Some k | CIdle => None
      end
  | _ => None
  end.

Lemma step_value cf s o s' v :
  Inv cf s -> step cf s o = (s', RRet v) -> exists k, call_key cf s o = Some k /\ In (k, v) (produced s').
Proof.
  intros I Hs.
  assert (Hfs : s' = fst (step cf s o)) by now rewrite Hs.
  assert (Hsn : snd (step cf s o) = RRet v) by now rewrite Hs.
  clear Hs. subst s'. destruct o as [c a|c v0|c e|c|c| |]; unfold step in *.
  - (* Call *)
    exists (key_of cf a). split; [reflexivity|]. revert Hsn.
    destruct (Nat.ltb c (ncall cf)); cbn [negb]; [|discriminate].
    destruct (is_cidle (phase s c)); cbn [negb]; [|discriminate].
    set (k := key_of cf a). destruct (is_zero_max cf); [discriminate|].
    destruct (dfind k (dict s)) as [x|] eqn:Hfind.
    + destruct (dfind_some _ _ _ Hfind) as [Hkx Hin]. destruct (se x) as [l|v1 exp] eqn:Hse.
      * destruct (acquire_shape cf s c k l) as [H1 H2]. cbv zeta in H1, H2. rewrite H1. intros E.
        rewrite E in H2. destruct H2 as [H2|[H2|[[H2 _]|(y & v2 & e2 & H2 & H3 & H4)]]]; try discriminate.
        injection H2 as <-. assert (y = x) by congruence. subst y. congruence.
      * destruct (expired exp (now s)).
        -- cbv zeta. match goal with |- context [acquire cf ?s4 c k ?l] =>
             destruct (acquire_shape cf s4 c k l) as [H1 H2]; cbv zeta in H1, H2; rewrite H1; sm; intros E;
             rewrite E in H2 end.
           destruct H2 as [H2|[H2|[[H2 _]|(y & v2 & e2 & H2 & H3 & H4)]]]; try discriminate.
           exfalso. pose proof (dget_find _ _ _ H3) as Hg. rewrite dget_dset_in_same, (dget_find _ _ _ Hfind) in Hg.
           rewrite H4 in Hg. discriminate.
        -- cbv zeta. destruct (ackpt cf); cbn [fst snd]; [discriminate|]. intros [= <-]. sm.
           rewrite <- Hkx. apply (I_vdict _ _ I x v1 exp Hin Hse).
    + cbv zeta. match goal with |- context [acquire cf ?s2 c k ?l] =>
        destruct (acquire_shape cf s2 c k l) as [H1 H2]; cbv zeta in H1, H2; rewrite H1; sm; intros E;
        rewrite E in H2 end.
      destruct H2 as [H2|[H2|[[H2 _]|(y & v2 & e2 & H2 & H3 & H4)]]]; try discriminate.
      exfalso. pose proof (dget_find _ _ _ H3) as Hg.
      rewrite dget_app, (dget_none_find _ _ Hfind), Nat.eqb_refl, H4 in Hg. discriminate.
  - exfalso. revert Hsn. destruct (phase s c) as [|k l t0|k l [w|] [|]|k v1 b|k [w|] [|]]; discriminate.
  - exfalso. revert Hsn. destruct (phase s c) as [|k l t0|k l [w|] [|]|k v1 b|k [w|] [|]]; discriminate.
  - exfalso. revert Hsn. destruct (phase s c) as [|k l t0|k l w b|k v1 b|k w b]; try discriminate.
    rewrite lock_do_eq. discriminate.
  - (* Resume *)
    cbn [call_key]. destruct (phase s c) as [|k l t0|k l w b|k v1 b|k w b] eqn:Hp; [discriminate| | | |].
    + exists k. split; [reflexivity|]. revert Hsn. rewrite lock_do_eq.
      destruct (snd (Lock.step _ _)); cbn [fst snd]; try discriminate.
      match goal with |- context [body cf ?s1 c k l] => pose proof (body_shape cf s1 c k l) as H end.
      cbv zeta in H. destruct H as [H1 H2]. rewrite H1. sm. intros E. rewrite E in H2.
      destruct H2 as [H2|[[H2 _]|[[H2 _]|(y & v2 & e2 & H2 & H3 & H4 & _)]]]; try discriminate.
      injection H2 as <-. destruct (dfind_some _ _ _ H3) as [Hk Hin]. rewrite <- Hk.
      apply (I_vdict _ _ I y v e2 Hin H4).
    + exists k. split; [reflexivity|]. revert Hsn. destruct b.
      * rewrite release_eq. destruct (snd (Lock.step _ _)); discriminate.
      * destruct w as [[v2|e]|]; [| |discriminate].
        -- cbv zeta. rewrite release_eq. destruct (snd (Lock.step _ _)); cbn [finish fst snd]; try discriminate.
           intros [= <-]. sm. now left.
        -- rewrite release_eq. destruct (snd (Lock.step _ _)); discriminate.
    + exists k. split; [reflexivity|]. revert Hsn. cbn [fst snd]. destruct b; [discriminate|].
      intros [= <-]. sm. apply (I_vhit _ _ I _ _ _ _ Hp).
    + exists k. split; [reflexivity|]. revert Hsn. destruct b; [discriminate|].
      destruct w as [[v2|e]|]; try discriminate. cbn [fst snd]. intros [= <-]. sm. now left.
  - discriminate Hsn.
  - exfalso. revert Hsn. destruct (all_idle cf s); cbn [negb]; [|discriminate].
    destruct (is_zero_max cf); discriminate.
Qed.

(* a call returns only a value that some execution of the wrapped function returned for the same key *)
Theorem lru_value_faithful cf ops o s' v :
  step cf (run cf ops) o = (s', RRet v) ->
  exists k, call_key cf (run cf ops) o = Some k /\ In (k, v) (produced s').
Proof. apply step_value, reachable_inv. Qed.

(* `produced` grows only when the wrapped function of a caller returns: (k, v) is logged exactly when the
   execution for key k started by that caller is resumed with the oracle value v *)
Theorem lru_produced_only_by_wrapped cf s o :
  produced (fst (step cf s o)) = produced s \/
  exists c k v, o = Resume c /\ produced (fst (step cf s o)) = (k, v) :: produced s /\
    ((exists l, phase s c = CInWrapped k l (Some (WRet v)) false) \/ phase s c = CBypass k (Some (WRet v)) false).
Proof.
  destruct o as [c a|c v0|c e|c|c| |]; unfold step.
  - left. destruct (Nat.ltb c (ncall cf)); cbn [negb]; [|reflexivity].
    destruct (is_cidle (phase s c)); cbn [negb]; [|reflexivity].
    destruct (is_zero_max cf); [reflexivity|].
    destruct (dfind _ (dict s)) as [x|].
    + destruct (se x) as [l|v1 exp].
      * apply acquire_shape.
      * destruct (expired exp (now s)); cbv zeta.
        -- match goal with |- context [acquire cf ?s4 c ?k ?l] =>
             destruct (acquire_shape cf s4 c k l) as [H1 _]; cbv zeta in H1; rewrite H1 end. reflexivity.
        -- destruct (ackpt cf); reflexivity.
    + cbv zeta. match goal with |- context [acquire cf ?s4 c ?k ?l] =>
        destruct (acquire_shape cf s4 c k l) as [H1 _]; cbv zeta in H1; rewrite H1 end. reflexivity.
  - left. destruct (phase s c) as [|k l t0|k l [w|] [|]|k v1 b|k [w|] [|]]; reflexivity.
  - left. destruct (phase s c) as [|k l t0|k l [w|] [|]|k v1 b|k [w|] [|]]; reflexivity.
  - left. destruct (phase s c) as [|k l t0|k l w b|k v1 b|k w b]; try reflexivity.
    rewrite lock_do_eq. reflexivity.
  - destruct (phase s c) as [|k l t0|k l w b|k v1 b|k w b] eqn:Hp; [left; reflexivity| | | |].
    + left. rewrite lock_do_eq. destruct (snd (Lock.step _ _)); cbn [fst snd]; try reflexivity.
      match goal with |- context [body cf ?s1 c k l] => destruct (body_shape cf s1 c k l) as [H1 _] end.
      cbv zeta in H1. rewrite H1. reflexivity.
    + destruct b.
      * left. rewrite release_eq. reflexivity.
      * destruct w as [[v2|e]|]; [| |left; reflexivity].
        -- right. exists c, k, v2. split; [reflexivity|]. split; [|left; eauto].
           cbv zeta. rewrite release_eq. reflexivity.
        -- left. rewrite release_eq. reflexivity.
    + left. reflexivity.
    + destruct b; [left; reflexivity|]. destruct w as [[v2|e]|]; [| |left; reflexivity].
      * right. exists c, k, v2. split; [reflexivity|]. split; [reflexivity|right; exact Hp].
      * left. reflexivity.
  - left. reflexivity.
  - left. destruct (all_idle cf s); cbn [negb]; [|reflexivity]. destruct (is_zero_max cf); reflexivity.
Qed.

(* a call raises (other than CancelledError) only what its own execution of the wrapped function raised *)
Theorem lru_raises_own cf s o e :
  snd (step cf s o) = RExc e ->
  exists c k, o = Resume c /\
    ((exists l, phase s c = CInWrapped k l (Some (WExc e)) false) \/ phase s c = CBypass k (Some (WExc e)) false).
Proof.
  destruct o as [c a|c v0|c e0|c|c| |]; unfold step.
  - destruct (Nat.ltb c (ncall cf)); cbn [negb]; [|discriminate].
    destruct (is_cidle (phase s c)); cbn [negb]; [|discriminate].
    destruct (is_zero_max cf); [discriminate|].
    destruct (dfind _ (dict s)) as [x|].
    + destruct (se x) as [l|v1 exp].
      * intros E. destruct (acquire_shape cf s c (key_of cf a) l) as [_ H]. cbv zeta in H. rewrite E in H.
        destruct H as [H|[H|[[H _]|(y & v2 & e2 & H & _)]]]; discriminate.
      * destruct (expired exp (now s)); cbv zeta.
        -- match goal with |- context [acquire cf ?s4 c ?k ?l] =>
             destruct (acquire_shape cf s4 c k l) as [_ H]; cbv zeta in H; intros E; rewrite E in H end.
           destruct H as [H|[H|[[H _]|(y & v2 & e2 & H & _)]]]; discriminate.
        -- destruct (ackpt cf); discriminate.
    + cbv zeta. match goal with |- context [acquire cf ?s4 c ?k ?l] =>
        destruct (acquire_shape cf s4 c k l) as [_ H]; cbv zeta in H; intros E; rewrite E in H end.
      destruct H as [H|[H|[[H _]|(y & v2 & e2 & H & _)]]]; discriminate.
  - destruct (phase s c) as [|k l t0|k l [w|] [|]|k v1 b|k [w|] [|]]; discriminate.
  - destruct (phase s c) as [|k l t0|k l [w|] [|]|k v1 b|k [w|] [|]]; discriminate.
  - destruct (phase s c) as [|k l t0|k l w b|k v1 b|k w b]; try discriminate. rewrite lock_do_eq. discriminate.
  - destruct (phase s c) as [|k l t0|k l w b|k v1 b|k w b] eqn:Hp; [discriminate| | | |].
    + rewrite lock_do_eq. destruct (snd (Lock.step _ _)); cbn [fst snd]; try discriminate.
      match goal with |- context [body cf ?s1 c k l] => destruct (body_shape cf s1 c k l) as [_ H] end.
      cbv zeta in H. intros E. rewrite E in H.
      destruct H as [H|[[H _]|[[H _]|(y & v2 & e2 & H & _)]]]; discriminate.
    + destruct b.
      * rewrite release_eq. destruct (snd (Lock.step _ _)); discriminate.
      * destruct w as [[v2|e2]|]; [| |discriminate].
        -- cbv zeta. rewrite release_eq. destruct (snd (Lock.step _ _)); discriminate.
        -- rewrite release_eq. destruct (snd (Lock.step _ _)); cbn [finish fst snd]; try discriminate.
           intros [= <-]. exists c, k. split; [reflexivity|]. left. eauto.
    + destruct b; discriminate.
    + destruct b; [discriminate|]. destruct w as [[v2|e2]|]; try discriminate.
      cbn [fst snd]. intros [= <-]. exists c, k. split; [reflexivity|]. right. exact Hp.
  - discriminate.
  - destruct (all_idle cf s); cbn [negb]; [|discriminate]. destruct (is_zero_max cf); discriminate.
Qed.

(* ------------------------------------------------------------------------------------------------ *)
(* 2. single flight                                                                                   *)
(* ------------------------------------------------------------------------------------------------ *)
Theorem lru_single_flight cf ops c1 c2 k l1 l2 p1 b1 p2 b2 :
  no_inflight_eviction cf ops -> no_waited_eviction cf ops ->
  phase (run cf ops) c1 = CInWrapped k l1 p1 b1 ->
  phase (run cf ops) c2 = CInWrapped k l2 p2 b2 ->
  c1 = c2.
Proof.
  intros Hf Hw H1 H2. pose proof (reachable_inv cf ops) as I.
  pose proof (I_A _ _ I Hf Hw _ _ _ _ _ H1) as A1. pose proof (I_A _ _ I Hf Hw _ _ _ _ _ H2) as A2.
  assert (l1 = l2) by congruence. subst l2.
  eapply held_unique; [apply (L_inv _ _ _ _ _ (I_lp _ _ I) l1)| |];
    eapply (L_run _ _ _ _ _ (I_lp _ _ I)); eauto.
Qed.

(* later callers reuse the first result: a caller that waited for the entry's lock and finds the value stored
   returns that value (or is cancelled) and never starts an execution of its own *)
Theorem lru_reuse_first_result cf ops c k l t0 v e :
  phase (run cf ops) c = CLockWait k l t0 ->
  dget k (dict (run cf ops)) = Some (EVal v e) ->
  let r := snd (step cf (run cf ops) (Resume c)) in
  r = RRet v \/ r = RCancelled \/ r = RRejected.
Proof.
  intros Hp Hd. pose proof (reachable_inv cf ops) as I. set (s := run cf ops) in *.
  destruct (step_ok cf s (Resume c) I) as [_ [Hgood _]].
  cbv zeta. revert Hgood. unfold step. rewrite Hp, lock_do_eq.
  destruct (snd (Lock.step _ _)); cbn [fst snd]; auto; try congruence.
  match goal with |- context [body cf ?s1 c k l] => destruct (body_shape cf s1 c k l) as [_ H] end.
  cbv zeta in H. sm. intros Hg.
  destruct (dget_some _ _ _ Hd) as (x & Hx & Hse & _).
  destruct H as [H|[[_ H]|[[_ [(y & l' & H & H') _]]|(y & v2 & e2 & H & H1 & H2 & _)]]]; try congruence.
  left. rewrite H. congruence.
Qed.

(* ------------------------------------------------------------------------------------------------ *)
(* 3. calls with different arguments do not block one another                                         *)
(* ------------------------------------------------------------------------------------------------ *)
Theorem lru_distinct_keys_independent cf ops c k l t0 :
  phase (run cf ops) c = CLockWait k l t0 ->
  lkey (run cf ops) l = k /\
  (forall c', Lock.phase_of (locks (run cf ops) l) c' <> Lock.Idle \/ In c' (Lock.held (locks (run cf ops) l)) ->
     (exists t, phase (run cf ops) c' = CLockWait k l t) \/
     (exists p b, phase (run cf ops) c' = CInWrapped k l p b)) /\
  (forall c', Lock.owner (locks (run cf ops) l) = Some c' ->
     (exists t, phase (run cf ops) c' = CLockWait k l t) \/
     (exists p b, phase (run cf ops) c' = CInWrapped k l p b)).
Proof.
  intros Hp. pose proof (reachable_inv cf ops) as I. set (s := run cf ops) in *.
  pose proof (I_lp _ _ I) as LPs.
  assert (Hk : lkey s l = k) by (apply (L_ref _ _ _ _ _ LPs c); now rewrite Hp).
  assert (Heng : forall c', engaged (locks s l) c' ->
            (exists t, phase s c' = CLockWait k l t) \/ (exists p b, phase s c' = CInWrapped k l p b)).
  { intros c' He. destruct (L_eng _ _ _ _ _ LPs l c' He) as [k' Hk'].
    destruct (L_ref _ _ _ _ _ LPs c' k' l Hk') as [_ E]. assert (Ek : k' = k) by congruence.
    destruct (phase s c') as [|k1 l1 t1|k1 l1 p1 b1|k1 v1 b1|k1 p1 b1]; cbn in Hk'; try discriminate;
      injection Hk' as E1 E2.
    - left. exists t1. congruence.
    - right. exists p1, b1. congruence. }
  refine (conj Hk (conj Heng _)).
  intros c' Ho. apply Heng. apply (LockProofs.I_owner _ (L_inv _ _ _ _ _ LPs l)) in Ho.
  destruct Ho as [H|[H|(f & H & _)]]; [right; exact H|left; congruence|left; congruence].
Qed.

(* ------------------------------------------------------------------------------------------------ *)
(* 4. no internal error                                                                               *)
(* ------------------------------------------------------------------------------------------------ *)
Theorem lru_no_internal_error cf ops o :
  no_inflight_eviction cf (ops ++ [o]) -> no_waited_eviction cf (ops ++ [o]) ->
  snd (step cf (run cf ops) o) <> RKeyError /\ snd (step cf (run cf ops) o) <> RLockErr.
Proof.
  unfold no_inflight_eviction, no_waited_eviction, evicts_inflight, evicts_waited. rewrite run_snoc.
  intros Hf Hw. destruct (step_ok cf (run cf ops) o (reachable_inv cf ops)) as [_ [H1 H2]]. auto.
Qed.

(* the embedded locks never report an error, whatever is evicted *)
Theorem lru_no_lock_error cf ops o : snd (step cf (run cf ops) o) <> RLockErr.
Proof. apply (step_ok cf (run cf ops) o (reachable_inv cf ops)). Qed.

(* ------------------------------------------------------------------------------------------------ *)
(* 5. bounded retention, least recently used first                                                    *)
(* ------------------------------------------------------------------------------------------------ *)
Theorem lru_bounded cf ops m :
  no_inflight_eviction cf ops -> maxsize cf = Some m ->
  length (filter (fun x => negb (is_place (se x))) (dict (run cf ops))) +
  length (filter (fun c => match phase (run cf ops) c with CInWrapped _ _ _ _ => true | _ => false end)
                 (seq 0 (ncall cf))) <= m.
Proof.
  intros Hf Hm. destruct (I_bound _ _ (reachable_inv cf ops) Hf) as [H1 H2]. specialize (H2 m Hm).
  change (nval (dict (run cf ops)) + nrun cf (phase (run cf ops)) <= m). lia.
Qed.

Theorem lru_order cf ops :
  NoDup (map sk (dict (run cf ops))) /\
  StronglySorted (fun a b => ss a < ss b) (dict (run cf ops)) /\
  (forall x, In x (dict (run cf ops)) -> ss x < clk (run cf ops)).
Proof.
  pose proof (reachable_inv cf ops) as I.
  exact (conj (I_nodup _ _ I) (conj (I_sorted _ _ I) (I_stamp _ _ I))).
Qed.

(* keys of everything behind the head survive any step other than cache_clear() *)
Definition kept (d d' : list slot) : Prop := forall key, In key (keys (tl d)) -> In key (keys d').

Lemma kept_refl d : kept d d.
Proof. intros key H. destruct d; [contradiction|]. now right. Qed.

Lemma kept_tl d : kept d (tl d).
Proof. intros key H. exact H. Qed.

Lemma keys_dmove_in k st d key : In key (keys d) -> In key (keys (dmove k st d)).
Proof.
  unfold dmove. destruct (dfind k d) as [x|] eqn:E; [|auto]. intros H.
  unfold keys. rewrite map_app. apply in_or_app. cbn.
  destruct (Nat.eq_dec key k) as [->|N]; [right; now left|left].
  fold (keys (dremove k d)). rewrite keys_dremove. apply filter_In. split; [exact H|].
  destruct (Nat.eqb_spec key k); [contradiction|reflexivity].
Qed.

Lemma kept_dmove k st d : kept d (dmove k st d).
Proof. intros key H. apply keys_dmove_in. destruct d; [contradiction|]. now right. Qed.

Lemma body_kept cf s c k l : kept (dict s) (dict (fst (body cf s c k l))).
Proof.
  unfold body. destruct (dfind k (dict s)) as [x|].
  - destruct (se x) as [l'|v e]; cbv zeta.
    + destruct (full cf _); sm; [|apply kept_refl].
      unfold evict. sm. destruct (dict s) as [|x0 r] eqn:E; sm; [intros key []|]. apply (kept_tl (x0 :: r)).
    + rewrite release_eq. cbn [finish fst]. sm. apply kept_dmove.
  - rewrite release_eq. cbn [finish fst]. sm. apply kept_refl.
Qed.

Lemma acquire_kept cf s c k l : kept (dict s) (dict (fst (acquire cf s c k l))).
Proof.
  unfold acquire. rewrite lock_do_eq. destruct (snd (Lock.step _ _)); cbn [fst]; sm; try apply kept_refl.
  match goal with |- context [body cf ?s1 c k l] => apply (body_kept cf s1 c k l) end.
Qed.

Lemma kept_trans_sub d d1 d' : (forall key, In key (keys (tl d)) -> In key (keys (tl d1))) -> kept d1 d' -> kept d d'.
Proof. intros H1 H2 key H. apply H2, H1, H. Qed.

Lemma keys_tl_app d p key : In key (keys (tl d)) -> In key (keys (tl (d ++ [p]))).
Proof.
  destruct d as [|x r]; [contradiction|]. cbn. unfold keys. rewrite map_app. intros H. apply in_or_app. now left.
Qed.

Lemma keys_tl_dset_in k e d : keys (tl (dset_in k e d)) = keys (tl d).
Proof.
  pose proof (keys_dset_in k e d) as H. destruct d as [|x r]; [reflexivity|].
  cbn [dset_in] in *. destruct (Nat.eqb (sk x) k); cbn in *; congruence.
Qed.

Lemma step_kept cf s o : o <> Clear -> kept (dict s) (dict (fst (step cf s o))).
Proof.
  intros Hne. destruct o as [c a|c v0|c e|c|c| |]; unfold step; try contradiction.
  - destruct (Nat.ltb c (ncall cf)); cbn [negb fst]; [|apply kept_refl].
    destruct (is_cidle (phase s c)); cbn [negb fst]; [|apply kept_refl].
    destruct (is_zero_max cf); [apply kept_refl|].
    destruct (dfind _ (dict s)) as [x|].
    + destruct (se x) as [l|v1 exp].
      * apply acquire_kept.
      * destruct (expired exp (now s)); cbv zeta.
        -- eapply kept_trans_sub; [|apply acquire_kept]. sm. intros key. now rewrite keys_tl_dset_in.
        -- destruct (ackpt cf); cbn [fst]; sm; apply kept_dmove.
    + cbv zeta. eapply kept_trans_sub; [|apply acquire_kept]. sm. intros key. apply keys_tl_app.
  - destruct (phase s c) as [|k l t0|k l [w|] [|]|k v1 b|k [w|] [|]]; apply kept_refl.
  - destruct (phase s c) as [|k l t0|k l [w|] [|]|k v1 b|k [w|] [|]]; apply kept_refl.
  - destruct (phase s c) as [|k l t0|k l w b|k v1 b|k w b]; try apply kept_refl.
    rewrite lock_do_eq. apply kept_refl.
  - destruct (phase s c) as [|k l t0|k l w b|k v1 b|k w b]; try apply kept_refl.
    + rewrite lock_do_eq. destruct (snd (Lock.step _ _)); cbn [fst]; sm; try apply kept_refl.
      match goal with |- context [body cf ?s1 c k l] => apply (body_kept cf s1 c k l) end.
    + destruct b.
      * rewrite release_eq. apply kept_refl.
      * destruct w as [[v2|e]|]; [| |apply kept_refl].
        -- cbv zeta. rewrite release_eq. cbn [finish fst]. sm. intros key H.
           assert (Hin : In key (keys (dict s))) by (destruct (dict s); [contradiction|now right]).
           unfold dstore. destruct (dfind k (dict s)); [now rewrite keys_dset_in|].
           unfold keys. rewrite map_app. apply in_or_app. now left.
        -- rewrite release_eq. apply kept_refl.
    + destruct b; [apply kept_refl|]. destruct w as [[v2|e]|]; apply kept_refl.
  - apply kept_refl.
Qed.

(* eviction order: an entry whose key disappears from the dict in a step (other than cache_clear()) carries the
   smallest stamp, i.e. it is the one whose last insertion / hit is the oldest *)
Theorem lru_evicts_least_recent cf ops o x :
  o <> Clear -> In x (dict (run cf ops)) ->
  (forall y, In y (dict (fst (step cf (run cf ops) o))) -> sk y <> sk x) ->
  forall y, In y (dict (run cf ops)) -> ss x <= ss y.
Proof.
  intros Hne Hx Hgone y Hy. pose proof (reachable_inv cf ops) as I. set (s := run cf ops) in *.
  pose proof (step_kept cf s o Hne) as HK.
  destruct (dict s) as [|h t] eqn:Ed; [contradiction|].
  assert (x = h).
  { destruct Hx as [<-|Hx]; [reflexivity|]. exfalso.
    assert (Hin : In (sk x) (keys (dict (fst (step cf s o))))) by (apply HK; cbn; apply in_keys, Hx).
    unfold keys in Hin. apply in_map_iff in Hin. destruct Hin as (z & Hz1 & Hz2). eapply Hgone; eauto. }
  subst x. pose proof (I_sorted _ _ I) as Hs. rewrite Ed in Hs. eapply sorted_head_min; eauto.
Qed.

(* ------------------------------------------------------------------------------------------------ *)
(* 6. an expired entry is recomputed, not served                                                      *)
(* ------------------------------------------------------------------------------------------------ *)
(* lookup path: a call that is answered from the cache at once (returned, or in the hit checkpoint) found an
   entry that had not expired *)
Theorem lru_expired_recomputed cf s c a v :
  snd (step cf s (Call c a)) <> RRejected ->
  (snd (step cf s (Call c a)) = RRet v \/
   exists b, phase (fst (step cf s (Call c a))) c = CHitCk (key_of cf a) v b) ->
  exists x exp, dfind (key_of cf a) (dict s) = Some x /\ se x = EVal v exp /\ expired exp (now s) = false.
Proof.
  unfold step.
  destruct (Nat.ltb c (ncall cf)); cbn [negb]; [|cbn; congruence].
  destruct (phase s c) eqn:Hp; cbn [is_cidle negb]; try (cbn; congruence).
  set (k := key_of cf a).
  destruct (is_zero_max cf).
  { cbn [fst snd]. intros _ [H|[b H]]; [discriminate|]. sm. rewrite upd_same in H. discriminate. }
  assert (Hacq : forall s0 l, phase s0 c = CIdle ->
            (exists x l', dfind k (dict s0) = Some x /\ se x = EPlace l') ->
            ~ (snd (acquire cf s0 c k l) = RRet v \/ exists b, phase (fst (acquire cf s0 c k l)) c = CHitCk k v b)).
  { intros s0 l Hp0 (x & l' & Hx & Hse) [H|[b H]].
    - destruct (acquire_shape cf s0 c k l) as [_ H2]. cbv zeta in H2. rewrite H in H2.
      destruct H2 as [H2|[H2|[[H2 _]|(y & v2 & e2 & H2 & H3 & H4)]]]; try discriminate. congruence.
    - destruct (acquire_phase cf s0 c k l) as [H2|[H2|H2]]; congruence. }
  destruct (dfind k (dict s)) as [x|] eqn:Hfind.
  - destruct (se x) as [l|v1 exp] eqn:Hse.
    + intros _ H. exfalso. apply (Hacq s l Hp); eauto.
    + destruct (expired exp (now s)) eqn:Hexp.
      * cbv zeta. intros _ H. exfalso. revert H. apply Hacq; [exact Hp|]. sm.
        pose proof (dget_find _ _ _ Hfind) as Hg.
        pose proof (dget_dset_in_same k (EPlace (nlock s)) (dict s)) as Hg'. rewrite Hg in Hg'.
        destruct (dget_some _ _ _ Hg') as (y & Hy & Hy' & _). eauto.
      * cbv zeta. intros _ H. exists x, exp. refine (conj eq_refl (conj _ Hexp)).
        destruct (ackpt cf); cbn [fst snd] in H; sm.
        -- destruct H as [H|[b H]]; [discriminate|]. rewrite upd_same in H. congruence.
        -- destruct H as [H|[b H]]; [congruence|]. rewrite Hp in H. discriminate.
  - cbv zeta. intros _ H. exfalso. revert H. apply Hacq; [exact Hp|]. sm.
    pose proof (dget_app k (dict s) k (EPlace (nlock s)) (clk s)) as Hg.
    rewrite (dget_none_find _ _ Hfind), Nat.eqb_refl in Hg.
    destruct (dget_some _ _ _ Hg) as (y & Hy & Hy' & _). eauto.
Qed.

(* re-read path (the caller waited for the entry's lock): the value it is served was stored after its call began,
   i.e. it expires no earlier than ttl after the call *)
Theorem lru_reread_serves_fresh cf ops c k l t0 v :
  phase (run cf ops) c = CLockWait k l t0 ->
  snd (step cf (run cf ops) (Resume c)) = RRet v ->
  exists exp, dget k (dict (run cf ops)) = Some (EVal v exp) /\
              forall e dl, exp = Some e -> ttl cf = Some dl -> t0 + dl <= e.
Proof.
  intros Hp. pose proof (reachable_inv cf ops) as I. set (s := run cf ops) in *.
  unfold step. rewrite Hp, lock_do_eq.
  destruct (snd (Lock.step _ _)); cbn [fst snd]; try discriminate.
  match goal with |- context [body cf ?s1 c k l] => destruct (body_shape cf s1 c k l) as [_ H] end.
  cbv zeta in H. sm. intros E. rewrite E in H.
  destruct H as [H|[[H _]|[[H _]|(y & v2 & e2 & H & H1 & H2 & _)]]]; try discriminate.
  injection H as <-. exists e2. split; [rewrite (dget_find _ _ _ H1), H2; reflexivity|].
  intros e dl -> Ht. apply (I_fresh _ _ I c k l t0 v e dl Hp); [|exact Ht].
  rewrite (dget_find _ _ _ H1), H2. reflexivity.
Qed.

(* ------------------------------------------------------------------------------------------------ *)
(* Refutations: without the hypotheses the clauses fail (findings F3 and F8), by concrete histories   *)
(* ------------------------------------------------------------------------------------------------ *)
Definition cfg_m1 := mkcfg (Some 1) None false false 3.       (* maxsize = 1, three callers *)
Definition cfg_m2 := mkcfg (Some 2) None false false 3.
Definition cfg_ttl0 := mkcfg None (Some 0) false false 3.     (* unbounded, ttl = 0 *)
Definition cfg_m1_ck := mkcfg (Some 1) None true false 3.     (* maxsize = 1, always_checkpoint *)

(* F3(a): caller 2's miss on key 1 evicts the in-flight placeholder of key 0, the computation of key 0 fails,
   the waiter re-reads the entry: KeyError *)
Definition w_f3_keyerror := [Call 0 0; Call 1 0; Call 2 2; WrappedRaises 0 0; Resume 0].
Theorem lru_refuted_keyerror :
  exists cf ops o, evicts_inflight cf (ops ++ [o]) = true /\ snd (step cf (run cf ops) o) = RKeyError.
Proof. exists cfg_m1, w_f3_keyerror, (Resume 1). vm_compute. auto. Qed.

(* F3(b): the evicted in-flight computation and the evicting one both complete: two results with maxsize = 1 *)
Definition w_f3_exceeds :=
  [Call 0 0; Call 2 2; WrappedReturns 0 1; Resume 0; WrappedReturns 2 2; Resume 2].
Theorem lru_refuted_exceeds :
  exists cf ops m, maxsize cf = Some m /\
    m < length (filter (fun x => negb (is_place (se x))) (dict (run cf ops))).
Proof. exists cfg_m1, w_f3_exceeds, 1. vm_compute. auto. Qed.

(* F3(c): a failed computation leaks currsize; the next caller evicts its own placeholder and a third caller
   installs a new one: two executions for key 0 at the same time *)
Definition w_f3_double_flight := [Call 0 0; WrappedRaises 0 0; Resume 0; Call 1 0; Call 2 0].
Theorem lru_refuted_double_flight :
  exists cf ops c1 c2 k l1 l2, c1 <> c2 /\
    phase (run cf ops) c1 = CInWrapped k l1 None false /\ phase (run cf ops) c2 = CInWrapped k l2 None false.
Proof. exists cfg_m1, w_f3_double_flight, 1, 2, 0, 0, 1. vm_compute. repeat split. discriminate. Qed.

(* F3(d): a caller cancelled before its computation started leaves a placeholder that was never counted; a
   later miss evicts that (idle) placeholder instead of a value: two results with maxsize = 1 *)
Definition w_f3_exceeds_leftover :=
  [Call 0 0; CancelCaller 0; Resume 0; Call 1 2; Resume 1; WrappedReturns 1 1; Resume 1;
   Call 2 4; Resume 2; WrappedReturns 2 2; Resume 2].
Theorem lru_refuted_exceeds_leftover :
  exists cf ops m, maxsize cf = Some m /\
    m < length (filter (fun x => negb (is_place (se x))) (dict (run cf ops))).
Proof. exists cfg_m1_ck, w_f3_exceeds_leftover, 1. vm_compute. auto. Qed.

(* F8(a): no placeholder is ever evicted, but the completed value of key 0 is evicted while waiter 1 has been
   handed the entry's lock: KeyError *)
Definition w_f8_keyerror := [Call 0 0; Call 1 0; WrappedReturns 0 7; Resume 0; Call 2 2].
Theorem lru_refuted_keyerror_waited :
  exists cf ops o, evicts_inflight cf (ops ++ [o]) = false /\ evicts_waited cf (ops ++ [o]) = true /\
    snd (step cf (run cf ops) o) = RKeyError.
Proof. exists cfg_m1, w_f8_keyerror, (Resume 1). vm_compute. auto. Qed.

(* F8(b): ... and caller 0 installs a new placeholder (new lock) before the waiter runs: two executions *)
Definition w_f8_double_flight :=
  [Call 0 0; Call 1 0; WrappedReturns 0 1; Resume 0; Call 2 2; WrappedReturns 2 2; Resume 2;
   Call 2 4; WrappedReturns 2 3; Resume 2; Call 0 0; Resume 1].
Theorem lru_refuted_double_flight_waited :
  exists cf ops c1 c2 k l1 l2, evicts_inflight cf ops = false /\ evicts_waited cf ops = true /\ c1 <> c2 /\
    phase (run cf ops) c1 = CInWrapped k l1 None false /\ phase (run cf ops) c2 = CInWrapped k l2 None false.
Proof. exists cfg_m2, w_f8_double_flight, 0, 1, 0, 3, 0. vm_compute. repeat split. discriminate. Qed.

(* F8(c): the value expires between the hand-off and the waiter's resumption; a third caller replaces it by a
   placeholder with a new lock: two executions *)
Definition w_f8_ttl := [Call 0 0; Call 1 0; WrappedReturns 0 1; Resume 0; Call 2 0; Resume 1].
Theorem lru_refuted_double_flight_ttl :
  exists cf ops c1 c2 k l1 l2, maxsize cf = None /\ dict (run cf ops) <> [] /\
    evicts_inflight cf ops = false /\ evicts_waited cf ops = true /\ c1 <> c2 /\
    phase (run cf ops) c1 = CInWrapped k l1 None false /\ phase (run cf ops) c2 = CInWrapped k l2 None false.
Proof. exists cfg_ttl0, w_f8_ttl, 2, 1, 0, 1, 0. vm_compute. repeat split; discriminate. Qed.

(* ------------------------------------------------------------------------------------------------ *)
(* Non-vacuity: concrete reachable histories that satisfy the hypotheses of the positive theorems      *)
(* ------------------------------------------------------------------------------------------------ *)
(* contention on key 0 (caller 1 waits for caller 0's flight and reuses its result), a second key in flight,
   then a third key whose miss evicts the completed, least recently used entry of key 1 *)
Definition ex_ops :=
  [Call 0 0; Call 1 0; Call 2 2; WrappedReturns 0 5; Resume 0; Resume 1; WrappedReturns 2 6; Resume 2;
   Call 0 4; WrappedReturns 0 7; Resume 0].

Example ex_hypotheses_hold :
  no_inflight_eviction cfg_m2 ex_ops /\ no_waited_eviction cfg_m2 ex_ops /\
  (forall n, n <= length ex_ops -> evicts_inflight cfg_m2 (firstn n ex_ops) = false).
Proof.
  refine (conj eq_refl (conj eq_refl _)). intros n Hn.
  do 12 (destruct n as [|n]; [reflexivity|]). cbn in Hn. lia.
Qed.

Example ex_contended_state :
  let s := run cfg_m2 (firstn 3 ex_ops) in
  phase s 0 = CInWrapped 0 0 None false /\ phase s 1 = CLockWait 0 0 0 /\ phase s 2 = CInWrapped 1 1 None false /\
  Lock.owner (locks s 0) = Some 0 /\ length (Lock.waiters (locks s 0)) = 1.
Proof. vm_compute. auto 6. Qed.

Example ex_outputs :
  map (fun n => snd (step cfg_m2 (run cfg_m2 (firstn n ex_ops)) (nth n ex_ops Tick))) (seq 0 11) =
  [RBlocked; RBlocked; RBlocked; RNone; RRet 5; RRet 5; RNone; RRet 6; RBlocked; RNone; RRet 7].
Proof. vm_compute. reflexivity. Qed.

Example ex_reuse_hyp :
  let s := run cfg_m2 (firstn 5 ex_ops) in
  phase s 1 = CLockWait 0 0 0 /\ dget 0 (dict s) = Some (EVal 5 None) /\ snd (step cfg_m2 s (Resume 1)) = RRet 5.
Proof. vm_compute. auto. Qed.

Example ex_evicts_completed_lru :
  let s := run cfg_m2 (firstn 8 ex_ops) in
  map sk (dict s) = [1; 0] /\ map sk (dict (fst (step cfg_m2 s (Call 0 4)))) = [0; 2] /\
  currsize (run cfg_m2 ex_ops) = 2%Z /\ hits (run cfg_m2 ex_ops) = 1 /\ misses (run cfg_m2 ex_ops) = 3 /\
  map se (dict (run cfg_m2 ex_ops)) = [EVal 5 None; EVal 7 None].
Proof. vm_compute. auto 7. Qed.

(* ttl = 2: a hit before the expiry, recomputation after it *)
Definition cfg_ttl2 := mkcfg None (Some 2) false false 2.
Definition ex_ttl_ops :=
  [Call 0 0; WrappedReturns 0 5; Resume 0; Call 1 0; Tick; Tick; Call 1 0; WrappedReturns 1 6; Resume 1].

Example ex_ttl :
  map (fun n => snd (step cfg_ttl2 (run cfg_ttl2 (firstn n ex_ttl_ops)) (nth n ex_ttl_ops Tick))) (seq 0 9) =
  [RBlocked; RNone; RRet 5; RRet 5; RNone; RNone; RBlocked; RNone; RRet 6] /\
  no_inflight_eviction cfg_ttl2 ex_ttl_ops /\ no_waited_eviction cfg_ttl2 ex_ttl_ops /\
  map se (dict (run cfg_ttl2 ex_ttl_ops)) = [EVal 6 (Some 4)].
Proof. vm_compute. auto. Qed.

(* always_checkpoint: the hit suspends in the checkpoint *)
Definition cfg_ck := mkcfg (Some 2) None true false 2.
Example ex_hit_checkpoint :
  let s := run cfg_ck [Call 0 0; Resume 0; WrappedReturns 0 5; Resume 0] in
  snd (step cfg_ck s (Call 1 0)) = RBlocked /\ phase (fst (step cfg_ck s (Call 1 0))) 1 = CHitCk 0 5 false.
Proof. vm_compute. auto. Qed.

(* the wrapped function raises: the exception reaches exactly the caller that executed it *)
Example ex_raises :
  let s := run cfg_m2 [Call 0 0; Call 1 0; WrappedRaises 0 1] in
  snd (step cfg_m2 s (Resume 0)) = RExc 1 /\
  snd (step cfg_m2 (fst (step cfg_m2 s (Resume 0))) (Resume 1)) = RBlocked.
Proof. vm_compute. auto. Qed.

(* a waiter with a ttl: it called at t0 = 0, the value is stored at time 1 and expires at 3 >= t0 + ttl *)
Example ex_reread_ttl :
  let s := run cfg_ttl2 [Call 0 0; Call 1 0; Tick; WrappedReturns 0 5; Resume 0] in
  phase s 1 = CLockWait 0 0 0 /\ snd (step cfg_ttl2 s (Resume 1)) = RRet 5 /\
  dget 0 (dict s) = Some (EVal 5 (Some 3)).
Proof. vm_compute. auto. Qed.
