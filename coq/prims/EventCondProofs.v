(* Proofs about the Event and Condition machines: inductive invariants for every op sequence. *)
From AV Require Import Base Lock LockProofs EventCond.

(* ====================================================================================================== *)
(*  list facts                                                                                            *)
(* ====================================================================================================== *)
Lemma remove_first_subseq x l : subseq (remove_first x l) l.
Proof.
  induction l as [|y r IH]; cbn; [apply ss_nil|].
  destruct (Nat.eqb y x); [apply ss_skip, subseq_refl | apply ss_take, IH].
Qed.

Lemma remove_first_in x y l : In y (remove_first x l) -> In y l.
Proof. apply subseq_in, remove_first_subseq. Qed.

Lemma remove_first_in_other x y l : In y l -> y <> x -> In y (remove_first x l).
Proof.
  induction l as [|z r IH]; cbn; [tauto|]. intros [H|H] Hne.
  - subst z. destruct (Nat.eqb_spec y x); [contradiction|now left].
  - destruct (Nat.eqb z x); [exact H|right; auto].
Qed.

Lemma remove_first_nodup x l : NoDup l -> NoDup (remove_first x l).
Proof. intros H. eapply subseq_nodup; [apply remove_first_subseq|exact H]. Qed.

Lemma remove_first_gone x l : NoDup l -> ~ In x (remove_first x l).
Proof.
  induction l as [|z r IH]; cbn; intros Hn; [tauto|].
  inversion Hn as [|a b Hz Hr]; subst.
  destruct (Nat.eqb_spec z x) as [->|Hne]; [exact Hz|].
  intros [H|H]; [contradiction|]. now apply IH.
Qed.

Lemma remove_first_length x l : In x l -> S (length (remove_first x l)) = length l.
Proof.
  induction l as [|z r IH]; cbn; [tauto|]. intros H.
  destruct (Nat.eqb_spec z x) as [->|Hne]; [reflexivity|].
  destruct H as [H|H]; [contradiction|]. cbn. now rewrite IH.
Qed.

Lemma remove_first_notin x l : ~ In x l -> remove_first x l = l.
Proof.
  induction l as [|z r IH]; cbn; intros H; [reflexivity|].
  destruct (Nat.eqb_spec z x) as [->|Hne]; [exfalso; apply H; now left|].
  f_equal. apply IH. intros H1. apply H. now right.
Qed.

Lemma NoDup_app_tail1' (l : list nat) x : NoDup l -> ~ In x l -> NoDup (l ++ [x]).
Proof. apply NoDup_app_tail1. Qed.

(* ====================================================================================================== *)
(*  Event                                                                                                 *)
(* ====================================================================================================== *)
Lemma resolve_all_spec ws : forall fu f,
  (fu f <> FPending -> resolve_all ws fu f = fu f) /\
  (~ In f ws -> resolve_all ws fu f = fu f) /\
  (In f ws -> fu f = FPending -> resolve_all ws fu f = FSet) /\
  (resolve_all ws fu f = FCancelled -> fu f = FCancelled).
Proof.
  induction ws as [|g r IH]; intros fu f; cbn [resolve_all In].
  - refine (conj (fun _ => eq_refl) (conj (fun _ => eq_refl) (conj _ (fun H => H)))). intros [].
  - pose proof (IH (match fu g with FPending => upd fu g FSet | _ => fu end) f) as IHf.
    revert IHf. destruct (fu g) eqn:E; intros (I1 & I2 & I3 & I4).
    + destruct (Nat.eq_dec f g) as [->|Hne].
      * rewrite upd_same in *. refine (conj _ (conj _ (conj _ _))).
        -- intros H; congruence.
        -- intros H. exfalso; apply H; now left.
        -- intros _ _. apply I1. discriminate.
        -- intros H. apply I4 in H. discriminate.
      * rewrite (upd_other _ _ _ _ Hne) in *. refine (conj I1 (conj _ (conj _ I4))).
        -- intros H. apply I2. intros H1. apply H. now right.
        -- intros [H|H]; [congruence|]. apply I3, H.
    + refine (conj I1 (conj _ (conj _ I4))).
      * intros H. apply I2. tauto.
      * intros [H|H] Hp; [subst; congruence|]. apply I3; auto.
    + refine (conj I1 (conj _ (conj _ I4))).
      * intros H. apply I2. tauto.
      * intros [H|H] Hp; [subst; congruence|]. apply I3; auto.
Qed.

Record EInv (s : est) : Prop := {
  E_flag : eflag s = true <-> 0 < esets s;
  E_set : forall t f, ephase_of s t = EWaiting f -> efuts s f = FSet -> eflag s = true;
  E_yield : forall t, ephase_of s t = EYield -> eflag s = true;
  E_pend : forall t f, ephase_of s t = EWaiting f -> efuts s f = FPending ->
                       eflag s = false /\ In f (ewaiters s);
  E_fresh : forall t f, ephase_of s t = EWaiting f -> f < enfut s;
  E_inj : forall t1 t2 f, ephase_of s t1 = EWaiting f -> ephase_of s t2 = EWaiting f -> t1 = t2
}.

Lemma einv_init : EInv einit.
Proof.
  constructor; cbn.
  - split; [discriminate|lia].
  - discriminate.
  - discriminate.
  - discriminate.
  - discriminate.
  - discriminate.
Qed.

Lemma e_is_idle_true p : e_is_idle p = true <-> p = EIdle.
Proof. destruct p; cbn; split; congruence. Qed.

(* a task leaves its wait: phase t := EIdle, its future (if any) removed from the deque *)
Lemma e_leave_inv s t ws m :
  EInv s -> ephase_of s t <> EIdle ->
  (forall f, ephase_of s t = EWaiting f -> efuts s f <> FPending /\ ws = remove_first f (ewaiters s)) ->
  (ephase_of s t = EYield -> ws = ewaiters s) ->
  EInv (emk (eflag s) ws (efuts s) (enfut s) (upd (ephase_of s) t EIdle) m (esets s)).
Proof.
  intros I Hne Hw Hy.
  assert (Hold : forall x, x <> t -> upd (ephase_of s) t EIdle x = ephase_of s x)
    by (intros; now apply upd_other).
  constructor; cbn.
  - apply (E_flag s I).
  - intros x f H1 H2. destruct (Nat.eq_dec x t) as [->|Hx]; [rewrite upd_same in H1; discriminate|].
    rewrite Hold in H1 by assumption. eapply (E_set s I); eauto.
  - intros x H1. destruct (Nat.eq_dec x t) as [->|Hx]; [rewrite upd_same in H1; discriminate|].
    rewrite Hold in H1 by assumption. eapply (E_yield s I); eauto.
  - intros x f H1 H2. destruct (Nat.eq_dec x t) as [->|Hx]; [rewrite upd_same in H1; discriminate|].
    rewrite Hold in H1 by assumption. destruct (E_pend s I x f H1 H2) as [Hf Hin].
    split; [exact Hf|].
    destruct (ephase_of s t) as [| |g] eqn:Ept; [contradiction| |].
    + now rewrite Hy.
    + destruct (Hw g eq_refl) as [Hg ->]. apply remove_first_in_other; [exact Hin|].
      intros ->. contradiction.
  - intros x f H1. destruct (Nat.eq_dec x t) as [->|Hx]; [rewrite upd_same in H1; discriminate|].
    rewrite Hold in H1 by assumption. eapply (E_fresh s I); eauto.
  - intros x1 x2 f H1 H2.
    destruct (Nat.eq_dec x1 t) as [->|Hx1]; [rewrite upd_same in H1; discriminate|].
    destruct (Nat.eq_dec x2 t) as [->|Hx2]; [rewrite upd_same in H2; discriminate|].
    rewrite Hold in H1, H2 by assumption. eapply (E_inj s I); eauto.
Qed.

Lemma e_mustc_irrel s m :
  EInv s -> EInv (emk (eflag s) (ewaiters s) (efuts s) (enfut s) (ephase_of s) m (esets s)).
Proof. intros I. destruct I. constructor; cbn; assumption. Qed.

Lemma e_cancel_fut_inv s t f :
  EInv s -> ephase_of s t = EWaiting f -> efuts s f = FPending ->
  EInv (emk (eflag s) (ewaiters s) (upd (efuts s) f FCancelled) (enfut s) (ephase_of s) (emustc s) (esets s)).
Proof.
  intros I Hp Hf. constructor; cbn.
  - apply (E_flag s I).
  - intros x g H1 H2. destruct (Nat.eq_dec g f) as [->|Hg]; [rewrite upd_same in H2; discriminate|].
    rewrite upd_other in H2 by assumption. eapply (E_set s I); eauto.
  - apply (E_yield s I).
  - intros x g H1 H2. destruct (Nat.eq_dec g f) as [->|Hg]; [rewrite upd_same in H2; discriminate|].
    rewrite upd_other in H2 by assumption. eapply (E_pend s I); eauto.
  - apply (E_fresh s I).
  - apply (E_inj s I).
Qed.

Lemma estep_inv s o : EInv s -> EInv (fst (estep s o)).
Proof.
  intros I. destruct o as [t|t|t|t|t]; cbn [estep].
  - (* EvWait *)
    destruct (e_is_idle (ephase_of s t)) eqn:Ei; cbn [negb fst]; [|exact I].
    apply e_is_idle_true in Ei.
    destruct (eflag s) eqn:Efl; cbn [fst].
    + assert (Hold : forall x, x <> t -> upd (ephase_of s) t EYield x = ephase_of s x)
        by (intros; now apply upd_other).
      constructor; cbn.
      * pose proof (E_flag s I) as Hf. rewrite Efl in Hf. exact Hf.
      * reflexivity.
      * reflexivity.
      * intros x f H1 H2. destruct (Nat.eq_dec x t) as [->|Hx]; [rewrite upd_same in H1; discriminate|].
        rewrite Hold in H1 by assumption. destruct (E_pend s I x f H1 H2). congruence.
      * intros x f H1. destruct (Nat.eq_dec x t) as [->|Hx]; [rewrite upd_same in H1; discriminate|].
        rewrite Hold in H1 by assumption. eapply (E_fresh s I); eauto.
      * intros x1 x2 f H1 H2.
        destruct (Nat.eq_dec x1 t) as [->|Hx1]; [rewrite upd_same in H1; discriminate|].
        destruct (Nat.eq_dec x2 t) as [->|Hx2]; [rewrite upd_same in H2; discriminate|].
        rewrite Hold in H1, H2 by assumption. eapply (E_inj s I); eauto.
    + set (f0 := enfut s).
      assert (Hold : forall x, x <> t -> upd (ephase_of s) t (EWaiting f0) x = ephase_of s x)
        by (intros; now apply upd_other).
      assert (Hfold : forall x f, ephase_of s x = EWaiting f -> upd (efuts s) f0 FPending f = efuts s f).
      { intros x f H. apply upd_other. pose proof (E_fresh s I x f H). unfold f0. lia. }
      constructor; cbn.
      * pose proof (E_flag s I) as Hf. rewrite Efl in Hf. exact Hf.
      * intros x f H1 H2. destruct (Nat.eq_dec x t) as [->|Hx].
        -- rewrite upd_same in H1. injection H1 as <-. rewrite upd_same in H2. discriminate.
        -- rewrite Hold in H1 by assumption. rewrite (Hfold x f H1) in H2. rewrite <- Efl.
           eapply (E_set s I); eauto.
      * intros x H1. destruct (Nat.eq_dec x t) as [->|Hx]; [rewrite upd_same in H1; discriminate|].
        rewrite Hold in H1 by assumption. rewrite <- Efl. eapply (E_yield s I); eauto.
      * intros x f H1 H2. split; [reflexivity|]. apply in_or_app.
        destruct (Nat.eq_dec x t) as [->|Hx].
        -- rewrite upd_same in H1. injection H1 as <-. right. now left.
        -- rewrite Hold in H1 by assumption. rewrite (Hfold x f H1) in H2. left.
           eapply (E_pend s I); eauto.
      * intros x f H1. destruct (Nat.eq_dec x t) as [->|Hx].
        -- rewrite upd_same in H1. injection H1 as <-. unfold f0. lia.
        -- rewrite Hold in H1 by assumption. pose proof (E_fresh s I x f H1). lia.
      * intros x1 x2 f H1 H2.
        destruct (Nat.eq_dec x1 t) as [->|Hx1]; destruct (Nat.eq_dec x2 t) as [->|Hx2]; auto.
        -- rewrite upd_same in H1. injection H1 as <-. rewrite Hold in H2 by assumption.
           pose proof (E_fresh s I x2 f0 H2). unfold f0 in *. lia.
        -- rewrite upd_same in H2. injection H2 as <-. rewrite Hold in H1 by assumption.
           pose proof (E_fresh s I x1 f0 H1). unfold f0 in *. lia.
        -- rewrite Hold in H1, H2 by assumption. eapply (E_inj s I); eauto.
  - (* EvSet *)
    destruct (e_is_idle (ephase_of s t)) eqn:Ei; cbn [negb fst]; [|exact I].
    destruct (eflag s) eqn:Efl; cbn [fst].
    + constructor; cbn.
      * split; [lia|reflexivity].
      * reflexivity.
      * reflexivity.
      * intros x f H1 H2. destruct (E_pend s I x f H1 H2). congruence.
      * apply (E_fresh s I).
      * apply (E_inj s I).
    + constructor; cbn.
      * split; [lia|reflexivity].
      * reflexivity.
      * reflexivity.
      * intros x f H1 H2. exfalso.
        destruct (resolve_all_spec (ewaiters s) (efuts s) f) as (R1 & R2 & R3 & R4).
        destruct (efuts s f) eqn:Ef.
        -- destruct (E_pend s I x f H1 Ef) as [_ Hin]. rewrite R3 in H2; auto. discriminate.
        -- rewrite R1 in H2; congruence.
        -- rewrite R1 in H2; congruence.
      * apply (E_fresh s I).
      * apply (E_inj s I).
  - (* EvResume *)
    destruct (ephase_of s t) as [| |f] eqn:Ep; [exact I| |].
    + cbn [fst]. apply e_leave_inv; auto; try congruence.
    + destruct (efuts s f) eqn:Ef; [exact I| |]; cbn [fst].
      * apply e_leave_inv; auto; try congruence.
        intros g Hg. rewrite Ep in Hg. injection Hg as <-. split; [congruence|reflexivity].
      * apply e_leave_inv; auto; try congruence.
        intros g Hg. rewrite Ep in Hg. injection Hg as <-. split; [congruence|reflexivity].
  - (* EvCancel *)
    destruct (ephase_of s t) as [| |f] eqn:Ep; [exact I| |].
    + cbn [fst]. apply e_mustc_irrel, I.
    + destruct (efuts s f) eqn:Ef; cbn [fst].
      * apply (e_cancel_fut_inv s t f); auto.
      * apply e_mustc_irrel, I.
      * apply e_mustc_irrel, I.
  - (* EvScopeCancel *)
    destruct (ephase_of s t) as [| |f] eqn:Ep; [exact I| |].
    + cbn [fst]. apply e_mustc_irrel, I.
    + destruct (efuts s f) eqn:Ef; cbn [fst]; [|exact I|exact I].
      apply (e_cancel_fut_inv s t f); auto.
Qed.

Theorem ereachable_inv ops : EInv (final estep einit ops).
Proof. apply final_inv; [apply estep_inv|apply einv_init]. Qed.

(* ====================================================================================================== *)
(*  frame and result lemmas about one step of the embedded Lock machine                                   *)
(* ====================================================================================================== *)
Definition lop_task (o : Lock.op) : tid :=
  match o with AcqBegin t | AcqNowait t | Release t | Resume t | Cancel t => t end.

Lemma do_release_fields s t :
  phase_of (do_release s t) = phase_of s /\ mustc (do_release s t) = mustc s /\
  held (do_release s t) = remove_tid t (held s) /\ nfut (do_release s t) = nfut s.
Proof. unfold do_release. destruct (handoff _ _) as [[? ?] ?]. cbn. auto. Qed.

Ltac lk_break :=
  repeat match goal with
         | |- context [match ?x with _ => _ end] => destruct x eqn:?
         end.

Lemma lstep_phase_frame s o x : x <> lop_task o -> phase_of (fst (Lock.step s o)) x = phase_of s x.
Proof.
  intros Hne. destruct o as [t|t|t|t|t]; cbn [lop_task] in Hne; cbn [Lock.step];
    lk_break; cbn [fst set_phase set_mustc add_held phase_of];
    rewrite ?(proj1 (do_release_fields _ _)); cbn [set_phase set_mustc add_held phase_of];
    rewrite ?upd_other by assumption; reflexivity.
Qed.

Lemma lstep_mustc_frame s o x : x <> lop_task o -> mustc (fst (Lock.step s o)) x = mustc s x.
Proof.
  intros Hne. destruct o as [t|t|t|t|t]; cbn [lop_task] in Hne; cbn [Lock.step];
    lk_break; cbn [fst set_phase set_mustc add_held mustc];
    rewrite ?(proj1 (proj2 (do_release_fields _ _))); cbn [set_phase set_mustc add_held mustc];
    rewrite ?upd_other by assumption; reflexivity.
Qed.

Lemma lstep_held_frame s o x : x <> lop_task o -> (In x (held (fst (Lock.step s o))) <-> In x (held s)).
Proof.
  intros Hne. destruct o as [t|t|t|t|t]; cbn [lop_task] in Hne; cbn [Lock.step];
    lk_break; cbn [fst set_phase set_mustc add_held held];
    rewrite ?(proj1 (proj2 (proj2 (do_release_fields _ _)))); cbn [set_phase set_mustc add_held held In];
    rewrite ?in_remove_tid; try tauto; split; try tauto; intros [H|H]; try tauto; congruence.
Qed.

Lemma lstep_acq_res s t o s' r :
  (o = AcqBegin t \/ o = AcqNowait t) -> phase_of s t = Idle -> Lock.step s o = (s', r) ->
  match r with
  | RDone => In t (held s') /\ phase_of s' t = Idle
  | RBlocked => phase_of s' t <> Idle /\ held s' = held s /\ mustc s' = mustc s /\
                (forall f, phase_of s' t = Waiting f -> futs s' f = FPending)
  | RRuntime => s' = s /\ owner s = Some t
  | RWouldBlock => s' = s
  | _ => False
  end.
Proof.
  intros [-> | ->] Hp; cbn [Lock.step]; rewrite Hp; cbn [is_idle negb].
  - destruct (owner s) as [ow|] eqn:Eo; destruct (waiters s) eqn:Ew;
      try (destruct (tid_eqb_opt (Some ow) t) eqn:Et);
      try (destruct (tid_eqb_opt None t) eqn:Et);
      try (destruct (fast s) eqn:Ef); intros H; injection H as <- <-;
      cbn [set_phase add_held held phase_of mustc futs].
    all: try (split; [reflexivity|]; apply tid_eqb_opt_true in Et; exact Et).
    all: try (cbn in Et; discriminate).
    all: try (split; [now left|exact Hp]).
    all: try (rewrite upd_same; refine (conj _ (conj eq_refl (conj eq_refl _))); [discriminate|];
              intros f Hf; injection Hf as <-; apply upd_same).
    all: try (rewrite upd_same; refine (conj _ (conj eq_refl (conj eq_refl _))); [discriminate|];
              intros f Hf; discriminate).
  - destruct (owner s) as [ow|] eqn:Eo; destruct (waiters s) eqn:Ew;
      try (destruct (tid_eqb_opt (Some ow) t) eqn:Et);
      try (destruct (tid_eqb_opt None t) eqn:Et);
      intros H; injection H as <- <-; cbn [set_phase add_held held phase_of mustc futs].
    all: try (split; [reflexivity|]; apply tid_eqb_opt_true in Et; exact Et).
    all: try reflexivity.
    all: try (cbn in Et; discriminate).
    all: try (split; [now left|exact Hp]).
Qed.

Lemma lstep_release_res s t s' r :
  phase_of s t = Idle -> Lock.step s (Release t) = (s', r) ->
  match r with
  | RDone => owner s = Some t /\ s' = do_release s t
  | RRuntime => s' = s /\ owner s <> Some t
  | _ => False
  end.
Proof.
  intros Hp. cbn [Lock.step]. rewrite Hp. cbn [is_idle negb].
  destruct (tid_eqb_opt (owner s) t) eqn:Et; intros H; injection H as <- <-.
  - apply tid_eqb_opt_true in Et. auto.
  - split; [reflexivity|]. intros Ho. apply tid_eqb_opt_true in Ho. congruence.
Qed.

Lemma lstep_resume_res s t s' r :
  Inv s -> phase_of s t <> Idle -> Lock.step s (Resume t) = (s', r) ->
  match r with
  | RDone => In t (held s') /\ phase_of s' t = Idle /\ mustc s t = false /\
             (forall f, phase_of s t = Waiting f -> futs s f = FSet)
  | RCancelled => ~ In t (held s') /\ phase_of s' t = Idle /\
                  (mustc s t = true \/ exists f, phase_of s t = Waiting f /\ futs s f = FCancelled)
  | RRejected => s' = s
  | _ => False
  end.
Proof.
  intros I Hp. cbn [Lock.step].
  assert (Hnh : ~ In t (held s)) by (intros H; apply Hp, (I_heldidle s I), H).
  destruct (phase_of s t) as [| |f] eqn:Ep; [contradiction| |].
  - assert (Ho : owner s = Some t) by (apply (I_owner s I); right; left; exact Ep).
    destruct (mustc s t) eqn:Em.
    + cbn [set_mustc set_phase owner]. rewrite Ho. cbn [tid_eqb_opt]. rewrite Nat.eqb_refl.
      intros H; injection H as <- <-.
      destruct (do_release_fields (set_mustc (set_phase s t Idle) t false) t) as (F1 & _ & F3 & _).
      rewrite F1, F3. cbn [set_mustc set_phase phase_of held]. rewrite upd_same.
      refine (conj _ (conj eq_refl (or_introl eq_refl))). intros H. apply in_remove_tid in H. tauto.
    + intros H; injection H as <- <-. cbn [add_held set_mustc set_phase phase_of held].
      rewrite upd_same. refine (conj _ (conj eq_refl (conj eq_refl _))); [now left|discriminate].
  - destruct (futs s f) eqn:Ef.
    + intros H; injection H as <- <-. reflexivity.
    + assert (Ho : owner s = Some t) by (apply (I_owner s I); right; right; eauto).
      destruct (mustc s t) eqn:Em.
      * cbn [set_mustc set_phase owner]. rewrite Ho. cbn [tid_eqb_opt]. rewrite Nat.eqb_refl.
        intros H; injection H as <- <-.
        destruct (do_release_fields (set_mustc (set_phase s t Idle) t false) t) as (F1 & _ & F3 & _).
        rewrite F1, F3. cbn [set_mustc set_phase phase_of held]. rewrite upd_same.
        refine (conj _ (conj eq_refl (or_introl eq_refl))). intros H. apply in_remove_tid in H. tauto.
      * intros H; injection H as <- <-. cbn [add_held set_mustc set_phase phase_of held].
        rewrite upd_same. refine (conj _ (conj eq_refl (conj eq_refl _))); [now left|].
        intros g Hg. injection Hg as <-. exact Ef.
    + intros H; injection H as <- <-. cbn [set_mustc set_phase phase_of held].
      rewrite upd_same. refine (conj Hnh (conj eq_refl _)). right. eauto.
Qed.

Lemma lstep_cancel_res s t s' r :
  Lock.step s (Cancel t) = (s', r) ->
  phase_of s' = phase_of s /\ held s' = held s /\ (r = RNone \/ (r = RRejected /\ s' = s)).
Proof.
  cbn [Lock.step]. destruct (phase_of s t) as [| |f] eqn:Ep.
  - intros H; injection H as <- <-. auto.
  - intros H; injection H as <- <-. cbn. auto.
  - destruct (futs s f); intros H; injection H as <- <-; cbn; auto.
Qed.

Lemma lstep_frames l o l' r :
  Inv l -> Lock.step l o = (l', r) ->
  Inv l' /\ (forall x, x <> lop_task o -> phase_of l' x = phase_of l x) /\
  (forall x, x <> lop_task o -> (In x (held l') <-> In x (held l))) /\
  (forall x, x <> lop_task o -> mustc l' x = mustc l x).
Proof.
  intros I E. assert (El : l' = fst (Lock.step l o)) by (now rewrite E). subst l'.
  refine (conj (step_inv l o I) (conj _ (conj _ _))); intros x Hx.
  - now apply lstep_phase_frame.
  - now apply lstep_held_frame.
  - now apply lstep_mustc_frame.
Qed.

(* ====================================================================================================== *)
(*  Conditions on a shared lock, lock side: the shared lock satisfies its invariant and agrees with the    *)
(*  phases of the tasks                                                                                   *)
(* ====================================================================================================== *)
Definition lock_idle (p : cphase) : bool := match p with PIdle | PWait _ _ => true | _ => false end.

Record LkI (l : Lock.st) (ph : tid -> cphase) : Prop := {
  K_lock : Inv l;
  K_coupling : forall t, phase_of l t = Idle <-> lock_idle (ph t) = true;
  K_heldidle : forall t, In t (held l) -> ph t = PIdle
}.

Definition LkInv (s : cst) : Prop := LkI (lk s) (cphase_of s).

Lemma held_unique l a b : Inv l -> In a (held l) -> In b (held l) -> a = b.
Proof.
  intros I Ha Hb.
  assert (owner l = Some a) by (apply (I_owner l I); left; exact Ha).
  assert (owner l = Some b) by (apply (I_owner l I); left; exact Hb). congruence.
Qed.

(* for a task at a decision point "is the lock's owner" and "acquire returned to it and it has not released"
   coincide *)
Lemma owner_iff_held l ph t : LkI l ph -> ph t = PIdle -> (owner l = Some t <-> In t (held l)).
Proof.
  intros K Hp. assert (Hli : phase_of l t = Idle) by (apply (K_coupling _ _ K); rewrite Hp; reflexivity).
  rewrite (I_owner l (K_lock _ _ K) t). unfold holdish. split; [|tauto].
  intros [H|[H|(f & H & _)]]; [exact H|congruence|congruence].
Qed.

Lemma LK_generic l ph t l' ph' :
  LkI l ph -> Inv l' ->
  (forall x, x <> t -> phase_of l' x = phase_of l x) ->
  (forall x, x <> t -> (In x (held l') <-> In x (held l))) ->
  (forall x, x <> t -> ph' x = ph x) ->
  (phase_of l' t = Idle <-> lock_idle (ph' t) = true) ->
  (In t (held l') -> ph' t = PIdle) ->
  LkI l' ph'.
Proof.
  intros K I' Fp Fh Fph Ht Hh. constructor.
  - exact I'.
  - intros x. destruct (Nat.eq_dec x t) as [->|Hx]; [exact Ht|].
    rewrite Fp, Fph by assumption. apply (K_coupling _ _ K).
  - intros x Hin. destruct (Nat.eq_dec x t) as [->|Hx]; [auto|].
    rewrite Fph by assumption. apply (K_heldidle _ _ K). now apply Fh.
Qed.

Lemma upd_other_fun {A} (f : nat -> A) t v : forall x, x <> t -> upd f t v x = f x.
Proof. intros. now apply upd_other. Qed.

Lemma c_is_idle_true p : c_is_idle p = true <-> p = PIdle.
Proof. destruct p; cbn; split; congruence. Qed.

Ltac cnorm :=
  cbn [with_lk with_owner with_cw with_phase with_efut with_inflight with_nlog with_counts
       variant lk owner_rec cwaiters eset efut nev cphase_of cenq setlog inflight horizon nlog
       issued consumed dropped lost].

Lemma do_set_proj s e hz :
  lk (do_set s e hz) = lk s /\ cphase_of (do_set s e hz) = cphase_of s /\ variant (do_set s e hz) = variant s.
Proof. unfold do_set. destruct (eset s e); cbn; auto. Qed.

Lemma notify_loop_proj n c hz : forall s,
  lk (notify_loop n c hz s) = lk s /\ cphase_of (notify_loop n c hz s) = cphase_of s /\
  variant (notify_loop n c hz s) = variant s.
Proof.
  induction n as [|k IH]; intros s; cbn [notify_loop]; [auto|].
  destruct (cwaiters s c) as [|e r]; [auto|].
  match goal with |- context [notify_loop k c hz ?x] => destruct (IH x) as (-> & -> & ->) end.
  cnorm. destruct (do_set_proj (with_cw s c r) e hz) as (-> & -> & ->). cnorm. auto.
Qed.

Lemma do_notify_proj s c n :
  lk (do_notify s c n) = lk s /\ cphase_of (do_notify s c n) = cphase_of s /\
  variant (do_notify s c n) = variant s.
Proof. unfold do_notify. destruct (notify_loop_proj n c (nev s) (with_nlog s (nlog s ++ [nev s]))) as (-> & -> & ->). cnorm. auto. Qed.

Lemma wait_interrupted_proj s c e :
  lk (wait_interrupted s c e) = lk s /\ cphase_of (wait_interrupted s c e) = cphase_of s /\
  variant (wait_interrupted s c e) = variant s.
Proof.
  unfold wait_interrupted. destruct (eset s e); [|cnorm; auto].
  destruct (cwaiters s c) as [|h r]; [cnorm; auto|].
  cnorm. destruct (do_set_proj (with_cw s c r) h (horizon s e)) as (-> & -> & ->). cnorm. auto.
Qed.

Lemma finish_wait_proj s t c e exc l' r :
  lk (fst (finish_wait s t c e exc l' r)) = l' /\
  variant (fst (finish_wait s t c e exc l' r)) = variant s /\
  cphase_of (fst (finish_wait s t c e exc l' r)) =
    upd (cphase_of s) t (match r with RBlocked => PReacq c e exc | _ => PIdle end).
Proof. destruct r, exc; cbn; auto. Qed.

Lemma LK_finish l ph t l' r c e exc :
  LkI l ph -> Inv l' ->
  (forall x, x <> t -> phase_of l' x = phase_of l x) ->
  (forall x, x <> t -> (In x (held l') <-> In x (held l))) ->
  match r with
  | RDone => phase_of l' t = Idle
  | RBlocked => phase_of l' t <> Idle /\ ~ In t (held l')
  | _ => phase_of l' t = Idle
  end ->
  LkI l' (upd ph t (match r with RBlocked => PReacq c e exc | _ => PIdle end)).
Proof.
  intros K I' Fp Fh R.
  destruct r; (eapply (LK_generic l ph t); [exact K|exact I'|exact Fp|exact Fh|apply upd_other_fun| |]);
    rewrite ?upd_same; cbn [lock_idle].
  all: try (split; intros; [reflexivity|exact R]).
  all: try (intros; reflexivity).
  all: destruct R as [R1 R2].
  - split; [intros H; contradiction|discriminate].
  - intros H; contradiction.
Qed.

Lemma LK_mustc l ph t b : LkI l ph -> LkI (set_mustc l t b) ph.
Proof.
  intros K. destruct K as [K1 K2 K3]. constructor; cbn; auto.
  unfold set_mustc. apply mustc_irrel, K1.
Qed.

Lemma not_held_if_not_pidle l ph t : LkI l ph -> ph t <> PIdle -> ~ In t (held l).
Proof. intros K Hp Hin. apply Hp. apply (K_heldidle _ _ K), Hin. Qed.

Lemma wait_interrupted_proj3 s t c e :
  lk (wait_interrupted (with_lk s (set_mustc (lk s) t false)) c e) = set_mustc (lk s) t false /\
  cphase_of (wait_interrupted (with_lk s (set_mustc (lk s) t false)) c e) = cphase_of s.
Proof.
  destruct (wait_interrupted_proj (with_lk s (set_mustc (lk s) t false)) c e) as (-> & -> & _).
  cnorm. auto.
Qed.

Lemma lk_acquire_begin s oc t o :
  LkInv s -> (o = AcqBegin t \/ o = AcqNowait t) -> cphase_of s t = PIdle ->
  LkInv (fst (acquire_begin s oc t o)).
Proof.
  intros K Ho Ei. unfold LkInv in K. unfold acquire_begin.
  assert (Hli : phase_of (lk s) t = Idle) by (apply (K_coupling _ _ K); rewrite Ei; reflexivity).
  destruct (Lock.step (lk s) o) as [l' r] eqn:E.
  destruct (lstep_frames _ _ _ _ (K_lock _ _ K) E) as (I' & Fp & Fh & Fm).
  assert (Hlt : lop_task o = t) by (destruct Ho as [-> | ->]; reflexivity). rewrite Hlt in *.
  pose proof (lstep_acq_res _ t _ _ _ Ho Hli E) as R.
  destruct r; try contradiction; cbn [fst]; unfold LkInv; cnorm.
  - destruct R as [Rh Rp].
    eapply (LK_generic _ _ t); [exact K|exact I'|exact Fp|exact Fh|reflexivity| |].
    + rewrite Ei. cbn. split; intros; [reflexivity|exact Rp].
    + intros _. exact Ei.
  - destruct R as (Rp & Rh & _).
    assert (Hn : ~ In t (held l')).
    { intros H. apply Rp. apply (I_heldidle l' I'), H. }
    eapply (LK_generic _ _ t); [exact K|exact I'|exact Fp|exact Fh|apply upd_other_fun| |].
    + rewrite upd_same. cbn. split; [intros H; contradiction|discriminate].
    + intros H; contradiction.
  - destruct R as [-> _]. exact K.
  - subst l'. exact K.
Qed.

Lemma lk_resume_wait s t c e x s1 :
  LkInv s -> cphase_of s t = PWait c e ->
  (lk s1 = set_mustc (lk s) t false /\ cphase_of s1 = cphase_of s) ->
  LkInv (fst (let '(l', r) := Lock.step (lk s1) (AcqBegin t) in finish_wait s1 t c e x l' r)).
Proof.
  intros K Ep (P1 & P3). unfold LkInv in K.
  pose proof (LK_mustc _ _ t false K) as K0.
  assert (Hli : phase_of (set_mustc (lk s) t false) t = Idle)
    by (apply (K_coupling _ _ K0); rewrite Ep; reflexivity).
  rewrite P1.
  destruct (Lock.step (set_mustc (lk s) t false) (AcqBegin t)) as [l' r] eqn:E.
  destruct (lstep_frames _ _ _ _ (K_lock _ _ K0) E) as (I' & Fp & Fh & Fm); cbn [lop_task] in *.
  pose proof (lstep_acq_res _ t _ _ _ (or_introl eq_refl) Hli E) as R.
  unfold LkInv. destruct (finish_wait_proj s1 t c e x l' r) as (-> & _ & ->).
  rewrite P3. apply (LK_finish (set_mustc (lk s) t false)); auto.
  destruct r; try contradiction; try tauto.
  - destruct R as (R1 & R2 & _). split; [exact R1|].
    intros H. apply R1. apply (I_heldidle l' I'), H.
  - destruct R as [-> _]. exact Hli.
  - subst l'. exact Hli.
Qed.

Lemma lk_release s t l' r :
  LkInv s -> cphase_of s t = PIdle -> Lock.step (lk s) (Release t) = (l', r) -> LkI l' (cphase_of s).
Proof.
  intros K Ei E. unfold LkInv in K.
  assert (Hli : phase_of (lk s) t = Idle) by (apply (K_coupling _ _ K); rewrite Ei; reflexivity).
  destruct (lstep_frames _ _ _ _ (K_lock _ _ K) E) as (I' & Fp & Fh & Fm). cbn [lop_task] in *.
  pose proof (lstep_release_res _ t _ _ Hli E) as R.
  destruct r; try contradiction.
  - destruct R as [Ro ->]. destruct (do_release_fields (lk s) t) as (F1 & F2 & F3 & F4).
    eapply (LK_generic _ _ t); [exact K|exact I'|exact Fp|exact Fh|reflexivity| |].
    + rewrite F1, Ei. cbn. split; intros; [reflexivity|exact Hli].
    + intros _. exact Ei.
  - destruct R as [-> _]. exact K.
Qed.

Lemma lk_cancel s t l' r :
  LkInv s -> Lock.step (lk s) (Cancel t) = (l', r) -> LkI l' (cphase_of s).
Proof.
  intros K E. unfold LkInv in K.
  destruct (lstep_frames _ _ _ _ (K_lock _ _ K) E) as (I' & Fp & Fh & Fm). cbn [lop_task] in *.
  destruct (lstep_cancel_res _ _ _ _ E) as (C1 & C2 & _).
  destruct K as [K1 K2 K3]. constructor; auto; rewrite ?C1, ?C2; auto.
Qed.

Lemma cstep_lkinv s o : LkInv s -> LkInv (fst (cstep s o)).
Proof.
  intros K. pose proof K as K'. unfold LkInv in K.
  destruct o as [c t|c t|c t|c t n|c t|c t|t|t|t|t|t|t]; cbn [cstep].
  - (* CAcquire *)
    destruct (c_is_idle (cphase_of s t)) eqn:Ei; cbn [negb fst]; [|exact K].
    apply c_is_idle_true in Ei. apply lk_acquire_begin; auto.
  - (* CAcqNowait *)
    destruct (c_is_idle (cphase_of s t)) eqn:Ei; cbn [negb fst]; [|exact K].
    apply c_is_idle_true in Ei. apply lk_acquire_begin; auto.
  - (* CRelease *)
    destruct (c_is_idle (cphase_of s t)) eqn:Ei; cbn [negb fst]; [|exact K].
    apply c_is_idle_true in Ei.
    destruct (Lock.step (lk s) (Release t)) as [l' r] eqn:E.
    pose proof (lk_release s t l' r K' Ei E) as K2.
    destruct r; cbn [fst]; unfold LkInv; cnorm; exact K2.
  - (* CNotify *)
    destruct (c_is_idle (cphase_of s t)) eqn:Ei; cbn [negb fst]; [|exact K].
    destruct (holder_check s c t); cbn [fst]; [|exact K].
    unfold LkInv. destruct (do_notify_proj s c n) as (-> & -> & _). exact K.
  - (* CNotifyAll *)
    destruct (c_is_idle (cphase_of s t)) eqn:Ei; cbn [negb fst]; [|exact K].
    destruct (holder_check s c t); cbn [fst]; [|exact K].
    unfold LkInv. destruct (do_notify_proj s c (length (cwaiters s c))) as (-> & -> & _). exact K.
  - (* CWait *)
    destruct (c_is_idle (cphase_of s t)) eqn:Ei; cbn [negb fst]; [|exact K].
    apply c_is_idle_true in Ei.
    destruct (holder_check s c t) eqn:Eo; cbn [fst]; [|exact K].
    assert (Hli : phase_of (lk s) t = Idle) by (apply (K_coupling _ _ K); rewrite Ei; reflexivity).
    destruct (Lock.step (lk s) (Release t)) as [l' r] eqn:E.
    pose proof (lk_release s t l' r K' Ei E) as K2.
    destruct (lstep_frames _ _ _ _ (K_lock _ _ K) E) as (I' & Fp & Fh & Fm). cbn [lop_task] in *.
    pose proof (lstep_release_res _ t _ _ Hli E) as R.
    destruct r; try contradiction; cbn [fst]; unfold LkInv; cnorm; [|exact K2].
    destruct R as [Ro ->]. destruct (do_release_fields (lk s) t) as (F1 & F2 & F3 & F4).
    assert (Hn : ~ In t (held (do_release (lk s) t))).
    { rewrite F3. intros H. apply in_remove_tid in H. tauto. }
    eapply (LK_generic _ _ t); [exact K|exact I'|exact Fp|exact Fh|apply upd_other_fun| |].
    + rewrite F1, upd_same. cbn. split; intros; [reflexivity|exact Hli].
    + intros H; contradiction.
  - (* LAcquire *)
    destruct (c_is_idle (cphase_of s t)) eqn:Ei; cbn [negb fst]; [|exact K].
    apply c_is_idle_true in Ei. apply lk_acquire_begin; auto.
  - (* LAcqNowait *)
    destruct (c_is_idle (cphase_of s t)) eqn:Ei; cbn [negb fst]; [|exact K].
    apply c_is_idle_true in Ei. apply lk_acquire_begin; auto.
  - (* LRelease *)
    destruct (c_is_idle (cphase_of s t)) eqn:Ei; cbn [negb fst]; [|exact K].
    apply c_is_idle_true in Ei.
    destruct (Lock.step (lk s) (Release t)) as [l' r] eqn:E.
    pose proof (lk_release s t l' r K' Ei E) as K2. cbn [fst]; unfold LkInv; cnorm; exact K2.
  - (* CResume *)
    destruct (cphase_of s t) as [|oc|c e|c e exc] eqn:Ep; [exact K| | |].
    + (* PAcq *)
      assert (Hli : phase_of (lk s) t <> Idle).
      { intros H. apply (K_coupling _ _ K) in H. rewrite Ep in H. discriminate. }
      destruct (Lock.step (lk s) (Resume t)) as [l' r] eqn:E.
      destruct (lstep_frames _ _ _ _ (K_lock _ _ K) E) as (I' & Fp & Fh & Fm). cbn [lop_task] in *.
      pose proof (lstep_resume_res _ t _ _ (K_lock _ _ K) Hli E) as R.
      destruct r; try contradiction; cbn [fst]; unfold LkInv; cnorm; [| |exact K].
      * apply (LK_finish (lk s) (cphase_of s) t l' RDone 0 0 false); auto. tauto.
      * apply (LK_finish (lk s) (cphase_of s) t l' RCancelled 0 0 false); auto. tauto.
    + (* PWait *)
      destruct (efut s e) eqn:Ef; [exact K| |].
      * apply (lk_resume_wait s t c e); auto.
        destruct (mustc (lk s) t); [apply wait_interrupted_proj3|cnorm; auto].
      * apply (lk_resume_wait s t c e); auto. apply wait_interrupted_proj3.
    + (* PReacq *)
      assert (Hli : phase_of (lk s) t <> Idle).
      { intros H. apply (K_coupling _ _ K) in H. rewrite Ep in H. discriminate. }
      destruct (Lock.step (lk s) (Resume t)) as [l' r] eqn:E.
      destruct (lstep_frames _ _ _ _ (K_lock _ _ K) E) as (I' & Fp & Fh & Fm). cbn [lop_task] in *.
      pose proof (lstep_resume_res _ t _ _ (K_lock _ _ K) Hli E) as R.
      destruct r; try contradiction; try exact K.
      * unfold LkInv. destruct (finish_wait_proj s t c e exc l' RDone) as (-> & _ & ->).
        apply (LK_finish (lk s) (cphase_of s) t l' RDone c e exc); auto; tauto.
      * unfold LkInv. destruct (finish_wait_proj s t c e exc l' RCancelled) as (-> & _ & ->).
        apply (LK_finish (lk s) (cphase_of s) t l' RCancelled c e exc); auto; tauto.
  - (* CCancel *)
    destruct (cphase_of s t) as [|oc|c e|c e exc] eqn:Ep; [exact K| | |].
    + destruct (Lock.step (lk s) (Cancel t)) as [l' r] eqn:E.
      cbn [fst]. unfold LkInv. cnorm. eapply lk_cancel; eauto.
    + destruct (efut s e); cbn [fst]; unfold LkInv; cnorm; try exact K; apply LK_mustc, K.
    + destruct (Lock.step (lk s) (Cancel t)) as [l' r] eqn:E.
      cbn [fst]. unfold LkInv. cnorm. eapply lk_cancel; eauto.
  - (* CScopeCancel *)
    destruct (cphase_of s t) as [|oc|c e|c e exc] eqn:Ep; [exact K| | |exact K].
    + destruct (phase_of (lk s) t) as [| |f] eqn:Elp; try exact K.
      destruct (futs (lk s) f) eqn:Ef; try exact K.
      destruct (Lock.step (lk s) (Cancel t)) as [l' r] eqn:E.
      cbn [fst]. unfold LkInv. cnorm. eapply lk_cancel; eauto.
    + destruct (efut s e); cbn [fst]; unfold LkInv; cnorm; exact K.
Qed.

(* ====================================================================================================== *)
(*  Conditions, event side                                                                                *)
(* ====================================================================================================== *)
(* what the event-side invariant needs to know about a phase: waiting on event e of condition c (false) /
   re-acquiring after a normal wake-up from e (true) *)
Definition pv (p : cphase) : option (cid * eid * bool) :=
  match p with PWait c e => Some (c, e, false) | PReacq c e false => Some (c, e, true) | _ => None end.

Lemma pv_wait p c e : pv p = Some (c, e, false) <-> p = PWait c e.
Proof. destruct p as [| |c' e'|c' e' [|]]; cbn; split; intros H; try discriminate; congruence. Qed.

Lemma pv_reacq p c e : pv p = Some (c, e, true) <-> p = PReacq c e false.
Proof. destruct p as [| |c' e'|c' e' [|]]; cbn; split; intros H; try discriminate; congruence. Qed.

Definition setf (ef : eid -> fstate) (e : eid) : eid -> fstate :=
  match ef e with FPending => upd ef e FSet | _ => ef end.

Lemma setf_spec ef e :
  setf ef e e <> FPending /\ (forall x, x <> e -> setf ef e x = ef x) /\
  (forall x, setf ef e x = FSet -> ef x = FSet \/ x = e) /\
  (forall x, ef x <> FPending -> setf ef e x = ef x).
Proof.
  unfold setf. destruct (ef e) eqn:E.
  - refine (conj _ (conj _ (conj _ _))).
    + rewrite upd_same. discriminate.
    + intros x Hx. now apply upd_other.
    + intros x H. destruct (Nat.eq_dec x e) as [->|Hx]; [now right|]. rewrite upd_other in H; auto.
    + intros x H. destruct (Nat.eq_dec x e) as [->|Hx]; [congruence|]. now apply upd_other.
  - refine (conj _ (conj _ (conj _ _))); auto. congruence.
  - refine (conj _ (conj _ (conj _ _))); auto. congruence.
Qed.

Record EvS (cw : cid -> list eid) (es : eid -> bool) (ef : eid -> fstate) (ne : eid) (ph : tid -> cphase)
           (cq sl infl : list eid) : Prop := {
  V_fresh : forall t c e b, pv (ph t) = Some (c, e, b) -> e < ne;
  V_einj : forall t1 t2 c1 c2 e b1 b2,
             pv (ph t1) = Some (c1, e, b1) -> pv (ph t2) = Some (c2, e, b2) -> t1 = t2;
  V_q : forall c e, In e (cw c) -> es e = false /\ exists t, pv (ph t) = Some (c, e, false);
  V_qnd : forall c, NoDup (cw c);
  V_wait0 : forall t c e, pv (ph t) = Some (c, e, false) -> es e = false -> In e (cw c) /\ ef e <> FSet;
  V_wait1 : forall t c e, pv (ph t) = Some (c, e, false) -> es e = true -> ef e <> FPending /\ In e infl;
  V_reacq : forall t c e, pv (ph t) = Some (c, e, true) -> es e = true /\ In e infl;
  V_infl : forall e, In e infl -> es e = true /\ exists t c b, pv (ph t) = Some (c, e, b);
  V_inflnd : NoDup infl;
  V_setlog : forall e, es e = true -> In e sl;
  V_fifo : forall c, subseq (cw c) cq
}.

Definition EvInv (s : cst) : Prop :=
  EvS (cwaiters s) (eset s) (efut s) (nev s) (cphase_of s) (cenq s) (setlog s) (inflight s) /\
  issued s = consumed s + length (inflight s) + dropped s + lost s.

Lemma S_phase_ext cw es ef ne ph ph' cq sl infl :
  (forall t, pv (ph' t) = pv (ph t)) ->
  EvS cw es ef ne ph cq sl infl -> EvS cw es ef ne ph' cq sl infl.
Proof.
  intros X V. destruct V. constructor; auto.
  - intros t c e b. rewrite X. eauto.
  - intros t1 t2 c1 c2 e b1 b2. rewrite !X. eauto.
  - intros c e He. destruct (V_q0 c e He) as (H1 & t & H2). split; [exact H1|]. exists t. now rewrite X.
  - intros t c e. rewrite X. eauto.
  - intros t c e. rewrite X. eauto.
  - intros t c e. rewrite X. eauto.
  - intros e He. destruct (V_infl0 e He) as (H1 & t & c & b & H2). split; [exact H1|].
    exists t, c, b. now rewrite X.
Qed.

Lemma pv_upd_none ph t p' : pv (ph t) = None -> pv p' = None -> forall x, pv (upd ph t p' x) = pv (ph x).
Proof.
  intros H1 H2 x. destruct (Nat.eq_dec x t) as [->|Hx]; [rewrite upd_same; congruence|].
  now rewrite upd_other.
Qed.

Lemma S_init : EvS (fun _ => []) (fun _ => false) (fun _ => FPending) 0 (fun _ => PIdle) [] [] [].
Proof.
  constructor; cbn.
  - discriminate.
  - discriminate.
  - intros c e [].
  - intros c. constructor.
  - discriminate.
  - discriminate.
  - discriminate.
  - intros e [].
  - constructor.
  - discriminate.
  - intros c. apply ss_nil.
Qed.

(* an event sits in the queue of at most one condition *)
Lemma q_cond_unique cw es ef ne ph cq sl infl e c1 c2 :
  EvS cw es ef ne ph cq sl infl -> In e (cw c1) -> In e (cw c2) -> c1 = c2.
Proof.
  intros V H1 H2. destruct (V_q _ _ _ _ _ _ _ _ V c1 e H1) as (_ & t1 & Ht1).
  destruct (V_q _ _ _ _ _ _ _ _ V c2 e H2) as (_ & t2 & Ht2).
  assert (t1 = t2) by (eapply (V_einj _ _ _ _ _ _ _ _ V); eauto). subst. congruence.
Qed.

(* notify pops the head e of condition c's queue and sets it *)
Lemma S_set_head c e r cw es ef ne ph cq sl infl :
  EvS cw es ef ne ph cq sl infl -> cw c = e :: r ->
  EvS (upd cw c r) (upd es e true) (setf ef e) ne ph cq (sl ++ [e]) (infl ++ [e]).
Proof.
  intros V Ecw.
  assert (Hin : In e (cw c)) by (rewrite Ecw; now left).
  destruct (V_q _ _ _ _ _ _ _ _ V c e Hin) as (Hes & te & Hte).
  pose proof (V_qnd _ _ _ _ _ _ _ _ V c) as Hnd. rewrite Ecw in Hnd. inversion Hnd as [|a b Her Hr]; subst.
  destruct (setf_spec ef e) as (F1 & F2 & F3 & F4).
  assert (Hninfl : ~ In e infl).
  { intros H. destruct (V_infl _ _ _ _ _ _ _ _ V e H). congruence. }
  assert (Hsub : forall c' x, In x (upd cw c r c') -> In x (cw c') /\ x <> e).
  { intros c' x Hx. destruct (Nat.eq_dec c' c) as [->|Hc].
    - rewrite upd_same in Hx. split; [rewrite Ecw; now right|]. intros ->. contradiction.
    - rewrite upd_other in Hx by assumption. split; [exact Hx|]. intros ->.
      apply Hc. eapply q_cond_unique; eauto. }
  constructor.
  - apply (V_fresh _ _ _ _ _ _ _ _ V).
  - apply (V_einj _ _ _ _ _ _ _ _ V).
  - intros c' x Hx. destruct (Hsub c' x Hx) as [Hx' Hne].
    rewrite upd_other by assumption. apply (V_q _ _ _ _ _ _ _ _ V c' x Hx').
  - intros c'. destruct (Nat.eq_dec c' c) as [->|Hc]; [rewrite upd_same; exact Hr|].
    rewrite upd_other by assumption. apply (V_qnd _ _ _ _ _ _ _ _ V).
  - intros t c' x Ht Hx. destruct (Nat.eq_dec x e) as [->|Hne]; [rewrite upd_same in Hx; discriminate|].
    rewrite upd_other in Hx by assumption. destruct (V_wait0 _ _ _ _ _ _ _ _ V t c' x Ht Hx) as [H H'].
    split; [|now rewrite F2]. destruct (Nat.eq_dec c' c) as [->|Hc].
    + rewrite upd_same. rewrite Ecw in H. destruct H as [H|H]; [congruence|exact H].
    + now rewrite upd_other.
  - intros t c' x Ht Hx. destruct (Nat.eq_dec x e) as [->|Hne].
    + split; [exact F1|]. apply in_or_app. right. now left.
    + rewrite upd_other in Hx by assumption. destruct (V_wait1 _ _ _ _ _ _ _ _ V t c' x Ht Hx) as [H H'].
      split; [now rewrite F2|]. apply in_or_app. now left.
  - intros t c' x Ht. destruct (V_reacq _ _ _ _ _ _ _ _ V t c' x Ht) as [H H'].
    assert (x <> e) by congruence. rewrite upd_other by assumption. split; [exact H|].
    apply in_or_app. now left.
  - intros x Hx. apply in_app_or in Hx. destruct Hx as [Hx|[<-|[]]].
    + destruct (V_infl _ _ _ _ _ _ _ _ V x Hx) as [H H']. assert (x <> e) by congruence.
      rewrite upd_other by assumption. auto.
    + rewrite upd_same. split; [reflexivity|]. eauto.
  - apply NoDup_app_tail1; [apply (V_inflnd _ _ _ _ _ _ _ _ V)|exact Hninfl].
  - intros x Hx. apply in_or_app. destruct (Nat.eq_dec x e) as [->|Hne]; [right; now left|].
    rewrite upd_other in Hx by assumption. left. apply (V_setlog _ _ _ _ _ _ _ _ V), Hx.
  - intros c'. destruct (Nat.eq_dec c' c) as [->|Hc].
    + rewrite upd_same. eapply subseq_trans; [|apply (V_fifo _ _ _ _ _ _ _ _ V c)].
      rewrite Ecw. apply ss_skip, subseq_refl.
    + rewrite upd_other by assumption. apply (V_fifo _ _ _ _ _ _ _ _ V).
Qed.

(* c.wait() enqueues a fresh event *)
Lemma S_enqueue c cw es ef ne ph cq sl infl t :
  EvS cw es ef ne ph cq sl infl -> pv (ph t) = None ->
  EvS (upd cw c (cw c ++ [ne])) (upd es ne false) (upd ef ne FPending) (S ne) (upd ph t (PWait c ne))
      (cq ++ [ne]) sl infl.
Proof.
  intros V Hpt.
  assert (Hold : forall x, x <> t -> pv (upd ph t (PWait c ne) x) = pv (ph x))
    by (intros; now rewrite upd_other).
  assert (Hcwlt : forall c' x, In x (cw c') -> x < ne).
  { intros c' x Hx. destruct (V_q _ _ _ _ _ _ _ _ V c' x Hx) as (_ & tx & Htx).
    eapply (V_fresh _ _ _ _ _ _ _ _ V); eauto. }
  assert (Hinflt : forall x, In x infl -> x < ne).
  { intros x Hx. destruct (V_infl _ _ _ _ _ _ _ _ V x Hx) as (_ & tx & cx & b & Htx).
    eapply (V_fresh _ _ _ _ _ _ _ _ V); eauto. }
  assert (Hphlt : forall x c' e b, pv (ph x) = Some (c', e, b) -> e <> ne).
  { intros x c' e b H. pose proof (V_fresh _ _ _ _ _ _ _ _ V x c' e b H). lia. }
  assert (Hcases : forall c' x, In x (upd cw c (cw c ++ [ne]) c') ->
            (In x (cw c') /\ x <> ne) \/ (c' = c /\ x = ne)).
  { intros c' x Hx. destruct (Nat.eq_dec c' c) as [->|Hc].
    - rewrite upd_same in Hx. apply in_app_or in Hx. destruct Hx as [Hx|[<-|[]]]; [left|right; auto].
      split; [exact Hx|]. pose proof (Hcwlt c x Hx). lia.
    - rewrite upd_other in Hx by assumption. left. split; [exact Hx|]. pose proof (Hcwlt c' x Hx). lia. }
  constructor.
  - intros x c' e b H. destruct (Nat.eq_dec x t) as [->|Hx].
    + rewrite upd_same in H. cbn in H. injection H as <- <- <-. lia.
    + rewrite Hold in H by assumption. pose proof (V_fresh _ _ _ _ _ _ _ _ V x c' e b H). lia.
  - intros x1 x2 c1 c2 e b1 b2 H1 H2.
    destruct (Nat.eq_dec x1 t) as [->|Hx1]; destruct (Nat.eq_dec x2 t) as [->|Hx2]; auto.
    + rewrite upd_same in H1. cbn in H1. injection H1 as <- <- <-. rewrite Hold in H2 by assumption.
      exfalso. eapply Hphlt; eauto.
    + rewrite upd_same in H2. cbn in H2. injection H2 as <- <- <-. rewrite Hold in H1 by assumption.
      exfalso. eapply Hphlt; eauto.
    + rewrite Hold in H1, H2 by assumption. eapply (V_einj _ _ _ _ _ _ _ _ V); eauto.
  - intros c' x Hx. destruct (Hcases c' x Hx) as [[Hx' Hne]|[-> ->]].
    + rewrite upd_other by assumption.
      destruct (V_q _ _ _ _ _ _ _ _ V c' x Hx') as (H1 & tx & Htx). split; [exact H1|]. exists tx.
      assert (tx <> t) by congruence. now rewrite Hold.
    + rewrite upd_same. split; [reflexivity|]. exists t. now rewrite upd_same.
  - intros c'. destruct (Nat.eq_dec c' c) as [->|Hc].
    + rewrite upd_same. apply NoDup_app_tail1; [apply (V_qnd _ _ _ _ _ _ _ _ V)|].
      intros H. apply Hcwlt in H. lia.
    + rewrite upd_other by assumption. apply (V_qnd _ _ _ _ _ _ _ _ V).
  - intros x c' e H He. destruct (Nat.eq_dec x t) as [->|Hx].
    + rewrite upd_same in H. cbn in H. injection H as <- <-. rewrite !upd_same. split; [|discriminate].
      apply in_or_app. right. now left.
    + rewrite Hold in H by assumption. assert (e <> ne) by (eapply Hphlt; eauto).
      rewrite upd_other in He by assumption. rewrite (upd_other ef) by assumption.
      destruct (V_wait0 _ _ _ _ _ _ _ _ V x c' e H He). split; [|assumption].
      destruct (Nat.eq_dec c' c) as [->|Hc]; [rewrite upd_same; apply in_or_app; now left|].
      now rewrite upd_other.
  - intros x c' e H He. destruct (Nat.eq_dec x t) as [->|Hx].
    + rewrite upd_same in H. cbn in H. injection H as <- <-. rewrite upd_same in He. discriminate.
    + rewrite Hold in H by assumption. assert (e <> ne) by (eapply Hphlt; eauto).
      rewrite upd_other in He by assumption. rewrite upd_other by assumption.
      apply (V_wait1 _ _ _ _ _ _ _ _ V x c' e H He).
  - intros x c' e H. destruct (Nat.eq_dec x t) as [->|Hx].
    + rewrite upd_same in H. cbn in H. discriminate.
    + rewrite Hold in H by assumption. assert (e <> ne) by (eapply Hphlt; eauto).
      rewrite upd_other by assumption. apply (V_reacq _ _ _ _ _ _ _ _ V x c' e H).
  - intros e He. assert (e <> ne) by (pose proof (Hinflt e He); lia). rewrite upd_other by assumption.
    destruct (V_infl _ _ _ _ _ _ _ _ V e He) as (H1 & tx & cx & b & Htx). split; [exact H1|]. exists tx, cx, b.
    assert (tx <> t) by congruence. now rewrite Hold.
  - apply (V_inflnd _ _ _ _ _ _ _ _ V).
  - intros e He. destruct (Nat.eq_dec e ne) as [->|Hne]; [rewrite upd_same in He; discriminate|].
    rewrite upd_other in He by assumption. apply (V_setlog _ _ _ _ _ _ _ _ V), He.
  - intros c'. destruct (Nat.eq_dec c' c) as [->|Hc].
    + rewrite upd_same. apply subseq_app_tail, (V_fifo _ _ _ _ _ _ _ _ V).
    + rewrite upd_other by assumption. eapply subseq_trans; [apply (V_fifo _ _ _ _ _ _ _ _ V)|].
      clear. induction cq; cbn; [apply ss_skip, ss_nil|apply ss_take; assumption].
Qed.

(* a notified waiter woke up normally and now blocks in the re-acquire *)
Lemma S_block cw es ef ne ph cq sl infl t c e :
  EvS cw es ef ne ph cq sl infl -> ph t = PWait c e -> es e = true ->
  EvS cw es ef ne (upd ph t (PReacq c e false)) cq sl infl.
Proof.
  intros V Hpt Hes. assert (Hpv : pv (ph t) = Some (c, e, false)) by (now apply pv_wait).
  assert (Hold : forall x, x <> t -> pv (upd ph t (PReacq c e false) x) = pv (ph x))
    by (intros; now rewrite upd_other).
  assert (Hnew : pv (upd ph t (PReacq c e false) t) = Some (c, e, true)) by (now rewrite upd_same).
  destruct (V_wait1 _ _ _ _ _ _ _ _ V t c e Hpv Hes) as [Hef Hin].
  constructor.
  - intros x c' e' b H. destruct (Nat.eq_dec x t) as [->|Hx].
    + rewrite Hnew in H. injection H as <- <- <-. eapply (V_fresh _ _ _ _ _ _ _ _ V); eauto.
    + rewrite Hold in H by assumption. eapply (V_fresh _ _ _ _ _ _ _ _ V); eauto.
  - intros x1 x2 c1 c2 e' b1 b2 H1 H2.
    destruct (Nat.eq_dec x1 t) as [->|Hx1]; destruct (Nat.eq_dec x2 t) as [->|Hx2]; auto.
    + rewrite Hnew in H1. injection H1 as <- <- <-. rewrite Hold in H2 by assumption.
      eapply (V_einj _ _ _ _ _ _ _ _ V); eauto.
    + rewrite Hnew in H2. injection H2 as <- <- <-. rewrite Hold in H1 by assumption.
      eapply (V_einj _ _ _ _ _ _ _ _ V); eauto.
    + rewrite Hold in H1, H2 by assumption. eapply (V_einj _ _ _ _ _ _ _ _ V); eauto.
  - intros c' x Hx. destruct (V_q _ _ _ _ _ _ _ _ V c' x Hx) as (H1 & tx & Htx). split; [exact H1|].
    exists tx. assert (tx <> t).
    { intros ->. rewrite Hpv in Htx. injection Htx as -> ->. congruence. }
    now rewrite Hold.
  - apply (V_qnd _ _ _ _ _ _ _ _ V).
  - intros x c' e' H He. destruct (Nat.eq_dec x t) as [->|Hx]; [rewrite Hnew in H; discriminate|].
    rewrite Hold in H by assumption. eapply (V_wait0 _ _ _ _ _ _ _ _ V); eauto.
  - intros x c' e' H He. destruct (Nat.eq_dec x t) as [->|Hx]; [rewrite Hnew in H; discriminate|].
    rewrite Hold in H by assumption. eapply (V_wait1 _ _ _ _ _ _ _ _ V); eauto.
  - intros x c' e' H. destruct (Nat.eq_dec x t) as [->|Hx].
    + rewrite Hnew in H. injection H as <- <-. auto.
    + rewrite Hold in H by assumption. eapply (V_reacq _ _ _ _ _ _ _ _ V); eauto.
  - intros e' He. destruct (V_infl _ _ _ _ _ _ _ _ V e' He) as (H1 & tx & cx & b & Htx). split; [exact H1|].
    destruct (Nat.eq_dec tx t) as [->|Hx].
    + rewrite Hpv in Htx. injection Htx as <- <- <-. exists t, c, true. exact Hnew.
    + exists tx, cx, b. now rewrite Hold.
  - apply (V_inflnd _ _ _ _ _ _ _ _ V).
  - apply (V_setlog _ _ _ _ _ _ _ _ V).
  - apply (V_fifo _ _ _ _ _ _ _ _ V).
Qed.

(* a task whose event is set leaves its wait (returns, fails over, or hands the notification on) *)
Lemma S_leave_notified cw es ef ne ph cq sl infl t c e b p' :
  EvS cw es ef ne ph cq sl infl -> pv (ph t) = Some (c, e, b) -> es e = true -> pv p' = None ->
  EvS cw es ef ne (upd ph t p') cq sl (remove_first e infl) /\ In e infl.
Proof.
  intros V Hpv Hes Hp'.
  assert (Hold : forall x, x <> t -> pv (upd ph t p' x) = pv (ph x)) by (intros; now rewrite upd_other).
  assert (Hnew : pv (upd ph t p' t) = None) by (now rewrite upd_same).
  assert (Hin : In e infl).
  { destruct b; [apply (V_reacq _ _ _ _ _ _ _ _ V t c e Hpv)|apply (V_wait1 _ _ _ _ _ _ _ _ V t c e Hpv Hes)]. }
  assert (Hother : forall x c' e' b', pv (ph x) = Some (c', e', b') -> x <> t -> e' <> e).
  { intros x c' e' b' H Hx ->. apply Hx. eapply (V_einj _ _ _ _ _ _ _ _ V); eauto. }
  split; [|exact Hin]. constructor.
  - intros x c' e' b' H. destruct (Nat.eq_dec x t) as [->|Hx]; [rewrite Hnew in H; discriminate|].
    rewrite Hold in H by assumption. eapply (V_fresh _ _ _ _ _ _ _ _ V); eauto.
  - intros x1 x2 c1 c2 e' b1 b2 H1 H2.
    destruct (Nat.eq_dec x1 t) as [->|Hx1]; [rewrite Hnew in H1; discriminate|].
    destruct (Nat.eq_dec x2 t) as [->|Hx2]; [rewrite Hnew in H2; discriminate|].
    rewrite Hold in H1, H2 by assumption. eapply (V_einj _ _ _ _ _ _ _ _ V); eauto.
  - intros c' x Hx. destruct (V_q _ _ _ _ _ _ _ _ V c' x Hx) as (H1 & tx & Htx). split; [exact H1|].
    exists tx. assert (tx <> t).
    { intros ->. rewrite Hpv in Htx. injection Htx as -> -> _. congruence. }
    now rewrite Hold.
  - apply (V_qnd _ _ _ _ _ _ _ _ V).
  - intros x c' e' H He. destruct (Nat.eq_dec x t) as [->|Hx]; [rewrite Hnew in H; discriminate|].
    rewrite Hold in H by assumption. eapply (V_wait0 _ _ _ _ _ _ _ _ V); eauto.
  - intros x c' e' H He. destruct (Nat.eq_dec x t) as [->|Hx]; [rewrite Hnew in H; discriminate|].
    rewrite Hold in H by assumption. destruct (V_wait1 _ _ _ _ _ _ _ _ V x c' e' H He) as [H1 H2].
    split; [exact H1|]. apply remove_first_in_other; [exact H2|]. eapply Hother; eauto.
  - intros x c' e' H. destruct (Nat.eq_dec x t) as [->|Hx]; [rewrite Hnew in H; discriminate|].
    rewrite Hold in H by assumption. destruct (V_reacq _ _ _ _ _ _ _ _ V x c' e' H) as [H1 H2].
    split; [exact H1|]. apply remove_first_in_other; [exact H2|]. eapply Hother; eauto.
  - intros e' He. assert (He' : In e' infl) by (eapply remove_first_in; eauto).
    assert (e' <> e).
    { intros ->. revert He. apply remove_first_gone, (V_inflnd _ _ _ _ _ _ _ _ V). }
    destruct (V_infl _ _ _ _ _ _ _ _ V e' He') as (H1 & tx & cx & b' & Htx). split; [exact H1|].
    exists tx, cx, b'. assert (tx <> t).
    { intros ->. rewrite Hpv in Htx. injection Htx as -> -> _. congruence. }
    now rewrite Hold.
  - apply remove_first_nodup, (V_inflnd _ _ _ _ _ _ _ _ V).
  - apply (V_setlog _ _ _ _ _ _ _ _ V).
  - apply (V_fifo _ _ _ _ _ _ _ _ V).
Qed.

(* a cancelled waiter whose event was not set removes its event from its condition's queue *)
Lemma S_leave_unset cw es ef ne ph cq sl infl t c e p' :
  EvS cw es ef ne ph cq sl infl -> ph t = PWait c e -> es e = false -> pv p' = None ->
  EvS (upd cw c (remove_first e (cw c))) es ef ne (upd ph t p') cq sl infl.
Proof.
  intros V Hpt Hes Hp'. assert (Hpv : pv (ph t) = Some (c, e, false)) by (now apply pv_wait).
  assert (Hold : forall x, x <> t -> pv (upd ph t p' x) = pv (ph x)) by (intros; now rewrite upd_other).
  assert (Hnew : pv (upd ph t p' t) = None) by (now rewrite upd_same).
  assert (Hother : forall x c' e' b', pv (ph x) = Some (c', e', b') -> x <> t -> e' <> e).
  { intros x c' e' b' H Hx ->. apply Hx. eapply (V_einj _ _ _ _ _ _ _ _ V); eauto. }
  assert (Hsub : forall c' x, In x (upd cw c (remove_first e (cw c)) c') -> In x (cw c') /\ x <> e).
  { intros c' x Hx. destruct (Nat.eq_dec c' c) as [->|Hc].
    - rewrite upd_same in Hx. split; [eapply remove_first_in; eauto|].
      intros ->. revert Hx. apply remove_first_gone, (V_qnd _ _ _ _ _ _ _ _ V).
    - rewrite upd_other in Hx by assumption. split; [exact Hx|]. intros ->.
      destruct (V_q _ _ _ _ _ _ _ _ V c' e Hx) as (_ & tx & Htx).
      assert (tx = t) by (eapply (V_einj _ _ _ _ _ _ _ _ V); eauto). subst. congruence. }
  constructor.
  - intros x c' e' b' H. destruct (Nat.eq_dec x t) as [->|Hx]; [rewrite Hnew in H; discriminate|].
    rewrite Hold in H by assumption. eapply (V_fresh _ _ _ _ _ _ _ _ V); eauto.
  - intros x1 x2 c1 c2 e' b1 b2 H1 H2.
    destruct (Nat.eq_dec x1 t) as [->|Hx1]; [rewrite Hnew in H1; discriminate|].
    destruct (Nat.eq_dec x2 t) as [->|Hx2]; [rewrite Hnew in H2; discriminate|].
    rewrite Hold in H1, H2 by assumption. eapply (V_einj _ _ _ _ _ _ _ _ V); eauto.
  - intros c' x Hx. destruct (Hsub c' x Hx) as [Hx' Hne].
    destruct (V_q _ _ _ _ _ _ _ _ V c' x Hx') as (H1 & tx & Htx). split; [exact H1|].
    exists tx. assert (tx <> t).
    { intros ->. rewrite Hpv in Htx. injection Htx as -> ->. congruence. }
    now rewrite Hold.
  - intros c'. destruct (Nat.eq_dec c' c) as [->|Hc].
    + rewrite upd_same. apply remove_first_nodup, (V_qnd _ _ _ _ _ _ _ _ V).
    + rewrite upd_other by assumption. apply (V_qnd _ _ _ _ _ _ _ _ V).
  - intros x c' e' H He. destruct (Nat.eq_dec x t) as [->|Hx]; [rewrite Hnew in H; discriminate|].
    rewrite Hold in H by assumption. destruct (V_wait0 _ _ _ _ _ _ _ _ V x c' e' H He) as [H1 H2].
    split; [|exact H2]. destruct (Nat.eq_dec c' c) as [->|Hc].
    + rewrite upd_same. apply remove_first_in_other; [exact H1|]. eapply Hother; eauto.
    + now rewrite upd_other.
  - intros x c' e' H He. destruct (Nat.eq_dec x t) as [->|Hx]; [rewrite Hnew in H; discriminate|].
    rewrite Hold in H by assumption. eapply (V_wait1 _ _ _ _ _ _ _ _ V); eauto.
  - intros x c' e' H. destruct (Nat.eq_dec x t) as [->|Hx]; [rewrite Hnew in H; discriminate|].
    rewrite Hold in H by assumption. eapply (V_reacq _ _ _ _ _ _ _ _ V); eauto.
  - intros e' He. destruct (V_infl _ _ _ _ _ _ _ _ V e' He) as (H1 & tx & cx & b' & Htx). split; [exact H1|].
    exists tx, cx, b'. assert (tx <> t).
    { intros ->. rewrite Hpv in Htx. injection Htx as -> -> _. congruence. }
    now rewrite Hold.
  - apply (V_inflnd _ _ _ _ _ _ _ _ V).
  - apply (V_setlog _ _ _ _ _ _ _ _ V).
  - intros c'. destruct (Nat.eq_dec c' c) as [->|Hc].
    + rewrite upd_same. eapply subseq_trans; [apply remove_first_subseq|apply (V_fifo _ _ _ _ _ _ _ _ V)].
    + rewrite upd_other by assumption. apply (V_fifo _ _ _ _ _ _ _ _ V).
Qed.

(* cancelling the waiter future of a queued, unset event *)
Lemma S_cancel_fut cw es ef ne ph cq sl infl e :
  EvS cw es ef ne ph cq sl infl -> ef e = FPending ->
  EvS cw es (upd ef e FCancelled) ne ph cq sl infl.
Proof.
  intros V Hef. destruct V. constructor; auto.
  - intros t c x H Hx. destruct (V_wait2 t c x H Hx) as [H1 H2]. split; [exact H1|].
    destruct (Nat.eq_dec x e) as [->|Hne]; [rewrite upd_same; discriminate|now rewrite upd_other].
  - intros t c x H Hx. destruct (V_wait3 t c x H Hx) as [H1 H2]. split; [|exact H2].
    destruct (Nat.eq_dec x e) as [->|Hne]; [rewrite upd_same; discriminate|now rewrite upd_other].
Qed.

Lemma remove_first_app_in x l m : In x l -> remove_first x (l ++ m) = remove_first x l ++ m.
Proof.
  induction l as [|y r IH]; cbn; [tauto|]. intros H.
  destruct (Nat.eqb_spec y x) as [->|Hne]; [reflexivity|].
  destruct H as [H|H]; [contradiction|]. cbn. now rewrite IH.
Qed.

Lemma do_set_unset s e hz :
  eset s e = false ->
  do_set s e hz = cmk (variant s) (lk s) (owner_rec s) (cwaiters s) (upd (eset s) e true) (setf (efut s) e) (nev s)
                      (cphase_of s) (cenq s) (setlog s ++ [e]) (inflight s) (upd (horizon s) e hz) (nlog s)
                      (issued s) (consumed s) (dropped s) (lost s).
Proof. intros H. unfold do_set, setf. rewrite H. reflexivity. Qed.

Lemma notify_loop_ev n c hz : forall s, EvInv s -> EvInv (notify_loop n c hz s).
Proof.
  induction n as [|k IH]; intros s V; cbn [notify_loop]; [exact V|].
  destruct (cwaiters s c) as [|e r] eqn:Ecw; [exact V|].
  apply IH. destruct V as [V C].
  assert (Hin : In e (cwaiters s c)) by (rewrite Ecw; now left).
  destruct (V_q _ _ _ _ _ _ _ _ V c e Hin) as (Hes & _).
  rewrite (do_set_unset (with_cw s c r) e hz) by (cnorm; exact Hes). unfold EvInv. cnorm. split.
  - apply S_set_head; assumption.
  - rewrite app_length. cbn. lia.
Qed.

Lemma do_notify_ev s c n : EvInv s -> EvInv (do_notify s c n).
Proof. intros V. unfold do_notify. apply notify_loop_ev. exact V. Qed.

Lemma finish_wait_ev s t c e exc l' r :
  cwaiters (fst (finish_wait s t c e exc l' r)) = cwaiters s /\
  eset (fst (finish_wait s t c e exc l' r)) = eset s /\
  efut (fst (finish_wait s t c e exc l' r)) = efut s /\
  nev (fst (finish_wait s t c e exc l' r)) = nev s /\
  cenq (fst (finish_wait s t c e exc l' r)) = cenq s /\
  setlog (fst (finish_wait s t c e exc l' r)) = setlog s /\
  inflight (fst (finish_wait s t c e exc l' r)) =
    (if exc then inflight s else match r with RBlocked => inflight s | _ => remove_first e (inflight s) end) /\
  issued (fst (finish_wait s t c e exc l' r)) = issued s /\
  consumed (fst (finish_wait s t c e exc l' r)) + dropped (fst (finish_wait s t c e exc l' r))
    + lost (fst (finish_wait s t c e exc l' r)) =
    (if exc then 0 else match r with RBlocked => 0 | _ => 1 end) + (consumed s + dropped s + lost s) /\
  horizon (fst (finish_wait s t c e exc l' r)) = horizon s /\
  nlog (fst (finish_wait s t c e exc l' r)) = nlog s.
Proof. destruct r, exc; cbn; repeat split; lia. Qed.

Ltac fw_atoms :=
  let a := fresh "ca" in let b := fresh "cb" in let c := fresh "cc" in
  set (a := consumed (fst (finish_wait _ _ _ _ _ _ _))) in *;
  set (b := dropped (fst (finish_wait _ _ _ _ _ _ _))) in *;
  set (c := lost (fst (finish_wait _ _ _ _ _ _ _))) in *; clearbody a b c.

Lemma ev_finish s t c e exc l' r :
  (exc = false -> EvInv s /\ eset s e = true /\
                  (cphase_of s t = PWait c e \/ (cphase_of s t = PReacq c e false /\ r <> RBlocked))) ->
  (exc = true -> issued s = consumed s + length (inflight s) + dropped s + lost s /\
                 forall p', pv p' = None ->
                   EvS (cwaiters s) (eset s) (efut s) (nev s) (upd (cphase_of s) t p') (cenq s) (setlog s)
                       (inflight s)) ->
  EvInv (fst (finish_wait s t c e exc l' r)).
Proof.
  intros Hf Ht. unfold EvInv.
  destruct (finish_wait_ev s t c e exc l' r) as (-> & -> & -> & -> & -> & -> & Hi & Hiss & Hc & _).
  destruct (finish_wait_proj s t c e exc l' r) as (_ & _ & ->).
  rewrite Hi, Hiss. destruct exc.
  - destruct (Ht eq_refl) as [C V]. cbv iota in Hc. fw_atoms. split; [|lia]. apply V. destruct r; reflexivity.
  - destruct (Hf eq_refl) as ([V C] & Hes & Hph).
    assert (Hleave : forall p', pv p' = None ->
              EvS (cwaiters s) (eset s) (efut s) (nev s) (upd (cphase_of s) t p') (cenq s) (setlog s)
                  (remove_first e (inflight s)) /\ In e (inflight s)).
    { intros p' Hp'. destruct Hph as [Hph|[Hph _]].
      - apply (S_leave_notified _ _ _ _ _ _ _ _ t c e false); auto. now apply pv_wait.
      - apply (S_leave_notified _ _ _ _ _ _ _ _ t c e true); auto. now apply pv_reacq. }
    destruct r; cbv iota in Hc |- *; fw_atoms;
      try (destruct (Hleave PIdle eq_refl) as [V' Hin]; split; [exact V'|];
           pose proof (remove_first_length e _ Hin); unfold eid in *; lia).
    (* RBlocked *)
    destruct Hph as [Hph|[_ Hne]]; [|exfalso; apply Hne; reflexivity].
    split; [|lia]. apply S_block; assumption.
Qed.

Lemma ev_resume_wait s t c e L0 x l' r :
  EvInv s -> cphase_of s t = PWait c e -> (x = false -> eset s e = true) ->
  EvInv (fst (finish_wait (if x then wait_interrupted (with_lk s L0) c e else with_lk s L0) t c e x l' r)).
Proof.
  intros [V C] Hph Hx. assert (Hpv : pv (cphase_of s t) = Some (c, e, false)) by (now apply pv_wait).
  destruct x; apply ev_finish; try discriminate.
  - intros _. unfold wait_interrupted. cnorm. destruct (eset s e) eqn:Ees.
    + destruct (cwaiters s c) as [|h q] eqn:Ecw.
      * cnorm.
        assert (Hl : forall p', pv p' = None ->
                  EvS (cwaiters s) (eset s) (efut s) (nev s) (upd (cphase_of s) t p') (cenq s) (setlog s)
                      (remove_first e (inflight s)) /\ In e (inflight s)).
        { intros p' Hp'. apply (S_leave_notified _ _ _ _ _ _ _ _ t c e false); auto. }
        destruct (Hl PIdle eq_refl) as [_ Hin]. pose proof (remove_first_length e _ Hin).
        split; [unfold eid in *; lia|]. intros p' Hp'. apply Hl, Hp'.
      * assert (Hinq : In h (cwaiters s c)) by (rewrite Ecw; now left).
        destruct (V_q _ _ _ _ _ _ _ _ V c h Hinq) as (Hes & _).
        rewrite (do_set_unset (with_cw (with_lk s L0) c q) h (horizon s e)) by (cnorm; exact Hes). cnorm.
        assert (Hne : e <> h) by congruence.
        pose proof (S_set_head c h q _ _ _ _ _ _ _ _ V Ecw) as V1.
        assert (Hl : forall p', pv p' = None ->
                  EvS (upd (cwaiters s) c q) (upd (eset s) h true) (setf (efut s) h) (nev s)
                      (upd (cphase_of s) t p') (cenq s)
                      (setlog s ++ [h]) (remove_first e (inflight s ++ [h])) /\ In e (inflight s ++ [h])).
        { intros p' Hp'. apply (S_leave_notified _ _ _ _ _ _ _ _ t c e false); auto.
          now rewrite upd_other. }
        assert (Hin : In e (inflight s)).
        { destruct (Hl PIdle eq_refl) as [_ H]. apply in_app_or in H. destruct H as [H|[H|[]]]; congruence. }
        rewrite remove_first_app_in in Hl by exact Hin.
        pose proof (remove_first_length e _ Hin).
        split; [rewrite app_length; cbn; unfold eid in *; lia|]. intros p' Hp'. apply Hl, Hp'.
    + cnorm. split; [exact C|]. intros p' Hp'. apply S_leave_unset; auto.
  - intros _. unfold EvInv. cnorm.
    split; [split; [exact V|exact C]|split; [apply Hx; reflexivity|left; exact Hph]].
Qed.

Lemma ev_phase_none s t p' L O :
  EvInv s -> pv (cphase_of s t) = None -> pv p' = None ->
  EvInv (cmk (variant s) L O (cwaiters s) (eset s) (efut s) (nev s) (upd (cphase_of s) t p') (cenq s)
             (setlog s) (inflight s) (horizon s) (nlog s) (issued s) (consumed s) (dropped s) (lost s)).
Proof.
  intros [V C] H1 H2. unfold EvInv. cnorm. split; [|exact C].
  eapply S_phase_ext; [|exact V]. now apply pv_upd_none.
Qed.

Lemma ev_acquire_begin s oc t o :
  EvInv s -> cphase_of s t = PIdle -> EvInv (fst (acquire_begin s oc t o)).
Proof.
  intros V Ei. unfold acquire_begin. destruct (Lock.step (lk s) o) as [l' r].
  destruct r; cbn [fst]; try exact V.
  apply (ev_phase_none s t (PAcq oc)); auto. now rewrite Ei.
Qed.

(* at HEAD the holder test and the lock agree: an accepted wait() always manages to release *)
Lemma head_check_release s c t l' r :
  variant s = 0 -> holder_check s c t = true -> phase_of (lk s) t = Idle ->
  Lock.step (lk s) (Release t) = (l', r) -> r = RDone.
Proof.
  intros Hv Hc Hli E. unfold holder_check in Hc. rewrite Hv in Hc. apply tid_eqb_opt_true in Hc.
  pose proof (lstep_release_res _ t _ _ Hli E) as R. destruct r; try contradiction; [reflexivity|].
  destruct R as [_ Hno]. contradiction.
Qed.

Lemma cstep_evinv s o : variant s = 0 -> LkInv s -> EvInv s -> EvInv (fst (cstep s o)).
Proof.
  intros Hv K V. unfold LkInv in K.
  destruct o as [c t|c t|c t|c t n|c t|c t|t|t|t|t|t|t]; cbn [cstep].
  - destruct (c_is_idle (cphase_of s t)) eqn:Ei; cbn [negb fst]; [|exact V].
    apply c_is_idle_true in Ei. now apply ev_acquire_begin.
  - destruct (c_is_idle (cphase_of s t)) eqn:Ei; cbn [negb fst]; [|exact V].
    apply c_is_idle_true in Ei. now apply ev_acquire_begin.
  - destruct (c_is_idle (cphase_of s t)) eqn:Ei; cbn [negb fst]; [|exact V].
    destruct (Lock.step (lk s) (Release t)) as [l' r].
    destruct r; cbn [fst]; exact V.
  - destruct (c_is_idle (cphase_of s t)) eqn:Ei; cbn [negb fst]; [|exact V].
    destruct (holder_check s c t); cbn [fst]; [|exact V].
    apply do_notify_ev, V.
  - destruct (c_is_idle (cphase_of s t)) eqn:Ei; cbn [negb fst]; [|exact V].
    destruct (holder_check s c t); cbn [fst]; [|exact V].
    apply do_notify_ev, V.
  - (* CWait *)
    destruct (c_is_idle (cphase_of s t)) eqn:Ei; cbn [negb fst]; [|exact V].
    apply c_is_idle_true in Ei.
    destruct (holder_check s c t) eqn:Eo; cbn [fst]; [|exact V].
    assert (Hli : phase_of (lk s) t = Idle) by (apply (K_coupling _ _ K); rewrite Ei; reflexivity).
    destruct (Lock.step (lk s) (Release t)) as [l' r] eqn:E.
    rewrite (head_check_release s c t l' r Hv Eo Hli E). cbn [fst].
    destruct V as [V C]. unfold EvInv. cnorm. split; [|exact C].
    apply S_enqueue; [exact V|]. now rewrite Ei.
  - destruct (c_is_idle (cphase_of s t)) eqn:Ei; cbn [negb fst]; [|exact V].
    apply c_is_idle_true in Ei. now apply ev_acquire_begin.
  - destruct (c_is_idle (cphase_of s t)) eqn:Ei; cbn [negb fst]; [|exact V].
    apply c_is_idle_true in Ei. now apply ev_acquire_begin.
  - destruct (c_is_idle (cphase_of s t)) eqn:Ei; cbn [negb fst]; [|exact V].
    destruct (Lock.step (lk s) (Release t)) as [l' r]. exact V.
  - (* CResume *)
    destruct (cphase_of s t) as [|oc|c e|c e exc] eqn:Ep; [exact V| | |].
    + destruct (Lock.step (lk s) (Resume t)) as [l' r].
      destruct r; cbn [fst]; try exact V; apply (ev_phase_none s t PIdle); auto; now rewrite Ep.
    + destruct (efut s e) eqn:Ef; [exact V| |].
      * match goal with |- context [Lock.step ?L ?o] => destruct (Lock.step L o) as [l' r] end.
        apply ev_resume_wait; auto. intros _.
        destruct (eset s e) eqn:Ees; [reflexivity|]. exfalso.
        destruct V as [V _]. assert (Hpv : pv (cphase_of s t) = Some (c, e, false)) by (now apply pv_wait).
        destruct (V_wait0 _ _ _ _ _ _ _ _ V t c e Hpv Ees) as [_ H]. contradiction.
      * match goal with |- context [Lock.step ?L ?o] => destruct (Lock.step L o) as [l' r] end.
        apply (ev_resume_wait s t c e _ true); auto. discriminate.
    + destruct (Lock.step (lk s) (Resume t)) as [l' r] eqn:E.
      assert (Hfin : r <> RRejected -> EvInv (fst (finish_wait s t c e exc l' r))).
      { intros Hr. apply ev_finish.
        - intros ->. refine (conj V (conj _ _)).
          + destruct V as [V _]. apply (V_reacq _ _ _ _ _ _ _ _ V t c e). now apply pv_reacq.
          + right. split; [exact Ep|]. intros ->.
            assert (Hli : phase_of (lk s) t <> Idle).
            { intros H. apply (K_coupling _ _ K) in H. rewrite Ep in H. discriminate. }
            pose proof (lstep_resume_res _ t _ _ (K_lock _ _ K) Hli E) as R. exact R.
        - intros ->. destruct V as [V C]. split; [exact C|]. intros p' Hp'.
          eapply S_phase_ext; [|exact V]. apply pv_upd_none; [now rewrite Ep|exact Hp']. }
      destruct r; try (apply Hfin; discriminate). exact V.
  - (* CCancel *)
    destruct (cphase_of s t) as [|oc|c e|c e exc] eqn:Ep; [exact V| | |].
    + destruct (Lock.step (lk s) (Cancel t)) as [l' r]. exact V.
    + destruct (efut s e) eqn:Ef; cbn [fst]; try exact V.
      destruct V as [V C]. unfold EvInv. cnorm. split; [|exact C]. apply S_cancel_fut; assumption.
    + destruct (Lock.step (lk s) (Cancel t)) as [l' r]. exact V.
  - (* CScopeCancel *)
    destruct (cphase_of s t) as [|oc|c e|c e exc] eqn:Ep; [exact V| | |exact V].
    + destruct (phase_of (lk s) t) as [| |f]; try exact V.
      destruct (futs (lk s) f); try exact V.
      destruct (Lock.step (lk s) (Cancel t)) as [l' r]. exact V.
    + destruct (efut s e) eqn:Ef; cbn [fst]; try exact V.
      destruct V as [V C]. unfold EvInv. cnorm. split; [|exact C]. apply S_cancel_fut; assumption.
Qed.

(* ====================================================================================================== *)
(*  the combined invariant (HEAD: variant 0)                                                              *)
(* ====================================================================================================== *)
Record CInv (s : cst) : Prop := { C_var : variant s = 0; C_lk : LkInv s; C_ev : EvInv s }.

Lemma cinv_init fa : CInv (cinit fa 0).
Proof.
  constructor; [reflexivity| |].
  - unfold LkInv. cbn. constructor.
    + apply inv_init.
    + intros t. cbn. tauto.
    + intros t [].
  - split; [apply S_init|reflexivity].
Qed.

Lemma acquire_begin_variant s oc t o : variant (fst (acquire_begin s oc t o)) = variant s.
Proof. unfold acquire_begin. destruct (Lock.step _ _) as [l' r]. destruct r; reflexivity. Qed.

Lemma cstep_variant s o : variant (fst (cstep s o)) = variant s.
Proof.
  destruct o as [c t|c t|c t|c t n|c t|c t|t|t|t|t|t|t]; cbn [cstep].
  - destruct (negb _); [reflexivity|]. apply acquire_begin_variant.
  - destruct (negb _); [reflexivity|]. apply acquire_begin_variant.
  - destruct (negb _); [reflexivity|]. destruct (Lock.step _ _) as [l' r]. destruct r; reflexivity.
  - destruct (negb _); [reflexivity|]. destruct (holder_check _ _ _); [|reflexivity]. apply do_notify_proj.
  - destruct (negb _); [reflexivity|]. destruct (holder_check _ _ _); [|reflexivity]. apply do_notify_proj.
  - destruct (negb _); [reflexivity|]. destruct (holder_check _ _ _); [|reflexivity].
    destruct (Lock.step _ _) as [l' r]. destruct r; reflexivity.
  - destruct (negb _); [reflexivity|]. apply acquire_begin_variant.
  - destruct (negb _); [reflexivity|]. apply acquire_begin_variant.
  - destruct (negb _); [reflexivity|]. destruct (Lock.step _ _) as [l' r]. reflexivity.
  - destruct (cphase_of s t) as [|oc|c e|c e exc]; [reflexivity| | |].
    + destruct (Lock.step _ _) as [l' r]. destruct r; reflexivity.
    + destruct (efut s e); [reflexivity| |].
      * match goal with |- context [Lock.step ?L ?o] => destruct (Lock.step L o) as [l' r] end.
        destruct (finish_wait_proj
                    (if mustc (lk s) t then wait_interrupted (with_lk s (set_mustc (lk s) t false)) c e
                     else with_lk s (set_mustc (lk s) t false)) t c e (mustc (lk s) t) l' r) as (_ & -> & _).
        destruct (mustc (lk s) t); [|reflexivity].
        destruct (wait_interrupted_proj (with_lk s (set_mustc (lk s) t false)) c e) as (_ & _ & ->).
        reflexivity.
      * match goal with |- context [Lock.step ?L ?o] => destruct (Lock.step L o) as [l' r] end.
        destruct (finish_wait_proj (wait_interrupted (with_lk s (set_mustc (lk s) t false)) c e) t c e true l' r)
          as (_ & -> & _).
        destruct (wait_interrupted_proj (with_lk s (set_mustc (lk s) t false)) c e) as (_ & _ & ->).
        reflexivity.
    + destruct (Lock.step _ _) as [l' r].
      destruct r; try reflexivity; apply finish_wait_proj.
  - destruct (cphase_of s t) as [|oc|c e|c e exc]; [reflexivity| | |].
    + destruct (Lock.step _ _) as [l' r]. reflexivity.
    + destruct (efut s e); reflexivity.
    + destruct (Lock.step _ _) as [l' r]. reflexivity.
  - destruct (cphase_of s t) as [|oc|c e|c e exc]; [reflexivity| | |reflexivity].
    + destruct (phase_of (lk s) t); try reflexivity. destruct (futs _ _); try reflexivity.
      destruct (Lock.step _ _) as [l' r]. reflexivity.
    + destruct (efut s e); reflexivity.
Qed.

Lemma cstep_inv s o : CInv s -> CInv (fst (cstep s o)).
Proof.
  intros [P K V]. constructor.
  - now rewrite cstep_variant.
  - now apply cstep_lkinv.
  - now apply cstep_evinv.
Qed.

Theorem creachable_inv fa ops : CInv (final cstep (cinit fa 0) ops).
Proof. apply final_inv; [apply cstep_inv|apply cinv_init]. Qed.

(* ====================================================================================================== *)
(*  documented scope: without a native cancel inside the shielded re-acquire, the re-acquire cannot fail  *)
(* ====================================================================================================== *)
Definition reacq_ok (l : Lock.st) (t : tid) : Prop :=
  mustc l t = false /\ forall f, phase_of l t = Waiting f -> futs l f <> FCancelled.

Definition QInv (s : cst) : Prop := forall t c e x, cphase_of s t = PReacq c e x -> reacq_ok (lk s) t.

Lemma do_release_futs s t f : futs (do_release s t) f = FCancelled -> futs s f = FCancelled.
Proof.
  unfold do_release. pose proof (handoff_spec (waiters s) (futs s)) as H.
  destruct (handoff (waiters s) (futs s)) as [[o ws] fu]. cbn. destruct o as [w|].
  - destruct H as (pre & f0 & _ & _ & -> & _). intros H.
    destruct (Nat.eq_dec f f0) as [->|Hne]; [rewrite upd_same in H; discriminate|].
    now rewrite upd_other in H.
  - destruct H as (_ & -> & _). auto.
Qed.

Lemma lstep_futs_frame l o l' r t f :
  Inv l -> Lock.step l o = (l', r) -> t <> lop_task o -> phase_of l t = Waiting f ->
  futs l' f = FCancelled -> futs l f = FCancelled.
Proof.
  intros I E Hne Hp. destruct o as [u|u|u|u|u]; cbn [lop_task] in Hne; revert E; cbn [Lock.step].
  - destruct (negb _); [intros [= <- _]; auto|].
    destruct (owner l), (waiters l); try destruct (tid_eqb_opt _ u); try destruct (fast l);
      intros [= <- _]; cbn; auto.
    all: intros H; destruct (Nat.eq_dec f (nfut l)) as [->|Hf];
      [rewrite upd_same in H; discriminate|now rewrite upd_other in H].
  - destruct (negb _); [intros [= <- _]; auto|].
    destruct (owner l), (waiters l); try destruct (tid_eqb_opt _ u); intros [= <- _]; cbn; auto.
  - destruct (negb _); [intros [= <- _]; auto|].
    destruct (tid_eqb_opt _ u); intros [= <- _]; auto. apply do_release_futs.
  - destruct (phase_of l u) as [| |g] eqn:Eu; [intros [= <- _]; auto| |].
    + destruct (mustc l u); [destruct (tid_eqb_opt _ u)|]; intros [= <- _]; cbn; auto.
      intros H. apply do_release_futs in H. exact H.
    + destruct (futs l g); [intros [= <- _]; auto| |intros [= <- _]; cbn; auto].
      destruct (mustc l u); [destruct (tid_eqb_opt _ u)|]; intros [= <- _]; cbn; auto.
      intros H. apply do_release_futs in H. exact H.
  - destruct (phase_of l u) as [| |g] eqn:Eu; [intros [= <- _]; auto|intros [= <- _]; cbn; auto|].
    destruct (futs l g) eqn:Eg; intros [= <- _]; cbn; auto.
    intros H. destruct (Nat.eq_dec f g) as [->|Hf]; [|now rewrite upd_other in H].
    exfalso. apply Hne. eapply (I_inj l I); eauto.
Qed.

Lemma RF_step l o l' r t :
  Inv l -> Lock.step l o = (l', r) -> t <> lop_task o -> reacq_ok l t -> reacq_ok l' t.
Proof.
  intros I E Hne [H1 H2].
  destruct (lstep_frames _ _ _ _ I E) as (_ & Fp & _ & Fm). split.
  - rewrite Fm; auto.
  - intros f Hf. rewrite Fp in Hf by auto. intros Hc. apply (H2 f Hf).
    eapply lstep_futs_frame; eauto.
Qed.

Lemma RF_mustc l u b t : t <> u -> reacq_ok l t -> reacq_ok (set_mustc l u b) t.
Proof. intros Hne [H1 H2]. split; cbn; [now rewrite upd_other|exact H2]. Qed.

Lemma Q_generic s u l' ph' :
  QInv s -> (forall t, t <> u -> ph' t = cphase_of s t) ->
  (forall t, t <> u -> reacq_ok (lk s) t -> reacq_ok l' t) ->
  (forall c e x, ph' u = PReacq c e x -> reacq_ok l' u) ->
  forall t c e x, ph' t = PReacq c e x -> reacq_ok l' t.
Proof.
  intros Q F1 F2 F3 t c e x H. destruct (Nat.eq_dec t u) as [->|Hne]; [eauto|].
  apply F2; [exact Hne|]. rewrite F1 in H by exact Hne. eapply Q; eauto.
Qed.

Lemma q_acquire_begin s oc t o :
  LkInv s -> QInv s -> (o = AcqBegin t \/ o = AcqNowait t) -> cphase_of s t = PIdle ->
  QInv (fst (acquire_begin s oc t o)).
Proof.
  intros K Q Ho Ei. unfold LkInv in K. pose proof (K_lock _ _ K) as I. unfold acquire_begin.
  destruct (Lock.step (lk s) o) as [l' r] eqn:E.
  assert (Hlt : lop_task o = t) by (destruct Ho as [-> | ->]; reflexivity).
  assert (F : forall x, x <> t -> reacq_ok (lk s) x -> reacq_ok l' x).
  { intros x Hx. eapply RF_step; eauto. now rewrite Hlt. }
  destruct r; cbn [fst]; unfold QInv; cnorm; apply (Q_generic s t); auto;
    try apply upd_other_fun; intros c e x; rewrite ?upd_same; congruence.
Qed.

Lemma cstep_qinv s o : CInv s -> QInv s -> native_reacq s o = false -> QInv (fst (cstep s o)).
Proof.
  intros [P K V] Q Hn. pose proof K as K'. unfold LkInv in K. pose proof (K_lock _ _ K) as I.
  destruct o as [c t|c t|c t|c t n|c t|c t|t|t|t|t|t|t]; cbn [cstep].
  - destruct (c_is_idle (cphase_of s t)) eqn:Ei; cbn [negb fst]; [|exact Q].
    apply c_is_idle_true in Ei. apply q_acquire_begin; auto.
  - destruct (c_is_idle (cphase_of s t)) eqn:Ei; cbn [negb fst]; [|exact Q].
    apply c_is_idle_true in Ei. apply q_acquire_begin; auto.
  - (* CRelease *)
    destruct (c_is_idle (cphase_of s t)) eqn:Ei; cbn [negb fst]; [|exact Q].
    apply c_is_idle_true in Ei.
    destruct (Lock.step (lk s) (Release t)) as [l' r] eqn:E.
    assert (F : forall x, x <> t -> reacq_ok (lk s) x -> reacq_ok l' x)
      by (intros x Hx; eapply RF_step; eauto).
    destruct r; cbn [fst]; unfold QInv; cnorm; apply (Q_generic s t); auto;
      intros c0 e x; congruence.
  - destruct (c_is_idle (cphase_of s t)) eqn:Ei; cbn [negb fst]; [|exact Q].
    destruct (holder_check s c t); cbn [fst]; [|exact Q].
    unfold QInv. destruct (do_notify_proj s c n) as (-> & -> & _). exact Q.
  - destruct (c_is_idle (cphase_of s t)) eqn:Ei; cbn [negb fst]; [|exact Q].
    destruct (holder_check s c t); cbn [fst]; [|exact Q].
    unfold QInv. destruct (do_notify_proj s c (length (cwaiters s c))) as (-> & -> & _). exact Q.
  - (* CWait *)
    destruct (c_is_idle (cphase_of s t)) eqn:Ei; cbn [negb fst]; [|exact Q].
    apply c_is_idle_true in Ei.
    destruct (holder_check s c t) eqn:Eo; cbn [fst]; [|exact Q].
    destruct (Lock.step (lk s) (Release t)) as [l' r] eqn:E.
    assert (F : forall x, x <> t -> reacq_ok (lk s) x -> reacq_ok l' x)
      by (intros x Hx; eapply RF_step; eauto).
    destruct r; cbn [fst]; unfold QInv; cnorm; apply (Q_generic s t); auto;
      try apply upd_other_fun; intros c0 e x; rewrite ?upd_same; congruence.
  - destruct (c_is_idle (cphase_of s t)) eqn:Ei; cbn [negb fst]; [|exact Q].
    apply c_is_idle_true in Ei. apply q_acquire_begin; auto.
  - destruct (c_is_idle (cphase_of s t)) eqn:Ei; cbn [negb fst]; [|exact Q].
    apply c_is_idle_true in Ei. apply q_acquire_begin; auto.
  - (* LRelease *)
    destruct (c_is_idle (cphase_of s t)) eqn:Ei; cbn [negb fst]; [|exact Q].
    apply c_is_idle_true in Ei.
    destruct (Lock.step (lk s) (Release t)) as [l' r] eqn:E.
    assert (F : forall x, x <> t -> reacq_ok (lk s) x -> reacq_ok l' x)
      by (intros x Hx; eapply RF_step; eauto).
    cbn [fst]; unfold QInv; cnorm; apply (Q_generic s t); auto; intros c0 e x; congruence.
  - (* CResume *)
    destruct (cphase_of s t) as [|oc|c e|c e exc] eqn:Ep; [exact Q| | |].
    + destruct (Lock.step (lk s) (Resume t)) as [l' r] eqn:E.
      assert (F : forall x, x <> t -> reacq_ok (lk s) x -> reacq_ok l' x)
        by (intros x Hx; eapply RF_step; eauto).
      destruct r; cbn [fst]; try exact Q; unfold QInv; cnorm; apply (Q_generic s t); auto;
        try apply upd_other_fun; intros c0 e x; rewrite ?upd_same; congruence.
    + pose proof (LK_mustc _ _ t false K) as K0. pose proof (K_lock _ _ K0) as I0.
      assert (Hli : phase_of (set_mustc (lk s) t false) t = Idle)
        by (apply (K_coupling _ _ K0); rewrite Ep; reflexivity).
      assert (Hfin : forall s1 xx,
                 lk s1 = set_mustc (lk s) t false /\ cphase_of s1 = cphase_of s ->
                 QInv (fst (let '(l', r) := Lock.step (lk s1) (AcqBegin t) in finish_wait s1 t c e xx l' r))).
      { intros s1 xx (P1 & P3). rewrite P1.
        destruct (Lock.step (set_mustc (lk s) t false) (AcqBegin t)) as [l' r] eqn:E.
        pose proof (lstep_acq_res _ t _ _ _ (or_introl eq_refl) Hli E) as R.
        unfold QInv. destruct (finish_wait_proj s1 t c e xx l' r) as (-> & _ & ->). rewrite P3.
        apply (Q_generic s t); auto.
        - apply upd_other_fun.
        - intros x Hx Hok. eapply RF_step; [exact I0|exact E|exact Hx|]. now apply RF_mustc.
        - intros c' e' x'. rewrite upd_same. destruct r; try discriminate. intros _.
          destruct R as (_ & _ & Rm & Rf). split.
          + rewrite Rm. cbn. apply upd_same.
          + intros f Hf. rewrite (Rf f Hf). discriminate. }
      destruct (efut s e) eqn:Ef; [exact Q| |].
      * apply Hfin. destruct (mustc (lk s) t); [apply wait_interrupted_proj3|cnorm; auto].
      * apply Hfin. apply wait_interrupted_proj3.
    + destruct (Lock.step (lk s) (Resume t)) as [l' r] eqn:E.
      assert (F : forall x, x <> t -> reacq_ok (lk s) x -> reacq_ok l' x)
        by (intros x Hx; eapply RF_step; eauto).
      assert (Hli : phase_of (lk s) t <> Idle).
      { intros H. apply (K_coupling _ _ K) in H. rewrite Ep in H. discriminate. }
      pose proof (lstep_resume_res _ t _ _ I Hli E) as R.
      destruct r; try contradiction; try exact Q.
      * unfold QInv. destruct (finish_wait_proj s t c e exc l' RDone) as (-> & _ & ->).
        apply (Q_generic s t); auto; try apply upd_other_fun. intros c' e' x'. rewrite upd_same. discriminate.
      * unfold QInv. destruct (finish_wait_proj s t c e exc l' RCancelled) as (-> & _ & ->).
        apply (Q_generic s t); auto; try apply upd_other_fun. intros c' e' x'. rewrite upd_same. discriminate.
  - (* CCancel *)
    cbn [native_reacq] in Hn.
    destruct (cphase_of s t) as [|oc|c e|c e exc] eqn:Ep; [exact Q| | |discriminate].
    + destruct (Lock.step (lk s) (Cancel t)) as [l' r] eqn:E.
      assert (F : forall x, x <> t -> reacq_ok (lk s) x -> reacq_ok l' x)
        by (intros x Hx; eapply RF_step; eauto).
      cbn [fst]; unfold QInv; cnorm; apply (Q_generic s t); auto. intros c0 e x; congruence.
    + destruct (efut s e); cbn [fst]; unfold QInv; cnorm; try exact Q;
        apply (Q_generic s t); auto; try (intros x Hx; now apply RF_mustc); intros c' e' x; congruence.
  - (* CScopeCancel *)
    destruct (cphase_of s t) as [|oc|c e|c e exc] eqn:Ep; [exact Q| | |exact Q].
    + destruct (phase_of (lk s) t) as [| |f]; try exact Q.
      destruct (futs (lk s) f); try exact Q.
      destruct (Lock.step (lk s) (Cancel t)) as [l' r] eqn:E.
      assert (F : forall x, x <> t -> reacq_ok (lk s) x -> reacq_ok l' x)
        by (intros x Hx; eapply RF_step; eauto).
      cbn [fst]; unfold QInv; cnorm; apply (Q_generic s t); auto. intros c0 e x; congruence.
    + destruct (efut s e); cbn [fst]; exact Q.
Qed.

(* ====================================================================================================== *)
(*  known finding F18: unless a notification is handed over to a later arrival, every set event carries a  *)
(*  notification issued by a notify call made after its wait() began                                      *)
(* ====================================================================================================== *)
Definition HI (es : eid -> bool) (hor : eid -> nat) (nl : list nat) : Prop :=
  forall e, es e = true -> e < hor e /\ In (hor e) nl.

Definition HInv (s : cst) : Prop := HI (eset s) (horizon s) (nlog s).

Lemma notify_loop_h n c hz : forall s,
  EvInv s -> (forall e, In e (cwaiters s c) -> e < hz) -> In hz (nlog s) -> HInv s ->
  HInv (notify_loop n c hz s).
Proof.
  induction n as [|k IH]; intros s V Hq Hn H; cbn [notify_loop]; [exact H|].
  destruct (cwaiters s c) as [|e r] eqn:Ecw; [exact H|].
  destruct V as [V C].
  assert (Hin : In e (cwaiters s c)) by (rewrite Ecw; now left).
  destruct (V_q _ _ _ _ _ _ _ _ V c e Hin) as (Hes & _).
  rewrite (do_set_unset (with_cw s c r) e hz) by (cnorm; exact Hes). cnorm.
  apply IH.
  - unfold EvInv. cnorm. split; [apply S_set_head; assumption|]. rewrite app_length. cbn. lia.
  - cnorm. rewrite upd_same. intros x Hx. apply Hq. now right.
  - cnorm. exact Hn.
  - unfold HInv, HI. cnorm. intros x Hx. destruct (Nat.eq_dec x e) as [->|Hne].
    + rewrite upd_same. split; [apply Hq; now left|exact Hn].
    + rewrite upd_other in Hx by assumption. rewrite upd_other by assumption. apply H, Hx.
Qed.

Lemma do_notify_h s c n : EvInv s -> HInv s -> HInv (do_notify s c n).
Proof.
  intros V H. unfold do_notify. apply notify_loop_h.
  - exact V.
  - cnorm. intros e He. destruct V as [V _]. destruct (V_q _ _ _ _ _ _ _ _ V c e He) as (_ & t & Ht).
    eapply (V_fresh _ _ _ _ _ _ _ _ V); eauto.
  - cnorm. apply in_or_app. right. now left.
  - unfold HInv, HI in *. cnorm. intros e He. destruct (H e He) as [H1 H2]. split; [exact H1|].
    apply in_or_app. now left.
Qed.

Lemma acquire_begin_h s oc t o :
  eset (fst (acquire_begin s oc t o)) = eset s /\ horizon (fst (acquire_begin s oc t o)) = horizon s /\
  nlog (fst (acquire_begin s oc t o)) = nlog s.
Proof. unfold acquire_begin. destruct (Lock.step _ _) as [l' r]. destruct r; cbn; auto. Qed.

Lemma cstep_hinv s o :
  variant s = 0 -> LkInv s -> EvInv s -> HInv s -> late_handover s o = false -> HInv (fst (cstep s o)).
Proof.
  intros Hv K V H Hn. unfold LkInv in K.
  destruct o as [c t|c t|c t|c t n|c t|c t|t|t|t|t|t|t]; cbn [cstep].
  - destruct (negb _); [exact H|]. unfold HInv. destruct (acquire_begin_h s (Some c) t (AcqBegin t)) as (-> & -> & ->). exact H.
  - destruct (negb _); [exact H|]. unfold HInv. destruct (acquire_begin_h s (Some c) t (AcqNowait t)) as (-> & -> & ->). exact H.
  - destruct (negb _); [exact H|]. destruct (Lock.step _ _) as [l' r]. destruct r; exact H.
  - destruct (negb _); [exact H|]. destruct (holder_check _ _ _); [|exact H]. now apply do_notify_h.
  - destruct (negb _); [exact H|]. destruct (holder_check _ _ _); [|exact H]. now apply do_notify_h.
  - (* CWait *)
    destruct (c_is_idle (cphase_of s t)) eqn:Ei; cbn [negb fst]; [|exact H].
    destruct (holder_check s c t); [|exact H].
    assert (H1 : HI (upd (eset s) (nev s) false) (horizon s) (nlog s)).
    { intros e He. destruct (Nat.eq_dec e (nev s)) as [->|Hne]; [rewrite upd_same in He; discriminate|].
      rewrite upd_other in He by assumption. apply H, He. }
    destruct (Lock.step _ _) as [l' r]. destruct r; cbn [fst]; unfold HInv; cnorm; exact H1.
  - destruct (negb _); [exact H|]. unfold HInv. destruct (acquire_begin_h s None t (AcqBegin t)) as (-> & -> & ->). exact H.
  - destruct (negb _); [exact H|]. unfold HInv. destruct (acquire_begin_h s None t (AcqNowait t)) as (-> & -> & ->). exact H.
  - destruct (negb _); [exact H|]. destruct (Lock.step _ _) as [l' r]. exact H.
  - (* CResume *)
    cbn [late_handover] in Hn.
    destruct (cphase_of s t) as [|oc|c e|c e exc] eqn:Ep; [exact H| | |].
    + destruct (Lock.step _ _) as [l' r]. destruct r; exact H.
    + assert (Hfin : forall s1 x l' r, HInv s1 -> HInv (fst (finish_wait s1 t c e x l' r))).
      { intros s1 x l' r H1. unfold HInv.
        destruct (finish_wait_ev s1 t c e x l' r) as (_ & -> & _ & _ & _ & _ & _ & _ & _ & -> & ->). exact H1. }
      assert (Hs0 : HInv (with_lk s (set_mustc (lk s) t false))) by exact H.
      assert (Hint : (efut s e = FCancelled \/ (efut s e = FSet /\ mustc (lk s) t = true)) ->
                     HInv (wait_interrupted (with_lk s (set_mustc (lk s) t false)) c e)).
      { intros Hi. unfold wait_interrupted. cnorm. destruct (eset s e) eqn:Ees; [|exact H].
        destruct (cwaiters s c) as [|h q] eqn:Ecw; [exact H|].
        destruct V as [V _]. assert (Hinq : In h (cwaiters s c)) by (rewrite Ecw; now left).
        destruct (V_q _ _ _ _ _ _ _ _ V c h Hinq) as (Hesh & _).
        rewrite (do_set_unset (with_cw (with_lk s (set_mustc (lk s) t false)) c q) h (horizon s e))
          by (cnorm; exact Hesh).
        unfold HInv, HI. cnorm.
        assert (Hlt : h < horizon s e).
        { destruct Hi as [Hi|[Hi1 Hi2]]; [rewrite Hi in Hn|rewrite Hi1, Hi2 in Hn]; cbn in Hn;
            apply Nat.leb_gt in Hn; exact Hn. }
        destruct (H e Ees) as [_ Hnl].
        intros x Hx. destruct (Nat.eq_dec x h) as [->|Hne].
        - rewrite upd_same. auto.
        - rewrite upd_other in Hx by assumption. rewrite upd_other by assumption. apply H, Hx. }
      destruct (efut s e) eqn:Ef; [exact H| |].
      * match goal with |- context [Lock.step ?L ?o] => destruct (Lock.step L o) as [l' r] end.
        apply Hfin. destruct (mustc (lk s) t) eqn:Em; [apply Hint; auto|exact Hs0].
      * match goal with |- context [Lock.step ?L ?o] => destruct (Lock.step L o) as [l' r] end.
        apply Hfin. apply Hint. auto.
    + destruct (Lock.step _ _) as [l' r]. destruct r; try exact H; unfold HInv;
        match goal with |- context [finish_wait s t c e exc l' ?r0] =>
          destruct (finish_wait_ev s t c e exc l' r0) as (_ & -> & _ & _ & _ & _ & _ & _ & _ & -> & ->) end;
        exact H.
  - destruct (cphase_of s t) as [|oc|c e|c e exc]; [exact H| | |].
    + destruct (Lock.step _ _) as [l' r]. exact H.
    + destruct (efut s e); exact H.
    + destruct (Lock.step _ _) as [l' r]. exact H.
  - destruct (cphase_of s t) as [|oc|c e|c e exc]; [exact H| | |exact H].
    + destruct (phase_of (lk s) t); try exact H. destruct (futs _ _); try exact H.
      destruct (Lock.step _ _) as [l' r]. exact H.
    + destruct (efut s e); exact H.
Qed.

Lemma hinv_init fa : HInv (cinit fa 0).
Proof. intros e He. discriminate. Qed.
