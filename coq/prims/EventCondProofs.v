(* Proofs about the Event and Condition machines: inductive invariants for every op sequence. *)
From AV Require Import Base Lock LockProofs EventCond.

(* ====================================================================================================== *)
(*  list facts                                                                                            *)
(* ====================================================================================================== *)
Lemma remove_first_subseq x l : subseq (remove_first x l) l.
Proof.
  induction l as [|y r IH]; cbn; [apply ss_nil|].
  destruct (Nat.eqb y x); [apply ss_skip, subseq_refl | apply ss_take, IH].
Qed.

Lemma remove_first_in x y l : In y (remove_first x l) -> In y l.
Proof. apply subseq_in, remove_first_subseq. Qed.

Lemma remove_first_in_other x y l : In y l -> y <> x -> In y (remove_first x l).
Proof.
  induction l as [|z r IH]; cbn; [tauto|]. intros [H|H] Hne.
  - subst z. destruct (Nat.eqb_spec y x); [contradiction|now left].
  - destruct (Nat.eqb z x); [exact H|right; auto].
Qed.

Lemma remove_first_nodup x l : NoDup l -> NoDup (remove_first x l).
Proof. intros H. eapply subseq_nodup; [apply remove_first_subseq|exact H]. Qed.

Lemma remove_first_gone x l : NoDup l -> ~ In x (remove_first x l).
Proof.
  induction l as [|z r IH]; cbn; intros Hn; [tauto|].
  inversion Hn as [|a b Hz Hr]; subst.
  destruct (Nat.eqb_spec z x) as [->|Hne]; [exact Hz|].
  intros [H|H]; [contradiction|]. now apply IH.
Qed.

Lemma remove_first_length x l : In x l -> S (length (remove_first x l)) = length l.
Proof.
  induction l as [|z r IH]; cbn; [tauto|]. intros H.
  destruct (Nat.eqb_spec z x) as [->|Hne]; [reflexivity|].
  destruct H as [H|H]; [contradiction|]. cbn. now rewrite IH.
Qed.

Lemma remove_first_notin x l : ~ In x l -> remove_first x l = l.
Proof.
  induction l as [|z r IH]; cbn; intros H; [reflexivity|].
  destruct (Nat.eqb_spec z x) as [->|Hne]; [exfalso; apply H; now left|].
  f_equal. apply IH. intros H1. apply H. now right.
Qed.

Lemma NoDup_app_tail1' (l : list nat) x : NoDup l -> ~ In x l -> NoDup (l ++ [x]).
Proof. apply NoDup_app_tail1. Qed.

(* ====================================================================================================== *)
(*  Event                                                                                                 *)
(* ====================================================================================================== *)
Lemma resolve_all_spec ws : forall fu f,
  (fu f <> FPending -> resolve_all ws fu f = fu f) /\
  (~ In f ws -> resolve_all ws fu f = fu f) /\
  (In f ws -> fu f = FPending -> resolve_all ws fu f = FSet) /\
  (resolve_all ws fu f = FCancelled -> fu f = FCancelled).
Proof.
  induction ws as [|g r IH]; intros fu f; cbn [resolve_all In].
  - refine (conj (fun _ => eq_refl) (conj (fun _ => eq_refl) (conj _ (fun H => H)))). intros [].
  - pose proof (IH (match fu g with FPending => upd fu g FSet | _ => fu end) f) as IHf.
    revert IHf. destruct (fu g) eqn:E; intros (I1 & I2 & I3 & I4).
    + destruct (Nat.eq_dec f g) as [->|Hne].
      * rewrite upd_same in *. refine (conj _ (conj _ (conj _ _))).
        -- intros H; congruence.
        -- intros H. exfalso; apply H; now left.
        -- intros _ _. apply I1. discriminate.
        -- intros H. apply I4 in H. discriminate.
      * rewrite (upd_other _ _ _ _ Hne) in *. refine (conj I1 (conj _ (conj _ I4))).
        -- intros H. apply I2. intros H1. apply H. now right.
        -- intros [H|H]; [congruence|]. apply I3, H.
    + refine (conj I1 (conj _ (conj _ I4))).
      * intros H. apply I2. tauto.
      * intros [H|H] Hp; [subst; congruence|]. apply I3; auto.
    + refine (conj I1 (conj _ (conj _ I4))).
      * intros H. apply I2. tauto.
      * intros [H|H] Hp; [subst; congruence|]. apply I3; auto.
Qed.

Record EInv (s : est) : Prop := {
  E_flag : eflag s = true <-> 0 < esets s;
  E_set : forall t f, ephase_of s t = EWaiting f -> efuts s f = FSet -> eflag s = true;
  E_yield : forall t, ephase_of s t = EYield -> eflag s = true;
  E_pend : forall t f, ephase_of s t = EWaiting f -> efuts s f = FPending ->
                       eflag s = false /\ In f (ewaiters s);
  E_fresh : forall t f, ephase_of s t = EWaiting f -> f < enfut s;
  E_inj : forall t1 t2 f, ephase_of s t1 = EWaiting f -> ephase_of s t2 = EWaiting f -> t1 = t2
}.

Lemma einv_init : EInv einit.
Proof.
  constructor; cbn.
  - split; [discriminate|lia].
  - discriminate.
  - discriminate.
  - discriminate.
  - discriminate.
  - discriminate.
Qed.

Lemma e_is_idle_true p : e_is_idle p = true <-> p = EIdle.
Proof. destruct p; cbn; split; congruence. Qed.

(* a task leaves its wait: phase t := EIdle, its future (if any) removed from the deque *)
Lemma e_leave_inv s t ws m :
  EInv s -> ephase_of s t <> EIdle ->
  (forall f, ephase_of s t = EWaiting f -> efuts s f <> FPending /\ ws = remove_first f (ewaiters s)) ->
  (ephase_of s t = EYield -> ws = ewaiters s) ->
  EInv (emk (eflag s) ws (efuts s) (enfut s) (upd (ephase_of s) t EIdle) m (esets s)).
Proof.
  intros I Hne Hw Hy.
  assert (Hold : forall x, x <> t -> upd (ephase_of s) t EIdle x = ephase_of s x)
    by (intros; now apply upd_other).
  constructor; cbn.
  - apply (E_flag s I).
  - intros x f H1 H2. destruct (Nat.eq_dec x t) as [->|Hx]; [rewrite upd_same in H1; discriminate|].
    rewrite Hold in H1 by assumption. eapply (E_set s I); eauto.
  - intros x H1. destruct (Nat.eq_dec x t) as [->|Hx]; [rewrite upd_same in H1; discriminate|].
    rewrite Hold in H1 by assumption. eapply (E_yield s I); eauto.
  - intros x f H1 H2. destruct (Nat.eq_dec x t) as [->|Hx]; [rewrite upd_same in H1; discriminate|].
    rewrite Hold in H1 by assumption. destruct (E_pend s I x f H1 H2) as [Hf Hin].
    split; [exact Hf|].
    destruct (ephase_of s t) as [| |g] eqn:Ept; [contradiction| |].
    + now rewrite Hy.
    + destruct (Hw g eq_refl) as [Hg ->]. apply remove_first_in_other; [exact Hin|].
      intros ->. contradiction.
  - intros x f H1. destruct (Nat.eq_dec x t) as [->|Hx]; [rewrite upd_same in H1; discriminate|].
    rewrite Hold in H1 by assumption. eapply (E_fresh s I); eauto.
  - intros x1 x2 f H1 H2.
    destruct (Nat.eq_dec x1 t) as [->|Hx1]; [rewrite upd_same in H1; discriminate|].
    destruct (Nat.eq_dec x2 t) as [->|Hx2]; [rewrite upd_same in H2; discriminate|].
    rewrite Hold in H1, H2 by assumption. eapply (E_inj s I); eauto.
Qed.

Lemma e_mustc_irrel s m :
  EInv s -> EInv (emk (eflag s) (ewaiters s) (efuts s) (enfut s) (ephase_of s) m (esets s)).
Proof. intros I. destruct I. constructor; cbn; assumption. Qed.

Lemma e_cancel_fut_inv s t f :
  EInv s -> ephase_of s t = EWaiting f -> efuts s f = FPending ->
  EInv (emk (eflag s) (ewaiters s) (upd (efuts s) f FCancelled) (enfut s) (ephase_of s) (emustc s) (esets s)).
Proof.
  intros I Hp Hf. constructor; cbn.
  - apply (E_flag s I).
  - intros x g H1 H2. destruct (Nat.eq_dec g f) as [->|Hg]; [rewrite upd_same in H2; discriminate|].
    rewrite upd_other in H2 by assumption. eapply (E_set s I); eauto.
  - apply (E_yield s I).
  - intros x g H1 H2. destruct (Nat.eq_dec g f) as [->|Hg]; [rewrite upd_same in H2; discriminate|].
    rewrite upd_other in H2 by assumption. eapply (E_pend s I); eauto.
  - apply (E_fresh s I).
  - apply (E_inj s I).
Qed.

Lemma estep_inv s o : EInv s -> EInv (fst (estep s o)).
Proof.
  intros I. destruct o as [t|t|t|t|t]; cbn [estep].
  - (* EvWait *)
    destruct (e_is_idle (ephase_of s t)) eqn:Ei; cbn [negb fst]; [|exact I].
    apply e_is_idle_true in Ei.
    destruct (eflag s) eqn:Efl; cbn [fst].
    + assert (Hold : forall x, x <> t -> upd (ephase_of s) t EYield x = ephase_of s x)
        by (intros; now apply upd_other).
      constructor; cbn.
      * pose proof (E_flag s I) as Hf. rewrite Efl in Hf. exact Hf.
      * reflexivity.
      * reflexivity.
      * intros x f H1 H2. destruct (Nat.eq_dec x t) as [->|Hx]; [rewrite upd_same in H1; discriminate|].
        rewrite Hold in H1 by assumption. destruct (E_pend s I x f H1 H2). congruence.
      * intros x f H1. destruct (Nat.eq_dec x t) as [->|Hx]; [rewrite upd_same in H1; discriminate|].
        rewrite Hold in H1 by assumption. eapply (E_fresh s I); eauto.
      * intros x1 x2 f H1 H2.
        destruct (Nat.eq_dec x1 t) as [->|Hx1]; [rewrite upd_same in H1; discriminate|].
        destruct (Nat.eq_dec x2 t) as [->|Hx2]; [rewrite upd_same in H2; discriminate|].
        rewrite Hold in H1, H2 by assumption. eapply (E_inj s I); eauto.
    + set (f0 := enfut s).
      assert (Hold : forall x, x <> t -> upd (ephase_of s) t (EWaiting f0) x = ephase_of s x)
        by (intros; now apply upd_other).
      assert (Hfold : forall x f, ephase_of s x = EWaiting f -> upd (efuts s) f0 FPending f = efuts s f).
      { intros x f H. apply upd_other. pose proof (E_fresh s I x f H). unfold f0. lia. }
      constructor; cbn.
      * pose proof (E_flag s I) as Hf. rewrite Efl in Hf. exact Hf.
      * intros x f H1 H2. destruct (Nat.eq_dec x t) as [->|Hx].
        -- rewrite upd_same in H1. injection H1 as <-. rewrite upd_same in H2. discriminate.
        -- rewrite Hold in H1 by assumption. rewrite (Hfold x f H1) in H2. rewrite <- Efl.
           eapply (E_set s I); eauto.
      * intros x H1. destruct (Nat.eq_dec x t) as [->|Hx]; [rewrite upd_same in H1; discriminate|].
        rewrite Hold in H1 by assumption. rewrite <- Efl. eapply (E_yield s I); eauto.
      * intros x f H1 H2. split; [reflexivity|]. apply in_or_app.
        destruct (Nat.eq_dec x t) as [->|Hx].
        -- rewrite upd_same in H1. injection H1 as <-. right. now left.
        -- rewrite Hold in H1 by assumption. rewrite (Hfold x f H1) in H2. left.
           eapply (E_pend s I); eauto.
      * intros x f H1. destruct (Nat.eq_dec x t) as [->|Hx].
        -- rewrite upd_same in H1. injection H1 as <-. unfold f0. lia.
        -- rewrite Hold in H1 by assumption. pose proof (E_fresh s I x f H1). lia.
      * intros x1 x2 f H1 H2.
        destruct (Nat.eq_dec x1 t) as [->|Hx1]; destruct (Nat.eq_dec x2 t) as [->|Hx2]; auto.
        -- rewrite upd_same in H1. injection H1 as <-. rewrite Hold in H2 by assumption.
           pose proof (E_fresh s I x2 f0 H2). unfold f0 in *. lia.
        -- rewrite upd_same in H2. injection H2 as <-. rewrite Hold in H1 by assumption.
           pose proof (E_fresh s I x1 f0 H1). unfold f0 in *. lia.
        -- rewrite Hold in H1, H2 by assumption. eapply (E_inj s I); eauto.
  - (* EvSet *)
    destruct (e_is_idle (ephase_of s t)) eqn:Ei; cbn [negb fst]; [|exact I].
    destruct (eflag s) eqn:Efl; cbn [fst].
    + constructor; cbn.
      * split; [lia|reflexivity].
      * reflexivity.
      * reflexivity.
      * intros x f H1 H2. destruct (E_pend s I x f H1 H2). congruence.
      * apply (E_fresh s I).
      * apply (E_inj s I).
    + constructor; cbn.
      * split; [lia|reflexivity].
      * reflexivity.
      * reflexivity.
      * intros x f H1 H2. exfalso.
        destruct (resolve_all_spec (ewaiters s) (efuts s) f) as (R1 & R2 & R3 & R4).
        destruct (efuts s f) eqn:Ef.
        -- destruct (E_pend s I x f H1 Ef) as [_ Hin]. rewrite R3 in H2; auto. discriminate.
        -- rewrite R1 in H2; congruence.
        -- rewrite R1 in H2; congruence.
      * apply (E_fresh s I).
      * apply (E_inj s I).
  - (* EvResume *)
    destruct (ephase_of s t) as [| |f] eqn:Ep; [exact I| |].
    + cbn [fst]. apply e_leave_inv; auto; try congruence.
    + destruct (efuts s f) eqn:Ef; [exact I| |]; cbn [fst].
      * apply e_leave_inv; auto; try congruence.
        intros g Hg. rewrite Ep in Hg. injection Hg as <-. split; [congruence|reflexivity].
      * apply e_leave_inv; auto; try congruence.
        intros g Hg. rewrite Ep in Hg. injection Hg as <-. split; [congruence|reflexivity].
  - (* EvCancel *)
    destruct (ephase_of s t) as [| |f] eqn:Ep; [exact I| |].
    + cbn [fst]. apply e_mustc_irrel, I.
    + destruct (efuts s f) eqn:Ef; cbn [fst].
      * apply (e_cancel_fut_inv s t f); auto.
      * apply e_mustc_irrel, I.
      * apply e_mustc_irrel, I.
  - (* EvScopeCancel *)
    destruct (ephase_of s t) as [| |f] eqn:Ep; [exact I| |].
    + cbn [fst]. apply e_mustc_irrel, I.
    + destruct (efuts s f) eqn:Ef; cbn [fst]; [|exact I|exact I].
      apply (e_cancel_fut_inv s t f); auto.
Qed.

Theorem ereachable_inv ops : EInv (final estep einit ops).
Proof. apply final_inv; [apply estep_inv|apply einv_init]. Qed.

(* ====================================================================================================== *)
(*  frame and result lemmas about one step of the embedded Lock machine                                   *)
(* ====================================================================================================== *)
Definition lop_task (o : Lock.op) : tid :=
  match o with AcqBegin t | AcqNowait t | Release t | Resume t | Cancel t => t end.

Lemma do_release_fields s t :
  phase_of (do_release s t) = phase_of s /\ mustc (do_release s t) = mustc s /\
  held (do_release s t) = remove_tid t (held s) /\ nfut (do_release s t) = nfut s.
Proof. unfold do_release. destruct (handoff _ _) as [[? ?] ?]. cbn. auto. Qed.

Ltac lk_break :=
  repeat match goal with
         | |- context [match ?x with _ => _ end] => destruct x eqn:?
         end.

Lemma lstep_phase_frame s o x : x <> lop_task o -> phase_of (fst (Lock.step s o)) x = phase_of s x.
Proof.
  intros Hne. destruct o as [t|t|t|t|t]; cbn [lop_task] in Hne; cbn [Lock.step];
    lk_break; cbn [fst set_phase set_mustc add_held phase_of];
    rewrite ?(proj1 (do_release_fields _ _)); cbn [set_phase set_mustc add_held phase_of];
    rewrite ?upd_other by assumption; reflexivity.
Qed.

Lemma lstep_mustc_frame s o x : x <> lop_task o -> mustc (fst (Lock.step s o)) x = mustc s x.
Proof.
  intros Hne. destruct o as [t|t|t|t|t]; cbn [lop_task] in Hne; cbn [Lock.step];
    lk_break; cbn [fst set_phase set_mustc add_held mustc];
    rewrite ?(proj1 (proj2 (do_release_fields _ _))); cbn [set_phase set_mustc add_held mustc];
    rewrite ?upd_other by assumption; reflexivity.
Qed.

Lemma lstep_held_frame s o x : x <> lop_task o -> (In x (held (fst (Lock.step s o))) <-> In x (held s)).
Proof.
  intros Hne. destruct o as [t|t|t|t|t]; cbn [lop_task] in Hne; cbn [Lock.step];
    lk_break; cbn [fst set_phase set_mustc add_held held];
    rewrite ?(proj1 (proj2 (proj2 (do_release_fields _ _)))); cbn [set_phase set_mustc add_held held In];
    rewrite ?in_remove_tid; try tauto; split; try tauto; intros [H|H]; try tauto; congruence.
Qed.
