(* Proofs about the MemStream machine: an inductive invariant for every op sequence.
   The C12 / C13 clauses derived from it are in MemStreamThms.v. *)
From AV Require Import Base MemStream.
From Coq Require Import Permutation.

(* ---------- subsequences (order-preserving sublists) ---------- *)
Inductive subseq {A} : list A -> list A -> Prop :=
| ss_nil : subseq [] []
| ss_skip x a b : subseq a b -> subseq a (x :: b)
| ss_take x a b : subseq a b -> subseq (x :: a) (x :: b).

Lemma subseq_refl {A} (l : list A) : subseq l l.
Proof. induction l; [apply ss_nil | apply ss_take; assumption]. Qed.

Lemma subseq_nil_l {A} (l : list A) : subseq [] l.
Proof. induction l; [apply ss_nil | apply ss_skip; assumption]. Qed.

Lemma subseq_trans {A} (a b c : list A) : subseq a b -> subseq b c -> subseq a c.
Proof.
  intros Hab Hbc. revert a Hab. induction Hbc as [|x b c Hbc IH|x b c Hbc IH]; intros a Hab.
  - exact Hab.
  - apply ss_skip. apply IH, Hab.
  - inversion Hab as [|y a' b' H1|y a' b' H1]; subst.
    + apply ss_skip. apply IH. exact H1.
    + apply ss_take. apply IH. exact H1.
Qed.

Lemma subseq_app_tail {A} (a b : list A) x : subseq a b -> subseq (a ++ [x]) (b ++ [x]).
Proof.
  induction 1 as [|y a b H IH|y a b H IH]; cbn.
  - apply ss_take, ss_nil.
  - apply ss_skip, IH.
  - apply ss_take, IH.
Qed.

Lemma subseq_app_skip {A} (a b : list A) x : subseq a b -> subseq a (b ++ [x]).
Proof.
  induction 1 as [|y a b H IH|y a b H IH]; cbn.
  - apply ss_skip, ss_nil.
  - apply ss_skip, IH.
  - apply ss_take, IH.
Qed.

Lemma subseq_suffix {A} (pre l : list A) : subseq l (pre ++ l).
Proof. induction pre; cbn; [apply subseq_refl|apply ss_skip; assumption]. Qed.

Lemma subseq_in {A} (a b : list A) x : subseq a b -> In x a -> In x b.
Proof.
  induction 1 as [|y a b Hs IH|y a b Hs IH]; cbn; intros Hin; auto.
  destruct Hin as [Hin|Hin]; auto.
Qed.

Lemma subseq_map {A B} (g : A -> B) a b : subseq a b -> subseq (map g a) (map g b).
Proof.
  induction 1 as [|y a b H IH|y a b H IH]; cbn;
    [apply ss_nil | apply ss_skip, IH | apply ss_take, IH].
Qed.

Lemma subseq_nodup {A} (a b : list A) : subseq a b -> NoDup b -> NoDup a.
Proof.
  induction 1 as [|x a b H IH|x a b H IH]; intros Hn; [constructor| |].
  - inversion Hn; auto.
  - inversion Hn as [|y l Hy Hl]; subst. constructor; [|auto].
    intros Hin. apply Hy. eapply subseq_in; eauto.
Qed.

Lemma subseq_app {A} (a b c d : list A) : subseq a b -> subseq c d -> subseq (a ++ c) (b ++ d).
Proof.
  induction 1 as [|y a b H IH|y a b H IH]; cbn; intros Hc.
  - exact Hc.
  - apply ss_skip, IH, Hc.
  - apply ss_take, IH, Hc.
Qed.

(* in a duplicate-free list, a subsequence keeps the relative order of any two of its elements *)
Inductive before {A} (x y : A) : list A -> Prop :=
| before_here l : In y l -> before x y (x :: l)
| before_later z l : before x y l -> before x y (z :: l).

Lemma before_in {A} (x y : A) l : before x y l -> In x l /\ In y l.
Proof. induction 1 as [l H|z l H [IH1 IH2]]; cbn; auto. Qed.

Lemma subseq_before {A} (a b : list A) x y : subseq a b -> before x y a -> before x y b.
Proof.
  induction 1 as [|z a b H IH|z a b H IH]; intros Hb.
  - inversion Hb.
  - apply before_later, IH, Hb.
  - inversion Hb as [l Hy|z' l Hb']; subst.
    + apply before_here. eapply subseq_in; eauto.
    + apply before_later, IH, Hb'.
Qed.

Lemma before_nodup_asym {A} (x y : A) l : NoDup l -> before x y l -> ~ before y x l.
Proof.
  intros Hn Hb. induction Hb as [l Hy|z l Hb IH]; intros Hc.
  - inversion Hn as [|? ? Hx Hl]; subst. inversion Hc as [l' Hx'|z' l' Hc']; subst.
    + contradiction.
    + apply before_in in Hc'. tauto.
  - inversion Hn as [|? ? Hz Hl]; subst. inversion Hc as [l' Hx'|z' l' Hc']; subst.
    + apply before_in in Hb. tauto.
    + exact (IH Hl Hc').
Qed.

(* ---------- association lists keyed by event ---------- *)
Lemma has_key_in {A} e (l : list (eid * A)) : has_key e l = true <-> In e (map fst l).
Proof.
  induction l as [|[k v] r IH]; cbn; [split; [discriminate|tauto]|].
  rewrite orb_true_iff, IH, Nat.eqb_eq. tauto.
Qed.

Lemma has_key_false {A} e (l : list (eid * A)) : has_key e l = false <-> ~ In e (map fst l).
Proof. rewrite <- has_key_in. destruct (has_key e l); split; congruence. Qed.

Lemma in_has_key {A} e (v : A) l : In (e, v) l -> has_key e l = true.
Proof. intros H. apply has_key_in. apply in_map_iff. exists (e, v). auto. Qed.

Lemma del_key_subseq {A} e (l : list (eid * A)) : subseq (del_key e l) l.
Proof.
  induction l as [|[k v] r IH]; cbn; [apply ss_nil|].
  destruct (Nat.eqb k e); [apply ss_skip, subseq_refl|apply ss_take, IH].
Qed.

Lemma del_key_in {A} e (l : list (eid * A)) p : In p (del_key e l) -> In p l.
Proof. apply subseq_in, del_key_subseq. Qed.

Lemma del_key_other {A} e (l : list (eid * A)) k v : In (k, v) l -> k <> e -> In (k, v) (del_key e l).
Proof.
  induction l as [|[k' v'] r IH]; cbn; [tauto|]. intros [H|H] Hne.
  - injection H as -> ->. destruct (Nat.eqb_spec k e); [contradiction|now left].
  - destruct (Nat.eqb k' e); [exact H|right; auto].
Qed.

Lemma del_key_gone {A} e (l : list (eid * A)) : NoDup (map fst l) -> ~ In e (map fst (del_key e l)).
Proof.
  induction l as [|[k v] r IH]; cbn; [tauto|]. intros Hn.
  inversion Hn as [|? ? Hk Hr]; subst.
  destruct (Nat.eqb_spec k e) as [->|Hne]; [exact Hk|].
  cbn. intros [H|H]; [contradiction|exact (IH Hr H)].
Qed.

Lemma del_key_absent {A} e (l : list (eid * A)) : ~ In e (map fst l) -> del_key e l = l.
Proof.
  induction l as [|[k v] r IH]; cbn; [reflexivity|]. intros H.
  destruct (Nat.eqb_spec k e) as [->|Hne]; [tauto|]. f_equal. apply IH. tauto.
Qed.

Lemma del_key_nodup {A} e (l : list (eid * A)) : NoDup (map fst l) -> NoDup (map fst (del_key e l)).
Proof. intros H. eapply subseq_nodup; [apply subseq_map, del_key_subseq|exact H]. Qed.

Lemma del_key_perm {A} e (x : A) l :
  NoDup (map fst l) -> In (e, x) l -> Permutation (map snd l) (x :: map snd (del_key e l)).
Proof.
  induction l as [|[k v] r IH]; cbn; [tauto|]. intros Hn Hin.
  inversion Hn as [|? ? Hk Hr]; subst.
  destruct Hin as [H|H].
  - injection H as -> ->. rewrite Nat.eqb_refl. apply Permutation_refl.
  - destruct (Nat.eqb_spec k e) as [->|Hne].
    + exfalso. apply Hk. apply in_map_iff. exists (e, x). auto.
    + cbn. eapply perm_trans; [apply perm_skip, (IH Hr H)|apply perm_swap].
Qed.

Lemma nodup_key_fun {A} (l : list (eid * A)) e v1 v2 :
  NoDup (map fst l) -> In (e, v1) l -> In (e, v2) l -> v1 = v2.
Proof.
  induction l as [|[k v] r IH]; cbn; [tauto|]. intros Hn H1 H2.
  inversion Hn as [|? ? Hk Hr]; subst.
  destruct H1 as [H1|H1], H2 as [H2|H2].
  - congruence.
  - injection H1 as -> ->. exfalso. apply Hk. apply in_map_iff. exists (e, v2). auto.
  - injection H2 as -> ->. exfalso. apply Hk. apply in_map_iff. exists (e, v1). auto.
  - eauto.
Qed.

Lemma mem_in e l : mem e l = true <-> In e l.
Proof.
  unfold mem. rewrite existsb_exists. split.
  - intros (x & H & E). apply Nat.eqb_eq in E. now subst.
  - intros H. exists e. split; [exact H|apply Nat.eqb_refl].
Qed.

Lemma set_keys_in f ks e : In e ks -> set_keys f ks e = ev_set (f e).
Proof. intros H. unfold set_keys. apply mem_in in H. now rewrite H. Qed.

Lemma set_keys_out f ks e : ~ In e ks -> set_keys f ks e = f e.
Proof.
  intros H. unfold set_keys. destruct (mem e ks) eqn:E; [|reflexivity].
  apply mem_in in E. contradiction.
Qed.

Lemma set_keys_not_pending_inv f ks e : set_keys f ks e = FPending -> f e = FPending /\ ~ In e ks.
Proof.
  unfold set_keys. destruct (mem e ks) eqn:E.
  - destruct (f e); cbn; discriminate.
  - intros H. split; [exact H|]. intros Hin. apply mem_in in Hin. congruence.
Qed.

Lemma ev_set_not_pending f : ev_set f <> FPending.
Proof. destruct f; cbn; discriminate. Qed.

Lemma NoDup_app_tail1 {A} (l : list A) x : NoDup l -> ~ In x l -> NoDup (l ++ [x]).
Proof.
  induction l as [|y l IH]; cbn; intros Hn Hx; [constructor; [tauto|constructor]|].
  inversion Hn as [|z l' Hy Hl]; subst. constructor.
  - intros H. apply in_app_or in H. destruct H as [H|[H|[]]]; [contradiction|]. subst. apply Hx. now left.
  - apply IH; [exact Hl|]. intros H. apply Hx. now right.
Qed.

(* ---------- counting open clones ---------- *)
Fixpoint count_open (sd : side) (hs : hid -> side) (hc : hid -> bool) (n : nat) : nat :=
  match n with
  | 0 => 0
  | S k => count_open sd hs hc k + (if side_eqb (hs k) sd && negb (hc k) then 1 else 0)
  end.

Lemma count_open_ext sd hs hc hs' hc' n :
  (forall h, h < n -> hs' h = hs h /\ hc' h = hc h) -> count_open sd hs' hc' n = count_open sd hs hc n.
Proof.
  induction n as [|k IH]; cbn; intros H; [reflexivity|].
  destruct (H k) as [-> ->]; [lia|]. rewrite IH; [reflexivity|]. intros h Hh. apply H. lia.
Qed.

Lemma count_open_close sd hs hc n h :
  h < n -> hc h = false -> hs h = sd ->
  S (count_open sd hs (upd hc h true) n) = count_open sd hs hc n.
Proof.
  induction n as [|k IH]; cbn; intros Hh Hc Hs; [lia|].
  destruct (Nat.eq_dec h k) as [->|Hne].
  - rewrite upd_same, Hc, Hs. cbn.
    replace (side_eqb sd sd) with true by (destruct sd; reflexivity). cbn.
    rewrite (count_open_ext sd hs hc hs (upd hc k true) k); [lia|].
    intros h' Hh'. split; [reflexivity|]. apply upd_other. lia.
  - rewrite (upd_other hc h true k) by auto. rewrite <- IH by (auto; lia). lia.
Qed.

Lemma count_open_close_other sd hs hc n h :
  hs h <> sd -> count_open sd hs (upd hc h true) n = count_open sd hs hc n.
Proof.
  intros Hs. induction n as [|k IH]; cbn; [reflexivity|]. rewrite IH. f_equal.
  destruct (Nat.eq_dec k h) as [->|Hne].
  - destruct (side_eqb (hs h) sd) eqn:E; [|reflexivity].
    exfalso. apply Hs. destruct (hs h), sd; cbn in E; congruence.
  - now rewrite upd_other by assumption.
Qed.

Lemma count_open_zero sd hs hc n :
  count_open sd hs hc n = 0 -> forall h, h < n -> hs h = sd -> hc h = true.
Proof.
  induction n as [|k IH]; cbn; intros H h Hh Hs; [lia|].
  destruct (Nat.eq_dec h k) as [->|Hne].
  - rewrite Hs in H. replace (side_eqb sd sd) with true in H by (destruct sd; reflexivity).
    destruct (hc k); [reflexivity|cbn in H; lia].
  - apply IH; [lia|lia|exact Hs].
Qed.

Lemma side_eqb_eq a b : side_eqb a b = true <-> a = b.
Proof. destruct a, b; cbn; split; congruence. Qed.

(* ---------- characterisation of the pop loop of send_nowait ---------- *)
Lemma pop_live_spec s rs :
  match pop_live s rs with
  | (Some (e, t), rest) =>
      exists pre, rs = pre ++ (e, t) :: rest /\ has_pending s t = false /\
                  (forall e' t', In (e', t') pre -> has_pending s t' = true)
  | (None, rest) => rest = [] /\ (forall e' t', In (e', t') rs -> has_pending s t' = true)
  end.
Proof.
  induction rs as [|[e t] r IH]; cbn.
  - split; [reflexivity|]. intros ? ? [].
  - destruct (has_pending s t) eqn:Ep.
    + destruct (pop_live s r) as [[[e0 t0]|] rest].
      * destruct IH as (pre & E & Hn & Hp). exists ((e, t) :: pre). subst r. cbn.
        refine (conj eq_refl (conj Hn _)). intros e' t' [H|H]; [congruence|eauto].
      * destruct IH as (E & Hp). split; [exact E|]. intros e' t' [H|H]; [congruence|eauto].
    + exists []. cbn. refine (conj eq_refl (conj Ep _)). intros ? ? [].
Qed.

(* ---------- the invariant ---------- *)
Definition finished (s : st) : Prop := open_send s = 0 /\ buffer s = [] /\ senders s = [].

Record Inv (s : st) : Prop := {
  (* events and phases *)
  I_nev : forall t e, wait_ev (phase_of s t) = Some e -> e < nev s;
  I_inj : forall t1 t2 e, wait_ev (phase_of s t1) = Some e -> wait_ev (phase_of s t2) = Some e -> t1 = t2;
  I_rk : forall e t, In (e, t) (receivers s) -> phase_of s t = RecvWait e;
  I_sk : forall e x, In (e, x) (senders s) -> exists t, phase_of s t = SendWait e x;
  I_rnd : NoDup (map fst (receivers s));
  I_snd : NoDup (map fst (senders s));
  I_rpend : forall t e, phase_of s t = RecvWait e -> fut s e = FPending -> In (e, t) (receivers s);
  I_spend : forall t e x, phase_of s t = SendWait e x -> fut s e = FPending -> In (e, x) (senders s);
  I_quiet : forall t e, wait_ev (phase_of s t) = Some e -> fut s e = FPending ->
                        mustc s t = false /\ scopec s t = false;
  I_rslot : forall e t, In (e, t) (receivers s) -> slot s e = None;
  (* handles *)
  I_cs : open_send s = count_open SSend (hside s) (hclosed s) (nh s);
  I_cr : open_recv s = count_open SRecv (hside s) (hclosed s) (nh s);
  I_ckh : forall t h x, phase_of s t = SendCk h x -> h < nh s /\ hside s h = SSend;
  (* data *)
  I_j1 : receivers s <> [] -> buffer s = [] /\ senders s = [];
  I_j2 : senders s <> [] -> xlt (length (buffer s)) (maxb s) = false;
  I_bound : xle (length (buffer s)) (maxb s);
  I_perm1 : Permutation (entered s) (handed s ++ buffer s ++ map snd (senders s) ++ withdrawn s);
  I_perm2 : Permutation (handed s) (returned s ++ map snd (inflight s) ++ lost s);
  I_sub : subseq (handed s ++ buffer s ++ map snd (senders s)) (entered s);
  I_nd : NoDup (entered s);
  I_fresh : forall x, In x (entered s) -> x < nitem s;
  I_ck : forall t h x, phase_of s t = SendCk h x -> x < nitem s /\ ~ In x (entered s);
  I_ckinj : forall t1 t2 h1 h2 x, phase_of s t1 = SendCk h1 x -> phase_of s t2 = SendCk h2 x -> t1 = t2;
  I_sw : forall t e x, phase_of s t = SendWait e x -> In (e, x) (senders s) \/ In x (handed s ++ buffer s);
  I_ack : forall x, In x (acked s) -> In x (handed s ++ buffer s);
  I_infl : forall e x, In (e, x) (inflight s) <-> (slot s e = Some x /\ exists t, phase_of s t = RecvWait e);
  I_inflnd : NoDup (map fst (inflight s));
  I_filled : forall t e x, phase_of s t = RecvWait e -> slot s e = Some x -> fut s e = FSet;
  I_senq : subseq (map fst (senders s)) (senq s);
  I_renq : subseq (map fst (receivers s)) (renq s);
  (* closing *)
  I_eos : forall t e, phase_of s t = RecvWait e -> fut s e = FSet -> slot s e = None -> finished s;
  I_brk : forall e x, In (e, x) (senders s) -> fut s e = FSet -> open_recv s = 0;
  I_wr : open_send s = 0 -> forall t e, phase_of s t = RecvWait e -> fut s e <> FPending;
  I_ws : open_recv s = 0 -> forall t e x, phase_of s t = SendWait e x -> fut s e <> FPending;
  (* arrival logs: every event is logged once *)
  I_senqlt : forall e, In e (senq s) -> e < nev s;
  I_senqnd : NoDup (senq s);
  I_renqlt : forall e, In e (renq s) -> e < nev s;
  I_renqnd : NoDup (renq s);
  (* the event of a queued receiver has not been set (setting and popping go together) *)
  I_rfut : forall e t, In (e, t) (receivers s) -> fut s e <> FSet
}.

Lemma inv_init m : Inv (init m).
Proof.
  constructor; cbn; try (intros; discriminate); try (intros; contradiction); try (now constructor);
    try (intros; tauto).
  destruct m; cbn; lia.
Qed.

(* ---------- tactics ---------- *)
Ltac get_inv I s :=
  pose proof (I_nev s I) as Hnev; pose proof (I_inj s I) as Hinj; pose proof (I_rk s I) as Hrk;
  pose proof (I_sk s I) as Hsk; pose proof (I_rnd s I) as Hrnd; pose proof (I_snd s I) as Hsnd;
  pose proof (I_rpend s I) as Hrpend; pose proof (I_spend s I) as Hspend; pose proof (I_quiet s I) as Hquiet;
  pose proof (I_rslot s I) as Hrslot; pose proof (I_cs s I) as Hcs; pose proof (I_cr s I) as Hcr;
  pose proof (I_ckh s I) as Hckh; pose proof (I_j1 s I) as Hj1; pose proof (I_j2 s I) as Hj2;
  pose proof (I_bound s I) as Hbound; pose proof (I_perm1 s I) as Hperm1; pose proof (I_perm2 s I) as Hperm2;
  pose proof (I_sub s I) as Hsub; pose proof (I_nd s I) as Hnd; pose proof (I_fresh s I) as Hfresh;
  pose proof (I_ck s I) as Hck; pose proof (I_ckinj s I) as Hckinj; pose proof (I_sw s I) as Hsw;
  pose proof (I_ack s I) as Hack; pose proof (I_infl s I) as Hinfl; pose proof (I_inflnd s I) as Hinflnd;
  pose proof (I_filled s I) as Hfilled; pose proof (I_senq s I) as Hsenq; pose proof (I_renq s I) as Hrenq;
  pose proof (I_eos s I) as Heos; pose proof (I_brk s I) as Hbrk; pose proof (I_wr s I) as Hwr;
  pose proof (I_ws s I) as Hws; pose proof (I_senqlt s I) as Hsenqlt; pose proof (I_senqnd s I) as Hsenqnd;
  pose proof (I_renqlt s I) as Hrenqlt; pose proof (I_renqnd s I) as Hrenqnd;
  pose proof (I_rfut s I) as Hrfut.

(* case analysis on every `upd f k v x` in hypotheses and goal *)
Ltac upd_cases k :=
  repeat match goal with
  | H : context [upd ?f k ?v k] |- _ => rewrite (upd_same f k v) in H
  | H : context [upd ?f k ?v ?x] |- _ =>
      destruct (Nat.eq_dec x k) as [->|?];
      [rewrite (upd_same f k v) in * | rewrite (upd_other f k v x) in * by assumption]
  | |- context [upd ?f k ?v k] => rewrite (upd_same f k v)
  | |- context [upd ?f k ?v ?x] =>
      destruct (Nat.eq_dec x k) as [->|?];
      [rewrite (upd_same f k v) in * | rewrite (upd_other f k v x) in * by assumption]
  end.

Ltac auto_upd k := try (intros; upd_cases k; cbn in *; try discriminate; try congruence; eauto; fail).

Lemma ex_phase_keep (ph : tid -> phase) t0 p P :
  (exists t, ph t = P) -> ph t0 <> P -> exists t, upd ph t0 p t = P.
Proof.
  intros [t H] Hne. exists t. rewrite upd_other; [exact H|]. intros ->. contradiction.
Qed.

Lemma ex_phase_back (ph : tid -> phase) t0 p P :
  (exists t, upd ph t0 p t = P) -> p <> P -> exists t, ph t = P.
Proof.
  intros [t H] Hne. exists t. destruct (Nat.eq_dec t t0) as [->|Hn].
  - rewrite upd_same in H. contradiction.
  - now rewrite upd_other in H by assumption.
Qed.
Lemma begin_send_inv s t h x :
  Inv s -> phase_of s t = Idle -> h < nh s -> hside s h = SSend -> nitem s <= x ->
  Inv (set_phase_of (set_nitem s (S x)) (upd (phase_of s) t (SendCk h x))).
Proof.
  intros I Hp Hv1 Hv2 Hx. get_inv I s. constructor; cbn; try assumption; auto_upd t.
  - intros e t0 Hin. rewrite upd_other; [auto|]. intros ->. apply Hrk in Hin. congruence.
  - intros e x0 Hin. apply ex_phase_keep; [auto|congruence].
  - intros t0 h0 x0 H. upd_cases t; [injection H as <- <-; auto|eauto].
  - intros x0 Hin. apply Hfresh in Hin. lia.
  - intros t0 h0 x0 H. upd_cases t.
    + injection H as <- <-. split; [lia|]. intros Hin. apply Hfresh in Hin. lia.
    + destruct (Hck _ _ _ H). split; [lia|assumption].
  - intros t1 t2 h1 h2 x0 H1 H2.
    destruct (Nat.eq_dec t1 t) as [->|N1], (Nat.eq_dec t2 t) as [->|N2]; auto;
      rewrite ?upd_same in H1; rewrite ?upd_same in H2;
      rewrite ?upd_other in H1 by assumption; rewrite ?upd_other in H2 by assumption.
    + injection H1 as <- <-. apply Hck in H2. lia.
    + injection H2 as <- <-. apply Hck in H1. lia.
    + eauto.
  - intros e x0. rewrite Hinfl. split; intros [H1 H2]; (split; [exact H1|]).
    + apply ex_phase_keep; [auto|congruence].
    + eapply ex_phase_back; [eauto|discriminate].
Qed.

Lemma begin_recv_inv s t h :
  Inv s -> phase_of s t = Idle ->
  Inv (set_phase_of s (upd (phase_of s) t (RecvCk h))).
Proof.
  intros I Hp. get_inv I s. constructor; cbn; try assumption; auto_upd t.
  - intros e t0 Hin. rewrite upd_other; [auto|]. intros ->. apply Hrk in Hin. congruence.
  - intros e x0 Hin. apply ex_phase_keep; [auto|congruence].
  - intros e x0. rewrite Hinfl. split; intros [H1 H2]; (split; [exact H1|]).
    + apply ex_phase_keep; [auto|congruence].
    + eapply ex_phase_back; [eauto|discriminate].
Qed.

(* a task leaves a call in which it was not waiting on an event (checkpoint phases) *)
Lemma finish_ck_inv s t :
  Inv s -> wait_ev (phase_of s t) = None ->
  Inv (finish s t).
Proof.
  intros I Hp. get_inv I s. unfold finish. constructor; cbn; try assumption; auto_upd t.
  - intros e t0 Hin. rewrite upd_other; [auto|]. intros ->. apply Hrk in Hin. rewrite Hin in Hp. discriminate.
  - intros e x0 Hin. apply ex_phase_keep; [auto|]. intros H. rewrite H in Hp. discriminate.
  - intros e x0. rewrite Hinfl. split; intros [H1 H2]; (split; [exact H1|]).
    + apply ex_phase_keep; [auto|]. intros H. rewrite H in Hp. discriminate.
    + eapply ex_phase_back; [eauto|discriminate].
Qed.

Lemma perm_snoc_mid {A} (a b c : list A) x :
  Permutation a (b ++ c) -> Permutation (a ++ [x]) ((b ++ [x]) ++ c).
Proof.
  intros H. rewrite <- app_assoc. cbn.
  eapply perm_trans; [apply Permutation_sym, Permutation_cons_append|].
  eapply perm_trans; [apply perm_skip, H|]. apply Permutation_middle.
Qed.

Definition fresh_item (s : st) (x : item) : Prop :=
  x < nitem s /\ ~ In x (entered s) /\ (forall t h, phase_of s t <> SendCk h x).

Lemma has_pending_wait_false s t e :
  wait_ev (phase_of s t) = Some e -> has_pending s t = false ->
  mustc s t = false /\ fut s e <> FCancelled /\ scopec s t = false.
Proof.
  unfold has_pending, waiter. intros -> H.
  apply orb_false_iff in H. destruct H as [H H3]. apply orb_false_iff in H. destruct H as [H1 H2].
  refine (conj H1 (conj _ H3)). intros E. rewrite E in H2. discriminate.
Qed.

Lemma has_pending_pending_false s t e :
  Inv s -> wait_ev (phase_of s t) = Some e -> fut s e = FPending -> has_pending s t = false.
Proof.
  intros I Hw Hf. destruct (I_quiet s I t e Hw Hf) as [H1 H2].
  unfold has_pending, waiter. rewrite Hw, H1, H2, Hf. reflexivity.
Qed.

Lemma set_nitem_inv s n : Inv s -> nitem s <= n -> Inv (set_nitem s n).
Proof.
  intros I Hn. get_inv I s. constructor; cbn; try assumption.
  - intros x Hin. apply Hfresh in Hin. lia.
  - intros t h x H. destruct (Hck _ _ _ H). split; [lia|assumption].
Qed.

Lemma add_acked_inv s x : Inv s -> In x (handed s ++ buffer s) -> Inv (add_acked s x).
Proof.
  intros I Hn. get_inv I s. unfold add_acked. constructor; cbn; try assumption.
  intros x0 Hin. apply in_app_or in Hin. destruct Hin as [Hin|[<-|[]]]; auto.
Qed.

(* send_nowait pops (and forgets) a prefix of receivers whose cancellation is pending *)
Lemma drop_prefix_inv s pre rest :
  Inv s -> receivers s = pre ++ rest -> (forall e t, In (e, t) pre -> has_pending s t = true) ->
  Inv (set_receivers s rest).
Proof.
  intros I Hr Hp. get_inv I s.
  assert (Hin : forall p, In p rest -> In p (receivers s)).
  { intros p H. rewrite Hr. apply in_or_app. now right. }
  assert (Hss : subseq rest (receivers s)) by (rewrite Hr; apply subseq_suffix).
  constructor; cbn; try assumption.
  - intros e t H. apply Hrk, Hin, H.
  - eapply subseq_nodup; [apply subseq_map, Hss|exact Hrnd].
  - intros t e H1 H2. pose proof (Hrpend t e H1 H2) as H. rewrite Hr in H.
    apply in_app_or in H. destruct H as [H|H]; [|exact H].
    apply Hp in H. rewrite (has_pending_pending_false s t e I) in H; [discriminate| |exact H2].
    rewrite H1. reflexivity.
  - intros e t H. eapply Hrslot, Hin, H.
  - intros H. apply Hj1. rewrite Hr. intros E. apply app_eq_nil in E. tauto.
  - eapply subseq_trans; [apply subseq_map, Hss|exact Hrenq].
  - intros e t H. eapply Hrfut, Hin, H.
Qed.

Lemma serve_head_inv s e t rest x :
  Inv s -> receivers s = (e, t) :: rest -> has_pending s t = false -> fresh_item s x ->
  Inv (hand_over s rest e x).
Proof.
  intros I Hr Hp (Hx1 & Hx2 & Hx3). get_inv I s.
  assert (Hin : forall p, In p rest -> In p (receivers s)) by (intros p H; rewrite Hr; now right).
  assert (Hhd : In (e, t) (receivers s)) by (rewrite Hr; now left).
  assert (Hpt : phase_of s t = RecvWait e) by (apply Hrk, Hhd).
  assert (Hw : wait_ev (phase_of s t) = Some e) by (rewrite Hpt; reflexivity).
  destruct (has_pending_wait_false s t e Hw Hp) as (Hm & Hfc & Hsc).
  assert (Hset : ev_set (fut s e) = FSet) by (destruct (fut s e); cbn; congruence).
  assert (Hnk : ~ In e (map fst rest)).
  { pose proof Hrnd as Hn. rewrite Hr in Hn. cbn in Hn. inversion Hn; assumption. }
  assert (Hne : forall e0 t0, In (e0, t0) rest -> e0 <> e).
  { intros e0 t0 H ->. apply Hnk. apply in_map_iff. exists (e, t0). auto. }
  assert (Hbs : buffer s = [] /\ senders s = []) by (apply Hj1; rewrite Hr; discriminate).
  destruct Hbs as [Hb Hs].
  assert (Hsl : slot s e = None) by (eapply Hrslot, Hhd).
  assert (Hnotin : ~ In e (map fst (inflight s))).
  { intros H. apply in_map_iff in H. destruct H as ([e0 x0] & E & H). cbn in E. subst e0.
    apply Hinfl in H. destruct H as [H _]. congruence. }
  unfold hand_over. constructor; cbn; try assumption; auto_upd e.
  - pose proof Hrnd as Hn. rewrite Hr in Hn. cbn in Hn. inversion Hn; assumption.
  - intros t0 e0 H1 H2. upd_cases e; [congruence|].
    pose proof (Hrpend t0 e0 H1 H2) as H. rewrite Hr in H. destruct H as [H|H]; [congruence|exact H].
  - intros e0 t0 H. rewrite upd_other; [eapply Hrslot, Hin, H|eapply Hne, H].
  - rewrite Hb, Hs. cbn. rewrite Hb, Hs in Hperm1. cbn in Hperm1. apply perm_snoc_mid. exact Hperm1.
  - rewrite map_app. cbn. rewrite app_assoc. rewrite app_assoc.
    apply perm_snoc_mid. rewrite <- app_assoc. exact Hperm2.
  - rewrite Hb, Hs. cbn. rewrite app_nil_r. apply subseq_app_tail.
    rewrite Hb, Hs in Hsub. cbn in Hsub. rewrite app_nil_r in Hsub. exact Hsub.
  - apply NoDup_app_tail1; assumption.
  - intros x0 H. apply in_app_or in H. destruct H as [H|[<-|[]]]; auto.
  - intros t0 h x0 H. destruct (Hck _ _ _ H) as [H1 H2]. split; [exact H1|].
    intros H3. apply in_app_or in H3. destruct H3 as [H3|[<-|[]]]; [contradiction|]. eapply Hx3, H.
  - intros t0 e0 x0 H. destruct (Hsw _ _ _ H) as [H1|H1]; [left; exact H1|right].
    rewrite !in_app_iff in *. tauto.
  - intros x0 H. apply Hack in H. rewrite !in_app_iff in *. tauto.
  - intros e0 x0. rewrite in_app_iff. cbn. destruct (Nat.eq_dec e0 e) as [->|Hn].
    + rewrite upd_same. split.
      * intros [H|[H|[]]].
        -- exfalso. apply Hnotin. apply in_map_iff. exists (e, x0). auto.
        -- injection H as <-. split; [reflexivity|eauto].
      * intros [H _]. right. left. congruence.
    + rewrite upd_other by assumption. rewrite Hinfl. split.
      * intros [H|[H|[]]]; [exact H|congruence].
      * intros H. left. exact H.
  - rewrite map_app. cbn. apply NoDup_app_tail1; assumption.
  - eapply subseq_trans; [|exact Hrenq]. rewrite Hr. cbn. apply ss_skip, subseq_refl.
  - intros e0 x0 H. rewrite Hs in H. destruct H.
  - intros e0 t0 H. rewrite upd_other by (eapply Hne, H). eapply Hrfut, Hin, H.
Qed.

Lemma xlt_xle n m : xlt n m = true -> xle (S n) m.
Proof. destruct m; cbn; [|trivial]. intros H. apply Nat.ltb_lt in H. lia. Qed.

Lemma buffer_item_inv s x :
  Inv s -> receivers s = [] -> xlt (length (buffer s)) (maxb s) = true -> open_send s <> 0 -> fresh_item s x ->
  Inv (buffer_item s x).
Proof.
  intros I Hr Hlt Hos (Hx1 & Hx2 & Hx3). get_inv I s.
  assert (Hs : senders s = []).
  { destruct (senders s) eqn:E; [reflexivity|]. rewrite Hj2 in Hlt; [discriminate|discriminate]. }
  unfold buffer_item, finished. constructor; cbn; try assumption; try (intros; contradiction); try (now constructor).
  - intros t e H1 H2. pose proof (Hrpend t e H1 H2) as H. now rewrite Hr in H.
  - rewrite app_length. cbn. rewrite Nat.add_1_r. apply xlt_xle, Hlt.
  - rewrite Hs in Hperm1 |- *. cbn [map app] in Hperm1 |- *.
    replace (handed s ++ (buffer s ++ [x]) ++ withdrawn s) with (((handed s ++ buffer s) ++ [x]) ++ withdrawn s)
      by (rewrite <- !app_assoc; reflexivity).
    apply perm_snoc_mid. rewrite <- app_assoc. exact Hperm1.
  - rewrite Hs in Hsub |- *. cbn [map] in Hsub |- *. rewrite !app_nil_r in *.
    rewrite app_assoc. apply subseq_app_tail. exact Hsub.
  - apply NoDup_app_tail1; assumption.
  - intros x0 H. apply in_app_or in H. destruct H as [H|[<-|[]]]; auto.
  - intros t0 h x0 H. destruct (Hck _ _ _ H) as [H1 H2]. split; [exact H1|].
    intros H3. apply in_app_or in H3. destruct H3 as [H3|[<-|[]]]; [contradiction|]. eapply Hx3, H.
  - intros t0 e0 x0 H. destruct (Hsw _ _ _ H) as [H1|H1]; [left; exact H1|right].
    rewrite !in_app_iff in *. tauto.
  - intros x0 H. apply Hack in H. rewrite !in_app_iff in *. tauto.
  - apply subseq_nil_l.
  - intros t e H1 H2 H3. destruct (Heos t e H1 H2 H3) as [H _]. contradiction.
Qed.
Ltac nev_contra s Hnev :=
  exfalso;
  match goal with
  | H : phase_of s ?t0 = RecvWait (nev s) |- _ =>
      let K := fresh in assert (K := Hnev t0 (nev s)); rewrite H in K; specialize (K eq_refl); lia
  | H : phase_of s ?t0 = SendWait (nev s) _ |- _ =>
      let K := fresh in assert (K := Hnev t0 (nev s)); rewrite H in K; specialize (K eq_refl); lia
  | H : wait_ev (phase_of s ?t0) = Some (nev s) |- _ =>
      let K := fresh in assert (K := Hnev t0 (nev s) H); lia
  end.

Ltac auto_upd2 s Hnev t :=
  try (intros; upd_cases t; upd_cases (nev s); cbn in *; try discriminate; try congruence;
       try (nev_contra s Hnev); eauto; fail).

Lemma enq_sender_inv s t x :
  Inv s -> phase_of s t = Idle -> mustc s t = false -> scopec s t = false ->
  receivers s = [] -> xlt (length (buffer s)) (maxb s) = false -> open_send s <> 0 -> open_recv s <> 0 ->
  fresh_item s x -> Inv (enq_sender s t x).
Proof.
  intros I Hp Hm Hsc Hr Hfull Hos Hor (Hx1 & Hx2 & Hx3). get_inv I s.
  assert (Hk : forall e0 x0, In (e0, x0) (senders s) -> e0 < nev s).
  { intros e0 x0 H. destruct (Hsk _ _ H) as [t0 H0]. apply (Hnev t0). rewrite H0. reflexivity. }
  unfold enq_sender. constructor; unfold finished; cbn; try assumption; auto_upd2 s Hnev t.
  - intros t0 e H. upd_cases t; cbn in H; [injection H as <-; lia|apply Hnev in H; lia].
  - intros t1 t2 e H1 H2.
    destruct (Nat.eq_dec t1 t) as [->|N1], (Nat.eq_dec t2 t) as [->|N2]; auto;
      rewrite ?upd_same in H1; rewrite ?upd_same in H2;
      rewrite ?upd_other in H1 by assumption; rewrite ?upd_other in H2 by assumption; cbn in H1, H2.
    + injection H1 as <-. apply Hnev in H2. lia.
    + injection H2 as <-. apply Hnev in H1. lia.
    + eauto.
  - intros e t0 H. rewrite Hr in H. destruct H.
  - intros e x0 H. apply in_app_or in H. destruct H as [H|[H|[]]].
    + apply ex_phase_keep; [auto|congruence].
    + injection H as <- <-. exists t. apply upd_same.
  - rewrite map_app. cbn. apply NoDup_app_tail1; [assumption|].
    intros H. apply in_map_iff in H. destruct H as ([e0 x0] & E & H). cbn in E. subst e0.
    apply Hk in H. lia.
  - intros t0 e x0 H1 H2. apply in_or_app. upd_cases t.
    + injection H1 as <- <-. right. now left.
    + left. upd_cases (nev s); [nev_contra s Hnev|eauto].
  - rewrite map_app. cbn. rewrite !app_assoc. apply perm_snoc_mid. rewrite <- !app_assoc. exact Hperm1.
  - rewrite map_app. cbn. rewrite !app_assoc. apply subseq_app_tail. rewrite <- !app_assoc. exact Hsub.
  - apply NoDup_app_tail1; assumption.
  - intros x0 H. apply in_app_or in H. destruct H as [H|[<-|[]]]; auto.
  - intros t0 h x0 H. upd_cases t; [discriminate|].
    destruct (Hck _ _ _ H) as [H1 H2]. split; [exact H1|].
    intros H3. apply in_app_or in H3. destruct H3 as [H3|[<-|[]]]; [contradiction|]. eapply Hx3, H.
  - intros t0 e x0 H. upd_cases t.
    + injection H as <- <-. left. apply in_or_app. right. now left.
    + destruct (Hsw _ _ _ H) as [H1|H1]; [left; apply in_or_app; now left|now right].
  - intros e x0. rewrite Hinfl. split; intros [H1 H2]; (split; [exact H1|]).
    + apply ex_phase_keep; [auto|congruence].
    + eapply ex_phase_back; [eauto|discriminate].
  - rewrite map_app. cbn. apply subseq_app_tail. exact Hsenq.
  - intros t0 e H1 H2 H3. upd_cases t; [discriminate|]. upd_cases (nev s); [discriminate|].
    destruct (Heos _ _ H1 H2 H3) as [H _]. contradiction.
  - intros e x0 H H2. apply in_app_or in H. destruct H as [H|[H|[]]].
    + rewrite upd_other in H2 by (apply Hk in H; lia). eauto.
    + injection H as <- <-. rewrite upd_same in H2. discriminate.
  - intros e H. apply in_app_or in H. destruct H as [H|[<-|[]]]; [apply Hsenqlt in H; lia|lia].
  - apply NoDup_app_tail1; [assumption|]. intros H. apply Hsenqlt in H. lia.
  - intros e H. apply Hrenqlt in H. lia.
Qed.

Lemma pop_only_inv s x b :
  Inv s -> senders s = [] -> buffer s = x :: b ->
  Inv (set_returned (set_handed (set_buffer s b) (handed s ++ [x])) (returned s ++ [x])).
Proof.
  intros I Hs Hb. get_inv I s.
  assert (Hr : receivers s = []).
  { destruct (receivers s) eqn:E; [reflexivity|]. destruct Hj1 as [H _]; [discriminate|congruence]. }
  assert (Hmem : forall x0, In x0 (handed s ++ buffer s) -> In x0 ((handed s ++ [x]) ++ b)).
  { intros x0. rewrite Hb, !in_app_iff. cbn. tauto. }
  constructor; unfold finished; cbn; try assumption.
  - intros H. congruence.
  - intros H. congruence.
  - rewrite Hb in Hbound. destruct (maxb s); cbn in *; [lia|trivial].
  - rewrite Hb in Hperm1. rewrite <- app_assoc. exact Hperm1.
  - apply perm_snoc_mid. exact Hperm2.
  - rewrite Hb in Hsub. rewrite <- app_assoc. exact Hsub.
  - intros t e x0 H. destruct (Hsw _ _ _ H) as [H1|H1]; [now left|right; auto].
  - intros x0 H. auto.
  - intros t e H1 H2 H3. destruct (Heos _ _ H1 H2 H3) as (_ & H & _). congruence.
Qed.

Lemma move_pop_inv s e y r x b :
  Inv s -> senders s = (e, y) :: r -> buffer s ++ [y] = x :: b ->
  Inv (set_returned (set_handed (set_buffer
        (set_fut (set_buffer (set_senders s r) (buffer s ++ [y])) (upd (fut s) e (ev_set (fut s e)))) b)
        (handed s ++ [x])) (returned s ++ [x])).
Proof.
  intros I Hs Hb. get_inv I s.
  assert (Hr : receivers s = []).
  { destruct (receivers s) eqn:E; [reflexivity|]. destruct Hj1 as [_ H]; [discriminate|congruence]. }
  assert (Hin : forall p, In p r -> In p (senders s)) by (intros p H; rewrite Hs; now right).
  assert (Hnk : ~ In e (map fst r)).
  { pose proof Hsnd as Hn. rewrite Hs in Hn. cbn in Hn. inversion Hn; assumption. }
  assert (Hne : forall e0 x0, In (e0, x0) r -> e0 <> e).
  { intros e0 x0 H ->. apply Hnk. apply in_map_iff. exists (e, x0). auto. }
  assert (Hlen : length b = length (buffer s)).
  { assert (H : length (buffer s ++ [y]) = length (x :: b)) by (rewrite Hb; reflexivity).
    rewrite app_length in H. cbn in H. lia. }
  assert (Hmem : forall x0, In x0 (handed s ++ buffer s) \/ x0 = y -> In x0 ((handed s ++ [x]) ++ b)).
  { intros x0 H. rewrite <- app_assoc. cbn [app]. rewrite <- Hb. rewrite !in_app_iff in *. cbn.
    destruct H as [H| ->]; tauto. }
  assert (Hnp : ev_set (fut s e) <> FPending) by apply ev_set_not_pending.
  constructor; unfold finished; cbn; try assumption; auto_upd e.
  - pose proof Hsnd as Hn. rewrite Hs in Hn. cbn in Hn. inversion Hn; assumption.
  - intros t e0 x0 H1 H2. upd_cases e; [congruence|].
    pose proof (Hspend _ _ _ H1 H2) as H. rewrite Hs in H. destruct H as [H|H]; [congruence|exact H].
  - intros _. rewrite Hlen. apply Hj2. rewrite Hs. discriminate.
  - rewrite Hs in Hperm1. cbn in Hperm1. rewrite <- app_assoc. cbn [app]. rewrite app_comm_cons, <- Hb.
    rewrite <- !app_assoc. cbn [app]. exact Hperm1.
  - apply perm_snoc_mid. exact Hperm2.
  - rewrite Hs in Hsub. cbn in Hsub. rewrite <- app_assoc. cbn [app]. rewrite app_comm_cons, <- Hb.
    rewrite <- !app_assoc. cbn [app]. exact Hsub.
  - intros t e0 x0 H. destruct (Hsw _ _ _ H) as [H1|H1].
    + rewrite Hs in H1. destruct H1 as [H1|H1]; [injection H1 as <- <-; right; apply Hmem; now right|now left].
    + right. apply Hmem. now left.
  - intros t e0 x0 H1 H2. upd_cases e; [|eauto]. rewrite (Hfilled _ _ _ H1 H2). reflexivity.
  - eapply subseq_trans; [|exact Hsenq]. rewrite Hs. cbn. apply ss_skip, subseq_refl.
  - intros t e0 H1 H2 H3. exfalso. upd_cases e.
    + destruct (Hsk e y) as [t' Ht']; [rewrite Hs; now left|].
      assert (t = t') by (eapply Hinj; [rewrite H1|rewrite Ht']; reflexivity). subst. congruence.
    + destruct (Heos _ _ H1 H2 H3) as (_ & _ & H). congruence.
  - intros e0 x0 H H2. rewrite upd_other in H2 by (eapply Hne, H). eauto.
  - intros e0 t0 H. rewrite Hr in H. destruct H.
Qed.

Lemma enq_receiver_inv s t :
  Inv s -> phase_of s t = Idle -> mustc s t = false -> scopec s t = false ->
  buffer s = [] -> senders s = [] -> open_send s <> 0 -> Inv (enq_receiver s t).
Proof.
  intros I Hp Hm Hsc Hb Hs Hos. get_inv I s.
  assert (Hk : forall e0 t0, In (e0, t0) (receivers s) -> e0 < nev s).
  { intros e0 t0 H. apply Hrk in H. apply (Hnev t0). rewrite H. reflexivity. }
  unfold enq_receiver. constructor; unfold finished; cbn; try assumption; auto_upd2 s Hnev t.
  - intros t0 e H. upd_cases t; cbn in H; [injection H as <-; lia|apply Hnev in H; lia].
  - intros t1 t2 e H1 H2.
    destruct (Nat.eq_dec t1 t) as [->|N1], (Nat.eq_dec t2 t) as [->|N2]; auto;
      rewrite ?upd_same in H1; rewrite ?upd_same in H2;
      rewrite ?upd_other in H1 by assumption; rewrite ?upd_other in H2 by assumption; cbn in H1, H2.
    + injection H1 as <-. apply Hnev in H2. lia.
    + injection H2 as <-. apply Hnev in H1. lia.
    + eauto.
  - intros e t0 H. apply in_app_or in H. destruct H as [H|[H|[]]].
    + rewrite upd_other; [auto|]. intros ->. apply Hrk in H. congruence.
    + injection H as <- <-. apply upd_same.
  - intros e x0 H. rewrite Hs in H. destruct H.
  - rewrite map_app. cbn. apply NoDup_app_tail1; [assumption|].
    intros H. apply in_map_iff in H. destruct H as ([e0 t0] & E & H). cbn in E. subst e0.
    apply Hk in H. lia.
  - intros t0 e H1 H2. apply in_or_app. upd_cases t.
    + injection H1 as <-. right. now left.
    + left. upd_cases (nev s); [nev_contra s Hnev|eauto].
  - intros e t0 H. apply in_app_or in H. destruct H as [H|[H|[]]].
    + rewrite upd_other by (apply Hk in H; lia). eauto.
    + injection H as <- <-. apply upd_same.
  - intros e x0. rewrite Hinfl. destruct (Nat.eq_dec e (nev s)) as [->|Hn].
    + rewrite upd_same. split; [|intros [H _]; discriminate].
      intros [_ [t0 H]]. nev_contra s Hnev.
    + rewrite upd_other by assumption. split; intros [H1 H2]; (split; [exact H1|]).
      * apply ex_phase_keep; [auto|congruence].
      * eapply ex_phase_back; [eauto|]. congruence.
  - rewrite map_app. cbn. apply subseq_app_tail. exact Hrenq.
  - intros t0 e H1 H2 H3. upd_cases t.
    + injection H1 as <-. rewrite upd_same in H2. discriminate.
    + upd_cases (nev s); try discriminate. eapply Heos; eassumption.
  - intros e H. apply Hsenqlt in H. lia.
  - intros e H. apply in_app_or in H. destruct H as [H|[<-|[]]]; [apply Hrenqlt in H; lia|lia].
  - apply NoDup_app_tail1; [assumption|]. intros H. apply Hrenqlt in H. lia.
  - intros e t0 H. apply in_app_or in H. destruct H as [H|[H|[]]].
    + rewrite upd_other by (apply Hk in H; lia). eauto.
    + injection H as <- <-. rewrite upd_same. discriminate.
Qed.
Lemma finish_sw_absent_inv s t e x :
  Inv s -> phase_of s t = SendWait e x -> fut s e <> FPending -> has_key e (senders s) = false ->
  Inv (finish s t).
Proof.
  intros I Hp Hf Hk. get_inv I s. apply has_key_false in Hk.
  assert (Hne : forall e0 x0, In (e0, x0) (senders s) -> e0 <> e).
  { intros e0 x0 H ->. apply Hk. apply in_map_iff. exists (e, x0). auto. }
  unfold finish. constructor; unfold finished; cbn; try assumption; auto_upd t.
  - intros e0 t0 H. rewrite upd_other; [auto|]. intros ->. apply Hrk in H. congruence.
  - intros e0 x0 H. apply ex_phase_keep; [auto|]. rewrite Hp. intros E. injection E as <- _. eapply Hne; eauto.
  - intros e0 x0. rewrite Hinfl. split; intros [H1 H2]; (split; [exact H1|]).
    + apply ex_phase_keep; [auto|congruence].
    + eapply ex_phase_back; [eauto|discriminate].
  - intros t0 e0 H1 H2 H3. upd_cases t; [discriminate|]. eapply Heos; eassumption.
Qed.

Lemma finish_sw_present_inv s t e x :
  Inv s -> phase_of s t = SendWait e x -> fut s e <> FPending -> has_key e (senders s) = true ->
  Inv (finish (set_withdrawn (set_senders s (del_key e (senders s))) (withdrawn s ++ [x])) t).
Proof.
  intros I Hp Hf Hk. get_inv I s. apply has_key_in in Hk.
  assert (Hin : In (e, x) (senders s)).
  { apply in_map_iff in Hk. destruct Hk as ([e0 x0] & E & H). cbn in E. subst e0.
    destruct (Hsk _ _ H) as [t' Ht']. assert (t' = t) by (eapply Hinj; [rewrite Ht'|rewrite Hp]; reflexivity).
    subst. rewrite Hp in Ht'. injection Ht' as <-. exact H. }
  assert (Hsub' : subseq (del_key e (senders s)) (senders s)) by apply del_key_subseq.
  unfold finish. constructor; unfold finished; cbn; try assumption; auto_upd t.
  - intros e0 t0 H. rewrite upd_other; [auto|]. intros ->. apply Hrk in H. congruence.
  - intros e0 x0 H. apply ex_phase_keep; [apply Hsk; eapply del_key_in, H|].
    rewrite Hp. intros E. injection E as <- _.
    eapply (del_key_gone e (senders s) Hsnd). apply in_map_iff. exists (e, x0). split; [reflexivity|exact H].
  - apply del_key_nodup, Hsnd.
  - intros t0 e0 x0 H1 H2. upd_cases t; [discriminate|]. apply del_key_other; [eauto|].
    intros ->. assert (t0 = t) by (eapply Hinj; [rewrite H1|rewrite Hp]; reflexivity). contradiction.
  - intros H. destruct (Hj1 H) as [H1 H2]. rewrite H2 in Hin. destruct Hin.
  - intros H. apply Hj2. intros E. rewrite E in H. cbn in H. congruence.
  - eapply perm_trans; [exact Hperm1|]. apply Permutation_app_head, Permutation_app_head.
    eapply perm_trans; [apply Permutation_app_tail, (del_key_perm e x (senders s) Hsnd Hin)|].
    cbn. rewrite app_assoc. apply Permutation_cons_append.
  - eapply subseq_trans; [|exact Hsub]. apply subseq_app; [apply subseq_refl|].
    apply subseq_app; [apply subseq_refl|]. apply subseq_map, Hsub'.
  - intros t0 e0 x0 H. upd_cases t; [discriminate|]. destruct (Hsw _ _ _ H) as [H1|H1]; [left|now right].
    apply del_key_other; [exact H1|].
    intros ->. assert (t0 = t) by (eapply Hinj; [rewrite H|rewrite Hp]; reflexivity). contradiction.
  - intros e0 x0. rewrite Hinfl. split; intros [H1 H2]; (split; [exact H1|]).
    + apply ex_phase_keep; [auto|congruence].
    + eapply ex_phase_back; [eauto|discriminate].
  - eapply subseq_trans; [apply subseq_map, Hsub'|exact Hsenq].
  - intros t0 e0 H1 H2 H3. upd_cases t; [discriminate|]. destruct (Heos _ _ H1 H2 H3) as (_ & _ & H).
    rewrite H in Hin. destruct Hin.
  - intros e0 x0 H. apply del_key_in in H. eauto.
Qed.

Lemma pop_receiver_inv s t e :
  Inv s -> phase_of s t = RecvWait e -> fut s e <> FPending -> Inv (pop_receiver s e).
Proof.
  intros I Hp Hf. get_inv I s.
  assert (Hsub' : subseq (del_key e (receivers s)) (receivers s)) by apply del_key_subseq.
  unfold pop_receiver. constructor; unfold finished; cbn; try assumption.
  - intros e0 t0 H. apply Hrk. eapply del_key_in, H.
  - apply del_key_nodup, Hrnd.
  - intros t0 e0 H1 H2. apply del_key_other; [eauto|]. intros ->. contradiction.
  - intros e0 t0 H. eapply Hrslot. eapply del_key_in, H.
  - intros H. apply Hj1. intros E. rewrite E in H. cbn in H. congruence.
  - eapply subseq_trans; [apply subseq_map, Hsub'|exact Hrenq].
  - intros e0 t0 H. eapply Hrfut. eapply del_key_in, H.
Qed.

Lemma finish_rw_inv s t e l' r' lo' :
  Inv s -> phase_of s t = RecvWait e -> fut s e <> FPending -> ~ In e (map fst (receivers s)) ->
  (match slot s e with
   | Some x => (r' = returned s ++ [x] /\ lo' = lost s) \/ (r' = returned s /\ lo' = lost s ++ [x])
   | None => r' = returned s /\ lo' = lost s
   end) ->
  l' = del_key e (inflight s) ->
  Inv (finish (set_lost (set_returned (set_inflight s l') r') lo') t).
Proof.
  intros I Hp Hf Hk Hm ->. get_inv I s.
  unfold finish. constructor; unfold finished; cbn; try assumption; auto_upd t.
  - intros e0 t0 H. rewrite upd_other; [auto|]. intros ->.
    pose proof (Hrk _ _ H) as H1. rewrite Hp in H1. injection H1 as <-.
    apply Hk. apply in_map_iff. exists (e, t). auto.
  - intros e0 x0 H. apply ex_phase_keep; [auto|congruence].
  - destruct (slot s e) as [x|] eqn:Es.
    + assert (Hin : In (e, x) (inflight s)) by (apply Hinfl; split; [exact Es|eauto]).
      pose proof (del_key_perm e x (inflight s) Hinflnd Hin) as Hd.
      eapply perm_trans; [exact Hperm2|]. destruct Hm as [[-> ->]|[-> ->]].
      * rewrite <- app_assoc. apply Permutation_app_head. cbn. apply (Permutation_app_tail (lost s)) in Hd. exact Hd.
      * apply Permutation_app_head.
        eapply perm_trans; [apply Permutation_app_tail, Hd|]. cbn. rewrite app_assoc. apply Permutation_cons_append.
    + destruct Hm as [-> ->]. rewrite del_key_absent; [exact Hperm2|].
      intros H. apply in_map_iff in H. destruct H as ([e0 x0] & E & H). cbn in E. subst e0.
      apply Hinfl in H. destruct H as [H _]. congruence.
  - intros e0 x0. destruct (Nat.eq_dec e0 e) as [->|Hn].
    + split.
      * intros H. exfalso. eapply (del_key_gone e (inflight s) Hinflnd).
        apply in_map_iff. exists (e, x0). split; [reflexivity|exact H].
      * intros [_ [t0 H]]. exfalso. upd_cases t; [discriminate|].
        assert (t0 = t) by (eapply Hinj; [rewrite H|rewrite Hp]; reflexivity). contradiction.
    + split.
      * intros H. apply del_key_in in H. apply Hinfl in H. destruct H as [H1 H2]. split; [exact H1|].
        apply ex_phase_keep; [exact H2|congruence].
      * intros [H1 H2]. apply del_key_other; [|exact Hn]. apply Hinfl. split; [exact H1|].
        eapply ex_phase_back; [eauto|discriminate].
  - apply del_key_nodup, Hinflnd.
  - intros t0 e0 H1 H2 H3. upd_cases t; [discriminate|]. eapply Heos; eassumption.
Qed.
Lemma set_keys_set_inv f ks e : set_keys f ks e = FSet -> f e = FSet \/ In e ks.
Proof.
  unfold set_keys. destruct (mem e ks) eqn:E; [|now left]. intros _. right. now apply mem_in.
Qed.

Lemma set_keys_keep_set f ks e : f e = FSet -> set_keys f ks e = FSet.
Proof. intros H. unfold set_keys. destruct (mem e ks); [rewrite H; reflexivity|exact H]. Qed.

Lemma in_keys {A} (e : eid) (v : A) (l : list (eid * A)) : In (e, v) l -> In e (map fst l).
Proof. intros H. apply in_map_iff. exists (e, v). auto. Qed.

Lemma count_open_pos sd hs hc n h : h < n -> hs h = sd -> hc h = false -> count_open sd hs hc n <> 0.
Proof.
  intros H1 H2 H3 H. pose proof (count_open_zero sd hs hc n H h H1 H2). congruence.
Qed.

Lemma flags_fut_inv s f' m' sc' :
  Inv s ->
  (f' = fut s \/ exists t e, wait_ev (phase_of s t) = Some e /\ fut s e = FPending /\ f' = upd (fut s) e FCancelled) ->
  (forall t e, wait_ev (phase_of s t) = Some e -> f' e = FPending -> m' t = false /\ sc' t = false) ->
  Inv (set_scopec (set_mustc (set_fut s f') m') sc').
Proof.
  intros I Hf Hq. get_inv I s. destruct Hf as [->|(t & e & Hw & Hp & ->)].
  - constructor; unfold finished; cbn; try assumption.
  - constructor; unfold finished; cbn; try assumption; auto_upd e.
    + intros t0 e0 x0 H1 H2. upd_cases e; [|eauto]. rewrite (Hfilled _ _ _ H1 H2) in Hp. discriminate.
    + intros t0 e0 H1 H2 H3. upd_cases e; [discriminate|]. eapply Heos; eassumption.
Qed.

Lemma do_clone_inv s h : Inv s -> h < nh s -> hclosed s h = false -> Inv (do_clone s h).
Proof.
  intros I Hh Hc. get_inv I s.
  assert (Hext : forall sd sd', count_open sd (upd (hside s) (nh s) sd') (upd (hclosed s) (nh s) false) (nh s)
                                = count_open sd (hside s) (hclosed s) (nh s)).
  { intros sd sd'. apply count_open_ext. intros h0 Hh0. split; apply upd_other; lia. }
  unfold do_clone. destruct (hside s h) eqn:Hsd.
  - assert (Hpos : open_send s <> 0) by (rewrite Hcs; eapply count_open_pos; eauto).
    constructor; unfold finished; cbn; try assumption.
    + rewrite Hext, !upd_same. cbn. lia.
    + rewrite Hext, !upd_same. cbn. lia.
    + intros t h0 x H. destruct (Hckh _ _ _ H) as [H1 H2]. split; [lia|]. rewrite upd_other by lia. exact H2.
    + intros t e H1 H2 H3. destruct (Heos _ _ H1 H2 H3) as [H _]. contradiction.
    + intros H. discriminate.
  - assert (Hpos : open_recv s <> 0) by (rewrite Hcr; eapply count_open_pos; eauto).
    constructor; unfold finished; cbn; try assumption.
    + rewrite Hext, !upd_same. cbn. lia.
    + rewrite Hext, !upd_same. cbn. lia.
    + intros t h0 x H. destruct (Hckh _ _ _ H) as [H1 H2]. split; [lia|]. rewrite upd_other by lia. exact H2.
    + intros e x H1 H2. exfalso. apply Hpos. eauto.
    + intros H. discriminate.
Qed.

Lemma close_send_last_inv s h :
  Inv s -> h < nh s -> hclosed s h = false -> hside s h = SSend -> pred (open_send s) = 0 ->
  Inv (set_fut (set_receivers (set_open_send (set_hclosed s (upd (hclosed s) h true)) 0) [])
               (set_keys (fut s) (map fst (receivers s)))).
Proof.
  intros I Hh Hc Hsd Hn. get_inv I s.
  assert (Hpos : open_send s <> 0) by (rewrite Hcs; eapply count_open_pos; eauto).
  assert (Hrp : forall t e, phase_of s t = RecvWait e -> set_keys (fut s) (map fst (receivers s)) e <> FPending).
  { intros t e H1 H2. apply set_keys_not_pending_inv in H2. destruct H2 as [H2 H3].
    apply H3. eapply in_keys. eapply Hrpend; eauto. }
  constructor; unfold finished; cbn; try assumption; try (intros; contradiction); try (now constructor).
  - intros t e x H1 H2. apply set_keys_not_pending_inv in H2. destruct H2 as [H2 _]. eauto.
  - intros t e H1 H2. apply set_keys_not_pending_inv in H2. destruct H2 as [H2 _]. eauto.
  - pose proof (count_open_close SSend (hside s) (hclosed s) (nh s) h Hh Hc Hsd). lia.
  - rewrite count_open_close_other; [exact Hcr|]. rewrite Hsd. discriminate.
  - intros t e x H1 H2. apply set_keys_keep_set. eauto.
  - apply subseq_nil_l.
  - intros t e H1 H2 H3. split; [reflexivity|]. apply set_keys_set_inv in H2. destruct H2 as [H2|H2].
    + destruct (Heos _ _ H1 H2 H3) as [H _]. contradiction.
    + apply Hj1. intros E. rewrite E in H2. destruct H2.
  - intros e x H1 H2. apply set_keys_set_inv in H2. destruct H2 as [H2|H2]; [eauto|].
    destruct Hj1 as [_ H]; [intros E; rewrite E in H2; destruct H2|]. rewrite H in H1. destruct H1.
  - intros _ t e H. eapply Hrp; eauto.
  - intros Ho t e x H1 H2. apply set_keys_not_pending_inv in H2. destruct H2 as [H2 _]. eapply Hws; eauto.
Qed.

Lemma close_recv_last_inv s h :
  Inv s -> h < nh s -> hclosed s h = false -> hside s h = SRecv -> pred (open_recv s) = 0 ->
  Inv (set_fut (set_open_recv (set_hclosed s (upd (hclosed s) h true)) 0)
               (set_keys (fut s) (map fst (senders s)))).
Proof.
  intros I Hh Hc Hsd Hn. get_inv I s.
  assert (Hpos : open_recv s <> 0) by (rewrite Hcr; eapply count_open_pos; eauto).
  constructor; unfold finished; cbn; try assumption.
  - intros t e H1 H2. apply set_keys_not_pending_inv in H2. destruct H2 as [H2 _]. eauto.
  - intros t e x H1 H2. apply set_keys_not_pending_inv in H2. destruct H2 as [H2 _]. eauto.
  - intros t e H1 H2. apply set_keys_not_pending_inv in H2. destruct H2 as [H2 _]. eauto.
  - rewrite count_open_close_other; [exact Hcs|]. rewrite Hsd. discriminate.
  - pose proof (count_open_close SRecv (hside s) (hclosed s) (nh s) h Hh Hc Hsd). lia.
  - intros t e x H1 H2. apply set_keys_keep_set. eauto.
  - intros t e H1 H2 H3. apply set_keys_set_inv in H2. destruct H2 as [H2|H2]; [eapply Heos; eassumption|].
    exfalso. apply in_map_iff in H2. destruct H2 as ([e0 x0] & E & H2). cbn in E. subst e0.
    destruct (Hsk _ _ H2) as [t' Ht'].
    assert (t' = t) by (eapply Hinj; [rewrite Ht'|rewrite H1]; reflexivity). subst. congruence.
  - reflexivity.
  - intros Ho t e H1 H2. apply set_keys_not_pending_inv in H2. destruct H2 as [H2 _]. eapply Hwr; eauto.
  - intros _ t e x H1 H2. apply set_keys_not_pending_inv in H2. destruct H2 as [H2 H3].
    apply H3. eapply in_keys. eapply Hspend; eauto.
  - intros e t H1 H2. apply set_keys_set_inv in H2. destruct H2 as [H2|H2]; [eapply Hrfut; eauto|].
    apply in_map_iff in H2. destruct H2 as ([e0 x0] & E & H2). cbn in E. subst e0.
    destruct (Hsk _ _ H2) as [t' Ht']. pose proof (Hrk _ _ H1) as Ht.
    assert (t' = t) by (eapply Hinj; [rewrite Ht'|rewrite Ht]; reflexivity). subst. congruence.
Qed.

Lemma close_send_notlast_inv s h :
  Inv s -> h < nh s -> hclosed s h = false -> hside s h = SSend -> pred (open_send s) <> 0 ->
  Inv (set_open_send (set_hclosed s (upd (hclosed s) h true)) (pred (open_send s))).
Proof.
  intros I Hh Hc Hsd Hn. get_inv I s.
  constructor; unfold finished; cbn; try assumption.
  - pose proof (count_open_close SSend (hside s) (hclosed s) (nh s) h Hh Hc Hsd). lia.
  - rewrite count_open_close_other; [exact Hcr|]. rewrite Hsd. discriminate.
  - intros t e H1 H2 H3. destruct (Heos _ _ H1 H2 H3) as (H & Hb & Hs). rewrite H. auto.
  - intros H. contradiction.
Qed.

Lemma close_recv_notlast_inv s h :
  Inv s -> h < nh s -> hclosed s h = false -> hside s h = SRecv -> pred (open_recv s) <> 0 ->
  Inv (set_open_recv (set_hclosed s (upd (hclosed s) h true)) (pred (open_recv s))).
Proof.
  intros I Hh Hc Hsd Hn. get_inv I s.
  constructor; unfold finished; cbn; try assumption.
  - rewrite count_open_close_other; [exact Hcs|]. rewrite Hsd. discriminate.
  - pose proof (count_open_close SRecv (hside s) (hclosed s) (nh s) h Hh Hc Hsd). lia.
  - intros e x H1 H2. rewrite (Hbrk _ _ H1 H2). reflexivity.
  - intros H. contradiction.
Qed.

Lemma do_close_inv s h : Inv s -> h < nh s -> hclosed s h = false -> Inv (do_close s h).
Proof.
  intros I Hh Hc. unfold do_close. destruct (hside s h) eqn:Hsd.
  - destruct (Nat.eqb_spec (pred (open_send s)) 0) as [E|E].
    + rewrite E. apply close_send_last_inv; assumption.
    + apply close_send_notlast_inv; assumption.
  - destruct (Nat.eqb_spec (pred (open_recv s)) 0) as [E|E].
    + rewrite E. apply close_recv_last_inv; assumption.
    + apply close_recv_notlast_inv; assumption.
Qed.
Lemma task_cancel_inv s t : Inv s -> Inv (task_cancel s t).
Proof.
  intros I. unfold task_cancel, waiter. destruct (wait_ev (phase_of s t)) as [e|] eqn:Ew.
  - destruct (fut s e) eqn:Ef.
    + assert (K : Inv (set_scopec (set_mustc (set_fut s (upd (fut s) e FCancelled)) (mustc s)) (scopec s))).
      { apply flags_fut_inv; [exact I|right; exists t, e; auto|].
        intros t0 e0 H1 H2. apply (I_quiet s I t0 e0 H1).
        destruct (Nat.eq_dec e0 e) as [->|Hn]; [rewrite upd_same in H2; discriminate|].
        now rewrite upd_other in H2 by assumption. }
      destruct s; exact K.
    + assert (K : Inv (set_scopec (set_mustc (set_fut s (fut s)) (upd (mustc s) t true)) (scopec s))).
      { apply flags_fut_inv; [exact I|now left|].
        intros t0 e0 H1 H2. destruct (I_quiet s I t0 e0 H1 H2) as [H3 H4]. split; [|exact H4].
        rewrite upd_other; [exact H3|]. intros ->. rewrite Ew in H1. injection H1 as <-. congruence. }
      destruct s; exact K.
    + assert (K : Inv (set_scopec (set_mustc (set_fut s (fut s)) (upd (mustc s) t true)) (scopec s))).
      { apply flags_fut_inv; [exact I|now left|].
        intros t0 e0 H1 H2. destruct (I_quiet s I t0 e0 H1 H2) as [H3 H4]. split; [|exact H4].
        rewrite upd_other; [exact H3|]. intros ->. rewrite Ew in H1. injection H1 as <-. congruence. }
      destruct s; exact K.
  - assert (K : Inv (set_scopec (set_mustc (set_fut s (fut s)) (upd (mustc s) t true)) (scopec s))).
    { apply flags_fut_inv; [exact I|now left|].
      intros t0 e0 H1 H2. destruct (I_quiet s I t0 e0 H1 H2) as [H3 H4]. split; [|exact H4].
      rewrite upd_other; [exact H3|]. intros ->. rewrite Ew in H1. discriminate. }
    destruct s; exact K.
Qed.

Lemma scope_cancel_inv s t : Inv s -> Inv (scope_cancel s t).
Proof.
  intros I. unfold scope_cancel, task_cancel, waiter; cbn [phase_of fut mustc set_scopec].
  assert (Hsc : forall m', (forall t0 e0, wait_ev (phase_of s t0) = Some e0 -> fut s e0 = FPending -> m' t0 = false) ->
                (forall e0, wait_ev (phase_of s t) = Some e0 -> fut s e0 <> FPending) ->
                Inv (set_scopec (set_mustc (set_fut s (fut s)) m') (upd (scopec s) t true))).
  { intros m' Hm Hnp. apply flags_fut_inv; [exact I|now left|].
    intros t0 e0 H1 H2. split; [eauto|]. destruct (I_quiet s I t0 e0 H1 H2) as [H3 H4].
    rewrite upd_other; [exact H4|]. intros ->. eapply Hnp; eauto. }
  assert (Hq0 : forall t0 e0, wait_ev (phase_of s t0) = Some e0 -> fut s e0 = FPending -> mustc s t0 = false).
  { intros t0 e0 H1 H2. apply (I_quiet s I t0 e0 H1 H2). }
  destruct (mustc s t) eqn:Em.
  - assert (K : Inv (set_scopec (set_mustc (set_fut s (fut s)) (mustc s)) (upd (scopec s) t true))).
    { apply Hsc; [exact Hq0|]. intros e0 H1 H2. rewrite (Hq0 t e0 H1 H2) in Em. discriminate. }
    destruct s; exact K.
  - destruct (wait_ev (phase_of s t)) as [e|] eqn:Ew.
    + destruct (fut s e) eqn:Ef.
      * assert (K : Inv (set_scopec (set_mustc (set_fut s (upd (fut s) e FCancelled)) (mustc s)) (upd (scopec s) t true))).
        { apply flags_fut_inv; [exact I|right; exists t, e; auto|].
          intros t0 e0 H1 H2.
          destruct (Nat.eq_dec e0 e) as [->|Hn]; [rewrite upd_same in H2; discriminate|].
          rewrite upd_other in H2 by assumption. destruct (I_quiet s I t0 e0 H1 H2) as [H3 H4].
          split; [exact H3|]. rewrite upd_other; [exact H4|]. intros ->. congruence. }
        destruct s; exact K.
      * assert (K : Inv (set_scopec (set_mustc (set_fut s (fut s)) (mustc s)) (upd (scopec s) t true))).
        { apply Hsc; [exact Hq0|]. intros e0 H1. injection H1 as <-. congruence. }
        destruct s; exact K.
      * assert (K : Inv (set_scopec (set_mustc (set_fut s (fut s)) (mustc s)) (upd (scopec s) t true))).
        { apply Hsc; [exact Hq0|]. intros e0 H1. injection H1 as <-. congruence. }
        destruct s; exact K.
    + assert (K : Inv (set_scopec (set_mustc (set_fut s (fut s)) (upd (mustc s) t true)) (upd (scopec s) t true))).
      { apply Hsc; [|intros e0 H1; discriminate].
        intros t0 e0 H1 H2. rewrite upd_other; [eauto|]. intros ->. congruence. }
      destruct s; exact K.
Qed.

(* ---------- send_nowait / receive_nowait as a whole ---------- *)
Lemma has_pending_set_receivers s l t : has_pending (set_receivers s l) t = has_pending s t.
Proof. reflexivity. Qed.

Lemma send_nowait_inv s h x :
  Inv s -> h < nh s -> hside s h = SSend -> fresh_item s x ->
  let s1 := fst (send_nowait s h x) in
  Inv s1 /\
  match snd (send_nowait s h x) with
  | RDone => In x (handed s1 ++ buffer s1)
  | RWouldBlock =>
      receivers s1 = [] /\ xlt (length (buffer s1)) (maxb s1) = false /\ open_send s1 <> 0 /\ open_recv s1 <> 0 /\
      fresh_item s1 x /\ phase_of s1 = phase_of s /\ mustc s1 = mustc s /\ scopec s1 = scopec s
  | _ => True
  end.
Proof.
  intros I Hh Hsd Hfr. unfold send_nowait.
  destruct (hclosed s h) eqn:Hc; [cbn; auto|].
  destruct (Nat.eqb_spec (open_recv s) 0) as [Hor|Hor]; [cbn; auto|].
  assert (Hos : open_send s <> 0) by (rewrite (I_cs s I); eapply count_open_pos; eauto).
  pose proof (pop_live_spec s (receivers s)) as Hpl.
  destruct (pop_live s (receivers s)) as [[[e t]|] rest].
  - destruct Hpl as (pre & Hr & Hnp & Hpre). cbn [fst snd].
    assert (I' : Inv (set_receivers s ((e, t) :: rest))) by (eapply drop_prefix_inv; eauto).
    assert (K : Inv (hand_over (set_receivers s ((e, t) :: rest)) rest e x)).
    { eapply serve_head_inv; [exact I'|reflexivity|exact Hnp|exact Hfr]. }
    split; [exact K|]. cbn. rewrite !in_app_iff. cbn. tauto.
  - destruct Hpl as (-> & Hall).
    assert (I' : Inv (set_receivers s [])).
    { eapply (drop_prefix_inv s (receivers s) []); [exact I|now rewrite app_nil_r|exact Hall]. }
    destruct (xlt (length (buffer s)) (maxb s)) eqn:Hlt; cbn [fst snd].
    + assert (K : Inv (buffer_item (set_receivers s []) x)).
      { apply buffer_item_inv; auto. }
      split; [exact K|]. cbn. rewrite !in_app_iff. cbn. tauto.
    + split; [exact I'|]. cbn. auto 10.
Qed.

Lemma recv_nowait_inv s h :
  Inv s ->
  let s1 := fst (recv_nowait s h) in
  Inv s1 /\
  match snd (recv_nowait s h) with
  | RWouldBlock =>
      buffer s1 = [] /\ senders s1 = [] /\ open_send s1 <> 0 /\
      phase_of s1 = phase_of s /\ mustc s1 = mustc s /\ scopec s1 = scopec s
  | _ => True
  end.
Proof.
  intros I. unfold recv_nowait. destruct (hclosed s h); [cbn; auto|].
  unfold rn_move. destruct (senders s) as [|[e y] r] eqn:Hs.
  - unfold rn_pop. destruct (buffer s) as [|x b] eqn:Hb.
    + destruct (Nat.eqb_spec (open_send s) 0); cbn; auto 10.
    + cbn [fst snd]. split; [|exact Logic.I]. apply pop_only_inv; assumption.
  - unfold rn_pop. cbn [buffer set_fut set_buffer set_senders].
    destruct (buffer s ++ [y]) as [|x b] eqn:Hb; [destruct (buffer s); discriminate|].
    cbn [fst snd]. split; [|exact Logic.I].
    apply (move_pop_inv s e y r x b I Hs Hb).
Qed.

(* ---------- one step, every reachable state ---------- *)
Lemma is_idle_true p : is_idle p = true <-> p = Idle.
Proof. destruct p; cbn; split; congruence. Qed.

Lemma valid_h_true s h sd : valid_h s h sd = true <-> h < nh s /\ hside s h = sd.
Proof. unfold valid_h. rewrite andb_true_iff, Nat.ltb_lt, side_eqb_eq. tauto. Qed.

Lemma fresh_after_nitem s x : Inv s -> nitem s <= x -> fresh_item (set_nitem s (S x)) x.
Proof.
  intros I Hx. refine (conj _ (conj _ _)); cbn.
  - lia.
  - intros H. apply (I_fresh s I) in H. lia.
  - intros t h H. apply (I_ck s I) in H. lia.
Qed.

Lemma fresh_after_finish s t h x : Inv s -> phase_of s t = SendCk h x -> fresh_item (finish s t) x.
Proof.
  intros I Hp. destruct (I_ck s I t h x Hp) as [H1 H2]. refine (conj H1 (conj H2 _)). cbn.
  intros t0 h0 H. destruct (Nat.eq_dec t0 t) as [->|Hn].
  - rewrite upd_same in H. discriminate.
  - rewrite upd_other in H by assumption. apply Hn. eapply (I_ckinj s I); eauto.
Qed.

Lemma step_inv s o : Inv s -> Inv (fst (step s o)).
Proof.
  intros I. destruct o as [t h x|t h|t h x|t h|h|h|t|t|t|t]; cbn [step].
  - (* SendNowait *)
    destruct (is_idle (phase_of s t)) eqn:Ei; cbn [negb orb fst]; [|exact I].
    destruct (valid_h s h SSend) eqn:Ev; cbn [negb orb fst]; [|exact I].
    destruct (Nat.ltb_spec x (nitem s)) as [Hx|Hx]; cbn [fst]; [exact I|].
    apply valid_h_true in Ev. destruct Ev as [Hh Hsd].
    assert (I0 : Inv (set_nitem s (S x))) by (apply set_nitem_inv; [exact I|lia]).
    pose proof (send_nowait_inv (set_nitem s (S x)) h x I0 Hh Hsd (fresh_after_nitem s x I Hx)) as [I1 Hr].
    destruct (send_nowait (set_nitem s (S x)) h x) as [s1 r]. cbn [fst snd] in *.
    destruct r; cbn [ack]; try exact I1. apply add_acked_inv; assumption.
  - (* RecvNowait *)
    destruct (is_idle (phase_of s t)) eqn:Ei; cbn [negb orb fst]; [|exact I].
    destruct (valid_h s h SRecv) eqn:Ev; cbn [negb orb fst]; [|exact I].
    apply (recv_nowait_inv s h I).
  - (* Send *)
    destruct (is_idle (phase_of s t)) eqn:Ei; cbn [negb orb fst]; [|exact I].
    destruct (valid_h s h SSend) eqn:Ev; cbn [negb orb fst]; [|exact I].
    destruct (Nat.ltb_spec x (nitem s)) as [Hx|Hx]; cbn [fst]; [exact I|].
    apply valid_h_true in Ev. destruct Ev as [Hh Hsd]. apply is_idle_true in Ei.
    apply begin_send_inv; assumption.
  - (* Recv *)
    destruct (is_idle (phase_of s t)) eqn:Ei; cbn [negb orb fst]; [|exact I].
    destruct (valid_h s h SRecv) eqn:Ev; cbn [negb orb fst]; [|exact I].
    apply is_idle_true in Ei. apply begin_recv_inv; assumption.
  - (* Clone *)
    destruct (Nat.ltb_spec h (nh s)) as [Hh|Hh]; cbn [negb fst]; [|exact I].
    destruct (hclosed s h) eqn:Hc; cbn [fst]; [exact I|]. apply do_clone_inv; assumption.
  - (* Close *)
    destruct (Nat.ltb_spec h (nh s)) as [Hh|Hh]; cbn [negb fst]; [|exact I].
    destruct (hclosed s h) eqn:Hc; cbn [fst]; [exact I|]. apply do_close_inv; assumption.
  - (* Resume *)
    destruct (phase_of s t) as [|h x|e x|h|e] eqn:Ep; [exact I| | | |].
    + (* SendCk *)
      assert (If : Inv (finish s t)) by (apply finish_ck_inv; [exact I|rewrite Ep; reflexivity]).
      destruct (mustc s t); [exact If|].
      destruct (I_ckh s I t h x Ep) as [Hh Hsd].
      pose proof (send_nowait_inv (finish s t) h x If Hh Hsd (fresh_after_finish s t h x I Ep)) as [I1 Hr].
      destruct (send_nowait (finish s t) h x) as [s1 r]. cbn [fst snd] in *.
      destruct r; cbn [ack fst]; try exact I1.
      * apply add_acked_inv; assumption.
      * destruct Hr as (H1 & H2 & H3 & H4 & H5 & H6 & H7 & H8).
        apply enq_sender_inv; auto.
        -- rewrite H6. cbn. apply upd_same.
        -- rewrite H7. cbn. apply upd_same.
        -- rewrite H8. cbn. apply upd_same.
    + (* SendWait *)
      assert (Hdrop : fut s e <> FPending -> Inv (finish (drop_sender s e x) t)).
      { intros Hf. unfold drop_sender. destruct (has_key e (senders s)) eqn:Hk.
        - apply (finish_sw_present_inv s t e x I Ep Hf Hk).
        - apply (finish_sw_absent_inv s t e x I Ep Hf Hk). }
      destruct (fut s e) eqn:Ef; [exact I| |].
      * destruct (mustc s t); [apply Hdrop; discriminate|].
        destruct (has_key e (senders s)) eqn:Hk; [apply Hdrop; discriminate|].
        cbn [fst]. apply add_acked_inv.
        -- apply (finish_sw_absent_inv s t e x I Ep); [rewrite Ef; discriminate|exact Hk].
        -- cbn. destruct (I_sw s I t e x Ep) as [H|H]; [|exact H].
           apply in_has_key in H. congruence.
      * apply Hdrop; discriminate.
    + (* RecvCk *)
      assert (If : Inv (finish s t)) by (apply finish_ck_inv; [exact I|rewrite Ep; reflexivity]).
      destruct (mustc s t); [exact If|].
      pose proof (recv_nowait_inv (finish s t) h If) as [I1 Hr].
      destruct (recv_nowait (finish s t) h) as [s1 r]. cbn [fst snd] in *.
      destruct r; cbn [fst]; try exact I1.
      destruct Hr as (H1 & H2 & H3 & H6 & H7 & H8).
      apply enq_receiver_inv; auto.
      * rewrite H6. cbn. apply upd_same.
      * rewrite H7. cbn. apply upd_same.
      * rewrite H8. cbn. apply upd_same.
    + (* RecvWait *)
      assert (Hgen : fut s e <> FPending ->
                Inv (fst (let s1 := pop_receiver s e in
                          if is_cancelled (fut s e) || mustc s t then (finish (lose s1 e) t, RCancelled)
                          else match slot s e with
                               | Some x => (finish (give s1 e x) t, RItem x)
                               | None => (finish s1 t, REndOfStream)
                               end))).
      { intros Hf. cbn zeta.
        assert (I1 : Inv (pop_receiver s e)) by (apply (pop_receiver_inv s t e I Ep Hf)).
        assert (Hp1 : phase_of (pop_receiver s e) t = RecvWait e) by exact Ep.
        assert (Hf1 : fut (pop_receiver s e) e <> FPending) by exact Hf.
        assert (Hk1 : ~ In e (map fst (receivers (pop_receiver s e)))) by (cbn; apply del_key_gone, (I_rnd s I)).
        destruct (is_cancelled (fut s e) || mustc s t); cbn [fst].
        - unfold lose. cbn [slot pop_receiver set_receivers].
          destruct (slot s e) as [x|] eqn:Es.
          + apply (finish_rw_inv (pop_receiver s e) t e (del_key e (inflight s)) (returned s) (lost s ++ [x]) I1 Hp1 Hf1 Hk1);
              [|reflexivity]. cbn. rewrite Es. right. auto.
          + assert (Hd : inflight s = del_key e (inflight s)).
            { symmetry. apply del_key_absent. intros H. apply in_map_iff in H.
              destruct H as ([e0 x0] & E & H). cbn in E. subst e0. apply (I_infl s I) in H.
              destruct H as [H _]. congruence. }
            apply (finish_rw_inv (pop_receiver s e) t e (inflight s) (returned s) (lost s) I1 Hp1 Hf1 Hk1);
              [|exact Hd]. cbn. rewrite Es. auto.
        - destruct (slot s e) as [x|] eqn:Es; cbn [fst].
          + apply (finish_rw_inv (pop_receiver s e) t e (del_key e (inflight s)) (returned s ++ [x]) (lost s) I1 Hp1 Hf1 Hk1);
              [|reflexivity]. cbn. rewrite Es. left. auto.
          + assert (Hd : inflight s = del_key e (inflight s)).
            { symmetry. apply del_key_absent. intros H. apply in_map_iff in H.
              destruct H as ([e0 x0] & E & H). cbn in E. subst e0. apply (I_infl s I) in H.
              destruct H as [H _]. congruence. }
            apply (finish_rw_inv (pop_receiver s e) t e (inflight s) (returned s) (lost s) I1 Hp1 Hf1 Hk1);
              [|exact Hd]. cbn. rewrite Es. auto. }
      destruct (fut s e) eqn:Ef; [exact I| |]; apply Hgen; discriminate.
  - (* Cancel *)
    destruct (is_idle (phase_of s t)); cbn [fst]; [exact I|]. apply task_cancel_inv, I.
  - (* ScopeCancel *)
    destruct (is_idle (phase_of s t)); cbn [fst]; [exact I|].
    destruct (scopec s t); cbn [fst]; [exact I|]. apply scope_cancel_inv, I.
  - exact I.
Qed.

Theorem reachable_inv m ops : Inv (final step (init m) ops).
Proof. apply final_inv; [apply step_inv|apply inv_init]. Qed.
