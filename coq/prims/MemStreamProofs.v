(* Proofs about the MemStream machine: an inductive invariant for every op sequence.
   The C12 / C13 clauses derived from it are in MemStreamThms.v. *)
From AV Require Import Base MemStream.
From Coq Require Import Permutation.

(* ---------- subsequences (order-preserving sublists) ---------- *)
Inductive subseq {A} : list A -> list A -> Prop :=
| ss_nil : subseq [] []
| ss_skip x a b : subseq a b -> subseq a (x :: b)
| ss_take x a b : subseq a b -> subseq (x :: a) (x :: b).

Lemma subseq_refl {A} (l : list A) : subseq l l.
Proof. induction l; [apply ss_nil | apply ss_take; assumption]. Qed.

Lemma subseq_nil_l {A} (l : list A) : subseq [] l.
Proof. induction l; [apply ss_nil | apply ss_skip; assumption]. Qed.

Lemma subseq_trans {A} (a b c : list A) : subseq a b -> subseq b c -> subseq a c.
Proof.
  intros Hab Hbc. revert a Hab. induction Hbc as [|x b c Hbc IH|x b c Hbc IH]; intros a Hab.
  - exact Hab.
  - apply ss_skip. apply IH, Hab.
  - inversion Hab as [|y a' b' H1|y a' b' H1]; subst.
    + apply ss_skip. apply IH. exact H1.
    + apply ss_take. apply IH. exact H1.
Qed.

Lemma subseq_app_tail {A} (a b : list A) x : subseq a b -> subseq (a ++ [x]) (b ++ [x]).
Proof.
  induction 1 as [|y a b H IH|y a b H IH]; cbn.
  - apply ss_take, ss_nil.
  - apply ss_skip, IH.
  - apply ss_take, IH.
Qed.

Lemma subseq_app_skip {A} (a b : list A) x : subseq a b -> subseq a (b ++ [x]).
Proof.
  induction 1 as [|y a b H IH|y a b H IH]; cbn.
  - apply ss_skip, ss_nil.
  - apply ss_skip, IH.
  - apply ss_take, IH.
Qed.

Lemma subseq_suffix {A} (pre l : list A) : subseq l (pre ++ l).
Proof. induction pre; cbn; [apply subseq_refl|apply ss_skip; assumption]. Qed.

Lemma subseq_in {A} (a b : list A) x : subseq a b -> In x a -> In x b.
Proof.
  induction 1 as [|y a b Hs IH|y a b Hs IH]; cbn; intros Hin; auto.
  destruct Hin as [Hin|Hin]; auto.
Qed.

Lemma subseq_map {A B} (g : A -> B) a b : subseq a b -> subseq (map g a) (map g b).
Proof.
  induction 1 as [|y a b H IH|y a b H IH]; cbn;
    [apply ss_nil | apply ss_skip, IH | apply ss_take, IH].
Qed.

Lemma subseq_nodup {A} (a b : list A) : subseq a b -> NoDup b -> NoDup a.
Proof.
  induction 1 as [|x a b H IH|x a b H IH]; intros Hn; [constructor| |].
  - inversion Hn; auto.
  - inversion Hn as [|y l Hy Hl]; subst. constructor; [|auto].
    intros Hin. apply Hy. eapply subseq_in; eauto.
Qed.

Lemma subseq_app {A} (a b c d : list A) : subseq a b -> subseq c d -> subseq (a ++ c) (b ++ d).
Proof.
  induction 1 as [|y a b H IH|y a b H IH]; cbn; intros Hc.
  - exact Hc.
  - apply ss_skip, IH, Hc.
  - apply ss_take, IH, Hc.
Qed.

(* in a duplicate-free list, a subsequence keeps the relative order of any two of its elements *)
Inductive before {A} (x y : A) : list A -> Prop :=
| before_here l : In y l -> before x y (x :: l)
| before_later z l : before x y l -> before x y (z :: l).

Lemma before_in {A} (x y : A) l : before x y l -> In x l /\ In y l.
Proof. induction 1 as [l H|z l H [IH1 IH2]]; cbn; auto. Qed.

Lemma subseq_before {A} (a b : list A) x y : subseq a b -> before x y a -> before x y b.
Proof.
  induction 1 as [|z a b H IH|z a b H IH]; intros Hb.
  - inversion Hb.
  - apply before_later, IH, Hb.
  - inversion Hb as [l Hy|z' l Hb']; subst.
    + apply before_here. eapply subseq_in; eauto.
    + apply before_later, IH, Hb'.
Qed.

Lemma before_nodup_asym {A} (x y : A) l : NoDup l -> before x y l -> ~ before y x l.
Proof.
  intros Hn Hb. induction Hb as [l Hy|z l Hb IH]; intros Hc.
  - inversion Hn as [|? ? Hx Hl]; subst. inversion Hc as [l' Hx'|z' l' Hc']; subst.
    + contradiction.
    + apply before_in in Hc'. tauto.
  - inversion Hn as [|? ? Hz Hl]; subst. inversion Hc as [l' Hx'|z' l' Hc']; subst.
    + apply before_in in Hb. tauto.
    + exact (IH Hl Hc').
Qed.

(* ---------- association lists keyed by event ---------- *)
Lemma has_key_in {A} e (l : list (eid * A)) : has_key e l = true <-> In e (map fst l).
Proof.
  induction l as [|[k v] r IH]; cbn; [split; [discriminate|tauto]|].
  rewrite orb_true_iff, IH, Nat.eqb_eq. tauto.
Qed.

Lemma has_key_false {A} e (l : list (eid * A)) : has_key e l = false <-> ~ In e (map fst l).
Proof. rewrite <- has_key_in. destruct (has_key e l); split; congruence. Qed.

Lemma in_has_key {A} e (v : A) l : In (e, v) l -> has_key e l = true.
Proof. intros H. apply has_key_in. apply in_map_iff. exists (e, v). auto. Qed.

Lemma del_key_subseq {A} e (l : list (eid * A)) : subseq (del_key e l) l.
Proof.
  induction l as [|[k v] r IH]; cbn; [apply ss_nil|].
  destruct (Nat.eqb k e); [apply ss_skip, subseq_refl|apply ss_take, IH].
Qed.

Lemma del_key_in {A} e (l : list (eid * A)) p : In p (del_key e l) -> In p l.
Proof. apply subseq_in, del_key_subseq. Qed.

Lemma del_key_other {A} e (l : list (eid * A)) k v : In (k, v) l -> k <> e -> In (k, v) (del_key e l).
Proof.
  induction l as [|[k' v'] r IH]; cbn; [tauto|]. intros [H|H] Hne.
  - injection H as -> ->. destruct (Nat.eqb_spec k e); [contradiction|now left].
  - destruct (Nat.eqb k' e); [exact H|right; auto].
Qed.

Lemma del_key_gone {A} e (l : list (eid * A)) : NoDup (map fst l) -> ~ In e (map fst (del_key e l)).
Proof.
  induction l as [|[k v] r IH]; cbn; [tauto|]. intros Hn.
  inversion Hn as [|? ? Hk Hr]; subst.
  destruct (Nat.eqb_spec k e) as [->|Hne]; [exact Hk|].
  cbn. intros [H|H]; [contradiction|exact (IH Hr H)].
Qed.

Lemma del_key_absent {A} e (l : list (eid * A)) : ~ In e (map fst l) -> del_key e l = l.
Proof.
  induction l as [|[k v] r IH]; cbn; [reflexivity|]. intros H.
  destruct (Nat.eqb_spec k e) as [->|Hne]; [tauto|]. f_equal. apply IH. tauto.
Qed.

Lemma del_key_nodup {A} e (l : list (eid * A)) : NoDup (map fst l) -> NoDup (map fst (del_key e l)).
Proof. intros H. eapply subseq_nodup; [apply subseq_map, del_key_subseq|exact H]. Qed.

Lemma del_key_perm {A} e (x : A) l :
  NoDup (map fst l) -> In (e, x) l -> Permutation (map snd l) (x :: map snd (del_key e l)).
Proof.
  induction l as [|[k v] r IH]; cbn; [tauto|]. intros Hn Hin.
  inversion Hn as [|? ? Hk Hr]; subst.
  destruct Hin as [H|H].
  - injection H as -> ->. rewrite Nat.eqb_refl. apply Permutation_refl.
  - destruct (Nat.eqb_spec k e) as [->|Hne].
    + exfalso. apply Hk. apply in_map_iff. exists (e, x). auto.
    + cbn. eapply perm_trans; [apply perm_skip, (IH Hr H)|apply perm_swap].
Qed.

Lemma nodup_key_fun {A} (l : list (eid * A)) e v1 v2 :
  NoDup (map fst l) -> In (e, v1) l -> In (e, v2) l -> v1 = v2.
Proof.
  induction l as [|[k v] r IH]; cbn; [tauto|]. intros Hn H1 H2.
  inversion Hn as [|? ? Hk Hr]; subst.
  destruct H1 as [H1|H1], H2 as [H2|H2].
  - congruence.
  - injection H1 as -> ->. exfalso. apply Hk. apply in_map_iff. exists (e, v2). auto.
  - injection H2 as -> ->. exfalso. apply Hk. apply in_map_iff. exists (e, v1). auto.
  - eauto.
Qed.

Lemma mem_in e l : mem e l = true <-> In e l.
Proof.
  unfold mem. rewrite existsb_exists. split.
  - intros (x & H & E). apply Nat.eqb_eq in E. now subst.
  - intros H. exists e. split; [exact H|apply Nat.eqb_refl].
Qed.

Lemma set_keys_in f ks e : In e ks -> set_keys f ks e = ev_set (f e).
Proof. intros H. unfold set_keys. apply mem_in in H. now rewrite H. Qed.

Lemma set_keys_out f ks e : ~ In e ks -> set_keys f ks e = f e.
Proof.
  intros H. unfold set_keys. destruct (mem e ks) eqn:E; [|reflexivity].
  apply mem_in in E. contradiction.
Qed.

Lemma set_keys_not_pending_inv f ks e : set_keys f ks e = FPending -> f e = FPending /\ ~ In e ks.
Proof.
  unfold set_keys. destruct (mem e ks) eqn:E.
  - destruct (f e); cbn; discriminate.
  - intros H. split; [exact H|]. intros Hin. apply mem_in in Hin. congruence.
Qed.

Lemma ev_set_not_pending f : ev_set f <> FPending.
Proof. destruct f; cbn; discriminate. Qed.

Lemma NoDup_app_tail1 {A} (l : list A) x : NoDup l -> ~ In x l -> NoDup (l ++ [x]).
Proof.
  induction l as [|y l IH]; cbn; intros Hn Hx; [constructor; [tauto|constructor]|].
  inversion Hn as [|z l' Hy Hl]; subst. constructor.
  - intros H. apply in_app_or in H. destruct H as [H|[H|[]]]; [contradiction|]. subst. apply Hx. now left.
  - apply IH; [exact Hl|]. intros H. apply Hx. now right.
Qed.

(* ---------- counting open clones ---------- *)
Fixpoint count_open (sd : side) (hs : hid -> side) (hc : hid -> bool) (n : nat) : nat :=
  match n with
  | 0 => 0
  | S k => count_open sd hs hc k + (if side_eqb (hs k) sd && negb (hc k) then 1 else 0)
  end.

Lemma count_open_ext sd hs hc hs' hc' n :
  (forall h, h < n -> hs' h = hs h /\ hc' h = hc h) -> count_open sd hs' hc' n = count_open sd hs hc n.
Proof.
  induction n as [|k IH]; cbn; intros H; [reflexivity|].
  destruct (H k) as [-> ->]; [lia|]. rewrite IH; [reflexivity|]. intros h Hh. apply H. lia.
Qed.

Lemma count_open_close sd hs hc n h :
  h < n -> hc h = false -> hs h = sd ->
  S (count_open sd hs (upd hc h true) n) = count_open sd hs hc n.
Proof.
  induction n as [|k IH]; cbn; intros Hh Hc Hs; [lia|].
  destruct (Nat.eq_dec h k) as [->|Hne].
  - rewrite upd_same, Hc, Hs. cbn.
    replace (side_eqb sd sd) with true by (destruct sd; reflexivity). cbn.
    rewrite (count_open_ext sd hs hc hs (upd hc k true) k); [lia|].
    intros h' Hh'. split; [reflexivity|]. apply upd_other. lia.
  - rewrite (upd_other hc h true k) by auto. rewrite <- IH by (auto; lia). lia.
Qed.

Lemma count_open_close_other sd hs hc n h :
  hs h <> sd -> count_open sd hs (upd hc h true) n = count_open sd hs hc n.
Proof.
  intros Hs. induction n as [|k IH]; cbn; [reflexivity|]. rewrite IH. f_equal.
  destruct (Nat.eq_dec k h) as [->|Hne].
  - destruct (side_eqb (hs h) sd) eqn:E; [|reflexivity].
    exfalso. apply Hs. destruct (hs h), sd; cbn in E; congruence.
  - now rewrite upd_other by assumption.
Qed.

Lemma count_open_zero sd hs hc n :
  count_open sd hs hc n = 0 -> forall h, h < n -> hs h = sd -> hc h = true.
Proof.
  induction n as [|k IH]; cbn; intros H h Hh Hs; [lia|].
  destruct (Nat.eq_dec h k) as [->|Hne].
  - rewrite Hs in H. replace (side_eqb sd sd) with true in H by (destruct sd; reflexivity).
    destruct (hc k); [reflexivity|cbn in H; lia].
  - apply IH; [lia|lia|exact Hs].
Qed.

Lemma side_eqb_eq a b : side_eqb a b = true <-> a = b.
Proof. destruct a, b; cbn; split; congruence. Qed.

(* ---------- characterisation of the pop loop of send_nowait ---------- *)
Lemma pop_live_spec s rs :
  match pop_live s rs with
  | (Some (e, t), rest) =>
      exists pre, rs = pre ++ (e, t) :: rest /\ has_pending s t = false /\
                  (forall e' t', In (e', t') pre -> has_pending s t' = true)
  | (None, rest) => rest = [] /\ (forall e' t', In (e', t') rs -> has_pending s t' = true)
  end.
Proof.
  induction rs as [|[e t] r IH]; cbn.
  - split; [reflexivity|]. intros ? ? [].
  - destruct (has_pending s t) eqn:Ep.
    + destruct (pop_live s r) as [[[e0 t0]|] rest].
      * destruct IH as (pre & E & Hn & Hp). exists ((e, t) :: pre). subst r. cbn.
        refine (conj eq_refl (conj Hn _)). intros e' t' [H|H]; [congruence|eauto].
      * destruct IH as (E & Hp). split; [exact E|]. intros e' t' [H|H]; [congruence|eauto].
    + exists []. cbn. refine (conj eq_refl (conj Ep _)). intros ? ? [].
Qed.

(* ---------- the invariant ---------- *)
Definition finished (s : st) : Prop := open_send s = 0 /\ buffer s = [] /\ senders s = [].

Record Inv (s : st) : Prop := {
  (* events and phases *)
  I_nev : forall t e, wait_ev (phase_of s t) = Some e -> e < nev s;
  I_inj : forall t1 t2 e, wait_ev (phase_of s t1) = Some e -> wait_ev (phase_of s t2) = Some e -> t1 = t2;
  I_rk : forall e t, In (e, t) (receivers s) -> phase_of s t = RecvWait e;
  I_sk : forall e x, In (e, x) (senders s) -> exists t, phase_of s t = SendWait e x;
  I_rnd : NoDup (map fst (receivers s));
  I_snd : NoDup (map fst (senders s));
  I_rpend : forall t e, phase_of s t = RecvWait e -> fut s e = FPending -> In (e, t) (receivers s);
  I_spend : forall t e x, phase_of s t = SendWait e x -> fut s e = FPending -> In (e, x) (senders s);
  I_quiet : forall t e, wait_ev (phase_of s t) = Some e -> fut s e = FPending ->
                        mustc s t = false /\ scopec s t = false;
  I_rslot : forall e t, In (e, t) (receivers s) -> slot s e = None;
  (* handles *)
  I_cs : open_send s = count_open SSend (hside s) (hclosed s) (nh s);
  I_cr : open_recv s = count_open SRecv (hside s) (hclosed s) (nh s);
  I_ckh : forall t h x, phase_of s t = SendCk h x -> valid_h s h SSend = true;
  (* data *)
  I_j1 : receivers s <> [] -> buffer s = [] /\ senders s = [];
  I_j2 : senders s <> [] -> xlt (length (buffer s)) (maxb s) = false;
  I_bound : xle (length (buffer s)) (maxb s);
  I_perm1 : Permutation (entered s) (handed s ++ buffer s ++ map snd (senders s) ++ withdrawn s);
  I_perm2 : Permutation (handed s) (returned s ++ map snd (inflight s) ++ lost s);
  I_sub : subseq (handed s ++ buffer s ++ map snd (senders s)) (entered s);
  I_nd : NoDup (entered s);
  I_fresh : forall x, In x (entered s) -> x < nitem s;
  I_ck : forall t h x, phase_of s t = SendCk h x -> x < nitem s /\ ~ In x (entered s);
  I_ckinj : forall t1 t2 h1 h2 x, phase_of s t1 = SendCk h1 x -> phase_of s t2 = SendCk h2 x -> t1 = t2;
  I_sw : forall t e x, phase_of s t = SendWait e x -> In (e, x) (senders s) \/ In x (handed s ++ buffer s);
  I_ack : forall x, In x (acked s) -> In x (handed s ++ buffer s);
  I_infl : forall e x, In (e, x) (inflight s) <-> (slot s e = Some x /\ exists t, phase_of s t = RecvWait e);
  I_inflnd : NoDup (map fst (inflight s));
  I_filled : forall t e x, phase_of s t = RecvWait e -> slot s e = Some x -> fut s e = FSet;
  I_senq : subseq (map fst (senders s)) (senq s);
  I_renq : subseq (map fst (receivers s)) (renq s);
  (* closing *)
  I_eos : forall t e, phase_of s t = RecvWait e -> fut s e = FSet -> slot s e = None -> finished s;
  I_brk : forall e x, In (e, x) (senders s) -> fut s e = FSet -> open_recv s = 0;
  I_wr : open_send s = 0 -> forall t e, phase_of s t = RecvWait e -> fut s e <> FPending;
  I_ws : open_recv s = 0 -> forall t e x, phase_of s t = SendWait e x -> fut s e <> FPending
}.

Lemma inv_init m : Inv (init m).
Proof.
  constructor; cbn; try (intros; discriminate); try (intros; contradiction); try (now constructor);
    try (intros; tauto).
  destruct m; cbn; lia.
Qed.
