(* P/LockEntry: the Lock machine of Lock.v extended with acquire() calls made from an already effectively cancelled
   scope (finding F53).  Such a call sits in checkpoint_if_cancelled() - suspended in its sleep(0), phase `spin` - until
   either the cancellation is delivered (SpinCancel: the call raises) or the check RETURNS after the yield because the
   cancelled scope stopped being visible meanwhile (SpinReturn: a shield was raised in between, F46) and acquire() goes on
   as an ordinary call.  Between EnterCancelled and SpinReturn other tasks act on the lock.
   `pinned = false` is HEAD (c2fb7fb): the check is the first statement, nothing has been read when it yields, and
   what follows its return is the whole ordinary acquire - test and take in ONE step (Lock.step .. (AcqBegin t)).
   `pinned = true` is the order before the fix (test free?, check, take): a call that found the lock free is committed
   when the check yields and takes the lock without looking again when it returns.
   All other ops are those of Lock.v, unchanged; for a spinning task only a native Task.cancel() (sets `_must_cancel`)
   and its own step are enabled (QA audit: formerly every op of a spinning task was refused).  Definitions only. *)
From AV Require Import Base Lock.

Record est := emk {
  lock : Lock.st;
  spin : tid -> bool;            (* inside acquire(), suspended in checkpoint_if_cancelled() *)
  committed : tid -> bool;       (* pinned only: passed the `free?` test before the check *)
  ckmust : tid -> bool           (* Task._must_cancel of a spinning task (a native Task.cancel() reached it at its sleep(0)) *)
}.

Inductive eop :=
| L (o : Lock.op)
| EnterCancelled (t : tid)       (* t calls `await lock.acquire()` in an already effectively cancelled scope *)
| SpinCancel (t : tid)           (* the cancellation is delivered: the call raises *)
| SpinReturn (t : tid).          (* the check returns normally after its yield *)

Definition einit (fa : bool) : est := emk (Lock.init fa) (fun _ => false) (fun _ => false) (fun _ => false).

(* the spinning call of t is over: every flag of it is cleared *)
Definition unspin (s : est) (l : Lock.st) (t : tid) : est :=
  emk l (upd (spin s) t false) (upd (committed s) t false) (upd (ckmust s) t false).

Definition op_tid (o : Lock.op) : tid :=
  match o with AcqBegin t | AcqNowait t | Release t | Resume t | Cancel t => t end.

(* the old order after the yield: `self._owner_task = task`, then the fast-path tail, without looking again *)
Definition take_blind (l : Lock.st) (t : tid) : Lock.st * res :=
  let l1 := Lock.mk (fast l) (Some t) (waiters l) (futs l) (nfut l) (phase_of l) (mustc l) (held l) (enq l) in
  if fast l then (add_held l1 t, RDone) else (set_phase l1 t FastYield, RBlocked).

Definition estep (pinned : bool) (s : est) (o : eop) : est * res :=
  match o with
  | L o =>
      if spin s (op_tid o) then
        (* what can be done TO a task that sits in its entry check: a native Task.cancel() (sleep(0) has no waiter future:
           `_must_cancel` is set) and its step (raises with `_must_cancel`, otherwise the check finds the cancellation still
           pending and yields again); everything else is not enabled *)
        match o with
        | Cancel t => (emk (lock s) (spin s) (committed s) (upd (ckmust s) t true), RNone)
        | Resume t => if ckmust s t then (unspin s (lock s) t, RCancelled) else (s, RBlocked)
        | _ => (s, RRejected)
        end
      else
      let '(l', r) := Lock.step (lock s) o in (emk l' (spin s) (committed s) (ckmust s), r)
  | EnterCancelled t =>
      if spin s t || negb (is_idle (phase_of (lock s) t)) then (s, RRejected) else
      if pinned then
        match owner (lock s), waiters (lock s) with
        | None, [] => (emk (lock s) (upd (spin s) t true) (upd (committed s) t true) (ckmust s), RBlocked)
        | _, _ =>
            (* the old contended path had no check at all: the call proceeds as in a live scope *)
            let '(l', r) := Lock.step (lock s) (AcqBegin t) in (emk l' (spin s) (committed s) (ckmust s), r)
        end
      else (emk (lock s) (upd (spin s) t true) (committed s) (ckmust s), RBlocked)
  | SpinCancel t =>
      if spin s t then (unspin s (lock s) t, RCancelled)
      else (s, RRejected)
  | SpinReturn t =>
      if negb (spin s t) then (s, RRejected) else
      if ckmust s t then (unspin s (lock s) t, RCancelled) else      (* the step raises at the sleep(0) instead *)
      let '(l', r) := if committed s t then take_blind (lock s) t else Lock.step (lock s) (AcqBegin t) in
      (unspin s l' t, r)
  end.

(* ---- codec: the codes of Lock.v (0-4) plus 7 EnterCancelled, 8 SpinCancel, 9 SpinReturn ---- *)
Definition decode_eop (c t : Z) : eop :=
  match c with
  | 7 => EnterCancelled (zn t) | 8 => SpinCancel (zn t) | 9 => SpinReturn (zn t)
  | _ => L (Lock.decode_op c t)
  end%Z.

Fixpoint decode_eops (l : list Z) : list eop :=
  match l with
  | c :: t :: r => decode_eop c t :: decode_eops r
  | _ => []
  end.

Fixpoint run_eobs (s : est) (ops : list eop) : list Z :=
  match ops with
  | [] => []
  | o :: r => let '(s1, out) := estep false s o in Lock.observe (lock s1) out ++ run_eobs s1 r
  end.

(* case = fast_acquire :: flat ops; observation per step as in Lock.v: [result; locked; owner; waiters] *)
Definition run_case (c : list Z) : list Z :=
  match c with
  | fa :: r => run_eobs (einit (zb fa)) (decode_eops r)
  | [] => []
  end.
