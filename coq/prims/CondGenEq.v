(* Tie T for C11: interpreting the segments regenerated from /repo's source (CondGen.v) is what the hand-written
   models EventCond.estep (Event) and EventCond.cstep at variant 0 = HEAD (Condition) do. *)
From AV Require Import Base Lock LockProofs EventCond EventCondProofs EventCondThms CondImp CondGen.

(* ====================================== Event ====================================== *)
(* the kernel side of a wake-up of task t: asyncio.Event.wait()'s `finally: self._waiters.remove(fut)` for a task
   that waited on future f, phase EIdle, Task._must_cancel consumed *)
Definition ewoken (s : est) (t : tid) : est :=
  match ephase_of s t with
  | EWaiting f => emk (eflag s) (remove_first f (ewaiters s)) (efuts s) (enfut s) (upd (ephase_of s) t EIdle)
                      (upd (emustc s) t false) (esets s)
  | _ => emk (eflag s) (ewaiters s) (efuts s) (enfut s) (upd (ephase_of s) t EIdle) (upd (emustc s) t false) (esets s)
  end.

Definition eres (o : outcome) : res := match res_of o with Some r => r | None => RRejected end.

Theorem tie_event_set s t : ephase_of s t = EIdle ->
  estep s (EvSet t) = (fst (eexec ev_set_entry t None s), eres (snd (eexec ev_set_entry t None s))).
Proof.
  intros Hp. cbn [estep]. rewrite Hp. cbn. destruct (eflag s); reflexivity.
Qed.

Theorem tie_event_wait_entry s t : ephase_of s t = EIdle ->
  estep s (EvWait t) = (fst (eexec ev_wait_entry t None s), eres (snd (eexec ev_wait_entry t None s))).
Proof.
  intros Hp. cbn [estep]. rewrite Hp. cbn. destruct (eflag s); reflexivity.
Qed.

(* wake-up from the plain checkpoint: raises iff Task._must_cancel *)
Theorem tie_event_wait_checkpoint s t : ephase_of s t = EYield ->
  estep s (EvResume t) =
  (if emustc s t
   then (fst (eexec ev_wait_checkpoint_cancelled t (Some ECancelled) (ewoken s t)),
         eres (snd (eexec ev_wait_checkpoint_cancelled t (Some ECancelled) (ewoken s t))))
   else (fst (eexec ev_wait_checkpoint_resumed t None (ewoken s t)),
         eres (snd (eexec ev_wait_checkpoint_resumed t None (ewoken s t))))).
Proof.
  intros Hp. cbn [estep]. unfold ewoken. rewrite Hp. destruct (emustc s t); reflexivity.
Qed.

(* wake-up from asyncio.Event.wait(): raises iff the future was cancelled or it was resolved and _must_cancel is set *)
Theorem tie_event_wait_inner s t f : ephase_of s t = EWaiting f -> efuts s f <> FPending ->
  estep s (EvResume t) =
  (if match efuts s f with FSet => emustc s t | _ => true end
   then (fst (eexec ev_wait_inner_cancelled t (Some ECancelled) (ewoken s t)),
         eres (snd (eexec ev_wait_inner_cancelled t (Some ECancelled) (ewoken s t))))
   else (fst (eexec ev_wait_inner_resumed t None (ewoken s t)),
         eres (snd (eexec ev_wait_inner_resumed t None (ewoken s t))))).
Proof.
  intros Hp Hf. cbn [estep]. unfold ewoken. rewrite Hp.
  destruct (efuts s f); [contradiction| |]; [destruct (emustc s t)|]; reflexivity.
Qed.

Theorem tie_event_is_set s : eeval ev_is_set_cond s = Some (eflag s).
Proof. reflexivity. Qed.

(* the machine that runs Event's generated segments is the model *)
Definition egstep (P : eprog) (s : est) (o : eop) : est * res :=
  match o with
  | EvSet t =>
      if negb (e_is_idle (ephase_of s t)) then (s, RRejected)
      else (fst (eexec (q_set P) t None s), eres (snd (eexec (q_set P) t None s)))
  | EvWait t =>
      if negb (e_is_idle (ephase_of s t)) then (s, RRejected)
      else (fst (eexec (q_wait_entry P) t None s), eres (snd (eexec (q_wait_entry P) t None s)))
  | EvResume t =>
      match ephase_of s t with
      | EIdle => (s, RRejected)
      | EYield =>
          let p := if emustc s t then q_wait_checkpoint_cancelled P else q_wait_checkpoint_resumed P in
          let x := if emustc s t then Some ECancelled else None in
          (fst (eexec p t x (ewoken s t)), eres (snd (eexec p t x (ewoken s t))))
      | EWaiting f =>
          match efuts s f with
          | FPending => (s, RRejected)
          | fs =>
              let c := match fs with FSet => emustc s t | _ => true end in
              let p := if c then q_wait_inner_cancelled P else q_wait_inner_resumed P in
              let x := if c then Some ECancelled else None in
              (fst (eexec p t x (ewoken s t)), eres (snd (eexec p t x (ewoken s t))))
          end
      end
  | _ => estep s o      (* Task.cancel() / scope cancellation: asyncio, environment *)
  end.

Theorem egstep_eq_estep s o : egstep event_prog s o = estep s o.
Proof.
  destruct o as [t|t|t|t|t]; cbn [egstep event_prog q_set q_wait_entry q_wait_checkpoint_resumed
    q_wait_checkpoint_cancelled q_wait_inner_resumed q_wait_inner_cancelled]; try reflexivity.
  - destruct (ephase_of s t) eqn:Hp; cbn [e_is_idle negb]; [|cbn [estep]; rewrite Hp; reflexivity..].
    symmetry. now apply tie_event_wait_entry.
  - destruct (ephase_of s t) eqn:Hp; cbn [e_is_idle negb]; [|cbn [estep]; rewrite Hp; reflexivity..].
    symmetry. now apply tie_event_set.
  - destruct (ephase_of s t) as [| |f] eqn:Hp.
    + cbn [estep]. rewrite Hp. reflexivity.
    + rewrite (tie_event_wait_checkpoint s t Hp). destruct (emustc s t); reflexivity.
    + destruct (efuts s f) eqn:Hf.
      * cbn [estep]. rewrite Hp, Hf. reflexivity.
      * rewrite (tie_event_wait_inner s t f Hp); [|rewrite Hf; discriminate]. rewrite Hf.
        destruct (emustc s t); reflexivity.
      * rewrite (tie_event_wait_inner s t f Hp); [|rewrite Hf; discriminate]. rewrite Hf. reflexivity.
Qed.

(* ====================================== Condition ====================================== *)
Definition sim (s : cst) (c : cid) (k : cheap) : Prop :=
  lk s = k_lk k /\ cwaiters s c = k_cw k /\ (forall e, eset s e = k_eset k e) /\
  (forall e, efut s e = k_efut k e) /\ nev s = k_nev k.

Definition frame (s s' : cst) (c : cid) : Prop :=
  (forall c', c' <> c -> cwaiters s' c' = cwaiters s c') /\ variant s' = variant s.

Lemma shows_iff s s' c k : shows s s' c k <-> sim s' c k /\ frame s s' c.
Proof. unfold shows, sim, frame. tauto. Qed.

Lemma sim_vis s c : sim s c (vis s c).
Proof. repeat split. Qed.

Lemma frame_refl s c : frame s s c.
Proof. split; auto. Qed.

Lemma frame_trans a b d c : frame a b c -> frame b d c -> frame a d c.
Proof. intros [H1 H2] [H3 H4]. split; [intros c' Hc; rewrite H3, H1; auto | congruence]. Qed.

Lemma list_eqb_refl l : list_eqb l l = true.
Proof. induction l; cbn; [reflexivity|]. now rewrite Nat.eqb_refl. Qed.

Lemma do_set_sim s c k e hz : sim s c k -> sim (do_set s e hz) c (hset k e).
Proof.
  intros (H1 & H2 & H3 & H4 & H5). unfold do_set, hset. rewrite <- (H3 e).
  destruct (eset s e); [repeat split; assumption|].
  refine (conj H1 (conj H2 (conj _ (conj _ H5)))); cbn.
  - intros e'. unfold upd. destruct (Nat.eqb e' e); [reflexivity | apply H3].
  - intros e'. rewrite <- (H4 e). destruct (efut s e); try apply H4.
    unfold upd. destruct (Nat.eqb e' e); [reflexivity | apply H4].
Qed.

Lemma do_set_frame s c e hz : frame s (do_set s e hz) c.
Proof. unfold do_set. destruct (eset s e); split; auto. Qed.

Lemma with_cw_sim s c k w : sim s c k -> sim (with_cw s c w) c (set_cw k w).
Proof.
  intros (H1 & H2 & H3 & H4 & H5). refine (conj H1 (conj _ (conj H3 (conj H4 H5)))). cbn. apply upd_same.
Qed.

Lemma with_cw_frame s c w : frame s (with_cw s c w) c.
Proof. split; [|reflexivity]. intros c' Hc. cbn. now apply upd_other. Qed.

Ltac fin_runs := repeat split; intros; try reflexivity; auto; try congruence.

(* ---- the three delegations to the lock ---- *)
Theorem tie_cond_release s c t : cphase_of s t = PIdle -> phase_of (lk s) t = Idle ->
  runs s (fst (cstep s (CRelease c t))) (snd (cstep s (CRelease c t))) c t cond_release_entry (loc_entry 0).
Proof.
  intros Hp Hl. cbn [cstep]. rewrite Hp. cbn [c_is_idle negb].
  unfold runs, cond_release_entry. cbn [exec]. unfold lock_call. cbn [vis k_lk].
  destruct (Lock.step (lk s) (Release t)) as [l' r] eqn:E.
  cbn [Lock.step] in E. rewrite Hl in E. cbn in E.
  destruct (tid_eqb_opt (owner (lk s)) t); inversion E; subst; cbn; fin_runs.
Qed.

Theorem tie_cond_acquire_nowait s c t : cphase_of s t = PIdle -> phase_of (lk s) t = Idle ->
  runs s (fst (cstep s (CAcqNowait c t))) (snd (cstep s (CAcqNowait c t))) c t cond_acquire_nowait_entry (loc_entry 0).
Proof.
  intros Hp Hl. cbn [cstep]. rewrite Hp. cbn [c_is_idle negb].
  unfold runs, cond_acquire_nowait_entry, acquire_begin. cbn [exec]. unfold lock_call. cbn [vis k_lk].
  destruct (Lock.step (lk s) (AcqNowait t)) as [l' r] eqn:E.
  cbn [Lock.step] in E. rewrite Hl in E. cbn in E.
  destruct (owner (lk s)) as [x|]; [|destruct (waiters (lk s))]; cbn in E;
    try destruct (Nat.eqb x t); inversion E; subst; cbn; fin_runs.
Qed.

Theorem tie_cond_acquire_entry s c t : cphase_of s t = PIdle -> phase_of (lk s) t = Idle ->
  runs s (fst (cstep s (CAcquire c t))) (snd (cstep s (CAcquire c t))) c t cond_acquire_entry (loc_entry 0).
Proof.
  intros Hp Hl. cbn [cstep]. rewrite Hp. cbn [c_is_idle negb].
  unfold runs, cond_acquire_entry, acquire_begin. cbn [exec]. unfold lock_call. cbn [vis k_lk].
  destruct (Lock.step (lk s) (AcqBegin t)) as [l' r] eqn:E.
  cbn [Lock.step] in E. rewrite Hl in E. cbn in E.
  destruct (owner (lk s)) as [x|]; [|destruct (waiters (lk s)); [destruct (fast (lk s))|]]; cbn in E;
    try destruct (Nat.eqb x t); inversion E; subst; cbn; fin_runs; rewrite upd_same || (rewrite upd_other by auto); reflexivity.
Qed.

(* ghost setters do not change what the code sees *)
Lemma sim_ghost s s' c k :
  lk s' = lk s -> cwaiters s' = cwaiters s -> eset s' = eset s -> efut s' = efut s -> nev s' = nev s ->
  sim s c k -> sim s' c k.
Proof. unfold sim. intros -> -> -> -> ->. auto. Qed.

Lemma frame_ghost s0 s s' c :
  cwaiters s' = cwaiters s -> variant s' = variant s -> frame s0 s c -> frame s0 s' c.
Proof. unfold frame. intros -> ->. auto. Qed.

(* ---- notify(n): the for-range loop is EventCond.notify_loop ---- *)
Lemma notify_loop_sim c hz (run : loc -> cheap -> result) :
  (forall l k, exists l', run l k = match k_cw k with
                                    | [] => (l', k, OBreak)
                                    | e :: r => (l', hset (set_cw k r) e, ONext)
                                    end) ->
  forall n s k l, sim s c k ->
  exists l' k', for_range run n l k = (l', k', ONext) /\ sim (notify_loop n c hz s) c k' /\
                frame s (notify_loop n c hz s) c.
Proof.
  intros Hrun. induction n as [|n IH]; intros s k l Hs.
  - exists l, k. cbn. auto using frame_refl.
  - cbn [for_range notify_loop]. destruct (Hrun l k) as (l1 & Hr). rewrite Hr. clear Hr.
    destruct Hs as (H1 & H2 & H3 & H4 & H5). rewrite H2.
    destruct (k_cw k) as [|e r] eqn:Ek.
    + exists l1, k. refine (conj eq_refl (conj _ (frame_refl _ _))). repeat split; auto. congruence.
    + set (s1 := do_set (with_cw s c r) e hz).
      assert (Hs1 : sim s1 c (hset (set_cw k r) e)).
      { apply do_set_sim, with_cw_sim. repeat split; auto. congruence. }
      assert (Hf1 : frame s s1 c).
      { eapply frame_trans; [apply with_cw_frame | apply do_set_frame]. }
      match goal with |- context [notify_loop n c hz ?s2] =>
        destruct (IH s2 (hset (set_cw k r) e) l1) as (l2 & k2 & Hex & Hs2 & Hf2);
        [ eapply sim_ghost; [..|exact Hs1]; reflexivity |] end.
      exists l2, k2. refine (conj Hex (conj Hs2 _)).
      eapply frame_trans; [|exact Hf2]. eapply frame_ghost; [..|exact Hf1]; reflexivity.
Qed.

Lemma exec_call_check t l k :
  exec (SCall cond_check_acquired_entry) t l k =
  if tid_eqb_opt (owner (k_lk k)) t then (touch l, k, ONext) else (touch l, k, ORaise ERuntime).
Proof. unfold cond_check_acquired_entry. cbn. destruct (tid_eqb_opt (owner (k_lk k)) t); reflexivity. Qed.

Lemma exec_seq a b t l k :
  exec (SSeq a b) t l k =
  let '(l1, k1, o) := exec a t l k in match o with ONext => exec b t l1 k1 | _ => (l1, k1, o) end.
Proof. reflexivity. Qed.

Lemma do_set_phase s e hz : cphase_of (do_set s e hz) = cphase_of s.
Proof. unfold do_set. destruct (eset s e); reflexivity. Qed.

Lemma notify_loop_phase c hz : forall n s, cphase_of (notify_loop n c hz s) = cphase_of s.
Proof.
  induction n as [|n IH]; intros s; cbn [notify_loop]; [reflexivity|].
  destruct (cwaiters s c) as [|e r]; [reflexivity|]. rewrite IH. cbn. now rewrite do_set_phase.
Qed.

Theorem tie_cond_notify s c t n : variant s = 0 -> cphase_of s t = PIdle ->
  runs s (fst (cstep s (CNotify c t n))) (snd (cstep s (CNotify c t n))) c t cond_notify_entry (loc_entry n).
Proof.
  intros Hv Hp. cbn [cstep]. rewrite Hp. cbn [c_is_idle negb].
  unfold holder_check. rewrite Hv. unfold runs, cond_notify_entry.
  rewrite exec_seq, exec_call_check. cbn [vis k_lk].
  destruct (tid_eqb_opt (owner (lk s)) t); [|cbn; fin_runs].
  cbn [exec]. unfold do_notify.
  match goal with |- context [for_range ?rn ?n0 ?l0 ?k0] =>
    destruct (notify_loop_sim c (nev s) rn) with (n := n0) (s := with_nlog s (nlog s ++ [nev s])) (k := k0) (l := l0)
      as (l' & k' & Hex & Hs & Hf) end.
  - intros l k. cbn. destruct (k_cw k) eqn:Ek; cbn; rewrite ?Ek; cbn; eexists; reflexivity.
  - apply (sim_ghost s); try reflexivity. apply sim_vis.
  - cbn [l_n loc_entry touch] in *. rewrite Hex. cbn [fst snd].
    refine (conj _ (conj eq_refl (conj _ _))).
    + apply shows_iff. split; [exact Hs|]. eapply frame_ghost in Hf; [exact Hf|..]; reflexivity.
    + rewrite notify_loop_phase. cbn. now rewrite Hp.
    + intros t' _. now rewrite notify_loop_phase.
Qed.

(* ---- notify_all(): `for event in self._waiters: event.set()` then `clear()` is notify_loop over the whole queue ---- *)
Definition simx (s : cst) (k : cheap) : Prop :=
  lk s = k_lk k /\ (forall e, eset s e = k_eset k e) /\ (forall e, efut s e = k_efut k e) /\ nev s = k_nev k.

Lemma hset_cw k e : k_cw (hset k e) = k_cw k.
Proof. unfold hset. destruct (k_eset k e); reflexivity. Qed.

Lemma do_set_simx s k e hz : simx s k -> simx (do_set s e hz) (hset k e).
Proof.
  intros (H1 & H3 & H4 & H5). unfold do_set, hset. rewrite <- (H3 e).
  destruct (eset s e); [repeat split; assumption|].
  refine (conj H1 (conj _ (conj _ H5))); cbn.
  - intros e'. unfold upd. destruct (Nat.eqb e' e); [reflexivity | apply H3].
  - intros e'. rewrite <- (H4 e). destruct (efut s e); try apply H4.
    unfold upd. destruct (Nat.eqb e' e); [reflexivity | apply H4].
Qed.

Lemma do_set_cw s e hz : cwaiters (do_set s e hz) = cwaiters s.
Proof. unfold do_set. destruct (eset s e); reflexivity. Qed.

Lemma notify_all_sim c hz (run : loc -> cheap -> result) :
  (forall l k e, exists l', run (with_ev l e) k = (l', hset k e, ONext)) ->
  forall ws s k l, cwaiters s c = ws -> simx s k ->
  exists l' k', for_each run ws l k = (l', k', ONext) /\ k_cw k' = k_cw k /\
                simx (notify_loop (length ws) c hz s) k' /\ cwaiters (notify_loop (length ws) c hz s) c = [] /\
                frame s (notify_loop (length ws) c hz s) c.
Proof.
  intros Hrun. induction ws as [|e r IH]; intros s k l Hw Hs.
  - exists l, k. cbn. auto using frame_refl.
  - cbn [for_each notify_loop length]. rewrite Hw.
    destruct (Hrun l k e) as (l1 & Hr). rewrite Hr. clear Hr.
    rewrite hset_cw, list_eqb_refl.
    set (s1 := do_set (with_cw s c r) e hz).
    match goal with |- context [notify_loop (length r) c hz ?s2] =>
      destruct (IH s2 (hset k e) l1) as (l2 & k2 & Hex & Hcw & Hs2 & He2 & Hf2) end.
    + cbn. unfold s1. rewrite do_set_cw. cbn. apply upd_same.
    + assert (Hx : simx s1 (hset k e)).
      { apply do_set_simx. destruct Hs as (H1 & H3 & H4 & H5). repeat split; assumption. }
      exact Hx.
    + exists l2, k2. rewrite Hcw, hset_cw. refine (conj Hex (conj eq_refl (conj Hs2 (conj He2 _)))).
      eapply frame_trans; [|exact Hf2].
      eapply frame_ghost with (s := s1); [reflexivity | reflexivity |].
      eapply frame_trans; [apply with_cw_frame | apply do_set_frame].
Qed.

Theorem tie_cond_notify_all s c t : variant s = 0 -> cphase_of s t = PIdle ->
  runs s (fst (cstep s (CNotifyAll c t))) (snd (cstep s (CNotifyAll c t))) c t cond_notify_all_entry (loc_entry 0).
Proof.
  intros Hv Hp. cbn [cstep]. rewrite Hp. cbn [c_is_idle negb].
  unfold holder_check. rewrite Hv. unfold runs, cond_notify_all_entry.
  rewrite exec_seq, exec_call_check. cbn [vis k_lk].
  destruct (tid_eqb_opt (owner (lk s)) t); [|cbn; fin_runs].
  rewrite exec_seq. cbn [exec]. unfold do_notify.
  match goal with |- context [for_each ?rn ?ws0 ?l0 ?k0] =>
    destruct (notify_all_sim c (nev s) rn) with (ws := ws0) (s := with_nlog s (nlog s ++ [nev s])) (k := k0) (l := l0)
      as (l' & k' & Hex & Hcw & Hs & He & Hf) end.
  - intros l k e. cbn. eexists. reflexivity.
  - reflexivity.
  - repeat split.
  - cbn [k_cw] in *. rewrite Hex. cbn [fst snd].
    destruct Hs as (H1 & H3 & H4 & H5).
    refine (conj _ (conj eq_refl (conj _ _))).
    + refine (conj H1 (conj _ (conj H3 (conj H4 (conj H5 _))))); cbn.
      * exact He.
      * eapply frame_ghost in Hf; [exact Hf|..]; reflexivity.
    + rewrite notify_loop_phase. cbn. now rewrite Hp.
    + intros t' _. now rewrite notify_loop_phase.
Qed.

Lemma lock_release_idle l t : phase_of l t = Idle ->
  Lock.step l (Release t) = if tid_eqb_opt (owner l) t then (do_release l t, RDone) else (l, RRuntime).
Proof. intros H. cbn [Lock.step]. rewrite H. reflexivity. Qed.

(* ---- wait(): up to `await event.wait()` ---- *)
Theorem tie_cond_wait_entry s c t : variant s = 0 -> cphase_of s t = PIdle -> phase_of (lk s) t = Idle ->
  runs s (fst (cstep s (CWait c t))) (snd (cstep s (CWait c t))) c t cond_wait_entry (loc_entry 0).
Proof.
  intros Hv Hp Hl. cbn [cstep]. rewrite Hp. cbn [c_is_idle negb].
  unfold holder_check. rewrite Hv. unfold runs, cond_wait_entry, cond_check_acquired_entry, cond_release_entry.
  rewrite (lock_release_idle _ _ Hl).
  cbn -[Lock.step upd tid_eqb_opt].
  destruct (tid_eqb_opt (owner (lk s)) t) eqn:Ho; cbn -[Lock.step upd tid_eqb_opt]; [|fin_runs].
  unfold lock_call. cbn -[Lock.step upd tid_eqb_opt]. rewrite (lock_release_idle _ _ Hl), Ho.
  unfold touch, with_ev, loc_entry, set_lk, set_cw. cbn -[upd]. rewrite upd_same. cbn -[upd].
  fin_runs; cbn -[upd]; rewrite ?upd_same; try reflexivity; try (rewrite upd_other by auto; reflexivity);
    try congruence.
Qed.

(* ---- wake-ups ---- *)
Lemma exec_await_lock sh pend t l k :
  exec (SAwaitLock sh pend) t l k =
  match snd (Lock.step (k_lk k) (AcqBegin t)) with
  | RDone => (touch l, set_lk k (fst (Lock.step (k_lk k) (AcqBegin t))), ONext)
  | RBlocked => (touch l, set_lk k (fst (Lock.step (k_lk k) (AcqBegin t))), OSuspend (AwLock sh pend))
  | RRuntime => (touch l, set_lk k (fst (Lock.step (k_lk k) (AcqBegin t))), ORaise ERuntime)
  | _ => (l, set_lk k (fst (Lock.step (k_lk k) (AcqBegin t))), OStuck)
  end.
Proof. cbn [exec]. unfold lock_call. destruct (Lock.step (k_lk k) (AcqBegin t)) as [x r]. reflexivity. Qed.

Lemma acq_begin_res l t : phase_of l t = Idle ->
  snd (Lock.step l (AcqBegin t)) = RDone \/ snd (Lock.step l (AcqBegin t)) = RBlocked \/
  snd (Lock.step l (AcqBegin t)) = RRuntime.
Proof.
  intros H. cbn [Lock.step]. rewrite H. cbn.
  destruct (owner l) as [x|]; [|destruct (waiters l); [destruct (fast l)|]]; cbn;
    try destruct (Nat.eqb x t); cbn; auto.
Qed.

Lemma resume_res l t :
  snd (Lock.step l (Resume t)) = RDone \/ snd (Lock.step l (Resume t)) = RCancelled \/
  snd (Lock.step l (Resume t)) = RRuntime \/ snd (Lock.step l (Resume t)) = RRejected.
Proof.
  cbn [Lock.step]. destruct (phase_of l t) as [| |f]; cbn; auto.
  - destruct (mustc l t); cbn; auto. destruct (tid_eqb_opt _ t); cbn; auto.
  - destruct (futs l f); cbn; auto.
    destruct (mustc l t); cbn; auto. destruct (tid_eqb_opt _ t); cbn; auto.
Qed.

(* Condition.acquire() suspended inside the lock's acquire(); the lock's own continuation (tied by LockGenEq) has run
   and produced result r: the call returns, or the exception propagates *)
Theorem tie_cond_acquire_resume s c t : cphase_of s t = PAcq (Some c) ->
  let r := snd (Lock.step (lk s) (Resume t)) in
  let s0 := with_lk s (fst (Lock.step (lk s) (Resume t))) in
  r <> RRejected ->
  runs s0 (fst (cstep s (CResume t))) (snd (cstep s (CResume t))) c t
       (if match r with RDone => true | _ => false end then cond_acquire_lock_resumed else cond_acquire_lock_cancelled)
       (loc_resume None (exn_of r)).
Proof.
  intros Hp r s0 Hr. subst r s0. cbn [cstep]. rewrite Hp.
  destruct (Lock.step (lk s) (Resume t)) as [l' r] eqn:E. cbn [fst snd] in *.
  pose proof (resume_res (lk s) t) as Hres. rewrite E in Hres. cbn [snd] in Hres.
  destruct Hres as [-> | [-> | [-> | ->]]]; [| | |contradiction];
    unfold runs; cbn -[upd]; fin_runs; rewrite ?upd_same; try reflexivity; now rewrite upd_other by auto.
Qed.

(* Condition.wait() suspended inside the shielded re-acquire *)
Theorem tie_cond_wait_reacq_resume s c e exc t : cphase_of s t = PReacq c e exc ->
  let r := snd (Lock.step (lk s) (Resume t)) in
  let s0 := with_lk s (fst (Lock.step (lk s) (Resume t))) in
  r <> RRejected ->
  runs s0 (fst (cstep s (CResume t))) (snd (cstep s (CResume t))) c t
       (match exc, r with
        | false, RDone => cond_wait_reacq_resumed
        | false, _ => cond_wait_reacq_cancelled
        | true, RDone => cond_wait_reacq_exc_resumed
        | true, _ => cond_wait_reacq_exc_cancelled
        end)
       (loc_resume (Some e) (exn_of r)).
Proof.
  intros Hp r s0 Hr. subst r s0. cbn [cstep]. rewrite Hp.
  destruct (Lock.step (lk s) (Resume t)) as [l' r] eqn:E. cbn [fst snd] in *.
  pose proof (resume_res (lk s) t) as Hres. rewrite E in Hres. cbn [snd] in Hres.
  destruct Hres as [-> | [-> | [-> | ->]]]; [| | |contradiction]; destruct exc;
    unfold runs, finish_wait; cbn -[upd]; fin_runs; rewrite ?upd_same; try reflexivity; now rewrite upd_other by auto.
Qed.

(* the end of wait(): the (shielded) `await self.acquire()` of the finally block, run in state s1 that shows heap k *)
Lemma finish_wait_runs s0 s1 c t e (exc : bool) k l (tail : stmt) :
  sim s1 c k -> frame s0 s1 c -> cphase_of s1 = cphase_of s0 -> phase_of (lk s1) t = Idle -> l_ev l = Some e ->
  (tail = if exc then SRaise ECancelled else SSkip) ->
  let '(l', k', o) := exec (SSeq (SAwaitLock true exc) tail) t l k in
  let '(x, r) := Lock.step (lk s1) (AcqBegin t) in
  let s' := fst (finish_wait s1 t c e exc x r) in
  shows s0 s' c k' /\ res_of o = Some (snd (finish_wait s1 t c e exc x r)) /\
  phase_after c l' o = Some (cphase_of s' t) /\ (forall t', t' <> t -> cphase_of s' t' = cphase_of s0 t').
Proof.
  intros Hs Hf Hph Hl He ->. rewrite exec_seq, exec_await_lock.
  destruct Hs as (H1 & H2 & H3 & H4 & H5). rewrite <- H1.
  pose proof (acq_begin_res (lk s1) t Hl) as Hr.
  destruct (Lock.step (lk s1) (AcqBegin t)) as [x r]. cbn [fst snd] in *.
  destruct Hf as [Hf1 Hf2].
  destruct Hr as [-> | [-> | ->]]; destruct exc; unfold finish_wait; cbn -[upd];
    (refine (conj _ (conj eq_refl (conj _ _)));
     [ refine (conj eq_refl (conj H2 (conj H3 (conj H4 (conj H5 (conj Hf1 Hf2))))))
     | try rewrite He; rewrite upd_same; reflexivity
     | intros t' Ht'; rewrite upd_other by auto; now rewrite Hph ]).
Qed.

(* wait(): event.wait() returned normally (the event is set and no cancellation is pending) *)
Theorem tie_cond_wait_event_resumed s c e t : cphase_of s t = PWait c e -> phase_of (lk s) t = Idle ->
  efut s e = FSet -> mustc (lk s) t = false ->
  let s0 := with_lk s (set_mustc (lk s) t false) in
  runs s0 (fst (cstep s (CResume t))) (snd (cstep s (CResume t))) c t cond_wait_event_resumed
       (loc_resume (Some e) None).
Proof.
  intros Hp Hl Hf Hm s0. cbn [cstep]. rewrite Hp, Hf, Hm. unfold runs, cond_wait_event_resumed.
  pose proof (finish_wait_runs s0 s0 c t e false (vis s0 c) (loc_resume (Some e) None) SSkip
                (sim_vis s0 c) (frame_refl s0 c) eq_refl Hl eq_refl eq_refl) as H.
  rewrite exec_seq in H.
  destruct (exec (SAwaitLock true false) t (loc_resume (Some e) None) (vis s0 c)) as [[l1 k1] o1] eqn:E1.
  change (lk (with_lk s (set_mustc (lk s) t false))) with (lk s0).
  destruct (Lock.step (lk s0) (AcqBegin t)) as [x r].
  destruct o1; exact H.
Qed.

(* the `except BaseException:` branch of wait() on the visible heap *)
Definition handler_heap (k : cheap) (e : eid) : cheap :=
  if k_eset k e then match k_cw k with [] => k | h :: r => hset (set_cw k r) h end
  else set_cw k (remove_first e (k_cw k)).

Lemma wait_interrupted_sim s c e k : sim s c k ->
  sim (wait_interrupted s c e) c (handler_heap k e) /\ frame s (wait_interrupted s c e) c /\
  cphase_of (wait_interrupted s c e) = cphase_of s /\ lk (wait_interrupted s c e) = lk s.
Proof.
  intros Hs. pose proof Hs as (H1 & H2 & H3 & H4 & H5).
  unfold wait_interrupted, handler_heap. rewrite <- (H3 e), <- H2.
  destruct (eset s e).
  - destruct (cwaiters s c) as [|h r] eqn:Ew.
    + refine (conj _ (conj _ (conj eq_refl eq_refl))).
      * eapply sim_ghost; [..|exact Hs]; reflexivity.
      * eapply frame_ghost; [..|apply frame_refl]; reflexivity.
    + set (s1 := do_set (with_cw s c r) h (horizon s e)).
      assert (Hs1 : sim s1 c (hset (set_cw k r) h)) by (apply do_set_sim, with_cw_sim, Hs).
      refine (conj _ (conj _ (conj _ _))).
      * eapply sim_ghost; [..|exact Hs1]; reflexivity.
      * eapply frame_ghost with (s := s1); [reflexivity | reflexivity |].
        eapply frame_trans; [apply with_cw_frame | apply do_set_frame].
      * cbn. unfold s1. now rewrite do_set_phase.
      * cbn. unfold s1, do_set. destruct (eset (with_cw s c r) h); reflexivity.
  - refine (conj (with_cw_sim _ _ _ _ Hs) (conj (with_cw_frame _ _ _) (conj eq_refl eq_refl))).
Qed.

(* wait(): an exception was raised at event.wait(): the inner future was cancelled, or it was resolved (the waiter
   was notified) and Task._must_cancel is set *)
Theorem tie_cond_wait_event_cancelled s c e t : cphase_of s t = PWait c e -> phase_of (lk s) t = Idle ->
  efut s e = FCancelled \/ (efut s e = FSet /\ mustc (lk s) t = true) ->
  let s0 := with_lk s (set_mustc (lk s) t false) in
  runs s0 (fst (cstep s (CResume t))) (snd (cstep s (CResume t))) c t cond_wait_event_cancelled
       (loc_resume (Some e) (Some ECancelled)).
Proof.
  intros Hp Hl Hc s0.
  assert (Hstep : cstep s (CResume t) =
                  let s1 := wait_interrupted s0 c e in
                  let '(l', r) := Lock.step (lk s1) (AcqBegin t) in finish_wait s1 t c e true l' r).
  { cbn [cstep]. rewrite Hp. destruct Hc as [Hf | [Hf Hm]]; rewrite Hf; [|rewrite Hm]; reflexivity. }
  rewrite Hstep. clear Hstep. cbn zeta.
  destruct (wait_interrupted_sim s0 c e (vis s0 c) (sim_vis s0 c)) as (Hs1 & Hf1 & Hph1 & Hlk1).
  unfold runs, cond_wait_event_cancelled. rewrite exec_seq.
  match goal with |- context [exec ?h t ?l0 (vis s0 c)] =>
    assert (Hh : exists l1, exec h t l0 (vis s0 c) = (l1, handler_heap (vis s0 c) e, ONext) /\ l_ev l1 = Some e) end.
  { unfold handler_heap. cbn. destruct (eset s e); cbn; [destruct (cwaiters s c); cbn|]; eexists; split; reflexivity. }
  destruct Hh as (l1 & Hh & He1). rewrite Hh.
  assert (Hl1 : phase_of (lk (wait_interrupted s0 c e)) t = Idle) by (rewrite Hlk1; exact Hl).
  pose proof (finish_wait_runs s0 (wait_interrupted s0 c e) c t e true (handler_heap (vis s0 c) e) l1
                (SRaise ECancelled) Hs1 Hf1 Hph1 Hl1 He1 eq_refl) as H.
  destruct (exec (SSeq (SAwaitLock true true) (SRaise ECancelled)) t l1 (handler_heap (vis s0 c) e)) as [[l2 k2] o2].
  destruct (Lock.step (lk (wait_interrupted s0 c e)) (AcqBegin t)) as [x r].
  exact H.
Qed.

Theorem tie_cond_locked s c t :
  eval_cond cond_locked_cond t (loc_entry 0) (vis s c) =
  Some (match owner (lk s) with Some _ => true | None => false end).
Proof. reflexivity. Qed.

(* C08 clause (a) for Condition.wait() (row 9 of the fast-path table): called from an effectively cancelled scope it
   raises the cancellation before the holder test, with the lock still held and nothing enqueued *)
Theorem cond_wait_cancelled_entry_noeffect s c t :
  exists l, exec cond_wait_entry t loc_entry_cancelled (vis s c) = (l, vis s c, OCancelled).
Proof. unfold cond_wait_entry. cbn. eexists. reflexivity. Qed.

(* ---- every transition of the model that runs Condition code is the interpretation of the generated segment ---- *)
Theorem cstep_runs_generated s o s0 c t p l0 :
  variant s = 0 ->
  (forall t, cphase_of s t = PIdle \/ (exists c e, cphase_of s t = PWait c e) -> phase_of (lk s) t = Idle) ->
  dispatch cond_prog s o = Some (s0, c, t, p, l0) -> snd (cstep s o) <> RRejected ->
  runs s0 (fst (cstep s o)) (snd (cstep s o)) c t p l0.
Proof.
  intros Hv Hcoup Hd Hr.
  destruct o as [c' t'|c' t'|c' t'|c' t' n|c' t'|c' t'|t'|t'|t'|t'|t'|t']; cbn [dispatch cond_prog p_acquire_entry
    p_acquire_nowait p_release p_notify p_notify_all p_wait_entry p_acquire_lock_resumed p_acquire_lock_cancelled
    p_wait_event_resumed p_wait_event_cancelled p_wait_reacq_resumed p_wait_reacq_cancelled
    p_wait_reacq_exc_resumed p_wait_reacq_exc_cancelled] in Hd; try discriminate.
  1-6: destruct (cphase_of s t') eqn:Hp; cbn [c_is_idle] in Hd; try discriminate; inversion Hd; subst;
       pose proof (Hcoup t (or_introl Hp)) as Hl.
  - now apply tie_cond_acquire_entry.
  - now apply tie_cond_acquire_nowait.
  - now apply tie_cond_release.
  - now apply tie_cond_notify.
  - now apply tie_cond_notify_all.
  - now apply tie_cond_wait_entry.
  - destruct (cphase_of s t') as [|[cc|]|cc e|cc e exc] eqn:Hp; try discriminate.
    + pose proof (tie_cond_acquire_resume s cc t' Hp) as H. cbn zeta in H.
      destruct (Lock.step (lk s) (Resume t')) as [x r] eqn:E. cbn [fst snd] in H.
      destruct r; try discriminate; inversion Hd; subst; apply H; discriminate.
    + pose proof (Hcoup t' (or_intror (ex_intro _ cc (ex_intro _ e Hp)))) as Hl.
      destruct (efut s e) eqn:Hf; try discriminate.
      * destruct (mustc (lk s) t') eqn:Hm; inversion Hd; subst.
        -- apply tie_cond_wait_event_cancelled; auto.
        -- now apply tie_cond_wait_event_resumed.
      * inversion Hd; subst. apply tie_cond_wait_event_cancelled; auto.
    + pose proof (tie_cond_wait_reacq_resume s cc e exc t' Hp) as H. cbn zeta in H.
      destruct (Lock.step (lk s) (Resume t')) as [x r] eqn:E. cbn [fst snd] in H.
      destruct r; try discriminate; destruct exc; inversion Hd; subst; apply H; discriminate.
Qed.

Lemma res_eq_rejected (r : res) : r = RRejected \/ r <> RRejected.
Proof. destruct r; (now left) || (right; discriminate). Qed.

Lemma grun_creach fa s : grun cond_prog fa s -> creach fa s.
Proof.
  induction 1 as [|s o s0 c t p l0 _ IH _ _|s o _ IH _|s o _ IH _].
  - exists []. reflexivity.
  - now apply creach_step.
  - now apply creach_step.
  - now apply creach_step.
Qed.

Lemma creach_coupling fa s : creach fa s ->
  variant s = 0 /\
  (forall t, cphase_of s t = PIdle \/ (exists c e, cphase_of s t = PWait c e) -> phase_of (lk s) t = Idle).
Proof.
  intros R. pose proof (creach_inv fa s R) as I. split; [apply (C_var s I)|].
  intros t H. apply (K_coupling _ _ (C_lk s I)). destruct H as [-> | (c & e & ->)]; reflexivity.
Qed.

(* the whole machine: a state is reachable in the model iff it is reachable by running the generated segments *)
Theorem grun_iff_creach fa s : grun cond_prog fa s <-> creach fa s.
Proof.
  split; [apply grun_creach|].
  intros [ops ->]. induction ops as [|o r IH] using rev_ind.
  - apply grun_init.
  - rewrite final_app. cbn.
    set (s := final cstep (cinit fa 0) r) in *.
    destruct (creach_coupling fa s (ex_intro _ r eq_refl)) as [Hv Hc].
    destruct (dispatch cond_prog s o) as [[[[[s0 c] t] p] l0]|] eqn:Hd.
    + destruct (res_eq_rejected (snd (cstep s o))) as [Hr | Hr].
      * now apply grun_rejected.
      * eapply grun_code; [exact IH | exact Hd |]. now apply cstep_runs_generated.
    + now apply grun_env.
Qed.

(* ---- the C11 clauses for runs of the generated code ---- *)
Theorem gen_notifications_conserved fa s : grun cond_prog fa s ->
  issued s = consumed s + length (inflight s) + dropped s + lost s.
Proof. intros R. apply (cond_notifications_conserved fa), grun_creach, R. Qed.

Theorem gen_queue_has_live_waiters fa s c e : grun cond_prog fa s -> In e (cwaiters s c) ->
  eset s e = false /\ efut s e <> FSet /\ exists t, cphase_of s t = PWait c e.
Proof. intros R. apply (cond_queue_has_live_waiters fa), grun_creach, R. Qed.

Theorem gen_refused_iff_not_holder fa s c t n : grun cond_prog fa s -> cphase_of s t = PIdle ->
  (snd (cstep s (CWait c t)) = RRuntime <-> ~ In t (held (lk s))) /\
  (snd (cstep s (CNotify c t n)) = RRuntime <-> ~ In t (held (lk s))) /\
  (snd (cstep s (CNotifyAll c t)) = RRuntime <-> ~ In t (held (lk s))).
Proof. intros R. apply (cond_refused_iff_not_holder fa), grun_creach, R. Qed.

Theorem gen_waiter_runnable_iff_notified_or_cancelled fa s t c e : grun cond_prog fa s -> cphase_of s t = PWait c e ->
  (eset s e = true -> efut s e <> FPending /\ snd (cstep s (CResume t)) <> RRejected) /\
  (eset s e = false -> In e (cwaiters s c) /\
     (efut s e = FPending /\ snd (cstep s (CResume t)) = RRejected \/
      efut s e = FCancelled /\ snd (cstep s (CResume t)) <> RDone)).
Proof. intros R. apply (cond_waiter_runnable_iff_notified_or_cancelled fa), grun_creach, R. Qed.

Theorem gen_invariant fa s : grun cond_prog fa s -> CInv s.
Proof. intros R. apply (creach_inv fa), grun_creach, R. Qed.

(* ---- non-vacuity and sensitivity (vm_compute) ---- *)
Definition cfinal (fa : bool) (ops : list cop) : cst := final cstep (cinit fa 0) ops.

Example ex_dispatch_wait_cancelled :
  let s := cfinal true [CAcquire 0 1; CWait 0 1; CCancel 1] in
  cphase_of s 1 = PWait 0 0 /\ efut s 0 = FCancelled /\
  match dispatch cond_prog s (CResume 1) with Some (_, _, _, p, _) => p = cond_wait_event_cancelled | None => False end.
Proof. vm_compute. repeat split. Qed.
Example ex_dispatch_reacq :
  let s := cfinal true [CAcquire 0 1; CWait 0 1; CAcquire 0 2; CNotify 0 2 1; CResume 1] in
  cphase_of s 1 = PReacq 0 0 false /\ owner (lk s) = Some 2.
Proof. vm_compute. repeat split. Qed.
Example ex_passon_hyp :
  let s := cfinal true [CAcquire 0 1; CWait 0 1; CAcquire 0 2; CWait 0 2; CAcquire 0 3; CNotify 0 3 1; CCancel 1] in
  cphase_of s 1 = PWait 0 0 /\ efut s 0 = FSet /\ mustc (lk s) 1 = true /\ cwaiters s 0 = [1].
Proof. vm_compute. repeat split. Qed.
Example ex_check_after_effect_is_stuck :
  snd (exec (SSeq SNewEvent SCkIf) 1 loc_entry_cancelled (vis (cinit true 0) 0)) = OStuck.
Proof. vm_compute. reflexivity. Qed.
Example ex_unshielded_reacquire_has_no_phase :
  (* seeded change C11 c: the re-acquire outside `with CancelScope(shield=True)` suspends at a point no phase matches *)
  phase_after 0 (loc_resume (Some 0) None) (OSuspend (AwLock false true)) = None.
Proof. reflexivity. Qed.

(* `runs` and `shows` written out *)
Theorem runs_spec s0 s' r c t p l0 :
  runs s0 s' r c t p l0 <->
  (let '(l, k, o) := exec p t l0 (vis s0 c) in
   (lk s' = k_lk k /\ cwaiters s' c = k_cw k /\ (forall e, eset s' e = k_eset k e) /\
    (forall e, efut s' e = k_efut k e) /\ nev s' = k_nev k /\
    (forall c', c' <> c -> cwaiters s' c' = cwaiters s0 c') /\ variant s' = variant s0) /\
   res_of o = Some r /\ phase_after c l o = Some (cphase_of s' t) /\
   (forall t', t' <> t -> cphase_of s' t' = cphase_of s0 t')).
Proof. reflexivity. Qed.
