(* C20: refutation witnesses for the known findings F3 / F8 / F30 / F31 / F32 / F41 (the hypotheses of the positive
   theorems cannot be dropped), the F15 witness on the pre-fix variant of `step`, and non-vacuity examples. *)
From AV Require Import Base Lru LruLockFacts LruDict LruProofs LruInv LruCount LruStep LruThms.
From AV Require Lock LockProofs.

Definition cfg_m1 := mkcfg (Some 1) None false false 3.       (* maxsize = 1, three callers *)
Definition cfg_m2 := mkcfg (Some 2) None false false 3.
Definition cfg_ttl0 := mkcfg None (Some 0) false false 3.     (* unbounded, ttl = 0 *)
Definition cfg_m1_ck := mkcfg (Some 1) None true false 3.     (* maxsize = 1, always_checkpoint *)
Definition cfg_m0 := mkcfg (Some 0) None false false 3.       (* maxsize = 0 *)

(* Every witness below states the WHOLE flag set of its history: exactly one finding pattern occurs, all other
   predicates are false, and one of the conditional clauses fails.  only_* = the flag set with that one flag. *)
Definition only_inflight := mkfl true false false false false false.
Definition only_waited := mkfl false true false false false false.
Definition only_uncounted := mkfl false false true false false false.
Definition only_dead := mkfl false false false true false false.
Definition only_phantom := mkfl false false false false true false.
Definition only_bypass2 := mkfl false false false false false true.

(* ---------------------------------------------------------------------------------------------- F3 *)
(* F3(a): caller 2's miss on key 1 evicts the in-flight placeholder of key 0, the computation of key 0 fails,
   the waiter re-reads the entry: KeyError (C20_no_internal_error without no_inflight_eviction) *)
Definition w_f3_keyerror := [Call 0 0; Call 1 0; Call 2 2; WrappedRaises 0 0; Resume 0].
Theorem lru_refuted_keyerror :
  exists cf ops o, fl (run cf (ops ++ [o])) = only_inflight /\ snd (step cf (run cf ops) o) = RKeyError.
Proof. exists cfg_m1, w_f3_keyerror, (Resume 1). vm_compute. auto. Qed.

(* F3(b): the evicted in-flight computation and the evicting one both complete: two results with maxsize = 1
   while currsize = 1 (C20_bounded and C20_count_exact without no_inflight_eviction) *)
Definition w_f3_exceeds :=
  [Call 0 0; Call 2 2; WrappedReturns 0 1; Resume 0; WrappedReturns 2 2; Resume 2].
Theorem lru_refuted_exceeds :
  exists cf ops m, maxsize cf = Some m /\ fl (run cf ops) = only_inflight /\
    m < length (filter (fun x => negb (is_place (se x))) (dict (run cf ops))) /\ currsize (run cf ops) = 1%Z.
Proof. exists cfg_m1, w_f3_exceeds, 1. vm_compute. auto 8. Qed.

(* F3(c): the in-flight placeholder of key 0 is evicted by the miss on key 1; a third caller of key 0 finds no
   entry, installs a new placeholder and runs: two executions for key 0 (C20_single_flight without
   no_inflight_eviction) *)
Definition w_f3_double_flight := [Call 0 0; Call 1 2; Call 2 0].
Theorem lru_refuted_double_flight :
  exists cf ops c1 c2 k l1 l2 g, fl (run cf ops) = only_inflight /\ c1 <> c2 /\
    phase (run cf ops) c1 = CInWrapped k l1 None false g /\ phase (run cf ops) c2 = CInWrapped k l2 None false g.
Proof.
  exists cfg_m1, w_f3_double_flight, 0, 2, 0, 0, 2, 0. vm_compute.
  refine (conj eq_refl (conj _ (conj eq_refl eq_refl))). discriminate.
Qed.

(* ---------------------------------------------------------------------------------------------- F8 *)
(* F8(a): no placeholder is ever evicted, but the completed value of key 0 is evicted while waiter 1 has been
   handed the entry's lock: KeyError (C20_no_internal_error without no_waited_eviction) *)
Definition w_f8_keyerror := [Call 0 0; Call 1 0; WrappedReturns 0 7; Resume 0; Call 2 2].
Theorem lru_refuted_keyerror_waited :
  exists cf ops o, fl (run cf (ops ++ [o])) = only_waited /\ snd (step cf (run cf ops) o) = RKeyError.
Proof. exists cfg_m1, w_f8_keyerror, (Resume 1). vm_compute. auto. Qed.

(* F8(b): ... and caller 0 installs a new placeholder (new lock) before the waiter runs: two executions
   (C20_single_flight without no_waited_eviction) *)
Definition w_f8_double_flight :=
  [Call 0 0; Call 1 0; WrappedReturns 0 1; Resume 0; Call 2 2; WrappedReturns 2 2; Resume 2;
   Call 2 4; WrappedReturns 2 3; Resume 2; Call 0 0; Resume 1].
Theorem lru_refuted_double_flight_waited :
  exists cf ops c1 c2 k l1 l2 g, fl (run cf ops) = only_waited /\ c1 <> c2 /\
    phase (run cf ops) c1 = CInWrapped k l1 None false g /\ phase (run cf ops) c2 = CInWrapped k l2 None false g.
Proof.
  exists cfg_m2, w_f8_double_flight, 0, 1, 0, 3, 0, 0. vm_compute.
  refine (conj eq_refl (conj _ (conj eq_refl eq_refl))). discriminate.
Qed.

(* F8(c): the value expires between the hand-off and the waiter's resumption; a third caller replaces it by a
   placeholder with a new lock: two executions, unbounded cache *)
Definition w_f8_ttl := [Call 0 0; Call 1 0; WrappedReturns 0 1; Resume 0; Call 2 0; Resume 1].
Theorem lru_refuted_double_flight_ttl :
  exists cf ops c1 c2 k l1 l2 g, maxsize cf = None /\ fl (run cf ops) = only_waited /\ c1 <> c2 /\
    phase (run cf ops) c1 = CInWrapped k l1 None false g /\ phase (run cf ops) c2 = CInWrapped k l2 None false g.
Proof.
  exists cfg_ttl0, w_f8_ttl, 2, 1, 0, 1, 0, 0. vm_compute.
  refine (conj eq_refl (conj eq_refl (conj _ (conj eq_refl eq_refl)))). discriminate.
Qed.

(* ---------------------------------------------------------------------------------------------- F30 *)
(* F30, isolated: cache_clear() while caller 0 computes key 0; caller 1 calls key 0 in the fresh dict: two
   executions for key 0, nothing is ever evicted (C20_single_flight without no_other_loop) *)
Definition w_f30_clear := [Call 0 0; Clear; Call 1 0].
Theorem lru_refuted_clear_double_flight :
  exists cf ops c1 c2 k l1 l2 g1 g2, fl (run cf ops) = only_phantom /\ c1 <> c2 /\
    phase (run cf ops) c1 = CInWrapped k l1 None false g1 /\ phase (run cf ops) c2 = CInWrapped k l2 None false g2.
Proof.
  exists cfg_m1, w_f30_clear, 0, 1, 0, 0, 1, 0, 1. vm_compute.
  refine (conj eq_refl (conj _ (conj eq_refl eq_refl))). discriminate.
Qed.

(* F30, isolated: after loop 1 filled the cache (maxsize = 1) a new loop starts with an empty dict but
   currsize = 1 (C20_count_exact without no_other_loop) *)
Definition w_f30_new_loop := [Call 0 0; WrappedReturns 0 1; Resume 0; NewLoop].
Theorem lru_refuted_other_loop_count :
  exists cf ops, fl (run cf ops) = only_phantom /\ dict (run cf ops) = [] /\ currsize (run cf ops) = 1%Z.
Proof. exists cfg_m1, w_f30_new_loop. vm_compute. auto. Qed.

(* F30, consequences (these histories also contain the eviction of the callers' own placeholders, i.e. the F3
   pattern): in the new loop every miss pops its own placeholder and two callers of the same key both run; the
   same inside one loop after cache_clear() raced a flight *)
Definition w_f30_other_loop := [Call 0 0; WrappedReturns 0 1; Resume 0; NewLoop; Call 0 2; Call 1 2].
Theorem lru_refuted_other_loop :
  exists cf ops c1 c2 k, stale_count_other_loop cf ops = true /\ evicts_waited cf ops = false /\
    dead_placeholder_counted cf ops = false /\ uncounted_placeholder cf ops = false /\ c1 <> c2 /\
    executing (run cf ops) c1 k /\ executing (run cf ops) c2 k /\
    fl (run cf (firstn 4 ops)) = only_phantom /\
    dict (run cf (firstn 4 ops)) = [] /\ currsize (run cf (firstn 4 ops)) = 1%Z.
Proof.
  exists cfg_m1, w_f30_other_loop, 0, 1, 2. vm_compute.
  refine (conj eq_refl (conj eq_refl (conj eq_refl (conj eq_refl (conj _ (conj _ (conj _ (conj eq_refl (conj eq_refl eq_refl)))))))));
    [discriminate|left|left]; repeat eexists.
Qed.

Definition w_f30_clear_in_flight :=
  [Call 0 0; Call 1 0; Clear; CancelCaller 0; Resume 0; Resume 1; WrappedReturns 1 5; Resume 1; Call 0 4; Call 2 4].
Theorem lru_refuted_clear_in_flight :
  exists cf ops c1 c2 k, stale_count_other_loop cf ops = true /\ evicts_waited cf ops = false /\
    c1 <> c2 /\ executing (run cf ops) c1 k /\ executing (run cf ops) c2 k /\
    dict (run cf (firstn 8 ops)) = [] /\ currsize (run cf (firstn 8 ops)) = 1%Z.
Proof.
  exists cfg_m1, w_f30_clear_in_flight, 0, 2, 4. vm_compute.
  refine (conj eq_refl (conj eq_refl (conj _ (conj _ (conj _ (conj eq_refl eq_refl))))));
    [discriminate|left|left]; repeat eexists.
Qed.

(* ---------------------------------------------------------------------------------------------- F31 *)
(* F31: a call issued in an already cancelled scope is aborted at the lock entry and leaves an uncounted
   placeholder; a later miss evicts it instead of a result: two results with maxsize = 1, no concurrency at all
   (C20_bounded without no_uncounted_eviction) *)
Definition w_f31_scope :=
  [CallX 0 0; Resume 0; Call 1 2; WrappedReturns 1 1; Resume 1; Call 2 4; WrappedReturns 2 2; Resume 2].
Theorem lru_refuted_uncounted_exceeds :
  exists cf ops m, maxsize cf = Some m /\ fl (run cf ops) = only_uncounted /\
    m < length (filter (fun x => negb (is_place (se x))) (dict (run cf ops))) /\ currsize (run cf ops) = 1%Z.
Proof. exists cfg_m1, w_f31_scope, 1. vm_compute. auto 8. Qed.

(* the same through a native cancellation in the shielded checkpoint of Lock.acquire() (always_checkpoint) *)
Definition w_f31_native :=
  [Call 0 0; CancelCaller 0; Resume 0; Call 1 2; Resume 1; WrappedReturns 1 1; Resume 1;
   Call 2 4; Resume 2; WrappedReturns 2 2; Resume 2].
Theorem lru_refuted_uncounted_exceeds_native :
  exists cf ops m, maxsize cf = Some m /\ fl (run cf ops) = only_uncounted /\
    m < length (filter (fun x => negb (is_place (se x))) (dict (run cf ops))).
Proof. exists cfg_m1_ck, w_f31_native, 1. vm_compute. auto. Qed.

(* ---------------------------------------------------------------------------------------------- F32 *)
(* F32: maxsize = 0 returns before any lock: two calls with the same key run at once *)
Theorem lru_refuted_maxsize0_double_flight :
  exists cf ops c1 c2 k, is_zero_max cf = true /\ fl (run cf ops) = only_bypass2 /\ c1 <> c2 /\
    phase (run cf ops) c1 = CBypass k None false /\ phase (run cf ops) c2 = CBypass k None false.
Proof.
  exists cfg_m0, [Call 0 0; Call 1 0], 0, 1, 0. vm_compute.
  refine (conj eq_refl (conj eq_refl (conj _ (conj eq_refl eq_refl)))). discriminate.
Qed.

(* ---------------------------------------------------------------------------------------------- F41 *)
(* F41: a failed computation leaves its placeholder counted; the retry counts the key a second time; with
   maxsize = 2 the cache is then "full" with ONE result, and the next key evicts it: after the evicting step the dict
   holds one counted entry (C20_evicts_only_when_full and C20_count_exact without no_dead_placeholder) *)
Definition w_f41 := [Call 0 0; WrappedRaises 0 0; Resume 0; Call 0 0; WrappedReturns 0 1; Resume 0].
Theorem lru_refuted_dead_placeholder :
  exists cf ops o key m, maxsize cf = Some m /\ fl (run cf (ops ++ [o])) = only_dead /\
    o <> Clear /\ o <> NewLoop /\
    In key (map sk (dict (run cf ops))) /\ ~ In key (map sk (dict (run cf (ops ++ [o])))) /\
    length (filter (fun x => negb (is_place (se x))) (dict (run cf (ops ++ [o])))) +
    length (filter (fun x => match se x with EPlace _ true => true | _ => false end) (dict (run cf (ops ++ [o])))) < m /\
    currsize (run cf (ops ++ [o])) = Z.of_nat m.
Proof.
  exists cfg_m2, w_f41, (Call 0 2), 0, 2. vm_compute.
  refine (conj eq_refl (conj eq_refl (conj _ (conj _ (conj _ (conj _ (conj _ eq_refl)))))));
    [discriminate|discriminate|now left|intros [H|[]]; discriminate|lia].
Qed.

(* ---------------------------------------------------------------------------------------------- F15 *)
(* F15 (fixed in /repo by 21d8dda): the behaviour before the fix, as a variant of `step`.  The expired entry is
   replaced IN PLACE (position kept) although the recomputation is a use (the ghost stamp is refreshed all the
   same); everything else is `step`. *)
Fixpoint dset_in_stamp (k : key) (e : entry) (st : nat) (d : list slot) : list slot :=
  match d with
  | [] => []
  | x :: r => if Nat.eqb (sk x) k then mkslot k e st :: r else x :: dset_in_stamp k e st r
  end.

Definition old_expiry_step (cf : cfg) (s : st) (o : op) : st * res :=
  match o with
  | Call c a =>
      let k := key_of cf a in
      if andb (andb (Nat.ltb c (ncall cf)) (is_cidle (phase s c))) (negb (is_zero_max cf)) then
        let s := set_has_dict s in
        match dfind k (dict s) with
        | Some x =>
            match se x with
            | EVal v exp =>
                if expired exp (now s) then
                  let l := nlock s in
                  let s1 := set_fl s (fl_or_waited (fl s) (waited cf s k (cur s))) in
                  let s2 := set_counts s1 (hits s1) (misses s1) (currsize s1 - 1)%Z in
                  let s3 := new_lock cf s2 k in
                  let s4 := bump_clk (set_dict s3 (cur s3)
                                         (dset_in_stamp k (EPlace l false) (clk s3) (dict s3))) in
                  acquire cf s4 c k l
                else step cf s o
            | EPlace _ _ => step cf s o
            end
        | None => step cf s o
        end
      else step cf s o
  | _ => step cf s o
  end.

Definition run_old (cf : cfg) (ops : list op) : st := final (old_expiry_step cf) init ops.

(* maxsize = 2, ttl = 2: key 1 at time 0, key 2 at time 1, key 1 again at time 2 (expired: recomputed), then key 3 *)
Definition cfg_f15 := mkcfg (Some 2) (Some 2) false false 1.
Definition w_f15 :=
  [Call 0 2; WrappedReturns 0 1; Resume 0; Tick; Call 0 4; WrappedReturns 0 2; Resume 0; Tick;
   Call 0 2; WrappedReturns 0 3; Resume 0].

(* under the OLD behaviour the statement of lru_evicts_oldest_use fails: the miss on key 3 evicts key 1, which was
   recomputed (used) after key 2 -- none of the finding patterns occurs in this history *)
Theorem lru_refuted_old_expiry_order :
  exists cf ops o x y',
    fl (run_old cf (ops ++ [o])) = mkfl false false false false false false /\
    o <> Clear /\ o <> NewLoop /\ In x (dict (run_old cf ops)) /\
    (forall y, In y (dict (fst (old_expiry_step cf (run_old cf ops) o))) -> sk y <> sk x) /\
    In y' (dict (fst (old_expiry_step cf (run_old cf ops) o))) /\ ss y' < ss x.
Proof.
  exists cfg_f15, w_f15, (Call 0 6), (mkslot 2 (EVal 3 (Some 4)) 4), (mkslot 4 (EVal 2 (Some 3)) 2).
  vm_compute. refine (conj eq_refl (conj _ (conj _ (conj _ (conj _ (conj _ _)))))).
  - discriminate.
  - discriminate.
  - now left.
  - intros y [<-|[<-|[]]]; discriminate.
  - now left.
  - lia.
Qed.

(* the same history on the model of the fixed code: the expired key is moved to the recent end when it is
   recomputed, and the miss on key 3 evicts key 2 *)
Example ex_f15_fixed :
  fl (run cfg_f15 (w_f15 ++ [Call 0 6])) = mkfl false false false false false false /\
  map sk (dict (run cfg_f15 (firstn 8 w_f15))) = [2; 4] /\
  map sk (dict (run cfg_f15 (firstn 9 w_f15))) = [4; 2] /\
  map (fun x => (sk x, ss x)) (dict (run cfg_f15 w_f15)) = [(4, 2); (2, 4)] /\
  map sk (dict (run cfg_f15 (w_f15 ++ [Call 0 6]))) = [2; 6].
Proof. vm_compute. auto 7. Qed.

(* ------------------------------------------------------------------------------------------------ *)
(* Non-vacuity: concrete reachable histories that satisfy the hypotheses of the positive theorems      *)
(* ------------------------------------------------------------------------------------------------ *)
(* contention on key 0 (caller 1 waits for caller 0's flight and reuses its result), a second key in flight,
   then a third key whose miss evicts the completed, least recently used entry of key 1 *)
Definition ex_ops :=
  [Call 0 0; Call 1 0; Call 2 2; WrappedReturns 0 5; Resume 0; Resume 1; WrappedReturns 2 6; Resume 2;
   Call 0 4; WrappedReturns 0 7; Resume 0].

Example ex_hypotheses_hold :
  maxsize_pos cfg_m2 /\
  no_inflight_eviction cfg_m2 ex_ops /\ no_waited_eviction cfg_m2 ex_ops /\ no_uncounted_eviction cfg_m2 ex_ops /\
  no_dead_placeholder cfg_m2 ex_ops /\ no_other_loop cfg_m2 ex_ops /\
  (forall n, n <= length ex_ops ->
     fl (run cfg_m2 (firstn n ex_ops)) = mkfl false false false false false false).
Proof.
  refine (conj eq_refl (conj eq_refl (conj eq_refl (conj eq_refl (conj eq_refl (conj eq_refl _)))))).
  intros n Hn. do 12 (destruct n as [|n]; [reflexivity|]). cbn in Hn. lia.
Qed.

Example ex_contended_state :
  let s := run cfg_m2 (firstn 3 ex_ops) in
  phase s 0 = CInWrapped 0 0 None false 0 /\ phase s 1 = CLockWait 0 0 0 0 /\
  phase s 2 = CInWrapped 2 1 None false 0 /\
  Lock.owner (locks s 0) = Some 0 /\ length (Lock.waiters (locks s 0)) = 1 /\
  map se (dict s) = [EPlace 0 true; EPlace 1 true] /\ currsize s = 2%Z.
Proof. vm_compute. auto 8. Qed.

Example ex_outputs :
  map (fun n => snd (step cfg_m2 (run cfg_m2 (firstn n ex_ops)) (nth n ex_ops Tick))) (seq 0 11) =
  [RBlocked; RBlocked; RBlocked; RNone; RRet 5; RRet 5; RNone; RRet 6; RBlocked; RNone; RRet 7].
Proof. vm_compute. reflexivity. Qed.

Example ex_reuse_hyp :
  let s := run cfg_m2 (firstn 5 ex_ops) in
  phase s 1 = CLockWait 0 0 0 0 /\ dget 0 (dicts s 0) = Some (EVal 5 None) /\
  snd (step cfg_m2 s (Resume 1)) = RRet 5.
Proof. vm_compute. auto. Qed.

(* the eviction happens exactly when the count has reached maxsize (hypothesis of lru_evicts_only_when_full) *)
Example ex_evicts_completed_lru :
  let s := run cfg_m2 (firstn 8 ex_ops) in
  map sk (dict s) = [2; 0] /\ map sk (dict (fst (step cfg_m2 s (Call 0 4)))) = [0; 4] /\
  currsize s = 2%Z /\
  currsize (run cfg_m2 ex_ops) = 2%Z /\ hits (run cfg_m2 ex_ops) = 1 /\ misses (run cfg_m2 ex_ops) = 3 /\
  map se (dict (run cfg_m2 ex_ops)) = [EVal 5 None; EVal 7 None].
Proof. vm_compute. auto 8. Qed.

(* ttl = 2: a hit before the expiry, recomputation after it *)
Definition cfg_ttl2 := mkcfg None (Some 2) false false 2.
Definition ex_ttl_ops :=
  [Call 0 0; WrappedReturns 0 5; Resume 0; Call 1 0; Tick; Tick; Call 1 0; WrappedReturns 1 6; Resume 1].

Example ex_ttl :
  map (fun n => snd (step cfg_ttl2 (run cfg_ttl2 (firstn n ex_ttl_ops)) (nth n ex_ttl_ops Tick))) (seq 0 9) =
  [RBlocked; RNone; RRet 5; RRet 5; RNone; RNone; RBlocked; RNone; RRet 6] /\
  fl (run cfg_ttl2 ex_ttl_ops) = mkfl false false false false false false /\
  map se (dict (run cfg_ttl2 ex_ttl_ops)) = [EVal 6 (Some 4)].
Proof. vm_compute. auto. Qed.

(* always_checkpoint: the hit suspends in the checkpoint *)
Definition cfg_ck := mkcfg (Some 2) None true false 2.
Example ex_hit_checkpoint :
  let s := run cfg_ck [Call 0 0; Resume 0; WrappedReturns 0 5; Resume 0] in
  snd (enter cfg_ck s 1 0 false) = RBlocked /\ phase (fst (enter cfg_ck s 1 0 false)) 1 = CHitCk 0 5 false.
Proof. vm_compute. auto. Qed.

(* the wrapped function raises: the exception reaches exactly the caller that executed it *)
Example ex_raises :
  let s := run cfg_m2 [Call 0 0; Call 1 0; WrappedRaises 0 1] in
  snd (step cfg_m2 s (Resume 0)) = RExc 1 /\
  snd (step cfg_m2 (fst (step cfg_m2 s (Resume 0))) (Resume 1)) = RBlocked.
Proof. vm_compute. auto. Qed.

(* a waiter with a ttl: it called at t0 = 0, the value is stored at time 1 and expires at 3 >= t0 + ttl *)
Example ex_reread_ttl :
  let s := run cfg_ttl2 [Call 0 0; Call 1 0; Tick; WrappedReturns 0 5; Resume 0] in
  phase s 1 = CLockWait 0 0 0 0 /\ snd (step cfg_ttl2 s (Resume 1)) = RRet 5 /\
  dget 0 (dict s) = Some (EVal 5 (Some 3)).
Proof. vm_compute. auto. Qed.

(* the new ops without any finding pattern: cache_clear() and a new loop at a quiet moment with nothing counted,
   a call in an already cancelled scope that finds a flight in progress (it is cancelled at the lock entry without
   ever queueing on the lock), a call in an already cancelled scope that is served from the cache *)
Example ex_benign_new_ops :
  let ops := [Call 0 0; CallX 1 0; Resume 1; WrappedReturns 0 5; Resume 0; CallX 1 0; Clear; NewLoop;
              Call 0 0; WrappedReturns 0 6; Resume 0; Call 1 0] in
  fl (run cfg_m2 ops) = mkfl false false false false false false /\
  map (fun n => snd (step cfg_m2 (run cfg_m2 (firstn n ops)) (nth n ops Tick))) (seq 0 12) =
  [RBlocked; RBlocked; RCancelled; RNone; RRet 5; RRet 5; RNone; RNone; RBlocked; RNone; RRet 6; RRet 6] /\
  cur (run cfg_m2 ops) = 2 /\ currsize (run cfg_m2 ops) = 1%Z.
Proof. vm_compute. auto. Qed.
