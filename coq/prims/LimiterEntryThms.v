(* C10 / C08: the cancellation check of CapacityLimiter.acquire_on_behalf_of() comes first and may yield.  Theorems over
   every op sequence of the extended machine LimiterEntry.estep; the order "test, check, take" kept as a refuted
   (pinned) witness. *)
From AV Require Import Base C10Defs C10Lib Limiter LimiterProofs LimiterThms LimiterEntry.

Definition ereach (v : option nat) (s : est) : Prop := exists ops, s = final (estep false) (einit v) ops.

Definition nocommit (s : est) : Prop := forall t, committed s t = false.

Lemma unspin_nocommit s l t : nocommit s -> nocommit (unspin s l t).
Proof. intros C u. cbn. unfold upd. destruct (Nat.eqb u t); [reflexivity | apply C]. Qed.

(* one step of the extended machine: the limiter component does not move, or moves by ONE Limiter.step *)
Lemma estep_lim s o : nocommit s ->
  nocommit (fst (estep false s o)) /\
  (lim (fst (estep false s o)) = lim s \/ exists lo, lim (fst (estep false s o)) = fst (Limiter.step (lim s) lo)).
Proof.
  intros C. destruct o as [o|t b|t|t]; cbn [estep].
  - destruct (spin s (op_tid o)) as [b|].
    + destruct o; cbn; try (split; [exact C | left; reflexivity]).
      * destruct (ckmust s t); cbn; (split; [|left; reflexivity]); [apply unspin_nocommit|]; exact C.
    + destruct (Limiter.step (lim s) o) as [l' r] eqn:E. cbn. split; [exact C|]. right. exists o. rewrite E. reflexivity.
  - cbn [andb]. destruct (is_some (spin s t) || negb (is_idle (phase_of (lim s) t))); cbn; (split; [exact C | left; reflexivity]).
  - destruct (spin s t); cbn; (split; [|left; reflexivity]); [apply unspin_nocommit|]; exact C.
  - destruct (spin s t) as [b|]; [|split; [exact C | left; reflexivity]].
    destruct (ckmust s t); [cbn; split; [apply unspin_nocommit; exact C | left; reflexivity]|].
    rewrite C. destruct (Limiter.step (lim s) (AcqOn t b)) as [l' r] eqn:E. cbn.
    split; [apply unspin_nocommit; exact C|]. right. exists (AcqOn t b). rewrite E. reflexivity.
Qed.

Lemma ereach_nocommit v s : ereach v s -> nocommit s.
Proof.
  intros [ops ->]. apply (final_inv (estep false) nocommit).
  - intros s o C. apply (estep_lim s o C).
  - intros t. reflexivity.
Qed.

(* every reachable state of the extended machine projects to a reachable state of Limiter: hence every theorem about
   `reach v` states of Limiter.v (never over-granted, borrowers distinct, FIFO, no free token with waiters, one slot per
   borrower, ...) is inherited by the machine whose entry check yields *)
Theorem entry_projects_to_limiter v s : ereach v s -> reach v (lim s).
Proof.
  intros [ops ->].
  enough (H : reach v (lim (final (estep false) (einit v) ops)) /\ nocommit (final (estep false) (einit v) ops)) by apply H.
  induction ops as [|o r [IH C]] using rev_ind.
  - split; [exists []; reflexivity | intros t; reflexivity].
  - rewrite final_app. cbn [final fold_left]. set (s := final (estep false) (einit v) r) in *.
    destruct (estep_lim s o C) as [C' [E | [lo E]]]; (split; [|exact C']); rewrite E; [exact IH | now apply reach_step].
Qed.

Theorem entry_inherits v s : ereach v s ->
  NoDup (borrowers (lim s)) /\
  (queue (lim s) <> [] -> free (borrowers (lim s)) (total (lim s)) = false) /\
  NoDup (keys (queue (lim s))) /\
  (forall b, In b (keys (queue (lim s))) -> ~ In b (borrowers (lim s))) /\
  subseq (queue (lim s)) (arrivals (lim s)).
Proof.
  intros R. apply entry_projects_to_limiter in R.
  destruct (lim_wait_queue_keys_distinct v _ R) as (A & B & _).
  refine (conj (lim_borrowers_nodup v _ R) (conj (lim_no_free_token_with_waiters v _ R) (conj A (conj B _)))).
  now apply (lim_queue_in_arrival_order v).
Qed.

(* an acquire_on_behalf_of() entered in an already effectively cancelled scope touches nothing - whatever the state of
   the limiter (tokens free or not, the borrower already holding, already queued) - and, when the delivery comes next
   (SpinCancel), ends with the cancellation;
   neither does anything the spinning task's environment does TO THAT TASK (native cancel, its own spinning steps) *)
Theorem entry_cancelled_noeffect s t b : spin s t = None -> phase_of (lim s) t = Idle ->
  let s1 := fst (estep false s (EnterCancelled t b)) in
  snd (estep false s (EnterCancelled t b)) = RBlocked /\ lim s1 = lim s /\ spin s1 t = Some b /\
  snd (estep false s1 (SpinCancel t)) = RCancelled /\ lim (fst (estep false s1 (SpinCancel t))) = lim s /\
  spin (fst (estep false s1 (SpinCancel t))) t = None.
Proof.
  intros Hs Hp. cbn [estep]. rewrite Hs, Hp. cbn. rewrite upd_same. cbn. rewrite upd_same. repeat split.
Qed.

Theorem spinner_steps_noeffect s t b o : spin s t = Some b -> op_tid o = t ->
  lim (fst (estep false s (L o))) = lim s /\
  (snd (estep false s (L o)) = RCancelled -> ckmust s t = true /\ o = Resume t).
Proof.
  intros Hs Ht. cbn [estep]. rewrite Ht, Hs.
  destruct o; cbn in Ht; subst; cbn; try (split; [reflexivity | discriminate]).
  destruct (ckmust s t); cbn; (split; [reflexivity|]); [auto | discriminate].
Qed.

(* HEAD has no step between test and take: when the check returns after its yield, the rest of the call - borrower
   test, free-token test, queue test, the take or the enqueuing - is ONE step: exactly an ordinary AcqOn on the limiter
   as it is then *)
Theorem no_step_between_test_and_take v s t b : ereach v s -> spin s t = Some b -> ckmust s t = false ->
  estep false s (SpinReturn t) =
  (unspin s (fst (Limiter.step (lim s) (AcqOn t b))) t, snd (Limiter.step (lim s) (AcqOn t b))).
Proof.
  intros R Hs Hm. pose proof (ereach_nocommit v s R) as C. cbn [estep]. rewrite Hs, Hm, C.
  destruct (Limiter.step (lim s) (AcqOn t b)); reflexivity.
Qed.

(* hence a call whose check yielded can only be granted a token that is free WHEN THE CHECK RETURNS *)
Theorem entry_grant_only_if_free v s t b : ereach v s -> spin s t = Some b -> ckmust s t = false ->
  In b (borrowers (lim (fst (estep false s (SpinReturn t))))) -> ~ In b (borrowers (lim s)) ->
  free (borrowers (lim s)) (total (lim s)) = true /\ queue (lim s) = [].
Proof.
  intros R Hs Hm Hin Hnot. rewrite (no_step_between_test_and_take v s t b R Hs Hm) in Hin. cbn in Hin.
  unfold Limiter.step in Hin; cbn [step_gen] in Hin.
  destruct (negb (is_idle (phase_of (lim s) t))); [contradiction|].
  apply mem_false in Hnot. rewrite Hnot in Hin.
  destruct (busy (lim s)) eqn:Eb.
  - exfalso. unfold enq_head in Hin. destruct (mem b (keys (queue (lim s)))); cbn in Hin; apply mem_false in Hnot; contradiction.
  - unfold busy in Eb. apply Bool.orb_false_iff in Eb. destruct Eb as [E1 E2].
    apply Bool.negb_false_iff in E1, E2. split; [exact E2|]. destruct (queue (lim s)); [reflexivity | discriminate].
Qed.

(* the order "test, check, take" (what Lock / Semaphore had before F53): total 1; task 1 finds the token free, its check
   yields; task 2 takes the token; the check returns and task 1 takes it too: 2 borrowers of 1 token *)
Definition f53_ops : list eop := [EnterCancelled 1 1; L (AcqOnNowait 2 2); SpinReturn 1].

Theorem lim_check_then_take_across_yield_refuted_pinned :
  let s := final (estep true) (einit (Some 1)) f53_ops in
  borrowers (lim s) = [1; 2] /\ total (lim s) = Some 1 /\
  snd (estep true (final (estep true) (einit (Some 1)) [EnterCancelled 1 1]) (L (AcqOnNowait 2 2))) = RDone /\
  ~ length (borrowers (lim s)) <= 1.
Proof. vm_compute. repeat split. lia. Qed.

(* the same history at HEAD: task 1 queues behind task 2's token *)
Example f53_head :
  let s := final (estep false) (einit (Some 1)) f53_ops in
  borrowers (lim s) = [2] /\ phase_of (lim s) 1 = Waiting 1 0 /\ queue (lim s) = [(1, 0)] /\ ereach (Some 1) s.
Proof. split; [reflexivity|]. split; [reflexivity|]. split; [reflexivity|]. eexists. reflexivity. Qed.

Example ex_entry_hyp :
  let s := final (estep false) (einit (Some 1)) [L (AcqOnNowait 2 2); EnterCancelled 1 7; L (Cancel 1)] in
  spin s 1 = Some 7 /\ ckmust s 1 = true /\ borrowers (lim s) = [2] /\ ereach (Some 1) s /\
  snd (estep false s (L (Resume 1))) = RCancelled /\ snd (estep false s (SpinReturn 1)) = RCancelled.
Proof. repeat split. eexists. reflexivity. Qed.
