(* Definitions shared by the two C10 models (Sem.v, Limiter.v).  Definitions only. *)
From AV Require Import Base.

Definition mem (t : nat) (l : list nat) : bool := existsb (Nat.eqb t) l.

(* remove the first occurrence (list.remove / set.discard on a duplicate-free list) *)
Fixpoint remove_one (t : nat) (l : list nat) : list nat :=
  match l with
  | [] => []
  | x :: r => if Nat.eqb x t then r else x :: remove_one t r
  end.
