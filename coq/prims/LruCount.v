(* Proofs about the Lru machine, part 2b: the counting invariant (Inv2) -- what the wrapper-level currsize says
   about the current dict -- and its preservation by the building blocks of `step`. *)
From AV Require Import Base Lru LruLockFacts LruDict LruProofs LruInv.
From AV Require Lock LockProofs.
From Coq Require Import Sorting.Sorted ZifyBool.

Definition clean5 (s : st) : Prop :=
  f_inflight s = false /\ f_waited s = false /\ f_uncounted s = false /\ f_dead s = false /\ f_phantom s = false.

Record Inv2 (cf : cfg) (s : st) : Prop := {
  (* results + counted placeholders of the running loop's dict never exceed the count, the count never maxsize *)
  I_bound : f_inflight s = false -> f_waited s = false -> f_uncounted s = false ->
              (Z.of_nat (nval (dict s) + ncnt (dict s)) <= currsize s)%Z /\
              (forall m, maxsize cf = Some m -> (currsize s <= Z.of_nat m)%Z);
  (* without any finding pattern: every counted placeholder is being computed, and the count is exact *)
  I_cnt : clean5 s -> forall x l, In x (dict s) -> se x = EPlace l true ->
            exists c p b, phase s c = CInWrapped (sk x) l p b (cur s);
  I_eq : clean5 s -> currsize s = Z.of_nat (nval (dict s) + ncnt (dict s))
}.

Lemma init_inv2 cf : Inv2 cf init.
Proof.
  constructor; cbn.
  - intros _ _ _. split; [lia|]. intros m _. lia.
  - intros _ x l [].
  - reflexivity.
Qed.

Lemma nodup_in_dget d x : NoDup (keys d) -> In x d -> dget (sk x) d = Some (se x).
Proof.
  induction d as [|y r IH]; intros Hn Hx; [contradiction|]. rewrite dget_cons.
  inversion Hn as [|a b Ha Hb]; subst. destruct Hx as [->|Hx]; [now rewrite Nat.eqb_refl|].
  destruct (Nat.eqb_spec (sk y) (sk x)) as [E|E]; [|now apply IH].
  exfalso. apply Ha. rewrite E. apply in_keys, Hx.
Qed.

(* a state with the same dict, phases, count and (at most fewer false) flags *)
Lemma inv2_same cf s s' :
  Inv2 cf s ->
  (forall g, dicts s' g = dicts s g) -> cur s' = cur s -> currsize s' = currsize s ->
  (forall c, phase s' c = phase s c) ->
  (f_inflight s' = false -> f_inflight s = false) -> (f_waited s' = false -> f_waited s = false) ->
  (f_uncounted s' = false -> f_uncounted s = false) -> (f_dead s' = false -> f_dead s = false) ->
  (f_phantom s' = false -> f_phantom s = false) ->
  Inv2 cf s'.
Proof.
  intros J E1 E2 E3 E4 F1 F2 F3 F4 F5. destruct J as [B C Q].
  assert (HC : clean5 s' -> clean5 s) by (unfold clean5; tauto).
  constructor; unfold dict in *; rewrite ?E1, ?E2, ?E3; auto.
  intros H x l Hx He. destruct (C (HC H) x l Hx He) as (c & p & b & Hp). exists c, p, b. now rewrite E4.
Qed.

Ltac same2_of J := apply (inv2_same _ _ _ J); sm; try reflexivity; try (intros H; exact H).

Lemma inv2_counts cf s h m : Inv2 cf s -> Inv2 cf (set_counts s h m (currsize s)).
Proof. intros J. same2_of J. Qed.

Lemma inv2_has_dict cf s : Inv2 cf s -> Inv2 cf (set_has_dict s).
Proof. intros J. same2_of J. Qed.

Lemma inv2_add_produced cf s k v : Inv2 cf s -> Inv2 cf (add_produced s k v).
Proof. intros J. same2_of J. Qed.

Lemma inv2_set_lock cf s l L : Inv2 cf s -> Inv2 cf (set_lock s l L).
Proof. intros J. same2_of J. Qed.

Lemma inv2_tick cf s :
  Inv2 cf s ->
  Inv2 cf (mk (dicts s) (cur s) (has_dict s) (hits s) (misses s) (currsize s) (locks s) (nlock s) (phase s)
              (S (now s)) (clk s) (lkey s) (produced s) (fl s)).
Proof. intros J. same2_of J. Qed.

Lemma inv2_fl cf s f :
  Inv2 cf s ->
  (fl_inflight f = false -> f_inflight s = false) -> (fl_waited f = false -> f_waited s = false) ->
  (fl_uncounted f = false -> f_uncounted s = false) -> (fl_dead f = false -> f_dead s = false) ->
  (fl_phantom f = false -> f_phantom s = false) ->
  Inv2 cf (set_fl s f).
Proof. intros J H1 H2 H3 H4 H5. apply (inv2_same _ _ _ J); sm; auto. Qed.

(* the phase of one caller changes; counted placeholders keep a computing caller *)
Lemma inv2_phase cf s c p' :
  Inv2 cf s ->
  (forall k l p b g, phase s c = CInWrapped k l p b g ->
     (exists p2 b2, p' = CInWrapped k l p2 b2 g) \/
     (clean5 s -> g = cur s -> dget k (dict s) <> Some (EPlace l true))) ->
  (forall g, NoDup (keys (dicts s g))) ->
  Inv2 cf (set_phase s c p').
Proof.
  intros J Hrun Hnd. destruct J as [B C Q]. constructor; sm.
  - exact B.
  - intros HC x l Hx He. destruct (C HC x l Hx He) as (c0 & p & b & Hp).
    destruct (Nat.eq_dec c0 c) as [->|N].
    + destruct (Hrun _ _ _ _ _ Hp) as [(p2 & b2 & ->)|Hno].
      * exists c, p2, b2. apply upd_same.
      * exfalso. apply (Hno HC eq_refl). rewrite (nodup_in_dget _ x (Hnd _) Hx), He. reflexivity.
    + exists c0, p, b. now rewrite upd_other.
  - exact Q.
Qed.

(* ---------- a placeholder for a key that is not in the current dict ---------- *)
Lemma inv2_install cf s k :
  Inv2 cf s ->
  Inv2 cf (mk (upd (dicts s) (cur s) (dict s ++ [mkslot k (EPlace (nlock s) false) (clk s)])) (cur s) (has_dict s)
              (hits s) (misses s) (currsize s)
              (upd (locks s) (nlock s) (Lock.init (negb (ackpt cf)))) (S (nlock s)) (phase s) (now s)
              (S (clk s)) (upd (lkey s) (nlock s) k) (produced s) (fl s)).
Proof.
  intros [B C Q]. unfold dict in *. constructor; sm; rewrite ?upd_same.
  - intros Hf Hw Hu. destruct (B Hf Hw Hu) as [H1 H2]. split; [|exact H2].
    rewrite nval_app, ncnt_app. unfold is_val, is_cnt. cbn. lia.
  - intros HC x l Hx He. apply in_app_or in Hx. destruct Hx as [Hx|[<-|[]]]; [eauto|discriminate].
  - intros HC. rewrite (Q HC), nval_app, ncnt_app. unfold is_val, is_cnt. cbn. lia.
Qed.

(* ---------- an expired value of the current dict is replaced by a placeholder ---------- *)
Lemma inv2_expire cf s k x v exp :
  Inv2 cf s -> dfind k (dict s) = Some x -> se x = EVal v exp ->
  Inv2 cf (mk (upd (dicts s) (cur s) (dset_in k (EPlace (nlock s) false) (dict s))) (cur s) (has_dict s)
              (hits s) (misses s) (currsize s - 1)%Z
              (upd (locks s) (nlock s) (Lock.init (negb (ackpt cf)))) (S (nlock s)) (phase s) (now s)
              (clk s) (upd (lkey s) (nlock s) k) (produced s)
              (fl_or_waited (fl s) (waited cf s k (cur s)))).
Proof.
  intros [B C Q] Hfind Hse. unfold dict in *.
  destruct (counts_dset_in k (EPlace (nlock s) false) _ x Hfind) as [N1 N2].
  unfold is_val, is_cnt in N1, N2. rewrite Hse in N1, N2. cbn in N1, N2.
  assert (HC' : clean5 (mk (upd (dicts s) (cur s) (dset_in k (EPlace (nlock s) false) (dicts s (cur s)))) (cur s)
                           (has_dict s) (hits s) (misses s) (currsize s - 1)%Z
                           (upd (locks s) (nlock s) (Lock.init (negb (ackpt cf)))) (S (nlock s)) (phase s) (now s)
                           (clk s) (upd (lkey s) (nlock s) k) (produced s)
                           (fl_or_waited (fl s) (waited cf s k (cur s)))) -> clean5 s).
  { unfold clean5. sm. intros (H1 & H2 & H3 & H4 & H5). apply orb_false_elim in H2. tauto. }
  constructor; sm; rewrite ?upd_same.
  - intros Hf Hw Hu. apply orb_false_elim in Hw. destruct Hw as [Hw _]. destruct (B Hf Hw Hu) as [H1 H2]. split.
    + lia.
    + intros m Hm. specialize (H2 m Hm). lia.
  - intros HC y l Hy He. apply in_dset_in in Hy. destruct Hy as [Hy|(z & _ & _ & ->)]; [|discriminate].
    apply (C (HC' HC) y l Hy He).
  - intros HC. rewrite (Q (HC' HC)). lia.
Qed.

(* ---------- move_to_end in dict g ---------- *)
Lemma inv2_touch cf s g k h m :
  Inv1 cf s -> Inv2 cf s ->
  Inv2 cf (mk (upd (dicts s) g (dmove k (clk s) (dicts s g))) (cur s) (has_dict s) h m (currsize s) (locks s)
              (nlock s) (phase s) (now s) (S (clk s)) (lkey s) (produced s) (fl s)).
Proof.
  intros I [B C Q]. unfold dict in *.
  destruct (Nat.eq_dec (cur s) g) as [<-|N].
  - destruct (counts_dmove k (clk s) (dicts s (cur s)) (I_nodup _ _ I _)) as [N1 N2].
    constructor; sm; rewrite ?upd_same.
    + intros Hf Hw Hu. destruct (B Hf Hw Hu) as [H1 H2]. split; [lia|exact H2].
    + intros HC y l Hy He. apply in_dmove in Hy. destruct Hy as [Hy|(z & Hz & Hk & ->)]; [eauto|].
      cbn in *. rewrite <- Hk. eauto.
    + intros HC. rewrite (Q HC). lia.
  - constructor; sm; rewrite ?upd_other by assumption; auto.
Qed.

(* ---------- what the flags say about the evicted head when they stay false ---------- *)
Lemma evict_flags_other cf s g x0 :
  fl_dead (evict_flags cf s g x0) = fl_dead (fl s) /\ fl_phantom (evict_flags cf s g x0) = fl_phantom (fl s).
Proof. unfold evict_flags. destruct (se x0); [destruct (referenced cf s l)|]; split; reflexivity. Qed.

Lemma evict_flags_false3 cf s g x0 :
  fl_inflight (evict_flags cf s g x0) = false -> fl_waited (evict_flags cf s g x0) = false ->
  fl_uncounted (evict_flags cf s g x0) = false ->
  f_inflight s = false /\ f_waited s = false /\ f_uncounted s = false /\
  match se x0 with
  | EPlace l b => referenced cf s l = false /\ b = true
  | EVal _ _ => waited cf s (sk x0) g = false
  end.
Proof.
  unfold evict_flags, f_inflight, f_waited, f_uncounted. destruct (se x0) as [l b|v e].
  - destruct (referenced cf s l); cbn; intros H1 H2 H3.
    + apply orb_false_elim in H1. destruct H1. discriminate.
    + apply orb_false_elim in H3. destruct H3 as [H3 H4]. destruct b; [auto|discriminate].
  - cbn. intros H1 H2 H3. apply orb_false_elim in H2. tauto.
Qed.

(* the placeholder an acquiring caller finds under its key is not yet counted *)
Lemma own_uncounted cf s c k l t0 l' b' :
  Inv1 cf s -> Inv2 cf s -> clean5 s -> phase s c = CLockWait k l t0 (cur s) -> In c (Lock.held (locks s l)) ->
  dget k (dict s) = Some (EPlace l' b') -> l' = l /\ b' = false.
Proof.
  intros I J HC Hp Hh Hd. destruct HC as (Hf & Hw & Hu & Hdd & Hph).
  assert (l' = l) by (eapply own_place; eauto). subst l'. split; [reflexivity|].
  destruct b'; [exfalso|reflexivity].
  destruct (dget_some _ _ _ Hd) as (x & _ & Hse & Hk & Hin).
  destruct (I_cnt _ _ J (conj Hf (conj Hw (conj Hu (conj Hdd Hph)))) x l Hin Hse) as (c0 & p & b & Hp0).
  pose proof (L_run _ _ _ _ _ (I_lp _ _ I) _ _ _ _ _ _ Hp0) as Hh0.
  pose proof (held_unique _ _ _ (L_inv _ _ _ _ _ (I_lp _ _ I) l) Hh0 Hh). subst c0. congruence.
Qed.

(* ---------- the miss bookkeeping ---------- *)
Lemma inv2_miss_noevict cf s c k l t0 g l' b' :
  Inv1 cf s -> Inv2 cf s -> phase s c = CLockWait k l t0 g -> In c (Lock.held (locks s l)) ->
  dget k (dicts s g) = Some (EPlace l' b') -> full cf s = false ->
  Inv2 cf (mk (upd (dicts s) g (dmark k (dicts s g))) (cur s) (has_dict s) (hits s) (S (misses s))
              (currsize s + 1)%Z (locks s)
              (nlock s) (upd (phase s) c (CInWrapped k l None false g)) (now s) (clk s) (lkey s) (produced s)
              (fl s)).
Proof.
  intros I J Hp Hh Hd Hfull. unfold dict in *.
  assert (Hgen : f_phantom s = false -> g = cur s) by (intros H; apply (I_gen _ _ I H c); now rewrite Hp).
  constructor; sm.
  - intros Hf Hw Hu. destruct (I_bound _ _ J Hf Hw Hu) as [H1 H2]. unfold dict in *. split.
    + destruct (Nat.eq_dec (cur s) g) as [<-|N]; [rewrite upd_same|rewrite upd_other by assumption; lia].
      rewrite nval_dmark. pose proof (ncnt_dmark_le k (dicts s (cur s))). lia.
    + intros m Hm. unfold full in Hfull. rewrite Hm in Hfull. lia.
  - intros HC x l0 Hx He. destruct HC as (Hf & Hw & Hu & Hdd & Hph). pose proof (Hgen Hph) as ->.
    rewrite upd_same in Hx. apply in_dmark in Hx.
    destruct Hx as [Hx|(y & z & l1 & b1 & Hy & Hz & Hk & Hse & ->)].
    + destruct (I_cnt _ _ J (conj Hf (conj Hw (conj Hu (conj Hdd Hph)))) x l0 Hx He) as (c0 & p & b & Hp0).
      exists c0, p, b. rewrite upd_other; [exact Hp0|]. intros ->. congruence.
    + cbn in He. injection He as <-. cbn [sk].
      pose proof (nodup_in_dget _ z (I_nodup _ _ I _) Hz) as Hg. rewrite Hk, Hd, Hse in Hg. injection Hg as <- _.
      assert (l' = l) by (eapply own_place; eauto). subst l'.
      exists c, None, false. apply upd_same.
  - intros HC. destruct HC as (Hf & Hw & Hu & Hdd & Hph). pose proof (Hgen Hph) as ->. rewrite upd_same.
    destruct (own_uncounted cf s c k l t0 l' b' I J (conj Hf (conj Hw (conj Hu (conj Hdd Hph)))) Hp Hh Hd) as [-> ->].
    rewrite nval_dmark, (ncnt_dmark_uncounted k _ l Hd).
    rewrite (I_eq _ _ J (conj Hf (conj Hw (conj Hu (conj Hdd Hph))))). unfold dict. lia.
Qed.

Lemma inv2_miss_evict cf s c k l t0 g l' b' x0 r :
  Inv1 cf s -> Inv2 cf s -> phase s c = CLockWait k l t0 g -> In c (Lock.held (locks s l)) ->
  dget k (dicts s g) = Some (EPlace l' b') -> dicts s g = x0 :: r ->
  Inv2 cf (mk (upd (dicts s) g (dmark k r)) (cur s) (has_dict s) (hits s) (S (misses s)) (currsize s) (locks s)
              (nlock s) (upd (phase s) c (CInWrapped k l None false g)) (now s) (clk s) (lkey s) (produced s)
              (evict_flags cf s g x0)).
Proof.
  intros I J Hp Hh Hd Hdict. unfold dict in *.
  assert (Hc : c < ncall cf) by (apply (L_ncall _ _ _ _ _ (I_lp _ _ I)); congruence).
  destruct (evict_flags_other cf s g x0) as [Ed Eph].
  assert (Hgen : f_phantom s = false -> g = cur s) by (intros H; apply (I_gen _ _ I H c); now rewrite Hp).
  assert (Hcl : clean5 (mk (upd (dicts s) g (dmark k r)) (cur s) (has_dict s) (hits s) (S (misses s)) (currsize s)
                           (locks s) (nlock s) (upd (phase s) c (CInWrapped k l None false g)) (now s) (clk s)
                           (lkey s) (produced s) (evict_flags cf s g x0)) ->
                clean5 s /\ g = cur s /\ exists v e, se x0 = EVal v e).
  { unfold clean5. sm. rewrite Ed, Eph. intros (H1 & H2 & H3 & H4 & H5).
    destruct (evict_flags_false3 cf s g x0 H1 H2 H3) as (Hf & Hw & Hu & Hx0).
    assert (HC : clean5 s) by (unfold clean5, f_inflight, f_waited, f_uncounted, f_dead, f_phantom; auto).
    pose proof (Hgen H5) as ->. refine (conj HC (conj eq_refl _)).
    destruct (se x0) as [l0 b0|v e] eqn:Hse; [exfalso|eauto]. destruct Hx0 as [Hr ->].
    assert (Hin : In x0 (dicts s (cur s))) by (rewrite Hdict; now left).
    destruct (I_cnt _ _ J HC x0 l0 Hin Hse) as (c0 & p & b & Hp0).
    eapply (referenced_false cf s l0 c0); [exact Hr| |rewrite Hp0; reflexivity].
    apply (L_ncall _ _ _ _ _ (I_lp _ _ I)). congruence. }
  constructor; sm.
  - intros Hf Hw Hu. destruct (evict_flags_false3 cf s g x0 Hf Hw Hu) as (Hf0 & Hw0 & Hu0 & Hx0).
    destruct (I_bound _ _ J Hf0 Hw0 Hu0) as [H1 H2]. unfold dict in *. split; [|exact H2].
    destruct (Nat.eq_dec (cur s) g) as [<-|N]; [rewrite upd_same|rewrite upd_other by assumption; lia].
    rewrite Hdict, nval_cons, ncnt_cons in H1. rewrite nval_dmark. pose proof (ncnt_dmark_le k r).
    unfold is_val, is_cnt in H1. destruct (se x0) as [l0 b0|v e]; [destruct Hx0 as [_ ->]|]; cbn in H1; lia.
  - intros HC x l0 Hx He. destruct (Hcl HC) as (HC0 & -> & v0 & e0 & Hse0).
    rewrite upd_same in Hx. apply in_dmark in Hx.
    assert (Hsub : forall y, In y r -> In y (dicts s (cur s))) by (intros y Hy; rewrite Hdict; now right).
    destruct Hx as [Hx|(y & z & l1 & b1 & Hy & Hz & Hk & Hse & ->)].
    + destruct (I_cnt _ _ J HC0 x l0 (Hsub _ Hx) He) as (c1 & p & b & Hp1).
      exists c1, p, b. rewrite upd_other; [exact Hp1|]. intros ->. congruence.
    + cbn in He. injection He as <-. cbn [sk].
      pose proof (nodup_in_dget _ z (I_nodup _ _ I (cur s)) (Hsub _ Hz)) as Hg. rewrite Hk, Hd, Hse in Hg.
      injection Hg as <- _.
      assert (l' = l) by (destruct HC0 as (Hf & Hw & _); eapply own_place; eauto). subst l'.
      exists c, None, false. apply upd_same.
  - intros HC. destruct (Hcl HC) as (HC0 & -> & v0 & e0 & Hse0). rewrite upd_same.
    destruct (own_uncounted cf s c k l t0 l' b' I J HC0 Hp Hh Hd) as [-> ->].
    assert (Hne : sk x0 <> k).
    { intros E. rewrite Hdict, dget_cons, E, Nat.eqb_refl, Hse0 in Hd. discriminate. }
    assert (Hdr : dget k r = Some (EPlace l false)) by (rewrite (dget_tl k x0 r Hne), <- Hdict; exact Hd).
    rewrite nval_dmark, (ncnt_dmark_uncounted k r l Hdr), (I_eq _ _ J HC0). unfold dict.
    rewrite Hdict, nval_cons, ncnt_cons. unfold is_val, is_cnt. rewrite Hse0. cbn. lia.
Qed.

(* ---------- the wrapped function returned: store, release, return ---------- *)
Lemma inv2_store_out cf s c k l v g :
  Inv1 cf s -> Inv2 cf s -> phase s c = CInWrapped k l (Some (WRet v)) false g ->
  Inv2 cf (mk (upd (dicts s) g (dstore k (EVal v (new_exp cf (now s))) (clk s) (dicts s g))) (cur s) (has_dict s)
              (hits s) (misses s) (currsize s)
              (upd (locks s) l (fst (Lock.step (locks s l) (Lock.Release c)))) (nlock s)
              (upd (phase s) c CIdle) (now s) (S (clk s)) (lkey s) ((k, v) :: produced s) (fl s)).
Proof.
  intros I J Hp. unfold dict in *.
  assert (Hcount : f_inflight s = false -> f_waited s = false ->
            nval (dstore k (EVal v (new_exp cf (now s))) (clk s) (dicts s g)) = nval (dicts s g) + 1 /\
            ncnt (dstore k (EVal v (new_exp cf (now s))) (clk s) (dicts s g)) + 1 = ncnt (dicts s g)).
  { intros Hf Hw. pose proof (I_A _ _ I Hf Hw _ _ _ _ _ _ Hp) as HA.
    destruct (dget_some _ _ _ HA) as (x & E & Hse & _). unfold dstore. rewrite E.
    destruct (counts_dset_in k (EVal v (new_exp cf (now s))) _ x E) as [N1 N2].
    unfold is_val, is_cnt in N1, N2. rewrite Hse in N1, N2. cbn in N1, N2. lia. }
  constructor; sm.
  - intros Hf Hw Hu. destruct (I_bound _ _ J Hf Hw Hu) as [H1 H2]. unfold dict in *. split; [|exact H2].
    destruct (Nat.eq_dec (cur s) g) as [<-|N]; [rewrite upd_same|rewrite upd_other by assumption; lia].
    destruct (Hcount Hf Hw). lia.
  - intros HC x l0 Hx He. destruct HC as (Hf & Hw & Hu & Hdd & Hph).
    assert (g = cur s) by (apply (I_gen _ _ I Hph c); now rewrite Hp). subst g. rewrite upd_same in Hx.
    pose proof (nodup_in_dget _ x (nodup_dstore k _ (clk s) _ (I_nodup _ _ I (cur s))) Hx) as Hg.
    rewrite dget_dstore in Hg. destruct (Nat.eqb_spec (sk x) k) as [E|E]; [congruence|].
    destruct (dget_some _ _ _ Hg) as (x' & _ & Hse' & Hk' & Hin').
    destruct (I_cnt _ _ J (conj Hf (conj Hw (conj Hu (conj Hdd Hph)))) x' l0 Hin' (eq_trans Hse' He))
      as (c0 & p & b & Hp0).
    exists c0, p, b. rewrite upd_other; [congruence|]. intros ->. rewrite Hp in Hp0. congruence.
  - intros HC. destruct HC as (Hf & Hw & Hu & Hdd & Hph).
    assert (g = cur s) by (apply (I_gen _ _ I Hph c); now rewrite Hp). subst g. rewrite upd_same.
    destruct (Hcount Hf Hw). rewrite (I_eq _ _ J (conj Hf (conj Hw (conj Hu (conj Hdd Hph))))). unfold dict. lia.
Qed.

(* ---------- cache_clear(), a new event loop ---------- *)
Lemma inv2_clear cf s hd b :
  Inv2 cf (mk (upd (dicts s) (S (cur s)) []) (S (cur s)) hd 0 0 0%Z (locks s) (nlock s) (phase s) (now s) (clk s)
              (lkey s) (produced s) (fl_or_phantom (fl s) b)).
Proof.
  constructor; sm; rewrite upd_same.
  - intros _ _ _. cbn. split; [lia|]. intros m _. lia.
  - intros _ x l [].
  - reflexivity.
Qed.

Lemma inv2_newloop cf s hd :
  Inv2 cf s ->
  Inv2 cf (mk (upd (dicts s) (S (cur s)) []) (S (cur s)) hd (hits s) (misses s) (currsize s) (locks s) (nlock s)
              (phase s) (now s) (clk s) (lkey s) (produced s)
              (fl_or_phantom (fl s) (negb (Z.eqb (currsize s) 0)))).
Proof.
  intros J. constructor; sm; rewrite upd_same.
  - intros Hf Hw Hu. destruct (I_bound _ _ J Hf Hw Hu) as [H1 H2]. cbn. split; [lia|exact H2].
  - intros _ x l [].
  - intros (_ & _ & _ & _ & H). apply orb_false_elim in H. destruct H as [_ H]. cbn. lia.
Qed.
