(* P/Lock: executable model of anyio._backends._asyncio.Lock (lines 1878-1959 of the pinned tree).
   Actions are the atomic segments of acquire / acquire_nowait / release plus the kernel actions
   Resume (the task's scheduled wake-up runs) and Cancel (asyncio Task.cancel() on a blocked task).
   Definitions only: proofs live in LockProofs.v. *)
From AV Require Import Base.

Inductive fstate := FPending | FSet | FCancelled.

Inductive phase :=
| Idle                  (* at a decision point of its program (may or may not hold the lock) *)
| FastYield             (* took the lock on the uncontended path, suspended in cancel_shielded_checkpoint *)
| Waiting (f : fid).    (* enqueued (task, fut) and suspended on fut *)

Inductive op :=
| AcqBegin (t : tid)    (* t calls `await lock.acquire()` and runs up to its first suspension / return *)
| AcqNowait (t : tid)
| Release (t : tid)
| Resume (t : tid)      (* the ready wake-up / step of blocked task t runs *)
| Cancel (t : tid).     (* Task.cancel() on blocked task t *)

Inductive res :=
| RDone       (* the call returned normally *)
| RBlocked    (* the task suspended inside the call *)
| RCancelled  (* CancelledError propagated out of the call *)
| RRuntime    (* RuntimeError *)
| RWouldBlock
| RNone       (* environment op: nothing to report *)
| RRejected.  (* op not possible in this state (harness must never produce it) *)

Record st := mk {
  fast : bool;
  owner : option tid;
  waiters : list (tid * fid);
  futs : fid -> fstate;
  nfut : fid;
  phase_of : tid -> phase;
  mustc : tid -> bool;          (* Task._must_cancel *)
  held : list tid;              (* ghost: tasks to which acquire returned and that have not released *)
  enq : list (tid * fid)        (* ghost: every (task,fut) ever enqueued, in order *)
}.

Definition init (fa : bool) : st :=
  mk fa None [] (fun _ => FPending) 0 (fun _ => Idle) (fun _ => false) [] [].

Definition is_idle (p : phase) := match p with Idle => true | _ => false end.

Definition tid_eqb_opt (o : option tid) (t : tid) : bool :=
  match o with Some x => Nat.eqb x t | None => false end.

(* Lock.release(), the pop loop (lines 1946-1955): returns new owner, remaining queue, futures *)
Fixpoint handoff (ws : list (tid * fid)) (fu : fid -> fstate)
  : option tid * list (tid * fid) * (fid -> fstate) :=
  match ws with
  | [] => (None, [], fu)
  | (t, f) :: r =>
      match fu f with
      | FCancelled => handoff r fu
      | _ => (Some t, r, upd fu f FSet)
      end
  end.

Definition remove_item (t : tid) (f : fid) (ws : list (tid * fid)) : list (tid * fid) :=
  (* deque.remove(item): first occurrence *)
  (fix go ws := match ws with
                | [] => []
                | (t', f') :: r => if andb (Nat.eqb t' t) (Nat.eqb f' f) then r else (t', f') :: go r
                end) ws.

Definition remove_tid (t : tid) (l : list tid) : list tid :=
  filter (fun x => negb (Nat.eqb x t)) l.

(* release() executed by task t, owner already checked *)
Definition do_release (s : st) (t : tid) : st :=
  let '(o, ws, fu) := handoff (waiters s) (futs s) in
  mk (fast s) o ws fu (nfut s) (phase_of s) (mustc s) (remove_tid t (held s)) (enq s).

Definition set_phase (s : st) (t : tid) (p : phase) : st :=
  mk (fast s) (owner s) (waiters s) (futs s) (nfut s) (upd (phase_of s) t p) (mustc s) (held s) (enq s).

Definition set_mustc (s : st) (t : tid) (b : bool) : st :=
  mk (fast s) (owner s) (waiters s) (futs s) (nfut s) (phase_of s) (upd (mustc s) t b) (held s) (enq s).

Definition add_held (s : st) (t : tid) : st :=
  mk (fast s) (owner s) (waiters s) (futs s) (nfut s) (phase_of s) (mustc s) (t :: held s) (enq s).

Definition step (s : st) (o : op) : st * res :=
  match o with
  | AcqBegin t =>
      if negb (is_idle (phase_of s t)) then (s, RRejected) else
      match owner s, waiters s with
      | None, [] =>
          (* checkpoint_if_cancelled: the caller is not in a cancelled scope here (C08 covers that) *)
          let s1 := mk (fast s) (Some t) [] (futs s) (nfut s) (phase_of s) (mustc s) (held s) (enq s) in
          if fast s then (add_held s1 t, RDone)
          else (set_phase s1 t FastYield, RBlocked)
      | _, _ =>
          if tid_eqb_opt (owner s) t then (s, RRuntime) else
          let f := nfut s in
          (mk (fast s) (owner s) (waiters s ++ [(t, f)]) (upd (futs s) f FPending) (S f)
              (upd (phase_of s) t (Waiting f)) (mustc s) (held s) (enq s ++ [(t, f)]), RBlocked)
      end
  | AcqNowait t =>
      if negb (is_idle (phase_of s t)) then (s, RRejected) else
      match owner s, waiters s with
      | None, [] =>
          (add_held (mk (fast s) (Some t) [] (futs s) (nfut s) (phase_of s) (mustc s) (held s) (enq s)) t, RDone)
      | _, _ => if tid_eqb_opt (owner s) t then (s, RRuntime) else (s, RWouldBlock)
      end
  | Release t =>
      if negb (is_idle (phase_of s t)) then (s, RRejected) else
      if tid_eqb_opt (owner s) t then (do_release s t, RDone) else (s, RRuntime)
  | Cancel t =>
      match phase_of s t with
      | Idle => (s, RRejected)
      | FastYield => (set_mustc s t true, RNone)       (* sleep(0): no waiter future *)
      | Waiting f =>
          match futs s f with
          | FPending =>
              (mk (fast s) (owner s) (waiters s) (upd (futs s) f FCancelled) (nfut s)
                  (phase_of s) (mustc s) (held s) (enq s), RNone)
          | _ => (set_mustc s t true, RNone)
          end
      end
  | Resume t =>
      match phase_of s t with
      | Idle => (s, RRejected)
      | FastYield =>
          let s1 := set_mustc (set_phase s t Idle) t false in
          if mustc s t then
            (* except CancelledError: self.release(); raise   (line 1900-1902) *)
            if tid_eqb_opt (owner s1) t then (do_release s1 t, RCancelled) else (s1, RRuntime)
          else (add_held s1 t, RDone)
      | Waiting f =>
          match futs s f with
          | FPending => (s, RRejected)        (* not runnable *)
          | FCancelled =>
              let s1 := set_mustc (set_phase s t Idle) t false in
              (mk (fast s1) (owner s1) (remove_item t f (waiters s1)) (futs s1) (nfut s1)
                  (phase_of s1) (mustc s1) (held s1) (enq s1), RCancelled)
          | FSet =>
              let s1 := set_mustc (set_phase s t Idle) t false in
              if mustc s t then
                if tid_eqb_opt (owner s1) t then (do_release s1 t, RCancelled) else (s1, RRuntime)
              else (add_held s1 t, RDone)
          end
      end
  end.

(* ---- observable output of a step (what the harness compares) ---- *)
Definition res_code (r : res) : Z :=
  match r with
  | RDone => 0 | RBlocked => 1 | RCancelled => 2 | RRuntime => 3 | RWouldBlock => 4 | RNone => 5
  | RRejected => 9
  end%Z.

Definition observe (s : st) (r : res) : list Z :=
  [res_code r; bz (match owner s with Some _ => true | None => false end); match owner s with Some t => nz t | None => 0%Z end;
   nz (length (waiters s))].

(* ---- codec: flat integer encoding of a case (shared with the Python harness) ---- *)
Definition decode_op (c t : Z) : op :=
  match c with
  | 0 => AcqBegin (zn t) | 1 => AcqNowait (zn t) | 2 => Release (zn t)
  | 3 => Resume (zn t) | _ => Cancel (zn t)
  end%Z.

Fixpoint decode_ops (l : list Z) : list op :=
  match l with
  | c :: t :: r => decode_op c t :: decode_ops r
  | _ => []
  end.

Fixpoint run_obs (s : st) (ops : list op) : list Z :=
  match ops with
  | [] => []
  | o :: r => let '(s1, out) := step s o in observe s1 out ++ run_obs s1 r
  end.

(* case = fast_acquire :: flat ops *)
Definition run_case (c : list Z) : list Z :=
  match c with
  | fa :: r => run_obs (init (zb fa)) (decode_ops r)
  | [] => []
  end.
