(* C08: checkpoint shapes of the fast paths.  Each potentially blocking primitive, in a state in which it can
   complete without waiting, executes a fixed sequence of atoms; `run_shape` is their semantics with respect to
   "is the caller's scope effectively cancelled".  The table `row_shape` is validated row by row against the real
   operations by harness/c08.py; the theorems are about every shape of the two sanctioned forms. *)
From AV Require Import Base.

Inductive atom :=
| CkIf      (* checkpoint_if_cancelled(): raises (after yielding) iff the scope is effectively cancelled *)
| Ck        (* checkpoint(): yields once, then raises iff the scope is effectively cancelled *)
| ShieldY   (* cancel_shielded_checkpoint(): yields once, immune to AnyIO cancellation *)
| Effect.   (* the operation's effect: acquire / send / consume / start *)

Record outcome := mkOut { raised : bool; effects : nat; yields : nat }.

Fixpoint run_shape (cancelled : bool) (l : list atom) (acc : outcome) : outcome :=
  match l with
  | [] => acc
  | CkIf :: r => if cancelled then mkOut true (effects acc) (S (yields acc)) else run_shape cancelled r acc
  | Ck :: r => if cancelled then mkOut true (effects acc) (S (yields acc))
               else run_shape cancelled r (mkOut (raised acc) (effects acc) (S (yields acc)))
  | ShieldY :: r => run_shape cancelled r (mkOut (raised acc) (effects acc) (S (yields acc)))
  | Effect :: r => run_shape cancelled r (mkOut (raised acc) (S (effects acc)) (yields acc))
  end.

Definition out0 := mkOut false 0 0.

(* the rows of the table (ids shared with harness/c08.py) *)
Definition row_shape (row : nat) : list atom :=
  match row with
  | 1 => [Ck]                          (* sleep(0) *)
  | 2 => [Ck]                          (* sleep(-1) *)
  | 3 => [Ck]                          (* lowlevel.checkpoint() *)
  | 4 => [Ck]                          (* Event.wait() on a set event *)
  | 5 => [CkIf; Effect; ShieldY]       (* Lock.acquire() uncontended *)
  | 6 => [CkIf; Effect; ShieldY]       (* Semaphore.acquire() with value > 0 *)
  | 7 => [CkIf; Effect; ShieldY]       (* CapacityLimiter.acquire() with a free token *)
  | 8 => [CkIf; Effect; ShieldY]       (* Condition.acquire() uncontended *)
  | 9 => [CkIf; Effect]                (* Condition.wait(): only the cancelled entry is a fast path *)
  | 10 => [Ck; Effect]                 (* memory send(), buffer has room *)
  | 11 => [Ck; Effect]                 (* memory send(), a receiver is waiting *)
  | 12 => [Ck; Effect]                 (* memory receive(), buffer has items *)
  | 13 => [Ck; Effect]                 (* memory receive(), a sender is waiting *)
  | 14 => [Ck; Effect]                 (* to_thread.run_sync(): entry checkpoint, then limiter + thread *)
  | 15 => [Ck]                         (* TaskHandle.wait() on a finished task *)
  | 16 => [Ck]                         (* await handle on a finished task *)
  | 17 => [Ck]                         (* Future.wait() on a finished future *)
  | 18 => [CkIf; Effect; ShieldY]      (* functools.reduce(): check first, consume / call, always yield (F22) *)
  | 22 => [CkIf; ShieldY]              (* functools.reduce() with zero callback invocations *)
  (* the same operations on objects created while no event loop was running (the *Adapter classes) *)
  | 23 => [Ck]                         (* Event() created and set() outside the loop: wait() *)
  | 24 => [CkIf; Effect; ShieldY]      (* Lock() created outside the loop: acquire() uncontended *)
  | 25 => [CkIf; Effect; ShieldY]      (* Semaphore(1) created outside the loop: acquire() *)
  | 26 => [CkIf; Effect; ShieldY]      (* CapacityLimiter(1) created outside the loop: acquire() *)
  | 21 => [CkIf; Effect]               (* Condition.wait() in a cancelled scope while another task queues on the lock *)
  | 19 => [Ck]                         (* await Future on a finished future *)
  | 20 => [Ck]                         (* await Future on a failed / cancelled future: raises after the checkpoint *)
  (* documented exemptions *)
  | 30 => [CkIf; Effect]               (* Lock.acquire() with fast_acquire=True *)
  | 31 => [Effect]                     (* *_nowait / close *)
  | _ => []
  end.

Definition starts_with_check (l : list atom) : bool :=
  match l with CkIf :: _ => true | Ck :: _ => true | _ => false end.

Definition has_yield (l : list atom) : bool :=
  existsb (fun a => match a with Ck => true | ShieldY => true | _ => false end) l.

Definition count_effects (l : list atom) : nat :=
  length (filter (fun a => match a with Effect => true | _ => false end) l).

Definition checked_rows : list nat := [1; 2; 3; 4; 5; 6; 7; 8; 10; 11; 12; 13; 14; 15; 16; 17; 18; 19; 20; 22; 23; 24; 25; 26].

(* codec: [row; cancelled] -> [raised; effects; yields >= 1] *)
Definition run_case (c : list Z) : list Z :=
  match c with
  | [row; canc] =>
      let o := run_shape (zb canc) (row_shape (zn row)) out0 in
      [bz (raised o); nz (effects o); bz (Nat.ltb 0 (yields o))]
  | _ => []
  end.
