(* Tie T for C10 / Semaphore: interpreting the segments regenerated from /repo's source (SemGen.v) IS the
   hand-written model's step (Sem.v), for every state and task. *)
From AV Require Import Base C10Defs C10Lib PrimImp Sem SemProofs SemThms SemImp SemGen.

Lemma wl_eqb_refl l : wl_eqb l l = true.
Proof.
  induction l as [|[t f] r IH]; cbn; [reflexivity|].
  now rewrite !Nat.eqb_refl, IH.
Qed.

Lemma exec_seq a b t l g k :
  exec (SSeq a b) t l g k =
  let '(l1, g1, k1, o) := exec a t l g k in match o with ONext => exec b t l1 g1 k1 | _ => (l1, g1, k1, o) end.
Proof. reflexivity. Qed.

Lemma exec_if c a b t l g k :
  exec (SIf c a b) t l g k =
  match eval_cond c l k with
  | CB true => exec a t l g k | CB false => exec b t l g k
  | CX x => (l, g, k, ORaise x) | CStuck => (l, g, k, OStuck)
  end.
Proof. reflexivity. Qed.

(* ---- release(): the pop loop is Sem.handoff ---- *)
Definition woke_log (g : log) (o : option tid) : log :=
  match o with Some w => mklog (w :: g_woke g) (g_grant g) (g_enq g) (g_arr g) | None => g end.

Lemma wloop_handoff (evalc : loc -> heap -> cres) (run : loc -> log -> heap -> result) :
  (forall l k, evalc l k = CB (negb (is_nil (h_waiters k)))) ->
  (forall l g k w f r, h_waiters k = (w, f) :: r -> exists l' oc, (oc = OContinue \/ oc = ONext) /\
     run l g k =
     if is_fcancelled (h_futs k f) then (l', g, set_waiters k r, oc)
     else (l', woke_log g (Some w), set_futs (set_waiters k r) (upd (h_futs k) f FSet) (h_nfut k), OReturn)) ->
  forall ws l g k, h_waiters k = ws ->
  exists l',
    wloop evalc run QWaiters ws l g k =
    (l', woke_log g (fst (fst (handoff ws (h_futs k)))),
     set_futs (set_waiters k (snd (fst (handoff ws (h_futs k))))) (snd (handoff ws (h_futs k))) (h_nfut k),
     match fst (fst (handoff ws (h_futs k))) with Some _ => OReturn | None => ONext end).
Proof.
  intros Hc Hrun. induction ws as [|[w f] r IH]; intros l g k Hw.
  - exists l. cbn [wloop]. rewrite Hc, Hw. cbn. destruct k; cbn in *; subst; reflexivity.
  - cbn [wloop handoff]. rewrite Hc, Hw. cbn [is_nil negb].
    destruct (Hrun l g k w f r Hw) as (l' & oc & Hoc & Hr). rewrite Hr. clear Hr.
    destruct (h_futs k f) eqn:Ef; cbn [is_fcancelled fst snd].
    + exists l'. reflexivity.
    + exists l'. reflexivity.
    + destruct (IH l' g (set_waiters k r) eq_refl) as (l2 & Hex).
      exists l2. cbn [qget set_waiters h_waiters h_futs h_nfut] in *.
      destruct Hoc as [-> | ->]; rewrite wl_eqb_refl, Hex; destruct k; reflexivity.
Qed.

Definition at_max_h (k : heap) : bool :=
  match h_maxv k with Some m => Nat.eqb (h_value k) m | None => false end.

Definition rel_heap (k : heap) : heap :=
  let '(o, ws, fu) := handoff (h_waiters k) (h_futs k) in
  mkh (h_fast k) (h_maxv k) (match o with Some _ => h_value k | None => S (h_value k) end) ws fu (h_nfut k)
      (h_total k) (h_borrowers k) (h_queue k) (h_evset k) (h_nev k).

Definition rel_woke (k : heap) : option tid := fst (fst (handoff (h_waiters k) (h_futs k))).

Lemma core_rel_core s : core (rel_core s) = rel_heap (core s).
Proof.
  unfold rel_core, rel_heap. cbn. destruct (handoff (waiters s) (futs s)) as [[[w|] ws] fu]; reflexivity.
Qed.

(* the statements of release() after the max_value test: the pop loop, then `self._value += 1` *)
Ltac release_tail k :=
  rewrite exec_seq; cbn [exec];
  match goal with |- context [wloop ?ec ?rn QWaiters ?fu ?l0 ?g0 ?k0] =>
    let l1 := fresh "l1" in let Hex := fresh "Hex" in
    destruct (wloop_handoff ec rn) with (ws := fu) (l := l0) (g := g0) (k := k0) as (l1 & Hex);
    [ intros ? ?; cbn; reflexivity
    | let Hw := fresh "Hw" in
      intros ? ? ? ? ? ? Hw; cbn; rewrite Hw; cbn;
      match goal with |- context [h_futs ?kk ?ff] => destruct (h_futs kk ff) end; cbn;
      eexists _, _; (split; cycle 1; [reflexivity | first [left; reflexivity | right; reflexivity]])
    | reflexivity
    | rewrite Hex; unfold rel_woke, rel_heap; cbn [qget];
      destruct (handoff (h_waiters k) (h_futs k)) as [[[hw|] hws] hfu]; cbn [fst snd];
      [ eexists _, OReturn; split; [reflexivity | now left]
      | eexists _, ONext; cbn; split; [reflexivity | now right] ] ]
  end.

Lemma exec_release t l g k : exists l' o,
  exec sem_release_entry t l g k =
    (if at_max_h k then (l, g, k, ORaise EValue) else (l', woke_log g (rel_woke k), rel_heap k, o)) /\
  (o = OReturn \/ o = ONext).
Proof.
  unfold sem_release_entry.
  match goal with |- context [exec (SSeq ?hd ?tl) _ _ _ _] => set (tail := tl) end.
  rewrite exec_seq. cbn [exec eval_cond]. unfold at_max_h.
  destruct (h_maxv k) as [m|]; [destruct (Nat.eqb (h_value k) m)|]; cbn [andb].
  - exists l, ONext. split; [reflexivity | now right].
  - subst tail. release_tail k.
  - subst tail. release_tail k.
Qed.

Lemma exec_call_release t l g k :
  exec (SCall sem_release_entry ArgNone) t l g k =
    if at_max_h k then (touch l, g, k, ORaise EValue)
    else (touch l, woke_log g (rel_woke k), rel_heap k, ONext).
Proof.
  cbn [exec].
  destruct (exec_release t (mkloc None None None None None false false) g k) as (l' & o & Hex & Ho).
  rewrite Hex. destruct (at_max_h k); [reflexivity|].
  destruct Ho as [-> | ->]; reflexivity.
Qed.

Lemma remove_fut_absent f ws : fut_in f ws = false -> remove_fut f ws = ws.
Proof.
  unfold fut_in. induction ws as [|[w f'] r IH]; cbn; [reflexivity|].
  rewrite (Nat.eqb_sym f f'). destruct (Nat.eqb f' f); cbn; [discriminate|].
  intros H. now rewrite IH.
Qed.

(* ---- one theorem per segment: step = ghost bookkeeping (lift) of the interpretation ---- *)
Theorem tie_release s t : phase_of s t = Idle ->
  step s (Release t) = lift s t KRelease (exec sem_release_entry t (loc_entry None None) log0 (core s)).
Proof.
  intros Hp. cbn [step]. rewrite Hp. cbn [is_idle negb].
  destruct (exec_release t (loc_entry None None) log0 (core s)) as (l' & o & Hex & Ho).
  rewrite Hex. change (at_max_h (core s)) with (at_max s). destruct (at_max s).
  - destruct s; reflexivity.
  - unfold lift, rel_woke, rel_heap, rel_core, set_held, set_extra.
    cbn [core h_waiters h_futs h_fast h_maxv h_value h_nfut].
    destruct (handoff (waiters s) (futs s)) as [[[w|] ws] fu]; cbn [fst snd woke_log log0 g_woke g_enq];
      destruct (mem t (held s)); destruct Ho as [-> | ->]; reflexivity.
Qed.

Theorem tie_acquire_nowait s t : phase_of s t = Idle ->
  step s (AcqNowait t) = lift s t KAcquire (exec sem_acquire_nowait_entry t (loc_entry None None) log0 (core s)).
Proof.
  intros Hp. cbn [step]. rewrite Hp. cbn [is_idle negb].
  unfold sem_acquire_nowait_entry. cbn.
  destruct s as [fa mx v ws fu nf ph mc i0 h il ex dr q]; cbn in *.
  destruct v; reflexivity.
Qed.

(* acquire() past a live cancellation check (called from a live scope, or continuing after a check that returned):
   the model's atomic test-and-decrement / enqueue is the interpretation of the regenerated entry segment *)
Theorem tie_acq_body s t :
  acq_body s t = lift s t KAcquire (exec sem_acquire_entry t (loc_entry None None) log0 (core s)).
Proof.
  unfold acq_body, sem_acquire_entry. cbn.
  destruct s as [fa mx v ws fu nf ph mc i0 h il ex dr q]; cbn in *.
  destruct v as [|v]; cbn; [reflexivity|].
  destruct ws as [|w r]; cbn; [destruct fa; reflexivity | reflexivity].
Qed.

Theorem tie_acquire_entry s t : phase_of s t = Idle ->
  step s (AcqBegin t) = lift s t KAcquire (exec sem_acquire_entry t (loc_entry None None) log0 (core s)).
Proof.
  intros Hp. cbn [step]. rewrite Hp. cbn [is_idle negb]. apply tie_acq_body.
Qed.

(* F53: the cancellation check is the FIRST statement of acquire(): the regenerated entry segment is `SCkIf; body`,
   and with a live check the whole segment is its body - so the continuation after a check that yielded and then
   returned (CkPass) is the interpretation of this same segment, and there is no await between the test
   `value > 0 and not waiters` and the decrement (both are inside the one segment `body`) *)
Theorem tie_acquire_check_first :
  exists body, sem_acquire_entry = SSeq SCkIf body /\
    forall t l g k, l_fresh l = true -> l_canc l = false ->
      exec sem_acquire_entry t l g k = exec body t l g k.
Proof.
  eexists. split; [reflexivity|]. intros t l g k Hf Hc.
  destruct l as [lf la lb le lv fr cn]. cbn in Hf, Hc. subst. reflexivity.
Qed.

Theorem tie_acquire_entry_cancelled s t : phase_of s t = Idle ->
  step s (AcqBeginC t) = lift_ck s t (exec sem_acquire_entry t (loc_entry_cancelled None) log0 (core s)).
Proof.
  intros Hp. cbn [step]. rewrite Hp. cbn [is_idle negb].
  unfold sem_acquire_entry. cbn. destruct s; reflexivity.
Qed.

Theorem tie_acquire_check_pass s t : phase_of s t = CkYield -> mustc s t = false ->
  step s (CkPass t) =
  lift (leave s t) t KAcquire (exec sem_acquire_entry t (loc_entry None None) log0 (core (leave s t))).
Proof.
  intros Hp Hm. cbn [step]. rewrite Hp, Hm. apply tie_acq_body.
Qed.

Theorem tie_acquire_yield_resumed s t : phase_of s t = FastYield -> mustc s t = false ->
  step s (Resume t) =
  lift (leave s t) t KAcquire
    (exec sem_acquire_yield_resumed t (loc_resume None None None) log0 (core (leave s t))).
Proof.
  intros Hp Hm. cbn [step]. rewrite Hp, Hm. reflexivity.
Qed.

(* `self.release(); raise` *)
Lemma lift_cancel_release s1 t l :
  cancel_release s1 =
  lift s1 t KAcquireC (exec (SSeq (SCall sem_release_entry ArgNone) (SRaise ECancelled)) t l log0 (core s1)).
Proof.
  rewrite exec_seq, exec_call_release. unfold cancel_release.
  change (at_max_h (core s1)) with (at_max s1). destruct (at_max s1).
  - destruct s1; reflexivity.
  - cbn [exec]. unfold lift, rel_woke, rel_heap, rel_core.
    cbn [core h_waiters h_futs h_fast h_maxv h_value h_nfut].
    destruct (handoff (waiters s1) (futs s1)) as [[[w|] ws] fu]; reflexivity.
Qed.

Theorem tie_acquire_yield_cancelled s t : phase_of s t = FastYield -> mustc s t = true ->
  step s (Resume t) =
  lift (leave s t) t KAcquireC
    (exec sem_acquire_yield_cancelled t (loc_resume None None None) log0 (core (leave s t))).
Proof.
  intros Hp Hm. cbn [step]. rewrite Hp, Hm. unfold sem_acquire_yield_cancelled.
  apply lift_cancel_release.
Qed.

Theorem tie_acquire_wait_resumed s t f : phase_of s t = Waiting f -> futs s f = FSet -> mustc s t = false ->
  step s (Resume t) =
  lift (leave s t) t KAcquire
    (exec sem_acquire_wait_resumed t (loc_resume (Some f) None None) log0 (core (leave s t))).
Proof.
  intros Hp Hf Hm. cbn [step]. rewrite Hp, Hf, Hm. reflexivity.
Qed.

Theorem tie_acquire_wait_cancelled s t f : phase_of s t = Waiting f ->
  futs s f = FCancelled \/ (futs s f = FSet /\ mustc s t = true) ->
  step s (Resume t) =
  lift (leave s t) t KAcquireC
    (exec sem_acquire_wait_cancelled t (loc_resume (Some f) None None) log0 (core (leave s t))).
Proof.
  intros Hp [Hf | [Hf Hm]]; cbn [step]; rewrite Hp, Hf.
  - pose proof (remove_fut_absent f (waiters s)) as Habs. unfold fut_in, mem in Habs.
    unfold sem_acquire_wait_cancelled. cbn. rewrite Hf. cbn.
    match goal with |- context [if ?b then _ else _] => destruct b eqn:Ein end; cbn; [reflexivity|].
    rewrite (Habs eq_refl). reflexivity.
  - rewrite Hm. unfold sem_acquire_wait_cancelled.
    rewrite exec_seq, exec_if.
    cbn [eval_cond loc_resume l_fut of_opt core leave h_futs futs].
    rewrite Hf. cbn [is_fcancelled].
    rewrite <- exec_seq.
    apply (lift_cancel_release (leave s t) t).
Qed.

Theorem tie_getters s :
  eval_expr sem_value_getter (core s) = VNat (value s) /\
  eval_expr sem_max_value_getter (core s) = match maxv s with Some m => VNat m | None => VNone end /\
  map (fun x => eval_expr x (core s)) sem_statistics_args = [VNat (length (waiters s))].
Proof. repeat split. Qed.

(* ---- C08 clause (a) on the regenerated code: acquire() called from an effectively cancelled scope does not get
   past the check, in EVERY state (permit free or not, queue empty or not - since the F53 fix the check is the first
   statement, the contended path has it too): value, queue, futures untouched, nothing enqueued, nobody woken. ---- *)
Theorem cancelled_entry_noeffect s t :
  exists l, exec sem_acquire_entry t (loc_entry_cancelled None) log0 (core s) = (l, log0, core s, OCancelled).
Proof. unfold sem_acquire_entry. cbn. eexists. reflexivity. Qed.

(* ---- the machine built from the generated segments is the model ---- *)
Theorem gstep_eq_step s o : gstep sem_prog s o = step s o.
Proof.
  destruct o as [t|t|t|t|t|t|t]; cbn [gstep sem_prog p_acquire_entry p_acquire_nowait p_release
    p_acquire_yield_resumed p_acquire_yield_cancelled p_acquire_wait_resumed p_acquire_wait_cancelled].
  - destruct (phase_of s t) eqn:Hp; cbn [is_idle negb]; [|cbn [step]; rewrite Hp; reflexivity..].
    symmetry. now apply tie_acquire_entry.
  - destruct (phase_of s t) eqn:Hp; cbn [is_idle negb]; [|cbn [step]; rewrite Hp; reflexivity..].
    symmetry. now apply tie_acquire_nowait.
  - destruct (phase_of s t) eqn:Hp; cbn [is_idle negb]; [|cbn [step]; rewrite Hp; reflexivity..].
    symmetry. now apply tie_release.
  - destruct (phase_of s t) as [| |f|] eqn:Hp.
    + cbn [step]. rewrite Hp. reflexivity.
    + destruct (mustc s t) eqn:Hm; symmetry.
      * now apply tie_acquire_yield_cancelled.
      * now apply tie_acquire_yield_resumed.
    + destruct (futs s f) eqn:Hf.
      * cbn [step]. rewrite Hp, Hf. reflexivity.
      * destruct (mustc s t) eqn:Hm; symmetry.
        -- apply tie_acquire_wait_cancelled with (f := f); auto.
        -- now apply tie_acquire_wait_resumed.
      * symmetry. apply tie_acquire_wait_cancelled with (f := f); auto.
    + reflexivity.
  - reflexivity.
  - destruct (phase_of s t) eqn:Hp; cbn [is_idle negb]; [|cbn [step]; rewrite Hp; reflexivity..].
    symmetry. now apply tie_acquire_entry_cancelled.
  - destruct (phase_of s t) as [| |f|] eqn:Hp; try (cbn [step]; rewrite Hp; reflexivity).
    destruct (mustc s t) eqn:Hm.
    + cbn [step]. rewrite Hp, Hm. reflexivity.
    + symmetry. now apply tie_acquire_check_pass.
Qed.

(* ---- what lift does, spelled out: the code-visible fields, the result, and every ghost field ---- *)
Theorem lift_spec s t kd l g k o :
  let s' := fst (lift s t kd (l, g, k, o)) in
  core s' = mkh (h_fast k) (h_maxv k) (h_value k) (h_waiters k) (h_futs k) (h_nfut k) None [] [] (fun _ => false) 0 /\
  snd (lift s t kd (l, g, k, o)) = match res_of o with Some x => x | None => RRejected end /\
  phase_of s' = match o with
                | OSuspend AwYield => upd (phase_of s) t FastYield
                | OSuspend AwFut => match l_fut l with Some f => upd (phase_of s) t (Waiting f) | None => phase_of s end
                | _ => phase_of s
                end /\
  mustc s' = mustc s /\ init0 s' = init0 s /\
  held s' = match kd with
            | KAcquire => if returned o then t :: held s else held s
            | KAcquireC => held s
            | KRelease => if returned o && mem t (held s) then remove_one t (held s) else held s
            end /\
  infl s' = g_woke g ++ match o with OSuspend AwYield => t :: infl s | _ => infl s end /\
  extra s' = match kd with
             | KRelease => if returned o && negb (mem t (held s)) then S (extra s) else extra s
             | _ => extra s
             end /\
  dropped s' = match kd, o with KAcquireC, ORaise EValue => S (dropped s) | _, _ => dropped s end /\
  enq s' = enq s ++ g_enq g.
Proof.
  cbn. repeat split. unfold ghost_app. destruct (g_enq g); [now rewrite app_nil_r | reflexivity].
Qed.

(* ---- the C10 clauses for runs of the generated segments (by rewriting with gstep_eq_step) ---- *)
Lemma final_gstep ops : forall s, final (gstep sem_prog) s ops = final step s ops.
Proof.
  induction ops as [|o r IH]; intros s; [reflexivity|].
  cbn. rewrite gstep_eq_step. apply IH.
Qed.

Lemma greach_run fa iv mx ops : reach fa iv mx (final (gstep sem_prog) (init fa iv mx) ops).
Proof. exists ops. apply final_gstep. Qed.

Theorem gen_conservation : forall fa iv mx ops, max_ok iv mx ->
  let s := final (gstep sem_prog) (init fa iv mx) ops in
  value s + length (held s) + length (infl s) + dropped s = iv + extra s /\
  length (held s) + length (infl s) <= iv + extra s /\
  dropped s <= extra s /\ (mx = None -> dropped s = 0) /\ (forall m, mx = Some m -> value s <= m).
Proof. intros fa iv mx ops Hm. exact (sem_conservation fa iv mx _ Hm (greach_run fa iv mx ops)). Qed.

Theorem gen_grant_only_if_free : forall fa iv mx ops t o, max_ok iv mx ->
  let s := final (gstep sem_prog) (init fa iv mx) ops in
  o = AcqBegin t \/ o = AcqNowait t \/ o = CkPass t ->
  length (held (fst (gstep sem_prog s o))) + length (infl (fst (gstep sem_prog s o))) >
    length (held s) + length (infl s) ->
  value s = S (value (fst (gstep sem_prog s o))) /\ waiters s = [].
Proof.
  intros fa iv mx ops t o Hm. cbn zeta. rewrite gstep_eq_step.
  exact (sem_grant_only_if_free fa iv mx _ t o Hm (greach_run fa iv mx ops)).
Qed.

Theorem gen_fifo : forall fa iv mx ops, max_ok iv mx ->
  let s := final (gstep sem_prog) (init fa iv mx) ops in
  subseq (waiters s) (enq s) /\ (value s > 0 -> waiters s = []).
Proof.
  intros fa iv mx ops Hm. split.
  - exact (sem_queue_in_arrival_order fa iv mx _ Hm (greach_run fa iv mx ops)).
  - exact (sem_value_pos_no_waiters fa iv mx _ Hm (greach_run fa iv mx ops)).
Qed.

Theorem gen_release_hands_to_first_live : forall s t, phase_of s t = Idle -> at_max s = false ->
  let s' := fst (gstep sem_prog s (Release t)) in
  snd (gstep sem_prog s (Release t)) = RDone /\
  ((exists w pre f, waiters s = pre ++ (w, f) :: waiters s' /\ futs s f <> FCancelled /\
      (forall t' f', In (t', f') pre -> futs s f' = FCancelled) /\
      infl s' = w :: infl s /\ value s' = value s /\ futs s' f = FSet) \/
   (waiters s' = [] /\ (forall t' f', In (t', f') (waiters s) -> futs s f' = FCancelled) /\
      infl s' = infl s /\ value s' = S (value s))).
Proof.
  intros s t Hp Hmax. rewrite gstep_eq_step. cbn [step]. rewrite Hp, Hmax. cbn [is_idle negb].
  pose proof (sem_handoff_first_live s) as H.
  destruct (mem t (held s)); cbn [fst snd]; (split; [reflexivity|]); exact H.
Qed.

Theorem gen_release_beyond_max_rejected : forall s t,
  phase_of s t = Idle -> maxv s = Some (value s) -> gstep sem_prog s (Release t) = (s, RValue).
Proof. intros s t Hp Hm. rewrite gstep_eq_step. now apply sem_release_beyond_max_rejected. Qed.

(* ---- non-vacuity and sensitivity (vm_compute) ---- *)
Definition gfinal (fa : bool) (iv : nat) (mx : option nat) (ops : list op) : st :=
  final (gstep sem_prog) (init fa iv mx) ops.

Example ex_tie_yield_cancelled :
  let s := gfinal false 1 (Some 1) [AcqBegin 1; Cancel 1] in phase_of s 1 = FastYield /\ mustc s 1 = true.
Proof. vm_compute. split; reflexivity. Qed.
Example ex_tie_wait_resumed :
  let s := gfinal false 1 None [AcqBegin 1; Resume 1; AcqBegin 2; Release 1] in
  phase_of s 2 = Waiting 0 /\ futs s 0 = FSet /\ mustc s 2 = false.
Proof. vm_compute. repeat split. Qed.
Example ex_tie_wait_cancelled :
  let s := gfinal false 1 None [AcqBegin 1; Resume 1; AcqBegin 2; Cancel 2] in
  phase_of s 2 = Waiting 0 /\ futs s 0 = FCancelled.
Proof. vm_compute. repeat split. Qed.
Example ex_tie_wait_race :
  let s := gfinal false 1 None [AcqBegin 1; Resume 1; AcqBegin 2; Release 1; Cancel 2] in
  phase_of s 2 = Waiting 0 /\ futs s 0 = FSet /\ mustc s 2 = true.
Proof. vm_compute. repeat split. Qed.
Example ex_gen_run_hands_over :
  let s := gfinal false 1 None [AcqBegin 1; Resume 1; AcqBegin 2; AcqBegin 3; Cancel 2; Release 1] in
  value s = 0 /\ waiters s = [] /\ infl s = [3] /\ held s = [].
Proof. vm_compute. repeat split. Qed.
Example ex_check_after_effect_is_stuck_cancelled :
  snd (exec (SSeq SDecValue SCkIf) 1 (loc_entry_cancelled None) log0 (core (init false 1 None))) = OStuck.
Proof. vm_compute. reflexivity. Qed.
Example ex_check_after_effect_is_stuck :
  snd (exec (SSeq SDecValue SCkIf) 1 (loc_entry None None) log0 (core (init false 1 None))) = OStuck.
Proof. vm_compute. reflexivity. Qed.
