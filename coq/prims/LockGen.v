(* translator refused *)
From AV Require Import Base Lock LockImp.
Definition refused : False := "translate_lock REFUSED: release: line 2076: unsupported assignment `task, fut = self._waiters.popleft()`".
