(* translator refused *)
From AV Require Import Base Lock LockImp.
Definition refused : False := "translate_lock REFUSED: release: line 2081: unsupported condition `task.cancelling()`".
