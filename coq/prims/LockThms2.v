(* C09, trace-level FIFO and liveness of the owner (audit items): no new ghost state.
   enq s is the arrival log (every (task, future) ever enqueued, in order); its entries are unique because futures
   are numbered by the counter nfut. *)
From AV Require Import Base Lock LockProofs LockThms.

(* ---- the arrival log has no duplicates ---- *)
Definition EnqOk (s : st) : Prop :=
  (forall t f, In (t, f) (enq s) -> f < nfut s) /\ NoDup (map snd (enq s)).

Lemma enqok_init fa : EnqOk (init fa).
Proof. split; cbn; [intros t f []|constructor]. Qed.

Lemma enq_do_release s t : enq (do_release s t) = enq s /\ nfut (do_release s t) = nfut s.
Proof. unfold do_release. destruct (handoff (waiters s) (futs s)) as [[o ws] fu]. split; reflexivity. Qed.

Lemma step_enq s o :
  (enq (fst (step s o)) = enq s /\ nfut (fst (step s o)) = nfut s) \/
  (exists t, enq (fst (step s o)) = enq s ++ [(t, nfut s)] /\ nfut (fst (step s o)) = S (nfut s)).
Proof.
  destruct o as [t|t|t|t|t]; cbn [step].
  - destruct (is_idle (phase_of s t)); cbn [negb fst]; [|left; split; reflexivity].
    destruct (owner s) as [ow|] eqn:Eo; destruct (waiters s) as [|w ws] eqn:Ew; cbn [fst];
      try (destruct (tid_eqb_opt _ t); cbn [fst]; [left; split; reflexivity|right; exists t; split; reflexivity]).
    destruct (fast s); cbn; left; split; reflexivity.
  - destruct (is_idle (phase_of s t)); cbn [negb fst]; [|left; split; reflexivity].
    destruct (owner s) as [ow|]; destruct (waiters s) as [|w ws]; cbn [fst];
      try (destruct (tid_eqb_opt _ t); cbn [fst]; left; split; reflexivity).
    cbn. left; split; reflexivity.
  - destruct (is_idle (phase_of s t)); cbn [negb fst]; [|left; split; reflexivity].
    destruct (tid_eqb_opt (owner s) t); cbn [fst]; [left; apply enq_do_release|left; split; reflexivity].
  - destruct (phase_of s t) as [| |f]; cbn [fst]; [left; split; reflexivity| |].
    + destruct (mustc s t); [|cbn; left; split; reflexivity].
      match goal with |- context [tid_eqb_opt ?a ?b] => destruct (tid_eqb_opt a b) end; cbn [fst];
        [left; rewrite (proj1 (enq_do_release _ _)), (proj2 (enq_do_release _ _)); split; reflexivity
        |left; split; reflexivity].
    + destruct (futs s f); cbn [fst]; [left; split; reflexivity| |left; split; reflexivity].
      destruct (mustc s t); [|cbn; left; split; reflexivity].
      match goal with |- context [tid_eqb_opt ?a ?b] => destruct (tid_eqb_opt a b) end; cbn [fst];
        [left; rewrite (proj1 (enq_do_release _ _)), (proj2 (enq_do_release _ _)); split; reflexivity
        |left; split; reflexivity].
  - destruct (phase_of s t) as [| |f]; cbn [fst]; [left; split; reflexivity|left; split; reflexivity|].
    destruct (futs s f); cbn [fst]; left; split; reflexivity.
Qed.

Lemma enqok_step s o : EnqOk s -> EnqOk (fst (step s o)).
Proof.
  intros [Hlt Hnd]. destruct (step_enq s o) as [[E N]|(t & E & N)]; unfold EnqOk; rewrite E, N.
  - split; assumption.
  - split.
    + intros t' f' H. apply in_app_or in H. destruct H as [H|[H|[]]].
      * apply Hlt in H. lia.
      * inversion H; subst. lia.
    + rewrite map_app. cbn. apply NoDup_app_tail1; [exact Hnd|].
      intros H. apply in_map_iff in H. destruct H as ([t' f'] & Ef & Hin). cbn in Ef. subst f'.
      apply Hlt in Hin. lia.
Qed.

Lemma reach_enqok fa s : reach fa s -> EnqOk s.
Proof.
  intros [ops ->]. apply (final_inv step EnqOk); [intros; now apply enqok_step|apply enqok_init].
Qed.

Theorem lock_arrival_log_unique fa s : reach fa s -> NoDup (map snd (enq s)).
Proof. intros R. exact (proj2 (reach_enqok fa s R)). Qed.

(* ---- list facts ---- *)
Lemma subseq_split {A} (a b : list A) x l :
  subseq (a ++ x :: b) l -> exists pre post, l = pre ++ x :: post /\ subseq a pre /\ subseq b post.
Proof.
  revert a. induction l as [|y l IH]; intros a H.
  - inversion H; destruct a; discriminate.
  - inversion H as [|y' a' b' H1|y' a' b' H1]; subst.
    + destruct (IH a H1) as (pre & post & -> & Ha & Hb).
      exists (y :: pre), post. split; [reflexivity|]. split; [now apply ss_skip|exact Hb].
    + destruct a as [|a0 a]; cbn in *.
      * match goal with H0 : y :: _ = x :: b |- _ => inversion H0; subst end.
        exists [], l. split; [reflexivity|]. split; [apply ss_nil|exact H1].
      * match goal with H0 : y :: _ = a0 :: _ |- _ => inversion H0; subst end.
        destruct (IH a H1) as (pre & post & -> & Ha & Hb).
        exists (a0 :: pre), post. split; [reflexivity|]. split; [now apply ss_take|exact Hb].
Qed.

Lemma nodup_app_disjoint {A} (l1 l2 : list A) x : NoDup (l1 ++ l2) -> In x l1 -> In x l2 -> False.
Proof.
  induction l1 as [|a l1 IH]; cbn; intros Hn H1 H2; [contradiction|].
  inversion Hn as [|y l Hy Hl]; subst. destruct H1 as [->|H1].
  - apply Hy. apply in_or_app. now right.
  - now apply IH.
Qed.

(* ---- 1. grants follow the arrival order ---- *)
Theorem lock_grant_in_arrival_order fa s t : reach fa s -> owner s = Some t -> phase_of s t = Idle ->
  let s' := do_release s t in
  match owner s' with
  | Some w =>
      exists f pre post, enq s = pre ++ (w, f) :: post /\ futs s f <> FCancelled /\ futs s' f = FSet /\
        (* every task that started waiting before w is no longer waiting: it was granted the lock earlier, withdrew
           after a cancellation, or its wait is cancelled and it is skipped right now *)
        (forall x, In x pre -> ~ In x (waiters s')) /\
        (forall t' f', In (t', f') pre -> In (t', f') (waiters s) -> futs s f' = FCancelled)
  | None => forall t' f', In (t', f') (waiters s) -> futs s f' = FCancelled
  end.
Proof.
  intros R Ho Hp s'. pose proof (reach_inv fa s R) as I. destruct (reach_enqok fa s R) as [_ Hnd].
  unfold s', do_release. pose proof (handoff_spec (waiters s) (futs s)) as HS.
  destruct (handoff (waiters s) (futs s)) as [[o ws'] fu']. cbn [owner waiters futs].
  destruct o as [w|].
  - destruct HS as (prew & f & Ew & Hf & Hu & Hpre).
    pose proof (I_fifo s I) as Hss. rewrite Ew in Hss.
    destruct (subseq_split prew ws' (w, f) (enq s) Hss) as (pre & post & Ee & Hpw & Hws).
    exists f, pre, post. split; [exact Ee|]. split; [exact Hf|].
    split; [subst fu'; unfold upd; now rewrite Nat.eqb_refl|].
    rewrite Ee, map_app in Hnd. cbn [map snd] in Hnd.
    assert (Hd1 : forall x, In x pre -> In x post -> False).
    { intros x H1 H2. apply (nodup_app_disjoint (map snd pre) (snd (w, f) :: map snd post) (snd x) Hnd).
      - now apply in_map.
      - right. now apply in_map. }
    assert (Hd2 : ~ In (w, f) pre).
    { intros H1. apply (nodup_app_disjoint (map snd pre) (f :: map snd post) f Hnd).
      - apply (in_map snd) in H1. exact H1.
      - now left. }
    split.
    + intros x Hin Hw. apply (Hd1 x Hin). exact (subseq_in _ _ _ Hws Hw).
    + intros t' f' Hin Hw. rewrite Ew in Hw. apply in_app_or in Hw. destruct Hw as [Hw|[Hw|Hw]].
      * eapply Hpre; eauto.
      * exfalso. apply Hd2. rewrite Hw. exact Hin.
      * exfalso. apply (Hd1 (t', f') Hin). exact (subseq_in _ _ _ Hws Hw).
  - destruct HS as (_ & _ & Hall). exact Hall.
Qed.

(* ---- 2. the recorded owner is always a live task: it holds the lock or has a wake-up coming ---- *)
Theorem lock_owner_is_live fa s t : reach fa s -> owner s = Some t ->
  In t (held s) \/ phase_of s t = FastYield \/ exists f, phase_of s t = Waiting f /\ futs s f = FSet.
Proof. intros R Ho. apply (I_owner s (reach_inv fa s R) t). exact Ho. Qed.

(* non-vacuity: three waiters, the first one's wait is cancelled; the release grants the second and the arrival log
   shows the first before it *)
Example ex_grant_order :
  let s := final step (init false)
             [AcqNowait 1; AcqBegin 2; AcqBegin 3; AcqBegin 4; Cancel 2] in
  owner s = Some 1 /\ phase_of s 1 = Idle /\ owner (do_release s 1) = Some 3 /\
  enq s = [(2, 0); (3, 1); (4, 2)] /\ waiters (do_release s 1) = [(4, 2)].
Proof. vm_compute. repeat split; reflexivity. Qed.
