(* P/Limiter: executable model of anyio._backends._asyncio.CapacityLimiter (class CapacityLimiter of /repo HEAD).
   Actions are the atomic segments of acquire_on_behalf_of (acquire() = on behalf of the calling task),
   acquire_on_behalf_of_nowait, release_on_behalf_of, the total_tokens setter, plus the kernel actions Resume
   and Cancel (asyncio Task.cancel() on a blocked task).  Definitions only: proofs are in LimiterProofs.v /
   LimiterThms.v.

   Transcription notes
   * Borrowers are arbitrary hashable objects; here `bid = nat`.  The borrower identity of task t is the
     number t itself (acquire()/release() use current_task()); other numbers stand for foreign objects.
   * `_borrowers` is a set: list without duplicates, order irrelevant (observations sort it).
     `_wait_queue` is an OrderedDict borrower -> asyncio.Event: list of (borrower, event id) in insertion order;
     `d[k] = v` on an existing key replaces the value in place (queue_set), `pop(k, None)` is queue_pop.
   * acquire_on_behalf_of(b): checkpoint_if_cancelled (no suspension: the caller is not inside a cancelled
     AnyIO scope, see C08); nowait part (b already a borrower -> RuntimeError; free token and empty queue ->
     granted); on WouldBlock: b already has a slot in the wait queue -> RuntimeError, nothing changes (HEAD,
     after the F16 fix 44feca9; `enq_pinned` keeps the pre-fix behaviour - the second waiter overwrites the
     first one's event - for the refutation witness); else enqueue a fresh Event and suspend in Event.wait()
     (phase Waiting b e; `fcanc t` = the future inside Event.wait() was cancelled); otherwise the token is
     taken and the task suspends in cancel_shielded_checkpoint (phase FastYield b).
     Resumption of a waiter: normal -> return.  Exception -> `_wait_queue.pop(b, None)`; if the event is set
     (the token had been granted, before or after the cancellation) `discard(b)` and `_notify_next_waiter()`.
     Resumption from the shielded yield with a (native) cancellation: `self.release_on_behalf_of(b); raise`
     (HEAD, after the D1 fix cf4519f).  `fy_cancel_pinned` keeps the pre-fix behaviour (`self.release()`, i.e.
     release_on_behalf_of(current_task()) - NOT of b) for the refutation witness.
   * total_tokens setter (HEAD, after the F1 fix): store, then wake queue heads while len(borrowers) < total.
     `set_total_pinned` keeps the pre-fix behaviour (wake max(new - old, 0) heads) for the refutation witness.
   * Ghost state: held (borrowers whose acquire returned and that were not released since), resv (borrowers
     that own a token while their acquire call has not returned: FastYield, or event set), arrivals (log of
     the wait queue), tainted.
   * `tainted` records that the history left the domain the conditional theorems speak about; the model stays
     faithful (it is compared with the implementation on such histories too).  At HEAD exactly ONE thing taints:
       O2  release_on_behalf_of(b) while the acquire call that obtained b's token has not returned yet
           (its task still sits in the shielded yield, or was woken and has not run).
     Two concurrent acquire_on_behalf_of for the same borrower (former observation O1, finding F16) are NOT
     outside the domain any more: the second one is rejected and the theorems cover those histories.
     (`enq_pinned` does not taint; `fy_cancel_pinned` taints where it releases the wrong borrower.) *)
From AV Require Import Base C10Defs.

Definition bid := nat.
Definition eid := nat.

Inductive phase :=
| Idle
| FastYield (b : bid)
| Waiting (b : bid) (e : eid).

Inductive op :=
| AcqOn (t : tid) (b : bid)
| AcqOnNowait (t : tid) (b : bid)
| RelOn (t : tid) (b : bid)
| Resume (t : tid)
| Cancel (t : tid)
| SetTotal (t : tid) (v : option nat)     (* None = math.inf *)
| SetTotalBad (t : tid) (k : nat).        (* 0: 1.5  1: -1  2: -inf  3: nan  other: a str *)

Inductive res :=
| RDone | RBlocked | RCancelled | RRuntime | RWouldBlock | RNone | RValue | RType | RRejected.

Record st := mk {
  total : option nat;           (* None = infinity *)
  borrowers : list bid;
  queue : list (bid * eid);
  evset : eid -> bool;
  nev : eid;
  phase_of : tid -> phase;
  fcanc : tid -> bool;          (* the future of Event.wait() was cancelled *)
  mustc : tid -> bool;          (* Task._must_cancel *)
  held : list bid;              (* ghost *)
  resv : list bid;              (* ghost *)
  arrivals : list (bid * eid);  (* ghost *)
  tainted : bool                (* ghost *)
}.

Definition init (v : option nat) : st :=
  mk v [] [] (fun _ => false) 0 (fun _ => Idle) (fun _ => false) (fun _ => false) [] [] [] false.

Definition is_idle (p : phase) := match p with Idle => true | _ => false end.

Definition set_add (b : bid) (l : list bid) : list bid := if mem b l then l else b :: l.

Definition keys (q : list (bid * eid)) : list bid := map fst q.

Fixpoint queue_set (q : list (bid * eid)) (b : bid) (e : eid) : list (bid * eid) :=
  match q with
  | [] => [(b, e)]
  | (b', e') :: r => if Nat.eqb b' b then (b', e) :: r else (b', e') :: queue_set r b e
  end.

Fixpoint queue_pop (q : list (bid * eid)) (b : bid) : list (bid * eid) :=
  match q with
  | [] => []
  | (b', e') :: r => if Nat.eqb b' b then r else (b', e') :: queue_pop r b
  end.

(* len(borrowers) < total_tokens *)
Definition free (bs : list bid) (tot : option nat) : bool :=
  match tot with None => true | Some m => Nat.ltb (length bs) m end.

Definition with_tok (s : st) (bs : list bid) (q : list (bid * eid)) (ev : eid -> bool) (rv : list bid) : st :=
  mk (total s) bs q ev (nev s) (phase_of s) (fcanc s) (mustc s) (held s) rv (arrivals s) (tainted s).

(* _notify_next_waiter (lines 2102-2107) *)
Definition notify_next (s : st) : st :=
  match queue s with
  | (b, e) :: r =>
      if free (borrowers s) (total s)
      then with_tok s (set_add b (borrowers s)) r (upd (evset s) e true) (b :: resv s)
      else s
  | [] => s
  end.

(* borrowers.remove(b) / discard(b), then _notify_next_waiter *)
Definition give_back (s : st) (b : bid) : st :=
  notify_next (with_tok s (remove_one b (borrowers s)) (queue s) (evset s) (resv s)).

(* the loop of the setter at HEAD (lines 2089-2092) *)
Fixpoint wake_free (tot : option nat) (q : list (bid * eid)) (bs : list bid) (ev : eid -> bool) (rv : list bid)
  : list (bid * eid) * list bid * (eid -> bool) * list bid :=
  match q with
  | [] => ([], bs, ev, rv)
  | (b, e) :: r =>
      if free bs tot then wake_free tot r (set_add b bs) (upd ev e true) (b :: rv)
      else ((b, e) :: r, bs, ev, rv)
  end.

Definition set_total (s : st) (v : option nat) : st :=
  let '(q, bs, ev, rv) := wake_free v (queue s) (borrowers s) (evset s) (resv s) in
  mk v bs q ev (nev s) (phase_of s) (fcanc s) (mustc s) (held s) rv (arrivals s) (tainted s).

(* the loop of the setter before the fix: wake n queue heads *)
Fixpoint wake_n (n : nat) (q : list (bid * eid)) (bs : list bid) (ev : eid -> bool) (rv : list bid)
  : list (bid * eid) * list bid * (eid -> bool) * list bid :=
  match n, q with
  | S k, (b, e) :: r => wake_n k r (set_add b bs) (upd ev e true) (b :: rv)
  | _, _ => (q, bs, ev, rv)
  end.

Definition set_total_pinned (s : st) (v : option nat) : st :=
  let n := match v, total s with
           | Some a, Some b => a - b        (* max(new - old, 0) *)
           | None, _ => length (queue s)    (* inf (or nan): everybody *)
           | Some _, None => 0
           end in
  let '(q, bs, ev, rv) := wake_n n (queue s) (borrowers s) (evset s) (resv s) in
  mk v bs q ev (nev s) (phase_of s) (fcanc s) (mustc s) (held s) rv (arrivals s) (tainted s).

Definition is_nil {A} (l : list A) : bool := match l with [] => true | _ => false end.

(* acquire_on_behalf_of_nowait raises WouldBlock *)
Definition busy (s : st) : bool := negb (is_nil (queue s)) || negb (free (borrowers s) (total s)).

Definition set_mustc (s : st) (t : tid) : st :=
  mk (total s) (borrowers s) (queue s) (evset s) (nev s) (phase_of s) (fcanc s) (upd (mustc s) t true)
     (held s) (resv s) (arrivals s) (tainted s).

(* blocked task t leaves its call: phase Idle, cancellation flags consumed; rv = new reservation list *)
Definition leave (s : st) (t : tid) (rv : list bid) : st :=
  mk (total s) (borrowers s) (queue s) (evset s) (nev s) (upd (phase_of s) t Idle) (upd (fcanc s) t false)
     (upd (mustc s) t false) (held s) rv (arrivals s) (tainted s).

Definition add_held (s : st) (b : bid) : st :=
  mk (total s) (borrowers s) (queue s) (evset s) (nev s) (phase_of s) (fcanc s) (mustc s)
     (b :: held s) (resv s) (arrivals s) (tainted s).

Definition set_queue (s : st) (q : list (bid * eid)) : st :=
  mk (total s) (borrowers s) q (evset s) (nev s) (phase_of s) (fcanc s) (mustc s)
     (held s) (resv s) (arrivals s) (tainted s).

Definition taint (s : st) (c : bool) : st :=
  mk (total s) (borrowers s) (queue s) (evset s) (nev s) (phase_of s) (fcanc s) (mustc s)
     (held s) (resv s) (arrivals s) (tainted s || c).

(* `except BaseException:` of the shielded yield (lines 2181-2185), executed in s1 = the state in which task t
   has left the call.  HEAD: release_on_behalf_of(b); raise *)
Definition fy_cancel (s1 : st) (t : tid) (b : bid) : st * res :=
  if mem b (borrowers s1) then (give_back s1 b, RCancelled) else (s1, RRuntime).

(* before the fix: self.release() = release_on_behalf_of(current_task()) *)
Definition fy_cancel_pinned (s1 : st) (t : tid) (b : bid) : st * res :=
  if mem t (borrowers s1) then (taint (give_back s1 t) (negb (Nat.eqb b t)), RCancelled)
  else (taint s1 true, RRuntime).

(* the `except WouldBlock:` branch of acquire_on_behalf_of up to the suspension (lines 2172-2185).
   HEAD: a borrower that already has a slot in the wait queue is refused *)
Definition enqueue (s : st) (t : tid) (b : bid) (tn : bool) : st :=
  let e := nev s in
  mk (total s) (borrowers s) (queue_set (queue s) b e) (upd (evset s) e false) (S e)
     (upd (phase_of s) t (Waiting b e)) (upd (fcanc s) t false) (mustc s)
     (held s) (resv s) (arrivals s ++ [(b, e)]) tn.

Definition enq_head (s : st) (t : tid) (b : bid) : st * res :=
  if mem b (keys (queue s)) then (s, RRuntime) else (enqueue s t b (tainted s), RBlocked).

(* before the fix: `self._wait_queue[borrower] = event` unconditionally (overwrites an existing slot).
   It does NOT taint: a duplicate waiting borrower is inside the domain of the theorems, so the witnesses on
   step_f16_pinned refute those very theorems (tainted stays for O2 only) *)
Definition enq_pinned (s : st) (t : tid) (b : bid) : st * res :=
  (enqueue s t b (tainted s), RBlocked).

Definition step_gen (setter : st -> option nat -> st) (fyc : st -> tid -> bid -> st * res)
                    (enq : st -> tid -> bid -> st * res) (s : st) (o : op) : st * res :=
  match o with
  | AcqOn t b =>
      if negb (is_idle (phase_of s t)) then (s, RRejected) else
      if mem b (borrowers s) then (s, RRuntime) else
      if busy s then enq s t b
      else
        (mk (total s) (b :: borrowers s) (queue s) (evset s) (nev s)
            (upd (phase_of s) t (FastYield b)) (fcanc s) (mustc s)
            (held s) (b :: resv s) (arrivals s) (tainted s), RBlocked)
  | AcqOnNowait t b =>
      if negb (is_idle (phase_of s t)) then (s, RRejected) else
      if mem b (borrowers s) then (s, RRuntime) else
      if busy s then (s, RWouldBlock) else
      (mk (total s) (b :: borrowers s) (queue s) (evset s) (nev s) (phase_of s) (fcanc s) (mustc s)
          (b :: held s) (resv s) (arrivals s) (tainted s), RDone)
  | RelOn t b =>
      if negb (is_idle (phase_of s t)) then (s, RRejected) else
      if negb (mem b (borrowers s)) then (s, RRuntime) else
      let s1 := give_back s b in
      (mk (total s1) (borrowers s1) (queue s1) (evset s1) (nev s1) (phase_of s1) (fcanc s1) (mustc s1)
          (remove_one b (held s1)) (resv s1) (arrivals s1) (tainted s1 || mem b (resv s)), RDone)
  | Cancel t =>
      match phase_of s t with
      | Idle => (s, RRejected)
      | FastYield _ => (set_mustc s t, RNone)          (* sleep(0): no waiter future *)
      | Waiting _ e =>
          if negb (evset s e) && negb (fcanc s t) then
            (mk (total s) (borrowers s) (queue s) (evset s) (nev s) (phase_of s) (upd (fcanc s) t true)
                (mustc s) (held s) (resv s) (arrivals s) (tainted s), RNone)
          else (set_mustc s t, RNone)
      end
  | Resume t =>
      match phase_of s t with
      | Idle => (s, RRejected)
      | FastYield b =>
          let s1 := leave s t (remove_one b (resv s)) in
          if mustc s t then fyc s1 t b
          else (add_held s1 b, RDone)
      | Waiting b e =>
          if negb (evset s e) && negb (fcanc s t) then (s, RRejected)    (* not runnable *)
          else
            let s1 := leave s t (if evset s e then remove_one b (resv s) else resv s) in
            if fcanc s t || mustc s t then
              (* except BaseException: pop; if event.is_set(): discard, notify; raise   (lines 2135-2141) *)
              let s2 := set_queue s1 (queue_pop (queue s1) b) in
              if evset s e then (give_back s2 b, RCancelled) else (s2, RCancelled)
            else (add_held s1 b, RDone)
      end
  | SetTotal t v =>
      if negb (is_idle (phase_of s t)) then (s, RRejected) else (setter s v, RDone)
  | SetTotalBad t k =>
      if negb (is_idle (phase_of s t)) then (s, RRejected) else
      match k with
      | 1 | 2 => (s, RValue)
      | _ => (s, RType)
      end
  end.

(* each pinned variant differs from HEAD in exactly one handler *)
Definition step := step_gen set_total fy_cancel enq_head.
Definition step_pinned := step_gen set_total_pinned fy_cancel enq_head.       (* before the F1 fix (bce1e1d) *)
Definition step_d1_pinned := step_gen set_total fy_cancel_pinned enq_head.    (* before the D1 fix (cf4519f) *)
Definition step_f16_pinned := step_gen set_total fy_cancel enq_pinned.        (* before the F16 fix (44feca9) *)

(* ---- observable output of a step (what the harness compares) ---- *)
Definition res_code (r : res) : Z :=
  match r with
  | RDone => 0 | RBlocked => 1 | RCancelled => 2 | RRuntime => 3 | RWouldBlock => 4 | RNone => 5
  | RValue => 6 | RType => 7 | RRejected => 9
  end%Z.

Fixpoint insert_sorted (x : nat) (l : list nat) : list nat :=
  match l with
  | [] => [x]
  | y :: r => if Nat.leb x y then x :: y :: r else y :: insert_sorted x r
  end.

Definition sort (l : list nat) : list nat := fold_right insert_sorted [] l.

Definition inf_code : Z := 1000000.

Definition total_code (s : st) : Z := match total s with None => (-1)%Z | Some n => nz n end.

(* available_tokens = total - len(borrowers), may be negative after total was lowered *)
Definition avail_code (s : st) : Z :=
  match total s with None => inf_code | Some n => (nz n - nz (length (borrowers s)))%Z end.

(* [result; borrowed_tokens; total_tokens; available_tokens; tasks_waiting; #borrowers; sorted borrowers...] *)
Definition observe (s : st) (r : res) : list Z :=
  [res_code r; nz (length (borrowers s)); total_code s; avail_code s; nz (length (queue s));
   nz (length (borrowers s))] ++ map nz (sort (borrowers s)).

(* ---- codec: flat integer encoding of a case (shared with the Python harness) ---- *)
Definition decode_total (x : Z) : option nat := if Z.ltb x 0 then None else Some (zn x).

Definition decode_op (c t x : Z) : op :=
  match c with
  | 0 => AcqOn (zn t) (zn x) | 1 => AcqOnNowait (zn t) (zn x) | 2 => RelOn (zn t) (zn x)
  | 3 => Resume (zn t) | 4 => Cancel (zn t) | 5 => SetTotal (zn t) (decode_total x)
  | _ => SetTotalBad (zn t) (zn x)
  end%Z.

Fixpoint decode_ops (l : list Z) : list op :=
  match l with
  | c :: t :: x :: r => decode_op c t x :: decode_ops r
  | _ => []
  end.

Fixpoint run_obs (s : st) (ops : list op) : list Z :=
  match ops with
  | [] => []
  | o :: r => let '(s1, out) := step s o in observe s1 out ++ run_obs s1 r
  end.

(* case = total_code (-1 = inf) :: flat ops (triples) *)
Definition run_case (c : list Z) : list Z :=
  match c with
  | tv :: r => run_obs (init (decode_total tv)) (decode_ops r)
  | [] => []
  end.
