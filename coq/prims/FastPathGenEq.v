(* Tie T for C08: the shapes regenerated from /repo's source equal the table the theorems are about. *)
From AV Require Import Base FastPath FastPathGen.

Definition exact_rows : list nat := [3; 4; 5; 6; 7; 8; 10; 12; 15; 17; 18].
Definition prefix_rows : list nat := [9; 14].     (* only the entry segment is syntactically determined *)

Definition is_prefix (a b : list atom) : bool :=
  (fix go a b := match a, b with
                 | [], _ => true
                 | x :: a', y :: b' =>
                     (match x, y with CkIf, CkIf | Ck, Ck | ShieldY, ShieldY | Effect, Effect => true | _, _ => false end)
                     && go a' b'
                 | _, [] => false
                 end) a b.

Lemma is_prefix_sound a : forall b, is_prefix a b = true -> exists rest, b = a ++ rest.
Proof.
  induction a as [|x a IH]; intros b H; [exists b; reflexivity|].
  destruct b as [|y b]; [discriminate|]. cbn in H. apply andb_true_iff in H. destruct H as [H1 H2].
  destruct (IH b H2) as [rest ->]. exists rest. destruct x, y; try discriminate; reflexivity.
Qed.

Theorem generated_shapes_equal_table : forall r, In r exact_rows -> row_shape_gen r = Some (row_shape r).
Proof.
  intros r H. cbn in H.
  repeat (destruct H as [<-|H]; [reflexivity|]). contradiction.
Qed.

Theorem generated_entry_segments_are_prefixes : forall r, In r prefix_rows ->
  exists g rest, row_shape_gen r = Some g /\ row_shape r = g ++ rest /\ starts_with_check g = true.
Proof.
  intros r H. cbn in H.
  destruct H as [<-|[<-|[]]].
  - exists [CkIf], [Effect]. repeat split.
  - exists [Ck], [Effect]. repeat split.
Qed.

Theorem every_translated_row_is_covered : forall r, In r translated_rows -> In r exact_rows \/ In r prefix_rows.
Proof.
  intros r H. cbn in H. cbn.
  repeat (destruct H as [<-|H]; [tauto|]). contradiction.
Qed.
