(* P/LimiterEntry: the CapacityLimiter machine of Limiter.v extended with acquire_on_behalf_of() calls made from an
   already effectively cancelled scope (the CapacityLimiter sibling of LockEntry.v / finding F53; closes the gap recorded
   in DESIGN 11.10: "CapacityLimiter's entry check is not modelled as a suspension").

   `await AsyncIOBackend.checkpoint_if_cancelled()` is the FIRST statement of acquire_on_behalf_of (_asyncio.py, class
   CapacityLimiter).  A caller that sees a cancelled scope is suspended in the check's sleep(0) - `spin t = Some b`,
   b = the borrower argument - with nothing of the limiter read or written.  From there:
     * native Task.cancel() (L (Cancel t)): sleep(0) has no waiter future, `_must_cancel` is set (ckmust);
     * its step runs (L (Resume t)): with `_must_cancel` the CancelledError comes out of acquire (nothing touched);
       without one the check found the cancellation still pending and yields again (spin);
     * the AnyIO delivery reaches it (SpinCancel t): Task.cancel() by _deliver_cancellation and the step, in one op;
     * since F46 the check re-reads the chain after its yield and RETURNS NORMALLY when the cancelled scope is no longer
       visible (a scope in between was shielded meanwhile): SpinReturn t.  Only then the body of acquire_on_behalf_of
       runs: the borrower / free-token / queue tests and the take or the enqueuing in ONE step, an ordinary
       Limiter.step (AcqOn t b) on the limiter as it is THEN.  (With `_must_cancel` set the step throws the
       CancelledError in at the sleep(0): the check cannot return, SpinReturn ends as Resume does.)
   `pinned = true` is the hypothetical order "nowait part first, check, then commit" (the shape Lock/Semaphore had before
   F53, which CapacityLimiter never had): a caller that found a free token is committed when the check yields and takes
   the token without looking again.  It exists only for the refuted witness.
   Every other op is Limiter.step, unchanged, and is refused for a spinning task.  Definitions only. *)
From AV Require Import Base C10Defs Limiter.

Record est := emk {
  lim : Limiter.st;
  spin : tid -> option bid;      (* inside acquire_on_behalf_of(b), suspended in checkpoint_if_cancelled() *)
  ckmust : tid -> bool;          (* Task._must_cancel of a spinning task *)
  committed : tid -> bool        (* pinned only: passed the free-token test before the check *)
}.

Inductive eop :=
| L (o : Limiter.op)
| EnterCancelled (t : tid) (b : bid)   (* t calls `await lim.acquire_on_behalf_of(b)` in an already cancelled scope *)
| SpinCancel (t : tid)                 (* the AnyIO cancellation is delivered: the call raises *)
| SpinReturn (t : tid).                (* the check returns normally after its yield *)

Definition einit (v : option nat) : est := emk (Limiter.init v) (fun _ => None) (fun _ => false) (fun _ => false).

Definition op_tid (o : Limiter.op) : tid :=
  match o with
  | AcqOn t _ | AcqOnNowait t _ | RelOn t _ | Resume t | Cancel t | SetTotal t _ | SetTotalBad t _ => t
  end.

Definition is_some {A} (o : option A) : bool := match o with Some _ => true | None => false end.

Definition unspin (s : est) (l : Limiter.st) (t : tid) : est :=
  emk l (upd (spin s) t None) (upd (ckmust s) t false) (upd (committed s) t false).

(* hypothetical old order after the yield: `self._borrowers.add(b)` and the shielded yield, without looking again *)
Definition take_blind (l : Limiter.st) (t : tid) (b : bid) : Limiter.st * res :=
  (Limiter.mk (total l) (b :: borrowers l) (queue l) (evset l) (nev l)
      (upd (phase_of l) t (FastYield b)) (fcanc l) (mustc l)
      (held l) (b :: resv l) (arrivals l) (tainted l), RBlocked).

Definition estep (pinned : bool) (s : est) (o : eop) : est * res :=
  match o with
  | L o =>
      let t := op_tid o in
      match spin s t with
      | Some _ =>
          match o with
          | Cancel _ => (emk (lim s) (spin s) (upd (ckmust s) t true) (committed s), RNone)
          | Resume _ => if ckmust s t then (unspin s (lim s) t, RCancelled) else (s, RBlocked)
          | _ => (s, RRejected)
          end
      | None =>
          let '(l', r) := Limiter.step (lim s) o in (emk l' (spin s) (ckmust s) (committed s), r)
      end
  | EnterCancelled t b =>
      if is_some (spin s t) || negb (is_idle (phase_of (lim s) t)) then (s, RRejected) else
      if pinned && negb (mem b (borrowers (lim s))) && negb (busy (lim s))
      then (emk (lim s) (upd (spin s) t (Some b)) (ckmust s) (upd (committed s) t true), RBlocked)
      else (emk (lim s) (upd (spin s) t (Some b)) (ckmust s) (committed s), RBlocked)
  | SpinCancel t =>
      match spin s t with
      | Some _ => (unspin s (lim s) t, RCancelled)
      | None => (s, RRejected)
      end
  | SpinReturn t =>
      match spin s t with
      | None => (s, RRejected)
      | Some b =>
          if ckmust s t then (unspin s (lim s) t, RCancelled) else
          let '(l', r) := if committed s t then take_blind (lim s) t b else Limiter.step (lim s) (AcqOn t b) in
          (unspin s l' t, r)
      end
  end.

(* ---- codec: the codes of Limiter.v (0-6; every other code below 10 is SetTotalBad there) plus
   10 EnterCancelled t b, 11 SpinCancel t, 12 SpinReturn t ---- *)
Definition decode_eop (c t x : Z) : eop :=
  match c with
  | 10 => EnterCancelled (zn t) (zn x) | 11 => SpinCancel (zn t) | 12 => SpinReturn (zn t)
  | _ => L (Limiter.decode_op c t x)
  end%Z.

Fixpoint decode_eops (l : list Z) : list eop :=
  match l with
  | c :: t :: x :: r => decode_eop c t x :: decode_eops r
  | _ => []
  end.

Fixpoint run_eobs (s : est) (ops : list eop) : list Z :=
  match ops with
  | [] => []
  | o :: r => let '(s1, out) := estep false s o in Limiter.observe (lim s1) out ++ run_eobs s1 r
  end.

(* case = total_code (-1 = inf) :: flat ops (triples); observation per step as in Limiter.v *)
Definition run_case (c : list Z) : list Z :=
  match c with
  | tv :: r => run_eobs (einit (decode_total tv)) (decode_eops r)
  | [] => []
  end.
