(* C11 clauses as theorems over every op sequence of the Event and Condition machines. *)
From AV Require Import Base Lock LockProofs EventCond EventCondProofs.

(* ====================================================================================================== *)
(*  Event                                                                                                 *)
(* ====================================================================================================== *)
Definition ereach (s : est) : Prop := exists ops, s = final estep einit ops.

Lemma ereach_inv s : ereach s -> EInv s.
Proof. intros [ops ->]. apply ereachable_inv. Qed.

Lemma ereach_step s o : ereach s -> ereach (fst (estep s o)).
Proof. intros [ops ->]. exists (ops ++ [o]). rewrite final_app. reflexivity. Qed.

(* 1. wait() returns normally only after set(): the only op of a wait() call that can return normally is the
      resumption of the suspended caller, and then the flag is set and set() has been called before *)
Theorem event_wait_after_set s o t s' :
  ereach s -> (o = EvWait t \/ o = EvResume t) -> estep s o = (s', RDone) ->
  o = EvResume t /\ ephase_of s t <> EIdle /\ eflag s = true /\ 0 < esets s.
Proof.
  intros R Ho E. pose proof (ereach_inv s R) as I.
  destruct Ho as [-> | ->]; cbn [estep] in E.
  - exfalso. destruct (negb _); [discriminate|]. destruct (eflag s); discriminate.
  - split; [reflexivity|].
    assert (Hfl : ephase_of s t <> EIdle /\ eflag s = true).
    { destruct (ephase_of s t) as [| |f] eqn:Ep; [discriminate| |].
      - split; [discriminate|]. apply (E_yield s I t Ep).
      - split; [discriminate|]. destruct (efuts s f) eqn:Ef; try discriminate.
        apply (E_set s I t f Ep Ef). }
    destruct Hfl as [H1 H2]. refine (conj H1 (conj H2 _)). now apply (E_flag s I).
Qed.

(* 2. when the flag is set no task is blocked: every task inside wait() - whether it was waiting when set()
      was called or called wait() afterwards - is runnable, and its wait() returns normally unless a
      cancellation was requested for it *)
Theorem event_no_waiter_left_behind s t :
  ereach s -> eflag s = true -> ephase_of s t <> EIdle ->
  snd (estep s (EvResume t)) <> RRejected /\
  (emustc s t = false -> (forall f, ephase_of s t = EWaiting f -> efuts s f <> FCancelled) ->
   snd (estep s (EvResume t)) = RDone).
Proof.
  intros R Hfl Hp. pose proof (ereach_inv s R) as I. cbn [estep].
  destruct (ephase_of s t) as [| |f] eqn:Ep; [contradiction| |].
  - cbn. split; [destruct (emustc s t); discriminate|]. intros -> _. reflexivity.
  - destruct (efuts s f) eqn:Ef.
    + exfalso. destruct (E_pend s I t f Ep Ef). congruence.
    + cbn. split; [destruct (emustc s t); discriminate|]. intros -> _. reflexivity.
    + cbn. split; [discriminate|]. intros _ H. exfalso. apply (H f eq_refl). exact Ef.
Qed.

Theorem event_set_releases_all_present s u s' :
  ereach s -> estep s (EvSet u) = (s', RDone) ->
  eflag s' = true /\
  forall t, ephase_of s t <> EIdle ->
    ephase_of s' t = ephase_of s t /\ emustc s' t = emustc s t /\
    snd (estep s' (EvResume t)) <> RRejected /\
    (emustc s t = false -> (forall f, ephase_of s t = EWaiting f -> efuts s f <> FCancelled) ->
     snd (estep s' (EvResume t)) = RDone).
Proof.
  intros R E.
  assert (R' : ereach s') by (replace s' with (fst (estep s (EvSet u))) by (now rewrite E); now apply ereach_step).
  assert (Hs : eflag s' = true /\ ephase_of s' = ephase_of s /\ emustc s' = emustc s /\
               forall f, efuts s' f = FCancelled -> efuts s f = FCancelled).
  { revert E. cbn [estep]. destruct (negb _); [discriminate|].
    destruct (eflag s); intros [= <-]; cbn; repeat split; auto.
    intros f. apply resolve_all_spec. }
  destruct Hs as (H1 & H2 & H3 & H4). split; [exact H1|]. intros t Hp.
  rewrite H2, H3. refine (conj eq_refl (conj eq_refl _)).
  assert (Hp' : ephase_of s' t <> EIdle) by (now rewrite H2).
  destruct (event_no_waiter_left_behind s' t R' H1 Hp') as [Ha Hb]. split; [exact Ha|].
  intros Hm Hf. apply Hb; [now rewrite H3|]. intros f Hpf Hc. rewrite H2 in Hpf.
  apply (Hf f Hpf). apply H4, Hc.
Qed.

(* 3. a set event stays set *)
Theorem event_stays_set s o : eflag s = true -> eflag (fst (estep s o)) = true.
Proof.
  intros H. destruct o as [t|t|t|t|t]; cbn [estep].
  - destruct (negb _); [exact H|]. rewrite H. reflexivity.
  - destruct (negb _); [exact H|]. rewrite H. reflexivity.
  - destruct (ephase_of s t) as [| |f]; [exact H|exact H|]. destruct (efuts s f); exact H.
  - destruct (ephase_of s t) as [| |f]; [exact H|exact H|]. destruct (efuts s f); exact H.
  - destruct (ephase_of s t) as [| |f]; [exact H|exact H|]. destruct (efuts s f); exact H.
Qed.

Theorem event_stays_set_forever s ops : eflag s = true -> eflag (final estep s ops) = true.
Proof.
  revert s. induction ops as [|o r IH]; intros s H; cbn; [exact H|]. apply IH, event_stays_set, H.
Qed.

(* no spurious wake-up: while the flag is unset a waiter can only be resumed by a cancellation *)
Theorem event_no_spurious_wakeup s t :
  ereach s -> eflag s = false -> ephase_of s t <> EIdle ->
  snd (estep s (EvResume t)) = RRejected \/ snd (estep s (EvResume t)) = RCancelled.
Proof.
  intros R Hfl Hp. pose proof (ereach_inv s R) as I. cbn [estep].
  destruct (ephase_of s t) as [| |f] eqn:Ep; [contradiction| |].
  - pose proof (E_yield s I t Ep). congruence.
  - destruct (efuts s f) eqn:Ef; cbn; auto. pose proof (E_set s I t f Ep Ef). congruence.
Qed.

(* ---- non-vacuity ---- *)
(* tasks 1,2 wait; 2 is cancelled; 3 sets; 1 returns, 2 gets CancelledError; 4 waits afterwards and returns *)
Definition ex_eops := [EvWait 1; EvWait 2; EvCancel 2; EvSet 3].
Example ex_event_hyps :
  let s := final estep einit ex_eops in
  eflag s = true /\ ephase_of s 1 = EWaiting 0 /\ ephase_of s 2 = EWaiting 1 /\
  snd (estep s (EvResume 1)) = RDone /\ snd (estep s (EvResume 2)) = RCancelled /\
  snd (estep (fst (estep s (EvWait 4))) (EvResume 4)) = RDone.
Proof. vm_compute. repeat split. Qed.

Example ex_event_set_hyp :
  let s := final estep einit [EvWait 1; EvWait 2; EvCancel 2] in
  snd (estep s (EvSet 3)) = RDone /\ ephase_of s 1 <> EIdle /\ eflag s = false /\
  snd (estep s (EvResume 1)) = RRejected.
Proof. vm_compute. repeat split; discriminate. Qed.

(* ====================================================================================================== *)
(*  Conditions on a shared Lock (HEAD: variant 0)                                                         *)
(* ====================================================================================================== *)
Tactic Notation "cnorm" "in" hyp(H) :=
  cbn [with_lk with_owner with_cw with_phase with_efut with_inflight with_nlog with_counts
       variant lk owner_rec cwaiters eset efut nev cphase_of cenq setlog inflight horizon nlog
       issued consumed dropped lost] in H.
Tactic Notation "cnorm" "in" "*" :=
  cbn [with_lk with_owner with_cw with_phase with_efut with_inflight with_nlog with_counts
       variant lk owner_rec cwaiters eset efut nev cphase_of cenq setlog inflight horizon nlog
       issued consumed dropped lost] in *.

(* every state reachable by SOME sequence over the whole alphabet: acquire / acquire_nowait / release / notify /
   notify_all / wait through any condition on the lock, the same lock used directly, resumptions, native and
   AnyIO cancellations *)
Definition creach (fa : bool) (s : cst) : Prop := exists ops, s = final cstep (cinit fa 0) ops.

(* documented scope: histories without a native Task.cancel() inside wait()'s shielded re-acquire *)
Definition creach_clean (fa : bool) (s : cst) : Prop :=
  exists ops, clean_run (cinit fa 0) ops = true /\ s = final cstep (cinit fa 0) ops.

Lemma creach_inv fa s : creach fa s -> CInv s.
Proof. intros [ops ->]. apply creachable_inv. Qed.

Lemma creach_step fa s o : creach fa s -> creach fa (fst (cstep s o)).
Proof. intros [ops ->]. exists (ops ++ [o]). rewrite final_app. reflexivity. Qed.

Lemma creach_clean_reach fa s : creach_clean fa s -> creach fa s.
Proof. intros (ops & _ & ->). now exists ops. Qed.

Lemma qinv_init fa : QInv (cinit fa 0).
Proof. intros t c e x H. discriminate. Qed.

Lemma clean_final ops : forall s, CInv s -> QInv s -> clean_run s ops = true ->
  CInv (final cstep s ops) /\ QInv (final cstep s ops).
Proof.
  induction ops as [|o r IH]; intros s C Q H; cbn; [auto|].
  cbn [clean_run] in H. apply andb_prop in H. destruct H as [H1 H2].
  apply negb_true_iff in H1. apply IH; [now apply cstep_inv|now apply cstep_qinv|exact H2].
Qed.

Lemma creach_clean_qinv fa s : creach_clean fa s -> CInv s /\ QInv s.
Proof. intros (ops & H & ->). apply clean_final; [apply cinv_init|apply qinv_init|exact H]. Qed.

Lemma finish_wait_res s t c e exc l' r s' r' :
  finish_wait s t c e exc l' r = (s', r') ->
  r' = (match r with RBlocked => RBlocked | RDone => if exc then RCancelled else RDone | _ => r end).
Proof. destruct r, exc; cbn; intros [= _ <-]; reflexivity. Qed.

Lemma finish_wait_consumed s t c e l' :
  consumed (fst (finish_wait s t c e false l' RDone)) = S (consumed s).
Proof. reflexivity. Qed.

Definition same_ev (s1 s : cst) : Prop :=
  cwaiters s1 = cwaiters s /\ eset s1 = eset s /\ efut s1 = efut s /\ inflight s1 = inflight s /\
  setlog s1 = setlog s /\ issued s1 = issued s /\ consumed s1 = consumed s /\ dropped s1 = dropped s /\
  lost s1 = lost s /\ horizon s1 = horizon s /\ nlog s1 = nlog s.

Lemma do_set_counts s e hz :
  lost (do_set s e hz) = lost s /\ consumed (do_set s e hz) = consumed s /\ issued (do_set s e hz) = issued s /\
  inflight (do_set s e hz) = inflight s /\ dropped (do_set s e hz) = dropped s.
Proof. unfold do_set. destruct (eset s e); cbn; auto. Qed.

Lemma wait_interrupted_counts s c e :
  lost (wait_interrupted s c e) = lost s /\ consumed (wait_interrupted s c e) = consumed s /\
  issued (wait_interrupted s c e) = issued s.
Proof.
  unfold wait_interrupted. destruct (eset s e); [|cnorm; auto].
  destruct (cwaiters s c) as [|h q]; [cnorm; auto|].
  cnorm. destruct (do_set_counts (with_cw s c q) h (horizon s e)) as (-> & -> & -> & _). cnorm. auto.
Qed.

(* what one resumption of a task inside wait() computes: the lock result r of the (start of / rest of) the
   shielded re-acquire and whether an exception is pending *)
Lemma resume_in_wait s t s' res :
  CInv s -> (exists c e, cphase_of s t = PWait c e \/ exists x, cphase_of s t = PReacq c e x) ->
  cstep s (CResume t) = (s', res) ->
  (res = RRejected /\ s' = s) \/
  exists s1 c e exc l' r,
    finish_wait s1 t c e exc l' r = (s', res) /\ Inv l' /\
    (lost s1 = lost s /\ consumed s1 = consumed s /\ issued s1 = issued s) /\
    (exc = false -> eset s e = true /\ same_ev s1 s) /\
    (cphase_of s t = PWait c e \/ cphase_of s t = PReacq c e exc) /\
    match r with
    | RDone => In t (held l')
    | RBlocked => True
    | RCancelled => exists c0 e0 x0, cphase_of s t = PReacq c0 e0 x0 /\ ~ reacq_ok (lk s) t
    | _ => False
    end.
Proof.
  intros CI (c & e & Hph) E. destruct CI as [P K [V C]]. unfold LkInv in K.
  revert E. cbn [cstep]. destruct Hph as [Ep|[x Ep]]; rewrite Ep.
  - (* PWait *)
    assert (Hpv : pv (cphase_of s t) = Some (c, e, false)) by (now apply pv_wait).
    pose proof (LK_mustc _ _ t false K) as K0.
    assert (Hli : phase_of (set_mustc (lk s) t false) t = Idle)
      by (apply (K_coupling _ _ K0); rewrite Ep; reflexivity).
    assert (Hnh : ~ In t (held (set_mustc (lk s) t false)))
      by (eapply not_held_if_not_pidle; [exact K0|congruence]).
    assert (Hgen : forall s1 xx,
               lk s1 = set_mustc (lk s) t false /\ cphase_of s1 = cphase_of s ->
               (lost s1 = lost s /\ consumed s1 = consumed s /\ issued s1 = issued s) ->
               (xx = false -> eset s e = true /\ same_ev s1 s) ->
               (let '(l', r) := Lock.step (lk s1) (AcqBegin t) in finish_wait s1 t c e xx l' r) = (s', res) ->
               exists s1 c0 e0 exc l' r,
                 finish_wait s1 t c0 e0 exc l' r = (s', res) /\ Inv l' /\
                 (lost s1 = lost s /\ consumed s1 = consumed s /\ issued s1 = issued s) /\
                 (exc = false -> eset s e0 = true /\ same_ev s1 s) /\
                 (PWait c e = PWait c0 e0 \/ PWait c e = PReacq c0 e0 exc) /\
                 match r with
                 | RDone => In t (held l')
                 | RBlocked => True
                 | RCancelled => exists c1 e1 x0, PWait c e = PReacq c1 e1 x0 /\ ~ reacq_ok (lk s) t
                 | _ => False
                 end).
    { intros s1 xx (P1 & P3) Hcnt Hxx. rewrite P1.
      destruct (Lock.step (set_mustc (lk s) t false) (AcqBegin t)) as [l' r] eqn:El.
      destruct (lstep_frames _ _ _ _ (K_lock _ _ K0) El) as (I' & _).
      pose proof (lstep_acq_res _ t _ _ _ (or_introl eq_refl) Hli El) as Rr.
      intros E. exists s1, c, e, xx, l', r.
      refine (conj E (conj I' (conj Hcnt (conj Hxx (conj (or_introl eq_refl) _))))).
      destruct r; try contradiction; auto.
      - tauto.
      - (* RRuntime: the lock would have to be owned by t already *)
        destruct Rr as [_ Ho]. apply (I_owner _ (K_lock _ _ K0)) in Ho.
        destruct Ho as [H|[H|(f & H & _)]]; [contradiction|congruence|congruence].
      - (* RWouldBlock is never produced by acquire() *)
        revert El. cbn [Lock.step]. rewrite Hli. cbn [is_idle negb].
        destruct (owner _), (waiters _); try destruct (tid_eqb_opt _ t); try destruct (fast _);
          intros El; discriminate. }
    destruct (efut s e) eqn:Ef.
    + intros [= <- <-]. left. auto.
    + intros E. right. eapply Hgen; [| | |exact E].
      * destruct (mustc (lk s) t); [apply wait_interrupted_proj3|cnorm; auto].
      * destruct (mustc (lk s) t); [|cnorm; auto].
        destruct (wait_interrupted_counts (with_lk s (set_mustc (lk s) t false)) c e) as (-> & -> & ->).
        cnorm. auto.
      * destruct (mustc (lk s) t); [discriminate|]. intros _. split; [|unfold same_ev; cnorm; tauto].
        destruct (eset s e) eqn:Ees; [reflexivity|]. exfalso.
        destruct (V_wait0 _ _ _ _ _ _ _ _ V t c e Hpv Ees) as [_ H]. contradiction.
    + intros E. right. eapply Hgen; [| | |exact E].
      * apply wait_interrupted_proj3.
      * destruct (wait_interrupted_counts (with_lk s (set_mustc (lk s) t false)) c e) as (-> & -> & ->).
        cnorm. auto.
      * discriminate.
  - (* PReacq *)
    assert (Hli : phase_of (lk s) t <> Idle).
    { intros H. apply (K_coupling _ _ K) in H. rewrite Ep in H. discriminate. }
    destruct (Lock.step (lk s) (Resume t)) as [l' r] eqn:El.
    destruct (lstep_frames _ _ _ _ (K_lock _ _ K) El) as (I' & _).
    pose proof (lstep_resume_res _ t _ _ (K_lock _ _ K) Hli El) as Rr.
    assert (Hes : x = false -> eset s e = true /\ same_ev s s).
    { intros ->. split; [|unfold same_ev; tauto]. apply (V_reacq _ _ _ _ _ _ _ _ V t c e). now apply pv_reacq. }
    destruct r; try contradiction.
    + intros E. right. exists s, c, e, x, l', RDone.
      refine (conj E (conj I' (conj (conj eq_refl (conj eq_refl eq_refl))
               (conj Hes (conj (or_intror eq_refl) _))))). tauto.
    + intros E. right. exists s, c, e, x, l', RCancelled.
      refine (conj E (conj I' (conj (conj eq_refl (conj eq_refl eq_refl))
               (conj Hes (conj (or_intror eq_refl) _))))).
      exists c, e, x. split; [reflexivity|]. intros [Q1 Q2]. destruct Rr as (_ & _ & [Hm|(f & Hf & Hc)]).
      * congruence.
      * apply (Q2 f Hf Hc).
    + intros [= <- <-]. left. auto.
Qed.

(* 4. wait() returns normally only to a task whose event was set by a notify (or handed on by a notified
      waiter) and which holds the lock again *)
Theorem cond_wait_returns_notified_and_holding fa s t s' :
  creach fa s -> (exists c e, cphase_of s t = PWait c e \/ exists x, cphase_of s t = PReacq c e x) ->
  cstep s (CResume t) = (s', RDone) ->
  (exists c e, (cphase_of s t = PWait c e \/ cphase_of s t = PReacq c e false) /\
               eset s e = true /\ In e (setlog s) /\ In e (inflight s)) /\
  In t (held (lk s')) /\ owner (lk s') = Some t /\ cphase_of s' t = PIdle /\
  consumed s' = S (consumed s).
Proof.
  intros R Hph E. destruct (creach_inv fa s R) as [P K [V C]].
  destruct (resume_in_wait s t s' RDone (creach_inv fa s R) Hph E)
    as [[Hrj _]|(s1 & c & e & exc & l' & r & Ef & I' & Hcnt & Hes & Hp & Hr)];
    [discriminate|].
  pose proof (finish_wait_res _ _ _ _ _ _ _ _ _ Ef) as Hres.
  assert (Hx : exc = false /\ r = RDone).
  { destruct r, exc; try discriminate; auto; try contradiction. }
  destruct Hx as [-> ->]. cbn in Hr.
  assert (Es' : s' = fst (finish_wait s1 t c e false l' RDone)) by (now rewrite Ef).
  destruct (finish_wait_proj s1 t c e false l' RDone) as (F1 & _ & F4).
  destruct (Hes eq_refl) as [Hes' Hsame]. destruct Hsame as (_ & _ & _ & _ & _ & _ & Hc1 & _).
  assert (Hinfl : In e (inflight s)).
  { destruct Hp as [Hp|Hp].
    - apply (V_wait1 _ _ _ _ _ _ _ _ V t c e); [now apply pv_wait|exact Hes'].
    - apply (V_reacq _ _ _ _ _ _ _ _ V t c e). now apply pv_reacq. }
  split.
  - exists c, e. refine (conj Hp (conj Hes' (conj _ Hinfl))). apply (V_setlog _ _ _ _ _ _ _ _ V), Hes'.
  - rewrite Es', F1, F4, upd_same, finish_wait_consumed, Hc1.
    refine (conj Hr (conj _ (conj eq_refl eq_refl))).
    apply (I_owner l' I'). left. exact Hr.
Qed.

(* 4b. (documented scope: no native Task.cancel() inside the shielded re-acquire.)  Every way wait() can end -
       normally or by re-raising the cancellation that interrupted the event wait - leaves the caller holding
       the lock; the re-acquire itself never fails, so no other outcome exists and nothing is ever `lost`. *)
Theorem cond_wait_ends_holding_clean fa s t s' res :
  creach_clean fa s -> (exists c e, cphase_of s t = PWait c e \/ exists x, cphase_of s t = PReacq c e x) ->
  cstep s (CResume t) = (s', res) -> res <> RRejected -> res <> RBlocked ->
  (res = RDone \/ res = RCancelled) /\
  In t (held (lk s')) /\ owner (lk s') = Some t /\ cphase_of s' t = PIdle /\
  lost s' = lost s.
Proof.
  intros Rc Hph E Hrej Hblk. pose proof (creach_clean_reach fa s Rc) as R.
  destruct (creach_clean_qinv fa s Rc) as [_ Q].
  destruct (resume_in_wait s t s' res (creach_inv fa s R) Hph E)
    as [[Hrj _]|(s1 & c & e & exc & l' & r & Ef & I' & (Hl & _) & Hes & Hp & Hr)]; [contradiction|].
  pose proof (finish_wait_res _ _ _ _ _ _ _ _ _ Ef) as Hres.
  assert (Hrd : r = RDone).
  { destruct r; try contradiction; auto.
    destruct Hr as (c0 & e0 & x0 & He0 & Hnok). exfalso. apply Hnok. eapply Q; eauto. }
  subst r. cbn in Hr.
  assert (Es' : s' = fst (finish_wait s1 t c e exc l' RDone)) by (now rewrite Ef).
  destruct (finish_wait_proj s1 t c e exc l' RDone) as (F1 & _ & F4).
  split; [destruct exc; subst res; auto|].
  rewrite Es', F1, F4, upd_same.
  refine (conj Hr (conj _ (conj eq_refl _))).
  - apply (I_owner l' I'). left. exact Hr.
  - rewrite <- Hl. destruct exc; reflexivity.
Qed.

(* ---------------------------------------------------------------------------------------------------- *)
(* 5. notify(n) sets the first min(n, |queue|) events of ITS condition, in waiting order, and nothing else *)
(* ---------------------------------------------------------------------------------------------------- *)
Definition resolved (v : fstate) : fstate := match v with FPending => FSet | _ => v end.

Lemma setf_at ef e : setf ef e e = resolved (ef e).
Proof. unfold setf, resolved. destruct (ef e) eqn:E; [apply upd_same|exact E|exact E]. Qed.

Lemma notify_loop_spec n c hz : forall s, EvInv s ->
  let k := Nat.min n (length (cwaiters s c)) in
  let woken := firstn k (cwaiters s c) in
  cwaiters (notify_loop n c hz s) c = skipn k (cwaiters s c) /\
  (forall c', c' <> c -> cwaiters (notify_loop n c hz s) c' = cwaiters s c') /\
  setlog (notify_loop n c hz s) = setlog s ++ woken /\
  inflight (notify_loop n c hz s) = inflight s ++ woken /\
  (forall e, eset (notify_loop n c hz s) e = true <-> eset s e = true \/ In e woken) /\
  (forall e, In e woken -> efut (notify_loop n c hz s) e = resolved (efut s e)) /\
  (forall e, ~ In e woken -> efut (notify_loop n c hz s) e = efut s e) /\
  (forall e, In e woken -> horizon (notify_loop n c hz s) e = hz) /\
  (forall e, ~ In e woken -> horizon (notify_loop n c hz s) e = horizon s e) /\
  issued (notify_loop n c hz s) = issued s + k /\
  consumed (notify_loop n c hz s) = consumed s /\ dropped (notify_loop n c hz s) = dropped s /\
  lost (notify_loop n c hz s) = lost s /\ nev (notify_loop n c hz s) = nev s /\
  cenq (notify_loop n c hz s) = cenq s /\ nlog (notify_loop n c hz s) = nlog s.
Proof.
  induction n as [|m IH]; intros s V; cbn [notify_loop].
  - cbn. rewrite !app_nil_r. repeat split; auto; try lia; try (intros [H|[]]; exact H); try (intros e []).
  - destruct (cwaiters s c) as [|e r] eqn:Ecw.
    + cbn. rewrite !app_nil_r. repeat split; auto; try lia; try (intros [H|[]]; exact H); try (intros e []).
    + destruct V as [V C].
      assert (Hin : In e (cwaiters s c)) by (rewrite Ecw; now left).
      destruct (V_q _ _ _ _ _ _ _ _ V c e Hin) as (Hes & _).
      pose proof (V_qnd _ _ _ _ _ _ _ _ V c) as Hnd. rewrite Ecw in Hnd.
      inversion Hnd as [|a b Her Hr]; subst.
      rewrite (do_set_unset (with_cw s c r) e hz) by (cnorm; exact Hes). cnorm.
      match goal with |- context [notify_loop m c hz ?x] => set (s2 := x) end.
      assert (V2 : EvInv s2).
      { unfold EvInv, s2. cnorm. split; [apply S_set_head; assumption|]. rewrite app_length. cbn. lia. }
      destruct (IH s2 V2) as (I1 & I1' & I2 & I3 & I4 & I5 & I6 & I6' & I6'' & I7 & I8 & I9 & I10 & I11 & I12 & I13).
      unfold s2 in I1, I1', I2, I3, I4, I5, I6, I6', I6'', I7, I8, I9, I10, I11, I12, I13.
      cbn [length Nat.min firstn skipn].
      revert I1 I1' I2 I3 I4 I5 I6 I6' I6'' I7 I8 I9 I10 I11 I12 I13. cnorm. fold s2. rewrite upd_same.
      set (k' := Nat.min m (length r)). intros I1 I1' I2 I3 I4 I5 I6 I6' I6'' I7 I8 I9 I10 I11 I12 I13.
      assert (Hnin : ~ In e (firstn k' r)).
      { intros H. apply Her. eapply subseq_in; [|exact H].
        rewrite <- (firstn_skipn k' r) at 2. clear. induction (firstn k' r); cbn;
          [apply subseq_nil_l|apply ss_take; assumption]. }
      refine (conj I1 (conj _ (conj _ (conj _ (conj _ (conj _ (conj _ (conj _ (conj _ (conj _
               (conj I8 (conj I9 (conj I10 (conj I11 (conj I12 I13))))))))))))))).
      * intros c' Hc'. rewrite I1' by assumption. now apply upd_other.
      * rewrite I2, <- app_assoc. reflexivity.
      * rewrite I3, <- app_assoc. reflexivity.
      * intros x. rewrite I4. cbn [In]. destruct (Nat.eq_dec x e) as [->|Hne].
        -- rewrite upd_same. tauto.
        -- rewrite upd_other by assumption. split; [tauto|]. intros [H|[H|H]]; auto; congruence.
      * intros x [<-|Hx].
        -- rewrite I6 by exact Hnin. apply setf_at.
        -- rewrite I5 by exact Hx. destruct (setf_spec (efut s) e) as (_ & F2 & _).
           rewrite F2; [reflexivity|]. intros ->. contradiction.
      * intros x Hx. cbn [In] in Hx. rewrite I6 by tauto.
        destruct (setf_spec (efut s) e) as (_ & F2 & _). apply F2. intros ->. apply Hx. now left.
      * intros x [<-|Hx]; [|now apply I6'].
        rewrite I6'' by exact Hnin. apply upd_same.
      * intros x Hx. cbn [In] in Hx. rewrite I6'' by tauto. apply upd_other. intros ->. apply Hx. now left.
      * rewrite I7. lia.
Qed.

Lemma head_check_iff fa s c t :
  creach fa s -> cphase_of s t = PIdle -> (holder_check s c t = true <-> In t (held (lk s))).
Proof.
  intros R Hp. destruct (creach_inv fa s R) as [P K V]. unfold holder_check. rewrite P.
  rewrite tid_eqb_opt_true. apply (owner_iff_held _ _ _ K Hp).
Qed.

Theorem cond_notify_at_most_n_fifo fa s c t n s' :
  creach fa s -> cstep s (CNotify c t n) = (s', RDone) ->
  let k := Nat.min n (length (cwaiters s c)) in
  let woken := firstn k (cwaiters s c) in
  (* at most n, and all of them if fewer wait *)
  length woken = k /\ k <= n /\
  (* the woken ones are the first k of this condition's queue, which is in arrival order; the others stay
     queued; waiters of other conditions on the same lock are not touched *)
  cwaiters s c = woken ++ cwaiters s' c /\ subseq (cwaiters s c) (cenq s) /\
  (forall c', c' <> c -> cwaiters s' c' = cwaiters s c') /\
  setlog s' = setlog s ++ woken /\
  (* nothing else is set or resolved *)
  (forall e, eset s' e = true <-> eset s e = true \/ In e woken) /\
  (forall e, In e woken -> efut s' e = resolved (efut s e)) /\
  (forall e, ~ In e woken -> efut s' e = efut s e) /\
  issued s' = issued s + k /\
  (* the caller keeps the lock and nobody's phase changes *)
  lk s' = lk s /\ cphase_of s' = cphase_of s.
Proof.
  intros R E k woken. destruct (creach_inv fa s R) as [P K V].
  revert E. cbn [cstep]. destruct (negb _); [discriminate|].
  destruct (holder_check s c t); [|discriminate]. intros [= <-].
  assert (V0 : EvInv (with_nlog s (nlog s ++ [nev s]))) by exact V.
  destruct (notify_loop_spec n c (nev s) _ V0) as (I1 & I1' & I2 & I3 & I4 & I5 & I6 & _ & _ & I7 & _).
  destruct (do_notify_proj s c n) as (P1 & P3 & _). cnorm in *.
  fold k in I1, I2, I3, I4, I5, I6, I7. fold woken in I2, I3, I4, I5, I6.
  assert (Hk : k <= length (cwaiters s c)) by (unfold k; lia).
  refine (conj _ (conj _ (conj _ (conj _ (conj I1' (conj I2 (conj I4 (conj I5 (conj I6 (conj I7 (conj P1 P3))))))))))).
  - unfold woken. now apply firstn_length_le.
  - unfold k; lia.
  - unfold do_notify. rewrite I1. unfold woken. symmetry. apply firstn_skipn.
  - destruct V as [V _]. apply (V_fifo _ _ _ _ _ _ _ _ V).
Qed.

Theorem cond_notify_all_wakes_everyone fa s c t s' :
  creach fa s -> cstep s (CNotifyAll c t) = (s', RDone) ->
  cwaiters s' c = [] /\ (forall c', c' <> c -> cwaiters s' c' = cwaiters s c') /\
  setlog s' = setlog s ++ cwaiters s c /\
  (forall e, eset s' e = true <-> eset s e = true \/ In e (cwaiters s c)) /\
  (forall e, In e (cwaiters s c) -> efut s' e = resolved (efut s e)) /\
  (forall e, ~ In e (cwaiters s c) -> efut s' e = efut s e) /\
  issued s' = issued s + length (cwaiters s c) /\ lk s' = lk s /\ cphase_of s' = cphase_of s.
Proof.
  intros R E. destruct (creach_inv fa s R) as [P K V].
  revert E. cbn [cstep]. destruct (negb _); [discriminate|].
  destruct (holder_check s c t); [|discriminate]. intros [= <-].
  assert (V0 : EvInv (with_nlog s (nlog s ++ [nev s]))) by exact V.
  destruct (notify_loop_spec (length (cwaiters s c)) c (nev s) _ V0)
    as (I1 & I1' & I2 & I3 & I4 & I5 & I6 & _ & _ & I7 & _).
  destruct (do_notify_proj s c (length (cwaiters s c))) as (P1 & P3 & _). cnorm in *.
  rewrite Nat.min_id in *. rewrite firstn_all in *. rewrite skipn_all in I1.
  refine (conj I1 (conj I1' (conj I2 (conj I4 (conj I5 (conj I6 (conj I7 (conj P1 P3)))))))).
Qed.

(* ---------------------------------------------------------------------------------------------------- *)
(* 6. a notified waiter that is interrupted before acting hands the notification to the head of the queue *)
(* ---------------------------------------------------------------------------------------------------- *)
Lemma wait_interrupted_passon s c e h q :
  eset s e = true -> cwaiters s c = h :: q -> eset s h = false ->
  wait_interrupted s c e =
    cmk (variant s) (lk s) (owner_rec s) (upd (cwaiters s) c q) (upd (eset s) h true) (setf (efut s) h) (nev s)
        (cphase_of s) (cenq s) (setlog s ++ [h]) (remove_first e (inflight s) ++ [h])
        (upd (horizon s) h (horizon s e)) (nlog s) (issued s) (consumed s) (dropped s) (lost s).
Proof.
  intros H1 H2 H3. unfold wait_interrupted. rewrite H1, H2.
  rewrite (do_set_unset (with_cw s c q) h (horizon s e)) by (cnorm; exact H3). reflexivity.
Qed.

Lemma wait_interrupted_nobody s c e :
  eset s e = true -> cwaiters s c = [] ->
  wait_interrupted s c e =
    with_counts (with_inflight s (remove_first e (inflight s))) (issued s) (consumed s) (S (dropped s)) (lost s).
Proof. intros H1 H2. unfold wait_interrupted. now rewrite H1, H2. Qed.

Lemma finish_wait_exc_counts s t c e l' r :
  consumed (fst (finish_wait s t c e true l' r)) = consumed s /\
  dropped (fst (finish_wait s t c e true l' r)) = dropped s /\
  lost (fst (finish_wait s t c e true l' r)) = lost s.
Proof. destruct r; cbn; auto. Qed.

(* the resumption of an interrupted waiter whose event is set: which state finish_wait is applied to *)
Lemma resume_interrupted fa s t c e s' res :
  creach fa s -> cphase_of s t = PWait c e -> eset s e = true ->
  (efut s e = FCancelled \/ mustc (lk s) t = true) ->
  cstep s (CResume t) = (s', res) ->
  exists l' r,
    finish_wait (wait_interrupted (with_lk s (set_mustc (lk s) t false)) c e) t c e true l' r = (s', res).
Proof.
  intros R Ep Hes Hint E. destruct (creach_inv fa s R) as [P K [V C]].
  assert (Hpv : pv (cphase_of s t) = Some (c, e, false)) by (now apply pv_wait).
  destruct (V_wait1 _ _ _ _ _ _ _ _ V t c e Hpv Hes) as [Hnp _].
  revert E. cbn [cstep]. rewrite Ep. destruct (efut s e) eqn:Ef; [contradiction| |].
  - destruct Hint as [Hint|Hint]; [discriminate|]. rewrite Hint.
    match goal with |- context [Lock.step ?L ?o] => destruct (Lock.step L o) as [l' r] end.
    intros E. now exists l', r.
  - match goal with |- context [Lock.step ?L ?o] => destruct (Lock.step L o) as [l' r] end.
    intros E. now exists l', r.
Qed.

Theorem cond_notification_passed_on fa s t c e h q s' res :
  creach fa s -> cphase_of s t = PWait c e -> eset s e = true ->
  (efut s e = FCancelled \/ mustc (lk s) t = true) ->          (* cancelled before or after the notification *)
  cwaiters s c = h :: q ->
  cstep s (CResume t) = (s', res) ->
  res <> RDone /\
  cwaiters s' c = q /\ (forall c', c' <> c -> cwaiters s' c' = cwaiters s c') /\
  eset s' h = true /\ efut s' h = resolved (efut s h) /\ setlog s' = setlog s ++ [h] /\
  horizon s' h = horizon s e /\
  (exists th, th <> t /\ cphase_of s th = PWait c h /\ cphase_of s' th = PWait c h) /\
  In h (inflight s') /\ ~ In e (inflight s') /\ length (inflight s') = length (inflight s) /\
  issued s' = issued s /\ consumed s' = consumed s /\ dropped s' = dropped s /\ lost s' = lost s.
Proof.
  intros R Ep Hes Hint Ecw E. destruct (creach_inv fa s R) as [P K [V C]].
  assert (Hpv : pv (cphase_of s t) = Some (c, e, false)) by (now apply pv_wait).
  destruct (V_wait1 _ _ _ _ _ _ _ _ V t c e Hpv Hes) as [_ Hin].
  assert (Hh : In h (cwaiters s c)) by (rewrite Ecw; now left).
  destruct (V_q _ _ _ _ _ _ _ _ V c h Hh) as (Hesh & th & Hth).
  assert (Hne : h <> e) by congruence.
  destruct (resume_interrupted fa s t c e s' res R Ep Hes Hint E) as (l' & r & Ef).
  rewrite (wait_interrupted_passon (with_lk s (set_mustc (lk s) t false)) c e h q) in Ef by (cnorm; assumption).
  cnorm in Ef.
  pose proof (finish_wait_res _ _ _ _ _ _ _ _ _ Ef) as Hres.
  match type of Ef with finish_wait ?S1 _ _ _ _ _ _ = _ =>
    assert (Es' : s' = fst (finish_wait S1 t c e true l' r)) by (now rewrite Ef);
    destruct (finish_wait_ev S1 t c e true l' r) as (F1 & F2 & F3 & _ & _ & F6 & F7 & F8 & _ & F9 & _);
    destruct (finish_wait_exc_counts S1 t c e l' r) as (G1 & G2 & G3);
    destruct (finish_wait_proj S1 t c e true l' r) as (_ & _ & F4)
  end.
  rewrite <- Es' in F1, F2, F3, F4, F6, F7, F8, F9, G1, G2, G3. cnorm in *.
  assert (Hth' : th <> t).
  { intros ->. rewrite Hpv in Hth. congruence. }
  apply pv_wait in Hth.
  refine (conj _ (conj _ (conj _ (conj _ (conj _ (conj F6 (conj _ (conj _ (conj _ (conj _ (conj _
           (conj F8 (conj G1 (conj G2 G3)))))))))))))).
  - rewrite Hres. destruct r; discriminate.
  - rewrite F1. apply upd_same.
  - intros c' Hc'. rewrite F1. now apply upd_other.
  - rewrite F2. apply upd_same.
  - rewrite F3. apply setf_at.
  - rewrite F9. apply upd_same.
  - exists th. refine (conj Hth' (conj Hth _)). rewrite F4. now rewrite upd_other.
  - rewrite F7. apply in_or_app. right. now left.
  - rewrite F7. intros H. apply in_app_or in H. destruct H as [H|[H|[]]]; [|congruence].
    revert H. apply remove_first_gone. apply (V_inflnd _ _ _ _ _ _ _ _ V).
  - rewrite F7, app_length. cbn. pose proof (remove_first_length e _ Hin). unfold eid in *. lia.
Qed.

(* ... and when nobody is left in the queue the notification is handed to nobody (counted in `dropped`) *)
Theorem cond_notification_passed_on_to_nobody fa s t c e s' res :
  creach fa s -> cphase_of s t = PWait c e -> eset s e = true ->
  (efut s e = FCancelled \/ mustc (lk s) t = true) -> cwaiters s c = [] ->
  cstep s (CResume t) = (s', res) ->
  res <> RDone /\ cwaiters s' = cwaiters s /\ dropped s' = S (dropped s) /\
  S (length (inflight s')) = length (inflight s) /\
  issued s' = issued s /\ consumed s' = consumed s /\ lost s' = lost s.
Proof.
  intros R Ep Hes Hint Ecw E. destruct (creach_inv fa s R) as [P K [V C]].
  assert (Hpv : pv (cphase_of s t) = Some (c, e, false)) by (now apply pv_wait).
  destruct (V_wait1 _ _ _ _ _ _ _ _ V t c e Hpv Hes) as [_ Hin].
  destruct (resume_interrupted fa s t c e s' res R Ep Hes Hint E) as (l' & r & Ef).
  rewrite (wait_interrupted_nobody (with_lk s (set_mustc (lk s) t false)) c e) in Ef by (cnorm; assumption).
  cnorm in Ef.
  pose proof (finish_wait_res _ _ _ _ _ _ _ _ _ Ef) as Hres.
  match type of Ef with finish_wait ?S1 _ _ _ _ _ _ = _ =>
    assert (Es' : s' = fst (finish_wait S1 t c e true l' r)) by (now rewrite Ef);
    destruct (finish_wait_ev S1 t c e true l' r) as (F1 & _ & _ & _ & _ & _ & F7 & F8 & _);
    destruct (finish_wait_exc_counts S1 t c e l' r) as (G1 & G2 & G3)
  end.
  rewrite <- Es' in F1, F7, F8, G1, G2, G3. cnorm in *.
  refine (conj _ (conj F1 (conj G2 (conj _ (conj F8 (conj G1 G3)))))).
  - rewrite Hres. destruct r; discriminate.
  - rewrite F7. apply remove_first_length, Hin.
Qed.

(* conservation: every notification issued by notify/notify_all is consumed by a wait() that returned, or is
   still in flight (its waiter has not finished), or was handed to nobody because no waiter was left, or was
   lost by a failed re-acquire; and the last term is 0 in the documented scope *)
Theorem cond_notifications_conserved fa s :
  creach fa s -> issued s = consumed s + length (inflight s) + dropped s + lost s.
Proof. intros R. destruct (creach_inv fa s R) as [_ _ [_ C]]. exact C. Qed.

Theorem cond_inflight_characterised fa s e :
  creach fa s ->
  (In e (inflight s) <->
   eset s e = true /\ exists t c, cphase_of s t = PWait c e \/ cphase_of s t = PReacq c e false).
Proof.
  intros R. destruct (creach_inv fa s R) as [_ _ [V _]]. split.
  - intros H. destruct (V_infl _ _ _ _ _ _ _ _ V e H) as (H1 & t & c & b & Ht). split; [exact H1|].
    exists t, c. destruct b; [right; now apply pv_reacq|left; now apply pv_wait].
  - intros (H1 & t & c & [Ht|Ht]).
    + apply (V_wait1 _ _ _ _ _ _ _ _ V t c e); [now apply pv_wait|exact H1].
    + apply (V_reacq _ _ _ _ _ _ _ _ V t c e). now apply pv_reacq.
Qed.

Lemma acquire_begin_lost s oc t o : lost (fst (acquire_begin s oc t o)) = lost s.
Proof. unfold acquire_begin. destruct (Lock.step _ _) as [l' r]. destruct r; reflexivity. Qed.

Lemma cstep_lost_clean s o :
  CInv s -> QInv s -> native_reacq s o = false -> lost (fst (cstep s o)) = lost s.
Proof.
  intros CI Q Hn.
  assert (Hwait : forall t, (exists c e, cphase_of s t = PWait c e \/ exists x, cphase_of s t = PReacq c e x) ->
                  lost (fst (cstep s (CResume t))) = lost s).
  { intros t Hph. destruct (cstep s (CResume t)) as [s' res] eqn:E. cbn [fst].
    destruct (resume_in_wait s t s' res CI Hph E)
      as [[_ ->]|(s1 & c & e & exc & l' & r & Ef & I' & (Hl & _) & Hes & Hp & Hr)]; [reflexivity|].
    replace s' with (fst (finish_wait s1 t c e exc l' r)) by (now rewrite Ef). rewrite <- Hl.
    destruct r; try contradiction; try (destruct exc; reflexivity).
    destruct Hr as (c0 & e0 & x0 & He0 & Hnok). exfalso. apply Hnok. eapply Q; eauto. }
  destruct o as [c t|c t|c t|c t n|c t|c t|t|t|t|t|t|t]; cbn [cstep].
  - destruct (negb _); [reflexivity|]. apply acquire_begin_lost.
  - destruct (negb _); [reflexivity|]. apply acquire_begin_lost.
  - destruct (negb _); [reflexivity|]. destruct (Lock.step _ _) as [l' r]. destruct r; reflexivity.
  - destruct (negb _); [reflexivity|]. destruct (holder_check _ _ _); [|reflexivity].
    destruct CI as [_ _ V]. assert (V0 : EvInv (with_nlog s (nlog s ++ [nev s]))) by exact V.
    apply (notify_loop_spec n c (nev s) _ V0).
  - destruct (negb _); [reflexivity|]. destruct (holder_check _ _ _); [|reflexivity].
    destruct CI as [_ _ V]. assert (V0 : EvInv (with_nlog s (nlog s ++ [nev s]))) by exact V.
    apply (notify_loop_spec (length (cwaiters s c)) c (nev s) _ V0).
  - destruct (negb _); [reflexivity|]. destruct (holder_check _ _ _); [|reflexivity].
    destruct (Lock.step _ _) as [l' r]. destruct r; reflexivity.
  - destruct (negb _); [reflexivity|]. apply acquire_begin_lost.
  - destruct (negb _); [reflexivity|]. apply acquire_begin_lost.
  - destruct (negb _); [reflexivity|]. destruct (Lock.step _ _) as [l' r]. reflexivity.
  - destruct (cphase_of s t) as [|oc|c e|c e exc] eqn:Ep; [reflexivity| | |].
    + destruct (Lock.step _ _) as [l' r]. destruct r; reflexivity.
    + specialize (Hwait t). cbn [cstep] in Hwait. rewrite Ep in Hwait. apply Hwait. eauto.
    + specialize (Hwait t). cbn [cstep] in Hwait. rewrite Ep in Hwait. apply Hwait. eauto.
  - destruct (cphase_of s t) as [|oc|c e|c e exc]; [reflexivity| | |].
    + destruct (Lock.step _ _) as [l' r]. reflexivity.
    + destruct (efut s e); reflexivity.
    + destruct (Lock.step _ _) as [l' r]. reflexivity.
  - destruct (cphase_of s t) as [|oc|c e|c e exc]; [reflexivity| | |reflexivity].
    + destruct (phase_of (lk s) t); try reflexivity. destruct (futs _ _); try reflexivity.
      destruct (Lock.step _ _) as [l' r]. reflexivity.
    + destruct (efut s e); reflexivity.
Qed.

(* in the documented scope nothing is ever lost *)
Theorem cond_nothing_lost_clean fa s :
  creach_clean fa s -> lost s = 0 /\ issued s = consumed s + length (inflight s) + dropped s.
Proof.
  intros Rc. pose proof (cond_notifications_conserved fa s (creach_clean_reach fa s Rc)) as C.
  assert (Hl : lost s = 0).
  { destruct Rc as (ops & Hc & ->).
    assert (G : forall ops s0, CInv s0 -> QInv s0 -> clean_run s0 ops = true ->
                lost (final cstep s0 ops) = lost s0).
    { clear. induction ops as [|o r IH]; intros s0 CI Q H; cbn; [reflexivity|].
      cbn [clean_run] in H. apply andb_prop in H. destruct H as [H1 H2]. apply negb_true_iff in H1.
      transitivity (lost (fst (cstep s0 o))); [|now apply cstep_lost_clean].
      apply (IH (fst (cstep s0 o))); [now apply cstep_inv|now apply cstep_qinv|exact H2]. }
    rewrite G; [reflexivity|apply cinv_init|apply qinv_init|exact Hc]. }
  split; [exact Hl|]. rewrite Hl in C. lia.
Qed.

(* ---------------------------------------------------------------------------------------------------- *)
(* 7. wait / notify / notify_all on ANY condition of the lock are refused iff the caller does not hold   *)
(*    the lock - however it was acquired (this condition, a sibling condition, the lock itself) - and a  *)
(*    refused call changes nothing                                                                       *)
(* ---------------------------------------------------------------------------------------------------- *)
(* `In t (held (lk s))`: some acquire - lock.acquire(), lock.acquire_nowait(), the same through any condition,
   or the re-acquire at the end of a wait() - returned to t and t has not released (by any route) since *)
Theorem cond_holder_is_lock_owner fa s t :
  creach fa s -> cphase_of s t = PIdle -> (In t (held (lk s)) <-> owner (lk s) = Some t).
Proof.
  intros R Hp. destruct (creach_inv fa s R) as [P K V]. symmetry. apply (owner_iff_held _ _ _ K Hp).
Qed.

Theorem cond_requires_holder fa s c t :
  creach fa s -> cphase_of s t = PIdle -> ~ In t (held (lk s)) ->
  cstep s (CWait c t) = (s, RRuntime) /\ (forall n, cstep s (CNotify c t n) = (s, RRuntime)) /\
  cstep s (CNotifyAll c t) = (s, RRuntime).
Proof.
  intros R Hp Hn.
  assert (Ho : holder_check s c t = false).
  { destruct (holder_check s c t) eqn:E; [|reflexivity]. apply (head_check_iff fa s c t R Hp) in E. contradiction. }
  cbn [cstep]. rewrite Hp, Ho. cbn. auto.
Qed.

Theorem cond_holder_accepted fa s c t n :
  creach fa s -> In t (held (lk s)) ->
  snd (cstep s (CNotify c t n)) = RDone /\ snd (cstep s (CNotifyAll c t)) = RDone /\
  snd (cstep s (CWait c t)) = RBlocked /\
  cwaiters (fst (cstep s (CWait c t))) c = cwaiters s c ++ [nev s] /\
  cphase_of (fst (cstep s (CWait c t))) t = PWait c (nev s) /\
  ~ In t (held (lk (fst (cstep s (CWait c t))))).
Proof.
  intros R Hin. destruct (creach_inv fa s R) as [P K V]. unfold LkInv in K.
  assert (Hp : cphase_of s t = PIdle) by (apply (K_heldidle _ _ K), Hin).
  assert (Ho : holder_check s c t = true) by (apply (head_check_iff fa s c t R Hp), Hin).
  assert (Hli : phase_of (lk s) t = Idle) by (apply (K_coupling _ _ K); rewrite Hp; reflexivity).
  cbn [cstep]. rewrite Hp, Ho. cbn [c_is_idle negb snd fst].
  refine (conj eq_refl (conj eq_refl _)).
  destruct (Lock.step (lk s) (Release t)) as [l' r] eqn:E.
  pose proof (head_check_release s c t l' r P Ho Hli E) as ->.
  pose proof (lstep_release_res _ t _ _ Hli E) as Rr. cbn in Rr. destruct Rr as [_ ->].
  cbn. rewrite !upd_same. refine (conj eq_refl (conj eq_refl (conj eq_refl _))).
  destruct (do_release_fields (lk s) t) as (_ & _ & -> & _). intros H. apply in_remove_tid in H. tauto.
Qed.

Theorem cond_refused_iff_not_holder fa s c t n :
  creach fa s -> cphase_of s t = PIdle ->
  (snd (cstep s (CWait c t)) = RRuntime <-> ~ In t (held (lk s))) /\
  (snd (cstep s (CNotify c t n)) = RRuntime <-> ~ In t (held (lk s))) /\
  (snd (cstep s (CNotifyAll c t)) = RRuntime <-> ~ In t (held (lk s))).
Proof.
  intros R Hp.
  assert (G : forall o, (snd (cstep s o) = RRuntime <-> ~ In t (held (lk s))) \/ True) by (right; exact I).
  destruct (in_dec Nat.eq_dec t (held (lk s))) as [Hin|Hn].
  - destruct (cond_holder_accepted fa s c t n R Hin) as (H1 & H2 & H3 & _).
    repeat split; intros H; try contradiction; congruence.
  - destruct (cond_requires_holder fa s c t R Hp Hn) as (H1 & H2 & H3).
    rewrite H1, (H2 n), H3. cbn. tauto.
Qed.

(* structural consequences of the invariant used by the clauses above *)
(* every queued event belongs to a task that is really suspended in wait() on it: no stale entries that could
   swallow a notification *)
Theorem cond_queue_has_live_waiters fa s c e :
  creach fa s -> In e (cwaiters s c) ->
  eset s e = false /\ efut s e <> FSet /\ exists t, cphase_of s t = PWait c e.
Proof.
  intros R H. destruct (creach_inv fa s R) as [_ _ [V _]].
  destruct (V_q _ _ _ _ _ _ _ _ V c e H) as (H1 & t & Ht).
  destruct (V_wait0 _ _ _ _ _ _ _ _ V t c e Ht H1) as [_ H2].
  refine (conj H1 (conj H2 _)). exists t. now apply pv_wait.
Qed.

(* no lost wake-up: a notified waiter is runnable; no early/spurious wake-up: an un-notified waiter is resumed
   only by a cancellation, and then its wait() does not return normally *)
Theorem cond_waiter_runnable_iff_notified_or_cancelled fa s t c e :
  creach fa s -> cphase_of s t = PWait c e ->
  (eset s e = true -> efut s e <> FPending /\ snd (cstep s (CResume t)) <> RRejected) /\
  (eset s e = false -> In e (cwaiters s c) /\
     (efut s e = FPending /\ snd (cstep s (CResume t)) = RRejected \/
      efut s e = FCancelled /\ snd (cstep s (CResume t)) <> RDone)).
Proof.
  intros R Ep. pose proof (creach_inv fa s R) as CI. destruct CI as [P K [V C]]. unfold LkInv in K.
  assert (Hpv : pv (cphase_of s t) = Some (c, e, false)) by (now apply pv_wait).
  split.
  - intros Hes. destruct (V_wait1 _ _ _ _ _ _ _ _ V t c e Hpv Hes) as [Hnp _]. split; [exact Hnp|].
    destruct (cstep s (CResume t)) as [s' res] eqn:E. cbn [snd]. intros ->.
    assert (Hph : exists c e, cphase_of s t = PWait c e \/ exists x, cphase_of s t = PReacq c e x) by eauto.
    destruct (resume_in_wait s t s' RRejected (creach_inv fa s R) Hph E)
      as [[_ ->]|(s1 & c0 & e0 & exc & l' & r & Ef & _ & _ & _ & _ & Hr)].
    + (* state unchanged and rejected: only possible with a pending future *)
      revert E. cbn [cstep]. rewrite Ep. destruct (efut s e) eqn:Ef; [contradiction| |];
        match goal with |- context [Lock.step ?L ?o] => destruct (Lock.step L o) as [l' r] eqn:El end;
        intros E; pose proof (finish_wait_res _ _ _ _ _ _ _ _ _ E) as Hres;
        assert (Hli : phase_of (set_mustc (lk s) t false) t = Idle)
          by (apply (K_coupling _ _ (LK_mustc _ _ t false K)); rewrite Ep; reflexivity);
        match type of El with Lock.step ?L _ = _ =>
          assert (HL : L = set_mustc (lk s) t false)
            by (try destruct (mustc (lk s) t);
                try (destruct (wait_interrupted_proj3 s t c e) as (-> & _)); reflexivity) end;
        rewrite HL in El; pose proof (lstep_acq_res _ t _ _ _ (or_introl eq_refl) Hli El) as Rr;
        destruct r; try contradiction; try discriminate;
        match type of Hres with _ = if ?b then _ else _ => destruct b; discriminate end.
    + pose proof (finish_wait_res _ _ _ _ _ _ _ _ _ Ef) as Hres.
      destruct r; try contradiction; try discriminate.
      match type of Hres with _ = if ?b then _ else _ => destruct b; discriminate end.
  - intros Hes. destruct (V_wait0 _ _ _ _ _ _ _ _ V t c e Hpv Hes) as [Hin Hns]. split; [exact Hin|].
    destruct (efut s e) eqn:Ef; [left|contradiction|right]; (split; [reflexivity|]).
    + cbn [cstep]. rewrite Ep, Ef. reflexivity.
    + destruct (cstep s (CResume t)) as [s' res] eqn:E. cbn [snd]. intros ->.
      revert E. cbn [cstep]. rewrite Ep, Ef.
      match goal with |- context [Lock.step ?L ?o] => destruct (Lock.step L o) as [l' r] end.
      intros E. pose proof (finish_wait_res _ _ _ _ _ _ _ _ _ E) as Hres. destruct r; discriminate.
Qed.

(* ---------------------------------------------------------------------------------------------------- *)
(* 8. known finding F18: the strong reading of "wait() returns only to a task that was notified"         *)
(* ---------------------------------------------------------------------------------------------------- *)
(* For the op sequence `ops`: whenever a wait() returns normally, the notification it returns on was issued by
   a notify / notify_all call (recorded in `nlog`) that was made after this wait() had begun: events are
   numbered by the order in which their wait() calls began, `horizon e` is the number of wait() calls begun
   before the notify call whose notification event e carries. *)
Definition notified_only_for (fa : bool) (ops : list cop) : Prop :=
  forall t s',
    let s := final cstep (cinit fa 0) ops in
    (exists c e, cphase_of s t = PWait c e \/ exists x, cphase_of s t = PReacq c e x) ->
    cstep s (CResume t) = (s', RDone) ->
    exists c e, (cphase_of s t = PWait c e \/ cphase_of s t = PReacq c e false) /\
                eset s e = true /\ e < horizon s e /\ In (horizon s e) (nlog s).

Definition notified_only_full : Prop := forall fa ops, notified_only_for fa ops.

Lemma no_late_final ops : forall s, CInv s -> HInv s -> no_late_handover s ops = true ->
  HInv (final cstep s ops).
Proof.
  induction ops as [|o r IH]; intros s C H Hn; cbn; [exact H|].
  cbn [no_late_handover] in Hn. apply andb_prop in Hn. destruct Hn as [H1 H2]. apply negb_true_iff in H1.
  apply IH; [now apply cstep_inv| |exact H2]. destruct C as [P K V]. now apply cstep_hinv.
Qed.

Theorem cond_notified_only_no_late_handover fa ops :
  no_late_handover (cinit fa 0) ops = true -> notified_only_for fa ops.
Proof.
  intros Hn t s' s Hph E.
  assert (R : creach fa s) by (now exists ops).
  assert (H : HInv s) by (apply no_late_final; [apply cinv_init|apply hinv_init|exact Hn]).
  destruct (cond_wait_returns_notified_and_holding fa s t s' R Hph E) as ((c & e & Hp & Hes & _) & _).
  exists c, e. destruct (H e Hes) as [H1 H2]. auto.
Qed.

(* W1 (task 1) waits; the notifier (task 2) cancels it and calls notify(1) in the same cycle, then releases;
   LATE (task 3) starts to wait; W1 resumes, finds its event set and hands the notification to LATE; LATE's
   wait() returns although the only notify call was made before LATE began to wait *)
Definition f18_ops :=
  [CAcquire 0 1; CResume 1; CWait 0 1; CAcquire 0 2; CResume 2; CCancel 1; CNotify 0 2 1; CRelease 0 2;
   CAcquire 0 3; CResume 3; CWait 0 3; CResume 1; CResume 1; CRelease 0 1; CResume 3].

Theorem cond_late_handover_refuted :
  exists fa ops t s',
    let s := final cstep (cinit fa 0) ops in
    no_late_handover (cinit fa 0) ops = false /\ clean_run (cinit fa 0) ops = true /\
    cphase_of s t = PReacq 0 1 false /\ cstep s (CResume t) = (s', RDone) /\
    nlog s = [1] /\                       (* the only notify call was made when one wait() had begun ... *)
    horizon s 1 = 1 /\                    (* ... its notification is the one event 1 carries ... *)
    In t (held (lk s')) /\ consumed s' = 1. (* ... and task t, whose wait() was the second to begin, returns on it *)
Proof.
  exists false, f18_ops, 3. eexists. cbv zeta.
  refine (conj _ (conj _ (conj _ (conj _ (conj _ (conj _ (conj _ _))))))).
  4: { apply surjective_pairing. }
  - vm_compute. reflexivity.
  - vm_compute. reflexivity.
  - vm_compute. reflexivity.
  - vm_compute. reflexivity.
  - vm_compute. reflexivity.
  - vm_compute. auto.
  - vm_compute. reflexivity.
Qed.

Theorem cond_notified_only_full_refuted : ~ notified_only_full.
Proof.
  intros F. specialize (F false f18_ops 3).
  set (s := final cstep (cinit false 0) f18_ops) in *.
  assert (Hp : cphase_of s 3 = PReacq 0 1 false) by (vm_compute; reflexivity).
  assert (Hh : horizon s 1 = 1) by (vm_compute; reflexivity).
  assert (Hr : snd (cstep s (CResume 3)) = RDone) by (vm_compute; reflexivity).
  destruct (F (fst (cstep s (CResume 3)))) as (c & e & Hph & _ & Hlt & _).
  - exists 0, 1. right. exists false. exact Hp.
  - rewrite <- Hr. apply surjective_pairing.
  - assert (e = 1) by (destruct Hph as [H|H]; rewrite Hp in H; congruence). subst e. lia.
Qed.

(* ---------------------------------------------------------------------------------------------------- *)
(* F17 (fixed in /repo by ba2c76e) and F7 (fixed by 826e17f): with a private copy of the owner in each  *)
(* Condition (`variant` 1: cleared by Condition.release(); 2: never cleared) clause 7 fails both ways    *)
(* ---------------------------------------------------------------------------------------------------- *)
(* (a) false refusal: the lock is held - acquired directly, or through the sibling condition - and notify /
       notify_all / wait on the condition are refused *)
Theorem cond_holder_refused_refuted_pinned :
  exists fa ops t,
    let s := final cstep (cinit fa 1) ops in
    cphase_of s t = PIdle /\ In t (held (lk s)) /\ owner (lk s) = Some t /\
    cstep s (CNotify 0 t 1) = (s, RRuntime) /\ cstep s (CNotifyAll 0 t) = (s, RRuntime) /\
    cstep s (CWait 0 t) = (s, RRuntime) /\
    (* the same task through the sibling condition 1 that shares the lock *)
    exists ops', let s1 := final cstep (cinit fa 1) ops' in
      In t (held (lk s1)) /\ snd (cstep s1 (CNotify 1 t 1)) = RDone /\ snd (cstep s1 (CNotify 0 t 1)) = RRuntime.
Proof.
  exists false, [LAcquire 1; CResume 1], 1. cbv zeta.
  refine (conj _ (conj _ (conj _ (conj _ (conj _ (conj _ _)))))).
  - vm_compute. reflexivity.
  - vm_compute. auto.
  - vm_compute. reflexivity.
  - vm_compute. reflexivity.
  - vm_compute. reflexivity.
  - vm_compute. reflexivity.
  - exists [CAcquire 1 1; CResume 1]. cbv zeta. vm_compute. auto.
Qed.

(* (b) false acceptance, ghost waiter and lost wake-up: acquire through the condition, release through the lock
       (variant 1) resp. through the condition itself (variant 2, F7) *)
Definition f17_prefix := [CAcquire 0 1; CResume 1; LRelease 1].
Definition f7_prefix := [CAcquire 0 1; CResume 1; CRelease 0 1].
Definition ghost_suffix := [CAcquire 0 2; CResume 2; CWait 0 2; CAcquire 0 3; CResume 3; CNotify 0 3 1].

Definition ghost_waiter_witness (v : nat) (prefix : list cop) : Prop :=
  let s := final cstep (cinit false v) prefix in
  (* task 1 is idle and does not hold the lock ... *)
  cphase_of s 1 = PIdle /\ ~ In 1 (held (lk s)) /\ owner (lk s) = None /\
  (* ... yet its notify()/notify_all() are accepted ... *)
  snd (cstep s (CNotify 0 1 1)) = RDone /\ snd (cstep s (CNotifyAll 0 1)) = RDone /\
  (* ... and its wait() raises RuntimeError but leaves a stale event in the queue ... *)
  snd (cstep s (CWait 0 1)) = RRuntime /\ cwaiters (fst (cstep s (CWait 0 1))) 0 = [0] /\
  (* ... which later swallows a notify(1): task 2 is really waiting, one notification was issued, it went to
     the stale event 0, task 2 is not runnable: a lost wake-up *)
  let s2 := final cstep (fst (cstep s (CWait 0 1))) ghost_suffix in
  cphase_of s2 2 = PWait 0 1 /\ issued s2 = 1 /\ consumed s2 = 0 /\
  setlog s2 = [0] /\ cphase_of s2 1 = PIdle /\
  eset s2 1 = false /\ efut s2 1 = FPending /\ cwaiters s2 0 = [1] /\
  snd (cstep s2 (CResume 2)) = RRejected.

Theorem cond_requires_holder_refuted_pinned :
  ghost_waiter_witness 1 f17_prefix /\ ghost_waiter_witness 2 f7_prefix.
Proof.
  split; unfold ghost_waiter_witness; cbv zeta.
  - refine (conj _ (conj _ (conj _ (conj _ (conj _ (conj _ (conj _ _))))))).
    1, 3, 4, 5, 6, 7: vm_compute; reflexivity.
    + vm_compute. intros [].
    + vm_compute. repeat split.
  - refine (conj _ (conj _ (conj _ (conj _ (conj _ (conj _ (conj _ _))))))).
    1, 3, 4, 5, 6, 7: vm_compute; reflexivity.
    + vm_compute. intros [].
    + vm_compute. repeat split.
Qed.

(* the same histories at HEAD: every call by the non-holder is refused and nothing changes; the holder is
   accepted whichever way it got the lock *)
Example f17_fixed_at_head :
  (let s := final cstep (cinit false 0) f17_prefix in
   cstep s (CNotify 0 1 1) = (s, RRuntime) /\ cstep s (CWait 0 1) = (s, RRuntime)) /\
  (let s := final cstep (cinit false 0) [LAcquire 1; CResume 1] in
   snd (cstep s (CNotify 0 1 1)) = RDone /\ snd (cstep s (CNotify 1 1 1)) = RDone /\
   snd (cstep s (CWait 1 1)) = RBlocked).
Proof.
  split; cbv zeta.
  - destruct (cond_requires_holder false (final cstep (cinit false 0) f17_prefix) 0 1) as (H1 & H2 & _);
      [now exists f17_prefix|reflexivity|vm_compute; intros []|].
    split; [apply H2|exact H1].
  - vm_compute. auto.
Qed.

(* ---------------------------------------------------------------------------------------------------- *)
(* non-vacuity: concrete reachable states meeting the hypotheses of the theorems above                   *)
(* ---------------------------------------------------------------------------------------------------- *)
(* tasks 1,2,3 wait on condition 0 (events 0,1,2 in that order), task 4 holds the lock *)
Definition ex3 := [CAcquire 0 1; CResume 1; CWait 0 1; CAcquire 0 2; CResume 2; CWait 0 2;
                   CAcquire 0 3; CResume 3; CWait 0 3; CAcquire 0 4; CResume 4].

Example ex_three_waiters :
  let s := final cstep (cinit false 0) ex3 in
  cwaiters s 0 = [0; 1; 2] /\ held (lk s) = [4] /\
  snd (cstep s (CNotify 0 4 2)) = RDone /\ cwaiters (fst (cstep s (CNotify 0 4 2))) 0 = [2] /\
  snd (cstep s (CNotify 0 4 7)) = RDone /\ cwaiters (fst (cstep s (CNotify 0 4 7))) 0 = [] /\
  snd (cstep s (CNotify 0 4 0)) = RDone /\ cwaiters (fst (cstep s (CNotify 0 4 0))) 0 = [0; 1; 2] /\
  snd (cstep s (CNotifyAll 0 4)) = RDone /\
  (* a notify on the sibling condition 1 (same lock, no waiters there) wakes nobody *)
  snd (cstep s (CNotify 1 4 5)) = RDone /\ cwaiters (fst (cstep s (CNotify 1 4 5))) 0 = [0; 1; 2] /\
  (* non-holder 5: hypotheses of cond_requires_holder *)
  cphase_of s 5 = PIdle /\ snd (cstep s (CNotify 0 5 1)) = RRuntime.
Proof. vm_compute. repeat split. Qed.

(* two conditions on one lock, direct lock use: acquire directly, wait on 1, another task acquires through
   condition 0, notifies on 1, releases directly *)
Example ex_shared_lock :
  let s := final cstep (cinit false 0)
             [LAcquire 1; CResume 1; CWait 1 1; CAcquire 0 2; CResume 2; CNotify 1 2 1; LRelease 2; CResume 1] in
  cphase_of s 1 = PReacq 1 0 false /\ snd (cstep s (CResume 1)) = RDone /\
  held (lk (fst (cstep s (CResume 1)))) = [1].
Proof. vm_compute. repeat split. Qed.

(* wait() returning normally: from the event wait directly (fast_acquire lock) and from the re-acquire *)
Example ex_wait_returns_fast :
  let s := final cstep (cinit true 0) [CAcquire 0 1; CWait 0 1; CAcquire 0 2; CNotify 0 2 1; CRelease 0 2] in
  cphase_of s 1 = PWait 0 0 /\ snd (cstep s (CResume 1)) = RDone.
Proof. vm_compute. repeat split. Qed.

Example ex_wait_returns_after_reacquire :
  let s := final cstep (cinit false 0) (ex3 ++ [CNotify 0 4 1; CResume 1; CRelease 0 4]) in
  cphase_of s 1 = PReacq 0 0 false /\ snd (cstep s (CResume 1)) = RDone /\
  consumed (fst (cstep s (CResume 1))) = 1.
Proof. vm_compute. repeat split. Qed.

(* pass-on, cancelled AFTER the notification (future already resolved: must-cancel flag) *)
Example ex_passon_cancel_after_notify :
  let s := final cstep (cinit false 0) (ex3 ++ [CNotify 0 4 1; CCancel 1]) in
  cphase_of s 1 = PWait 0 0 /\ eset s 0 = true /\ mustc (lk s) 1 = true /\ cwaiters s 0 = [1; 2] /\
  late_handover s (CResume 1) = false /\
  snd (cstep s (CResume 1)) = RBlocked /\ eset (fst (cstep s (CResume 1))) 1 = true /\
  snd (cstep (fst (cstep s (CResume 1))) (CResume 2)) = RBlocked.
Proof. vm_compute. repeat split. Qed.

(* pass-on, cancelled BEFORE the notification in the same cycle (future cancelled, event still queued) *)
Example ex_passon_cancel_before_notify :
  let s := final cstep (cinit false 0) (ex3 ++ [CCancel 1; CNotify 0 4 1]) in
  cphase_of s 1 = PWait 0 0 /\ eset s 0 = true /\ efut s 0 = FCancelled /\ cwaiters s 0 = [1; 2] /\
  inflight (fst (cstep s (CResume 1))) = [1].
Proof. vm_compute. repeat split. Qed.

(* pass-on through the AnyIO scope (cancel before the notification), and scope cancel after: no effect *)
Example ex_scope_cancel :
  let s := final cstep (cinit false 0) (ex3 ++ [CScopeCancel 1; CNotify 0 4 2; CScopeCancel 2]) in
  efut s 0 = FCancelled /\ efut s 1 = FSet /\ mustc (lk s) 2 = false /\ cwaiters s 0 = [2].
Proof. vm_compute. repeat split. Qed.

Example ex_passon_to_nobody :
  let s := final cstep (cinit false 0)
             [CAcquire 0 1; CResume 1; CWait 0 1; CAcquire 0 2; CResume 2; CNotify 0 2 1; CCancel 1] in
  cphase_of s 1 = PWait 0 0 /\ eset s 0 = true /\ mustc (lk s) 1 = true /\ cwaiters s 0 = [] /\
  dropped (fst (cstep s (CResume 1))) = 1.
Proof. vm_compute. repeat split. Qed.

(* a clean, non-trivial history without late hand-over: native cancels of waiters, an AnyIO scope cancel inside
   the shielded re-acquire (no effect), a legitimate hand-over, a wait() that returns and one that re-raises *)
Definition ex_clean := ex3 ++ [CNotify 0 4 1; CResume 1; CScopeCancel 1; CCancel 2; CResume 2; CRelease 0 4;
                               CResume 1; CRelease 0 1].
Example ex_clean_run :
  clean_run (cinit false 0) ex_clean = true /\ no_late_handover (cinit false 0) ex_clean = true /\
  let s := final cstep (cinit false 0) ex_clean in
  cphase_of s 2 = PReacq 0 1 true /\ snd (cstep s (CResume 2)) = RCancelled /\
  held (lk (fst (cstep s (CResume 2)))) = [2] /\ lost s = 0 /\ consumed s = 1 /\ cwaiters s 0 = [2].
Proof. vm_compute. repeat split. Qed.

(* a legitimate hand-over is not a late one: the receiver was waiting when notify was called *)
Example ex_no_late_handover_with_passon :
  let ops := ex3 ++ [CCancel 1; CNotify 0 4 1; CRelease 0 4; CResume 1; CResume 1; CRelease 0 1; CResume 2] in
  no_late_handover (cinit false 0) ops = true /\
  let s := final cstep (cinit false 0) ops in
  cphase_of s 2 = PReacq 0 1 false /\ snd (cstep s (CResume 2)) = RDone /\ horizon s 1 = 3.
Proof. vm_compute. repeat split. Qed.

(* documented scope: what a NATIVE Task.cancel() inside the shielded re-acquire does.  Task 1 was notified, woke
   up normally and queues for the lock; the native cancel makes its wait() raise without the lock, and the
   notification is neither consumed nor handed on: tasks 2 and 3 keep sleeping. *)
Definition ex_native := ex3 ++ [CNotify 0 4 1; CResume 1; CCancel 1].
Example ex_native_cancel_in_reacquire :
  clean_run (cinit false 0) ex_native = false /\
  let s := final cstep (cinit false 0) ex_native in
  cphase_of s 1 = PReacq 0 0 false /\
  snd (cstep s (CResume 1)) = RCancelled /\
  let s' := fst (cstep s (CResume 1)) in
  held (lk s') = [4] /\ lost s' = 1 /\ consumed s' = 0 /\ inflight s' = [] /\
  cwaiters s' 0 = [1; 2] /\ issued s' = 1.
Proof. vm_compute. repeat split. Qed.
