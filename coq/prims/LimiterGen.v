(* translator refused *)
From AV Require Import Base PrimImp.
Definition refused : False := "translate_prims REFUSED: lim_acquire_on_behalf_of: line 2257: the method must begin with `await ...checkpoint_if_cancelled()` (F53 order: check first, then test and take in one segment) `async def acquire_on_behalf_of(self, borrower: object) -> None: if borrower in self._borro`".
