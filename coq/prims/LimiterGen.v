(* translator refused *)
From AV Require Import Base PrimImp.
Definition refused : False := "translate_prims REFUSED: lim_notify_next_waiter: line 2235: unsupported condition `self.available_tokens`".
