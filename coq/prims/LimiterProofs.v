(* Proofs about the CapacityLimiter machine: an inductive invariant for every op sequence
   (conditional on the ghost flag `tainted`, see Limiter.v). *)
From AV Require Import Base C10Defs C10Lib Limiter.

(* ---------- queue helpers ---------- *)
Lemma queue_set_fresh q b e : ~ In b (keys q) -> queue_set q b e = q ++ [(b, e)].
Proof.
  induction q as [|[b' e'] r IH]; cbn; intros H; [reflexivity|].
  destruct (Nat.eqb_spec b' b) as [->|Hne]; [exfalso; apply H; now left|].
  f_equal. apply IH. intros H1. apply H. now right.
Qed.

Lemma queue_pop_subseq q b : subseq (queue_pop q b) q.
Proof.
  induction q as [|[b' e'] r IH]; cbn; [apply ss_nil|].
  destruct (Nat.eqb b' b); [apply subseq_tl|apply ss_take, IH].
Qed.

Lemma queue_pop_absent q b : ~ In b (keys q) -> queue_pop q b = q.
Proof.
  induction q as [|[b' e'] r IH]; cbn; intros H; [reflexivity|].
  destruct (Nat.eqb_spec b' b) as [->|Hne]; [exfalso; apply H; now left|].
  f_equal. apply IH. intros H1. apply H. now right.
Qed.

Lemma in_queue_pop_other q b b' e' : In (b', e') q -> b' <> b -> In (b', e') (queue_pop q b).
Proof.
  induction q as [|[b0 e0] r IH]; cbn; [tauto|]. intros [H|H] Hne.
  - injection H as -> ->. destruct (Nat.eqb_spec b' b); [contradiction|now left].
  - destruct (Nat.eqb b0 b); [exact H|right; apply IH; assumption].
Qed.

Lemma queue_pop_gone q b : NoDup (keys q) -> ~ In b (keys (queue_pop q b)).
Proof.
  induction q as [|[b0 e0] r IH]; cbn; intros Hn; [tauto|].
  inversion Hn as [|y l Hy Hl]; subst.
  destruct (Nat.eqb_spec b0 b) as [->|Hne]; [exact Hy|].
  cbn. intros [H|H]; [contradiction|]. now apply IH.
Qed.

Lemma in_keys b e q : In (b, e) q -> In b (keys q).
Proof. intros H. unfold keys. apply in_map_iff. exists (b, e). split; [reflexivity|exact H]. Qed.

Lemma set_add_new b l : ~ In b l -> set_add b l = b :: l.
Proof. intros H. unfold set_add. apply mem_false in H. now rewrite H. Qed.

Lemma is_idle_true p : is_idle p = true <-> p = Idle.
Proof. destruct p; cbn; split; congruence. Qed.

Lemma is_nil_true {A} (l : list A) : is_nil l = true <-> l = [].
Proof. destruct l; cbn; split; congruence. Qed.

(* ---------- the invariant ---------- *)
(* task t owns a token for b although its acquire call has not returned *)
Definition resv_phase (s : st) (t : tid) (b : bid) : Prop :=
  phase_of s t = FastYield b \/ exists e, phase_of s t = Waiting b e /\ evset s e = true.

(* task t is inside an acquire call for b *)
Definition inprog (s : st) (t : tid) (b : bid) : Prop :=
  phase_of s t = FastYield b \/ exists e, phase_of s t = Waiting b e.

Record Core (s : st) : Prop := {
  L_bnd : NoDup (borrowers s);
  L_split : forall b, In b (borrowers s) <-> In b (held s) \/ In b (resv s);
  L_hnd : NoDup (held s);
  L_rnd : NoDup (resv s);
  L_disj : forall b, In b (held s) -> ~ In b (resv s);
  L_resv : forall b, In b (resv s) <-> exists t, resv_phase s t b;
  L_q : forall b e, In (b, e) (queue s) <-> (exists t, phase_of s t = Waiting b e) /\ evset s e = false;
  L_qnd : NoDup (keys (queue s));
  L_qb : forall b, In b (keys (queue s)) -> ~ In b (borrowers s);
  L_uniq : forall t1 t2 b, inprog s t1 b -> inprog s t2 b -> t1 = t2;
  L_efresh : forall t b e, phase_of s t = Waiting b e -> e < nev s;
  L_einj : forall t1 t2 b1 b2 e, phase_of s t1 = Waiting b1 e -> phase_of s t2 = Waiting b2 e -> t1 = t2;
  L_fifo : subseq (queue s) (arrivals s)
}.

(* at most k tokens are free while somebody queues (k = 0 between steps) *)
Definition NoFreeK (k : nat) (s : st) : Prop :=
  queue s <> [] -> match total s with None => False | Some m => m <= length (borrowers s) + k end.

Record Inv0 (s : st) : Prop := {
  I_core : Core s;
  I_nofree : NoFreeK 0 s
}.

Definition Inv (s : st) : Prop := tainted s = false -> Inv0 s.

Lemma inv_init v : Inv (init v).
Proof.
  intros _. constructor; [constructor; cbn|].
  - constructor.
  - intros b. tauto.
  - constructor.
  - constructor.
  - intros b [].
  - intros b. split; [intros []|]. intros (t & [H|(e & H & _)]); discriminate.
  - intros b e. split; [intros []|]. intros ((t & H) & _). discriminate.
  - constructor.
  - intros b [].
  - intros t1 t2 b [H|(e & H)]; discriminate.
  - intros t b e H; discriminate.
  - intros t1 t2 b1 b2 e H; discriminate.
  - apply ss_nil.
  - intros H. now contradiction H.
Qed.

(* components the core does not mention *)
Lemma core_irrel s tot fc mc tn :
  Core s ->
  Core (mk tot (borrowers s) (queue s) (evset s) (nev s) (phase_of s) fc mc (held s) (resv s) (arrivals s) tn).
Proof. intros C. destruct C. constructor; cbn; assumption. Qed.

Lemma free_false bs tot : free bs tot = false -> exists m, tot = Some m /\ m <= length bs.
Proof.
  unfold free. destruct tot as [m|]; [|discriminate]. intros H. exists m. split; [reflexivity|].
  apply Nat.ltb_ge in H. exact H.
Qed.

Lemma free_true bs m : free bs (Some m) = true -> length bs < m.
Proof. unfold free. intros H. now apply Nat.ltb_lt in H. Qed.

(* ---------- granting the token to the head of the queue ---------- *)
Lemma grant_core s bs b e r ev rv :
  Core (with_tok s bs ((b, e) :: r) ev rv) ->
  Core (with_tok s (set_add b bs) r (upd ev e true) (b :: rv)).
Proof.
  intros C.
  assert (Hq : In (b, e) (queue (with_tok s bs ((b, e) :: r) ev rv))) by (cbn; now left).
  apply (L_q _ C) in Hq. cbn in Hq. destruct Hq as ((t0 & Ht0) & Hev).
  assert (Hnb : ~ In b bs) by (apply (L_qb _ C b); cbn; now left).
  rewrite (set_add_new b bs Hnb).
  pose proof (L_split _ C b) as Hsp. cbn in Hsp.
  pose proof (L_qnd _ C) as Hqn. cbn in Hqn. inversion Hqn as [|y l Hy Hl]; subst.
  constructor; cbn.
  - constructor; [exact Hnb|apply (L_bnd _ C)].
  - intros x. pose proof (L_split _ C x) as H. cbn in H. split.
    + intros [<-|Hx]; [right; now left|]. apply H in Hx. tauto.
    + intros [Hx|[<-|Hx]]; [right; apply H; tauto|now left|right; apply H; tauto].
  - apply (L_hnd _ C).
  - constructor; [|apply (L_rnd _ C)]. intros Hx. apply Hnb. apply Hsp. now right.
  - intros x Hx [<-|Hr].
    + apply Hnb. apply Hsp. now left.
    + apply (L_disj _ C x Hx). exact Hr.
  - intros x. pose proof (L_resv _ C x) as H. cbn in H. unfold resv_phase in *; cbn in *. split.
    + intros [<-|Hx].
      * exists t0. right. exists e. split; [exact Ht0|apply upd_same].
      * apply H in Hx. destruct Hx as (t & [Hx|(e' & Hx1 & Hx2)]); exists t; [now left|].
        right. exists e'. split; [exact Hx1|]. rewrite upd_other; [exact Hx2|]. intros ->. congruence.
    + intros (t & [Hx|(e' & Hx1 & Hx2)]).
      * right. apply H. exists t. now left.
      * destruct (Nat.eq_dec e' e) as [->|Hne].
        -- left. assert (t = t0) by (eapply (L_einj _ C); cbn; eauto). subst. congruence.
        -- rewrite upd_other in Hx2 by assumption. right. apply H. exists t. right. eauto.
  - intros x e'. pose proof (L_q _ C x e') as H. cbn in H. split.
    + intros Hx. assert (Hx' : (b, e) = (x, e') \/ In (x, e') r) by now right.
      apply H in Hx'. destruct Hx' as ((t & Ht) & He). split; [eauto|].
      destruct (Nat.eq_dec e' e) as [->|Hne].
      * exfalso. assert (t = t0) by (eapply (L_einj _ C); cbn; eauto). subst.
        assert (x = b) by congruence. subst. apply Hy. eapply in_keys; eauto.
      * now rewrite upd_other by assumption.
    + intros (Ht & He). destruct (Nat.eq_dec e' e) as [->|Hne]; [rewrite upd_same in He; discriminate|].
      rewrite upd_other in He by assumption. assert (Hx : (b, e) = (x, e') \/ In (x, e') r) by (apply H; tauto).
      destruct Hx as [Hx|Hx]; [congruence|exact Hx].
  - exact Hl.
  - intros x Hx [<-|Hb]; [contradiction|]. apply (L_qb _ C x); cbn; [now right|exact Hb].
  - apply (L_uniq _ C).
  - apply (L_efresh _ C).
  - apply (L_einj _ C).
  - eapply subseq_trans; [apply subseq_tl|apply (L_fifo _ C)].
Qed.

Lemma with_tok_id s : with_tok s (borrowers s) (queue s) (evset s) (resv s) = s.
Proof. destruct s; reflexivity. Qed.

Lemma notify_core s : Core s -> Core (notify_next s).
Proof.
  intros C. unfold notify_next. destruct (queue s) as [|[b e] r] eqn:Eq; [exact C|].
  destruct (free (borrowers s) (total s)); [|exact C].
  apply grant_core. rewrite <- Eq, with_tok_id. exact C.
Qed.

Lemma notify_nofree_gen s :
  (forall b, In b (keys (queue s)) -> ~ In b (borrowers s)) -> NoFreeK 1 s -> NoFreeK 0 (notify_next s).
Proof.
  intros Hqb N. unfold notify_next. destruct (queue s) as [|[b e] r] eqn:Eq.
  - intros H. rewrite Eq in H. now contradiction H.
  - assert (Hnb : ~ In b (borrowers s)) by (apply (Hqb b); cbn; now left).
    destruct (free (borrowers s) (total s)) eqn:Ef.
    + intros _. cbn. rewrite (set_add_new _ _ Hnb). cbn.
      assert (Hq : queue s <> []) by (rewrite Eq; discriminate). specialize (N Hq).
      destruct (total s) as [m|]; [lia|exact N].
    + intros _. apply free_false in Ef. destruct Ef as (m & -> & Hm). lia.
Qed.

Lemma notify_nofree s : Core s -> NoFreeK 1 s -> NoFreeK 0 (notify_next s).
Proof. intros C. apply notify_nofree_gen. apply (L_qb _ C). Qed.

(* ---------- nobody is inside an acquire for a borrower that neither holds a token nor queues ---------- *)
Lemma not_inprog s b : Core s -> ~ In b (borrowers s) -> ~ In b (keys (queue s)) -> forall x, ~ inprog s x b.
Proof.
  intros C Hb Hk x [H|(e & H)].
  - apply Hb. apply (L_split _ C). right. apply (L_resv _ C). exists x. now left.
  - destruct (evset s e) eqn:Ee.
    + apply Hb. apply (L_split _ C). right. apply (L_resv _ C). exists x. right. eauto.
    + apply Hk. apply (in_keys b e). apply (L_q _ C). split; eauto.
Qed.

(* ---------- acquire ---------- *)
Lemma enqueue_core s t b tn :
  Core s -> phase_of s t = Idle -> ~ In b (borrowers s) -> ~ In b (keys (queue s)) ->
  Core (mk (total s) (borrowers s) (queue s ++ [(b, nev s)]) (upd (evset s) (nev s) false) (S (nev s))
           (upd (phase_of s) t (Waiting b (nev s))) (upd (fcanc s) t false) (mustc s)
           (held s) (resv s) (arrivals s ++ [(b, nev s)]) tn).
Proof.
  intros C Hp Hb Hk. pose proof (not_inprog s b C Hb Hk) as Hno.
  set (e0 := nev s).
  assert (Hold : forall x, x <> t -> upd (phase_of s) t (Waiting b e0) x = phase_of s x)
    by (intros; now apply upd_other).
  assert (Hev : forall x y e, phase_of s x = Waiting y e -> upd (evset s) e0 false e = evset s e).
  { intros x y e H. apply upd_other. pose proof (L_efresh _ C x y e H). unfold e0. lia. }
  constructor; cbn.
  - apply (L_bnd _ C).
  - apply (L_split _ C).
  - apply (L_hnd _ C).
  - apply (L_rnd _ C).
  - apply (L_disj _ C).
  - intros x. rewrite (L_resv _ C x). unfold resv_phase; cbn. split.
    + intros (t' & H). assert (t' <> t) by (intros ->; destruct H as [H|(e & H & _)]; congruence).
      exists t'. rewrite Hold by assumption. destruct H as [H|(e & H1 & H2)]; [now left|].
      right. exists e. split; [exact H1|]. now rewrite (Hev _ _ _ H1).
    + intros (t' & H). destruct (Nat.eq_dec t' t) as [->|Hne].
      * rewrite upd_same in H. destruct H as [H|(e & H1 & H2)]; [discriminate|].
        injection H1 as _ <-. rewrite upd_same in H2. discriminate.
      * rewrite Hold in H by assumption. exists t'. destruct H as [H|(e & H1 & H2)]; [now left|].
        right. exists e. split; [exact H1|]. now rewrite (Hev _ _ _ H1) in H2.
  - intros x e. split.
    + intros H. apply in_app_or in H. destruct H as [H|[H|[]]].
      * apply (L_q _ C) in H. destruct H as ((t' & Ht') & He).
        assert (t' <> t) by (intros ->; congruence).
        split; [exists t'; now rewrite Hold|]. now rewrite (Hev _ _ _ Ht').
      * injection H as <- <-. split; [exists t; apply upd_same|apply upd_same].
    + intros ((t' & Ht') & He). apply in_or_app. destruct (Nat.eq_dec t' t) as [->|Hne].
      * rewrite upd_same in Ht'. injection Ht' as <- <-. right. now left.
      * rewrite Hold in Ht' by assumption. left. rewrite (Hev _ _ _ Ht') in He.
        apply (L_q _ C). split; eauto.
  - unfold keys. rewrite map_app. cbn. apply NoDup_app_tail1; [apply (L_qnd _ C)|exact Hk].
  - intros x H. unfold keys in H. rewrite map_app in H. apply in_app_or in H.
    destruct H as [H|[<-|[]]]; [now apply (L_qb _ C)|exact Hb].
  - assert (Hin : forall x y, inprog (mk (total s) (borrowers s) (queue s ++ [(b, e0)]) (upd (evset s) e0 false)
                   (S e0) (upd (phase_of s) t (Waiting b e0)) (upd (fcanc s) t false) (mustc s)
                   (held s) (resv s) (arrivals s ++ [(b, e0)]) tn) x y -> x <> t -> inprog s x y).
    { unfold inprog; cbn. intros x y H Hne. now rewrite Hold in H by assumption. }
    intros t1 t2 y H1 H2.
    destruct (Nat.eq_dec t1 t) as [->|Hne1]; destruct (Nat.eq_dec t2 t) as [->|Hne2]; auto.
    + exfalso. assert (y = b).
      { destruct H1 as [H1|(e & H1)]; cbn in H1; rewrite upd_same in H1; congruence. }
      subst. eapply Hno. apply (Hin t2); eauto.
    + exfalso. assert (y = b).
      { destruct H2 as [H2|(e & H2)]; cbn in H2; rewrite upd_same in H2; congruence. }
      subst. eapply Hno. apply (Hin t1); eauto.
    + eapply (L_uniq _ C); eauto.
  - intros x y e H. destruct (Nat.eq_dec x t) as [->|Hne].
    + rewrite upd_same in H. injection H as _ <-. unfold e0. lia.
    + rewrite Hold in H by assumption. pose proof (L_efresh _ C x y e H). lia.
  - intros t1 t2 b1 b2 e H1 H2.
    destruct (Nat.eq_dec t1 t) as [->|Hne1]; destruct (Nat.eq_dec t2 t) as [->|Hne2]; auto.
    + rewrite upd_same in H1. injection H1 as _ <-. rewrite Hold in H2 by assumption.
      pose proof (L_efresh _ C _ _ _ H2). unfold e0 in *. lia.
    + rewrite upd_same in H2. injection H2 as _ <-. rewrite Hold in H1 by assumption.
      pose proof (L_efresh _ C _ _ _ H1). unfold e0 in *. lia.
    + rewrite Hold in H1, H2 by assumption. eapply (L_einj _ C); eauto.
  - apply subseq_app_tail, (L_fifo _ C).
Qed.

Lemma fast_core s t b :
  Core s -> phase_of s t = Idle -> ~ In b (borrowers s) -> ~ In b (keys (queue s)) ->
  Core (mk (total s) (b :: borrowers s) (queue s) (evset s) (nev s)
           (upd (phase_of s) t (FastYield b)) (fcanc s) (mustc s)
           (held s) (b :: resv s) (arrivals s) (tainted s)).
Proof.
  intros C Hp Hb Hk. pose proof (not_inprog s b C Hb Hk) as Hno.
  assert (Hold : forall x, x <> t -> upd (phase_of s) t (FastYield b) x = phase_of s x)
    by (intros; now apply upd_other).
  assert (Hnh : ~ In b (held s)) by (intros H; apply Hb; apply (L_split _ C); now left).
  assert (Hnr : ~ In b (resv s)) by (intros H; apply Hb; apply (L_split _ C); now right).
  constructor; cbn.
  - constructor; [exact Hb|apply (L_bnd _ C)].
  - intros x. pose proof (L_split _ C x). split.
    + intros [<-|Hx]; [right; now left|]. tauto.
    + intros [Hx|[<-|Hx]]; [right; tauto|now left|right; tauto].
  - apply (L_hnd _ C).
  - constructor; [exact Hnr|apply (L_rnd _ C)].
  - intros x Hx [<-|Hr]; [contradiction|]. now apply (L_disj _ C x).
  - intros x. unfold resv_phase; cbn. split.
    + intros [<-|Hx].
      * exists t. left. apply upd_same.
      * apply (L_resv _ C) in Hx. destruct Hx as (t' & H).
        assert (t' <> t) by (intros ->; destruct H as [H|(e & H & _)]; congruence).
        exists t'. now rewrite Hold.
    + intros (t' & H). destruct (Nat.eq_dec t' t) as [->|Hne].
      * rewrite upd_same in H. destruct H as [H|(e & H & _)]; [left; congruence|discriminate].
      * rewrite Hold in H by assumption. right. apply (L_resv _ C). eauto.
  - intros x e. rewrite (L_q _ C x e). split.
    + intros ((t' & Ht') & He). split; [|exact He]. exists t'.
      rewrite Hold; [exact Ht'|]. intros ->. congruence.
    + intros ((t' & Ht') & He). split; [|exact He]. destruct (Nat.eq_dec t' t) as [->|Hne].
      * rewrite upd_same in Ht'. discriminate.
      * rewrite Hold in Ht' by assumption. eauto.
  - apply (L_qnd _ C).
  - intros x Hx [<-|H]; [contradiction|]. now apply (L_qb _ C x).
  - assert (Hin : forall x y, inprog (mk (total s) (b :: borrowers s) (queue s) (evset s) (nev s)
           (upd (phase_of s) t (FastYield b)) (fcanc s) (mustc s)
           (held s) (b :: resv s) (arrivals s) (tainted s)) x y -> x <> t -> inprog s x y).
    { unfold inprog; cbn. intros x y H Hne. now rewrite Hold in H by assumption. }
    intros t1 t2 y H1 H2.
    destruct (Nat.eq_dec t1 t) as [->|Hne1]; destruct (Nat.eq_dec t2 t) as [->|Hne2]; auto.
    + exfalso. assert (y = b).
      { destruct H1 as [H1|(e & H1)]; cbn in H1; rewrite upd_same in H1; congruence. }
      subst. eapply Hno. apply (Hin t2); eauto.
    + exfalso. assert (y = b).
      { destruct H2 as [H2|(e & H2)]; cbn in H2; rewrite upd_same in H2; congruence. }
      subst. eapply Hno. apply (Hin t1); eauto.
    + eapply (L_uniq _ C); eauto.
  - intros x y e H. destruct (Nat.eq_dec x t) as [->|Hne]; [rewrite upd_same in H; discriminate|].
    rewrite Hold in H by assumption. apply (L_efresh _ C x y e H).
  - intros t1 t2 b1 b2 e H1 H2.
    destruct (Nat.eq_dec t1 t) as [->|Hne1]; [rewrite upd_same in H1; discriminate|].
    destruct (Nat.eq_dec t2 t) as [->|Hne2]; [rewrite upd_same in H2; discriminate|].
    rewrite Hold in H1, H2 by assumption. eapply (L_einj _ C); eauto.
  - apply (L_fifo _ C).
Qed.

Lemma nowait_core s b :
  Core s -> ~ In b (borrowers s) -> ~ In b (keys (queue s)) ->
  Core (mk (total s) (b :: borrowers s) (queue s) (evset s) (nev s) (phase_of s) (fcanc s) (mustc s)
           (b :: held s) (resv s) (arrivals s) (tainted s)).
Proof.
  intros C Hb Hk.
  assert (Hnh : ~ In b (held s)) by (intros H; apply Hb; apply (L_split _ C); now left).
  assert (Hnr : ~ In b (resv s)) by (intros H; apply Hb; apply (L_split _ C); now right).
  constructor; cbn.
  - constructor; [exact Hb|apply (L_bnd _ C)].
  - intros x. pose proof (L_split _ C x). split.
    + intros [<-|Hx]; [left; now left|tauto].
    + intros [[<-|Hx]|Hx]; [now left|right; tauto|right; tauto].
  - constructor; [exact Hnh|apply (L_hnd _ C)].
  - apply (L_rnd _ C).
  - intros x [<-|Hx]; [exact Hnr|now apply (L_disj _ C x)].
  - apply (L_resv _ C).
  - apply (L_q _ C).
  - apply (L_qnd _ C).
  - intros x Hx [<-|H]; [contradiction|]. now apply (L_qb _ C x).
  - apply (L_uniq _ C).
  - apply (L_efresh _ C).
  - apply (L_einj _ C).
  - apply (L_fifo _ C).
Qed.

(* ---------- release by a holder (ghost first, then _notify_next_waiter) ---------- *)
Lemma relon_core s b tn :
  Core s -> In b (held s) ->
  Core (mk (total s) (remove_one b (borrowers s)) (queue s) (evset s) (nev s) (phase_of s) (fcanc s) (mustc s)
           (remove_one b (held s)) (resv s) (arrivals s) tn).
Proof.
  intros C Hh. pose proof (L_disj _ C b Hh) as Hnr.
  constructor; cbn.
  - apply nodup_remove_one, (L_bnd _ C).
  - intros x. rewrite (in_remove_one b x _ (L_bnd _ C)), (in_remove_one b x _ (L_hnd _ C)).
    pose proof (L_split _ C x). split; [|intros [H1|H1]; [tauto|]].
    + intros [H1 H2]. tauto.
    + split; [tauto|]. intros ->. contradiction.
  - apply nodup_remove_one, (L_hnd _ C).
  - apply (L_rnd _ C).
  - intros x Hx. apply in_remove_one_incl in Hx. now apply (L_disj _ C x).
  - apply (L_resv _ C).
  - apply (L_q _ C).
  - apply (L_qnd _ C).
  - intros x Hx H. apply in_remove_one_incl in H. now apply (L_qb _ C x).
  - apply (L_uniq _ C).
  - apply (L_efresh _ C).
  - apply (L_einj _ C).
  - apply (L_fifo _ C).
Qed.

(* ---------- a task that owns a reserved token leaves its call ---------- *)
Lemma resv_phase_fun s t b b' : resv_phase s t b -> inprog s t b' -> b' = b.
Proof.
  intros [H|(e & H & _)] [H'|(e' & H')]; congruence.
Qed.

Lemma resv_inprog s t b : resv_phase s t b -> inprog s t b.
Proof. intros [H|(e & H & _)]; [now left|right; eauto]. Qed.

Lemma leave_resv_core s t b bs' h' fc mc tn :
  Core s -> resv_phase s t b -> NoDup bs' -> NoDup h' ->
  (forall x, In x bs' <-> In x h' \/ In x (remove_one b (resv s))) ->
  (forall x, In x h' -> ~ In x (remove_one b (resv s))) ->
  (forall x, In x (keys (queue s)) -> ~ In x bs') ->
  Core (mk (total s) bs' (queue s) (evset s) (nev s) (upd (phase_of s) t Idle) fc mc
           h' (remove_one b (resv s)) (arrivals s) tn).
Proof.
  intros C Hr Hbn Hhn Hsp Hdj Hqb.
  assert (Hold : forall x, x <> t -> upd (phase_of s) t Idle x = phase_of s x)
    by (intros; now apply upd_other).
  constructor; cbn.
  - exact Hbn.
  - exact Hsp.
  - exact Hhn.
  - apply nodup_remove_one, (L_rnd _ C).
  - exact Hdj.
  - intros x. rewrite (in_remove_one b x _ (L_rnd _ C)). unfold resv_phase; cbn. split.
    + intros [Hx Hne]. apply (L_resv _ C) in Hx. destruct Hx as (t' & H).
      assert (t' <> t).
      { intros ->. apply Hne. eapply resv_phase_fun; [exact Hr|now apply resv_inprog]. }
      exists t'. now rewrite Hold.
    + intros (t' & H). destruct (Nat.eq_dec t' t) as [->|Hne].
      * rewrite upd_same in H. destruct H as [H|(e & H & _)]; discriminate.
      * rewrite Hold in H by assumption. split; [apply (L_resv _ C); eauto|].
        intros ->. apply Hne. eapply (L_uniq _ C); apply resv_inprog; eauto.
  - intros x e. rewrite (L_q _ C x e). split.
    + intros ((t' & Ht') & He). split; [|exact He]. exists t'. rewrite Hold; [exact Ht'|].
      intros ->. destruct Hr as [Hr|(e' & Hr1 & Hr2)]; [congruence|].
      assert (e' = e) by congruence. subst. congruence.
    + intros ((t' & Ht') & He). split; [|exact He]. destruct (Nat.eq_dec t' t) as [->|Hne].
      * rewrite upd_same in Ht'. discriminate.
      * rewrite Hold in Ht' by assumption. eauto.
  - apply (L_qnd _ C).
  - exact Hqb.
  - intros t1 t2 y H1 H2. unfold inprog in H1, H2; cbn in H1, H2.
    destruct (Nat.eq_dec t1 t) as [->|Hne1];
      [rewrite upd_same in H1; destruct H1 as [H1|(e & H1)]; discriminate|].
    destruct (Nat.eq_dec t2 t) as [->|Hne2];
      [rewrite upd_same in H2; destruct H2 as [H2|(e & H2)]; discriminate|].
    rewrite Hold in H1, H2 by assumption. eapply (L_uniq _ C); eauto.
  - intros x y e H. destruct (Nat.eq_dec x t) as [->|Hne]; [rewrite upd_same in H; discriminate|].
    rewrite Hold in H by assumption. apply (L_efresh _ C x y e H).
  - intros t1 t2 b1 b2 e H1 H2.
    destruct (Nat.eq_dec t1 t) as [->|Hne1]; [rewrite upd_same in H1; discriminate|].
    destruct (Nat.eq_dec t2 t) as [->|Hne2]; [rewrite upd_same in H2; discriminate|].
    rewrite Hold in H1, H2 by assumption. eapply (L_einj _ C); eauto.
  - apply (L_fifo _ C).
Qed.

Lemma resv_facts s t b : Core s -> resv_phase s t b ->
  In b (resv s) /\ In b (borrowers s) /\ ~ In b (held s) /\ ~ In b (keys (queue s)).
Proof.
  intros C Hr. assert (H1 : In b (resv s)) by (apply (L_resv _ C); eauto).
  assert (H2 : In b (borrowers s)) by (apply (L_split _ C); now right).
  refine (conj H1 (conj H2 (conj _ _))).
  - intros H. now apply (L_disj _ C b H).
  - intros H. now apply (L_qb _ C b H).
Qed.

(* acquire returns: the reserved token becomes a held one *)
Lemma return_core s t b fc mc tn :
  Core s -> resv_phase s t b ->
  Core (mk (total s) (borrowers s) (queue s) (evset s) (nev s) (upd (phase_of s) t Idle) fc mc
           (b :: held s) (remove_one b (resv s)) (arrivals s) tn).
Proof.
  intros C Hr. destruct (resv_facts s t b C Hr) as (H1 & H2 & H3 & H4).
  apply leave_resv_core; auto.
  - apply (L_bnd _ C).
  - constructor; [exact H3|apply (L_hnd _ C)].
  - intros x. rewrite (in_remove_one b x _ (L_rnd _ C)). pose proof (L_split _ C x). split.
    + intros Hx. destruct (Nat.eq_dec x b) as [->|Hne]; [left; now left|]. cbn. tauto.
    + intros [[<-|Hx]|[Hx _]]; tauto.
  - intros x [<-|Hx]; [apply remove_one_gone, (L_rnd _ C)|].
    intros H. apply in_remove_one_incl in H. now apply (L_disj _ C x).
  - apply (L_qb _ C).
Qed.

(* the cancelled owner of a reserved token gives it back *)
Lemma giveback_core s t b fc mc tn :
  Core s -> resv_phase s t b ->
  Core (mk (total s) (remove_one b (borrowers s)) (queue s) (evset s) (nev s) (upd (phase_of s) t Idle) fc mc
           (held s) (remove_one b (resv s)) (arrivals s) tn).
Proof.
  intros C Hr. destruct (resv_facts s t b C Hr) as (H1 & H2 & H3 & H4).
  apply leave_resv_core; auto.
  - apply nodup_remove_one, (L_bnd _ C).
  - apply (L_hnd _ C).
  - intros x. rewrite (in_remove_one b x _ (L_rnd _ C)), (in_remove_one b x _ (L_bnd _ C)).
    pose proof (L_split _ C x). split.
    + intros [Hx Hne]. tauto.
    + intros [Hx|[Hx Hne]]; [|tauto]. split; [tauto|]. intros ->. contradiction.
  - intros x Hx H. apply in_remove_one_incl in H. now apply (L_disj _ C x).
  - intros x Hx H. apply in_remove_one_incl in H. now apply (L_qb _ C x).
Qed.

(* a waiter whose wait was cancelled before a token was granted leaves the queue *)
Lemma dequeue_core s t b e fc mc tn :
  Core s -> phase_of s t = Waiting b e -> evset s e = false ->
  Core (mk (total s) (borrowers s) (queue_pop (queue s) b) (evset s) (nev s) (upd (phase_of s) t Idle) fc mc
           (held s) (resv s) (arrivals s) tn).
Proof.
  intros C Hp He.
  assert (Hold : forall x, x <> t -> upd (phase_of s) t Idle x = phase_of s x)
    by (intros; now apply upd_other).
  assert (Hnr : forall x, ~ resv_phase s t x).
  { intros x [H|(e' & H1 & H2)]; [congruence|]. assert (e' = e) by congruence. subst. congruence. }
  constructor; cbn.
  - apply (L_bnd _ C).
  - apply (L_split _ C).
  - apply (L_hnd _ C).
  - apply (L_rnd _ C).
  - apply (L_disj _ C).
  - intros x. rewrite (L_resv _ C x). unfold resv_phase; cbn. split.
    + intros (t' & H). assert (t' <> t) by (intros ->; now apply (Hnr x)).
      exists t'. now rewrite Hold.
    + intros (t' & H). destruct (Nat.eq_dec t' t) as [->|Hne].
      * rewrite upd_same in H. destruct H as [H|(e' & H & _)]; discriminate.
      * rewrite Hold in H by assumption. eauto.
  - intros x e'. split.
    + intros H. assert (H' : In (x, e') (queue s)) by (eapply subseq_in; [apply queue_pop_subseq|exact H]).
      apply (L_q _ C) in H'. destruct H' as ((t' & Ht') & He'). split; [|exact He'].
      exists t'. rewrite Hold; [exact Ht'|]. intros ->.
      assert (x = b) by congruence. subst.
      apply (queue_pop_gone (queue s) b (L_qnd _ C)). eapply in_keys; eauto.
    + intros ((t' & Ht') & He'). destruct (Nat.eq_dec t' t) as [->|Hne].
      * rewrite upd_same in Ht'. discriminate.
      * rewrite Hold in Ht' by assumption. apply in_queue_pop_other.
        -- apply (L_q _ C). split; eauto.
        -- intros ->. apply Hne. eapply (L_uniq _ C); right; eauto.
  - eapply subseq_nodup; [apply subseq_map, queue_pop_subseq|apply (L_qnd _ C)].
  - intros x Hx. apply (L_qb _ C). unfold keys in *.
    eapply subseq_in; [apply subseq_map, queue_pop_subseq|exact Hx].
  - intros t1 t2 y H1 H2. unfold inprog in H1, H2; cbn in H1, H2.
    destruct (Nat.eq_dec t1 t) as [->|Hne1];
      [rewrite upd_same in H1; destruct H1 as [H1|(e' & H1)]; discriminate|].
    destruct (Nat.eq_dec t2 t) as [->|Hne2];
      [rewrite upd_same in H2; destruct H2 as [H2|(e' & H2)]; discriminate|].
    rewrite Hold in H1, H2 by assumption. eapply (L_uniq _ C); eauto.
  - intros x y e' H. destruct (Nat.eq_dec x t) as [->|Hne]; [rewrite upd_same in H; discriminate|].
    rewrite Hold in H by assumption. apply (L_efresh _ C x y e' H).
  - intros t1 t2 b1 b2 e' H1 H2.
    destruct (Nat.eq_dec t1 t) as [->|Hne1]; [rewrite upd_same in H1; discriminate|].
    destruct (Nat.eq_dec t2 t) as [->|Hne2]; [rewrite upd_same in H2; discriminate|].
    rewrite Hold in H1, H2 by assumption. eapply (L_einj _ C); eauto.
  - eapply subseq_trans; [apply queue_pop_subseq|apply (L_fifo _ C)].
Qed.

(* ---------- the total_tokens setter ---------- *)
Lemma wake_free_inv s0 v q : forall bs ev rv,
  Core (with_tok s0 bs q ev rv) ->
  match wake_free v q bs ev rv with
  | (q', bs', ev', rv') => Core (with_tok s0 bs' q' ev' rv') /\ (q' <> [] -> free bs' v = false)
  end.
Proof.
  induction q as [|[b e] r IH]; intros bs ev rv C; cbn [wake_free].
  - split; [exact C|]. intros H. now contradiction H.
  - destruct (free bs v) eqn:Ef.
    + apply IH. now apply grant_core.
    + split; [exact C|]. intros _. exact Ef.
Qed.

Definition set_tot (s : st) (v : option nat) : st :=
  mk v (borrowers s) (queue s) (evset s) (nev s) (phase_of s) (fcanc s) (mustc s)
     (held s) (resv s) (arrivals s) (tainted s).

Lemma set_total_inv0 s v : Core s -> Inv0 (set_total s v).
Proof.
  intros C. unfold set_total.
  pose proof (wake_free_inv (set_tot s v) v (queue s) (borrowers s) (evset s) (resv s)) as H.
  destruct (wake_free v (queue s) (borrowers s) (evset s) (resv s)) as [[[q' bs'] ev'] rv'].
  destruct H as [H1 H2]; [unfold set_tot, with_tok; cbn; now apply core_irrel|].
  constructor; [exact H1|].
  intros Hq. cbn in Hq. specialize (H2 Hq). cbn. apply free_false in H2. destruct H2 as (m & -> & Hm). lia.
Qed.

(* ---------- state equalities used to reorder ghost updates before _notify_next_waiter ---------- *)
Lemma notify_tainted s : tainted (notify_next s) = tainted s.
Proof. unfold notify_next. destruct (queue s) as [|[b e] r]; [reflexivity|]. destruct (free _ _); reflexivity. Qed.

Lemma give_back_tainted s b : tainted (give_back s b) = tainted s.
Proof. unfold give_back. now rewrite notify_tainted. Qed.

Lemma relon_eq s b :
  let s1 := give_back s b in
  mk (total s1) (borrowers s1) (queue s1) (evset s1) (nev s1) (phase_of s1) (fcanc s1) (mustc s1)
     (remove_one b (held s1)) (resv s1) (arrivals s1) (tainted s1 || mem b (resv s)) =
  notify_next (mk (total s) (remove_one b (borrowers s)) (queue s) (evset s) (nev s) (phase_of s) (fcanc s)
                  (mustc s) (remove_one b (held s)) (resv s) (arrivals s) (tainted s || mem b (resv s))).
Proof.
  destruct s as [tot bs q ev ne ph fc mc h rv ar tn]. unfold give_back, notify_next; cbn.
  destruct q as [|[b' e'] r]; [reflexivity|]. destruct (free (remove_one b bs) tot); reflexivity.
Qed.

Lemma taint_notify s c : taint (notify_next s) c = notify_next (taint s c).
Proof.
  destruct s as [tot bs q ev ne ph fc mc h rv ar tn]. unfold notify_next, taint; cbn.
  destruct q as [|[b' e'] r]; [reflexivity|]. destruct (free bs tot); reflexivity.
Qed.

Lemma nofree_after_remove s b bs' q' ph fc mc h rv tn :
  NoFreeK 0 s -> In b (borrowers s) -> bs' = remove_one b (borrowers s) -> (q' <> [] -> queue s <> []) ->
  NoFreeK 1 (mk (total s) bs' q' (evset s) (nev s) ph fc mc h rv (arrivals s) tn).
Proof.
  intros N Hb -> Hq Hq'. cbn in *. specialize (N (Hq Hq')).
  pose proof (remove_one_length b (borrowers s) Hb). unfold bid in *. destruct (total s); [lia|exact N].
Qed.

(* ---------- one step ---------- *)
Ltac lprj := unfold taint, with_tok, leave, add_held, set_queue, set_mustc;
             cbn [total borrowers queue evset nev phase_of fcanc mustc held resv arrivals tainted].
Lemma orb_false_l2 a b : a || b = false -> a = false /\ b = false.
Proof. destruct a, b; cbn; intros; split; congruence. Qed.

Lemma step_inv s o : Inv s -> Inv (fst (step s o)).
Proof.
  unfold Inv. intros I. destruct o as [t b|t b|t b|t|t|t v|t k]; unfold step; cbn [step_gen].
  - (* AcqOn *)
    destruct (is_idle (phase_of s t)) eqn:Ei; cbn [negb fst]; [|exact I]. apply is_idle_true in Ei.
    destruct (mem b (borrowers s)) eqn:Eb; cbn [fst]; [exact I|]. apply mem_false in Eb.
    destruct (busy s) eqn:Ebusy.
    + unfold enq_head. destruct (mem b (keys (queue s))) eqn:Hk; cbn [fst]; [exact I|].
      apply mem_false in Hk. unfold enqueue. cbn [tainted]. intros Ht.
      destruct (I Ht) as [C N]. rewrite (queue_set_fresh _ _ _ Hk). constructor.
      * now apply enqueue_core.
      * intros _. cbn. unfold busy in Ebusy. apply orb_prop in Ebusy. destruct Ebusy as [Hq|Hf].
        -- apply N. intros E. rewrite E in Hq. discriminate.
        -- apply negb_true_iff in Hf. apply free_false in Hf. destruct Hf as (m & -> & Hm). lia.
    + cbn [fst tainted]. intros Ht.
      destruct (I Ht) as [C N]. unfold busy in Ebusy. apply orb_false_l2 in Ebusy. destruct Ebusy as [Hq Hf].
      apply negb_false_iff, is_nil_true in Hq. constructor.
      * apply fast_core; auto. rewrite Hq. intros [].
      * intros H. cbn in H. contradiction.
  - (* AcqOnNowait *)
    destruct (is_idle (phase_of s t)) eqn:Ei; cbn [negb fst]; [|exact I].
    destruct (mem b (borrowers s)) eqn:Eb; cbn [fst]; [exact I|]. apply mem_false in Eb.
    destruct (busy s) eqn:Ebusy; cbn [fst tainted]; [exact I|]. intros Ht.
    destruct (I Ht) as [C N]. unfold busy in Ebusy. apply orb_false_l2 in Ebusy. destruct Ebusy as [Hq Hf].
    apply negb_false_iff, is_nil_true in Hq. constructor.
    + apply nowait_core; auto. rewrite Hq. intros [].
    + intros H. cbn in H. contradiction.
  - (* RelOn *)
    destruct (is_idle (phase_of s t)) eqn:Ei; cbn [negb fst]; [|exact I].
    destruct (mem b (borrowers s)) eqn:Eb; cbn [negb fst]; [|exact I]. apply mem_In in Eb.
    rewrite relon_eq. rewrite notify_tainted. cbn [tainted]. intros Ht.
    apply orb_false_l2 in Ht. destruct Ht as [Ht Hr]. apply mem_false in Hr.
    destruct (I Ht) as [C N].
    assert (Hh : In b (held s)) by (apply (L_split _ C) in Eb; tauto).
    constructor.
    + apply notify_core. now apply relon_core.
    + apply notify_nofree; [now apply relon_core|].
      eapply nofree_after_remove; eauto.
  - (* Resume *)
    destruct (phase_of s t) as [|b|b e] eqn:Ep; [exact I| |].
    + (* from the shielded yield *)
      assert (Hr : resv_phase s t b) by (left; exact Ep).
      destruct (mustc s t).
      * unfold fy_cancel. cbn [leave borrowers].
        destruct (mem b (borrowers s)) eqn:Em; cbn [fst].
        -- rewrite give_back_tainted. cbn [tainted leave]. intros Ht.
           destruct (I Ht) as [C N]. destruct (resv_facts s t b C Hr) as (_ & Hb & _ & _).
           unfold give_back. constructor.
           ++ apply notify_core. lprj. now apply giveback_core.
           ++ apply notify_nofree; [lprj; now apply giveback_core|].
              lprj. eapply nofree_after_remove; eauto.
        -- cbn [tainted leave]. intros Ht. exfalso.
           destruct (I Ht) as [C N]. destruct (resv_facts s t b C Hr) as (_ & Hb & _ & _).
           apply mem_false in Em. contradiction.
      * cbn [fst add_held leave tainted]. intros Ht. destruct (I Ht) as [C N]. constructor.
        -- lprj. now apply return_core.
        -- exact N.
    + (* a waiter *)
      destruct (negb (evset s e) && negb (fcanc s t)) eqn:Erun; cbn [fst]; [exact I|].
      destruct (fcanc s t || mustc s t) eqn:Eexc.
      * destruct (evset s e) eqn:Ee; cbn [fst].
        -- rewrite give_back_tainted. cbn [tainted set_queue leave]. intros Ht. destruct (I Ht) as [C N].
           assert (Hr : resv_phase s t b) by (right; eauto).
           destruct (resv_facts s t b C Hr) as (_ & Hb & _ & Hk).
           unfold give_back. lprj. rewrite (queue_pop_absent _ _ Hk). constructor.
           ++ apply notify_core. now apply giveback_core.
           ++ apply notify_nofree; [now apply giveback_core|].
              eapply nofree_after_remove; eauto.
        -- cbn [tainted set_queue leave]. intros Ht. destruct (I Ht) as [C N]. constructor.
           ++ lprj. now apply (dequeue_core s t b e).
           ++ intros Hq. cbn in *. apply N. intros E. rewrite E in Hq. now contradiction Hq.
      * cbn [fst add_held leave tainted]. intros Ht. destruct (I Ht) as [C N].
        apply orb_false_l2 in Eexc. destruct Eexc as [Efc _]. rewrite Efc in Erun.
        destruct (evset s e) eqn:Ee; [|discriminate].
        assert (Hr : resv_phase s t b) by (right; eauto).
        constructor.
        -- lprj. now apply return_core.
        -- exact N.
  - (* Cancel *)
    destruct (phase_of s t) as [|b|b e] eqn:Ep; [exact I| |].
    + cbn [fst set_mustc tainted]. intros Ht. destruct (I Ht) as [C N]. constructor; [now apply core_irrel|exact N].
    + destruct (negb (evset s e) && negb (fcanc s t)); cbn [fst set_mustc tainted]; intros Ht;
        destruct (I Ht) as [C N]; (constructor; [now apply core_irrel|exact N]).
  - (* SetTotal *)
    destruct (is_idle (phase_of s t)); cbn [negb fst]; [|exact I].
    intros Ht. apply set_total_inv0. apply I.
    unfold set_total in Ht. destruct (wake_free _ _ _ _ _) as [[[q' bs'] ev'] rv']. exact Ht.
  - (* SetTotalBad *)
    destruct (is_idle (phase_of s t)); cbn [negb fst]; [|exact I].
    destruct k as [|[|[|k]]]; exact I.
Qed.

Theorem reachable_inv v ops : Inv (final step (init v) ops).
Proof. apply final_inv; [apply step_inv|apply inv_init]. Qed.

(* =====================================================================================================
   An invariant that holds in EVERY reachable state, also after the misuse O2 (no `tainted` hypothesis):
   borrowers duplicate-free, at most one wait-queue slot per borrower, queued borrowers hold no token,
   the queue is in arrival order, and no token is free while somebody queues.
   ===================================================================================================== *)
Record Ucore (s : st) : Prop := {
  U_bnd : NoDup (borrowers s);
  U_qnd : NoDup (keys (queue s));
  U_qb : forall b, In b (keys (queue s)) -> ~ In b (borrowers s);
  U_fifo : subseq (queue s) (arrivals s)
}.

Record Uinv (s : st) : Prop := {
  U_core : Ucore s;
  U_nofree : NoFreeK 0 s
}.

Lemma uinv_init v : Uinv (init v).
Proof.
  constructor; [constructor; cbn|].
  - constructor.
  - constructor.
  - intros b [].
  - apply ss_nil.
  - intros H. now contradiction H.
Qed.

Lemma ucore_irrel s tot ev ne ph fc mc h rv tn :
  Ucore s -> Ucore (mk tot (borrowers s) (queue s) ev ne ph fc mc h rv (arrivals s) tn).
Proof. intros C. destruct C. constructor; cbn; assumption. Qed.

Lemma grant_ucore s bs b e r ev rv :
  Ucore (with_tok s bs ((b, e) :: r) ev rv) ->
  Ucore (with_tok s (set_add b bs) r (upd ev e true) (b :: rv)).
Proof.
  intros C.
  assert (Hnb : ~ In b bs) by (apply (U_qb _ C b); cbn; now left).
  rewrite (set_add_new b bs Hnb).
  pose proof (U_qnd _ C) as Hqn. cbn in Hqn. inversion Hqn as [|y l Hy Hl]; subst.
  constructor; cbn.
  - constructor; [exact Hnb|apply (U_bnd _ C)].
  - exact Hl.
  - intros x Hx [<-|Hb]; [contradiction|]. apply (U_qb _ C x); cbn; [now right|exact Hb].
  - eapply subseq_trans; [apply subseq_tl|apply (U_fifo _ C)].
Qed.

Lemma notify_ucore s : Ucore s -> Ucore (notify_next s).
Proof.
  intros C. unfold notify_next. destruct (queue s) as [|[b e] r] eqn:Eq; [exact C|].
  destruct (free (borrowers s) (total s)); [|exact C].
  apply grant_ucore. rewrite <- Eq, with_tok_id. exact C.
Qed.

(* borrowers.remove / discard of b (present or not), then _notify_next_waiter *)
Lemma give_back_uinv s b : Uinv s -> Uinv (give_back s b).
Proof.
  intros [C N]. unfold give_back.
  set (s0 := with_tok s (remove_one b (borrowers s)) (queue s) (evset s) (resv s)).
  assert (C0 : Ucore s0).
  { constructor; cbn.
    - apply nodup_remove_one, (U_bnd _ C).
    - apply (U_qnd _ C).
    - intros x Hx H. apply in_remove_one_incl in H. now apply (U_qb _ C x).
    - apply (U_fifo _ C). }
  constructor; [now apply notify_ucore|].
  apply notify_nofree_gen; [apply (U_qb _ C0)|].
  intros Hq. unfold s0 in *. cbn [queue total borrowers with_tok] in *. specialize (N Hq).
  destruct (total s) as [m|]; [|exact N].
  destruct (in_dec Nat.eq_dec b (borrowers s)) as [Hin|Hnin].
  - pose proof (remove_one_length b (borrowers s) Hin) as Hl. unfold bid in *. rewrite <- Hl in N. lia.
  - rewrite (remove_one_notin b _ Hnin). lia.
Qed.

Lemma give_back_fields_p s b : total (give_back s b) = total s.
Proof.
  unfold give_back, notify_next; cbn. destruct (queue s) as [|[b' e'] r]; [reflexivity|].
  destruct (free _ _); reflexivity.
Qed.

Lemma uinv_irrel s ev ne ph fc mc h rv tn :
  Uinv s -> Uinv (mk (total s) (borrowers s) (queue s) ev ne ph fc mc h rv (arrivals s) tn).
Proof. intros [C N]. constructor; [now apply ucore_irrel|exact N]. Qed.

Lemma wake_free_uinv s0 v q : forall bs ev rv,
  Ucore (with_tok s0 bs q ev rv) ->
  match wake_free v q bs ev rv with
  | (q', bs', ev', rv') => Ucore (with_tok s0 bs' q' ev' rv') /\ (q' <> [] -> free bs' v = false)
  end.
Proof.
  induction q as [|[b e] r IH]; intros bs ev rv C; cbn [wake_free].
  - split; [exact C|]. intros H. now contradiction H.
  - destruct (free bs v) eqn:Ef.
    + apply IH. now apply grant_ucore.
    + split; [exact C|]. intros _. exact Ef.
Qed.

Lemma set_total_uinv s v : Ucore s -> Uinv (set_total s v).
Proof.
  intros C. unfold set_total.
  pose proof (wake_free_uinv (set_tot s v) v (queue s) (borrowers s) (evset s) (resv s)) as H.
  destruct (wake_free v (queue s) (borrowers s) (evset s) (resv s)) as [[[q' bs'] ev'] rv'].
  destruct H as [H1 H2]; [unfold set_tot, with_tok; cbn; now apply ucore_irrel|].
  constructor; [exact H1|].
  intros Hq. cbn in Hq. specialize (H2 Hq). cbn. apply free_false in H2. destruct H2 as (m & -> & Hm). lia.
Qed.

Lemma queue_pop_uinv s b ev ne ph fc mc h rv tn :
  Uinv s -> Uinv (mk (total s) (borrowers s) (queue_pop (queue s) b) ev ne ph fc mc h rv (arrivals s) tn).
Proof.
  intros [C N]. constructor; [constructor; cbn|].
  - apply (U_bnd _ C).
  - eapply subseq_nodup; [apply subseq_map, queue_pop_subseq|apply (U_qnd _ C)].
  - intros x Hx. apply (U_qb _ C). unfold keys in *.
    eapply subseq_in; [apply subseq_map, queue_pop_subseq|exact Hx].
  - eapply subseq_trans; [apply queue_pop_subseq|apply (U_fifo _ C)].
  - intros Hq. cbn in *. apply N. intros E. rewrite E in Hq. now contradiction Hq.
Qed.

Lemma step_uinv s o : Uinv s -> Uinv (fst (step s o)).
Proof.
  intros U. pose proof U as [C N].
  destruct o as [t b|t b|t b|t|t|t v|t k]; unfold step; cbn [step_gen].
  - (* AcqOn *)
    destruct (is_idle (phase_of s t)); cbn [negb fst]; [|exact U].
    destruct (mem b (borrowers s)) eqn:Eb; cbn [fst]; [exact U|]. apply mem_false in Eb.
    destruct (busy s) eqn:Ebusy.
    + unfold enq_head. destruct (mem b (keys (queue s))) eqn:Hk; cbn [fst]; [exact U|].
      apply mem_false in Hk. unfold enqueue. rewrite (queue_set_fresh _ _ _ Hk).
      constructor; [constructor; cbn|].
      * apply (U_bnd _ C).
      * unfold keys. rewrite map_app. cbn. apply NoDup_app_tail1; [apply (U_qnd _ C)|exact Hk].
      * intros x H. unfold keys in H. rewrite map_app in H. apply in_app_or in H.
        destruct H as [H|[<-|[]]]; [now apply (U_qb _ C)|exact Eb].
      * apply subseq_app_tail, (U_fifo _ C).
      * intros _. cbn. unfold busy in Ebusy. apply orb_prop in Ebusy. destruct Ebusy as [Hq|Hf].
        -- apply N. intros E. rewrite E in Hq. discriminate.
        -- apply negb_true_iff in Hf. apply free_false in Hf. destruct Hf as (m & -> & Hm). lia.
    + cbn [fst]. unfold busy in Ebusy. apply orb_false_l2 in Ebusy. destruct Ebusy as [Hq _].
      apply negb_false_iff, is_nil_true in Hq. constructor; [constructor; cbn|].
      * constructor; [exact Eb|apply (U_bnd _ C)].
      * apply (U_qnd _ C).
      * rewrite Hq. intros x [].
      * apply (U_fifo _ C).
      * intros H. cbn in H. contradiction.
  - (* AcqOnNowait *)
    destruct (is_idle (phase_of s t)); cbn [negb fst]; [|exact U].
    destruct (mem b (borrowers s)) eqn:Eb; cbn [fst]; [exact U|]. apply mem_false in Eb.
    destruct (busy s) eqn:Ebusy; cbn [fst]; [exact U|].
    unfold busy in Ebusy. apply orb_false_l2 in Ebusy. destruct Ebusy as [Hq _].
    apply negb_false_iff, is_nil_true in Hq. constructor; [constructor; cbn|].
    + constructor; [exact Eb|apply (U_bnd _ C)].
    + apply (U_qnd _ C).
    + rewrite Hq. intros x [].
    + apply (U_fifo _ C).
    + intros H. cbn in H. contradiction.
  - (* RelOn *)
    destruct (is_idle (phase_of s t)); cbn [negb fst]; [|exact U].
    destruct (mem b (borrowers s)); cbn [negb fst]; [|exact U].
    pose proof (give_back_uinv s b U) as U1. cbv zeta. now apply uinv_irrel.
  - (* Resume *)
    destruct (phase_of s t) as [|b|b e]; [exact U| |].
    + destruct (mustc s t).
      * unfold fy_cancel. cbn [leave borrowers]. destruct (mem b (borrowers s)); cbn [fst].
        -- apply give_back_uinv. unfold leave. now apply uinv_irrel.
        -- unfold leave. now apply uinv_irrel.
      * cbn [fst]. unfold add_held, leave. cbn. now apply uinv_irrel.
    + destruct (negb (evset s e) && negb (fcanc s t)); cbn [fst]; [exact U|].
      destruct (fcanc s t || mustc s t).
      * destruct (evset s e); cbn [fst].
        -- apply give_back_uinv. unfold set_queue, leave. cbn. now apply queue_pop_uinv.
        -- unfold set_queue, leave. cbn. now apply queue_pop_uinv.
      * cbn [fst]. unfold add_held, leave. cbn. now apply uinv_irrel.
  - (* Cancel *)
    destruct (phase_of s t) as [|b|b e]; [exact U| |].
    + cbn [fst]. unfold set_mustc. now apply uinv_irrel.
    + destruct (negb (evset s e) && negb (fcanc s t)); cbn [fst]; [|unfold set_mustc]; now apply uinv_irrel.
  - (* SetTotal *)
    destruct (is_idle (phase_of s t)); cbn [negb fst]; [|exact U]. now apply set_total_uinv.
  - (* SetTotalBad *)
    destruct (is_idle (phase_of s t)); cbn [negb fst]; [|exact U]. destruct k as [|[|[|k]]]; exact U.
Qed.

Theorem reachable_uinv v ops : Uinv (final step (init v) ops).
Proof. apply final_inv; [apply step_uinv|apply uinv_init]. Qed.
