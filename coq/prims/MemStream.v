(* P/MemStream: executable model of anyio.streams.memory (MemoryObjectSendStream / MemoryObjectReceiveStream
   sharing one _MemoryObjectStreamState), lines 55-326 of the pinned tree, together with the asyncio facts it
   relies on (Task.cancel / _must_cancel / _fut_waiter, asyncio.Event) and AsyncIOTaskInfo.has_pending_cancellation
   (_asyncio.py:2238-2253).

   Actions are the atomic segments of the API calls (everything between two real suspensions is one step):
     send(x)     = [checkpoint yield]  ->  [send_nowait; on WouldBlock enqueue (event,x) and wait]
                   ->  [resumption: return | exception: drop own entry | entry still there: drop, Broken]
     receive()   = [checkpoint yield]  ->  [receive_nowait; on WouldBlock enqueue receiver and wait]
                   ->  [resumption: always drop own entry; cancelled | item | EndOfStream]
   plus the environment actions Resume (the task's scheduled step / wake-up runs), Cancel (native
   Task.cancel() on a blocked task), ScopeCancel (cancel() of an AnyIO CancelScope entered around the blocked
   call: CancelScope._deliver_cancellation, _asyncio.py:581-629, which never cancels a task whose waiter is done)
   and Deliver (a re-scheduled _deliver_cancellation run).
   Definitions only: proofs live in MemStreamProofs.v / MemStreamThms.v. *)
From AV Require Import Base.

Inductive side := SSend | SRecv.
Inductive xnat := Fin (n : nat) | Inf.          (* max_buffer_size: an int or math.inf *)
Inductive fstate := FPending | FSet | FCancelled. (* the future inside asyncio.Event.wait() of a one-waiter Event *)

Definition item := nat.
Definition hid := nat.   (* stream handle (one MemoryObject{Send,Receive}Stream object) *)
Definition eid := nat.   (* Event object created by a blocked send()/receive() *)

Inductive phase :=
| Idle                            (* at a decision point of its program *)
| SendCk (h : hid) (x : item)     (* inside send(x) on h, suspended in the initial checkpoint() = sleep(0) *)
| SendWait (e : eid) (x : item)   (* inside send(x): enqueued (e,x) in waiting_senders, suspended on e.wait() *)
| RecvCk (h : hid)                (* inside receive() on h, suspended in the initial checkpoint() *)
| RecvWait (e : eid).             (* inside receive(): enqueued e -> receiver, suspended on e.wait() *)

Inductive op :=
| SendNowait (t : tid) (h : hid) (x : item)
| RecvNowait (t : tid) (h : hid)
| Send (t : tid) (h : hid) (x : item)   (* t calls `await h.send(x)` and runs up to the checkpoint yield *)
| Recv (t : tid) (h : hid)
| Clone (h : hid)
| Close (h : hid)
| Resume (t : tid)        (* the ready step / wake-up of blocked task t runs *)
| Cancel (t : tid)        (* native Task.cancel() on blocked task t *)
| ScopeCancel (t : tid)   (* cancel() of the CancelScope t entered around its current blocking call *)
| Deliver (t : tid).      (* a re-scheduled _deliver_cancellation of that scope runs *)

Inductive res :=
| RDone | RBlocked | RCancelled | RWouldBlock | RClosed | RBroken | REndOfStream
| RItem (x : item)        (* receive returned x *)
| RHandle (h : hid)       (* clone() returned the new handle *)
| RNone                   (* environment op: nothing to report *)
| RRejected.              (* op not possible in this state (harness must never produce it) *)

Record st := mk {
  maxb : xnat;
  buffer : list item;
  open_send : nat;
  open_recv : nat;
  receivers : list (eid * tid);
  senders : list (eid * item);
  slot : eid -> option item;
  fut : eid -> fstate;
  nev : eid;
  hside : hid -> side;
  hclosed : hid -> bool;
  nh : hid;
  phase_of : tid -> phase;
  mustc : tid -> bool;
  scopec : tid -> bool;
  nitem : item;
  entered : list item;
  handed : list item;
  returned : list item;
  inflight : list (eid * item);
  withdrawn : list item;
  lost : list item;
  acked : list item;
  senq : list eid;
  renq : list eid
}.

Definition set_buffer (s : st) (v : list item) : st :=
  mk (maxb s) v (open_send s) (open_recv s) (receivers s) (senders s) (slot s) (fut s) (nev s) (hside s) (hclosed s) (nh s) (phase_of s) (mustc s) (scopec s) (nitem s) (entered s) (handed s) (returned s) (inflight s) (withdrawn s) (lost s) (acked s) (senq s) (renq s).
Definition set_open_send (s : st) (v : nat) : st :=
  mk (maxb s) (buffer s) v (open_recv s) (receivers s) (senders s) (slot s) (fut s) (nev s) (hside s) (hclosed s) (nh s) (phase_of s) (mustc s) (scopec s) (nitem s) (entered s) (handed s) (returned s) (inflight s) (withdrawn s) (lost s) (acked s) (senq s) (renq s).
Definition set_open_recv (s : st) (v : nat) : st :=
  mk (maxb s) (buffer s) (open_send s) v (receivers s) (senders s) (slot s) (fut s) (nev s) (hside s) (hclosed s) (nh s) (phase_of s) (mustc s) (scopec s) (nitem s) (entered s) (handed s) (returned s) (inflight s) (withdrawn s) (lost s) (acked s) (senq s) (renq s).
Definition set_receivers (s : st) (v : list (eid * tid)) : st :=
  mk (maxb s) (buffer s) (open_send s) (open_recv s) v (senders s) (slot s) (fut s) (nev s) (hside s) (hclosed s) (nh s) (phase_of s) (mustc s) (scopec s) (nitem s) (entered s) (handed s) (returned s) (inflight s) (withdrawn s) (lost s) (acked s) (senq s) (renq s).
Definition set_senders (s : st) (v : list (eid * item)) : st :=
  mk (maxb s) (buffer s) (open_send s) (open_recv s) (receivers s) v (slot s) (fut s) (nev s) (hside s) (hclosed s) (nh s) (phase_of s) (mustc s) (scopec s) (nitem s) (entered s) (handed s) (returned s) (inflight s) (withdrawn s) (lost s) (acked s) (senq s) (renq s).
Definition set_slot (s : st) (v : eid -> option item) : st :=
  mk (maxb s) (buffer s) (open_send s) (open_recv s) (receivers s) (senders s) v (fut s) (nev s) (hside s) (hclosed s) (nh s) (phase_of s) (mustc s) (scopec s) (nitem s) (entered s) (handed s) (returned s) (inflight s) (withdrawn s) (lost s) (acked s) (senq s) (renq s).
Definition set_fut (s : st) (v : eid -> fstate) : st :=
  mk (maxb s) (buffer s) (open_send s) (open_recv s) (receivers s) (senders s) (slot s) v (nev s) (hside s) (hclosed s) (nh s) (phase_of s) (mustc s) (scopec s) (nitem s) (entered s) (handed s) (returned s) (inflight s) (withdrawn s) (lost s) (acked s) (senq s) (renq s).
Definition set_nev (s : st) (v : eid) : st :=
  mk (maxb s) (buffer s) (open_send s) (open_recv s) (receivers s) (senders s) (slot s) (fut s) v (hside s) (hclosed s) (nh s) (phase_of s) (mustc s) (scopec s) (nitem s) (entered s) (handed s) (returned s) (inflight s) (withdrawn s) (lost s) (acked s) (senq s) (renq s).
Definition set_hside (s : st) (v : hid -> side) : st :=
  mk (maxb s) (buffer s) (open_send s) (open_recv s) (receivers s) (senders s) (slot s) (fut s) (nev s) v (hclosed s) (nh s) (phase_of s) (mustc s) (scopec s) (nitem s) (entered s) (handed s) (returned s) (inflight s) (withdrawn s) (lost s) (acked s) (senq s) (renq s).
Definition set_hclosed (s : st) (v : hid -> bool) : st :=
  mk (maxb s) (buffer s) (open_send s) (open_recv s) (receivers s) (senders s) (slot s) (fut s) (nev s) (hside s) v (nh s) (phase_of s) (mustc s) (scopec s) (nitem s) (entered s) (handed s) (returned s) (inflight s) (withdrawn s) (lost s) (acked s) (senq s) (renq s).
Definition set_nh (s : st) (v : hid) : st :=
  mk (maxb s) (buffer s) (open_send s) (open_recv s) (receivers s) (senders s) (slot s) (fut s) (nev s) (hside s) (hclosed s) v (phase_of s) (mustc s) (scopec s) (nitem s) (entered s) (handed s) (returned s) (inflight s) (withdrawn s) (lost s) (acked s) (senq s) (renq s).
Definition set_phase_of (s : st) (v : tid -> phase) : st :=
  mk (maxb s) (buffer s) (open_send s) (open_recv s) (receivers s) (senders s) (slot s) (fut s) (nev s) (hside s) (hclosed s) (nh s) v (mustc s) (scopec s) (nitem s) (entered s) (handed s) (returned s) (inflight s) (withdrawn s) (lost s) (acked s) (senq s) (renq s).
Definition set_mustc (s : st) (v : tid -> bool) : st :=
  mk (maxb s) (buffer s) (open_send s) (open_recv s) (receivers s) (senders s) (slot s) (fut s) (nev s) (hside s) (hclosed s) (nh s) (phase_of s) v (scopec s) (nitem s) (entered s) (handed s) (returned s) (inflight s) (withdrawn s) (lost s) (acked s) (senq s) (renq s).
Definition set_scopec (s : st) (v : tid -> bool) : st :=
  mk (maxb s) (buffer s) (open_send s) (open_recv s) (receivers s) (senders s) (slot s) (fut s) (nev s) (hside s) (hclosed s) (nh s) (phase_of s) (mustc s) v (nitem s) (entered s) (handed s) (returned s) (inflight s) (withdrawn s) (lost s) (acked s) (senq s) (renq s).
Definition set_nitem (s : st) (v : item) : st :=
  mk (maxb s) (buffer s) (open_send s) (open_recv s) (receivers s) (senders s) (slot s) (fut s) (nev s) (hside s) (hclosed s) (nh s) (phase_of s) (mustc s) (scopec s) v (entered s) (handed s) (returned s) (inflight s) (withdrawn s) (lost s) (acked s) (senq s) (renq s).
Definition set_entered (s : st) (v : list item) : st :=
  mk (maxb s) (buffer s) (open_send s) (open_recv s) (receivers s) (senders s) (slot s) (fut s) (nev s) (hside s) (hclosed s) (nh s) (phase_of s) (mustc s) (scopec s) (nitem s) v (handed s) (returned s) (inflight s) (withdrawn s) (lost s) (acked s) (senq s) (renq s).
Definition set_handed (s : st) (v : list item) : st :=
  mk (maxb s) (buffer s) (open_send s) (open_recv s) (receivers s) (senders s) (slot s) (fut s) (nev s) (hside s) (hclosed s) (nh s) (phase_of s) (mustc s) (scopec s) (nitem s) (entered s) v (returned s) (inflight s) (withdrawn s) (lost s) (acked s) (senq s) (renq s).
Definition set_returned (s : st) (v : list item) : st :=
  mk (maxb s) (buffer s) (open_send s) (open_recv s) (receivers s) (senders s) (slot s) (fut s) (nev s) (hside s) (hclosed s) (nh s) (phase_of s) (mustc s) (scopec s) (nitem s) (entered s) (handed s) v (inflight s) (withdrawn s) (lost s) (acked s) (senq s) (renq s).
Definition set_inflight (s : st) (v : list (eid * item)) : st :=
  mk (maxb s) (buffer s) (open_send s) (open_recv s) (receivers s) (senders s) (slot s) (fut s) (nev s) (hside s) (hclosed s) (nh s) (phase_of s) (mustc s) (scopec s) (nitem s) (entered s) (handed s) (returned s) v (withdrawn s) (lost s) (acked s) (senq s) (renq s).
Definition set_withdrawn (s : st) (v : list item) : st :=
  mk (maxb s) (buffer s) (open_send s) (open_recv s) (receivers s) (senders s) (slot s) (fut s) (nev s) (hside s) (hclosed s) (nh s) (phase_of s) (mustc s) (scopec s) (nitem s) (entered s) (handed s) (returned s) (inflight s) v (lost s) (acked s) (senq s) (renq s).
Definition set_lost (s : st) (v : list item) : st :=
  mk (maxb s) (buffer s) (open_send s) (open_recv s) (receivers s) (senders s) (slot s) (fut s) (nev s) (hside s) (hclosed s) (nh s) (phase_of s) (mustc s) (scopec s) (nitem s) (entered s) (handed s) (returned s) (inflight s) (withdrawn s) v (acked s) (senq s) (renq s).
Definition set_acked (s : st) (v : list item) : st :=
  mk (maxb s) (buffer s) (open_send s) (open_recv s) (receivers s) (senders s) (slot s) (fut s) (nev s) (hside s) (hclosed s) (nh s) (phase_of s) (mustc s) (scopec s) (nitem s) (entered s) (handed s) (returned s) (inflight s) (withdrawn s) (lost s) v (senq s) (renq s).
Definition set_senq (s : st) (v : list eid) : st :=
  mk (maxb s) (buffer s) (open_send s) (open_recv s) (receivers s) (senders s) (slot s) (fut s) (nev s) (hside s) (hclosed s) (nh s) (phase_of s) (mustc s) (scopec s) (nitem s) (entered s) (handed s) (returned s) (inflight s) (withdrawn s) (lost s) (acked s) v (renq s).
Definition set_renq (s : st) (v : list eid) : st :=
  mk (maxb s) (buffer s) (open_send s) (open_recv s) (receivers s) (senders s) (slot s) (fut s) (nev s) (hside s) (hclosed s) (nh s) (phase_of s) (mustc s) (scopec s) (nitem s) (entered s) (handed s) (returned s) (inflight s) (withdrawn s) (lost s) (acked s) (senq s) v.

Definition init (m : xnat) : st :=
  mk m [] 1 1 [] [] (fun _ => None) (fun _ => FPending) 0
     (fun h => if Nat.eqb h 0 then SSend else SRecv) (fun _ => false) 2
     (fun _ => Idle) (fun _ => false) (fun _ => false)
     0 [] [] [] [] [] [] [] [] [].

(* ---------- small helpers ---------- *)
Definition is_idle (p : phase) := match p with Idle => true | _ => false end.
Definition is_cancelled (f : fstate) := match f with FCancelled => true | _ => false end.
Definition ev_set (f : fstate) : fstate := match f with FPending => FSet | o => o end.  (* Event.set() *)
Definition side_eqb (a b : side) := match a, b with SSend, SSend | SRecv, SRecv => true | _, _ => false end.

(* len(buffer) < max_buffer_size *)
Definition xlt (n : nat) (m : xnat) : bool := match m with Inf => true | Fin k => Nat.ltb n k end.
Definition xle (n : nat) (m : xnat) : Prop := match m with Inf => True | Fin k => n <= k end.

Fixpoint has_key {A} (e : eid) (l : list (eid * A)) : bool :=
  match l with [] => false | (k, _) :: r => Nat.eqb k e || has_key e r end.
Fixpoint del_key {A} (e : eid) (l : list (eid * A)) : list (eid * A) :=
  match l with [] => [] | (k, v) :: r => if Nat.eqb k e then r else (k, v) :: del_key e r end.
Definition mem (e : eid) (l : list eid) : bool := existsb (Nat.eqb e) l.
(* event.set() for every event of a list *)
Definition set_keys (f : eid -> fstate) (ks : list eid) : eid -> fstate :=
  fun e => if mem e ks then ev_set (f e) else f e.

Definition valid_h (s : st) (h : hid) (sd : side) : bool := Nat.ltb h (nh s) && side_eqb (hside s h) sd.

(* task._fut_waiter of a blocked task, when it is a Future *)
Definition wait_ev (p : phase) : option eid :=
  match p with SendWait e _ => Some e | RecvWait e => Some e | _ => None end.
Definition waiter (s : st) (t : tid) : option eid := wait_ev (phase_of s t).

(* AsyncIOTaskInfo.has_pending_cancellation(): _must_cancel, or the waiter future is cancelled, or the
   task's current cancel scope is effectively cancelled *)
Definition has_pending (s : st) (t : tid) : bool :=
  mustc s t
  || match waiter s t with Some e => is_cancelled (fut s e) | None => false end
  || scopec s t.

(* the task is back at its decision point; the puppet swallowed whatever was raised and left its scope *)
Definition finish (s : st) (t : tid) : st :=
  set_scopec (set_mustc (set_phase_of s (upd (phase_of s) t Idle)) (upd (mustc s) t false))
             (upd (scopec s) t false).

(* ---------- send_nowait (memory.py:206-233), closed/broken tests included ---------- *)
(* the pop loop: receivers with a pending cancellation are popped and forgotten *)
Fixpoint pop_live (s : st) (rs : list (eid * tid)) : option (eid * tid) * list (eid * tid) :=
  match rs with
  | [] => (None, [])
  | (e, t) :: r => if has_pending s t then pop_live s r else (Some (e, t), r)
  end.

Definition hand_over (s : st) (rest : list (eid * tid)) (e : eid) (x : item) : st :=
  set_inflight
    (set_handed
      (set_entered
        (set_fut (set_slot (set_receivers s rest) (upd (slot s) e (Some x))) (upd (fut s) e (ev_set (fut s e))))
        (entered s ++ [x]))
      (handed s ++ [x]))
    (inflight s ++ [(e, x)]).

Definition buffer_item (s : st) (x : item) : st :=
  set_entered (set_buffer (set_receivers s []) (buffer s ++ [x])) (entered s ++ [x]).

Definition send_nowait (s : st) (h : hid) (x : item) : st * res :=
  if hclosed s h then (s, RClosed) else
  if Nat.eqb (open_recv s) 0 then (s, RBroken) else
  match pop_live s (receivers s) with
  | (Some (e, _), rest) => (hand_over s rest e x, RDone)
  | (None, _) =>
      if xlt (length (buffer s)) (maxb s) then (buffer_item s x, RDone)
      else (set_receivers s [], RWouldBlock)
  end.

(* ---------- receive_nowait (memory.py:87-113) ---------- *)
(* first half: one blocked sender's item goes to the buffer and its event is set *)
Definition rn_move (s : st) : st :=
  match senders s with
  | (e, y) :: r => set_fut (set_buffer (set_senders s r) (buffer s ++ [y])) (upd (fut s) e (ev_set (fut s e)))
  | [] => s
  end.

(* second half: pop the head of the buffer *)
Definition rn_pop (s : st) : st * res :=
  match buffer s with
  | x :: b => (set_returned (set_handed (set_buffer s b) (handed s ++ [x])) (returned s ++ [x]), RItem x)
  | [] => if Nat.eqb (open_send s) 0 then (s, REndOfStream) else (s, RWouldBlock)
  end.

Definition recv_nowait (s : st) (h : hid) : st * res :=
  if hclosed s h then (s, RClosed) else rn_pop (rn_move s).

(* ---------- the blocking halves ---------- *)
Definition enq_sender (s : st) (t : tid) (x : item) : st :=
  let e := nev s in
  set_senq
    (set_entered
      (set_phase_of
        (set_nev (set_fut (set_senders s (senders s ++ [(e, x)])) (upd (fut s) e FPending)) (S e))
        (upd (phase_of s) t (SendWait e x)))
      (entered s ++ [x]))
    (senq s ++ [e]).

Definition enq_receiver (s : st) (t : tid) : st :=
  let e := nev s in
  set_renq
    (set_phase_of
      (set_nev
        (set_fut (set_slot (set_receivers s (receivers s ++ [(e, t)])) (upd (slot s) e None))
                 (upd (fut s) e FPending))
        (S e))
      (upd (phase_of s) t (RecvWait e)))
    (renq s ++ [e]).

(* waiting_senders.pop(send_event, None) / del: the item of a still-present entry never entered the stream *)
Definition drop_sender (s : st) (e : eid) (x : item) : st :=
  if has_key e (senders s)
  then set_withdrawn (set_senders s (del_key e (senders s))) (withdrawn s ++ [x])
  else s.

(* finally: waiting_receivers.pop(receive_event, None) *)
Definition pop_receiver (s : st) (e : eid) : st := set_receivers s (del_key e (receivers s)).

(* receive() raised although receiver.item had been set *)
Definition lose (s : st) (e : eid) : st :=
  match slot s e with
  | Some x => set_lost (set_inflight s (del_key e (inflight s))) (lost s ++ [x])
  | None => s
  end.

Definition give (s : st) (e : eid) (x : item) : st :=
  set_returned (set_inflight s (del_key e (inflight s))) (returned s ++ [x]).

Definition add_acked (s : st) (x : item) : st := set_acked s (acked s ++ [x]).
Definition ack (r : res) (x : item) (s : st) : st := match r with RDone => add_acked s x | _ => s end.

(* ---------- clone / close ---------- *)
Definition do_clone (s : st) (h : hid) : st :=
  let n := nh s in
  let s1 := set_nh (set_hclosed (set_hside s (upd (hside s) n (hside s h))) (upd (hclosed s) n false)) (S n) in
  match hside s h with
  | SSend => set_open_send s1 (S (open_send s))
  | SRecv => set_open_recv s1 (S (open_recv s))
  end.

Definition do_close (s : st) (h : hid) : st :=
  let s1 := set_hclosed s (upd (hclosed s) h true) in
  match hside s h with
  | SSend =>
      let n := pred (open_send s) in
      let s2 := set_open_send s1 n in
      if Nat.eqb n 0
      then set_fut (set_receivers s2 []) (set_keys (fut s) (map fst (receivers s)))
      else s2
  | SRecv =>
      let n := pred (open_recv s) in
      let s2 := set_open_recv s1 n in
      if Nat.eqb n 0 then set_fut s2 (set_keys (fut s) (map fst (senders s))) else s2
  end.

(* ---------- Task.cancel() on a blocked task (asyncio tasks.py) ---------- *)
Definition task_cancel (s : st) (t : tid) : st :=
  match waiter s t with
  | Some e =>
      match fut s e with
      | FPending => set_fut s (upd (fut s) e FCancelled)      (* the waiter future is cancelled *)
      | _ => set_mustc s (upd (mustc s) t true)               (* waiter already done: _must_cancel *)
      end
  | None => set_mustc s (upd (mustc s) t true)                (* sleep(0): no waiter future *)
  end.

(* CancelScope.cancel() -> _deliver_cancellation: skips a task with _must_cancel or whose waiter is done *)
Definition scope_cancel (s : st) (t : tid) : st :=
  let s1 := set_scopec s (upd (scopec s) t true) in
  if mustc s t then s1 else
  match waiter s t with
  | Some e => match fut s e with FPending => task_cancel s1 t | _ => s1 end
  | None => task_cancel s1 t
  end.

Definition step (s : st) (o : op) : st * res :=
  match o with
  | SendNowait t h x =>
      if negb (is_idle (phase_of s t)) || negb (valid_h s h SSend) || Nat.ltb x (nitem s) then (s, RRejected) else
      let '(s1, r) := send_nowait (set_nitem s (S x)) h x in (ack r x s1, r)
  | RecvNowait t h =>
      if negb (is_idle (phase_of s t)) || negb (valid_h s h SRecv) then (s, RRejected) else
      recv_nowait s h
  | Send t h x =>
      if negb (is_idle (phase_of s t)) || negb (valid_h s h SSend) || Nat.ltb x (nitem s) then (s, RRejected) else
      (set_phase_of (set_nitem s (S x)) (upd (phase_of s) t (SendCk h x)), RBlocked)
  | Recv t h =>
      if negb (is_idle (phase_of s t)) || negb (valid_h s h SRecv) then (s, RRejected) else
      (set_phase_of s (upd (phase_of s) t (RecvCk h)), RBlocked)
  | Clone h =>
      if negb (Nat.ltb h (nh s)) then (s, RRejected) else
      if hclosed s h then (s, RClosed) else (do_clone s h, RHandle (nh s))
  | Close h =>
      if negb (Nat.ltb h (nh s)) then (s, RRejected) else
      if hclosed s h then (s, RDone) else (do_close s h, RDone)
  | Resume t =>
      match phase_of s t with
      | Idle => (s, RRejected)
      | SendCk h x =>
          if mustc s t then (finish s t, RCancelled) else
          let '(s1, r) := send_nowait (finish s t) h x in
          match r with
          | RWouldBlock => (enq_sender s1 t x, RBlocked)
          | _ => (ack r x s1, r)
          end
      | SendWait e x =>
          match fut s e with
          | FPending => (s, RRejected)                                         (* not runnable *)
          | FCancelled => (finish (drop_sender s e x) t, RCancelled)           (* except BaseException: pop; raise *)
          | FSet =>
              if mustc s t then (finish (drop_sender s e x) t, RCancelled)
              else if has_key e (senders s) then (finish (drop_sender s e x) t, RBroken)
              else (add_acked (finish s t) x, RDone)
          end
      | RecvCk h =>
          if mustc s t then (finish s t, RCancelled) else
          let '(s1, r) := recv_nowait (finish s t) h in
          match r with
          | RWouldBlock => (enq_receiver s1 t, RBlocked)
          | _ => (s1, r)
          end
      | RecvWait e =>
          match fut s e with
          | FPending => (s, RRejected)
          | f =>
              let s1 := pop_receiver s e in
              if is_cancelled f || mustc s t then (finish (lose s1 e) t, RCancelled)
              else match slot s e with
                   | Some x => (finish (give s1 e x) t, RItem x)
                   | None => (finish s1 t, REndOfStream)
                   end
          end
      end
  | Cancel t =>
      if is_idle (phase_of s t) then (s, RRejected) else (task_cancel s t, RNone)
  | ScopeCancel t =>
      if is_idle (phase_of s t) then (s, RRejected) else
      if scopec s t then (s, RNone) else (scope_cancel s t, RNone)
  | Deliver t => (s, RNone)
  end.

(* ---------- observable output of a step (what the harness compares) ---------- *)
Definition res_code (r : res) : Z :=
  match r with
  | RDone => 0 | RBlocked => 1 | RCancelled => 2 | RWouldBlock => 3 | RClosed => 4 | RBroken => 5
  | REndOfStream => 6 | RItem _ => 7 | RHandle _ => 8 | RRejected => 9 | RNone => 10
  end%Z.

Definition res_val (r : res) : Z :=
  match r with RItem x => nz x | RHandle h => nz h | _ => 0%Z end.

(* result, then MemoryObjectStreamStatistics minus the constant max_buffer_size *)
Definition observe (s : st) (r : res) : list Z :=
  [res_code r; res_val r; nz (length (buffer s)); nz (open_send s); nz (open_recv s);
   nz (length (senders s)); nz (length (receivers s))].

(* ---------- codec: flat integer encoding of a case (shared with the Python harness) ---------- *)
(* codes 20..29 / 30..39: Send / Recv performed by a puppet inside a cancel-scope STRUCTURE that lets no cancellation
   through to the call (shielded; shielded inside a cancelled or expired outer scope; nested two deep): for the stream
   these are plain Send / Recv; codes 10, 11, 14 (clock advanced past a deadline, timer callbacks run, an outer scope
   outside the shield cancelled) decode to the no-op Deliver.  That such structures are invisible to the stream is
   exactly what the correspondence run checks. *)
Definition decode_op (c a b d : Z) : op :=
  if Z.leb 20 c && Z.ltb c 30 then Send (zn a) (zn b) (zn d) else
  if Z.leb 30 c && Z.ltb c 40 then Recv (zn a) (zn b) else
  match c with
  | 0 => SendNowait (zn a) (zn b) (zn d)
  | 1 => RecvNowait (zn a) (zn b)
  | 2 => Send (zn a) (zn b) (zn d)
  | 3 => Recv (zn a) (zn b)
  | 4 => Clone (zn b)
  | 5 => Close (zn b)
  | 6 => Resume (zn a)
  | 7 => Cancel (zn a)
  | 8 => ScopeCancel (zn a)
  | 12 => Send (zn a) (zn b) (zn d)     (* the puppet additionally enters a CancelScope around the call *)
  | 13 => Recv (zn a) (zn b)
  | _ => Deliver (zn a)
  end%Z.

Fixpoint decode_ops (l : list Z) : list op :=
  match l with
  | c :: a :: b :: d :: r => decode_op c a b d :: decode_ops r
  | _ => []
  end.

Fixpoint run_obs (s : st) (ops : list op) : list Z :=
  match ops with
  | [] => []
  | o :: r => let '(s1, out) := step s o in observe s1 out ++ run_obs s1 r
  end.

Definition decode_max (z : Z) : xnat := if Z.ltb z 0 then Inf else Fin (zn z).

(* case = max_buffer_size (negative = math.inf) :: flat ops (4 integers each: code, task, handle, item) *)
Definition run_case (c : list Z) : list Z :=
  match c with
  | m :: r => run_obs (init (decode_max m)) (decode_ops r)
  | [] => []
  end.
