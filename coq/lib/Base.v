(* Common definitions shared by all models: ids, function update, codec helpers. *)
From Coq Require Export List Arith ZArith Bool Lia.
Export ListNotations.

Definition tid := nat.
Definition fid := nat.

Definition upd {A} (f : nat -> A) (k : nat) (v : A) : nat -> A :=
  fun x => if Nat.eqb x k then v else f x.

Lemma upd_same {A} (f : nat -> A) k v : upd f k v k = v.
Proof. unfold upd. now rewrite Nat.eqb_refl. Qed.

Lemma upd_other {A} (f : nat -> A) k v x : x <> k -> upd f k v x = f x.
Proof. unfold upd. intros H. destruct (Nat.eqb_spec x k); [contradiction|reflexivity]. Qed.

(* run a step function over a list of ops, collecting outputs *)
Fixpoint run_ops {S O Out} (step : S -> O -> S * Out) (s : S) (ops : list O) : S * list Out :=
  match ops with
  | [] => (s, [])
  | o :: r => let '(s1, out) := step s o in
              let '(s2, outs) := run_ops step s1 r in (s2, out :: outs)
  end.

Definition final {S O Out} (step : S -> O -> S * Out) (s : S) (ops : list O) : S :=
  fold_left (fun s o => fst (step s o)) ops s.

Lemma run_ops_final {S O Out} (step : S -> O -> S * Out) ops : forall s,
  fst (run_ops step s ops) = final step s ops.
Proof.
  induction ops as [|o r IH]; intros s; cbn; [reflexivity|].
  destruct (step s o) as [s1 out] eqn:E. specialize (IH s1).
  destruct (run_ops step s1 r) as [s2 outs]. cbn in *. unfold final in IH. exact IH.
Qed.

(* generic invariant lifting *)
Lemma final_inv {S O Out} (step : S -> O -> S * Out) (Inv : S -> Prop) :
  (forall s o, Inv s -> Inv (fst (step s o))) ->
  forall ops s, Inv s -> Inv (final step s ops).
Proof.
  intros Hstep ops. induction ops as [|o r IH]; intros s Hs; cbn; [exact Hs|].
  apply IH, Hstep, Hs.
Qed.

Lemma final_app {S O Out} (step : S -> O -> S * Out) ops1 ops2 s :
  final step s (ops1 ++ ops2) = final step (final step s ops1) ops2.
Proof. unfold final. now rewrite fold_left_app. Qed.

(* codec helpers: Z <-> nat/bool *)
Definition zn (z : Z) : nat := Z.to_nat z.
Definition nz (n : nat) : Z := Z.of_nat n.
Definition zb (z : Z) : bool := negb (Z.eqb z 0).
Definition bz (b : bool) : Z := if b then 1%Z else 0%Z.
Definition oz (o : option nat) : Z := match o with None => 0%Z | Some n => Z.of_nat (S n) end.
