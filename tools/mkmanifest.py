#!/usr/bin/env python3
"""Regenerates MANIFEST.json from the table below (keeps it schema-valid at all times)."""
import json, os
from pathlib import Path
VERIF = Path(__file__).resolve().parent.parent
ALL = [f"C{i:02d}" for i in range(1, 21)]

# property -> (level text, level note, technique, design ref)
CLAIMED = {
 "C09": ("Machine-checked proof (Coq 8.16.1) over an executable LTS model of anyio Lock: an inductive invariant for EVERY sequence of atomic segments (acquire/acquire_nowait/release/resume/native cancel, any number of tasks, fast_acquire on/off) gives mutual exclusion, acquire-returns-to-owner, no barging, FIFO hand-off to the first live waiter, owner-only release, cancelled waiters never hold nor clog, no free lock with waiters, quiescence. The model is tied to the code on every run by differential execution on a schedule-controlled event loop (extracted OCaml model + kernel-checked vm_compute sample vs real anyio.Lock), with independent history monitors.",
         "Trusted: Coq kernel, extraction (ExtrOcamlBasic), the hand-written model prims/Lock.v being faithful to _asyncio.py:1878-1959 (checked, not proved, by the correspondence harness), CPython asyncio semantics as modelled (Task.cancel/_must_cancel/future callbacks).",
         "Rocq/Coq proof of an inductive invariant over all op sequences + model/implementation correspondence check",
         "DESIGN.md §6 C09"),

 "C10": ("Machine-checked proof (Coq) over executable LTS models of anyio Semaphore and CapacityLimiter (prims/Sem.v, prims/Limiter.v): inductive invariants for EVERY op sequence (acquire/acquire_nowait/acquire_on_behalf_of/release/total_tokens assignments incl. lowering below borrowed, 0, inf/resume/native cancel at any cycle) give permit conservation, grant-only-if-free (direct, woken waiter, total_tokens setter), FIFO, cancel-no-leak incl. the hand-off race, counts-true, rejection of invalid releases/double borrow, quiescence (32 theorems; pre-fix setter and pre-fix foreign-borrower handler kept as refuted witnesses). Tied to the code on every run by differential execution on a schedule-controlled loop + vm_compute sample + independent monitors + exhaustive small scope.",
         "Trusted: Coq kernel, extraction, hand-written models faithful to _asyncio.py:1962-2170 (checked by correspondence, not proved), asyncio Task/Future/Event semantics as modelled. Input-domain hypotheses O1/O2 (two concurrent waiters for the same borrower; release_on_behalf_of before the acquire returned) are explicit in the theorems that need them.",
         "Rocq/Coq invariant proofs over all op sequences + model/implementation correspondence check", "DESIGN.md §6 C10"),
 "C18": ("Proof, partial (boundary property). Machine-checked proof (Coq) over executable models of AnyIO's side of the socket boundary: StreamProtocol+SocketStream (boundary/SockProto.v: read queue, read/write events, EOF/exception/closed flags, resource guards, reading paused unless a receive waits) for EVERY sequence of API calls, scheduler steps and transport callbacks, and the raw-socket loops of UNIXSocketStream (boundary/UnixLoop.v) for every kernel answer script: receive-prefix/completeness at EOF, chunk bounds with push-back at the front, EOF/closed error mapping, guards reject concurrent use and are released on every path, send returns only with the write gate open, no lost wake-up, UNIX send loop hands the item to the kernel completely and in order (25 theorems). Tied to the code by correspondence of the REAL classes over fake transports/raw sockets on a stepped loop, plus end-to-end monitors on real TCP/UNIX sockets (stock asyncio and uvloop).",
         "Trusted: Coq kernel, extraction, hand-written models (checked by correspondence). NOT exhibited by the model, observed by the end-to-end harness only: kernel buffering and TCP flow control, asyncio/uvloop transports (when callbacks fire, zero write-buffer limit), constructors pausing the transport, empirical back-pressure bounds.",
         "Rocq/Coq invariant proofs over all op/callback sequences + correspondence on fake transports + real-socket monitors", "DESIGN.md §6 C18"),
 "C20": ("Machine-checked proof (Coq) over an executable LTS model of anyio.functools.lru_cache (prims/Lru.v with embedded Lock model): for EVERY history of calls/wrapped-function completions/failures/native cancellations/ticks: value faithfulness, reuse of the first result, key independence, LRU order and least-recent eviction, expired-never-served (both forms) unconditionally; bounded retention under no_inflight_eviction; single flight and no internal error under no_inflight_eviction AND no_waited_eviction; and vm_compute REFUTATIONS without them (known findings F3, F8). Tied to the code by differential execution on a stepped loop (whole dict compared per step) + vm_compute sample + monitors; histories matching a known-finding predicate print KNOWN-FINDING, any other monitor hit is a VIOLATION.",
         "Trusted: Coq kernel, extraction, hand-written model faithful to functools.py:137-343 (checked by correspondence). Scope limits: single flight not claimed for maxsize=0 (bypass by design); Clear only at quiescence; wrapped function suspends once; cancellation = native Task.cancel() on a blocked caller.",
         "Rocq/Coq invariant proofs over all histories (conditional where the code violates the property, with refutation witnesses) + correspondence check", "DESIGN.md §6 C20"),

 "C08": ("Machine-checked proof (Coq) in three layers: (1) on the S machine (scopes/Machine.v) for every state: checkpoint_if_cancelled suspends iff the caller's scope is effectively cancelled and otherwise returns without suspending; while spinning a resumption either yields again or raises the delivered cancellation; checkpoint() and cancel_shielded_checkpoint() always suspend once; (2) the fast-path shape table (prims/FastPath.v): every shape that starts with a cancellation check raises with zero effects when the scope is cancelled, every shape containing a yield suspends at least once otherwise, and all 17 table rows have both forms (Condition.wait cancelled entry keeps the lock); (3) the real primitive models (Lock, Semaphore, CapacityLimiter, Event, memory streams) take exactly those first segments; (4) every anyio.itertools traversal over synchronous sources, or yielding nothing, contains a checkpoint event (props/C08_itertools.v). The shape table is validated on every run against the REAL operations, each in a live and in an already cancelled scope, on stock asyncio, the eager task factory and uvloop (raised? effect performed? yielded?), plus the S-machine correspondence with a checkpoint-heavy profile.",
         "Trusted: Coq kernel, extraction, the hand-written shape table (validated row by row, exhaustively, not proved against the source). functools.reduce delegates its checkpoint to the awaited callback when it is invoked (documented scope, only the zero-call case is a row). fast_acquire and *_nowait/close are the documented exemptions (checked to be exemptions). States where an operation must really wait are C03's.",
         "Rocq/Coq proofs (S-machine lemmas, shape-table theorems, per-model fast-path lemmas, itertools trace theorems) + exhaustive row-by-row validation of the table on three loop configurations", "DESIGN.md §6 C08"),
 "C11": ("Machine-checked proof (Coq) over executable LTS models of anyio Event and Condition (prims/EventCond.v, embedding the proved Lock model): for EVERY op sequence (wait/set; acquire/release/notify n/notify_all/wait with its segments, resume, native and scope cancellation before / in the same cycle as / after the selecting notification): no early or spurious wake-up, set releases all present and later waiters, notify(n) wakes exactly the first min(n,|queue|) in arrival order, a notification handed to a waiter that is being cancelled is passed on (conservation: issued = consumed + in flight + dropped-to-nobody + lost, lost = 0 unless a NATIVE cancel lands inside the shielded re-acquire), wait returns only notified and holding the lock, non-holders are refused with the state unchanged (21 theorems; the pre-fix owner record kept as refuted witness). Tied to the code by differential execution on a stepped loop + vm_compute sample + a queue-automaton monitor + exhaustive small scope.",
         "Trusted: Coq kernel, extraction, hand-written model faithful to _synchronization.py:276-385 and _asyncio.py Event/Lock (checked by correspondence). Documented scope: a native Task.cancel() inside wait()'s shielded re-acquire (impossible through AnyIO scopes) is modelled, exempt from the monitors and excluded by the explicit hypothesis clean_run; the Lock is assumed private to the Condition (a lock shared between conditions or released directly is outside the model).",
         "Rocq/Coq invariant proofs over all op sequences + model/implementation correspondence check", "DESIGN.md §6 C11"),
 "C16": ("Machine-checked proof (Coq) over executable pure models of BufferedByteReceiveStream (pure/Buffered.v) and the text wrappers (pure/Text.v: utf-8, utf-16/-le/-be, utf-32/-le/-be, latin-1 incremental decoders as byte automata, stateful encoder): for ALL byte lists, chunkings, wrapped-stream kinds and call sequences: conservation/prefix property with interleaved feed_data, receive returns 1..n bytes, receive_exactly exactly n or IncompleteRead iff the stream is shorter, receive_until excludes and consumes the delimiter with the exact DelimiterNotFound boundary and the search-offset lemma, failed calls hand out nothing and leave buffer++stream untouched, text decoding is invariant under any split and non-empty, send-then-receive is the identity for all eight encodings (27 theorems; the pre-fix stateless encoder kept as refuted witness). Tied to the code by exhaustive small-alphabet enumeration x all chunkings x call sequences plus random long inputs against the real classes, vm_compute sample, independent monitors.",
         "Trusted: Coq kernel, extraction, hand-written models (checked by correspondence); CPython's codecs incremental decoders are the modelled environment for the text automata (validated exhaustively on boundary code points and byte sequences).",
         "Rocq/Coq proofs for all inputs/chunkings/op sequences + exhaustive and random model/implementation correspondence", "DESIGN.md §6 C16"),
}
PENDING_REASON = "check under construction in this session (model + theorems + correspondence not yet registered); see DESIGN.md §6"

def main():
    checks = []
    for pid in ALL:
        if pid not in CLAIMED:
            continue
        text, note, tech, ref = CLAIMED[pid]
        checks.append({
            "property_id": pid,
            "quick_cmd": f"bin/check {pid} --tier quick",
            "thorough_cmd": f"bin/check {pid} --tier thorough",
            "evidence_file": f"/verif/evidence/{pid}.json",
            "replay_cmd_template": f"bin/replay {pid} {{path}}",
            "engine": "coq-models",
            "level_claimed": {"category": "proof", "text": text, "design_ref": ref},
            "level_note": note,
            "technique": tech,
        })
    na = [{"property_id": p, "reason": PENDING_REASON} for p in ALL if p not in CLAIMED]
    man = {
        "version": 1,
        "setup_cmd": "bin/setup",
        "hooks": {
            "guard": "ANYIO_VERIF",
            "enable": "no source hooks are needed: checks import /repo/src directly (PYTHONPATH=/repo/src) and drive the public API on a schedule-controlled asyncio loop; ANYIO_VERIF=1 is set by bin/check but nothing in /repo reads it",
            "baseline_off_cmd": "cd /repo && /venv/bin/python -m pytest -ra -q -p no:cacheprovider --timeout=900 --continue-on-collection-errors",
            "source_commits": [],
            "add_only": True,
        },
        "engines": [{
            "name": "coq-models", "path": "/verif/coq",
            "serves_properties": sorted(CLAIMED),
            "kind_free_text": "Coq 8.16.1 executable models + theorems (coq/), extracted OCaml drivers (ocaml/), Python correspondence harness and monitors (harness/), entry point bin/check",
        }],
        "checks": checks,
        "not_applicable": na,
        "notes": "Every check rebuilds the property's proof cone with make (full .vo), runs the forbidden-construct gate, executes the correspondence between the extracted model and /repo's current working tree, evaluates a sample inside Coq with vm_compute, and runs model-independent monitors on every implementation trace.",
    }
    (VERIF / "MANIFEST.json").write_text(json.dumps(man, indent=1) + "\n")

if __name__ == "__main__":
    main()
