#!/usr/bin/env python3
"""Regenerates MANIFEST.json from the table below (keeps it schema-valid at all times)."""
import json, os
from pathlib import Path
VERIF = Path(__file__).resolve().parent.parent
ALL = [f"C{i:02d}" for i in range(1, 21)]

# property -> (level text, level note, technique, design ref)
CLAIMED = {
 "C09": ("Machine-checked proof (Coq 8.16.1) over an executable LTS model of anyio Lock: an inductive invariant for EVERY sequence of atomic segments (acquire/acquire_nowait/release/resume/native cancel, any number of tasks, fast_acquire on/off) gives mutual exclusion, acquire-returns-to-owner, no barging, FIFO hand-off to the first live waiter, owner-only release, cancelled waiters never hold nor clog, no free lock with waiters, quiescence. The model is tied to the code on every run by differential execution on a schedule-controlled event loop (extracted OCaml model + kernel-checked vm_compute sample vs real anyio.Lock), with independent history monitors.",
         "Trusted: Coq kernel, extraction (ExtrOcamlBasic), the hand-written model prims/Lock.v being faithful to _asyncio.py:1878-1959 (checked, not proved, by the correspondence harness), CPython asyncio semantics as modelled (Task.cancel/_must_cancel/future callbacks).",
         "Rocq/Coq proof of an inductive invariant over all op sequences + model/implementation correspondence check",
         "DESIGN.md §6 C09"),
}
PENDING_REASON = "check under construction in this session (model + theorems + correspondence not yet registered); see DESIGN.md §6"

def main():
    checks = []
    for pid in ALL:
        if pid not in CLAIMED:
            continue
        text, note, tech, ref = CLAIMED[pid]
        checks.append({
            "property_id": pid,
            "quick_cmd": f"bin/check {pid} --tier quick",
            "thorough_cmd": f"bin/check {pid} --tier thorough",
            "evidence_file": f"/verif/evidence/{pid}.json",
            "replay_cmd_template": f"bin/replay {pid} {{path}}",
            "engine": "coq-models",
            "level_claimed": {"category": "proof", "text": text, "design_ref": ref},
            "level_note": note,
            "technique": tech,
        })
    na = [{"property_id": p, "reason": PENDING_REASON} for p in ALL if p not in CLAIMED]
    man = {
        "version": 1,
        "setup_cmd": "bin/setup",
        "hooks": {
            "guard": "ANYIO_VERIF",
            "enable": "no source hooks are needed: checks import /repo/src directly (PYTHONPATH=/repo/src) and drive the public API on a schedule-controlled asyncio loop; ANYIO_VERIF=1 is set by bin/check but nothing in /repo reads it",
            "baseline_off_cmd": "cd /repo && /venv/bin/python -m pytest -ra -q -p no:cacheprovider --timeout=900 --continue-on-collection-errors",
            "source_commits": [],
            "add_only": True,
        },
        "engines": [{
            "name": "coq-models", "path": "/verif/coq",
            "serves_properties": sorted(CLAIMED),
            "kind_free_text": "Coq 8.16.1 executable models + theorems (coq/), extracted OCaml drivers (ocaml/), Python correspondence harness and monitors (harness/), entry point bin/check",
        }],
        "checks": checks,
        "not_applicable": na,
        "notes": "Every check rebuilds the property's proof cone with make (full .vo), runs the forbidden-construct gate, executes the correspondence between the extracted model and /repo's current working tree, evaluates a sample inside Coq with vm_compute, and runs model-independent monitors on every implementation trace.",
    }
    (VERIF / "MANIFEST.json").write_text(json.dumps(man, indent=1) + "\n")

if __name__ == "__main__":
    main()
