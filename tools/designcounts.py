#!/usr/bin/env python3
"""Rewrites the theorem-count paragraph of DESIGN.md §11.2 from the props files (between the two marker lines)."""
import re
from pathlib import Path
V = Path('/verif')
counts = {}
for f in sorted((V / 'coq/props').glob('C*.v')):
    t = f.read_text()
    names = re.findall(r'^Theorem (\w+)', t, re.M)
    # one count per theorem NAME (a name ending in _refuted_pinned is one witness, not two)
    counts[f.stem] = (len(names), sum(1 for n in names if re.search(r'_refuted|_pinned', n)))
line = ", ".join(f"{k} ({n}" + (f", {r} of them refuted/pinned witnesses" if r else "") + ")" for k, (n, r) in counts.items())
total = sum(n for n, _ in counts.values())
text = f"<!-- counts:begin -->\n{line}.  Total: {total} property theorems in {len(counts)} props files.\n<!-- counts:end -->"
p = V / 'DESIGN.md'
s = p.read_text()
if '<!-- counts:begin -->' in s:
    s = re.sub(r'<!-- counts:begin -->.*?<!-- counts:end -->', text, s, flags=re.S)
else:
    m = re.search(r'C01 \(11\), C02 \(8\).*?C20 \(20\)\.\n', s, re.S)
    s = s[:m.start()] + text + "\n" + s[m.end():]
p.write_text(s)
print(total, len(counts))
