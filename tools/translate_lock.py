#!/usr/bin/env python3
"""Tie T for C09: regenerates coq/prims/LockGen.v (terms of coq/prims/LockImp.v) from `class Lock` in
$VERIF_REPO/src/anyio/_backends/_asyncio.py.  LockGenEq.v proves that interpreting them IS Lock.step.

Segments.  Awaits are not statements: `acquire` is cut at `await <...>.cancel_shielded_checkpoint()` (AwYield) and
`await <fut>` (AwFut).  The entry segment is the whole body with each await replaced by `SSuspend pt` (execution of
the segment ends there).  For each await point: <m>_<pt>_resumed = the statements that follow the await (rest of the
enclosing blocks, innermost first, up to the first block that cannot fall through); <m>_<pt>_cancelled = the body of
the `except CancelledError:` handler guarding the await (then the same rest if the handler can fall through), or
`SRaise ECancelled` when the await is not guarded.  `await <...>.checkpoint_if_cancelled()` is the marker `SCkIf`; in
`acquire` it must be the first statement after `task = ...` and occur only there (F53; LockImp.ckif_first).

FAIL CLOSED: accepted grammar (anything else => LockGen.v is replaced by a file that does not type-check and carries
the message, exit status 2):
  cond  ::= self._owner_task is [not] None | self._owner_task (==|is|!=|is not) (TASK | current_task())
          | [not] self._waiters | self._fast_acquire | FUT.cancelled() | not cond | cond and cond | cond or cond
  stmt  ::= pass | return [None] | continue (in the loop) | raise RuntimeError(...) | raise WouldBlock[()]
          | raise            (only directly in an `except CancelledError:` handler of an await)
          | TASK = [cast(_,] current_task() [)] | FUT = asyncio.Future() | ITEM = TASK, FUT   (function top level,
            each name bound once; asyncio.Task defines no __eq__, so == on tasks is identity)
          | self._owner_task = TASK | self._owner_task = None | self._waiters.append(ITEM) | FUT.set_result(None)
          | self.release() | if cond: block [else: block]
          | try: self._waiters.remove(ITEM)  except ValueError: pass
          | while self._waiters: TASK, FUT = self._waiters.popleft(); block        (no await inside, once per method)
          | await X.checkpoint_if_cancelled() | AWAIT | try: AWAIT except CancelledError: block
  AWAIT ::= await X.cancel_shielded_checkpoint() | await FUT     (each once; not in a loop / handler / sync method)
Statements after a return/raise/continue in the same block are refused.  __init__ must set _fast_acquire from its
argument, _owner_task = None, _waiters = deque().  locked() must be `return cond`.  The class may define no other method than these, __new__ (plain object.__new__)
and statistics() (read-only observer used by the harness; not translated).
"""
from __future__ import annotations

import ast
import os
import sys
from pathlib import Path

REPO = Path(os.environ.get("VERIF_REPO", "/repo"))
OUT = Path(__file__).resolve().parent.parent / "coq" / "prims" / "LockGen.v"
SRC = "src/anyio/_backends/_asyncio.py"
PTS = {"AwYield": "yield", "AwFut": "wait"}


class Refuse(Exception):
    pass


def refuse(where, node, what):
    txt = " ".join(ast.unparse(node).split())[:90] if isinstance(node, ast.AST) else ""
    raise Refuse(f"{where}: line {getattr(node, 'lineno', '?')}: {what} `{txt}`")


def self_attr(n, attr):
    return isinstance(n, ast.Attribute) and isinstance(n.value, ast.Name) and n.value.id == "self" and n.attr == attr


def is_current_task(n):
    if isinstance(n, ast.Call) and isinstance(n.func, ast.Name) and not n.keywords:
        if n.func.id == "current_task" and not n.args:
            return True
        return n.func.id == "cast" and len(n.args) == 2 and is_current_task(n.args[1])
    return False


def method_call(n, name, nargs=0):
    """`<obj>.name(args)` -> obj, else None"""
    if isinstance(n, ast.Call) and isinstance(n.func, ast.Attribute) and n.func.attr == name \
            and len(n.args) == nargs and not n.keywords:
        return n.func.value
    return None


def seq(parts):
    parts = [p for p in parts if p is not None]
    if not parts:
        return "SSkip"
    return parts[0] if len(parts) == 1 else f"(SSeq {parts[0]} {seq(parts[1:])})"


def terminates(stmts):
    if not stmts:
        return False
    last = stmts[-1]
    if isinstance(last, (ast.Return, ast.Raise, ast.Continue)):
        return True
    return isinstance(last, ast.If) and bool(last.orelse) and terminates(last.body) and terminates(last.orelse)


class Method:
    def __init__(self, name, fn, is_async, defs):
        self.name, self.fn, self.is_async, self.defs = name, fn, is_async, defs
        self.sym = {}            # python local name -> role (task | fut | item)
        self.points = {}         # await point -> ast node
        self.atoms = []

    def role(self, n, want):
        return isinstance(n, ast.Name) and self.sym.get(n.id) == want

    def is_item(self, n):
        return self.role(n, "item") or (isinstance(n, ast.Tuple) and len(n.elts) == 2
                                        and self.role(n.elts[0], "task") and self.role(n.elts[1], "fut"))

    def bind(self, n, role, depth):
        if depth != 0 or not isinstance(n, ast.Name) or n.id in self.sym or n.id == "self":
            refuse(self.name, n, f"binding of local `{role}` must be a fresh name at function top level")
        self.sym[n.id] = role

    def cond(self, n):
        if isinstance(n, ast.BoolOp):
            op = "CAnd" if isinstance(n.op, ast.And) else "COr"
            out = self.cond(n.values[-1])
            for v in reversed(n.values[:-1]):
                out = f"({op} {self.cond(v)} {out})"
            return out
        if isinstance(n, ast.UnaryOp) and isinstance(n.op, ast.Not):
            return "CNoWaiters" if self_attr(n.operand, "_waiters") else f"(CNot {self.cond(n.operand)})"
        if self_attr(n, "_waiters"):
            return "(CNot CNoWaiters)"
        if self_attr(n, "_fast_acquire"):
            return "CFast"
        if self.role(method_call(n, "cancelled"), "fut"):
            return "CFutCancelled"
        if isinstance(n, ast.Compare) and len(n.ops) == 1:
            a, b, op = n.left, n.comparators[0], n.ops[0]
            if self_attr(b, "_owner_task"):
                a, b = b, a
            if self_attr(a, "_owner_task"):
                neg = isinstance(op, (ast.IsNot, ast.NotEq))
                base = None
                if isinstance(b, ast.Constant) and b.value is None and isinstance(op, (ast.Is, ast.IsNot)):
                    base = "COwnerNone"
                elif isinstance(op, (ast.Is, ast.IsNot, ast.Eq, ast.NotEq)) and self.role(b, "task"):
                    base = "COwnerIsTask"
                elif isinstance(op, (ast.Is, ast.IsNot, ast.Eq, ast.NotEq)) and is_current_task(b):
                    base = "COwnerIsCurrent"
                if base:
                    return f"(CNot {base})" if neg else base
        refuse(self.name, n, "unsupported condition")

    def block(self, stmts, K, fl, depth):
        out = []
        for i, st in enumerate(stmts):
            if i and terminates(stmts[:i]):
                refuse(self.name, st, "statement after return/raise/continue")
            out.append(self.stmt(st, [stmts[i + 1:]] + K, fl, depth))
        return seq(out)

    def frames(self, K, fl):
        parts = []
        for i, fr in enumerate(K):
            if fr:
                parts.append(self.block(fr, K[i + 1:], fl, 1))
                if terminates(fr):
                    break
        return seq(parts)

    def suspend(self, node, aw, handler, K, fl):
        v = aw.value
        if method_call(v, "cancel_shielded_checkpoint") is not None:
            pt = "AwYield"
        elif self.role(v, "fut"):
            pt = "AwFut"
        else:
            refuse(self.name, aw, "unsupported await")
        if not self.is_async or fl["loop"] or fl["handler"]:
            refuse(self.name, aw, "await in a loop, a handler or a synchronous method")
        if self.points.setdefault(pt, node) is not node:
            refuse(self.name, aw, f"second await of kind {pt}")
        if "task" not in self.sym.values():
            refuse(self.name, aw, "suspension before the local `task` is bound")
        base = f"{self.name}_{PTS[pt]}"
        if base + "_resumed" not in self.defs:
            self.defs[base + "_resumed"] = None          # reserve the order
            self.defs[base + "_cancelled"] = None
            self.defs[base + "_resumed"] = self.frames(K, dict(fl))
            if handler is None:
                self.defs[base + "_cancelled"] = "(SRaise ECancelled)"
            else:
                h = self.block(handler, K, dict(fl, handler=True), 1)
                rest = None if terminates(handler) else self.frames(K, dict(fl))
                self.defs[base + "_cancelled"] = seq([h, rest])
        self.atoms.append(f"SSuspend {pt}")
        return f"(SSuspend {pt})"

    def stmt(self, st, K, fl, depth):
        nm = self.name
        if isinstance(st, ast.Expr) and isinstance(st.value, ast.Constant) and isinstance(st.value.value, str):
            return None
        if isinstance(st, ast.Pass):
            return "SSkip"
        if isinstance(st, ast.Return):
            if st.value is None or (isinstance(st.value, ast.Constant) and st.value.value is None):
                return self.atom("SReturn")
            refuse(nm, st, "return with a value")
        if isinstance(st, ast.Continue):
            return self.atom("SContinue") if fl["loop"] else refuse(nm, st, "continue outside the pop loop")
        if isinstance(st, ast.Raise):
            if st.exc is None and st.cause is None and fl["handler"]:
                return self.atom("(SRaise ECancelled)")
            e = st.exc.func if isinstance(st.exc, ast.Call) else st.exc
            if isinstance(e, ast.Name) and e.id in ("RuntimeError", "WouldBlock") and st.cause is None:
                return self.atom("(SRaise ERuntime)" if e.id == "RuntimeError" else "(SRaise EWouldBlock)")
            refuse(nm, st, "unsupported raise")
        if isinstance(st, (ast.Assign, ast.AnnAssign)):
            tg = st.targets[0] if isinstance(st, ast.Assign) and len(st.targets) == 1 else getattr(st, "target", None)
            v = st.value
            if self_attr(tg, "_owner_task") and v is not None:
                if self.role(v, "task"):
                    return self.atom("SSetOwnerTask")
                if isinstance(v, ast.Constant) and v.value is None:
                    return self.atom("SSetOwnerNone")
            elif isinstance(tg, ast.Name) and v is not None:
                if is_current_task(v):
                    self.bind(tg, "task", depth)
                    return self.atom("SBindTask")
                if ast.unparse(v) in ("asyncio.Future()", "Future()"):
                    self.bind(tg, "fut", depth)
                    return self.atom("SNewFut")
                if self.is_item(v) and isinstance(v, ast.Tuple):
                    self.bind(tg, "item", depth)
                    return None
            refuse(nm, st, "unsupported assignment")
        if isinstance(st, ast.Expr) and isinstance(st.value, ast.Call):
            c = st.value
            if self_attr(method_call(c, "append", 1), "_waiters") and self.is_item(c.args[0]):
                return self.atom("SAppendItem")
            if self.role(method_call(c, "set_result", 1), "fut") and ast.unparse(c.args[0]) == "None":
                return self.atom("SSetResult")
            obj = method_call(c, "release")
            if isinstance(obj, ast.Name) and obj.id == "self" and self.defs.get("release_entry"):
                return self.atom("(SCall release_entry)")
            refuse(nm, st, "unsupported call")
        if isinstance(st, ast.Expr) and isinstance(st.value, ast.Await):
            if method_call(st.value.value, "checkpoint_if_cancelled") is not None:
                return self.atom("SCkIf")
            return self.suspend(st, st.value, None, K, fl)
        if isinstance(st, ast.If):
            c = self.cond(st.test)
            a = self.block(st.body, K, fl, depth + 1)
            b = self.block(st.orelse, K, fl, depth + 1) if st.orelse else "SSkip"
            return f"(SIf {c} {a} {b})"
        if isinstance(st, ast.Try) and len(st.body) == 1 and len(st.handlers) == 1 and not st.orelse \
                and not st.finalbody and st.handlers[0].name is None:
            b, h = st.body[0], st.handlers[0]
            ht = ast.unparse(h.type) if h.type is not None else ""
            if isinstance(b, ast.Expr) and isinstance(b.value, ast.Call) and ht == "ValueError" \
                    and self_attr(method_call(b.value, "remove", 1), "_waiters") and self.is_item(b.value.args[0]) \
                    and len(h.body) == 1 and isinstance(h.body[0], ast.Pass):
                return self.atom("SRemoveItem")
            if isinstance(b, ast.Expr) and isinstance(b.value, ast.Await) and ht in ("CancelledError", "asyncio.CancelledError") \
                    and method_call(b.value.value, "checkpoint_if_cancelled") is None:
                return self.suspend(st, b.value, h.body, K, fl)
            refuse(nm, st, "unsupported try statement")
        if isinstance(st, ast.While) and self_attr(st.test, "_waiters") and not st.orelse and not fl["loop"] \
                and depth == 0 and f"{nm}_loop_body" not in self.defs and st.body:
            h = st.body[0]
            if isinstance(h, ast.Assign) and len(h.targets) == 1 and isinstance(h.targets[0], ast.Tuple) \
                    and len(h.targets[0].elts) == 2 and self_attr(method_call(h.value, "popleft"), "_waiters"):
                self.bind(h.targets[0].elts[0], "task", 0)
                self.bind(h.targets[0].elts[1], "fut", 0)
                self.defs[f"{nm}_loop_body"] = self.block(st.body[1:], [], dict(fl, loop=True), 1)
                return self.atom(f"(SPopLoop {nm}_loop_body)")
        refuse(nm, st, "unsupported statement")

    def atom(self, a):
        self.atoms.append(a.strip("()"))
        return a

    def run(self):
        entry = self.block(self.fn.body, [], {"loop": False, "handler": False}, 0)
        self.defs[f"{self.name}_entry"] = entry
        return self


def check_init(fn):
    want = {"self._fast_acquire = fast_acquire", "self._owner_task = None", "self._waiters = deque()"}
    got = set()
    for st in fn.body:
        if isinstance(st, ast.AnnAssign) and st.value is not None:
            got.add(f"{ast.unparse(st.target)} = {ast.unparse(st.value)}")
        elif isinstance(st, ast.Assign):
            got.add(ast.unparse(st))
        elif not (isinstance(st, ast.Expr) and isinstance(st.value, ast.Constant)):
            refuse("__init__", st, "unsupported statement")
    if got != want:
        raise Refuse(f"__init__: expected exactly {sorted(want)}, found {sorted(got)}")


def translate():
    mod = ast.parse((REPO / SRC).read_text())
    try:
        import guard
        guard.check("_backends/_asyncio.py", mod, ["Lock"])
    except guard.GuardError as e:
        raise Refuse(str(e))
    classes = [n for n in mod.body if isinstance(n, ast.ClassDef) and n.name == "Lock"]
    if len(classes) != 1:
        raise Refuse(f"expected exactly one class Lock in {SRC}, found {len(classes)}")
    fns = {}
    for n in classes[0].body:
        if isinstance(n, (ast.FunctionDef, ast.AsyncFunctionDef)):
            if n.name in fns or n.decorator_list:
                refuse("class Lock", n, "duplicate or decorated method")
            fns[n.name] = n
    extra = set(fns) - {"__new__", "__init__", "acquire", "acquire_nowait", "locked", "release", "statistics"}
    if extra or ("__new__" in fns and ast.unparse(fns["__new__"].body[-1]) != "return object.__new__(cls)"):
        raise Refuse(f"class Lock: unexpected method(s) {sorted(extra) or ['__new__ body']}")
    for need, is_async in (("__init__", False), ("acquire", True), ("acquire_nowait", False), ("release", False), ("locked", False)):
        if need not in fns or isinstance(fns[need], ast.AsyncFunctionDef) != is_async:
            raise Refuse(f"class Lock: method {need} missing or of the wrong kind (async={is_async})")
    check_init(fns["__init__"])
    defs, atoms = {}, {}
    for name in ("release", "acquire_nowait", "acquire"):      # release first: the others may call it
        m = Method(name, fns[name], name == "acquire", defs).run()
        atoms[name] = m.atoms
        if name == "acquire" and set(m.points) != set(PTS):
            raise Refuse(f"acquire: await points found {sorted(m.points)}, expected {sorted(PTS)}")
        if name == "acquire" and not (defs["acquire_entry"].startswith("(SSeq SBindTask (SSeq SCkIf ")
                                      and defs["acquire_entry"].count("SCkIf") == 1):
            raise Refuse("acquire: `await ...checkpoint_if_cancelled()` must be the first statement after `task = ...` "
                         "and occur only there (F53: the check may yield and return; nothing may be read before it)")
    if "release_loop_body" not in defs:
        raise Refuse("release: the pop loop `while self._waiters:` was not found")
    body = [s for s in fns["locked"].body if not (isinstance(s, ast.Expr) and isinstance(s.value, ast.Constant))]
    if len(body) != 1 or not isinstance(body[0], ast.Return) or body[0].value is None:
        raise Refuse("locked: expected a single `return <cond>`")
    locked = Method("locked", fns["locked"], False, defs).cond(body[0].value)
    return defs, locked, atoms


def main():
    try:
        defs, locked, atoms = translate()
    except Refuse as e:
        msg = str(e).replace('"', "'")
        OUT.write_text("(* translator refused *)\nFrom AV Require Import Base Lock LockImp.\n"
                       f'Definition refused : False := "translate_lock REFUSED: {msg}".\n')
        print("translate_lock: REFUSED:", e)
        return 2
    lines = ["(* GENERATED by tools/translate_lock.py from class Lock in /repo's source on every run of bin/check C09. *)",
             "From AV Require Import Base Lock LockImp.", ""]
    for name, term in defs.items():
        lines += [f"Definition {name} : stmt :=", f"  {term}.", ""]
    lines += [f"Definition locked_cond : cond := {locked}.", "",
              "Definition lock_prog : prog :=",
              "  mkprog acquire_entry acquire_yield_resumed acquire_yield_cancelled acquire_wait_resumed",
              "         acquire_wait_cancelled acquire_nowait_entry release_entry locked_cond.", ""]
    text = "\n".join(lines)
    if not OUT.exists() or OUT.read_text() != text:
        OUT.write_text(text)
    print("translate_lock: ok segments=" + ",".join(defs) + " atoms=" + str({k: len(v) for k, v in atoms.items()}))
    for name, term in defs.items():
        print(f"  {name} := {term}")
    return 0


if __name__ == "__main__":
    sys.exit(main())
