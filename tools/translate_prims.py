#!/usr/bin/env python3
"""Tie T for C10: regenerates coq/prims/SemGen.v and coq/prims/LimiterGen.v (terms of coq/prims/PrimImp.v) from
`class Semaphore` and `class CapacityLimiter` in $VERIF_REPO/src/anyio/_backends/_asyncio.py.  SemGenEq.v and
LimiterGenEq.v prove that interpreting them IS Sem.step / Limiter.step.   Usage: translate_prims.py [outdir]

One engine, one table per class.  Locals are renamed to canonical names first (parameters by position, locals by the
expression that binds them), then every atomic condition / statement / expression must be, after `ast.unparse`,
literally a key of the class's table - anything else is refused.  Control structure accepted by the engine:
  cond  ::= ATOM | not cond | cond and cond | cond or cond
  stmt  ::= ATOM | pass | return [None] | continue (in a loop) | raise E[(...)] [from None], E in EXN
          | raise                        (directly in the handler that guards an await)
          | LOCAL = BINDER               (each local bound by one statement per method)
          | self.METHOD(ARG)             (CALLS: an already translated synchronous method of the class)
          | if cond: block [else: block]
          | try: STMT except E: block [else: block]       (STMT one await-free statement)
          | while cond: block                             (cond mentions exactly one of the class's queues; no await)
          | await X.checkpoint_if_cancelled()             -> SCkIf   ONLY as the FIRST statement of an async method, and
                                                             every async method of CKIF_FIRST must begin with it
                                                             (F53: since checkpoint_if_cancelled() may yield and then
                                                             return, nothing the method tests may be separated from
                                                             what it then does by that yield; SemGenEq /
                                                             LimiterGenEq rely on `entry = SCkIf; body`)
          | AWAIT | try: AWAIT except (CancelledError | BaseException): block
  AWAIT ::= await X.cancel_shielded_checkpoint() | await fut | await event.wait()   (each once per method; not in a
            loop, not in the body of another try, not in the handler of an await, not in a synchronous method)
Segments (as in translate_lock.py): the entry segment is the whole body with each AWAIT replaced by `SSuspend pt`;
<m>_<pt>_resumed = the statements that follow the await (rest of the enclosing blocks, innermost first, up to the
first block that cannot fall through); <m>_<pt>_cancelled = the handler guarding the await (then the same rest if it
can fall through), or `SRaise ECancelled`.  Statements after return/raise/continue in a block are refused.
Also checked literally: __init__ (INIT), the delegating methods (DELEG), that the class has no other method (ALLOWED),
property getters / statistics() as read-only expressions (EXPRS).  FAIL CLOSED: on refusal the class's output file is
replaced by one that does not type-check and carries the message; exit status 2.
"""
from __future__ import annotations

import ast
import copy
import os
import sys
from pathlib import Path

REPO = Path(os.environ.get("VERIF_REPO", "/repo"))
OUTDIR = Path(sys.argv[1]) if len(sys.argv) > 1 else Path(__file__).resolve().parent.parent / "coq" / "prims"
SRC = "src/anyio/_backends/_asyncio.py"
EXN = {"RuntimeError": "ERuntime", "WouldBlock": "EWouldBlock", "ValueError": "EValue", "TypeError": "EType",
       "KeyError": "EKey"}
AWAITS = {"fut": ("AwFut", "wait"), "event.wait()": ("AwEvent", "event")}
BINDERS = {"asyncio.Future()": (("fut",), "SNewFut"), "asyncio.Event()": (("event",), "SNewEvent"),
           "self._waiters.popleft()": (("fut",), "SPopFut"),
           "self._wait_queue.popitem(last=False)": (("borrower", "event"), "SPopItem")}
EXPRS = {"self._value": "XValue", "self._max_value": "XMaxValue", "len(self._waiters)": "XLenWaiters",
         "self._total_tokens": "XTotal", "len(self._borrowers)": "XLenBorrowers", "len(self._wait_queue)": "XLenQueue",
         "tuple(self._borrowers)": "XBorrowers"}

SEM = dict(
    cls="Semaphore", out="SemGen.v", imp="SemImp", pre="sem_",
    order=[("release", (), False), ("acquire_nowait", (), False), ("acquire", (), True)],
    points={"acquire": {"AwYield", "AwFut"}},
    ckif_first={"acquire"},
    conds={"self._value > 0": "CValuePos", "self._value == 0": "CValueZero", "not self._waiters": "CNoWaiters",
           "self._waiters": "(CNot CNoWaiters)", "self._max_value is not None": "CHasMax",
           "self._value == self._max_value": "CValueIsMax", "fut.cancelled()": "CFutCancelled",
           "self._fast_acquire": "CFast"},
    stmts={"self._value -= 1": "SDecValue", "self._value += 1": "SIncValue", "self._waiters.append(fut)": "SAppendFut",
           "self._waiters.remove(fut)": "SRemoveFut", "fut.set_result(None)": "SSetResult"},
    calls={"self.release()": ("release", "ArgNone")},
    queues={"self._waiters": "QWaiters"},
    init={"super().__init__(initial_value, max_value=max_value)", "self._value = initial_value",
          "self._max_value = max_value", "self._fast_acquire = fast_acquire", "self._waiters = deque()"},
    deleg={}, getters=["value", "max_value"], stats="SemaphoreStatistics",
    allowed={"__new__", "__init__", "acquire", "acquire_nowait", "release", "value", "max_value", "statistics"},
    prog="mkprog sem_acquire_entry sem_acquire_yield_resumed sem_acquire_yield_cancelled sem_acquire_wait_resumed\n"
         "         sem_acquire_wait_cancelled sem_acquire_nowait_entry sem_release_entry sem_value_getter\n"
         "         sem_max_value_getter sem_statistics_args",
)
LIM = dict(
    cls="CapacityLimiter", out="LimiterGen.v", imp="LimiterImp", pre="lim_",
    order=[("_notify_next_waiter", (), False), ("release_on_behalf_of", ("borrower",), False), ("release", (), False),
           ("acquire_on_behalf_of_nowait", ("borrower",), False), ("acquire_nowait", (), False),
           ("acquire_on_behalf_of", ("borrower",), True), ("total_tokens", ("value",), False)],
    points={"acquire_on_behalf_of": {"AwYield", "AwEvent"}},
    ckif_first={"acquire_on_behalf_of"},
    conds={"borrower in self._borrowers": "CInBorrowers", "self._wait_queue": "CQueueNonEmpty",
           "not self._wait_queue": "(CNot CQueueNonEmpty)", "len(self._borrowers) < self._total_tokens": "CFree",
           "len(self._borrowers) >= self._total_tokens": "(CNot CFree)", "borrower in self._wait_queue": "CInQueue",
           "event.is_set()": "CEvIsSet", "isinstance(value, int)": "CValIsInt", "math.isinf(value)": "CValIsInf",
           "value < 0": "CValNeg"},
    stmts={"self._borrowers.add(borrower)": "SAddBorrower", "self._borrowers.remove(borrower)": "SRemoveBorrower",
           "self._borrowers.discard(borrower)": "SDiscardBorrower", "self._wait_queue[borrower] = event": "SQueueSet",
           "self._wait_queue.pop(borrower, None)": "SQueuePop", "event.set()": "SEventSet",
           "self._total_tokens = value": "SStoreTotal"},
    calls={"self._notify_next_waiter()": ("_notify_next_waiter", "ArgNone"),
           "self.release_on_behalf_of(borrower)": ("release_on_behalf_of", "ArgBorrower"),
           "self.release_on_behalf_of(current_task())": ("release_on_behalf_of", "ArgCurrent"),
           "self.acquire_on_behalf_of_nowait(borrower)": ("acquire_on_behalf_of_nowait", "ArgBorrower"),
           "self.acquire_on_behalf_of_nowait(current_task())": ("acquire_on_behalf_of_nowait", "ArgCurrent"),
           "self.release()": ("release", "ArgNone")},
    queues={"self._wait_queue": "QQueue"},
    init={"self._total_tokens = 0", "self._borrowers = set()", "self._wait_queue = OrderedDict()",
          "self.total_tokens = total_tokens"},
    deleg={"acquire": "return await self.acquire_on_behalf_of(current_task())", "__aenter__": "await self.acquire()",
           "__aexit__": "self.release()"},
    getters=["total_tokens", "borrowed_tokens", "available_tokens"], stats="CapacityLimiterStatistics",
    allowed={"__new__", "__init__", "__aenter__", "__aexit__", "total_tokens", "borrowed_tokens", "available_tokens",
             "_notify_next_waiter", "acquire_nowait", "acquire_on_behalf_of_nowait", "acquire", "acquire_on_behalf_of",
             "release", "release_on_behalf_of", "statistics"},
    prog="mkprog lim_acquire_on_behalf_of_entry lim_acquire_on_behalf_of_yield_resumed\n"
         "         lim_acquire_on_behalf_of_yield_cancelled lim_acquire_on_behalf_of_event_resumed\n"
         "         lim_acquire_on_behalf_of_event_cancelled lim_acquire_on_behalf_of_nowait_entry\n"
         "         lim_release_on_behalf_of_entry lim_total_tokens_entry lim_acquire_nowait_entry lim_release_entry\n"
         "         lim_total_tokens_getter lim_borrowed_tokens_getter lim_available_tokens_getter lim_statistics_args",
)


class Refuse(Exception):
    pass


def refuse(where, node, what):
    txt = " ".join(ast.unparse(node).split())[:90] if isinstance(node, ast.AST) else ""
    raise Refuse(f"{where}: line {getattr(node, 'lineno', '?')}: {what} `{txt}`")


def seq(parts):
    parts = [p for p in parts if p is not None]
    if not parts:
        return "SSkip"
    return parts[0] if len(parts) == 1 else f"(SSeq {parts[0]} {seq(parts[1:])})"


def terminates(stmts):
    if not stmts:
        return False
    last = stmts[-1]
    if isinstance(last, (ast.Return, ast.Raise, ast.Continue)):
        return True
    return isinstance(last, ast.If) and bool(last.orelse) and terminates(last.body) and terminates(last.orelse)


def is_doc(st):
    return isinstance(st, ast.Expr) and isinstance(st.value, ast.Constant) and isinstance(st.value.value, str)


class Ren(ast.NodeTransformer):
    def __init__(self, sym):
        self.sym = sym

    def visit_Name(self, n):
        return ast.Name(id=self.sym.get(n.id, n.id), ctx=n.ctx)


class Method:
    def __init__(self, cfg, name, fn, params, is_async, defs):
        self.cfg, self.fn, self.is_async, self.defs = cfg, fn, is_async, defs
        self.name = cfg["pre"] + name.lstrip("_")
        args = [a.arg for a in fn.args.args]
        if len(args) != 1 + len(params) or fn.args.vararg or fn.args.kwarg or fn.args.kwonlyargs or args[0] != "self":
            refuse(self.name, fn, "unexpected signature")
        self.sym = dict(zip(args[1:], params))     # python local name -> canonical name
        self.points, self.atoms = {}, []
        body = [st for st in fn.body if not is_doc(st)]
        self.first = body[0] if body else None
        if fn.name in cfg.get("ckif_first", ()) and not (self.first is not None and self.is_ckif(self.first)):
            refuse(self.name, fn, "the method must begin with `await ...checkpoint_if_cancelled()` (F53 order: "
                                  "check first, then test and take in one segment)")

    @staticmethod
    def is_ckif(st):
        if not (isinstance(st, ast.Expr) and isinstance(st.value, ast.Await)):
            return False
        v = st.value.value
        return isinstance(v, ast.Call) and isinstance(v.func, ast.Attribute) \
            and v.func.attr == "checkpoint_if_cancelled" and not v.args and not v.keywords

    def canon(self, n):
        return ast.unparse(Ren(self.sym).visit(copy.deepcopy(n)))

    def atom(self, a):
        self.atoms.append(a.strip("()"))
        return a

    def cond(self, n):
        if isinstance(n, ast.BoolOp):
            op = "CAnd" if isinstance(n.op, ast.And) else "COr"
            out = self.cond(n.values[-1])
            for v in reversed(n.values[:-1]):
                out = f"({op} {self.cond(v)} {out})"
            return out
        c = self.cfg["conds"].get(self.canon(n))
        if c:
            return c
        if isinstance(n, ast.UnaryOp) and isinstance(n.op, ast.Not):
            return f"(CNot {self.cond(n.operand)})"
        refuse(self.name, n, "unsupported condition")

    def block(self, stmts, K, fl):
        out = []
        for i, st in enumerate(stmts):
            if i and terminates(stmts[:i]):
                refuse(self.name, st, "statement after return/raise/continue")
            out.append(self.stmt(st, [stmts[i + 1:]] + K, fl))
        return seq(out)

    def frames(self, K, fl):
        parts = []
        for i, fr in enumerate(K):
            if fr:
                parts.append(self.block(fr, K[i + 1:], fl))
                if terminates(fr):
                    break
        return seq(parts)

    def suspend(self, node, aw, handler, K, fl):
        v = aw.value
        if isinstance(v, ast.Call) and isinstance(v.func, ast.Attribute) and v.func.attr == "cancel_shielded_checkpoint" \
                and not v.args and not v.keywords:
            pt, nm = "AwYield", "yield"
        elif self.canon(v) in AWAITS:
            pt, nm = AWAITS[self.canon(v)]
        else:
            refuse(self.name, aw, "unsupported await")
        if not self.is_async or fl["sync"] or fl["handler"]:
            refuse(self.name, aw, "await in a loop, a try body, the handler of an await or a synchronous method")
        if self.points.setdefault(pt, node) is not node:
            refuse(self.name, aw, f"second await of kind {pt}")
        base = f"{self.name}_{nm}"
        if base + "_resumed" not in self.defs:
            self.defs[base + "_resumed"] = self.defs[base + "_cancelled"] = None     # reserve the order
            self.defs[base + "_resumed"] = self.frames(K, dict(fl))
            if handler is None:
                self.defs[base + "_cancelled"] = "(SRaise ECancelled)"
            else:
                h = self.block(handler, K, dict(fl, handler=True))
                self.defs[base + "_cancelled"] = seq([h, None if terminates(handler) else self.frames(K, dict(fl))])
        return self.atom(f"(SSuspend {pt})")

    def bind(self, targets, names, node):
        if len(targets) != len(names) or not all(isinstance(x, ast.Name) for x in targets):
            refuse(self.name, node, "unsupported binding target")
        for x, c in zip(targets, names):
            if x.id in self.sym or c in self.sym.values() or x.id == "self":
                refuse(self.name, node, f"local `{c}` must be bound once, to a fresh name")
            self.sym[x.id] = c

    def stmt(self, st, K, fl):
        nm, cfg = self.name, self.cfg
        if is_doc(st):
            return None
        if isinstance(st, ast.Pass):
            return "SSkip"
        if isinstance(st, ast.Return):
            if st.value is None or (isinstance(st.value, ast.Constant) and st.value.value is None):
                return self.atom("SReturn")
            refuse(nm, st, "return with a value")
        if isinstance(st, ast.Continue):
            return self.atom("SContinue") if fl["loop"] else refuse(nm, st, "continue outside a loop")
        if isinstance(st, ast.Raise):
            if st.cause is not None and not (isinstance(st.cause, ast.Constant) and st.cause.value is None):
                refuse(nm, st, "unsupported raise ... from")
            if st.exc is None and fl["handler"]:
                return self.atom("(SRaise ECancelled)")
            e = st.exc.func if isinstance(st.exc, ast.Call) else st.exc
            if isinstance(e, ast.Name) and e.id in EXN:
                return self.atom(f"(SRaise {EXN[e.id]})")
            refuse(nm, st, "unsupported raise")
        if isinstance(st, (ast.Assign, ast.AnnAssign)) and st.value is not None:
            tg = st.targets[0] if isinstance(st, ast.Assign) and len(st.targets) == 1 else getattr(st, "target", None)
            b = BINDERS.get(self.canon(st.value))
            if b and isinstance(tg, (ast.Name, ast.Tuple)):
                self.bind(tg.elts if isinstance(tg, ast.Tuple) else [tg], b[0], st)
                return self.atom(b[1])
            plain = f"{self.canon(tg)} = {self.canon(st.value)}" if tg is not None else ""
            if plain in cfg["stmts"]:
                return self.atom(cfg["stmts"][plain])
            refuse(nm, st, "unsupported assignment")
        if isinstance(st, ast.AugAssign) or (isinstance(st, ast.Expr) and isinstance(st.value, ast.Call)):
            c = self.canon(st)
            if c in cfg["stmts"]:
                return self.atom(cfg["stmts"][c])
            if c in cfg["calls"]:
                callee = cfg["pre"] + cfg["calls"][c][0].lstrip("_") + "_entry"
                if self.defs.get(callee) is None:
                    refuse(nm, st, "call of a method that is not translated yet (recursion?)")
                return self.atom(f"(SCall {callee} {cfg['calls'][c][1]})")
            refuse(nm, st, "unsupported statement")
        if isinstance(st, ast.Expr) and isinstance(st.value, ast.Await):
            if self.is_ckif(st):
                if st is not self.first:
                    refuse(nm, st, "checkpoint_if_cancelled() is accepted only as the first statement of the method "
                                   "(it may yield and then return: a test before it would be stale, F53)")
                return self.atom("SCkIf")
            return self.suspend(st, st.value, None, K, fl)
        if isinstance(st, ast.If):
            c = self.cond(st.test)
            a = self.block(st.body, K, fl)
            b = self.block(st.orelse, K, fl) if st.orelse else "SSkip"
            return f"(SIf {c} {a} {b})"
        if isinstance(st, ast.Try) and len(st.body) == 1 and len(st.handlers) == 1 and not st.finalbody \
                and st.handlers[0].name is None and st.handlers[0].type is not None:
            b, h = st.body[0], st.handlers[0]
            ht = ast.unparse(h.type)
            if isinstance(b, ast.Expr) and isinstance(b.value, ast.Await):
                if ht in ("CancelledError", "asyncio.CancelledError", "BaseException") and not st.orelse:
                    return self.suspend(st, b.value, h.body, K, fl)
            elif ht in EXN:
                body = self.stmt(b, [], dict(fl, sync=True))
                hb = self.block(h.body, K, dict(fl, handler=False))
                eb = self.block(st.orelse, K, fl) if st.orelse else "SSkip"
                return f"(STry {body} {EXN[ht]} {hb} {eb})"
            refuse(nm, st, "unsupported try statement")
        if isinstance(st, ast.While) and not st.orelse and not fl["loop"]:
            qs = [q for src, q in cfg["queues"].items() if src in self.canon(st.test)]
            if len(qs) == 1:
                c = self.cond(st.test)
                return f"(SWhile {qs[0]} {c} {self.block(st.body, [], dict(fl, loop=True, sync=True))})"
        refuse(nm, st, "unsupported statement")

    def run(self):
        entry = self.block(self.fn.body, [], {"loop": False, "handler": False, "sync": False})
        self.defs[f"{self.name}_entry"] = entry
        want = self.cfg["points"].get(self.fn.name, set())
        if set(self.points) != want:
            raise Refuse(f"{self.name}: await points found {sorted(self.points)}, expected {sorted(want)}")
        return self


def expr(cfg, getters, n, where):
    c = ast.unparse(n)
    if c in EXPRS:
        return EXPRS[c]
    if isinstance(n, ast.BinOp) and isinstance(n.op, ast.Sub):
        return f"(XSub {expr(cfg, getters, n.left, where)} {expr(cfg, getters, n.right, where)})"
    if isinstance(n, ast.Attribute) and isinstance(n.value, ast.Name) and n.value.id == "self" and n.attr in getters:
        return getters[n.attr]
    refuse(where, n, "unsupported expression")


def translate(mod, cfg):
    classes = [n for n in mod.body if isinstance(n, ast.ClassDef) and n.name == cfg["cls"]]
    if len(classes) != 1:
        raise Refuse(f"expected exactly one class {cfg['cls']} in {SRC}, found {len(classes)}")
    fns, props = {}, {}
    for n in classes[0].body:
        if isinstance(n, (ast.FunctionDef, ast.AsyncFunctionDef)):
            deco = [ast.unparse(d) for d in n.decorator_list]
            if n.name not in cfg["allowed"]:
                refuse(cfg["cls"], n, "unexpected method")
            if deco == ["property"] and n.name not in props:
                props[n.name] = n
            elif (deco == [] or deco == [f"{n.name}.setter"]) and n.name not in fns:
                fns[n.name] = n
            else:
                refuse(cfg["cls"], n, "duplicate or decorated method")
    got = set()
    for st in fns["__init__"].body if "__init__" in fns else []:
        if isinstance(st, ast.AnnAssign) and st.value is not None:
            got.add(f"{ast.unparse(st.target)} = {ast.unparse(st.value)}")
        elif not is_doc(st):
            got.add(ast.unparse(st))
    if got != cfg["init"]:
        raise Refuse(f"{cfg['cls']}.__init__: expected exactly {sorted(cfg['init'])}, found {sorted(got)}")
    if "__new__" in fns and ast.unparse(fns["__new__"].body[-1]) != "return object.__new__(cls)":
        refuse(cfg["cls"], fns["__new__"], "unexpected __new__")
    for name, text in cfg["deleg"].items():
        body = [s for s in fns[name].body if not is_doc(s)] if name in fns else []
        if len(body) != 1 or ast.unparse(body[0]) != text:
            raise Refuse(f"{cfg['cls']}.{name}: expected the single statement `{text}`")
    defs, atoms = {}, {}
    for name, params, is_async in cfg["order"]:
        if name not in fns or isinstance(fns[name], ast.AsyncFunctionDef) != is_async:
            raise Refuse(f"class {cfg['cls']}: method {name} missing or of the wrong kind (async={is_async})")
        atoms[name] = Method(cfg, name, fns[name], params, is_async, defs).run().atoms
    getters = {}
    for g in cfg["getters"]:
        body = [s for s in props[g].body if not is_doc(s)] if g in props else []
        if len(body) != 1 or not isinstance(body[0], ast.Return) or body[0].value is None:
            raise Refuse(f"{cfg['cls']}.{g}: expected a property with a single `return <expr>`")
        getters[g] = expr(cfg, getters, body[0].value, g)
    body = [s for s in fns["statistics"].body if not is_doc(s)] if "statistics" in fns else []
    if len(body) != 1 or not isinstance(body[0], ast.Return) or not isinstance(body[0].value, ast.Call) \
            or ast.unparse(body[0].value.func) != cfg["stats"] or body[0].value.keywords:
        raise Refuse(f"{cfg['cls']}.statistics: expected `return {cfg['stats']}(<exprs>)`")
    stats = [expr(cfg, getters, a, "statistics") for a in body[0].value.args]
    return defs, getters, stats, atoms


def emit(cfg, defs, getters, stats):
    pre = cfg["pre"]
    lines = [f"(* GENERATED by tools/translate_prims.py from class {cfg['cls']} in /repo's source on every run of "
             "bin/check C10. *)", f"From AV Require Import Base C10Defs PrimImp {cfg['imp']}.", ""]
    for name, term in defs.items():
        lines += [f"Definition {name} : stmt :=", f"  {term}.", ""]
    for g, term in getters.items():
        lines += [f"Definition {pre}{g}_getter : expr := {term}.", ""]
    lines += [f"Definition {pre}statistics_args : list expr := [{'; '.join(stats)}].", "",
              f"Definition {pre}prog : prog :=", f"  {cfg['prog']}.", ""]
    return "\n".join(lines)


def main():
    mod = ast.parse((REPO / SRC).read_text())
    rc = 0
    for cfg in (SEM, LIM):
        out = OUTDIR / cfg["out"]
        try:
            try:
                import guard
                guard.check("_backends/_asyncio.py", mod, [cfg["cls"]])
            except guard.GuardError as e:
                raise Refuse(str(e))
            defs, getters, stats, atoms = translate(mod, cfg)
        except Refuse as e:
            msg = str(e).replace('"', "'")
            out.write_text("(* translator refused *)\nFrom AV Require Import Base PrimImp.\n"
                           f'Definition refused : False := "translate_prims REFUSED: {msg}".\n')
            print(f"translate_prims: REFUSED ({cfg['cls']}):", e)
            rc = 2
            continue
        text = emit(cfg, defs, getters, stats)
        if not out.exists() or out.read_text() != text:
            out.write_text(text)
        print(f"translate_prims: ok {cfg['cls']} segments=" + ",".join(defs) + " atoms="
              + str({k: len(v) for k, v in atoms.items()}))
        for name, term in list(defs.items()) + [(cfg["pre"] + g + "_getter", t) for g, t in getters.items()]:
            print(f"  {name} := {term}")
    return rc


if __name__ == "__main__":
    sys.exit(main())
