#!/usr/bin/env python3
"""Tie T for C16: translate the receive methods of BufferedByteReceiveStream into the language of coq/pure/BufImp.v.

Reads  $VERIF_REPO/src/anyio/streams/buffered.py  (VERIF_REPO defaults to /repo) with `ast` and regenerates
coq/pure/BufGen.v: gen_receive, gen_exactly, gen_until : BufImp.stmt and gen_progs.  coq/pure/BufGenEq.v then proves that
interpreting them IS Buffered.step.

FAIL CLOSED.  Locals are renamed to canonical slots by the expression that binds them; after that every condition,
every simple statement and every return / raise must be, as `ast.unparse` prints it, literally a key of the tables
below; the control structure must be built from `if/elif/else`, `while True:`, `while not chunk:` and
`try: <fetches> except EndOfStream as exc: raise IncompleteRead from exc`.  Anything else:
  (a) prints `translate_buffered: REFUSED: <method>: line N: <construct>`,
  (b) replaces BufGen.v by a file that does not compile and carries the message,
  (c) exits with status 2.
feed_data (`self._buffer.extend(data)`), the `buffer` property, aclose, extra_attributes, the `_buffer` field, the set of
methods of the class, and the delegating classes BufferedByteStream / BufferedConnectable are checked literally.

Slots: parameters `max_bytes` (receive, receive_until) / `nbytes` -> PAR, `delimiter` -> DELIM; a local bound by an
await of the wrapped stream's receive() or by `b''` -> chunk; a local bound by a slice of self._buffer (optionally
inside bytes(..)) -> val (the map name -> slot follows the bindings in program order, so one Python name may sit in
different slots in different branches); the integer locals keep their names (remaining, offset, searched_size, index, delimiter_size)
and must be bound by the expressions of the ATOMS table.
"""
from __future__ import annotations

import ast
import os
import sys
from pathlib import Path

REPO = Path(os.environ.get("VERIF_REPO", "/repo"))
SRC = REPO / "src" / "anyio" / "streams" / "buffered.py"
OUT = Path(os.environ["VERIF_GEN_OUT"]) if os.environ.get("VERIF_GEN_OUT") else Path(__file__).resolve().parent.parent / "coq" / "pure" / "BufGen.v"


class Refused(Exception):
    pass


def refuse(fn, node, what):
    raise Refused(f"{fn}: line {getattr(node, 'lineno', '?')}: {what}")


CONDS = {
    "PAR < 1": "CParLt1",
    "PAR < 0": "CParNeg",
    "self._closed": "CClosed",
    "self._buffer": "CBuf",
    "isinstance(self.receive_stream, ByteReceiveStream)": "CIsByte",
    "len(chunk) > PAR": "CChunkLongerPar",
    "remaining <= 0": "CRemainingLe0",
    "index >= 0": "CIndexGe0",
    "len(self._buffer) >= PAR": "CBufLenGePar",
    "len(self._buffer) >= searched_size": "CBufLenGeSearched",
}

ATOMS = {
    "val = bytes(self._buffer[:PAR])": "ASetValBufPrefix IPar",
    "val = self._buffer[:PAR]": "ASetValBufPrefix IPar",
    "val = self._buffer[:index]": "ASetValBufPrefix IIndex",
    "val = bytes(self._buffer[:index])": "ASetValBufPrefix IIndex",
    "del self._buffer[:PAR]": "ADelBufPrefix IPar",
    "del self._buffer[:index + len(DELIM)]": "ADelBufPrefix IIndexPlusDelim",
    "del self._buffer[:index + len(DELIM):]": "ADelBufPrefix IIndexPlusDelim",
    "del self._buffer[:index + delimiter_size]": "ADelBufPrefix IIndexPlusDelim",
    "remaining = PAR - len(self._buffer)": "ASetRemaining",
    "chunk = b''": "ASetChunkEmpty",
    "self._buffer[:0] = chunk[PAR:]": "ABufPrependChunkSuffix",
    "self._buffer.extend(chunk)": "ABufExtendChunk",
    "delimiter_size = len(DELIM)": "ASetDsize",
    "offset = 0": "ASetOffset0",
    "index = self._buffer.find(DELIM, offset)": "ASetIndexFind",
    "searched_size = len(self._buffer)": "ASetSearched",
    "offset = max(searched_size - delimiter_size + 1, 0)": "ASetOffsetMax",
}

FETCH = {
    "await self.receive_stream.receive(PAR)": "FPar",
    "await self.receive_stream.receive(remaining)": "FRemaining",
    "await self.receive_stream.receive()": "FNone",
}

RETURNS = {
    "return val": "RVal",
    "return bytes(val)": "RVal",
    "return chunk": "RChunk",
    "return chunk[:PAR]": "RChunkPrefixPar",
}

RAISES = {
    "ValueError": "XValueError",
    "ClosedResourceError": "XClosed",
    "DelimiterNotFound": "XNotFound",
}


class Renamer(ast.NodeTransformer):
    def __init__(self, mapping):
        self.mapping = mapping

    def visit_Name(self, node):
        if node.id in self.mapping:
            return ast.copy_location(ast.Name(id=self.mapping[node.id], ctx=node.ctx), node)
        return node


def is_buffer_slice(n) -> bool:
    if isinstance(n, ast.Call) and isinstance(n.func, ast.Name) and n.func.id == "bytes" and len(n.args) == 1 and not n.keywords:
        n = n.args[0]
    return (isinstance(n, ast.Subscript) and isinstance(n.value, ast.Attribute) and n.value.attr == "_buffer"
            and isinstance(n.value.value, ast.Name) and n.value.value.id == "self" and isinstance(n.slice, ast.Slice))


def is_wrapped_receive(n) -> bool:
    return (isinstance(n, ast.Await) and isinstance(n.value, ast.Call) and isinstance(n.value.func, ast.Attribute)
            and n.value.func.attr == "receive" and ast.unparse(n.value.func.value) == "self.receive_stream")


def slot_of_binding(name: str, v) -> str:
    """the canonical slot of a local, decided by the expression that binds it"""
    if is_wrapped_receive(v) or (isinstance(v, ast.Constant) and v.value == b""):
        return "chunk"
    if is_buffer_slice(v):
        return "val"
    return name                    # an integer local: keeps its name, its binding must be an entry of ATOMS


class Method:
    def __init__(self, fn: ast.AsyncFunctionDef, par: str, delim: str | None):
        self.fn, self.name = fn, fn.name
        # name -> slot, updated at every binding in program order; the branches of an `if` start from the same map and
        # a name they leave in different slots becomes unusable afterwards
        self.map = {par: "PAR"}
        if delim:
            self.map[delim] = "DELIM"
        self.par_names = set(self.map)
        self.slot_owner: dict[str, str] = {}
        self.val_is_bytes = False

    def R(self, node, what):
        refuse(self.name, node, what)

    GLOBALS = {"self", "len", "bytes", "max", "isinstance", "ByteReceiveStream", "ValueError", "ClosedResourceError",
               "DelimiterNotFound", "EndOfStream", "IncompleteRead"}

    def canon(self, node) -> str:
        import copy
        # every name that is READ must be a parameter or a local bound earlier on this path (Python would raise
        # UnboundLocalError / NameError; the slot names themselves are ordinary identifiers and must not leak through)
        for n in ast.walk(node):
            if isinstance(n, ast.Name) and isinstance(n.ctx, ast.Load) and n.id not in self.map and n.id not in self.GLOBALS:
                self.R(n, f"name `{n.id}` is read but not bound on this path")
            if isinstance(n, ast.Name) and isinstance(n.ctx, ast.Load) and str(self.map.get(n.id, "")).startswith("<"):
                self.R(n, f"name `{n.id}`: {self.map[n.id]}")
        return ast.unparse(Renamer(self.map).visit(copy.deepcopy(node)))

    def bind(self, s):
        """an assignment to a plain name moves that name to the slot its value decides (before the statement is read)"""
        if isinstance(s, ast.Assign) and len(s.targets) == 1 and isinstance(s.targets[0], ast.Name):
            value_txt = self.canon(s.value)           # the value is read with the map as it was
            nm, slot = s.targets[0].id, slot_of_binding(s.targets[0].id, s.value)
            # one Python name per slot and method: two names sharing a slot would be indistinguishable afterwards
            # (`while not chunk: data = await ...` must not look like `while not chunk: chunk = await ...`)
            owner = self.slot_owner.setdefault(slot, nm)
            if owner != nm or nm in (self.par_names):
                self.R(s, f"slot `{slot}` is bound through two different names (`{owner}`, `{nm}`) or a parameter is rebound")
            if slot == "val":
                self.val_is_bytes = value_txt.startswith("bytes(")
            self.map[nm] = slot
            return f"{slot} = {value_txt}"
        return None

    def branches(self, fa, fb):
        """translate two alternative continuations from the same map; merge the maps afterwards"""
        m0 = dict(self.map)
        a = fa()
        ma = self.map
        self.map = dict(m0)
        b = fb()
        mb = self.map
        merged = {}
        for k in set(ma) | set(mb):
            merged[k] = ma.get(k) if ma.get(k) == mb.get(k) else f"<{k}: bound differently in the two branches>"
        self.map = merged
        return a, b

    def cond(self, n) -> str:
        k = self.canon(n)
        if k not in CONDS:
            self.R(n, f"condition outside the table: {k}")
        return CONDS[k]

    # ---- loop-free code ----
    def block(self, stmts, eos: str) -> str:
        if not stmts:
            return "BSkip"
        parts = [self.bstmt(s, eos) for s in stmts]
        out = parts[-1]
        for p in reversed(parts[:-1]):
            out = f"(BSeq {p} {out})"
        return out

    def bstmt(self, s, eos: str) -> str:
        if isinstance(s, ast.Expr) and isinstance(s.value, ast.Constant) and isinstance(s.value.value, str):
            return "BSkip"
        if isinstance(s, ast.If):
            c = self.cond(s.test)
            a, b = self.branches(lambda: self.block(s.body, eos), lambda: self.block(s.orelse, eos))
            # two branches are dead in the MODEL (no aclose(), no second reader): the equality proofs cannot see them, so
            # their text is fixed here
            if c == "CClosed" and (a, b) != ("(BRaise XClosed)", "BSkip"):
                self.R(s, "`if self._closed:` must be followed by `raise ClosedResourceError` only")
            if c == "CBufLenGeSearched" and (a, b) != ("(BAtom ASetOffsetMax)", "(BAtom ASetOffset0)"):
                self.R(s, "the branches of `if len(self._buffer) >= searched_size:` must be the offset computation and `offset = 0`")
            return f"(BIf {c} {a} {b})"
        if isinstance(s, ast.Return):
            if s.value is not None and is_wrapped_receive(s.value):
                k = self.canon(s.value)
                if k not in FETCH:
                    self.R(s, f"fetch outside the table: {k}")
                if eos != "EPropagate":
                    self.R(s, "`return await ...receive()` inside an EndOfStream handler")
                return f"(BReturnFetch {FETCH[k]})"
            k = self.canon(s)
            if k not in RETURNS:
                self.R(s, f"return outside the table: {k}")
            if k == "return val" and not self.val_is_bytes:
                self.R(s, "`return <slice of the bytearray>` without bytes(): the method would return a bytearray")
            return f"(BReturn {RETURNS[k]})"
        if isinstance(s, ast.Raise):
            e = s.exc
            nm = e.func.id if isinstance(e, ast.Call) and isinstance(e.func, ast.Name) else (e.id if isinstance(e, ast.Name) else None)
            if nm not in RAISES or s.cause is not None:
                self.R(s, f"raise outside the table: {ast.unparse(s)}")
            return f"(BRaise {RAISES[nm]})"
        if isinstance(s, ast.Assign) and len(s.targets) == 1 and is_wrapped_receive(s.value):
            k = self.canon(s.value)
            if not isinstance(s.targets[0], ast.Name) or k not in FETCH:
                self.R(s, f"fetch outside the table: {ast.unparse(s.targets[0])} = {k}")
            self.bind(s)
            return f"(BFetch {FETCH[k]} {eos})"
        if isinstance(s, ast.Try):
            # try: <code whose fetches raise IncompleteRead at the end of the stream> except EndOfStream as exc: raise IncompleteRead from exc
            if s.orelse or s.finalbody or len(s.handlers) != 1:
                self.R(s, "try statement outside the accepted form")
            h = s.handlers[0]
            ok = (isinstance(h.type, ast.Name) and h.type.id == "EndOfStream" and len(h.body) == 1
                  and isinstance(h.body[0], ast.Raise) and ast.unparse(h.body[0].exc) in ("IncompleteRead", "IncompleteRead()")
                  and (h.body[0].cause is None or (isinstance(h.body[0].cause, ast.Name) and h.body[0].cause.id == h.name)))
            if not ok or eos != "EPropagate":
                self.R(s, f"exception handler outside the accepted form: {ast.unparse(h)[:80]}")
            # only fetches and the tests that choose between them may sit inside the try: nothing else there can raise
            for sub in ast.walk(ast.Module(body=s.body, type_ignores=[])):
                if isinstance(sub, (ast.Return, ast.Raise, ast.While, ast.Try, ast.Delete, ast.AugAssign)):
                    self.R(sub, "statement other than a fetch inside `try ... except EndOfStream`")
                if isinstance(sub, ast.Assign) and not is_wrapped_receive(sub.value):
                    self.R(sub, "statement other than a fetch inside `try ... except EndOfStream`")
            return self.block(s.body, "EIncomplete")
        if isinstance(s, (ast.Assign, ast.Delete, ast.Expr)):
            k = self.bind(s) or self.canon(s)
            if k not in ATOMS:
                self.R(s, f"statement outside the table: {k}")
            return f"(BAtom ({ATOMS[k]}))" if " " in ATOMS[k] else f"(BAtom {ATOMS[k]})"
        self.R(s, f"statement form outside the grammar: {type(s).__name__}")

    # ---- code with loops ----
    @staticmethod
    def has_loop(stmts) -> bool:
        return any(isinstance(n, ast.While) for s in stmts for n in ast.walk(s))

    def stmts(self, body) -> str:
        parts = [self.sstmt(s) for s in body]
        if not parts:
            return "(SBlock BSkip)"
        out = parts[-1]
        for p in reversed(parts[:-1]):
            out = f"(SSeq {p} {out})"
        return out

    def sstmt(self, s) -> str:
        if isinstance(s, ast.While):
            if s.orelse:
                self.R(s, "while ... else")
            if self.has_loop(s.body):
                self.R(s, "nested loops")
            t = ast.unparse(s.test)
            if t == "True":
                before = dict(self.map)
                body = self.block(s.body, 'EPropagate')
                for k_, v_ in before.items():
                    if self.map.get(k_) != v_:
                        self.R(s, f"name `{k_}` changes its slot inside the loop")
                return f"(SWhileTrue {body})"
            if self.canon(s.test) == "not chunk":
                before = dict(self.map)
                body = self.block(s.body, 'EPropagate')
                for k_, v_ in before.items():
                    if self.map.get(k_) != v_:
                        self.R(s, f"name `{k_}` changes its slot inside the loop")
                return f"(SWhileNotChunk {body})"
            self.R(s, f"loop condition outside the grammar: {t}")
        if isinstance(s, ast.If) and (self.has_loop(s.body) or self.has_loop(s.orelse)):
            c = self.cond(s.test)
            a, b = self.branches(lambda: self.stmts(s.body), lambda: self.stmts(s.orelse))
            return f"(SIf {c} {a} {b})"
        return f"(SBlock {self.bstmt(s, 'EPropagate')})"

    def translate(self) -> str:
        body = list(self.fn.body)
        if body and isinstance(body[0], ast.Expr) and isinstance(body[0].value, ast.Constant) and isinstance(body[0].value.value, str):
            body = body[1:]
        return self.stmts(body)


def literal(cls, name, want: str):
    fn = next((n for n in cls.body if isinstance(n, (ast.FunctionDef, ast.AsyncFunctionDef)) and n.name == name), None)
    if fn is None:
        refuse(name, cls, "method missing")
    body = [s for s in fn.body if not (isinstance(s, ast.Expr) and isinstance(s.value, ast.Constant) and isinstance(s.value.value, str))]
    got = "; ".join(ast.unparse(s) for s in body)
    if got != want:
        refuse(name, fn, f"body differs from the checked literal: {got[:120]}")


# everything in the module that is NOT a method body: checked literally (imports decide what `EndOfStream`,
# `ByteReceiveStream` ... mean; a module-level or class-level statement can rebind a method; a decorator can wrap one)
MODULE_LEVEL = [
    "from __future__ import annotations",
    "__all__ = ('BufferedByteReceiveStream', 'BufferedByteStream', 'BufferedConnectable')",
    "import sys",
    "from collections.abc import Callable, Iterable, Mapping",
    "from dataclasses import dataclass, field",
    "from typing import Any, SupportsIndex",
    "from .. import ClosedResourceError, DelimiterNotFound, EndOfStream, IncompleteRead",
    "from ..abc import AnyByteReceiveStream, AnyByteStream, AnyByteStreamConnectable, ByteReceiveStream, ByteStream, ByteStreamConnectable",
    "if sys.version_info >= (3, 12):\n    from typing import override\nelse:\n    from typing_extensions import override",
]
# class -> (decorators, bases, class-level statements other than defs and the docstring, {method: (decorators, params, defaults)})
SKELETON = {
    "BufferedByteReceiveStream": (["dataclass(eq=False)"], ["ByteReceiveStream"],
                                  ["receive_stream: AnyByteReceiveStream",
                                   "_buffer: bytearray = field(init=False, default_factory=bytearray)",
                                   "_closed: bool = field(init=False, default=False)"],
                                  {"aclose": ([], ["self"], []), "buffer": (["property"], ["self"], []),
                                   "extra_attributes": (["property"], ["self"], []), "feed_data": ([], ["self", "data"], []),
                                   "receive": ([], ["self", None], ["65536"]), "receive_exactly": ([], ["self", None], []),
                                   "receive_until": ([], ["self", None, None], [])}),
    "BufferedByteStream": ([], ["BufferedByteReceiveStream", "ByteStream"], [],
                           {"__init__": ([], ["self", "stream"], []), "send_eof": (["override"], ["self"], []),
                            "send": (["override"], ["self", "item"], [])}),
    "BufferedConnectable": ([], ["ByteStreamConnectable"], [],
                            {"__init__": ([], ["self", "connectable"], []), "connect": (["override"], ["self"], [])}),
}


def check_skeleton(mod):
    got = [ast.unparse(n) for n in mod.body if not isinstance(n, ast.ClassDef)
           and not (isinstance(n, ast.Expr) and isinstance(n.value, ast.Constant) and isinstance(n.value.value, str))]
    if got != MODULE_LEVEL:
        diff = [g for g in got if g not in MODULE_LEVEL] + [f"(missing) {w}" for w in MODULE_LEVEL if w not in got]
        refuse("module", mod, f"module-level statements differ from the checked literal: {diff[:3]}")
    classes = [n for n in mod.body if isinstance(n, ast.ClassDef)]
    if [c.name for c in classes] != list(SKELETON):
        refuse("module", mod, f"classes differ: {[c.name for c in classes]}")
    for c in classes:
        decos, bases, stmts, methods = SKELETON[c.name]
        if [ast.unparse(d) for d in c.decorator_list] != decos or [ast.unparse(b) for b in c.bases] != bases or c.keywords:
            refuse(c.name, c, "class decorators / bases differ")
        other = [ast.unparse(x) for x in c.body if not isinstance(x, (ast.FunctionDef, ast.AsyncFunctionDef))
                 and not (isinstance(x, ast.Expr) and isinstance(x.value, ast.Constant) and isinstance(x.value.value, str))]
        if other != stmts:
            refuse(c.name, c, f"class-level statements differ: {other}")
        defs = [x for x in c.body if isinstance(x, (ast.FunctionDef, ast.AsyncFunctionDef))]
        if sorted(d.name for d in defs) != sorted(methods):
            refuse(c.name, c, f"set of methods differs: {sorted(d.name for d in defs)}")
        for d in defs:
            wd, wparams, wdefaults = methods[d.name]
            params = [a.arg for a in d.args.posonlyargs + d.args.args]
            ok = ([ast.unparse(x) for x in d.decorator_list] == wd and len(params) == len(wparams)
                  and all(w is None or w == g for w, g in zip(wparams, params))
                  and [ast.unparse(x) for x in d.args.defaults] == wdefaults
                  and not d.args.vararg and not d.args.kwarg and not d.args.kwonlyargs)
            if not ok:
                refuse(f"{c.name}.{d.name}", d, f"decorators / signature differ: {[ast.unparse(x) for x in d.decorator_list]} {params}")


def generate() -> str:
    mod = ast.parse(SRC.read_text())
    check_skeleton(mod)
    cls = next((n for n in mod.body if isinstance(n, ast.ClassDef) and n.name == "BufferedByteReceiveStream"), None)
    if cls is None:
        refuse("module", mod, "class BufferedByteReceiveStream missing")
    literal(cls, "feed_data", "self._buffer.extend(data)")
    literal(cls, "buffer", "return bytes(self._buffer)")
    literal(cls, "aclose", "await self.receive_stream.aclose(); self._closed = True")
    literal(cls, "extra_attributes", "return self.receive_stream.extra_attributes")
    # the full-duplex wrapper and the connectable add nothing but delegation: checked literally, so that the receive side
    # of a BufferedByteStream IS the class translated above
    for cname, bases, want in (
            ("BufferedByteStream", "BufferedByteReceiveStream, ByteStream",
             {"__init__": "super().__init__(stream); self._stream = stream", "send_eof": "await self._stream.send_eof()",
              "send": "await self._stream.send(item)"}),
            ("BufferedConnectable", "ByteStreamConnectable",
             {"__init__": "self.connectable = connectable",
              "connect": "stream = await self.connectable.connect(); return BufferedByteStream(stream)"})):
        c2 = next((n for n in mod.body if isinstance(n, ast.ClassDef) and n.name == cname), None)
        if c2 is None:
            refuse("module", mod, f"class {cname} missing")
        if ", ".join(ast.unparse(b) for b in c2.bases) != bases:
            refuse(cname, c2, f"bases differ: {[ast.unparse(b) for b in c2.bases]}")
        names = sorted(n.name for n in c2.body if isinstance(n, (ast.FunctionDef, ast.AsyncFunctionDef)))
        if names != sorted(want):
            refuse(cname, c2, f"set of methods differs: {names}")
        for mname, body in want.items():
            literal(c2, mname, body)

    def get(name):
        fn = next((n for n in cls.body if isinstance(n, ast.AsyncFunctionDef) and n.name == name), None)
        if fn is None:
            refuse(name, cls, "async method missing")
        return fn

    out = {}
    fn = get("receive")
    a = [x.arg for x in fn.args.args]
    if len(a) != 2 or ast.unparse(fn.args.defaults[0]) != "65536":
        refuse("receive", fn, "signature")
    out["gen_receive"] = Method(fn, a[1], None).translate()
    if "(SBlock (BIf CClosed (BRaise XClosed) BSkip))" not in out["gen_receive"]:
        refuse("receive", fn, "the `if self._closed: raise ClosedResourceError` test is missing (dead in the model, fixed here)")
    fn = get("receive_exactly")
    a = [x.arg for x in fn.args.args]
    if len(a) != 2 or fn.args.defaults:
        refuse("receive_exactly", fn, "signature")
    out["gen_exactly"] = Method(fn, a[1], None).translate()
    fn = get("receive_until")
    a = [x.arg for x in fn.args.args]
    if len(a) != 3 or fn.args.defaults:
        refuse("receive_until", fn, "signature")
    out["gen_until"] = Method(fn, a[2], a[1]).translate()
    return out


HEADER = "(* GENERATED by tools/translate_buffered.py from src/anyio/streams/buffered.py - do not edit *)\nFrom AV Require Import Base Buffered BufImp.\n\n"


def main() -> int:
    try:
        progs = generate()
    except Refused as e:
        msg = f"translate_buffered: REFUSED: {e}"
        print(msg)
        OUT.write_text(HEADER + f"(* {msg.replace('*)', '* )')} *)\nDefinition gen_progs : progs := translator_refused.\n")
        return 2
    text = HEADER
    for k in ("gen_receive", "gen_exactly", "gen_until"):
        text += f"Definition {k} : stmt :=\n  {progs[k]}.\n\n"
    text += "Definition gen_progs : progs := mkprogs gen_receive gen_exactly gen_until.\n"
    if not OUT.exists() or OUT.read_text() != text:
        OUT.write_text(text)
    print(f"translate_buffered: ok BufferedByteReceiveStream segments=gen_receive,gen_exactly,gen_until source={SRC}")
    for k in ("gen_receive", "gen_exactly", "gen_until"):
        print(f"  {k} := {progs[k]}")
    return 0


if __name__ == "__main__":
    sys.exit(main())
