#!/bin/bash
# tools/seedall.sh [regex] — re-validates stored seeded changes (default: all) against the current /repo HEAD, one at a
# time (checks with different VERIF_REPO share generated Coq files), and regenerates seeded/README.md
cd /verif
RE=${1:-.}
for d in $(ls seeded | grep -E '^C[0-9]+_[a-z]$' | grep -E "$RE"); do
  p=${d%_*}; v=${d#*_}
  python3 tools/seedcheck.py $p $v > build/seedall_${p}_$v.log 2>&1
  echo "$d $(python3 -c "
import json;m=json.load(open('seeded/$d/meta.json'))
oc=m.get('our_checks',{})
print('applies',m.get('patch_applies'),'demo',m.get('demo_confirms'),{k:(v['exit'],len([l for l in v['lines'] if l.startswith('VIOLATION') and 'no-failing' not in l])) for k,v in oc.items()})")" >> build/seedall_summary.txt
done
python3 tools/seedtable.py >> build/seedall_summary.txt
