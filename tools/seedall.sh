#!/bin/bash
# tools/seedall.sh [jobs] — re-validates every stored seeded change against the current /repo HEAD (scratch worktrees
# under /tmp, removed afterwards) and regenerates seeded/README.md
cd /verif
J=${1:-4}
ls seeded | grep -E '^C[0-9]+_[a-z]$' | sed 's/_/ /' | xargs -P $J -L 1 sh -c 'python3 tools/seedcheck.py $0 $1 > build/seedall_$0_$1.log 2>&1'
python3 tools/seedtable.py
