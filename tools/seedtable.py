#!/usr/bin/env python3
"""tools/seedtable.py — writes seeded/README.md: one row per stored seeded change with the verdict that the
registered quick check(s) gave on the last `tools/seedcheck.py` run (taken from seeded/*/meta.json)."""
import json
from pathlib import Path

ROOT = Path('/verif/seeded')


def verdict(meta):
    if meta.get("note") or meta.get("superseded"):
        # a stored change that a later fix neutralised (seeded/<id>/superseded.txt, copied into meta.json["note"])
        return "superseded — " + (meta.get("note") or "").replace("|", "/").replace("\n", " ")[:220]
    out = []
    for cid, r in sorted(meta.get("our_checks", {}).items()):
        viol = [l for l in r["lines"] if l.startswith("VIOLATION")]
        if r["exit"] == 0 and not viol:
            out.append(f"{cid}: MISSED")
        elif viol and all("no-failing-input-found" in l for l in viol):
            out.append(f"{cid}: tie broken, no failing input found")
        else:
            what = (r.get("what") or [""])[0].replace("|", "/").replace("\n", " ")[:150]
            out.append(f"{cid}: concrete replay — {what}")
    return "; ".join(out)


def main():
    rows = []
    for d in sorted(ROOT.iterdir()):
        m = d / "meta.json"
        if not m.exists():
            continue
        meta = json.loads(m.read_text())
        notes = (meta.get("needs_to_manifest") or "").strip().splitlines()
        title = next((l.lstrip("# ").strip() for l in notes if l.strip()), "")[:140].replace("|", "/")
        rows.append((d.name, title, "yes" if meta.get("demo_confirms") else "NO",
                     "yes" if meta.get("existing_tests_pass") else "NO", verdict(meta)))
    lines = ["# Seeded changes", "",
             "Produced by independent sub-agents (property text + scratch worktree only), validated by `tools/seedcheck.py`.",
             "`_a`/`_b` = round 1, `_c`/`_d` = round 2, `_e`/`_f` = round 3 (made against the tree with all fixes of that",
             "time), `_g` = round 4 (one per property, made against the tree with the fixes up to F47).  Columns: demo fails",
             "with / passes without the change; the core existing tests still pass with it; verdict of our quick check(s) run",
             "against a scratch tree with the change.  Each verdict is the one recorded in the change's `meta.json`, obtained at",
             "the /repo commit stored there as `checked_at_repo_commit` (DESIGN.md 11.6 says which re-validation that was).",
             "`superseded` = the change was neutralised by a later `fix:` commit (reason in `seeded/<id>/superseded.txt`); it is",
             "kept for the record and is not a live seed.", "",
             "| change | what | demo confirms | tests pass | our check |", "|---|---|---|---|---|"]
    for r in rows:
        lines.append("| " + " | ".join(r) + " |")
    (ROOT / "README.md").write_text("\n".join(lines) + "\n")
    print(f"{len(rows)} changes; superseded: {[r[0] for r in rows if r[4].startswith('superseded')]}; missed: {[r[0] for r in rows if 'MISSED' in r[4]]}; tie-only: {[r[0] for r in rows if 'no failing input' in r[4] and 'concrete' not in r[4]]}")


main()
