#!/usr/bin/env python3
"""tools/seedcheck.py <Cxx> <variant> [--checks Cxx,Cyy] — validates one seeded change produced by an independent
agent (/tmp/seed_<Cxx>_out/<variant>/) and records it under /verif/seeded/<Cxx>_<variant>/:
  1. the patch applies to a scratch worktree of /repo HEAD; the package imports;
  2. the demo fails with the change and passes on the unchanged tree;
  3. a core subset of the existing test-suite still passes with the change;
  4. our registered quick check(s) are run against the scratch tree (VERIF_REPO) and their verdicts recorded.
The scratch worktree is removed afterwards.  Nothing is ever applied to /repo itself."""
import json, os, shutil, subprocess, sys, time
from pathlib import Path

VERIF = Path('/verif')
CORE_TESTS = ["tests/test_synchronization.py", "tests/test_taskgroups.py", "tests/streams/test_memory.py",
              "tests/streams/test_buffered.py", "tests/streams/test_text.py", "tests/test_functools.py",
              "tests/test_itertools.py", "tests/test_futures.py", "tests/test_lowlevel.py", "tests/test_to_thread.py",
              "tests/test_from_thread.py"]

def sh(cmd, **kw):
    p = subprocess.run(cmd, shell=True, stdout=subprocess.PIPE, stderr=subprocess.STDOUT, text=True, **kw)
    return p.returncode, p.stdout

def main():
    pid, var = sys.argv[1], sys.argv[2]
    checks = [pid]
    if "--checks" in sys.argv:
        checks = sys.argv[sys.argv.index("--checks") + 1].split(",")
    dst = VERIF / "seeded" / f"{pid}_{var}"
    src = Path(f"/tmp/seed_{pid}_out/{var}")
    if not src.exists() or (dst / "meta.json").exists():
        src = dst                       # re-validation of a stored change against the current HEAD
    wt = Path(f"/tmp/sc_{pid}_{var}")
    if wt.exists():
        sh(f"git -C /repo worktree remove --force {wt}")
    rc, out = sh(f"git -C /repo worktree add -q --detach {wt} HEAD")
    assert rc == 0, out
    meta = {"property": pid, "variant": var, "checked_at_repo_commit": sh("git -C /repo rev-parse --short HEAD")[1].strip()}
    try:
        # the stored patch was made against an older commit: context lines may match elsewhere in today's file
        # (e.g. Lock vs Semaphore), so it is applied where it was made and then carried to HEAD by a 3-way cherry-pick
        old_meta = json.loads((dst / "meta.json").read_text()) if (dst / "meta.json").exists() else {}
        orig = old_meta.get("orig_commit") or old_meta.get("checked_at_repo_commit")
        meta["orig_commit"] = orig or meta["checked_at_repo_commit"]
        head = sh("git -C /repo rev-parse HEAD")[1].strip()
        if old_meta.get("note"):
            meta["note"] = old_meta["note"]
        if (src / "superseded.txt").exists() and not (src / "patch_head.diff").exists():
            # the mechanism of this change no longer exists on HEAD (a later fix removed the code path): kept for the
            # record with its last verdict, not re-validated
            meta = dict(old_meta, checked_at_repo_commit=meta["checked_at_repo_commit"], superseded=True,
                        note=(src / "superseded.txt").read_text().strip())
            (dst / "meta.json").write_text(json.dumps(meta, indent=1))
            print(json.dumps({"superseded": meta["note"]}, indent=1)); return 0
        if (src / "patch_head.diff").exists():
            patch = src / "patch_head.diff"
            rc, out = sh(f"git -C {wt} apply {patch}")
        else:
            patch = src / "patch.diff"
            if orig and sh(f"git -C /repo merge-base --is-ancestor {orig} {head}")[0] == 0 and not head.startswith(orig):
                rc, out = sh(f"git -C {wt} checkout -q --detach {orig} && git -C {wt} apply {patch} && "
                             f"git -C {wt} -c user.name=seed -c user.email=seed@x commit -qam seed")
                seed_commit = sh(f"git -C {wt} rev-parse HEAD")[1].strip()
                sh(f"git -C {wt} checkout -q --detach {head}")
                sh(f"git -C {wt} -c user.name=seed -c user.email=seed@x cherry-pick -n {seed_commit}")
                # cherry-pick -n of the commit made above (referenced through the reflog of the detached HEAD)
                rc, out = sh(f"git -C {wt} status --porcelain")
                conflict = any(l[:2] in ("UU", "AA", "DU", "UD") for l in out.splitlines())
                changed = any(l.strip() for l in out.splitlines())
                rc = 1 if (conflict or not changed) else 0
                if rc == 0:
                    sh(f"git -C {wt} reset -q")        # keep the change in the working tree only
                    (dst / "patch_ported.diff").write_text(sh(f"git -C {wt} diff")[1])
                out = "cherry-pick conflict or empty result: " + out
            else:
                rc, out = sh(f"git -C {wt} apply {patch}")
        meta["patch_file"] = patch.name
        meta["patch_applies"] = rc == 0
        if rc != 0:
            meta["apply_error"] = out[-500:]
            print(json.dumps(meta, indent=1)); return 1
        demo = next((p for p in [src / "demo.py", src / "demo_test.py"] if p.exists()), None)
        env_m = dict(os.environ, PYTHONPATH=f"{wt}/src", PYTHONHASHSEED="0")
        env_c = dict(os.environ, PYTHONPATH="/repo/src", PYTHONHASHSEED="0")
        rc_m, out_m = sh(f"timeout 120 /venv/bin/python {demo}", env=env_m)
        rc_c, out_c = sh(f"timeout 120 /venv/bin/python {demo}", env=env_c)
        meta["demo_with_change"] = {"exit": rc_m, "tail": out_m[-400:]}
        meta["demo_on_head"] = {"exit": rc_c, "tail": out_c[-200:]}
        meta["demo_confirms"] = (rc_m != 0 and rc_c == 0)
        rc_t, out_t = sh(f"cd {wt} && PYTHONPATH={wt}/src timeout 1500 /venv/bin/python -m pytest -q -p no:cacheprovider --timeout=300 {' '.join(CORE_TESTS)} 2>&1 | tail -3")
        meta["existing_tests_with_change"] = out_t.strip().splitlines()[-1] if out_t.strip() else ""
        meta["existing_tests_pass"] = (" failed" not in meta["existing_tests_with_change"]) and (" error" not in meta["existing_tests_with_change"])
        meta["our_checks"] = {}
        for c in checks:
            t0 = time.time()
            rc_k, out_k = sh(f"cd /verif && VERIF_REPO={wt} timeout 1500 bin/check {c} --tier quick", env=dict(os.environ, VERIF_REPO=str(wt)))
            lines = [l for l in out_k.splitlines() if l.startswith(("VIOLATION", "KNOWN-FINDING", "OK "))]
            what = []
            for l in lines:
                if l.startswith("VIOLATION") and "replay=" in l:
                    rp = l.split("replay=")[1].split()[0]
                    try:
                        what.append(json.load(open(rp)).get("what", "")[:300])
                    except Exception:
                        pass
            meta["our_checks"][c] = {"exit": rc_k, "lines": ([l for l in lines if l.startswith("VIOLATION")] + [l for l in lines if not l.startswith("VIOLATION")])[:8], "what": what[:3], "wall_s": round(time.time() - t0, 1)}
        dst.mkdir(parents=True, exist_ok=True)
        for f in src.iterdir():
            if f.is_file() and src != dst:
                shutil.copy(f, dst / f.name)
        notes = (src / "notes.md").read_text() if (src / "notes.md").exists() else ""
        if not notes and (dst / "meta.json").exists():
            notes = json.loads((dst / "meta.json").read_text()).get("needs_to_manifest", "")
        meta["needs_to_manifest"] = notes[:1500]
        meta["ran"] = ["git apply patch.diff on a scratch worktree of /repo HEAD", f"demo with change / on HEAD", "core existing tests with change: " + " ".join(CORE_TESTS), "VERIF_REPO=<scratch> bin/check <id> --tier quick for: " + ",".join(checks)]
        (dst / "meta.json").write_text(json.dumps(meta, indent=1))
        print(json.dumps({k: meta[k] for k in ("demo_confirms", "existing_tests_with_change", "our_checks")}, indent=1))
    finally:
        sh(f"git -C /repo worktree remove --force {wt}")
        # evidence of the mutated run must not stay as the property's evidence
        sh("cd /verif && git checkout -- evidence 2>/dev/null")
    return 0

if __name__ == "__main__":
    sys.exit(main())
