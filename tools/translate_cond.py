#!/usr/bin/env python3
"""Tie T for C11: regenerates coq/prims/CondGen.v (terms of coq/prims/CondImp.v) from `class Event` in
$VERIF_REPO/src/anyio/_backends/_asyncio.py and `class Condition` in $VERIF_REPO/src/anyio/_core/_synchronization.py.
CondGenEq.v proves that interpreting them is what EventCond.estep / cstep (variant 0) do.  Usage: translate_cond.py [outdir]

Same engine idea as translate_prims.py (helpers imported from it): locals renamed to canonical names, atoms matched
literally against the tables below after `ast.unparse`, anything else refused (FAIL CLOSED: CondGen.v is replaced by a
file that does not type-check and carries the message; exit status 2).  Control structure accepted:
  cond  ::= ATOM | not cond | cond and cond | cond or cond
  stmt  ::= ATOM | pass | return [None] | break (in a for loop) | raise E[(...)] [from None]
          | raise                               (in the handler guarding an await: `[finally copy;] SRaise ECancelled`)
          | event = Event() | event = self._waiters.popleft()         (each local bound by one statement per method)
          | self.METHOD()                       (CALLS: an already translated synchronous method)
          | if cond: block [elif/else]          | try: STMT except E: block [else: block]   (STMT await-free)
          | for _ in range(n): block            | for event in self._waiters: block          (no await inside)
          | with CancelScope(shield=True): block                      (awaits inside are marked shielded)
          | await checkpoint_if_cancelled()     -> SCkIf
          | await self._lock.acquire() | await self.acquire()         -> SAwaitLock sh pend (may complete without
                                                                         suspending: the segment continues after it)
          | await event.wait()                  -> SSuspend AwEvent
          | try: await event.wait()  except BaseException|CancelledError: block  [finally: block]
            (the finally block is copied: into the `resumed` continuation, and - marked pend - in front of the
             handler's `raise`)
  Event: await X.checkpoint() -> SSuspend AwCheckpoint, await self._event.wait() -> SSuspend AwInner.
Continuation segments: <m>_<pt>_resumed = what follows the await (rest of the enclosing blocks, copies of finally
blocks included); <m>_<pt>_cancelled = the handler guarding it, or `SReraise` (the exception raised at the await
propagates).  __init__, the delegating methods, statistics(), wait_for() and the set of methods are checked literally.
"""
from __future__ import annotations

import ast
import copy
import os
import sys
from pathlib import Path

sys.path.insert(0, str(Path(__file__).resolve().parent))
from translate_prims import Refuse, Ren, is_doc, refuse, seq  # noqa: E402

REPO = Path(os.environ.get("VERIF_REPO", "/repo"))
OUTDIR = Path(sys.argv[1]) if len(sys.argv) > 1 else Path(__file__).resolve().parent.parent / "coq" / "prims"
EXN = {"RuntimeError": "ERuntime", "WouldBlock": "EWouldBlock", "IndexError": "EIndex", "ValueError": "EValue"}
BINDERS = {"Event()": "SNewEvent", "self._waiters.popleft()": "SPopWaiter"}
CONDS = {"self._lock.statistics().owner == get_current_task()": "CHolder",
         "self._lock.statistics().owner != get_current_task()": "(CNot CHolder)",
         "event.is_set()": "CEvIsSet", "self._waiters": "CWaitersNonEmpty", "self._lock.locked()": "CLockLocked",
         "self._event.is_set()": "CInnerIsSet"}
STMTS = {"self._lock.release()": "SLockRelease", "self._lock.acquire_nowait()": "SLockAcquireNowait",
         "self._waiters.append(event)": "SAppendWaiter", "self._waiters.remove(event)": "SRemoveWaiter",
         "self._waiters.popleft().set()": "SPopSet", "event.set()": "SEventSet",
         "self._waiters.clear()": "SClearWaiters", "self._event.set()": "SInnerSet"}
CALLS = {"self._check_acquired()": "check_acquired", "self.release()": "release"}
LOCK_AWAITS = {"self._lock.acquire()", "self.acquire()"}
COND = dict(
    cls="Condition", src="src/anyio/_core/_synchronization.py", pre="cond_",
    order=[("_check_acquired", (), False), ("release", (), False), ("acquire_nowait", (), False),
           ("acquire", (), True), ("notify", ("n",), False), ("notify_all", (), False), ("wait", (), True)],
    points={"acquire": {"lock"}, "wait": {"event", "reacq", "reacq_exc"}},
    init={"self._lock = lock or Lock()", "self._waiters = deque()"},
    literal={"__aenter__": ["await self.acquire()"], "__aexit__": ["self.release()"],
             "wait_for": ["while not (result := predicate()):\n    await self.wait()", "return result"],
             "statistics": ["return ConditionStatistics(len(self._waiters), self._lock.statistics())"]},
    allowed={"__init__", "__aenter__", "__aexit__", "_check_acquired", "acquire", "acquire_nowait", "release", "locked",
             "notify", "notify_all", "wait", "wait_for", "statistics"},
)
EVENT = dict(
    cls="Event", src="src/anyio/_backends/_asyncio.py", pre="ev_",
    order=[("set", (), False), ("wait", (), True)],
    points={"wait": {"checkpoint", "inner"}},
    init={"self._event = asyncio.Event()"},
    literal={"statistics": ["return EventStatistics(len(self._event._waiters))"]},
    allowed={"__new__", "__init__", "set", "is_set", "wait", "statistics"},
)


def terminates(stmts):
    if not stmts:
        return False
    if isinstance(stmts, str):
        return stmts.startswith("(SRaise") or stmts == "SReraise"
    last = stmts[-1]
    if isinstance(last, (ast.Return, ast.Raise, ast.Break)):
        return True
    return isinstance(last, ast.If) and bool(last.orelse) and terminates(last.body) and terminates(last.orelse)


class Method:
    def __init__(self, cfg, name, fn, params, is_async, defs, getters):
        self.cfg, self.fn, self.is_async, self.defs, self.getters = cfg, fn, is_async, defs, getters
        self.name = cfg["pre"] + name.lstrip("_")
        args = [a.arg for a in fn.args.args]
        if len(args) != 1 + len(params) or fn.args.vararg or fn.args.kwarg or fn.args.kwonlyargs or args[0] != "self":
            refuse(self.name, fn, "unexpected signature")
        self.sym = dict(zip(args[1:], params))
        self.points, self.atoms = {}, []

    def canon(self, n):
        return ast.unparse(Ren(self.sym).visit(copy.deepcopy(n)))

    def atom(self, a):
        self.atoms.append(a.strip("()"))
        return a

    def cond(self, n):
        if isinstance(n, ast.BoolOp):
            op = "CAnd" if isinstance(n.op, ast.And) else "COr"
            out = self.cond(n.values[-1])
            for v in reversed(n.values[:-1]):
                out = f"({op} {self.cond(v)} {out})"
            return out
        c = self.canon(n)
        if c in CONDS:
            return CONDS[c]
        if c.startswith("self.") and c.endswith("()") and c[5:-2] in self.getters:      # self.is_set()
            return self.getters[c[5:-2]]
        if isinstance(n, ast.UnaryOp) and isinstance(n.op, ast.Not):
            return f"(CNot {self.cond(n.operand)})"
        refuse(self.name, n, "unsupported condition")

    def block(self, stmts, K, fl):
        out = []
        for i, st in enumerate(stmts):
            if i and terminates(stmts[:i]):
                refuse(self.name, st, "statement after return/raise/break")
            out.append(self.stmt(st, [stmts[i + 1:]] + K, fl))
        return seq(out)

    def frames(self, K, fl):
        parts = []
        for i, fr in enumerate(K):
            if fr:
                parts.append(fr if isinstance(fr, str) else self.block(fr, K[i + 1:], fl))
                if terminates(fr):
                    break
        return seq(parts)

    def point(self, node, key, nm, handler, K, fl, fin=None):
        """register the continuation segments of an await; returns nothing"""
        if not self.is_async or fl["sync"] or fl["handler"]:
            refuse(self.name, node, "await in a loop, a try body, the handler of an await or a synchronous method")
        if self.points.setdefault(nm, node) is not node:
            refuse(self.name, node, f"second await of kind {nm}")
        base = f"{self.name}_{nm}"
        if base + "_resumed" in self.defs:
            return
        self.defs[base + "_resumed"] = self.defs[base + "_cancelled"] = None
        Kn = ([fin] if fin else []) + K
        self.defs[base + "_resumed"] = self.frames(Kn, dict(fl, fin=None))
        if handler is None:
            self.defs[base + "_cancelled"] = "SReraise" if not fin else seq(
                [self.block(fin, [["SReraise"]], dict(fl, pend=True, fin=None)), "SReraise"])
        else:
            h = self.block(handler, K, dict(fl, handler=True, fin=fin))
            rest = None if terminates(handler) else self.frames(Kn, dict(fl, fin=None))
            self.defs[base + "_cancelled"] = seq([h, rest])

    def await_(self, st, aw, handler, K, fl, fin=None):
        v = aw.value
        c = self.canon(v)
        if isinstance(v, ast.Call) and not v.args and not v.keywords and c.split(".")[-1] == "checkpoint_if_cancelled()":
            if handler is not None or fin:
                refuse(self.name, st, "guarded checkpoint_if_cancelled")
            return self.atom("SCkIf")
        if c in LOCK_AWAITS:
            if handler is not None or fin:
                refuse(self.name, st, "guarded lock acquire")
            if c == "self.acquire()" and self.defs.get(self.cfg["pre"] + "acquire_entry") != "(SAwaitLock false false)":
                refuse(self.name, st, "self.acquire() is not the plain delegation to the lock")
            sh, pend = ("true" if fl["shield"] else "false"), ("true" if fl["pend"] else "false")
            nm = "lock" if self.fn.name == "acquire" else ("reacq_exc" if fl["pend"] else "reacq")
            self.point(st, (sh, pend), nm, None, K, fl)
            return self.atom(f"(SAwaitLock {sh} {pend})")
        table = {"event.wait()": ("AwEvent", "event"), "self._event.wait()": ("AwInner", "inner")}
        if isinstance(v, ast.Call) and isinstance(v.func, ast.Attribute) and v.func.attr == "checkpoint" and not v.args:
            pt, nm = "AwCheckpoint", "checkpoint"
        elif c in table:
            pt, nm = table[c]
        else:
            refuse(self.name, aw, "unsupported await")
        if fl["shield"] or fl["pend"]:
            refuse(self.name, aw, "this await inside a shield / a finally copy")
        self.point(st, pt, nm, handler, K, fl, fin)
        return self.atom(f"(SSuspend {pt})")

    def stmt(self, st, K, fl):
        nm = self.name
        if isinstance(st, str):
            return st
        if is_doc(st):
            return None
        if isinstance(st, ast.Pass):
            return "SSkip"
        if isinstance(st, ast.Return):
            if st.value is None or (isinstance(st.value, ast.Constant) and st.value.value is None):
                return self.atom("SReturn")
            refuse(nm, st, "return with a value")
        if isinstance(st, ast.Break):
            return self.atom("SBreak") if fl["loop"] else refuse(nm, st, "break outside a loop")
        if isinstance(st, ast.Raise):
            if st.cause is not None and not (isinstance(st.cause, ast.Constant) and st.cause.value is None):
                refuse(nm, st, "unsupported raise ... from")
            if st.exc is None and fl["handler"]:
                f = self.block(fl["fin"], [["(SRaise ECancelled)"]], dict(fl, handler=False, pend=True, fin=None)) \
                    if fl["fin"] else None
                return seq([f, self.atom("(SRaise ECancelled)")])
            e = st.exc.func if isinstance(st.exc, ast.Call) else st.exc
            if isinstance(e, ast.Name) and e.id in EXN:
                return self.atom(f"(SRaise {EXN[e.id]})")
            refuse(nm, st, "unsupported raise")
        if isinstance(st, (ast.Assign, ast.AnnAssign)) and st.value is not None:
            tg = st.targets[0] if isinstance(st, ast.Assign) and len(st.targets) == 1 else getattr(st, "target", None)
            b = BINDERS.get(self.canon(st.value))
            if b and isinstance(tg, ast.Name) and tg.id not in self.sym and "event" not in self.sym.values():
                self.sym[tg.id] = "event"
                return self.atom(b)
            refuse(nm, st, "unsupported assignment")
        if isinstance(st, ast.Expr) and isinstance(st.value, ast.Call):
            c = self.canon(st)
            if c in STMTS:
                return self.atom(STMTS[c])
            if c in CALLS:
                callee = self.cfg["pre"] + CALLS[c] + "_entry"
                if self.defs.get(callee) is None:
                    refuse(nm, st, "call of a method that is not translated yet")
                return self.atom(f"(SCall {callee})")
            refuse(nm, st, "unsupported statement")
        if isinstance(st, ast.Expr) and isinstance(st.value, ast.Await):
            return self.await_(st, st.value, None, K, fl)
        if isinstance(st, ast.If):
            c = self.cond(st.test)
            a = self.block(st.body, K, fl)
            b = self.block(st.orelse, K, fl) if st.orelse else "SSkip"
            return f"(SIf {c} {a} {b})"
        if isinstance(st, ast.With) and len(st.items) == 1 and st.items[0].optional_vars is None \
                and ast.unparse(st.items[0].context_expr) == "CancelScope(shield=True)":
            return self.block(st.body, K, dict(fl, shield=True))
        if isinstance(st, ast.Try) and len(st.body) == 1 and len(st.handlers) == 1 \
                and st.handlers[0].name is None and st.handlers[0].type is not None:
            b, h = st.body[0], st.handlers[0]
            ht = ast.unparse(h.type)
            if isinstance(b, ast.Expr) and isinstance(b.value, ast.Await):
                if ht in ("CancelledError", "asyncio.CancelledError", "BaseException") and not st.orelse:
                    return self.await_(st, b.value, h.body, K, fl, st.finalbody or None)
            elif ht in EXN and not st.finalbody:
                body = self.stmt(b, [], dict(fl, sync=True))
                hb = self.block(h.body, K, dict(fl, handler=False))
                eb = self.block(st.orelse, K, fl) if st.orelse else "SSkip"
                return f"(STry {body} {EXN[ht]} {hb} {eb})"
            refuse(nm, st, "unsupported try statement")
        if isinstance(st, ast.For) and not st.orelse and not fl["loop"] and isinstance(st.target, ast.Name):
            it = self.canon(st.iter)
            inner = dict(fl, loop=True, sync=True)
            if it == "range(n)" and st.target.id == "_":
                return f"(SForRange {self.block(st.body, [], inner)})"
            if it == "self._waiters" and st.target.id not in self.sym and "event" not in self.sym.values():
                self.sym[st.target.id] = "event"
                return f"(SForWaiters {self.block(st.body, [], inner)})"
        refuse(nm, st, "unsupported statement")

    def run(self):
        fl = {"loop": False, "handler": False, "sync": False, "shield": False, "pend": False, "fin": None}
        self.defs[f"{self.name}_entry"] = self.block(self.fn.body, [], fl)
        want = self.cfg["points"].get(self.fn.name, set())
        if set(self.points) != want:
            raise Refuse(f"{self.name}: await points found {sorted(self.points)}, expected {sorted(want)}")
        return self


def translate(cfg):
    mod = ast.parse((REPO / cfg["src"]).read_text())
    try:
        import guard
        guard.check(cfg["src"].split("anyio/", 1)[1], mod, [cfg["cls"]])
    except guard.GuardError as e:
        raise Refuse(str(e))
    classes = [n for n in mod.body if isinstance(n, ast.ClassDef) and n.name == cfg["cls"]]
    if len(classes) != 1:
        raise Refuse(f"expected exactly one class {cfg['cls']} in {cfg['src']}, found {len(classes)}")
    fns = {}
    for n in classes[0].body:
        if isinstance(n, (ast.FunctionDef, ast.AsyncFunctionDef)):
            if n.name not in cfg["allowed"] or n.name in fns or n.decorator_list:
                refuse(cfg["cls"], n, "unexpected, duplicate or decorated method")
            fns[n.name] = n
    got = set()
    for st in fns["__init__"].body if "__init__" in fns else []:
        if isinstance(st, ast.AnnAssign) and st.value is not None:
            got.add(f"{ast.unparse(st.target)} = {ast.unparse(st.value)}")
        elif not is_doc(st):
            got.add(ast.unparse(st))
    if got != cfg["init"]:
        raise Refuse(f"{cfg['cls']}.__init__: expected exactly {sorted(cfg['init'])}, found {sorted(got)}")
    if "__new__" in fns and ast.unparse(fns["__new__"].body[-1]) != "return object.__new__(cls)":
        refuse(cfg["cls"], fns["__new__"], "unexpected __new__")
    for name, text in cfg["literal"].items():
        body = [ast.unparse(s) for s in fns[name].body if not is_doc(s)] if name in fns else None
        if body != text:
            raise Refuse(f"{cfg['cls']}.{name}: expected exactly {text}, found {body}")
    defs, atoms, getters = {}, {}, {}
    for g in ("is_set", "locked"):
        if g in cfg["allowed"]:
            body = [s for s in fns[g].body if not is_doc(s)] if g in fns else []
            if len(body) != 1 or not isinstance(body[0], ast.Return) or ast.unparse(body[0].value) not in CONDS:
                raise Refuse(f"{cfg['cls']}.{g}: expected `return <atomic condition>`")
            getters[g] = CONDS[ast.unparse(body[0].value)]
    for name, params, is_async in cfg["order"]:
        if name not in fns or isinstance(fns[name], ast.AsyncFunctionDef) != is_async:
            raise Refuse(f"class {cfg['cls']}: method {name} missing or of the wrong kind (async={is_async})")
        atoms[name] = Method(cfg, name, fns[name], params, is_async, defs, getters).run().atoms
    return defs, getters, atoms


def main():
    out = OUTDIR / "CondGen.v"
    lines = ["(* GENERATED by tools/translate_cond.py from class Event / class Condition in /repo's source on every run of "
             "bin/check C11. *)", "From AV Require Import Base Lock EventCond CondImp.", ""]
    report = []
    try:
        for cfg in (EVENT, COND):
            defs, getters, atoms = translate(cfg)
            for name, term in defs.items():
                lines += [f"Definition {name} : stmt :=", f"  {term}.", ""]
                report.append(f"  {name} := {term}")
            for g, term in getters.items():
                lines += [f"Definition {cfg['pre']}{g}_cond : cond := {term}.", ""]
            report.insert(0, f"translate_cond: ok {cfg['cls']} segments=" + ",".join(defs) + " atoms="
                          + str({k: len(v) for k, v in atoms.items()}))
    except Refuse as e:
        msg = str(e).replace('"', "'")
        out.write_text("(* translator refused *)\nFrom AV Require Import Base CondImp.\n"
                       f'Definition refused : False := "translate_cond REFUSED: {msg}".\n')
        print("translate_cond: REFUSED:", e)
        return 2
    lines += ["Definition event_prog : eprog :=",
              "  mkeprog ev_set_entry ev_is_set_cond ev_wait_entry ev_wait_checkpoint_resumed ev_wait_checkpoint_cancelled",
              "          ev_wait_inner_resumed ev_wait_inner_cancelled.", "",
              "Definition cond_prog : cprog :=",
              "  mkcprog cond_acquire_entry cond_acquire_lock_resumed cond_acquire_lock_cancelled cond_acquire_nowait_entry",
              "          cond_release_entry cond_notify_entry cond_notify_all_entry cond_wait_entry cond_wait_event_resumed",
              "          cond_wait_event_cancelled cond_wait_reacq_resumed cond_wait_reacq_cancelled",
              "          cond_wait_reacq_exc_resumed cond_wait_reacq_exc_cancelled cond_locked_cond.", ""]
    text = "\n".join(lines)
    if not out.exists() or out.read_text() != text:
        out.write_text(text)
    print("\n".join(report))
    return 0


if __name__ == "__main__":
    sys.exit(main())
