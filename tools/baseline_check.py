#!/usr/bin/env python3
"""Runs the repository's pinned test command (guard off) and checks every stable_pass test still passes."""
import json, subprocess, sys, xml.etree.ElementTree as ET, os
base = json.load(open('/root/.vp/BASELINE.json'))
out = '/verif/build/baseline.junit.xml'
os.makedirs('/verif/build', exist_ok=True)
env = dict(os.environ); env.pop('ANYIO_VERIF', None)
cmd = base['cmd'].replace('<file>', out)
subprocess.run(cmd, shell=True, env=env, stdout=subprocess.DEVNULL, stderr=subprocess.DEVNULL)
res = {}
for tc in ET.parse(out).getroot().iter('testcase'):
    name = f"{tc.get('classname')}::{tc.get('name')}"
    bad = any(ch.tag in ('failure', 'error') for ch in tc)
    skipped = any(ch.tag == 'skipped' for ch in tc)
    res[name] = 'fail' if bad else ('skip' if skipped else 'pass')
missing = [t for t in base['stable_pass'] if res.get(t) != 'pass']
print(f"stable_pass={len(base['stable_pass'])} not passing now={len(missing)}")
for t in missing[:40]:
    print('  ', t, res.get(t))
sys.exit(1 if missing else 0)
