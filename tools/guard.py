"""Shared fail-closed guard for the source-to-Coq translators (QA audit, session 2026-09-23): what a translator does NOT
read must not be able to change what the translated methods mean.  For every class a translator relies on:
  * the class is defined exactly once at module level and its name is not rebound (assignment, import, def);
  * every method of the class is defined exactly once, with exactly the decorators recorded in tools/guard_table.json
    (recorded from the tree the models were written against: a decorator can wrap or replace a method);
  * no class-level statement binds the name of a method (`release = other`);
  * nowhere in the module is an attribute of the class assigned / deleted (`Lock.release = ...`) or passed to
    setattr / delattr.
A violation raises GuardError with a one-line reason; the translators turn it into their REFUSED protocol."""
from __future__ import annotations

import ast
import json
from pathlib import Path

TABLE = json.loads((Path(__file__).resolve().parent / "guard_table.json").read_text())


class GuardError(Exception):
    pass


def record(rel: str, src_text: str, classes: list[str]) -> dict:
    mod = ast.parse(src_text)
    out = {}
    for c in mod.body:
        if isinstance(c, ast.ClassDef) and c.name in classes:
            out[c.name] = {"decorators": [ast.unparse(d) for d in c.decorator_list],
                           "methods": {d.name: [ast.unparse(x) for x in d.decorator_list]
                                       for d in c.body if isinstance(d, (ast.FunctionDef, ast.AsyncFunctionDef))}}
    return out


def check(rel: str, mod: ast.Module, classes: list[str] | None = None) -> None:
    want = TABLE.get(rel, {})
    classes = list(want) if classes is None else classes
    for cname in classes:
        if cname not in want:
            raise GuardError(f"{rel}: class {cname} has no entry in tools/guard_table.json")
        defs = [n for n in mod.body if isinstance(n, ast.ClassDef) and n.name == cname]
        if len(defs) != 1:
            raise GuardError(f"{rel}: class {cname} is defined {len(defs)} times at module level")
        c = defs[0]
        if [ast.unparse(d) for d in c.decorator_list] != want[cname]["decorators"]:
            raise GuardError(f"{rel}: decorators of class {cname} differ: {[ast.unparse(d) for d in c.decorator_list]}")
        seen: dict[str, int] = {}
        for d in c.body:
            if isinstance(d, (ast.FunctionDef, ast.AsyncFunctionDef)):
                # property setters / deleters share the name of the getter: compared as a multiset of decorator lists
                seen.setdefault(d.name, 0)
                seen[d.name] += 1
        got = {}
        for d in c.body:
            if isinstance(d, (ast.FunctionDef, ast.AsyncFunctionDef)):
                got.setdefault(d.name, []).append([ast.unparse(x) for x in d.decorator_list])
        wantm = want[cname]["methods"]
        for name, decos in got.items():
            if name not in wantm:
                continue          # a new method: the translators' own method-set checks decide
            if sorted(map(tuple, decos)) != sorted(map(tuple, wantm[name])):
                raise GuardError(f"{rel}: decorators of {cname}.{name} differ: {decos}")
        method_names = set(got) | set(wantm)
        for st in c.body:
            tg = []
            if isinstance(st, ast.Assign):
                tg = st.targets
            elif isinstance(st, (ast.AnnAssign, ast.AugAssign)):
                tg = [st.target]
            for t in tg:
                for x in ast.walk(t):
                    if isinstance(x, ast.Name) and x.id in method_names:
                        raise GuardError(f"{rel}: class-level statement rebinds {cname}.{x.id}: {ast.unparse(st)[:80]}")
    names = set(classes)
    for n in mod.body:
        if isinstance(n, (ast.FunctionDef, ast.AsyncFunctionDef)) and n.name in names:
            raise GuardError(f"{rel}: module-level def shadows class {n.name}")
        if isinstance(n, (ast.Import, ast.ImportFrom)):
            for a in n.names:
                if (a.asname or a.name.split(".")[0]) in names:
                    raise GuardError(f"{rel}: import rebinds {a.asname or a.name}")
    for n in ast.walk(mod):
        tg = []
        if isinstance(n, ast.Assign):
            tg = n.targets
        elif isinstance(n, (ast.AnnAssign, ast.AugAssign)):
            tg = [n.target]
        elif isinstance(n, ast.Delete):
            tg = n.targets
        for t in tg:
            for x in ast.walk(t):
                if isinstance(x, ast.Attribute) and isinstance(x.value, ast.Name) and x.value.id in names:
                    raise GuardError(f"{rel}: attribute of class {x.value.id} is assigned: {ast.unparse(n)[:80]}")
                if isinstance(x, ast.Name) and x.id in names and isinstance(n, (ast.Assign, ast.AnnAssign, ast.AugAssign)) \
                        and isinstance(getattr(x, 'ctx', None), ast.Store):
                    raise GuardError(f"{rel}: class name {x.id} is rebound: {ast.unparse(n)[:80]}")
        if isinstance(n, ast.Call) and isinstance(n.func, ast.Name) and n.func.id in ("setattr", "delattr") and n.args \
                and isinstance(n.args[0], ast.Name) and n.args[0].id in names:
            raise GuardError(f"{rel}: {n.func.id}() on class {n.args[0].id}")
