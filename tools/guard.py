"""Shared fail-closed guard for the source-to-Coq translators (QA audits of session 2026-09-23): what a translator does NOT
read must not be able to change what the translated methods mean.  `tools/guard_table.json` records, from the tree the
models were written against (`python3 tools/guard.py --record`), for every source file the translators rely on:

  module   * every import statement (also inside module-level if / try blocks), literally and in order;
           * how often each imported name, guarded class and guarded function is bound at module level (an alias
             `BusyResourceError as WouldBlock`, a second `def current_task`, `Event = Lock`, a conditional `def` ...);
  class    * decorators, bases, the class-level statements that are not defs (a compound statement there - `if ver: def
             release` - is refused outright), and for each method every definition of it with decorators, the full
             parameter list INCLUDING defaults, the exception classes of its handlers, its `raise` statements, its calls
             of a method named `cancel` (the tagged message of AnyIO's cancellations) and the receiver.method of every
             awaited call (the translators match marker calls by name only);
           * the literal text of the methods listed under `literal` (constructors, `__del__`, `statistics`, setters ...:
             code the models depend on but no translator reads) and of whole helper classes (`literal_classes`);
  function * the same record for guarded module-level functions.
  names    * in every guarded method / function each name that is READ must be bound in that function (parameter, assignment,
             loop / with / except target, comprehension variable, nested def), at module level, or be a builtin: renaming
             only one occurrence of a local leaves a name the translators' canonical renaming would silently accept.

`check()` recomputes the record from the tree under test and compares.  Nowhere in the module may an attribute of a guarded
class be assigned, deleted or passed to setattr / delattr.  A violation raises GuardError with a one-line reason; the
translators turn it into their REFUSED protocol."""
from __future__ import annotations

import ast
import builtins
import json
import sys
from pathlib import Path

HERE = Path(__file__).resolve().parent
TABLE_PATH = HERE / "guard_table.json"
TABLE = json.loads(TABLE_PATH.read_text()) if TABLE_PATH.exists() else {}

# file -> {"classes": {name: [deeply recorded methods] | "*"}, "functions": [...], "literal": {class: [methods]},
#          "literal_classes": [...]}
CONFIG = {
    "_backends/_asyncio.py": {
        "classes": {"Lock": "*", "Semaphore": "*", "CapacityLimiter": "*", "Event": "*", "CancelScope": "*",
                    "AsyncIOBackend": ["checkpoint", "checkpoint_if_cancelled", "cancel_shielded_checkpoint", "check_cancelled",
                                       "current_effective_deadline", "sleep", "run_sync_in_worker_thread", "create_cancel_scope",
                                       "current_time"]},
        "functions": ["is_anyio_cancellation"],
        "literal": {"Lock": ["__new__", "__init__", "statistics"], "Semaphore": ["__new__", "__init__"],
                    "CapacityLimiter": ["__new__", "__init__"], "Event": ["__new__", "__init__"],
                    "CancelScope": ["__new__", "shield", "deadline"]},
        "literal_classes": [],
    },
    "_core/_synchronization.py": {
        "classes": {"Condition": "*", "Event": "*", "Lock": "*", "Semaphore": "*", "CapacityLimiter": "*"},
        "functions": [], "literal": {"Condition": ["__init__"]}, "literal_classes": [],
    },
    "streams/memory.py": {
        "classes": {"MemoryObjectReceiveStream": "*", "MemoryObjectSendStream": "*"},
        "functions": [], "literal": {"MemoryObjectReceiveStream": ["__del__", "__post_init__"],
                                     "MemoryObjectSendStream": ["__del__", "__post_init__"]},
        "literal_classes": ["_MemoryObjectItemReceiver", "_MemoryObjectStreamState", "MemoryObjectStreamStatistics"],
    },
    "_core/_tasks.py": {"classes": {}, "functions": ["fail_at", "fail_after", "move_on_at", "move_on_after"], "literal": {},
                        "literal_classes": []},
}


class GuardError(Exception):
    pass


def _is_doc(x):
    return isinstance(x, ast.Expr) and isinstance(x.value, ast.Constant) and isinstance(x.value.value, str)


def _module_stmts(body):
    """module-level statements, looking through if / try / with blocks but not into defs and classes"""
    for n in body:
        yield n
        if isinstance(n, ast.If):
            yield from _module_stmts(n.body)
            yield from _module_stmts(n.orelse)
        elif isinstance(n, ast.Try):
            yield from _module_stmts(n.body)
            for h in n.handlers:
                yield from _module_stmts(h.body)
            yield from _module_stmts(n.orelse)
            yield from _module_stmts(n.finalbody)
        elif isinstance(n, (ast.With, ast.For, ast.While)):
            yield from _module_stmts(n.body)


def _bound_by(n):
    if isinstance(n, (ast.FunctionDef, ast.AsyncFunctionDef, ast.ClassDef)):
        return [n.name]
    if isinstance(n, ast.Import):
        return [(a.asname or a.name.split(".")[0]) for a in n.names]
    if isinstance(n, ast.ImportFrom):
        return [(a.asname or a.name) for a in n.names]
    tg = []
    if isinstance(n, ast.Assign):
        tg = n.targets
    elif isinstance(n, (ast.AnnAssign, ast.AugAssign)):
        tg = [n.target]
    return [x.id for t in tg for x in ast.walk(t) if isinstance(x, ast.Name)]


def _fn_record(d, deep: bool):
    rec = {"decorators": [ast.unparse(x) for x in d.decorator_list], "args": ast.unparse(d.args),
           "async": isinstance(d, ast.AsyncFunctionDef)}
    if deep:
        rec["handlers"] = [ast.unparse(h.type) if h.type is not None else "" for h in ast.walk(d) if isinstance(h, ast.ExceptHandler)]
        rec["raises"] = [ast.unparse(r) for r in ast.walk(d) if isinstance(r, ast.Raise)]
        rec["cancel_calls"] = [ast.unparse(c) for c in ast.walk(d) if isinstance(c, ast.Call)
                               and isinstance(c.func, ast.Attribute) and c.func.attr == "cancel"]
        # what is awaited: the translators match marker calls (checkpoint, checkpoint_if_cancelled,
        # cancel_shielded_checkpoint, wait ...) by NAME; the receiver is pinned here.  A receiver that is a local of the
        # function is recorded as <local> so that consistent renames of locals stay harmless
        params_locals = {a.arg for a in ast.walk(d) if isinstance(a, ast.arg)} | \
                        {x.id for x in ast.walk(d) if isinstance(x, ast.Name) and isinstance(x.ctx, ast.Store)}
        aw = []
        for a in ast.walk(d):
            if isinstance(a, ast.Await) and isinstance(a.value, ast.Call):
                f = a.value.func
                base = f
                while isinstance(base, ast.Attribute):
                    base = base.value
                if isinstance(base, ast.Name) and base.id in params_locals and base.id != "self" and isinstance(f, ast.Attribute):
                    aw.append("<local>." + f.attr)
                else:
                    aw.append(ast.unparse(f))
        rec["awaited_calls"] = aw
    return rec


def record_module(rel: str, mod: ast.Module) -> dict:
    cfg = CONFIG[rel]
    stmts = list(_module_stmts(mod.body))
    imports = [ast.unparse(n) for n in stmts if isinstance(n, (ast.Import, ast.ImportFrom))]
    imported = {b for n in stmts if isinstance(n, (ast.Import, ast.ImportFrom)) for b in _bound_by(n)}
    tracked = imported | set(cfg["classes"]) | set(cfg["functions"]) | set(cfg["literal_classes"])
    counts: dict[str, int] = {}
    for n in stmts:
        for b in _bound_by(n):
            if b in tracked:
                counts[b] = counts.get(b, 0) + 1
    out = {"imports": imports, "bindings": counts, "classes": {}, "functions": {}, "literal_classes": {}}
    for c in mod.body:
        if isinstance(c, ast.ClassDef) and c.name in cfg["classes"]:
            deep = cfg["classes"][c.name]
            methods: dict[str, list] = {}
            for d in c.body:
                if isinstance(d, (ast.FunctionDef, ast.AsyncFunctionDef)):
                    methods.setdefault(d.name, []).append(_fn_record(d, deep == "*" or d.name in deep))
            lit = {}
            for d in c.body:
                if isinstance(d, (ast.FunctionDef, ast.AsyncFunctionDef)) and d.name in cfg["literal"].get(c.name, []):
                    lit.setdefault(d.name, []).append(ast.unparse(d))
            out["classes"][c.name] = {
                "decorators": [ast.unparse(d) for d in c.decorator_list], "bases": [ast.unparse(b) for b in c.bases],
                "stmts": [ast.unparse(x) for x in c.body if not isinstance(x, (ast.FunctionDef, ast.AsyncFunctionDef)) and not _is_doc(x)],
                "methods": methods, "literal": lit}
        if isinstance(c, ast.ClassDef) and c.name in cfg["literal_classes"]:
            out["literal_classes"][c.name] = ast.unparse(c)
        if isinstance(c, (ast.FunctionDef, ast.AsyncFunctionDef)) and c.name in cfg["functions"]:
            out["functions"].setdefault(c.name, []).append(_fn_record(c, True))
    return out


_BUILTINS = set(dir(builtins))


def _check_names(where: str, fn, module_names: set) -> None:
    bound = set()
    for n in ast.walk(fn):
        if isinstance(n, ast.arg):
            bound.add(n.arg)
        elif isinstance(n, ast.Name) and isinstance(n.ctx, (ast.Store, ast.Del)):
            bound.add(n.id)
        elif isinstance(n, (ast.FunctionDef, ast.AsyncFunctionDef, ast.ClassDef)) and n is not fn:
            bound.add(n.name)
        elif isinstance(n, ast.ExceptHandler) and n.name:
            bound.add(n.name)
        elif isinstance(n, (ast.Import, ast.ImportFrom)):
            bound.update(_bound_by(n))
        elif isinstance(n, (ast.Global, ast.Nonlocal)):
            bound.update(n.names)
    for n in ast.walk(fn):
        if isinstance(n, ast.Name) and isinstance(n.ctx, ast.Load) and n.id not in bound and n.id not in module_names \
                and n.id not in _BUILTINS:
            raise GuardError(f"{where}: name `{n.id}` is read (line {n.lineno}) but bound neither in the function nor at module level")


def check(rel: str, mod: ast.Module, classes: list[str] | None = None) -> None:
    """`classes` restricts the class-level comparison to those classes (a translator refuses for ITS classes); the module
    part (imports, rebinding) and the guarded functions are always compared."""
    if rel not in TABLE:
        raise GuardError(f"{rel}: no entry in tools/guard_table.json")
    want, got = TABLE[rel], record_module(rel, mod)
    if got["imports"] != want["imports"]:
        diff = [i for i in got["imports"] if i not in want["imports"]] + [f"(missing) {i}" for i in want["imports"] if i not in got["imports"]]
        raise GuardError(f"{rel}: import statements differ: {diff[:2]}")
    for name in sorted(set(want["bindings"]) | set(got["bindings"])):
        if got["bindings"].get(name, 0) != want["bindings"].get(name, 0):
            raise GuardError(f"{rel}: `{name}` is bound {got['bindings'].get(name, 0)} times at module level (recorded: {want['bindings'].get(name, 0)})")
    for name, w in want["literal_classes"].items():
        if got["literal_classes"].get(name) != w:
            raise GuardError(f"{rel}: class {name} differs from its recorded text")
    for name, w in want["functions"].items():
        if got["functions"].get(name) != w:
            raise GuardError(f"{rel}: function {name}: decorators / parameters (with defaults) / handlers / raises differ: {got['functions'].get(name)}")
    names = list(want["classes"]) if classes is None else classes
    for cname in names:
        if cname not in want["classes"]:
            raise GuardError(f"{rel}: class {cname} has no entry in tools/guard_table.json")
        w, g = want["classes"][cname], got["classes"].get(cname)
        if g is None:
            raise GuardError(f"{rel}: class {cname} missing")
        for key in ("decorators", "bases", "stmts"):
            if g[key] != w[key]:
                raise GuardError(f"{rel}: class {cname}: {key} differ: {[x for x in g[key] if x not in w[key]][:2]}")
        for mname in sorted(set(w["methods"]) | set(g["methods"])):
            if mname not in w["methods"]:
                continue        # a new method: the translators' own method-set checks decide
            if g["methods"].get(mname) != w["methods"][mname]:
                raise GuardError(f"{rel}: {cname}.{mname}: definitions / decorators / parameters (with defaults) / handlers / "
                                 f"raises / cancel() calls / awaited calls differ from the record")
        for mname, texts in w["literal"].items():
            if g["literal"].get(mname) != texts:
                raise GuardError(f"{rel}: {cname}.{mname} differs from its recorded text")
    # name hygiene in every guarded method / function
    module_names = {b for n in _module_stmts(mod.body) for b in _bound_by(n)}
    for c in mod.body:
        if isinstance(c, ast.ClassDef) and c.name in names:
            # decorators such as `@total_tokens.setter` read names of the class body
            class_names = {b for x in c.body for b in _bound_by(x)}
            for d in c.body:
                if isinstance(d, (ast.FunctionDef, ast.AsyncFunctionDef)):
                    _check_names(f"{rel}: {c.name}.{d.name}", d, module_names | {c.name} | class_names)
        if isinstance(c, (ast.FunctionDef, ast.AsyncFunctionDef)) and c.name in want["functions"]:
            _check_names(f"{rel}: {c.name}", c, module_names)
    # attributes of guarded classes assigned anywhere; setattr / delattr
    cls_names = set(want["classes"]) | set(want["literal_classes"])
    for n in ast.walk(mod):
        tg = []
        if isinstance(n, ast.Assign):
            tg = n.targets
        elif isinstance(n, (ast.AnnAssign, ast.AugAssign)):
            tg = [n.target]
        elif isinstance(n, ast.Delete):
            tg = n.targets
        for t in tg:
            for x in ast.walk(t):
                if isinstance(x, ast.Attribute) and isinstance(x.value, ast.Name) and x.value.id in cls_names:
                    raise GuardError(f"{rel}: attribute of class {x.value.id} is assigned: {ast.unparse(n)[:80]}")
        if isinstance(n, ast.Call) and isinstance(n.func, ast.Name) and n.func.id in ("setattr", "delattr") and n.args \
                and isinstance(n.args[0], ast.Name) and n.args[0].id in cls_names:
            raise GuardError(f"{rel}: {n.func.id}() on class {n.args[0].id}")


if __name__ == "__main__":
    if "--record" in sys.argv:
        import os
        repo = Path(os.environ.get("VERIF_REPO", "/repo"))
        table = {rel: record_module(rel, ast.parse((repo / "src" / "anyio" / rel).read_text())) for rel in CONFIG}
        TABLE_PATH.write_text(json.dumps(table, indent=1, sort_keys=True) + "\n")
        print("recorded", {k: (len(v["imports"]), sorted(v["classes"]), sorted(v["functions"])) for k, v in table.items()})
