#!/usr/bin/env python3
"""Tie T for the text half of C16: translate TextReceiveStream.receive and TextSendStream.send into the language of
coq/pure/TextImp.v.

Reads  $VERIF_REPO/src/anyio/streams/text.py  (VERIF_REPO defaults to /repo) with `ast` and regenerates
coq/pure/TextGen.v (gen_text_receive, gen_text_send : TextImp.tstmt); coq/pure/TextGenEq.v proves that interpreting them
IS Text.tstep.

FAIL CLOSED.  Locals are renamed to slots by their binding expression (await of the transport's receive() -> chunk,
`self._decoder.decode(..)` -> decoded, `self._encoder.encode(..)` -> encoded; the parameter of send -> item); every
statement must then be, as `ast.unparse` prints it, a key of ATOMS, or `if decoded: return decoded`, or `while True:` around
loop-free statements.  The constructors (`__post_init__`: incremental decoder / encoder of the given encoding, built once
per stream object - F10), the delegating methods of the three classes and their sets of methods are checked literally.
Anything else: prints `translate_text: REFUSED: ...`, replaces TextGen.v by a file that does not compile, exit status 2.
"""
from __future__ import annotations

import ast
import copy
import os
import sys
from pathlib import Path

REPO = Path(os.environ.get("VERIF_REPO", "/repo"))
SRC = REPO / "src" / "anyio" / "streams" / "text.py"
OUT = Path(os.environ["VERIF_GEN_OUT"]) if os.environ.get("VERIF_GEN_OUT") else Path(__file__).resolve().parent.parent / "coq" / "pure" / "TextGen.v"


class Refused(Exception):
    pass


def refuse(fn, node, what):
    raise Refused(f"{fn}: line {getattr(node, 'lineno', '?')}: {what}")


ATOMS = {
    "chunk = await self.transport_stream.receive()": "TFetch",
    "decoded = self._decoder.decode(chunk)": "TDecode",
    "encoded = self._encoder.encode(item)": "TEncode",
    "await self.transport_stream.send(encoded)": "TSendEncoded",
}

LITERAL = {
    ("TextReceiveStream", "__post_init__"): "decoder_class = codecs.getincrementaldecoder(encoding); self._decoder = decoder_class(errors=errors)",
    ("TextReceiveStream", "aclose"): "await self.transport_stream.aclose(); self._decoder.reset()",
    ("TextReceiveStream", "extra_attributes"): "return self.transport_stream.extra_attributes",
    ("TextSendStream", "__post_init__"): "encoder_class = codecs.getincrementalencoder(encoding); self._encoder = encoder_class(errors=self.errors)",
    ("TextSendStream", "aclose"): "await self.transport_stream.aclose()",
    ("TextSendStream", "extra_attributes"): "return self.transport_stream.extra_attributes",
    ("TextStream", "__post_init__"): "self._receive_stream = TextReceiveStream(self.transport_stream, encoding=encoding, errors=errors); "
                                     "self._send_stream = TextSendStream(self.transport_stream, encoding=encoding, errors=errors)",
    ("TextStream", "receive"): "return await self._receive_stream.receive()",
    ("TextStream", "send"): "await self._send_stream.send(item)",
    ("TextStream", "send_eof"): "await self.transport_stream.send_eof()",
    ("TextStream", "aclose"): "await self._send_stream.aclose(); await self._receive_stream.aclose()",
    ("TextConnectable", "__init__"): "self.connectable = connectable",
    ("TextConnectable", "connect"): "stream = await self.connectable.connect(); return TextStream(stream)",
    ("TextStream", "extra_attributes"): "return {**self._send_stream.extra_attributes, **self._receive_stream.extra_attributes}",
}
METHODS = {
    "TextReceiveStream": ["__post_init__", "aclose", "extra_attributes", "receive"],
    "TextSendStream": ["__post_init__", "aclose", "extra_attributes", "send"],
    "TextStream": ["__post_init__", "aclose", "extra_attributes", "receive", "send", "send_eof"],
}


MODULE_LEVEL = [
    "from __future__ import annotations",
    "__all__ = ('TextConnectable', 'TextReceiveStream', 'TextSendStream', 'TextStream')",
    "import codecs",
    "import sys",
    "from collections.abc import Callable, Mapping",
    "from dataclasses import InitVar, dataclass, field",
    "from typing import Any",
    "from ..abc import AnyByteReceiveStream, AnyByteSendStream, AnyByteStream, AnyByteStreamConnectable, ObjectReceiveStream, ObjectSendStream, ObjectStream, ObjectStreamConnectable",
    "if sys.version_info >= (3, 12):\n    from typing import override\nelse:\n    from typing_extensions import override",
]
# class -> (decorators, bases, class-level statements, {method: (decorators, parameters)})
SKELETON = {
    "TextReceiveStream": (["dataclass(eq=False)"], ["ObjectReceiveStream[str]"],
                          ["transport_stream: AnyByteReceiveStream", "encoding: InitVar[str] = 'utf-8'",
                           "errors: InitVar[str] = 'strict'", "_decoder: codecs.IncrementalDecoder = field(init=False)"],
                          {"__post_init__": ([], ["self", "encoding", "errors"]), "receive": ([], ["self"]),
                           "aclose": ([], ["self"]), "extra_attributes": (["property"], ["self"])}),
    "TextSendStream": (["dataclass(eq=False)"], ["ObjectSendStream[str]"],
                       ["transport_stream: AnyByteSendStream", "encoding: InitVar[str] = 'utf-8'", "errors: str = 'strict'",
                        "_encoder: codecs.IncrementalEncoder = field(init=False)"],
                       {"__post_init__": ([], ["self", "encoding"]), "send": ([], ["self", None]),
                        "aclose": ([], ["self"]), "extra_attributes": (["property"], ["self"])}),
    "TextStream": (["dataclass(eq=False)"], ["ObjectStream[str]"],
                   ["transport_stream: AnyByteStream", "encoding: InitVar[str] = 'utf-8'", "errors: InitVar[str] = 'strict'",
                    "_receive_stream: TextReceiveStream = field(init=False)", "_send_stream: TextSendStream = field(init=False)"],
                   {"__post_init__": ([], ["self", "encoding", "errors"]), "receive": ([], ["self"]), "send": ([], ["self", "item"]),
                    "send_eof": ([], ["self"]), "aclose": ([], ["self"]), "extra_attributes": (["property"], ["self"])}),
    "TextConnectable": ([], ["ObjectStreamConnectable[str]"], [],
                        {"__init__": ([], ["self", "connectable"]), "connect": (["override"], ["self"])}),
}


def check_skeleton(mod):
    """everything that is not a method body: imports, module-level and class-level statements, decorators, signatures"""
    def is_doc(x):
        return isinstance(x, ast.Expr) and isinstance(x.value, ast.Constant) and isinstance(x.value.value, str)
    got = [ast.unparse(n) for n in mod.body if not isinstance(n, ast.ClassDef) and not is_doc(n)]
    if got != MODULE_LEVEL:
        diff = [g for g in got if g not in MODULE_LEVEL] + [f"(missing) {w}" for w in MODULE_LEVEL if w not in got]
        refuse("module", mod, f"module-level statements differ from the checked literal: {diff[:3]}")
    classes = [n for n in mod.body if isinstance(n, ast.ClassDef)]
    if [c.name for c in classes] != list(SKELETON):
        refuse("module", mod, f"classes differ: {[c.name for c in classes]}")
    for c in classes:
        decos, bases, stmts, methods = SKELETON[c.name]
        if [ast.unparse(d) for d in c.decorator_list] != decos or [ast.unparse(b) for b in c.bases] != bases or c.keywords:
            refuse(c.name, c, "class decorators / bases differ")
        other = [ast.unparse(x) for x in c.body if not isinstance(x, (ast.FunctionDef, ast.AsyncFunctionDef)) and not is_doc(x)]
        if other != stmts:
            refuse(c.name, c, f"class-level statements differ: {other}")
        defs = [x for x in c.body if isinstance(x, (ast.FunctionDef, ast.AsyncFunctionDef))]
        if sorted(d.name for d in defs) != sorted(methods):
            refuse(c.name, c, f"set of methods differs: {sorted(d.name for d in defs)}")
        for d in defs:
            wd, wparams = methods[d.name]
            params = [a.arg for a in d.args.posonlyargs + d.args.args]
            if ([ast.unparse(x) for x in d.decorator_list] != wd or len(params) != len(wparams)
                    or any(w is not None and w != g for w, g in zip(wparams, params)) or d.args.defaults
                    or d.args.vararg or d.args.kwarg or d.args.kwonlyargs):
                refuse(f"{c.name}.{d.name}", d, f"decorators / signature differ: {[ast.unparse(x) for x in d.decorator_list]} {params}")


class Renamer(ast.NodeTransformer):
    def __init__(self, mapping):
        self.mapping = mapping

    def visit_Name(self, node):
        if node.id in self.mapping:
            return ast.copy_location(ast.Name(id=self.mapping[node.id], ctx=node.ctx), node)
        return node


def body_of(fn):
    return [s for s in fn.body if not (isinstance(s, ast.Expr) and isinstance(s.value, ast.Constant) and isinstance(s.value.value, str))]


def slot_of(v):
    t = ast.unparse(v)
    if t == "await self.transport_stream.receive()":
        return "chunk"
    if t.startswith("self._decoder.decode("):
        return "decoded"
    if t.startswith("self._encoder.encode("):
        return "encoded"
    return None


class Method:
    def __init__(self, fn, params: dict):
        self.fn, self.name, self.map = fn, fn.name, dict(params)
        self.params, self.owner = set(params), {}

    def canon(self, node) -> str:
        # every name that is read must be a parameter or a local bound earlier (the slot names are ordinary identifiers)
        for n in ast.walk(node):
            if isinstance(n, ast.Name) and isinstance(n.ctx, ast.Load) and n.id not in self.map and n.id != "self":
                refuse(self.name, n, f"name `{n.id}` is read but not bound")
        return ast.unparse(Renamer(self.map).visit(copy.deepcopy(node)))

    def stmt(self, s, in_loop: bool) -> str:
        if isinstance(s, ast.While):
            # a loop is accepted only as the WHOLE body of the method (TextImp.texec runs a loop only there)
            if in_loop or s.orelse or ast.unparse(s.test) != "True" or body_of(self.fn) != [s]:
                refuse(self.name, s, "loop outside the grammar (only `while True:` as the whole method body)")
            return f"(TWhileTrue {self.seq(s.body, True)})"
        if isinstance(s, ast.If):
            if self.canon(s) != "if decoded:\n    return decoded":
                refuse(self.name, s, f"conditional outside the table: {self.canon(s)[:80]}")
            return "TIfDecodedReturn"
        if isinstance(s, ast.Assign) and len(s.targets) == 1 and isinstance(s.targets[0], ast.Name):
            value_txt = self.canon(s.value)
            sl = slot_of(s.value)
            if sl is None:
                refuse(self.name, s, f"binding outside the table: {ast.unparse(s)}")
            owner = self.owner.setdefault(sl, s.targets[0].id)
            if owner != s.targets[0].id or s.targets[0].id in self.params:
                refuse(self.name, s, f"slot `{sl}` is bound through two different names (`{owner}`, `{s.targets[0].id}`) or a parameter is rebound")
            self.map[s.targets[0].id] = sl
            k = f"{sl} = {value_txt}"
        elif isinstance(s, ast.Expr):
            k = self.canon(s)
        else:
            refuse(self.name, s, f"statement form outside the grammar: {type(s).__name__}")
        if k not in ATOMS:
            refuse(self.name, s, f"statement outside the table: {k}")
        return f"(TAtom {ATOMS[k]})"

    def seq(self, stmts, in_loop: bool) -> str:
        parts = [self.stmt(s, in_loop) for s in stmts]
        if not parts:
            refuse(self.name, self.fn, "empty body")
        out = parts[-1]
        for p in reversed(parts[:-1]):
            out = f"(TSeq {p} {out})"
        return out


def generate() -> dict:
    mod = ast.parse(SRC.read_text())
    check_skeleton(mod)
    classes = {n.name: n for n in mod.body if isinstance(n, ast.ClassDef)}
    for (cname, mname), want in LITERAL.items():
        fn = next(n for n in classes[cname].body if isinstance(n, (ast.FunctionDef, ast.AsyncFunctionDef)) and n.name == mname)
        got = "; ".join(ast.unparse(s) for s in body_of(fn))
        if got != want:
            refuse(f"{cname}.{mname}", fn, f"body differs from the checked literal: {got[:140]}")
    # one decoder / encoder OBJECT per stream: the fields that hold them
    for cname, fld in (("TextReceiveStream", "_decoder: codecs.IncrementalDecoder = field(init=False)"),
                       ("TextSendStream", "_encoder: codecs.IncrementalEncoder = field(init=False)")):
        fields = [ast.unparse(s) for s in classes[cname].body if isinstance(s, ast.AnnAssign)]
        if fld not in fields:
            refuse(cname, classes[cname], f"field differs: {fields}")
    out = {}
    fn = next(n for n in classes["TextReceiveStream"].body if isinstance(n, ast.AsyncFunctionDef) and n.name == "receive")
    if len(fn.args.args) != 1:
        refuse("receive", fn, "signature")
    out["gen_text_receive"] = Method(fn, {}).seq(body_of(fn), False)
    fn = next(n for n in classes["TextSendStream"].body if isinstance(n, ast.AsyncFunctionDef) and n.name == "send")
    if len(fn.args.args) != 2:
        refuse("send", fn, "signature")
    out["gen_text_send"] = Method(fn, {fn.args.args[1].arg: "item"}).seq(body_of(fn), False)
    return out


HEADER = "(* GENERATED by tools/translate_text.py from src/anyio/streams/text.py - do not edit *)\nFrom AV Require Import Base Text TextImp.\n\n"


def main() -> int:
    try:
        progs = generate()
    except Refused as e:
        msg = f"translate_text: REFUSED: {e}"
        print(msg)
        OUT.write_text(HEADER + f"(* {msg.replace('*)', '* )')} *)\nDefinition gen_text_receive : tstmt := translator_refused.\n")
        return 2
    text = HEADER + "".join(f"Definition {k} : tstmt :=\n  {progs[k]}.\n\n" for k in ("gen_text_receive", "gen_text_send"))
    if not OUT.exists() or OUT.read_text() != text:
        OUT.write_text(text)
    print(f"translate_text: ok TextReceiveStream/TextSendStream segments=gen_text_receive,gen_text_send source={SRC}")
    for k in ("gen_text_receive", "gen_text_send"):
        print(f"  {k} := {progs[k]}")
    return 0


if __name__ == "__main__":
    sys.exit(main())
