#!/usr/bin/env python3
"""Tie T for the text half of C16: translate TextReceiveStream.receive and TextSendStream.send into the language of
coq/pure/TextImp.v.

Reads  $VERIF_REPO/src/anyio/streams/text.py  (VERIF_REPO defaults to /repo) with `ast` and regenerates
coq/pure/TextGen.v (gen_text_receive, gen_text_send : TextImp.tstmt); coq/pure/TextGenEq.v proves that interpreting them
IS Text.tstep.

FAIL CLOSED.  Locals are renamed to slots by their binding expression (await of the transport's receive() -> chunk,
`self._decoder.decode(..)` -> decoded, `self._encoder.encode(..)` -> encoded; the parameter of send -> item); every
statement must then be, as `ast.unparse` prints it, a key of ATOMS, or `if decoded: return decoded`, or `while True:` around
loop-free statements.  The constructors (`__post_init__`: incremental decoder / encoder of the given encoding, built once
per stream object - F10), the delegating methods of the three classes and their sets of methods are checked literally.
Anything else: prints `translate_text: REFUSED: ...`, replaces TextGen.v by a file that does not compile, exit status 2.
"""
from __future__ import annotations

import ast
import copy
import os
import sys
from pathlib import Path

REPO = Path(os.environ.get("VERIF_REPO", "/repo"))
SRC = REPO / "src" / "anyio" / "streams" / "text.py"
OUT = Path(__file__).resolve().parent.parent / "coq" / "pure" / "TextGen.v"


class Refused(Exception):
    pass


def refuse(fn, node, what):
    raise Refused(f"{fn}: line {getattr(node, 'lineno', '?')}: {what}")


ATOMS = {
    "chunk = await self.transport_stream.receive()": "TFetch",
    "decoded = self._decoder.decode(chunk)": "TDecode",
    "encoded = self._encoder.encode(item)": "TEncode",
    "await self.transport_stream.send(encoded)": "TSendEncoded",
}

LITERAL = {
    ("TextReceiveStream", "__post_init__"): "decoder_class = codecs.getincrementaldecoder(encoding); self._decoder = decoder_class(errors=errors)",
    ("TextReceiveStream", "aclose"): "await self.transport_stream.aclose(); self._decoder.reset()",
    ("TextReceiveStream", "extra_attributes"): "return self.transport_stream.extra_attributes",
    ("TextSendStream", "__post_init__"): "encoder_class = codecs.getincrementalencoder(encoding); self._encoder = encoder_class(errors=self.errors)",
    ("TextSendStream", "aclose"): "await self.transport_stream.aclose()",
    ("TextSendStream", "extra_attributes"): "return self.transport_stream.extra_attributes",
    ("TextStream", "__post_init__"): "self._receive_stream = TextReceiveStream(self.transport_stream, encoding=encoding, errors=errors); "
                                     "self._send_stream = TextSendStream(self.transport_stream, encoding=encoding, errors=errors)",
    ("TextStream", "receive"): "return await self._receive_stream.receive()",
    ("TextStream", "send"): "await self._send_stream.send(item)",
    ("TextStream", "send_eof"): "await self.transport_stream.send_eof()",
    ("TextStream", "aclose"): "await self._send_stream.aclose(); await self._receive_stream.aclose()",
    ("TextStream", "extra_attributes"): "return {**self._send_stream.extra_attributes, **self._receive_stream.extra_attributes}",
}
METHODS = {
    "TextReceiveStream": ["__post_init__", "aclose", "extra_attributes", "receive"],
    "TextSendStream": ["__post_init__", "aclose", "extra_attributes", "send"],
    "TextStream": ["__post_init__", "aclose", "extra_attributes", "receive", "send", "send_eof"],
}


class Renamer(ast.NodeTransformer):
    def __init__(self, mapping):
        self.mapping = mapping

    def visit_Name(self, node):
        if node.id in self.mapping:
            return ast.copy_location(ast.Name(id=self.mapping[node.id], ctx=node.ctx), node)
        return node


def body_of(fn):
    return [s for s in fn.body if not (isinstance(s, ast.Expr) and isinstance(s.value, ast.Constant) and isinstance(s.value.value, str))]


def slot_of(v):
    t = ast.unparse(v)
    if t == "await self.transport_stream.receive()":
        return "chunk"
    if t.startswith("self._decoder.decode("):
        return "decoded"
    if t.startswith("self._encoder.encode("):
        return "encoded"
    return None


class Method:
    def __init__(self, fn, params: dict):
        self.fn, self.name, self.map = fn, fn.name, dict(params)

    def canon(self, node) -> str:
        return ast.unparse(Renamer(self.map).visit(copy.deepcopy(node)))

    def stmt(self, s, in_loop: bool) -> str:
        if isinstance(s, ast.While):
            if in_loop or s.orelse or ast.unparse(s.test) != "True":
                refuse(self.name, s, "loop outside the grammar")
            return f"(TWhileTrue {self.seq(s.body, True)})"
        if isinstance(s, ast.If):
            if self.canon(s) != "if decoded:\n    return decoded":
                refuse(self.name, s, f"conditional outside the table: {self.canon(s)[:80]}")
            return "TIfDecodedReturn"
        if isinstance(s, ast.Assign) and len(s.targets) == 1 and isinstance(s.targets[0], ast.Name):
            value_txt = self.canon(s.value)
            sl = slot_of(s.value)
            if sl is None:
                refuse(self.name, s, f"binding outside the table: {ast.unparse(s)}")
            self.map[s.targets[0].id] = sl
            k = f"{sl} = {value_txt}"
        elif isinstance(s, ast.Expr):
            k = self.canon(s)
        else:
            refuse(self.name, s, f"statement form outside the grammar: {type(s).__name__}")
        if k not in ATOMS:
            refuse(self.name, s, f"statement outside the table: {k}")
        return f"(TAtom {ATOMS[k]})"

    def seq(self, stmts, in_loop: bool) -> str:
        parts = [self.stmt(s, in_loop) for s in stmts]
        if not parts:
            refuse(self.name, self.fn, "empty body")
        out = parts[-1]
        for p in reversed(parts[:-1]):
            out = f"(TSeq {p} {out})"
        return out


def generate() -> dict:
    mod = ast.parse(SRC.read_text())
    classes = {n.name: n for n in mod.body if isinstance(n, ast.ClassDef)}
    for cname, want in METHODS.items():
        if cname not in classes:
            refuse("module", mod, f"class {cname} missing")
        got = sorted(n.name for n in classes[cname].body if isinstance(n, (ast.FunctionDef, ast.AsyncFunctionDef)))
        if got != sorted(want):
            refuse(cname, classes[cname], f"set of methods differs: {got}")
    for (cname, mname), want in LITERAL.items():
        fn = next(n for n in classes[cname].body if isinstance(n, (ast.FunctionDef, ast.AsyncFunctionDef)) and n.name == mname)
        got = "; ".join(ast.unparse(s) for s in body_of(fn))
        if got != want:
            refuse(f"{cname}.{mname}", fn, f"body differs from the checked literal: {got[:140]}")
    # one decoder / encoder OBJECT per stream: the fields that hold them
    for cname, fld in (("TextReceiveStream", "_decoder: codecs.IncrementalDecoder = field(init=False)"),
                       ("TextSendStream", "_encoder: codecs.IncrementalEncoder = field(init=False)")):
        fields = [ast.unparse(s) for s in classes[cname].body if isinstance(s, ast.AnnAssign)]
        if fld not in fields:
            refuse(cname, classes[cname], f"field differs: {fields}")
    out = {}
    fn = next(n for n in classes["TextReceiveStream"].body if isinstance(n, ast.AsyncFunctionDef) and n.name == "receive")
    if len(fn.args.args) != 1:
        refuse("receive", fn, "signature")
    out["gen_text_receive"] = Method(fn, {}).seq(body_of(fn), False)
    fn = next(n for n in classes["TextSendStream"].body if isinstance(n, ast.AsyncFunctionDef) and n.name == "send")
    if len(fn.args.args) != 2:
        refuse("send", fn, "signature")
    out["gen_text_send"] = Method(fn, {fn.args.args[1].arg: "item"}).seq(body_of(fn), False)
    return out


HEADER = "(* GENERATED by tools/translate_text.py from src/anyio/streams/text.py - do not edit *)\nFrom AV Require Import Base Text TextImp.\n\n"


def main() -> int:
    try:
        progs = generate()
    except Refused as e:
        msg = f"translate_text: REFUSED: {e}"
        print(msg)
        OUT.write_text(HEADER + f"(* {msg.replace('*)', '* )')} *)\nDefinition gen_text_receive : tstmt := translator_refused.\n")
        return 2
    text = HEADER + "".join(f"Definition {k} : tstmt :=\n  {progs[k]}.\n\n" for k in ("gen_text_receive", "gen_text_send"))
    if not OUT.exists() or OUT.read_text() != text:
        OUT.write_text(text)
    print(f"translate_text: ok TextReceiveStream/TextSendStream segments=gen_text_receive,gen_text_send source={SRC}")
    for k in ("gen_text_receive", "gen_text_send"):
        print(f"  {k} := {progs[k]}")
    return 0


if __name__ == "__main__":
    sys.exit(main())
